package main

// C11: protocol skeletons of monadIO.go with the property-neutral atoms removed.  Reading a handler field while a value
// is being constructed (e.g. a FlatMap that hands its operand's handlers on to its result) does not touch anything the
// property fixes, so top-level `get(obOn)` / `get(subOn)` atoms are dropped; everything else is the shared skeleton
// grammar (skeleton.go).

import (
	"fmt"
	"go/ast"
	"go/parser"
	"go/token"
	"path/filepath"
	"sort"
	"strings"
)

func genC11(repo string) (string, error) {
	fset := token.NewFileSet()
	f, err := parser.ParseFile(fset, filepath.Join(repo, "monadIO.go"), nil, 0)
	if err != nil {
		return "", err
	}
	type ent struct{ name, skel string }
	var ents []ent
	for _, d := range f.Decls {
		fd, ok := d.(*ast.FuncDecl)
		if !ok || fd.Body == nil {
			continue
		}
		name := fd.Name.Name
		if fd.Recv != nil && len(fd.Recv.List) > 0 {
			t := fd.Recv.List[0].Type
			if st, ok := t.(*ast.StarExpr); ok {
				t = st.X
			}
			if ix, ok := t.(*ast.IndexExpr); ok {
				t = ix.X
			}
			if ix, ok := t.(*ast.IndexListExpr); ok {
				t = ix.X
			}
			name = sel(t) + "." + name
		}
		var atoms, kept []string
		blockAtoms(fd.Body, &atoms)
		for _, a := range atoms {
			if a == "get(obOn)" || a == "get(subOn)" {
				continue
			}
			kept = append(kept, a)
		}
		ents = append(ents, ent{name, strings.Join(kept, " ")})
	}
	sort.Slice(ents, func(i, j int) bool { return ents[i].name < ents[j].name })
	var b strings.Builder
	b.WriteString("namespace FpgoVerif.Gen\n\n/-- protocol skeletons of monadIO.go, handler-field reads at statement level dropped -/\ndef monadIOSkeletons : List (String × String) := [\n")
	for i, e := range ents {
		sep := ","
		if i == len(ents)-1 {
			sep = ""
		}
		fmt.Fprintf(&b, "  (%s, %s)%s\n", leanStr(e.name), leanStr(e.skel), sep)
	}
	b.WriteString("]\n\ndef monadIOSkeletonOf (m : String) : Option String := (monadIOSkeletons.find? (·.1 == m)).map (·.2)\n\nend FpgoVerif.Gen\n")
	return b.String(), nil
}

func init() { register("C11Skeletons.lean", genC11) }
