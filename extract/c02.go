package main

// C02 — conversion case table (DESIGN.md section 6 "C02"): every `case` clause of the type switch of every
// To* conversion method of someDef in maybe.go becomes one Lean IR term (types: lean/FpgoVerif/Model/C02IR.lean).
// The translator is purely syntactic; constants (math.MaxInt32, 1<<63, math.MaxFloat32, maxUintptr) are
// resolved to integer numerals.  Whatever is outside the IR grammar becomes an `untranslatable "<src>"` term,
// which the Lean evaluator turns into `garbage` and the reflective checker rejects.

import (
	"bytes"
	"fmt"
	"go/ast"
	"go/parser"
	"go/printer"
	"go/token"
	"math/big"
	"path/filepath"
	"strings"
)

func c02pow2(n uint) *big.Int { return new(big.Int).Lsh(big.NewInt(1), n) }

var c02MathConst = map[string]*big.Int{}

func init() {
	register("ConvTable.lean", genConvTable)
	set := func(n, v string) { b, _ := new(big.Int).SetString(v, 10); c02MathConst[n] = b }
	set("MaxInt8", "127")
	set("MinInt8", "-128")
	set("MaxInt16", "32767")
	set("MinInt16", "-32768")
	set("MaxInt32", "2147483647")
	set("MinInt32", "-2147483648")
	set("MaxInt64", "9223372036854775807")
	set("MinInt64", "-9223372036854775808")
	set("MaxUint8", "255")
	set("MaxUint16", "65535")
	set("MaxUint32", "4294967295")
	set("MaxUint64", "18446744073709551615")
	// 64-bit platform (trusted base): int = int64, uint = uint64
	set("MaxInt", "9223372036854775807")
	set("MinInt", "-9223372036854775808")
	set("MaxUint", "18446744073709551615")
	// the largest finite float32 / float64 are integers
	c02MathConst["MaxFloat32"] = new(big.Int).Mul(new(big.Int).Sub(c02pow2(24), big.NewInt(1)), c02pow2(104))
	c02MathConst["MaxFloat64"] = new(big.Int).Mul(new(big.Int).Sub(c02pow2(53), big.NewInt(1)), c02pow2(971))
}

var c02TyNames = map[string]string{"int": "int", "int8": "int8", "int16": "int16", "int32": "int32", "int64": "int64",
	"uint": "uint", "uint8": "uint8", "byte": "uint8", "uint16": "uint16", "uint32": "uint32", "uint64": "uint64",
	"uintptr": "uintptr", "float32": "float32", "float64": "float64", "bool": "bool", "string": "string"}

type c02ctx struct {
	fset    *token.FileSet
	bound   map[string]bool     // the variable bound by `val, err := ...`
	consts  map[string]*big.Int // function-local constants (maxUintptr)
	methods map[string]string   // To* method name -> target type name
}

func (c *c02ctx) text(n ast.Node) string {
	var b bytes.Buffer
	printer.Fprint(&b, c.fset, n)
	s := b.String()
	var o strings.Builder
	for _, r := range s {
		switch {
		case r == '"' || r == '\\':
			o.WriteByte('\'')
		case r == '\n' || r == '\t':
			o.WriteByte(' ')
		case r < 32 || r > 126:
			o.WriteByte('?')
		default:
			o.WriteRune(r)
		}
	}
	s = o.String()
	if len(s) > 120 {
		s = s[:120] + "..."
	}
	return s
}

func c02lit(z *big.Int) string {
	if z.Sign() < 0 {
		return "(.lit (" + z.String() + "))"
	}
	return "(.lit " + z.String() + ")"
}

// constant integer expressions
func (c *c02ctx) constInt(e ast.Expr) (*big.Int, bool) {
	switch x := e.(type) {
	case *ast.ParenExpr:
		return c.constInt(x.X)
	case *ast.BasicLit:
		if x.Kind == token.INT {
			z, ok := new(big.Int).SetString(strings.ReplaceAll(x.Value, "_", ""), 0)
			return z, ok
		}
	case *ast.Ident:
		if z, ok := c.consts[x.Name]; ok {
			return z, true
		}
	case *ast.SelectorExpr:
		if id, ok := x.X.(*ast.Ident); ok && id.Name == "math" {
			if z, ok := c02MathConst[x.Sel.Name]; ok {
				return z, true
			}
		}
	case *ast.UnaryExpr:
		if z, ok := c.constInt(x.X); ok {
			switch x.Op {
			case token.SUB:
				return new(big.Int).Neg(z), true
			case token.ADD:
				return z, true
			}
		}
	case *ast.BinaryExpr:
		a, ok1 := c.constInt(x.X)
		b, ok2 := c.constInt(x.Y)
		if ok1 && ok2 {
			switch x.Op {
			case token.ADD:
				return new(big.Int).Add(a, b), true
			case token.SUB:
				return new(big.Int).Sub(a, b), true
			case token.MUL:
				return new(big.Int).Mul(a, b), true
			case token.SHL:
				if b.Sign() >= 0 && b.IsInt64() && b.Int64() <= 2048 {
					return new(big.Int).Lsh(a, uint(b.Int64())), true
				}
			}
		}
	}
	return nil, false
}

func (c *c02ctx) expr(e ast.Expr) string {
	if z, ok := c.constInt(e); ok {
		return c02lit(z)
	}
	switch x := e.(type) {
	case *ast.ParenExpr:
		return c.expr(x.X)
	case *ast.Ident:
		if c.bound[x.Name] {
			return ".v"
		}
		if x.Name == "true" || x.Name == "false" {
			return "(.blit " + x.Name + ")"
		}
	case *ast.BinaryExpr:
		if x.Op == token.NEQ {
			if z, ok := c.constInt(x.Y); ok && z.Sign() == 0 {
				return "(.ne0 " + c.expr(x.X) + ")"
			}
		}
	case *ast.CallExpr:
		if id, ok := x.Fun.(*ast.Ident); ok && len(x.Args) == 1 {
			if t, ok := c02TyNames[id.Name]; ok {
				return "(.cast ." + t + " " + c.expr(x.Args[0]) + ")"
			}
		}
		if se, ok := x.Fun.(*ast.SelectorExpr); ok && len(x.Args) == 1 {
			if id, ok := se.X.(*ast.Ident); ok && id.Name == "math" && se.Sel.Name == "Round" {
				return "(.round " + c.expr(x.Args[0]) + ")"
			}
		}
	}
	return fmt.Sprintf("(.untranslatable %q)", c.text(e))
}

func (c *c02ctx) cond(e ast.Expr) string {
	switch x := e.(type) {
	case *ast.ParenExpr:
		return c.cond(x.X)
	case *ast.Ident:
		if c.bound[x.Name] {
			return "(.truth .v)"
		}
	case *ast.BinaryExpr:
		switch x.Op {
		case token.LAND:
			return "(.and " + c.cond(x.X) + " " + c.cond(x.Y) + ")"
		case token.LOR:
			return "(.or " + c.cond(x.X) + " " + c.cond(x.Y) + ")"
		case token.LEQ, token.GEQ, token.LSS, token.GTR:
			op := map[token.Token]string{token.LEQ: ".le", token.GEQ: ".ge", token.LSS: ".lt", token.GTR: ".gt"}[x.Op]
			return "(" + op + " " + c.expr(x.X) + " " + c.expr(x.Y) + ")"
		}
	case *ast.CallExpr:
		if se, ok := x.Fun.(*ast.SelectorExpr); ok {
			if id, ok := se.X.(*ast.Ident); ok && id.Name == "math" {
				if se.Sel.Name == "IsNaN" && len(x.Args) == 1 {
					return "(.isNaN " + c.expr(x.Args[0]) + ")"
				}
				if se.Sel.Name == "IsInf" && len(x.Args) == 2 {
					if z, ok := c.constInt(x.Args[1]); ok && z.Sign() == 0 {
						return "(.isInf " + c.expr(x.Args[0]) + ")"
					}
				}
			}
		}
	}
	return fmt.Sprintf("(.untranslatable %q)", c.text(e))
}

func (c *c02ctx) errKind(e ast.Expr, errVar string) string {
	if id, ok := e.(*ast.Ident); ok {
		switch {
		case id.Name == "nil":
			return ".nil"
		case errVar != "" && id.Name == errVar:
			return ".fromCall"
		case id.Name == "ErrConversionSizeOverflow":
			return ".overflow"
		case id.Name == "ErrConversionUnsupported":
			return ".unsupported"
		case id.Name == "ErrConversionNil":
			return ".nilErr"
		}
	}
	return fmt.Sprintf("(.untranslatable %q)", c.text(e))
}

func (c *c02ctx) ret(r *ast.ReturnStmt, errVar string) (string, bool) {
	if len(r.Results) != 2 {
		return "", false
	}
	return "⟨" + c.expr(r.Results[0]) + ", " + c.errKind(r.Results[1], errVar) + "⟩", true
}

// is e the wrapped string itself: `(ref).(string)` or `maybeSelf.ToString()`
func c02isTheString(e ast.Expr) bool {
	for {
		p, ok := e.(*ast.ParenExpr)
		if !ok {
			break
		}
		e = p.X
	}
	switch x := e.(type) {
	case *ast.TypeAssertExpr:
		if id, ok := x.Type.(*ast.Ident); ok && id.Name == "string" {
			return c02isRef(x.X)
		}
	case *ast.CallExpr:
		if se, ok := x.Fun.(*ast.SelectorExpr); ok && len(x.Args) == 0 {
			if id, ok := se.X.(*ast.Ident); ok && id.Name == "maybeSelf" && se.Sel.Name == "ToString" {
				return true
			}
		}
	}
	return false
}

func c02isRef(e ast.Expr) bool {
	for {
		p, ok := e.(*ast.ParenExpr)
		if !ok {
			break
		}
		e = p.X
	}
	id, ok := e.(*ast.Ident)
	return ok && id.Name == "ref"
}

// the call on the right-hand side of a binding / returned directly
func (c *c02ctx) src(e ast.Expr) string {
	un := fmt.Sprintf("(.untranslatable %q)", c.text(e))
	call, ok := e.(*ast.CallExpr)
	if !ok {
		return un
	}
	se, ok := call.Fun.(*ast.SelectorExpr)
	if !ok {
		return un
	}
	id, ok := se.X.(*ast.Ident)
	if !ok {
		return un
	}
	if id.Name == "maybeSelf" && len(call.Args) == 0 {
		if t, ok := c.methods[se.Sel.Name]; ok {
			return "(.self ." + t + ")"
		}
		return un
	}
	if id.Name == "strconv" && len(call.Args) >= 1 && c02isTheString(call.Args[0]) {
		intArg := func(i int) (int64, bool) {
			if i >= len(call.Args) {
				return 0, false
			}
			z, ok := c.constInt(call.Args[i])
			if !ok || !z.IsInt64() {
				return 0, false
			}
			return z.Int64(), true
		}
		switch se.Sel.Name {
		case "ParseInt", "ParseUint":
			base, ok1 := intArg(1)
			bits, ok2 := intArg(2)
			if len(call.Args) == 3 && ok1 && ok2 && base == 10 && bits >= 0 && bits <= 64 {
				if bits == 0 {
					bits = 64 // 64-bit platform
				}
				if se.Sel.Name == "ParseInt" {
					return fmt.Sprintf("(.parseInt %d)", bits)
				}
				return fmt.Sprintf("(.parseUint %d)", bits)
			}
		case "ParseFloat":
			bits, ok := intArg(1)
			if len(call.Args) == 2 && ok && (bits == 32 || bits == 64) {
				return fmt.Sprintf("(.parseFloat %d)", bits)
			}
		case "Atoi":
			if len(call.Args) == 1 {
				return ".atoi"
			}
		case "ParseBool":
			if len(call.Args) == 1 {
				return ".parseBool"
			}
		}
	}
	return un
}

func (c *c02ctx) body(stmts []ast.Stmt, caseTy string) string {
	c.bound = map[string]bool{}
	unknown := func() string {
		parts := []string{}
		for _, s := range stmts {
			parts = append(parts, c.text(s))
		}
		t := strings.Join(parts, "; ")
		if len(t) > 160 {
			t = t[:160] + "..."
		}
		return fmt.Sprintf("(.untranslatable %q)", t)
	}
	if len(stmts) == 0 {
		return unknown()
	}
	if len(stmts) == 1 {
		r, ok := stmts[0].(*ast.ReturnStmt)
		if !ok {
			return unknown()
		}
		if len(r.Results) == 2 {
			e := r.Results[0]
			for {
				p, ok := e.(*ast.ParenExpr)
				if !ok {
					break
				}
				e = p.X
			}
			if ta, ok := e.(*ast.TypeAssertExpr); ok {
				if id, ok := ta.Type.(*ast.Ident); ok && c02isRef(ta.X) && c02TyNames[id.Name] == caseTy && caseTy != "" && c.errKind(r.Results[1], "") == ".nil" {
					return ".ident"
				}
				return unknown()
			}
			if s, ok := c.ret(r, ""); ok {
				return "(.ret " + s + ")"
			}
		}
		if len(r.Results) == 1 {
			return "(.direct " + c.src(r.Results[0]) + ")"
		}
		return unknown()
	}
	as, ok := stmts[0].(*ast.AssignStmt)
	if !ok || as.Tok != token.DEFINE || len(as.Lhs) != 2 || len(as.Rhs) != 1 {
		return unknown()
	}
	v0, ok0 := as.Lhs[0].(*ast.Ident)
	v1, ok1 := as.Lhs[1].(*ast.Ident)
	if !ok0 || !ok1 || v0.Name == "_" || v1.Name == "_" {
		return unknown()
	}
	errVar := v1.Name
	s := c.src(as.Rhs[0])
	c.bound[v0.Name] = true
	switch len(stmts) {
	case 2:
		r, ok := stmts[1].(*ast.ReturnStmt)
		if !ok {
			return unknown()
		}
		t, ok := c.ret(r, errVar)
		if !ok {
			return unknown()
		}
		return "(.bind " + s + " none " + t + " none)"
	case 3:
		ifs, ok := stmts[1].(*ast.IfStmt)
		r2, ok2 := stmts[2].(*ast.ReturnStmt)
		if !ok || !ok2 || ifs.Else != nil || ifs.Init != nil || len(ifs.Body.List) != 1 {
			return unknown()
		}
		r1, ok := ifs.Body.List[0].(*ast.ReturnStmt)
		if !ok {
			return unknown()
		}
		t, okT := c.ret(r1, errVar)
		f, okF := c.ret(r2, errVar)
		if !okT || !okF {
			return unknown()
		}
		return "(.bind " + s + " (some " + c.cond(ifs.Cond) + ") " + t + " (some " + f + "))"
	}
	return unknown()
}

func c02recvIsSomeDef(fd *ast.FuncDecl) bool {
	if fd.Recv == nil || len(fd.Recv.List) != 1 {
		return false
	}
	t := fd.Recv.List[0].Type
	if st, ok := t.(*ast.StarExpr); ok {
		t = st.X
	}
	ie, ok := t.(*ast.IndexExpr)
	if !ok {
		return false
	}
	id, ok := ie.X.(*ast.Ident)
	return ok && id.Name == "someDef"
}

// result type of a conversion method: `(X, error)` with X a basic type
func c02convTarget(fd *ast.FuncDecl) (string, bool) {
	if fd.Type.Params != nil && len(fd.Type.Params.List) != 0 {
		return "", false
	}
	if fd.Type.Results == nil || len(fd.Type.Results.List) != 2 {
		return "", false
	}
	a, ok1 := fd.Type.Results.List[0].Type.(*ast.Ident)
	b, ok2 := fd.Type.Results.List[1].Type.(*ast.Ident)
	if !ok1 || !ok2 || b.Name != "error" {
		return "", false
	}
	t, ok := c02TyNames[a.Name]
	return t, ok
}

func genConvTable(repo string) (string, error) {
	fset := token.NewFileSet()
	f, err := parser.ParseFile(fset, filepath.Join(repo, "maybe.go"), nil, 0)
	if err != nil {
		return "", err
	}
	c := &c02ctx{fset: fset, methods: map[string]string{}}
	var fds []*ast.FuncDecl
	for _, d := range f.Decls {
		fd, ok := d.(*ast.FuncDecl)
		if !ok || !c02recvIsSomeDef(fd) || !strings.HasPrefix(fd.Name.Name, "To") || fd.Body == nil {
			continue
		}
		if t, ok := c02convTarget(fd); ok {
			c.methods[fd.Name.Name] = t
			fds = append(fds, fd)
		}
	}
	var methods, aliases, rows []string
	row := func(tgt, kind, body string) { rows = append(rows, fmt.Sprintf("  ⟨.%s, %s, %s⟩", tgt, kind, body)) }
	for _, fd := range fds {
		name, tgt := fd.Name.Name, c.methods[fd.Name.Name]
		c.consts = map[string]*big.Int{}
		stmts := fd.Body.List
		// whole-method delegation: `return maybeSelf.ToX()`
		if len(stmts) == 1 {
			if r, ok := stmts[0].(*ast.ReturnStmt); ok && len(r.Results) == 1 {
				if call, ok := r.Results[0].(*ast.CallExpr); ok && len(call.Args) == 0 {
					if se, ok := call.Fun.(*ast.SelectorExpr); ok {
						if id, ok := se.X.(*ast.Ident); ok && id.Name == "maybeSelf" && c.methods[se.Sel.Name] == tgt && se.Sel.Name != name {
							aliases = append(aliases, fmt.Sprintf("  (%q, %q)", name, se.Sel.Name))
							continue
						}
					}
				}
			}
		}
		methods = append(methods, fmt.Sprintf("  (%q, .%s)", name, tgt))
		sawSwitch := false
		for i, st := range stmts {
			switch x := st.(type) {
			case *ast.IfStmt:
				// nil prelude: if maybeSelf.IsNil() { return <zero>, ErrConversionNil }
				ok := false
				if i == 0 && x.Init == nil && x.Else == nil && len(x.Body.List) == 1 {
					if call, isCall := x.Cond.(*ast.CallExpr); isCall && len(call.Args) == 0 {
						if se, isSel := call.Fun.(*ast.SelectorExpr); isSel && se.Sel.Name == "IsNil" {
							if id, isId := se.X.(*ast.Ident); isId && id.Name == "maybeSelf" {
								if r, isRet := x.Body.List[0].(*ast.ReturnStmt); isRet {
									c.bound = map[string]bool{}
									if s, okR := c.ret(r, ""); okR {
										row(tgt, ".nil", "(.ret "+s+")")
										ok = true
									}
								}
							}
						}
					}
				}
				if !ok {
					row(tgt, fmt.Sprintf("(.other %q)", c.text(x.Cond)), fmt.Sprintf("(.untranslatable %q)", "if statement outside the prelude shape"))
				}
			case *ast.AssignStmt:
				// maxUintptr := uint64(^uintptr(0))   (64-bit platform: 2^64-1)
				if len(x.Lhs) == 1 && len(x.Rhs) == 1 && x.Tok == token.DEFINE {
					if id, ok := x.Lhs[0].(*ast.Ident); ok && c.text(x.Rhs[0]) == "uint64(^uintptr(0))" {
						c.consts[id.Name] = c02MathConst["MaxUint64"]
						continue
					}
				}
				row(tgt, fmt.Sprintf("(.other %q)", c.text(x)), fmt.Sprintf("(.untranslatable %q)", "assignment outside the known shapes"))
			case *ast.DeclStmt:
				if c.text(x) == "var ref interface{} = maybeSelf.ref" || c.text(x) == "var ref any = maybeSelf.ref" {
					continue
				}
				row(tgt, fmt.Sprintf("(.other %q)", c.text(x)), fmt.Sprintf("(.untranslatable %q)", "declaration outside the known shapes"))
			case *ast.TypeSwitchStmt:
				okSwitch := !sawSwitch && x.Init == nil
				if es, ok := x.Assign.(*ast.ExprStmt); ok {
					if ta, ok := es.X.(*ast.TypeAssertExpr); !ok || ta.Type != nil || !c02isRef(ta.X) {
						okSwitch = false
					}
				} else {
					okSwitch = false
				}
				sawSwitch = true
				if !okSwitch {
					row(tgt, fmt.Sprintf("(.other %q)", "type switch"), fmt.Sprintf("(.untranslatable %q)", "type switch not of the form switch ref.(type)"))
					continue
				}
				for _, cl := range x.Body.List {
					cc := cl.(*ast.CaseClause)
					if cc.List == nil {
						row(tgt, ".dflt", c.body(cc.Body, ""))
						continue
					}
					for _, e := range cc.List {
						if id, ok := e.(*ast.Ident); ok {
							if t, ok := c02TyNames[id.Name]; ok {
								row(tgt, "(.ty ."+t+")", c.body(cc.Body, t))
								continue
							}
						}
						row(tgt, fmt.Sprintf("(.other %q)", c.text(e)), c.body(cc.Body, ""))
					}
				}
			default:
				row(tgt, fmt.Sprintf("(.other %q)", c.text(st)), fmt.Sprintf("(.untranslatable %q)", "statement outside the known shapes"))
			}
		}
		if !sawSwitch {
			row(tgt, fmt.Sprintf("(.other %q)", "no type switch"), fmt.Sprintf("(.untranslatable %q)", "method has no type switch"))
		}
	}
	var b strings.Builder
	b.WriteString("import FpgoVerif.Model.C02IR\n/-! Conversion case table of maybe.go (one term per method × case clause). -/\nnamespace FpgoVerif.Gen\nopen FpgoVerif.C02\n\n")
	b.WriteString("/-- conversion methods with their own type switch, and their result type -/\ndef convMethods : List (String × Ty) := [\n" + strings.Join(methods, ",\n") + "\n]\n\n")
	b.WriteString("/-- methods that are a plain delegation `return maybeSelf.ToX()` to a method with the same result type -/\ndef convAliases : List (String × String) := [\n" + strings.Join(aliases, ",\n") + "\n]\n\n")
	b.WriteString("def convTable : List Case := [\n" + strings.Join(rows, ",\n") + "\n]\n\nend FpgoVerif.Gen\n")
	return b.String(), nil
}
