package main

// C07 — guards and counting expressions of BufferedChannelQueue that the protocol skeleton does not carry
// (the skeleton records *that* there is an `if`, not its comparison operator).  For the methods the C07
// transition system models, every `if` / `for` condition and every returned expression is printed in source
// order, with the receiver variable renamed to `q` and whitespace normalised:
//
//	FpgoVerif.Gen.bcqGuards : List (String × List String)        -- method ↦ ["if <cond>", "for <cond>", "set <assignment>", "return <exprs>", …]
//
// plus (review R3) the same for ChannelQueue's six wrappers (keys "ChannelQueue.<Method>": `if !ok`, what each select
// branch returns) and the constructor wiring ("NewBufferedChannelQueue": the capacity-deciding fields of the literal;
// "NewChannelQueue": the `make` expression).
//
// The closing theorem in Props/C07.lean pins the comparison operators (`poolCount == 0`,
// `poolCount >= q.bufferSizeMaximum`, `q.pool.Count() > 0`) and the Count expression.

import (
	"fmt"
	"go/ast"
	"go/parser"
	"go/token"
	"path/filepath"
	"strings"
)

var c07Methods = map[string]bool{"Offer": true, "Put": true, "Count": true, "loadFromPool": true, "notifyWorkers": true,
	"Take": true, "TakeWithTimeout": true, "Poll": true, "GetChannel": true}

var c07ChqMethods = map[string]bool{"Put": true, "PutWithTimeout": true, "Take": true, "TakeWithTimeout": true, "Offer": true, "Poll": true}

// fields of the BufferedChannelQueue literal that decide capacities / wiring (durations and the node-pool size do not)
var c07Fields = map[string]bool{"loadWorkerCh": true, "blockingQueue": true, "pool": true, "bufferSizeMaximum": true}

func c07Rename(n ast.Node, recv string) {
	ast.Inspect(n, func(x ast.Node) bool {
		if id, ok := x.(*ast.Ident); ok && id.Name == recv {
			id.Name = "q"
		}
		return true
	})
}

func genBCQGuards(repo string) (string, error) {
	fset := token.NewFileSet()
	f, err := parser.ParseFile(fset, filepath.Join(repo, "queue.go"), nil, 0)
	if err != nil {
		return "", err
	}
	var b strings.Builder
	b.WriteString("namespace FpgoVerif.Gen\n\n/-- conditions and returned expressions of the BufferedChannelQueue methods, in source order -/\ndef bcqGuards : List (String × List String) := [\n")
	first := true
	for _, d := range f.Decls {
		fd, ok := d.(*ast.FuncDecl)
		if ok && fd.Body != nil && fd.Recv == nil && (fd.Name.Name == "NewBufferedChannelQueue" || fd.Name.Name == "NewChannelQueue") {
			// constructor wiring: which capacity goes where (the skeleton only says that three channels are made)
			var items []string
			ast.Inspect(fd.Body, func(n ast.Node) bool {
				switch x := n.(type) {
				case *ast.KeyValueExpr:
					if k, ok := x.Key.(*ast.Ident); ok && c07Fields[k.Name] {
						items = append(items, "field "+k.Name+": "+c08Print(fset, x.Value))
					}
				case *ast.ReturnStmt:
					if fd.Name.Name == "NewChannelQueue" && len(x.Results) == 1 {
						items = append(items, "return "+c08Print(fset, x.Results[0]))
					}
				}
				return true
			})
			ss := make([]string, len(items))
			for i, s := range items {
				ss[i] = leanStr(s)
			}
			if !first {
				b.WriteString(",\n")
			}
			first = false
			fmt.Fprintf(&b, "  (%s, [%s])", leanStr(fd.Name.Name), strings.Join(ss, ", "))
			continue
		}
		if !ok || fd.Body == nil || fd.Recv == nil || len(fd.Recv.List) == 0 || !(c07Methods[fd.Name.Name] || c07ChqMethods[fd.Name.Name]) {
			continue
		}
		t := fd.Recv.List[0].Type
		if st, ok := t.(*ast.StarExpr); ok {
			t = st.X
		}
		if ix, ok := t.(*ast.IndexExpr); ok {
			t = ix.X
		}
		key := fd.Name.Name
		switch sel(t) {
		case "BufferedChannelQueue":
		case "ChannelQueue":
			// the channel wrappers (Put, PutWithTimeout, Take, TakeWithTimeout, Offer, Poll): `if !ok`, what each
			// select branch returns
			if !c07ChqMethods[fd.Name.Name] {
				continue
			}
			key = "ChannelQueue." + fd.Name.Name
		default:
			continue
		}
		recv := c08RecvName(fd)
		if recv != "" {
			c07Rename(fd.Body, recv)
		}
		var items []string
		ast.Inspect(fd.Body, func(n ast.Node) bool {
			switch x := n.(type) {
			case *ast.IfStmt:
				items = append(items, "if "+c08Print(fset, x.Cond))
			case *ast.ForStmt:
				if x.Cond != nil {
					items = append(items, "for "+c08Print(fset, x.Cond))
				} else {
					items = append(items, "for")
				}
			case *ast.ReturnStmt:
				parts := make([]string, len(x.Results))
				for i, r := range x.Results {
					parts[i] = c08Print(fset, r)
				}
				items = append(items, strings.TrimSpace("return "+strings.Join(parts, ", ")))
			case *ast.AssignStmt:
				items = append(items, "set "+c08Print(fset, x))
			case *ast.FuncLit:
				return false
			}
			return true
		})
		ss := make([]string, len(items))
		for i, s := range items {
			ss[i] = leanStr(s)
		}
		if !first {
			b.WriteString(",\n")
		}
		first = false
		fmt.Fprintf(&b, "  (%s, [%s])", leanStr(key), strings.Join(ss, ", "))
	}
	b.WriteString("\n]\n\ndef bcqGuardsOf (m : String) : Option (List String) := (bcqGuards.find? (·.1 == m)).map (·.2)\n\nend FpgoVerif.Gen\n")
	return b.String(), nil
}

func init() { register("BCQGuards.lean", genBCQGuards) }
