package main

// C01 — method inventory of maybe.go (DESIGN.md section 6 "C01", tie column "method inventory"):
//   * the method set of the interface MaybeDef,
//   * every method of someDef[T] with: the shape of a leading `if maybeSelf.IsNil() { return … }` guard, the number
//     of mentions of ErrConversionNil in the body, and the callee when the body is a one-line delegation,
//   * every method of noneDef (the overrides; everything else is promoted from the embedded someDef[interface{}])
//     with the rendering of a single `return …` body.
// Only data is emitted; Props/C01.lean closes over it with `decide`.

import (
	"bytes"
	"fmt"
	"go/ast"
	"go/parser"
	"go/printer"
	"go/token"
	"path/filepath"
	"strings"
)

func c01Expr(fset *token.FileSet, e ast.Expr) string {
	// zero literals are classified, everything else is printed
	switch x := e.(type) {
	case *ast.BasicLit:
		if x.Value == "0" {
			return "zero"
		}
	case *ast.Ident:
		if x.Name == "false" {
			return "zero"
		}
	case *ast.CallExpr:
		if len(x.Args) == 1 {
			if _, ok := x.Fun.(*ast.Ident); ok {
				if c01Expr(fset, x.Args[0]) == "zero" {
					return "zero"
				}
			}
		}
	}
	var b bytes.Buffer
	printer.Fprint(&b, fset, e)
	return strings.Join(strings.Fields(b.String()), " ")
}

func c01Results(fset *token.FileSet, r *ast.ReturnStmt) string {
	parts := make([]string, len(r.Results))
	for i, e := range r.Results {
		parts[i] = c01Expr(fset, e)
	}
	return strings.Join(parts, ",")
}

func c01RecvName(fd *ast.FuncDecl) (typ, recv string) {
	if fd.Recv == nil || len(fd.Recv.List) == 0 {
		return "", ""
	}
	t := fd.Recv.List[0].Type
	if st, ok := t.(*ast.StarExpr); ok {
		t = st.X
	}
	if ix, ok := t.(*ast.IndexExpr); ok {
		t = ix.X
	}
	if id, ok := t.(*ast.Ident); ok {
		typ = id.Name
	}
	if len(fd.Recv.List[0].Names) > 0 {
		recv = fd.Recv.List[0].Names[0].Name
	}
	return
}

func genMaybeInventory(repo string) (string, error) {
	fset := token.NewFileSet()
	f, err := parser.ParseFile(fset, filepath.Join(repo, "maybe.go"), nil, 0)
	if err != nil {
		return "", err
	}
	var iface []string
	type sm struct {
		name, guard, delegate string
		errNil               int
	}
	var some []sm
	type nm struct{ name, ret string }
	var none []nm
	for _, d := range f.Decls {
		switch x := d.(type) {
		case *ast.GenDecl:
			for _, sp := range x.Specs {
				ts, ok := sp.(*ast.TypeSpec)
				if !ok || ts.Name.Name != "MaybeDef" {
					continue
				}
				it, ok := ts.Type.(*ast.InterfaceType)
				if !ok {
					return "", fmt.Errorf("MaybeDef is not an interface")
				}
				for _, m := range it.Methods.List {
					if len(m.Names) == 0 {
						iface = append(iface, "untranslatable:embedded:"+c01Expr(fset, m.Type))
						continue
					}
					for _, n := range m.Names {
						iface = append(iface, n.Name)
					}
				}
			}
		case *ast.FuncDecl:
			typ, recv := c01RecvName(x)
			if x.Body == nil || (typ != "someDef" && typ != "noneDef") {
				continue
			}
			if typ == "noneDef" {
				ret := "other"
				if len(x.Body.List) == 0 {
					ret = "empty"
				} else if len(x.Body.List) == 1 {
					if r, ok := x.Body.List[0].(*ast.ReturnStmt); ok {
						ret = strings.ReplaceAll(c01Results(fset, r), recv, "self")
					}
				}
				none = append(none, nm{x.Name.Name, ret})
				continue
			}
			m := sm{name: x.Name.Name, guard: "none"}
			ast.Inspect(x.Body, func(n ast.Node) bool {
				if id, ok := n.(*ast.Ident); ok && id.Name == "ErrConversionNil" {
					m.errNil++
				}
				return true
			})
			if len(x.Body.List) > 0 {
				if is, ok := x.Body.List[0].(*ast.IfStmt); ok && is.Init == nil && is.Else == nil {
					if c := c01Expr(fset, is.Cond); (c == recv+".IsNil()" || c == recv+".isNil") && len(is.Body.List) == 1 {
						if r, ok := is.Body.List[0].(*ast.ReturnStmt); ok {
							m.guard = strings.ReplaceAll(c01Results(fset, r), recv, "self")
						}
					}
				}
				if len(x.Body.List) == 1 {
					if r, ok := x.Body.List[0].(*ast.ReturnStmt); ok && len(r.Results) == 1 {
						if c, ok := r.Results[0].(*ast.CallExpr); ok && len(c.Args) == 0 {
							if se, ok := c.Fun.(*ast.SelectorExpr); ok {
								if id, ok := se.X.(*ast.Ident); ok && id.Name == recv {
									m.delegate = se.Sel.Name
								}
							}
						}
					}
				}
			}
			some = append(some, m)
		}
	}
	var b strings.Builder
	b.WriteString("namespace FpgoVerif.Gen\n\n/-- method set of the interface `MaybeDef`, in source order -/\ndef maybeDefMethods : List String := [")
	for i, n := range iface {
		if i > 0 {
			b.WriteString(", ")
		}
		b.WriteString(leanStr(n))
	}
	b.WriteString("]\n\n/-- methods of `someDef[T]`: (name, leading `if self.IsNil() { return … }` guard or \"none\", mentions of ErrConversionNil, one-line delegate or \"\") -/\n")
	b.WriteString("def someDefMethods : List (String × String × Nat × String) := [\n")
	for i, m := range some {
		sep := ","
		if i == len(some)-1 {
			sep = ""
		}
		fmt.Fprintf(&b, "  (%s, %s, %d, %s)%s\n", leanStr(m.name), leanStr(m.guard), m.errNil, leanStr(m.delegate), sep)
	}
	b.WriteString("]\n\n/-- methods of `noneDef` (its overrides): (name, the single `return …` of the body / \"empty\" / \"other\") -/\n")
	b.WriteString("def noneDefMethods : List (String × String) := [\n")
	for i, m := range none {
		sep := ","
		if i == len(none)-1 {
			sep = ""
		}
		fmt.Fprintf(&b, "  (%s, %s)%s\n", leanStr(m.name), leanStr(m.ret), sep)
	}
	b.WriteString("]\n\nend FpgoVerif.Gen\n")
	return b.String(), nil
}

func init() { register("MaybeInventory.lean", genMaybeInventory) }
