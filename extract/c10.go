package main

// C10 facts about publisher.go that the protocol skeleton does not carry (Gen/C10Facts.lean):
//   * Unsubscribe: where the removal writes — the first operand of every append, what is stored into the
//     `subscribers` field, the length argument of the make (the repaired code builds the shortened list in a
//     fresh `make(.., 0, ..)`; the pre-fix code appended into `subscribers[:i]`, i.e. into the shared array);
//   * Subscribe: append(<field>, <the new subscription>) stored back into the field, inside doSubscribeSafe;
//   * Publish: what the delivery loop ranges over (a local snapshot taken from the field inside doSubscribeSafe),
//     and whether each delivery closure owns its subscription variable (per-iteration copy `s := s`, or a go.mod
//     language version >= 1.22) — with SubscribeOn the closure runs later on the handler goroutine.
// Only classifications are emitted, never source text, so renames and reformatting are invisible.

import (
	"fmt"
	"go/ast"
	"go/parser"
	"go/token"
	"os"
	"path/filepath"
	"regexp"
	"strconv"
	"strings"
)

func c10IsField(e ast.Expr) bool {
	se, ok := e.(*ast.SelectorExpr)
	return ok && se.Sel.Name == "subscribers"
}

type c10Classes struct {
	fresh map[string]bool // locals defined by `x := make(...)`
	alias map[string]bool // locals assigned from the subscribers field
}

func (c *c10Classes) class(e ast.Expr) string {
	switch x := e.(type) {
	case *ast.Ident:
		if c.fresh[x.Name] {
			return "fresh-make"
		}
		if c.alias[x.Name] {
			return "alias-of-field"
		}
		return "local"
	case *ast.SelectorExpr:
		if c10IsField(x) {
			return "field"
		}
		return "other"
	case *ast.SliceExpr:
		return "reslice(" + c.class(x.X) + ")"
	case *ast.ParenExpr:
		return c.class(x.X)
	case *ast.CallExpr:
		if id, ok := x.Fun.(*ast.Ident); ok && id.Name == "append" && len(x.Args) > 0 {
			return "append(" + c.class(x.Args[0]) + ")"
		}
		if id, ok := x.Fun.(*ast.Ident); ok && id.Name == "make" {
			return "make"
		}
		return "call"
	case *ast.UnaryExpr:
		if x.Op == token.AND {
			return "addr"
		}
	case *ast.CompositeLit:
		return "literal"
	}
	return "other"
}

func c10Collect(fd *ast.FuncDecl) (*c10Classes, []*ast.AssignStmt) {
	c := &c10Classes{fresh: map[string]bool{}, alias: map[string]bool{}}
	var assigns []*ast.AssignStmt
	ast.Inspect(fd.Body, func(n ast.Node) bool {
		as, ok := n.(*ast.AssignStmt)
		if !ok || len(as.Lhs) != len(as.Rhs) {
			return true
		}
		assigns = append(assigns, as)
		for i, l := range as.Lhs {
			id, ok := l.(*ast.Ident)
			if !ok {
				continue
			}
			if call, ok := as.Rhs[i].(*ast.CallExpr); ok && as.Tok == token.DEFINE {
				if f, ok := call.Fun.(*ast.Ident); ok && f.Name == "make" {
					c.fresh[id.Name] = true
				}
			}
			if c10IsField(as.Rhs[i]) {
				c.alias[id.Name] = true
			}
		}
		return true
	})
	return c, assigns
}

func c10GoVersionAtLeast122(repo string) bool {
	b, err := os.ReadFile(filepath.Join(repo, "go.mod"))
	if err != nil {
		return false
	}
	m := regexp.MustCompile(`(?m)^go\s+(\d+)\.(\d+)`).FindStringSubmatch(string(b))
	if m == nil {
		return false
	}
	maj, _ := strconv.Atoi(m[1])
	min, _ := strconv.Atoi(m[2])
	return maj > 1 || (maj == 1 && min >= 22)
}

// is the FuncLit an argument of a call to doSubscribeSafe?
func c10UnderLock(fd *ast.FuncDecl, target ast.Node) bool {
	found := false
	ast.Inspect(fd.Body, func(n ast.Node) bool {
		call, ok := n.(*ast.CallExpr)
		if !ok {
			return true
		}
		if se, ok := call.Fun.(*ast.SelectorExpr); ok && se.Sel.Name == "doSubscribeSafe" {
			for _, a := range call.Args {
				if fl, ok := a.(*ast.FuncLit); ok && fl.Pos() <= target.Pos() && target.End() <= fl.End() {
					found = true
				}
			}
		}
		return true
	})
	return found
}

func genC10Facts(repo string) (string, error) {
	fset := token.NewFileSet()
	f, err := parser.ParseFile(fset, filepath.Join(repo, "publisher.go"), nil, 0)
	if err != nil {
		return "", err
	}
	fns := map[string]*ast.FuncDecl{}
	for _, d := range f.Decls {
		if fd, ok := d.(*ast.FuncDecl); ok && fd.Recv != nil && fd.Body != nil {
			fns[fd.Name.Name] = fd
		}
	}
	var facts [][2]string
	add := func(k, v string) { facts = append(facts, [2]string{k, v}) }
	lock := func(fd *ast.FuncDecl, n ast.Node) string {
		if c10UnderLock(fd, n) {
			return "locked"
		}
		return "UNLOCKED"
	}

	if fd := fns["Unsubscribe"]; fd != nil {
		c, assigns := c10Collect(fd)
		var appends, stores, freshAssigns, makeLens []string
		ast.Inspect(fd.Body, func(n ast.Node) bool {
			if call, ok := n.(*ast.CallExpr); ok {
				if id, ok := call.Fun.(*ast.Ident); ok {
					if id.Name == "append" && len(call.Args) > 0 {
						appends = append(appends, c.class(call.Args[0])+"/"+lock(fd, call))
					}
					if id.Name == "make" {
						if len(call.Args) >= 2 {
							if bl, ok := call.Args[1].(*ast.BasicLit); ok {
								makeLens = append(makeLens, bl.Value)
							} else {
								makeLens = append(makeLens, "expr")
							}
						} else {
							makeLens = append(makeLens, "none")
						}
					}
				}
			}
			return true
		})
		for _, as := range assigns {
			for i, l := range as.Lhs {
				if c10IsField(l) {
					stores = append(stores, c.class(as.Rhs[i])+"/"+lock(fd, as))
				}
				if id, ok := l.(*ast.Ident); ok && c.fresh[id.Name] && as.Tok != token.DEFINE {
					freshAssigns = append(freshAssigns, c.class(as.Rhs[i]))
				}
			}
		}
		add("Unsubscribe.appendFirstOperands", strings.Join(appends, ","))
		add("Unsubscribe.storesIntoField", strings.Join(stores, ","))
		add("Unsubscribe.reassignmentsOfFresh", strings.Join(freshAssigns, ","))
		add("Unsubscribe.makeLengths", strings.Join(makeLens, ","))
	} else {
		add("Unsubscribe.appendFirstOperands", "untranslatable: no Unsubscribe")
	}

	if fd := fns["Subscribe"]; fd != nil {
		c, assigns := c10Collect(fd)
		var stores []string
		for _, as := range assigns {
			for i, l := range as.Lhs {
				if c10IsField(l) {
					v := c.class(as.Rhs[i])
					if call, ok := as.Rhs[i].(*ast.CallExpr); ok && len(call.Args) == 2 && call.Ellipsis == token.NoPos {
						v += "+one"
					}
					stores = append(stores, v+"/"+lock(fd, as))
				}
			}
		}
		add("Subscribe.storesIntoField", strings.Join(stores, ","))
	}

	if fd := fns["Publish"]; fd != nil {
		c, assigns := c10Collect(fd)
		var ranges, snaps, own []string
		ast.Inspect(fd.Body, func(n ast.Node) bool {
			rs, ok := n.(*ast.RangeStmt)
			if !ok {
				return true
			}
			ranges = append(ranges, c.class(rs.X))
			perIter := c10GoVersionAtLeast122(repo)
			if v, ok := rs.Value.(*ast.Ident); ok && len(rs.Body.List) > 0 {
				// a copy `s := s` anywhere at the top level of the body before the first closure
				for _, st := range rs.Body.List {
					if as, ok := st.(*ast.AssignStmt); ok && as.Tok == token.DEFINE && len(as.Lhs) == 1 && len(as.Rhs) == 1 {
						l, lok := as.Lhs[0].(*ast.Ident)
						r, rok := as.Rhs[0].(*ast.Ident)
						if lok && rok && l.Name == v.Name && r.Name == v.Name {
							perIter = true
						}
						continue
					}
					if es, ok := st.(*ast.ExprStmt); ok {
						if _, ok := es.X.(*ast.CallExpr); ok {
							continue // verifPoint(...)
						}
					}
					break
				}
			}
			own = append(own, fmt.Sprint(perIter))
			return true
		})
		for _, as := range assigns {
			for i, r := range as.Rhs {
				if c10IsField(r) {
					if _, ok := as.Lhs[i].(*ast.Ident); ok {
						snaps = append(snaps, "header-copy/"+lock(fd, as))
					}
				}
			}
		}
		add("Publish.rangesOver", strings.Join(ranges, ","))
		add("Publish.snapshots", strings.Join(snaps, ","))
		add("Publish.deliveryClosureOwnsItsSubscription", strings.Join(own, ","))
	}

	var b strings.Builder
	b.WriteString("namespace FpgoVerif.Gen\n\n/-- classifications of the slice operations of publisher.go (see /verif/extract/c10.go) -/\ndef c10Facts : List (String × String) := [\n")
	for i, kv := range facts {
		sep := ","
		if i == len(facts)-1 {
			sep = ""
		}
		fmt.Fprintf(&b, "  (%s, %s)%s\n", leanStr(kv[0]), leanStr(kv[1]), sep)
	}
	b.WriteString("]\n\ndef c10Fact (k : String) : Option String := (c10Facts.find? (·.1 == k)).map (·.2)\n\nend FpgoVerif.Gen\n")
	return b.String(), nil
}

func init() { register("C10Facts.lean", genC10Facts) }
