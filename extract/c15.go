package main

// C15/C14 facts: the normalised bodies of the small protocol functions whose exact statements matter for the
// shutdown protocol (which channel is closed in which order, the value written to a flag, negations in guards,
// which coroutine is answered).  The generic skeleton drops call arguments and conditions; here the whole body
// is printed with go/printer after removing comments and verifPoint calls, renaming the receiver to `self`
// and collapsing white space.  Larger functions (Offer, loadFromPool, the worker loop) are tied by their
// skeleton only.

import (
	"bytes"
	"fmt"
	"go/ast"
	"go/parser"
	"go/printer"
	"go/token"
	"path/filepath"
	"sort"
	"strings"
)

var c15BodyFuncs = map[string]map[string]bool{
	"handler.go": {"HandlerDef.Post": true, "HandlerDef.Close": true, "HandlerDef.run": true},
	"actor.go":   {"ActorDef.Send": true, "ActorDef.Close": true, "ActorDef.run": true},
	"queue.go": {"BufferedChannelQueue.notifyWorkers": true, "BufferedChannelQueue.Close": true, "BufferedChannelQueue.Take": true,
		"BufferedChannelQueue.TakeWithTimeout": true, "BufferedChannelQueue.Poll": true, "BufferedChannelQueue.GetChannel": true,
		"BufferedChannelQueue.Count": true, "BufferedChannelQueue.Put": true, "ChannelQueue.Offer": true, "ChannelQueue.Take": true,
		"ChannelQueue.Poll": true, "ChannelQueue.TakeWithTimeout": true},
	"cor.go": {"CorDef.close": true, "CorDef.doCloseSafe": true, "CorDef.receive": true, "CorDef.YieldFrom": true,
		"CorDef.YieldRef": true, "CorDef.Start": true, "CorDef.StartWithVal": true, "CorDef.IsDone": true, "CorDef.IsStarted": true,
		"CorDef.DoNotation": true, "CorDef.YieldFromIO": true, "CorNewGenerics": true,
		// the flag type behind every isClosed / isStarted
		"AtomBool.Set": true, "AtomBool.Get": true},
	"worker/pool.go": {"DefaultWorkerPool.Close": true, "DefaultWorkerPool.Schedule": true, "DefaultWorkerPool.IsClosed": true,
		"DefaultInvokable.Invoke": true, "DefaultInvokable.InvokeWithTimeout": true},
}

func c15StripVerif(b *ast.BlockStmt) {
	ast.Inspect(b, func(n ast.Node) bool {
		bl, ok := n.(*ast.BlockStmt)
		if !ok {
			if cc, ok := n.(*ast.CommClause); ok {
				cc.Body = c15Filter(cc.Body)
			}
			if cc, ok := n.(*ast.CaseClause); ok {
				cc.Body = c15Filter(cc.Body)
			}
			return true
		}
		bl.List = c15Filter(bl.List)
		return true
	})
}

func c15Filter(l []ast.Stmt) []ast.Stmt {
	var out []ast.Stmt
	for _, s := range l {
		if es, ok := s.(*ast.ExprStmt); ok {
			if ce, ok := es.X.(*ast.CallExpr); ok {
				if id, ok := ce.Fun.(*ast.Ident); ok && (id.Name == "verifPoint" || id.Name == "VerifPoint") {
					continue
				}
			}
		}
		out = append(out, s)
	}
	return out
}

func genC15Bodies(repo string) (string, error) {
	type ent struct{ name, body string }
	var ents []ent
	files := make([]string, 0, len(c15BodyFuncs))
	for f := range c15BodyFuncs {
		files = append(files, f)
	}
	sort.Strings(files)
	for _, rel := range files {
		fset := token.NewFileSet()
		f, err := parser.ParseFile(fset, filepath.Join(repo, rel), nil, 0)
		if err != nil {
			return "", err
		}
		found := map[string]bool{}
		for _, d := range f.Decls {
			fd, ok := d.(*ast.FuncDecl)
			if !ok || fd.Body == nil {
				continue
			}
			name := fd.Name.Name
			recv := ""
			if fd.Recv != nil && len(fd.Recv.List) > 0 {
				t := fd.Recv.List[0].Type
				if st, ok := t.(*ast.StarExpr); ok {
					t = st.X
				}
				if ix, ok := t.(*ast.IndexExpr); ok {
					t = ix.X
				}
				if ix, ok := t.(*ast.IndexListExpr); ok {
					t = ix.X
				}
				name = sel(t) + "." + name
				if len(fd.Recv.List[0].Names) > 0 {
					recv = fd.Recv.List[0].Names[0].Name
				}
			}
			if !c15BodyFuncs[rel][name] {
				continue
			}
			found[name] = true
			c15StripVerif(fd.Body)
			if recv != "" {
				ast.Inspect(fd.Body, func(n ast.Node) bool {
					if id, ok := n.(*ast.Ident); ok && id.Name == recv {
						id.Name = "self"
					}
					return true
				})
			}
			var buf bytes.Buffer
			if err := printer.Fprint(&buf, fset, fd.Body); err != nil {
				return "", err
			}
			body := strings.Join(strings.Fields(buf.String()), " ")
			pkg := ""
			if strings.HasPrefix(rel, "worker/") {
				pkg = "worker."
			}
			ents = append(ents, ent{pkg + name, body})
		}
		for n := range c15BodyFuncs[rel] {
			if !found[n] {
				ents = append(ents, ent{n, "untranslatable: function not found in " + rel})
			}
		}
	}
	sort.Slice(ents, func(i, j int) bool { return ents[i].name < ents[j].name })
	var b strings.Builder
	b.WriteString("namespace FpgoVerif.Gen\n\n/-- normalised bodies of the small shutdown-protocol functions, by `Type.Method` -/\ndef c15Bodies : List (String × String) := [\n")
	for i, e := range ents {
		sep := ","
		if i == len(ents)-1 {
			sep = ""
		}
		fmt.Fprintf(&b, "  (%s, %s)%s\n", leanStr(e.name), leanStr(e.body), sep)
	}
	b.WriteString("]\n\ndef c15BodyOf (m : String) : Option String := (c15Bodies.find? (·.1 == m)).map (·.2)\n\n")
	// the same bodies cut at their blanks (kernel string equality is quadratic in the length: compare short tokens)
	b.WriteString("/-- `c15Bodies` cut at the blanks: same tokens, same order -/\ndef c15BodyToks : List (String × List String) := [\n")
	for i, e := range ents {
		sep := ","
		if i == len(ents)-1 {
			sep = ""
		}
		fmt.Fprintf(&b, "  (%s, %s)%s\n", leanStr(e.name), c15LeanList(strings.Fields(e.body)), sep)
	}
	b.WriteString("]\n\ndef c15BodyToksOf (m : String) : Option (List String) := (c15BodyToks.find? (·.1 == m)).map (·.2)\n\n")
	// protocol skeletons (extract/skeleton.go) of the larger functions the C15 systems model, cut at the blanks
	skels, err := c15Skeletons(repo)
	if err != nil {
		return "", err
	}
	b.WriteString("/-- protocol skeletons (same atoms as `Gen.skeletons`) of the larger C15 functions, cut at the blanks -/\ndef c15SkelToks : List (String × List String) := [\n")
	for i, e := range skels {
		sep := ","
		if i == len(skels)-1 {
			sep = ""
		}
		fmt.Fprintf(&b, "  (%s, %s)%s\n", leanStr(e[0]), c15LeanList(strings.Fields(e[1])), sep)
	}
	b.WriteString("]\n\ndef c15SkelToksOf (m : String) : Option (List String) := (c15SkelToks.find? (·.1 == m)).map (·.2)\n\nend FpgoVerif.Gen\n")
	return b.String(), nil
}

func c15LeanList(toks []string) string {
	q := make([]string, len(toks))
	for i, t := range toks {
		q[i] = leanStr(t)
	}
	return "[" + strings.Join(q, ", ") + "]"
}

var c15SkelFuncs = map[string]bool{"BufferedChannelQueue.Offer": true, "BufferedChannelQueue.loadFromPool": true,
	"BufferedChannelQueue.freeNodePool": true, "NewBufferedChannelQueue": true, "HandlerDef.NewByCh": true,
	"ActorNewByOptionsGenerics": true, "worker.DefaultWorkerPool.generateWorkerWithMaximum": true,
	"worker.DefaultWorkerPool.spawnLoop": true, "worker.NewDefaultWorkerPool": true}

// c15Skeletons recomputes, with the atoms of skeleton.go, the skeletons of c15SkelFuncs.
func c15Skeletons(repo string) ([][2]string, error) {
	var out [][2]string
	found := map[string]bool{}
	for _, rel := range []string{"handler.go", "actor.go", "queue.go", "worker/pool.go"} {
		fset := token.NewFileSet()
		f, err := parser.ParseFile(fset, filepath.Join(repo, rel), nil, 0)
		if err != nil {
			return nil, err
		}
		for _, d := range f.Decls {
			fd, ok := d.(*ast.FuncDecl)
			if !ok || fd.Body == nil {
				continue
			}
			name := fd.Name.Name
			if fd.Recv != nil && len(fd.Recv.List) > 0 {
				t := fd.Recv.List[0].Type
				if st, ok := t.(*ast.StarExpr); ok {
					t = st.X
				}
				if ix, ok := t.(*ast.IndexExpr); ok {
					t = ix.X
				}
				if ix, ok := t.(*ast.IndexListExpr); ok {
					t = ix.X
				}
				name = sel(t) + "." + name
			}
			if strings.HasPrefix(rel, "worker/") {
				name = "worker." + name
			}
			if !c15SkelFuncs[name] {
				continue
			}
			found[name] = true
			var atoms []string
			blockAtoms(fd.Body, &atoms)
			out = append(out, [2]string{name, strings.Join(atoms, " ")})
		}
	}
	for n := range c15SkelFuncs {
		if !found[n] {
			out = append(out, [2]string{n, "untranslatable: function not found"})
		}
	}
	sort.Slice(out, func(i, j int) bool { return out[i][0] < out[j][0] })
	return out, nil
}

func init() { register("C15Bodies.lean", genC15Bodies) }
