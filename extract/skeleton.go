package main

// Protocol skeletons (DESIGN.md section 3a): for every function of the concurrent components, the
// source-ordered, nesting-preserving list of protocol atoms (lock ops, channel send/recv/close/select,
// go/defer, reads/writes of the designated state fields, calls).  Receiver variable names are dropped.
// Calls are included unless they are on the ignore list (pure helpers, logging, the verif hooks).

import (
	"fmt"
	"go/ast"
	"go/parser"
	"go/token"
	"path/filepath"
	"sort"
	"strings"
)

var ignoredCalls = map[string]bool{"verifPoint": true, "VerifPoint": true, "len": true, "cap": true, "make": true, "new": true,
	"Println": true, "Printf": true, "Sprintf": true, "Sprint": true, "Errorf": true, "Now": true, "Sub": true, "Stack": true,
	"string": true, "int": true, "_": true, "_()": true, "Duration": true}

var stateFields = map[string]bool{"isClosed": true, "isStarted": true, "isDone": true, "workerCount": true, "workerBusy": true,
	"subscribers": true, "args": true, "result": true, "pool": true, "parent": true, "children": true, "subOn": true, "obOn": true}
var chanNames = map[string]bool{"ch": true, "opCh": true, "resultCh": true, "loadWorkerCh": true, "freeNodeWorkerCh": true,
	"blockingQueue": true, "spawnWorkerCh": true, "chJobs": true, "chResult": true, "q": true}
var interestingCalls = map[string]bool{"Lock": true, "Unlock": true, "RLock": true, "RUnlock": true, "Add": true, "Done": true, "Wait": true,
	"Get": true, "Set": true, "Offer": true, "Poll": true, "Put": true, "Take": true, "TakeWithTimeout": true, "Unshift": true, "Shift": true, "Pop": true, "Push": true,
	"Count": true, "notifyWorkers": true, "IsClosed": true, "IsDone": true, "Close": true, "close": true, "doCloseSafe": true, "receive": true,
	"doSubscribeSafe": true, "Post": true, "Send": true, "Sleep": true, "After": true, "recover": true, "panic": true, "append": true,
	"trySpawn": true, "generateWorkerWithMaximum": true, "GetChannel": true, "KeepNodePoolCount": true, "doEffect": true, "Start": true,
	"Subscribe": true, "Publish": true, "Unsubscribe": true, "New": true, "run": true, "Schedule": true, "Reply": true, "AskChannel": true,
	"pMapPreserveOrder": true, "pMapNoOrder": true, "Clone": true, "len": false}
var fnValues = map[string]bool{"fn": true, "effect": true, "OnNext": true, "job": true, "f": true, "handler": true, "callee": true, "doSub": true, "doOb": true}

func sel(e ast.Expr) string {
	switch x := e.(type) {
	case *ast.Ident:
		return x.Name
	case *ast.SelectorExpr:
		return sel(x.X) + "." + x.Sel.Name
	case *ast.StarExpr:
		return sel(x.X)
	case *ast.ParenExpr:
		return sel(x.X)
	case *ast.IndexExpr:
		return sel(x.X)
	case *ast.CallExpr:
		return sel(x.Fun) + "()"
	}
	return "_"
}
func last(s string) string {
	s = strings.TrimSuffix(s, "()")
	if i := strings.LastIndex(s, "."); i >= 0 {
		return s[i+1:]
	}
	return s
}
func dropRecv(s string) string { // drop the receiver variable name (first component) so renames don't matter
	if i := strings.Index(s, "."); i >= 0 {
		return s[i+1:]
	}
	return s
}

// atoms inside an expression, evaluation order approximated by source order
func exprAtoms(e ast.Expr, out *[]string) {
	if e == nil {
		return
	}
	ast.Inspect(e, func(n ast.Node) bool {
		switch x := n.(type) {
		case *ast.FuncLit:
			var inner []string
			blockAtoms(x.Body, &inner)
			*out = append(*out, "func{"+strings.Join(inner, " ")+"}")
			return false
		case *ast.UnaryExpr:
			if x.Op == token.ARROW {
				exprAtoms(x.X, out)
				*out = append(*out, "recv("+dropRecv(sel(x.X))+")")
				return false
			}
		case *ast.CallExpr:
			for _, a := range x.Args {
				exprAtoms(a, out)
			}
			if fl, ok := x.Fun.(*ast.FuncLit); ok { // immediately invoked literal (go func(){...}(), defer func(){...}())
				blockAtoms(fl.Body, out)
				return false
			}
			if se, ok := x.Fun.(*ast.SelectorExpr); ok {
				exprAtoms(se.X, out)
			}
			name := sel(x.Fun)
			l := last(name)
			if fnValues[l] {
				*out = append(*out, "callfn("+l+")")
			} else if v, listed := interestingCalls[l]; (listed && v) || (!listed && !ignoredCalls[l]) {
				*out = append(*out, "call("+dropRecv(name)+")")
			}
			return false
		case *ast.SelectorExpr:
			if stateFields[x.Sel.Name] {
				*out = append(*out, "get("+x.Sel.Name+")")
			}
			return true
		}
		return true
	})
}

func stmtAtoms(s ast.Stmt, out *[]string) {
	switch x := s.(type) {
	case nil:
	case *ast.ExprStmt:
		exprAtoms(x.X, out)
	case *ast.SendStmt:
		exprAtoms(x.Value, out)
		*out = append(*out, "send("+dropRecv(sel(x.Chan))+")")
	case *ast.AssignStmt:
		for _, r := range x.Rhs {
			exprAtoms(r, out)
		}
		for _, l := range x.Lhs {
			n := last(sel(l))
			if stateFields[n] {
				*out = append(*out, "set("+n+")")
			} else if _, ok := l.(*ast.IndexExpr); ok {
				*out = append(*out, "setidx("+last(sel(l))+")")
			}
		}
	case *ast.IncDecStmt:
		n := last(sel(x.X))
		if stateFields[n] {
			*out = append(*out, "get("+n+")", "set("+n+")")
		}
	case *ast.DeclStmt:
		if gd, ok := x.Decl.(*ast.GenDecl); ok {
			for _, sp := range gd.Specs {
				if vs, ok := sp.(*ast.ValueSpec); ok {
					for _, v := range vs.Values {
						exprAtoms(v, out)
					}
				}
			}
		}
	case *ast.GoStmt:
		var inner []string
		exprAtoms(x.Call, &inner)
		*out = append(*out, "go{"+strings.Join(inner, " ")+"}")
	case *ast.DeferStmt:
		var inner []string
		exprAtoms(x.Call, &inner)
		*out = append(*out, "defer{"+strings.Join(inner, " ")+"}")
	case *ast.ReturnStmt:
		for _, r := range x.Results {
			exprAtoms(r, out)
		}
		*out = append(*out, "return")
	case *ast.BranchStmt:
		*out = append(*out, strings.ToLower(x.Tok.String()))
	case *ast.BlockStmt:
		blockAtoms(x, out)
	case *ast.LabeledStmt:
		stmtAtoms(x.Stmt, out)
	case *ast.IfStmt:
		stmtAtoms(x.Init, out)
		var c, t, e []string
		exprAtoms(x.Cond, &c)
		blockAtoms(x.Body, &t)
		if x.Else != nil {
			stmtAtoms(x.Else, &e)
		}
		if len(c)+len(t)+len(e) > 0 {
			str := "if[" + strings.Join(c, " ") + "]{" + strings.Join(t, " ") + "}"
			if len(e) > 0 {
				str += "else{" + strings.Join(e, " ") + "}"
			}
			*out = append(*out, str)
		}
	case *ast.ForStmt:
		stmtAtoms(x.Init, out)
		var c, b []string
		exprAtoms(x.Cond, &c)
		blockAtoms(x.Body, &b)
		stmtAtoms(x.Post, &b)
		if len(c)+len(b) > 0 {
			*out = append(*out, "for["+strings.Join(c, " ")+"]{"+strings.Join(b, " ")+"}")
		}
	case *ast.RangeStmt:
		var c, b []string
		exprAtoms(x.X, &c)
		blockAtoms(x.Body, &b)
		n := last(sel(x.X))
		if chanNames[n] {
			*out = append(*out, "rangech("+n+"){"+strings.Join(b, " ")+"}")
		} else if len(c)+len(b) > 0 {
			*out = append(*out, "range["+strings.Join(c, " ")+"]{"+strings.Join(b, " ")+"}")
		}
	case *ast.SelectStmt:
		var cases []string
		for _, cl := range x.Body.List {
			cc := cl.(*ast.CommClause)
			var h, b []string
			if cc.Comm == nil {
				h = []string{"default"}
			} else {
				stmtAtoms(cc.Comm, &h)
			}
			for _, st := range cc.Body {
				stmtAtoms(st, &b)
			}
			cases = append(cases, strings.Join(h, " ")+"=>{"+strings.Join(b, " ")+"}")
		}
		*out = append(*out, "select{"+strings.Join(cases, " | ")+"}")
	case *ast.SwitchStmt, *ast.TypeSwitchStmt:
		// not protocol relevant in the modelled files
	}
}

func blockAtoms(b *ast.BlockStmt, out *[]string) {
	if b == nil {
		return
	}
	for _, s := range b.List {
		stmtAtoms(s, out)
	}
}

var skeletonFiles = []string{"handler.go", "actor.go", "queue.go", "cor.go", "publisher.go", "monadIO.go", "worker/pool.go", "fp.go"}

// functions of fp.go that belong to the concurrent components (the rest of fp.go is pure helpers)
var fpFuncs = map[string]bool{"PMap": true, "pMapPreserveOrder": true, "pMapNoOrder": true}

func leanStr(s string) string {
	s = strings.ReplaceAll(s, "\\", "\\\\")
	s = strings.ReplaceAll(s, "\"", "\\\"")
	return "\"" + s + "\""
}

func genSkeletons(repo string) (string, error) {
	fset := token.NewFileSet()
	type ent struct{ name, skel string }
	var ents []ent
	for _, rel := range skeletonFiles {
		f, err := parser.ParseFile(fset, filepath.Join(repo, rel), nil, 0)
		if err != nil {
			return "", err
		}
		for _, d := range f.Decls {
			fd, ok := d.(*ast.FuncDecl)
			if !ok || fd.Body == nil {
				continue
			}
			name := fd.Name.Name
			if fd.Recv != nil && len(fd.Recv.List) > 0 {
				t := fd.Recv.List[0].Type
				if st, ok := t.(*ast.StarExpr); ok {
					t = st.X
				}
				if ix, ok := t.(*ast.IndexExpr); ok {
					t = ix.X
				}
				if ix, ok := t.(*ast.IndexListExpr); ok {
					t = ix.X
				}
				name = sel(t) + "." + name
			}
			if rel == "fp.go" && !fpFuncs[name] && !strings.HasPrefix(name, "CurryDef.") {
				continue
			}
			if strings.HasPrefix(fd.Name.Name, "Verif") || strings.HasPrefix(fd.Name.Name, "verif") {
				continue
			}
			var atoms []string
			blockAtoms(fd.Body, &atoms)
			pkg := ""
			if strings.HasPrefix(rel, "worker/") {
				pkg = "worker."
			}
			ents = append(ents, ent{pkg + name, strings.Join(atoms, " ")})
		}
	}
	sort.Slice(ents, func(i, j int) bool { return ents[i].name < ents[j].name })
	var b strings.Builder
	b.WriteString("namespace FpgoVerif.Gen\n\n/-- protocol skeleton of every function of the concurrent components, by `Type.Method` -/\ndef skeletons : List (String × String) := [\n")
	for i, e := range ents {
		sep := ","
		if i == len(ents)-1 {
			sep = ""
		}
		fmt.Fprintf(&b, "  (%s, %s)%s\n", leanStr(e.name), leanStr(e.skel), sep)
	}
	b.WriteString("]\n\ndef skeletonOf (m : String) : Option String := (skeletons.find? (·.1 == m)).map (·.2)\n\nend FpgoVerif.Gen\n")
	return b.String(), nil
}

func init() { register("Skeletons.lean", genSkeletons) }
