package main

// Gen/Twins.lean (property C05): for every generic / interface{} pair of fp.go, stream.go and
// streamForInterface.go — functions `X` / `XForInterface`, methods of StreamDef / StreamForInterfaceDef,
// MapSetDef / SetForInterfaceDef, StreamSetDef / StreamSetForInterfaceDef — are the two bodies identical
// after *type erasure*?  Erasure works on the AST and prints a canonical, fully bracketed term:
//   * type parameters of the function / receiver, `interface{}` and `any` all become `τ`;
//   * explicit instantiations `F[T]`, `F[T, R]` of generic functions / types lose their index;
//   * the substring `ForInterface` is removed from every identifier, `MapSetDef` is spelled `SetDef`;
//   * the receiver variable is `self`; parentheses and type assertions `x.(T)` are dropped;
//   * constructor spellings: `StreamForInterface.FromArray(e)` = `StreamFromArray(e)` = `&StreamDef(e)`,
//     `x.AsMap()` = `*x`, a parameter of type `*SetForInterfaceDef` = `SetDef`, and a temporary that is only returned (`r := e; return r` / `return &r`) is inlined.
// Output: one row per pair with the flag `identical` and a 63-bit hash of each normalised body (so that a
// silent change of either twin of a non-identical pair changes the table).  Data only.

import (
	"crypto/sha256"
	"encoding/binary"
	"fmt"
	"go/ast"
	"go/parser"
	"go/token"
	"path/filepath"
	"sort"
	"strings"
)

type twinFn struct {
	recv, name string
	decl       *ast.FuncDecl
}

type twinEraser struct {
	generics map[string]bool // names of generic functions / types (after identifier erasure)
	tparams  map[string]bool // type parameter names in scope
	recvVar  string
	unknown  []string
}

func twinIdent(n string) string {
	n = strings.ReplaceAll(n, "ForInterface", "")
	if n == "MapSetDef" {
		n = "SetDef"
	}
	return n
}

func (e *twinEraser) ident(n string) string {
	if n == e.recvVar && n != "" {
		return "self"
	}
	if e.tparams[n] || n == "any" {
		return "τ"
	}
	return twinIdent(n)
}

func (e *twinEraser) exprs(l []ast.Expr) string {
	p := make([]string, len(l))
	for i, x := range l {
		p[i] = e.expr(x)
	}
	return strings.Join(p, ",")
}

func (e *twinEraser) fields(fl *ast.FieldList) string {
	if fl == nil {
		return ""
	}
	var p []string
	for _, f := range fl.List {
		t := e.expr(f.Type)
		if t == "*(SetDef)" {
			t = "SetDef" // the generic family passes the set as the interface SetDef, the other as *SetForInterfaceDef
		}
		if len(f.Names) == 0 {
			p = append(p, t)
		}
		for _, n := range f.Names {
			p = append(p, e.ident(n.Name)+" "+t)
		}
	}
	return strings.Join(p, ",")
}

func (e *twinEraser) expr(x ast.Expr) string {
	switch v := x.(type) {
	case nil:
		return "_"
	case *ast.Ident:
		return e.ident(v.Name)
	case *ast.BasicLit:
		return v.Value
	case *ast.ParenExpr:
		return e.expr(v.X)
	case *ast.TypeAssertExpr:
		return e.expr(v.X)
	case *ast.StarExpr:
		return "*(" + e.expr(v.X) + ")"
	case *ast.UnaryExpr:
		return v.Op.String() + "(" + e.expr(v.X) + ")"
	case *ast.BinaryExpr:
		return "(" + e.expr(v.X) + " " + v.Op.String() + " " + e.expr(v.Y) + ")"
	case *ast.SelectorExpr:
		xs := e.expr(v.X)
		if xs == "Stream" && (v.Sel.Name == "FromArray" || v.Sel.Name == "From") {
			return "Stream" + v.Sel.Name
		}
		return xs + "." + twinIdent(v.Sel.Name)
	case *ast.IndexExpr:
		xs := e.expr(v.X)
		if e.generics[xs] {
			return xs
		}
		return xs + "[" + e.expr(v.Index) + "]"
	case *ast.IndexListExpr:
		xs := e.expr(v.X)
		if e.generics[xs] {
			return xs
		}
		return xs + "[" + e.exprs(v.Indices) + "]"
	case *ast.SliceExpr:
		return e.expr(v.X) + "[" + e.expr(v.Low) + ":" + e.expr(v.High) + ":" + e.expr(v.Max) + "]"
	case *ast.CallExpr:
		fn := e.expr(v.Fun)
		args := e.exprs(v.Args)
		if v.Ellipsis.IsValid() {
			args += "..."
		}
		if strings.HasSuffix(fn, ".AsMap") && len(v.Args) == 0 {
			return "*(" + strings.TrimSuffix(fn, ".AsMap") + ")"
		}
		if fn == "StreamFromArray" && len(v.Args) == 1 {
			return "&(StreamDef(" + args + "))"
		}
		return fn + "(" + args + ")"
	case *ast.CompositeLit:
		return e.expr(v.Type) + "{" + e.exprs(v.Elts) + "}"
	case *ast.KeyValueExpr:
		return e.expr(v.Key) + ":" + e.expr(v.Value)
	case *ast.ArrayType:
		return "[" + e.expr(v.Len) + "]" + e.expr(v.Elt)
	case *ast.MapType:
		return "map[" + e.expr(v.Key) + "]" + e.expr(v.Value)
	case *ast.InterfaceType:
		if v.Methods == nil || len(v.Methods.List) == 0 {
			return "τ"
		}
		return "interface{" + e.fields(v.Methods) + "}"
	case *ast.FuncType:
		return "func(" + e.fields(v.Params) + ")(" + e.fields(v.Results) + ")"
	case *ast.FuncLit:
		return e.expr(v.Type) + e.block(v.Body)
	case *ast.Ellipsis:
		return "..." + e.expr(v.Elt)
	case *ast.ChanType:
		return "chan " + e.expr(v.Value)
	}
	s := fmt.Sprintf("untranslatable<%T>", x)
	e.unknown = append(e.unknown, s)
	return s
}

func (e *twinEraser) block(b *ast.BlockStmt) string {
	if b == nil {
		return "{}"
	}
	return "{" + e.stmts(b.List) + "}"
}

// a temporary that is defined and immediately returned is inlined
func (e *twinEraser) stmts(l []ast.Stmt) string {
	var p []string
	for i := 0; i < len(l); i++ {
		if i+1 < len(l) {
			if as, ok := l[i].(*ast.AssignStmt); ok && as.Tok == token.DEFINE && len(as.Lhs) == 1 && len(as.Rhs) == 1 {
				if id, ok := as.Lhs[0].(*ast.Ident); ok {
					if rs, ok := l[i+1].(*ast.ReturnStmt); ok && len(rs.Results) == 1 {
						rhs := e.expr(as.Rhs[0])
						if r, ok := rs.Results[0].(*ast.Ident); ok && r.Name == id.Name {
							p = append(p, "return "+rhs)
							i++
							continue
						}
						if u, ok := rs.Results[0].(*ast.UnaryExpr); ok && u.Op == token.AND {
							if r, ok := u.X.(*ast.Ident); ok && r.Name == id.Name {
								p = append(p, "return &("+rhs+")")
								i++
								continue
							}
						}
					}
				}
			}
		}
		p = append(p, e.stmt(l[i]))
	}
	return strings.Join(p, ";")
}

func (e *twinEraser) stmt(s ast.Stmt) string {
	switch v := s.(type) {
	case nil:
		return ""
	case *ast.ExprStmt:
		return e.expr(v.X)
	case *ast.AssignStmt:
		return e.exprs(v.Lhs) + " " + v.Tok.String() + " " + e.exprs(v.Rhs)
	case *ast.IncDecStmt:
		return e.expr(v.X) + v.Tok.String()
	case *ast.ReturnStmt:
		return "return " + e.exprs(v.Results)
	case *ast.BranchStmt:
		return v.Tok.String()
	case *ast.BlockStmt:
		return e.block(v)
	case *ast.IfStmt:
		r := "if " + e.stmt(v.Init) + ";" + e.expr(v.Cond) + e.block(v.Body)
		if v.Else != nil {
			r += "else " + e.stmt(v.Else)
		}
		return r
	case *ast.ForStmt:
		return "for " + e.stmt(v.Init) + ";" + e.expr(v.Cond) + ";" + e.stmt(v.Post) + e.block(v.Body)
	case *ast.RangeStmt:
		return "range " + e.expr(v.Key) + "," + e.expr(v.Value) + " " + v.Tok.String() + " " + e.expr(v.X) + e.block(v.Body)
	case *ast.DeclStmt:
		if gd, ok := v.Decl.(*ast.GenDecl); ok {
			var p []string
			for _, sp := range gd.Specs {
				if vs, ok := sp.(*ast.ValueSpec); ok {
					var names []string
					for _, n := range vs.Names {
						names = append(names, e.ident(n.Name))
					}
					p = append(p, gd.Tok.String()+" "+strings.Join(names, ",")+" "+e.expr(vs.Type)+" = "+e.exprs(vs.Values))
					continue
				}
				p = append(p, "untranslatable<spec>")
				e.unknown = append(e.unknown, "spec")
			}
			return strings.Join(p, ";")
		}
	case *ast.SwitchStmt:
		r := "switch " + e.stmt(v.Init) + ";" + e.expr(v.Tag) + "{"
		for _, c := range v.Body.List {
			cc := c.(*ast.CaseClause)
			r += "case " + e.exprs(cc.List) + ":" + e.stmts(cc.Body) + ";"
		}
		return r + "}"
	case *ast.DeferStmt:
		return "defer " + e.expr(v.Call)
	case *ast.GoStmt:
		return "go " + e.expr(v.Call)
	case *ast.EmptyStmt:
		return ""
	}
	t := fmt.Sprintf("untranslatable<%T>", s)
	e.unknown = append(e.unknown, t)
	return t
}

func twinHash(s string) uint64 {
	h := sha256.Sum256([]byte(s))
	return binary.BigEndian.Uint64(h[:8]) >> 1
}

func twinRecvName(fd *ast.FuncDecl) (typ string, tparams []string, varName string) {
	if fd.Recv == nil || len(fd.Recv.List) == 0 {
		return "", nil, ""
	}
	f := fd.Recv.List[0]
	if len(f.Names) > 0 {
		varName = f.Names[0].Name
	}
	t := f.Type
	if s, ok := t.(*ast.StarExpr); ok {
		t = s.X
	}
	switch x := t.(type) {
	case *ast.Ident:
		typ = x.Name
	case *ast.IndexExpr:
		typ = sel(x.X)
		if id, ok := x.Index.(*ast.Ident); ok {
			tparams = append(tparams, id.Name)
		}
	case *ast.IndexListExpr:
		typ = sel(x.X)
		for _, i := range x.Indices {
			if id, ok := i.(*ast.Ident); ok {
				tparams = append(tparams, id.Name)
			}
		}
	}
	return
}

func genTwins(repo string) (string, error) {
	fset := token.NewFileSet()
	fns := map[string]*twinFn{}
	generics := map[string]bool{}
	for _, name := range []string{"fp.go", "stream.go", "streamForInterface.go"} {
		f, err := parser.ParseFile(fset, filepath.Join(repo, name), nil, 0)
		if err != nil {
			return "", err
		}
		for _, d := range f.Decls {
			switch v := d.(type) {
			case *ast.FuncDecl:
				recv, _, _ := twinRecvName(v)
				key := v.Name.Name
				if recv != "" {
					key = recv + "." + v.Name.Name
				}
				fns[key] = &twinFn{recv: recv, name: v.Name.Name, decl: v}
				if v.Type.TypeParams != nil && recv == "" {
					generics[twinIdent(v.Name.Name)] = true
				}
			case *ast.GenDecl:
				for _, sp := range v.Specs {
					if ts, ok := sp.(*ast.TypeSpec); ok && ts.TypeParams != nil {
						generics[twinIdent(ts.Name.Name)] = true
					}
				}
			}
		}
	}
	norm := func(fn *twinFn) (string, []string) {
		e := &twinEraser{generics: generics, tparams: map[string]bool{}}
		_, tps, rv := twinRecvName(fn.decl)
		e.recvVar = rv
		for _, t := range tps {
			e.tparams[t] = true
		}
		if fn.decl.Type.TypeParams != nil {
			for _, f := range fn.decl.Type.TypeParams.List {
				for _, n := range f.Names {
					e.tparams[n.Name] = true
				}
			}
		}
		s := "(" + e.fields(fn.decl.Type.Params) + ")" + e.block(fn.decl.Body)
		return s, e.unknown
	}
	recvTwin := map[string]string{"StreamForInterfaceDef": "StreamDef", "SetForInterfaceDef": "MapSetDef", "StreamSetForInterfaceDef": "StreamSetDef"}
	// methods the generic StreamSetDef only has by promotion from its embedded MapSetDef
	type row struct {
		g, i      string
		identical bool
		gh, ih    uint64
		gn, in    string
	}
	var rows []row
	var missing []string
	keys := make([]string, 0, len(fns))
	for k := range fns {
		keys = append(keys, k)
	}
	sort.Strings(keys)
	for _, k := range keys {
		fi := fns[k]
		var gk string
		if fi.recv == "" {
			if !strings.Contains(fi.name, "ForInterface") {
				continue
			}
			gk = strings.Replace(fi.name, "ForInterface", "", 1)
		} else {
			gr, ok := recvTwin[fi.recv]
			if !ok {
				continue
			}
			gk = gr + "." + fi.name
			if _, ok := fns[gk]; !ok && gr == "StreamSetDef" {
				gk = "MapSetDef." + fi.name // promoted method
			}
			if _, ok := fns[gk]; !ok && gr == "StreamDef" {
				gk = "Stream" + fi.name // StreamForInterface.From / FromArray vs StreamFrom / StreamFromArray
			}
		}
		fg, ok := fns[gk]
		if !ok {
			if fi.recv == "StreamForInterfaceDef" && strings.HasPrefix(fi.name, "FromArray") {
				continue // FromArrayInt, FromArrayString, …: boxing helpers that have no generic counterpart
			}
			missing = append(missing, k)
			continue
		}
		gn, gu := norm(fg)
		in, iu := norm(fi)
		if len(gu)+len(iu) > 0 {
			return "", fmt.Errorf("twins: untranslatable construct in %s / %s: %v %v", gk, k, gu, iu)
		}
		gname := gk
		if fi.recv == "StreamSetForInterfaceDef" && strings.HasPrefix(gk, "MapSetDef.") {
			gname = "StreamSetDef." + fi.name + "(promoted)"
		}
		rows = append(rows, row{g: gname, i: k, identical: gn == in, gh: twinHash(gn), ih: twinHash(in), gn: gn, in: in})
	}
	sort.Slice(rows, func(a, b int) bool { return rows[a].g < rows[b].g })
	var b strings.Builder
	b.WriteString("namespace FpgoVerif.Gen\n\n")
	b.WriteString("/-- one generic / interface{} pair: are the bodies identical after type erasure; hashes of the normalised bodies -/\n")
	b.WriteString("structure TwinPair where\n  generic : String\n  iface : String\n  identical : Bool\n  gHash : Nat\n  iHash : Nat\nderiving Repr\n\n")
	b.WriteString("def twins : List TwinPair := [\n")
	for k, r := range rows {
		sep := ","
		if k == len(rows)-1 {
			sep = ""
		}
		id := "false"
		if r.identical {
			id = "true"
		}
		fmt.Fprintf(&b, "  ⟨%q, %q, %s, %d, %d⟩%s\n", r.g, r.i, id, r.gh, r.ih, sep)
	}
	b.WriteString("]\n\n")
	b.WriteString("/-- interface{} functions / methods for which no generic counterpart was found -/\n")
	b.WriteString("def twinsMissing : List String := [")
	for k, m := range missing {
		if k > 0 {
			b.WriteString(", ")
		}
		fmt.Fprintf(&b, "%q", m)
	}
	b.WriteString("]\n\n")
	b.WriteString("/- normalised bodies of the pairs that are not identical (for reading a diff; not used by any theorem)\n")
	for _, r := range rows {
		if !r.identical {
			fmt.Fprintf(&b, "%s\n  G: %s\n  I: %s\n", r.g, strings.ReplaceAll(r.gn, "-/", "- /"), strings.ReplaceAll(r.in, "-/", "- /"))
		}
	}
	b.WriteString("-/\n\nend FpgoVerif.Gen\n")
	return b.String(), nil
}

func init() { register("Twins.lean", genTwins) }
