package main

// Gen/ApiTable.lean (property C17): one row per APIMake* constructor of network/simpleHTTP.go.
//
//   - the named constructors (`APIMakeGet`, …) must be a single `return <generic>[…](api, <method>, relativeURL, …)`:
//     the row records the generic constructor delegated to, the HTTP method constant (resolved to its string), the
//     literal content type, the serializer field and that the template parameter is passed through;
//   - the generic constructors (`APIMakeDoNewRequest*`): which DoNewRequest* method they call, how many sending calls
//     exist in the whole function, whether the sending call and `decodeResponseBody` are lexically inside the closure
//     handed to `MonadIONewGenerics` (laziness), and the normalised source text of the header / method / URL /
//     content-type arguments (the SimpleAPIDef parameter is renamed to `api`).
//
// Anything outside this grammar is emitted as an "untranslatable: …" string that the closing theorem rejects.

import (
	"bytes"
	"fmt"
	"go/ast"
	"go/parser"
	"go/printer"
	"go/token"
	"path/filepath"
	"sort"
	"strings"
)

var httpMethodConst = map[string]string{"MethodGet": "GET", "MethodHead": "HEAD", "MethodPost": "POST", "MethodPut": "PUT",
	"MethodPatch": "PATCH", "MethodDelete": "DELETE", "MethodConnect": "CONNECT", "MethodOptions": "OPTIONS", "MethodTrace": "TRACE"}

func c17Src(fset *token.FileSet, n ast.Node, apiName string) string {
	var b bytes.Buffer
	printer.Fprint(&b, fset, n)
	s := strings.Join(strings.Fields(b.String()), " ")
	if apiName != "" {
		// rename the SimpleAPIDef parameter (token-wise)
		var out []byte
		i := 0
		isId := func(c byte) bool { return c == '_' || c >= '0' && c <= '9' || c >= 'a' && c <= 'z' || c >= 'A' && c <= 'Z' }
		for i < len(s) {
			if strings.HasPrefix(s[i:], apiName) && (i == 0 || !isId(s[i-1]) && s[i-1] != '.') && (i+len(apiName) == len(s) || !isId(s[i+len(apiName)])) {
				out = append(out, "api"...)
				i += len(apiName)
				continue
			}
			out = append(out, s[i])
			i++
		}
		s = string(out)
	}
	return s
}

func c17Callee(e ast.Expr) string {
	switch x := e.(type) {
	case *ast.IndexExpr:
		return c17Callee(x.X)
	case *ast.IndexListExpr:
		return c17Callee(x.X)
	case *ast.Ident:
		return x.Name
	case *ast.SelectorExpr:
		return x.Sel.Name
	}
	return ""
}

func c17Bool(b bool) string {
	if b {
		return "true"
	}
	return "false"
}

func genApiTable(repo string) (string, error) {
	fset := token.NewFileSet()
	f, err := parser.ParseFile(fset, filepath.Join(repo, "network", "simpleHTTP.go"), nil, 0)
	if err != nil {
		return "", err
	}
	var ctors, generics []string
	for _, d := range f.Decls {
		fd, ok := d.(*ast.FuncDecl)
		if !ok || fd.Body == nil || fd.Recv != nil || !strings.HasPrefix(fd.Name.Name, "APIMake") {
			continue
		}
		name := fd.Name.Name
		apiName := ""
		if fd.Type.Params != nil && len(fd.Type.Params.List) > 0 && len(fd.Type.Params.List[0].Names) > 0 {
			apiName = fd.Type.Params.List[0].Names[0].Name
		}
		if !strings.HasPrefix(name, "APIMakeDoNewRequest") {
			// named constructor
			row := func(delegate, method, ct, ser string) {
				ctors = append(ctors, fmt.Sprintf("  (%s, %s, %s, %s, %s)", leanStr(name), leanStr(delegate), leanStr(method), leanStr(ct), leanStr(ser)))
			}
			bad := func(why string) { row("untranslatable: "+why, "", "", "") }
			if len(fd.Body.List) != 1 {
				bad("body is not a single return: " + c17Src(fset, fd.Body, apiName))
				continue
			}
			rs, ok := fd.Body.List[0].(*ast.ReturnStmt)
			if !ok || len(rs.Results) != 1 {
				bad("body is not a single return")
				continue
			}
			call, ok := rs.Results[0].(*ast.CallExpr)
			if !ok {
				bad("returns no call: " + c17Src(fset, rs.Results[0], apiName))
				continue
			}
			delegate := c17Callee(call.Fun)
			if len(call.Args) < 3 || c17Src(fset, call.Args[0], apiName) != "api" {
				bad("unexpected arguments: " + c17Src(fset, call, apiName))
				continue
			}
			method := "untranslatable: " + c17Src(fset, call.Args[1], apiName)
			switch m := call.Args[1].(type) {
			case *ast.SelectorExpr:
				if id, ok := m.X.(*ast.Ident); ok && id.Name == "http" {
					if v, ok := httpMethodConst[m.Sel.Name]; ok {
						method = v
					}
				}
			case *ast.BasicLit:
				if m.Kind == token.STRING {
					method = strings.Trim(m.Value, "\"`")
				}
			}
			// the template parameter (second parameter of the constructor) must be passed through unchanged
			tmplParam := ""
			if len(fd.Type.Params.List) > 1 && len(fd.Type.Params.List[1].Names) > 0 {
				tmplParam = fd.Type.Params.List[1].Names[0].Name
			}
			if id, ok := call.Args[2].(*ast.Ident); !ok || id.Name != tmplParam {
				bad("template not passed through: " + c17Src(fset, call.Args[2], apiName))
				continue
			}
			ct, ser := "", ""
			rest := call.Args[3:]
			for _, a := range rest {
				switch x := a.(type) {
				case *ast.BasicLit:
					if x.Kind == token.STRING {
						ct = strings.Trim(x.Value, "\"`")
					} else {
						ct = "untranslatable: " + x.Value
					}
				case *ast.SelectorExpr:
					if c17Src(fset, x.X, apiName) == "api" {
						ser = x.Sel.Name
					} else {
						ser = "untranslatable: " + c17Src(fset, x, apiName)
					}
				default:
					ser = "untranslatable: " + c17Src(fset, a, apiName)
				}
			}
			row(delegate, method, ct, ser)
			continue
		}
		// generic constructor: locate the closure passed to MonadIONewGenerics and the sending calls
		var effect *ast.FuncLit
		ast.Inspect(fd.Body, func(n ast.Node) bool {
			if c, ok := n.(*ast.CallExpr); ok && c17Callee(c.Fun) == "MonadIONewGenerics" && len(c.Args) == 1 {
				if fl, ok := c.Args[0].(*ast.FuncLit); ok && effect == nil {
					effect = fl
				}
			}
			return true
		})
		isSend := func(n ast.Node) *ast.CallExpr {
			c, ok := n.(*ast.CallExpr)
			if !ok {
				return nil
			}
			switch c17Callee(c.Fun) {
			case "DoNewRequest", "DoNewRequestWithBodyOptions", "DoRequest", "Do", "Get", "Head", "Options", "Delete", "Post", "Put", "Patch", "RoundTrip":
				if _, isSel := c.Fun.(*ast.SelectorExpr); isSel {
					return c
				}
			}
			return nil
		}
		total := 0
		ast.Inspect(fd.Body, func(n ast.Node) bool {
			if isSend(n) != nil {
				total++
			}
			return true
		})
		var send *ast.CallExpr
		decodeInside := false
		inLoop := false
		if effect != nil {
			var walk func(n ast.Node, loop bool)
			walk = func(n ast.Node, loop bool) {
				ast.Inspect(n, func(m ast.Node) bool {
					switch x := m.(type) {
					case *ast.ForStmt:
						if m != n {
							walk(x.Body, true)
							return false
						}
					case *ast.RangeStmt:
						if m != n {
							walk(x.Body, true)
							return false
						}
					case *ast.GoStmt:
						loop = true
					}
					if c := isSend(m); c != nil {
						if send == nil {
							send = c
						}
						if loop {
							inLoop = true
						}
					}
					if c, ok := m.(*ast.CallExpr); ok && c17Callee(c.Fun) == "decodeResponseBody" {
						decodeInside = true
					}
					return true
				})
			}
			walk(effect.Body, false)
		}
		sendName, hdr, method, url, ct := "untranslatable: no sending call inside the MonadIONewGenerics closure", "", "", "", ""
		inside := false
		if send != nil {
			inside = true
			sendName = c17Callee(send.Fun)
			if inLoop {
				sendName = "untranslatable: sending call inside a loop or goroutine"
			}
			arg := func(i int) string {
				if i < len(send.Args) {
					return c17Src(fset, send.Args[i], apiName)
				}
				return ""
			}
			hdr, method, url = arg(1), arg(2), arg(3)
			if c17Callee(send.Fun) == "DoNewRequestWithBodyOptions" {
				ct = arg(5)
			}
		}
		generics = append(generics, fmt.Sprintf("  (%s, %s, %d, %s, %s, %s, %s, %s, %s, %s)", leanStr(name), leanStr(sendName), total, c17Bool(inside),
			leanStr(hdr), c17Bool(strings.HasSuffix(hdr, ".DefaultHeader.Clone()")), leanStr(method), leanStr(url), leanStr(ct), c17Bool(decodeInside)))
	}
	sort.Strings(ctors)
	sort.Strings(generics)
	var b strings.Builder
	b.WriteString("namespace FpgoVerif.Gen\n\n")
	b.WriteString("/-- named APIMake* constructors: (name, generic constructor delegated to, HTTP method, content type, serializer field) -/\n")
	b.WriteString("def apiCtors : List (String × String × String × String × String) := [\n" + strings.Join(ctors, ",\n") + "\n]\n\n")
	b.WriteString("/-- generic constructors: (name, sending method, number of sending calls, sending call inside the MonadIO closure,\n    header argument, header is DefaultHeader.Clone(), method argument, URL argument, content-type argument, decode inside the closure) -/\n")
	b.WriteString("def apiGenerics : List (String × String × Nat × Bool × String × Bool × String × String × String × Bool) := [\n" + strings.Join(generics, ",\n") + "\n]\n\n")
	b.WriteString("end FpgoVerif.Gen\n")
	return b.String(), nil
}

func init() { register("ApiTable.lean", genApiTable) }
