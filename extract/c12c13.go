package main

// Facts about handler.go / actor.go that the protocol skeletons do not carry (C12, C13):
//   * which functions start or call `run` (and whether with `go`) -- "one consumer goroutine per mailbox";
//   * the arguments of every call of the actor's `effect` (is the first one the receiver itself, is the
//     second the value received from the channel);
//   * the target of every `close(...)`, with the select-case it sits in -- AskOnceWithTimeout must close
//     `done`, not `ch`, on its timeout branch;
//   * the channel operands of the select in Reply.
// Output: Gen/MailboxFacts.lean (data only).

import (
	"fmt"
	"go/ast"
	"go/parser"
	"go/printer"
	"go/token"
	"path/filepath"
	"sort"
	"strings"
)

func c12FuncName(fd *ast.FuncDecl) (name, recv string) {
	name = fd.Name.Name
	if fd.Recv != nil && len(fd.Recv.List) > 0 {
		t := fd.Recv.List[0].Type
		if st, ok := t.(*ast.StarExpr); ok {
			t = st.X
		}
		if ix, ok := t.(*ast.IndexExpr); ok {
			t = ix.X
		}
		if ix, ok := t.(*ast.IndexListExpr); ok {
			t = ix.X
		}
		name = sel(t) + "." + name
		if len(fd.Recv.List[0].Names) > 0 {
			recv = fd.Recv.List[0].Names[0].Name
		}
	}
	return
}

func c12Text(fset *token.FileSet, n ast.Node) string {
	var b strings.Builder
	printer.Fprint(&b, fset, n)
	return strings.Join(strings.Fields(b.String()), " ")
}

func genMailboxFacts(repo string) (string, error) {
	fset := token.NewFileSet()
	var runCalls, effArgs, closes, selects []string
	for _, rel := range []string{"handler.go", "actor.go"} {
		f, err := parser.ParseFile(fset, filepath.Join(repo, rel), nil, 0)
		if err != nil {
			return "", err
		}
		for _, d := range f.Decls {
			fd, ok := d.(*ast.FuncDecl)
			if !ok || fd.Body == nil {
				continue
			}
			name, recv := c12FuncName(fd)
			norm := func(e ast.Expr, rangeVar string) string {
				if id, ok := e.(*ast.Ident); ok {
					if recv != "" && id.Name == recv {
						return "self"
					}
					if rangeVar != "" && id.Name == rangeVar {
						return "received"
					}
				}
				return "other:" + c12Text(fset, e)
			}
			// walk with context: inside go statement? inside which select case? range variable of the enclosing range-over-channel
			var walk func(n ast.Node, inGo bool, selCase string, rangeVar string)
			walk = func(n ast.Node, inGo bool, selCase string, rangeVar string) {
				if n == nil {
					return
				}
				switch x := n.(type) {
				case *ast.GoStmt:
					walk(x.Call, true, selCase, rangeVar)
					return
				case *ast.RangeStmt:
					rv := rangeVar
					if id, ok := x.Key.(*ast.Ident); ok && x.Value == nil {
						rv = id.Name // `for v := range ch` : the single variable is the received value
					}
					walk(x.X, inGo, selCase, rangeVar)
					walk(x.Body, inGo, selCase, rv)
					return
				case *ast.SelectStmt:
					var ops []string
					for i, cl := range x.Body.List {
						cc := cl.(*ast.CommClause)
						tag := fmt.Sprintf("case%d", i)
						switch c := cc.Comm.(type) {
						case nil:
							ops = append(ops, "default")
						case *ast.SendStmt:
							ops = append(ops, "send:"+last(sel(c.Chan)))
						case *ast.ExprStmt:
							if u, ok := c.X.(*ast.UnaryExpr); ok && u.Op == token.ARROW {
								ops = append(ops, "recv:"+last(sel(u.X)))
							}
						case *ast.AssignStmt:
							if len(c.Rhs) == 1 {
								if u, ok := c.Rhs[0].(*ast.UnaryExpr); ok && u.Op == token.ARROW {
									ops = append(ops, "recv:"+last(sel(u.X)))
								}
							}
						}
						for _, st := range cc.Body {
							walk(st, inGo, tag, rangeVar)
						}
					}
					selects = append(selects, fmt.Sprintf("(%s, %s)", leanStr(name), leanStrList(ops)))
					return
				case *ast.CallExpr:
					fn := last(sel(x.Fun))
					if id, ok := x.Fun.(*ast.Ident); ok && rangeVar != "" && id.Name == rangeVar {
						// `for fn := range ch { fn() }`: the received value itself is called
						mode := "call"
						if inGo {
							mode = "go"
						}
						effArgs = append(effArgs, fmt.Sprintf("(%s, %s, %s)", leanStr(name), leanStr(mode), leanStrList([]string{"callee=received"})))
					}
					switch fn {
					case "run":
						mode := "call"
						if inGo {
							mode = "go"
						}
						runCalls = append(runCalls, fmt.Sprintf("(%s, %s)", leanStr(name), leanStr(mode)))
					case "effect":
						var as []string
						for _, a := range x.Args {
							as = append(as, norm(a, rangeVar))
						}
						mode := "call"
						if inGo {
							mode = "go"
						}
						effArgs = append(effArgs, fmt.Sprintf("(%s, %s, %s)", leanStr(name), leanStr(mode), leanStrList(as)))
					case "close":
						if _, isIdent := x.Fun.(*ast.Ident); isIdent && len(x.Args) == 1 {
							where := selCase
							if where == "" {
								where = "body"
							}
							closes = append(closes, fmt.Sprintf("(%s, %s, %s)", leanStr(name), leanStr(where), leanStr(last(sel(x.Args[0])))))
						}
					}
				}
				// generic descent
				ast.Inspect(n, func(c ast.Node) bool {
					if c == n || c == nil {
						return true
					}
					walk(c, inGo, selCase, rangeVar)
					return false
				})
			}
			walk(fd.Body, false, "", "")
		}
	}
	sort.Strings(runCalls)
	var b strings.Builder
	b.WriteString("namespace FpgoVerif.Gen\n\n")
	b.WriteString("/-- every call of a `run` method in handler.go / actor.go: (enclosing function, \"go\" | \"call\") -/\n")
	b.WriteString("def mailboxRunCalls : List (String × String) := [" + strings.Join(runCalls, ", ") + "]\n\n")
	b.WriteString("/-- every call of an actor's `effect`: (enclosing function, \"go\" | \"call\", arguments: \"self\" = the receiver, \"received\" = the value ranged from the channel) -/\n")
	b.WriteString("def mailboxEffectCalls : List (String × String × List String) := [" + strings.Join(effArgs, ", ") + "]\n\n")
	b.WriteString("/-- every `close(x)`: (enclosing function, \"body\" | \"case<i>\" of the enclosing select, last component of x) -/\n")
	var mbCloses, askCloses []string
	for _, c := range closes {
		if strings.HasPrefix(c, "(\"Ask") {
			askCloses = append(askCloses, c)
		} else {
			mbCloses = append(mbCloses, c)
		}
	}
	b.WriteString("def mailboxCloses : List (String × String × String) := [" + strings.Join(mbCloses, ", ") + "]\n\n")
	b.WriteString("/-- the same for the functions of AskDef -/\n")
	b.WriteString("def askCloses : List (String × String × String) := [" + strings.Join(askCloses, ", ") + "]\n\n")
	b.WriteString("/-- every select statement: (enclosing function, channel operation of each case) -/\n")
	b.WriteString("def mailboxSelects : List (String × List String) := [" + strings.Join(selects, ", ") + "]\n\n")
	b.WriteString("end FpgoVerif.Gen\n")
	return b.String(), nil
}

func leanStrList(l []string) string {
	q := make([]string, len(l))
	for i, s := range l {
		q[i] = leanStr(s)
	}
	return "[" + strings.Join(q, ", ") + "]"
}

func init() { register("MailboxFacts.lean", genMailboxFacts) }
