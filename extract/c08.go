package main

// C08 — lock modes of ConcurrentQueue / ConcurrentStack (queue.go).
// For every method of the two wrapper types the body is rendered statement by statement into a small
// vocabulary; anything outside it is printed as `other:<source>` (which no closing theorem accepts):
//
//	acquire:<path>     expression statement  recv.<path>()   with path ending in Lock / RLock
//	release:<path>     expression statement  recv.<path>()   with path ending in Unlock / RUnlock (not deferred)
//	defer:<path>       defer recv.<path>()
//	return:<path>(<args>)  return recv.<path>(<args>)   — the delegated call, arguments as written
//
// A method declared with a value receiver gets a leading `other:value receiver …` statement: the struct, and
// with it the lock, would be copied on every call, so the lock/unlock pair in the body excludes nobody.
//
// Output: FpgoVerif.Gen.lockModes : List LockMode  (type, method, params, stmts).

import (
	"bytes"
	"fmt"
	"go/ast"
	"go/parser"
	"go/printer"
	"go/token"
	"path/filepath"
	"sort"
	"strings"
)

func c08Print(fset *token.FileSet, n ast.Node) string {
	var b bytes.Buffer
	printer.Fprint(&b, fset, n)
	return strings.Join(strings.Fields(b.String()), " ")
}

func c08RecvName(fd *ast.FuncDecl) string {
	if fd.Recv != nil && len(fd.Recv.List) > 0 && len(fd.Recv.List[0].Names) > 0 {
		return fd.Recv.List[0].Names[0].Name
	}
	return ""
}

// path of a call recv.a.b(...) without the receiver variable, or "" if it does not start at the receiver
func c08CallPath(call *ast.CallExpr, recv string) string {
	s := sel(call.Fun)
	if recv != "" && strings.HasPrefix(s, recv+".") {
		return s[len(recv)+1:]
	}
	return ""
}

func c08Stmt(fset *token.FileSet, s ast.Stmt, recv string) string {
	switch x := s.(type) {
	case *ast.ExprStmt:
		if c, ok := x.X.(*ast.CallExpr); ok && len(c.Args) == 0 {
			p := c08CallPath(c, recv)
			l := last(p)
			if l == "Lock" || l == "RLock" {
				return "acquire:" + p
			}
			if l == "Unlock" || l == "RUnlock" {
				return "release:" + p
			}
		}
	case *ast.DeferStmt:
		if len(x.Call.Args) == 0 {
			if p := c08CallPath(x.Call, recv); p != "" {
				return "defer:" + p
			}
		}
	case *ast.ReturnStmt:
		if len(x.Results) == 1 {
			if c, ok := x.Results[0].(*ast.CallExpr); ok {
				if p := c08CallPath(c, recv); p != "" {
					args := make([]string, len(c.Args))
					for i, a := range c.Args {
						args[i] = c08Print(fset, a)
					}
					return "return:" + p + "(" + strings.Join(args, ",") + ")"
				}
			}
		}
	}
	return "other:" + c08Print(fset, s)
}

func genLockModes(repo string) (string, error) {
	fset := token.NewFileSet()
	f, err := parser.ParseFile(fset, filepath.Join(repo, "queue.go"), nil, 0)
	if err != nil {
		return "", err
	}
	type ent struct {
		typ, method, params string
		stmts               []string
	}
	var ents []ent
	for _, d := range f.Decls {
		fd, ok := d.(*ast.FuncDecl)
		if !ok || fd.Body == nil || fd.Recv == nil || len(fd.Recv.List) == 0 {
			continue
		}
		t := fd.Recv.List[0].Type
		byValue := true
		if st, ok := t.(*ast.StarExpr); ok {
			t = st.X
			byValue = false
		}
		if ix, ok := t.(*ast.IndexExpr); ok {
			t = ix.X
		}
		if ix, ok := t.(*ast.IndexListExpr); ok {
			t = ix.X
		}
		typ := sel(t)
		if typ != "ConcurrentQueue" && typ != "ConcurrentStack" {
			continue
		}
		if strings.HasPrefix(fd.Name.Name, "Verif") {
			continue
		}
		recv := c08RecvName(fd)
		var params []string
		for _, p := range fd.Type.Params.List {
			for _, n := range p.Names {
				params = append(params, n.Name)
			}
		}
		e := ent{typ: typ, method: fd.Name.Name, params: strings.Join(params, ",")}
		if byValue {
			// a value receiver copies the struct and with it the RWMutex: every call locks its own copy
			e.stmts = append(e.stmts, "other:value receiver (the lock is copied per call)")
		}
		for _, s := range fd.Body.List {
			e.stmts = append(e.stmts, c08Stmt(fset, s, recv))
		}
		ents = append(ents, e)
	}
	sort.Slice(ents, func(i, j int) bool {
		if ents[i].typ != ents[j].typ {
			return ents[i].typ < ents[j].typ
		}
		return ents[i].method < ents[j].method
	})
	var b strings.Builder
	b.WriteString("namespace FpgoVerif.Gen\n\n/-- one method of ConcurrentQueue / ConcurrentStack: its body, statement by statement -/\nstructure LockMode where\n  type : String\n  method : String\n  params : String\n  stmts : List String\nderiving DecidableEq, Repr\n\ndef lockModes : List LockMode := [\n")
	for i, e := range ents {
		sep := ","
		if i == len(ents)-1 {
			sep = ""
		}
		ss := make([]string, len(e.stmts))
		for k, s := range e.stmts {
			ss[k] = leanStr(s)
		}
		fmt.Fprintf(&b, "  ⟨%s, %s, %s, [%s]⟩%s\n", leanStr(e.typ), leanStr(e.method), leanStr(e.params), strings.Join(ss, ", "), sep)
	}
	b.WriteString("]\n\nend FpgoVerif.Gen\n")
	return b.String(), nil
}

func init() { register("LockModes.lean", genLockModes) }
