package main

// C04 — destructive-effect table of the Stream / Set / StreamSet methods (both families) and of the fp.go
// helpers they are built from.  For every function the list of operations that can WRITE storage reachable
// from the receiver or a parameter:
//
//	idx:<x>        index assignment  x[i] = …          (slice element or map entry)
//	append:<x>     append(x, …) whose first operand is receiver/parameter-derived
//	append0:<x>    the same with a full slice expression of capacity 0 (x[:0:0]) — cannot write into x
//	sort:<x>       sort.* / Sort(fn, x) / SortSlice… on a receiver/parameter-derived slice
//	copy:<x>       copy(x, …) into receiver/parameter-derived storage
//	delete:<x>     delete(x, k) on a receiver/parameter-derived map
//	store:<x>      assignment through the receiver/parameter pointer  *x = …
//
// "Derived" is a syntactic may-alias closure: the receiver, the parameters, locals assigned from derived
// expressions (dereference, index, slice, field, parenthesis, type conversion to one of the collection types,
// AsMap()/AsMapSet() views), and range variables over derived collections.  Results of other calls (Clone,
// DuplicateSlice, make, …) are fresh.

import (
	"fmt"
	"go/ast"
	"go/parser"
	"go/token"
	"go/types"
	"path/filepath"
	"sort"
	"strings"
)

var c04Files = []string{"stream.go", "streamForInterface.go"}

var c04RecvTypes = map[string]bool{"StreamDef": true, "MapSetDef": true, "StreamSetDef": true,
	"StreamForInterfaceDef": true, "SetForInterfaceDef": true, "StreamSetForInterfaceDef": true}

// fp.go helpers the collection methods delegate to
var c04Helpers = map[string]bool{"MapIndexed": true, "Filter": true, "Reject": true, "Concat": true, "Sort": true,
	"Distinct": true, "DistinctForInterface": true, "Exists": true, "ExistsForInterface": true,
	"Intersection": true, "IntersectionForInterface": true, "IntersectionMapByKey": true, "IntersectionMapByKeyForInterface": true,
	"Minus": true, "MinusForInterface": true, "Keys": true, "KeysForInterface": true, "Values": true, "ValuesForInterface": true,
	"Merge": true, "MergeForInterface": true, "Reverse": true, "IsSubset": true, "IsSubsetForInterface": true,
	"IsSuperset": true, "IsSupersetForInterface": true, "IsSubsetMapByKey": true, "IsSubsetMapByKeyForInterface": true,
	"IsSupersetMapByKey": true, "IsSupersetMapByKeyForInterface": true, "DuplicateSlice": true, "DuplicateMap": true,
	"DuplicateMapForInterface": true, "SliceToMap": true, "SliceToMapForInterface": true}

var c04FuncTypes = map[string]bool{"Comparator": true, "TransformerFunctor": true, "ReducerFunctor": true, "PredicateFunctor": true}
var c04ConvTypes = map[string]bool{"StreamDef": true, "MapSetDef": true, "StreamForInterfaceDef": true, "SetForInterfaceDef": true}
var c04ViewCalls = map[string]bool{"AsMap": true, "AsMapSet": true}
var c04SortCalls = map[string]bool{"Sort": true, "SortSlice": true, "SortOrdered": true, "SortOrderedAscending": true,
	"SortOrderedDescending": true, "Slice": true, "SliceStable": true, "Ints": true, "Strings": true, "Stable": true}

func c04TypeName(e ast.Expr) string {
	switch x := e.(type) {
	case *ast.StarExpr:
		return c04TypeName(x.X)
	case *ast.Ident:
		return x.Name
	case *ast.IndexExpr:
		return c04TypeName(x.X)
	case *ast.IndexListExpr:
		return c04TypeName(x.X)
	}
	return ""
}

// root identifier an expression's storage derives from ("" = fresh / unknown)
func c04Root(e ast.Expr) string {
	switch x := e.(type) {
	case *ast.Ident:
		return x.Name
	case *ast.ParenExpr:
		return c04Root(x.X)
	case *ast.StarExpr:
		return c04Root(x.X)
	case *ast.UnaryExpr:
		if x.Op == token.AND {
			return c04Root(x.X)
		}
	case *ast.IndexExpr:
		return c04Root(x.X)
	case *ast.SliceExpr:
		return c04Root(x.X)
	case *ast.SelectorExpr:
		return c04Root(x.X)
	case *ast.TypeAssertExpr:
		return c04Root(x.X)
	case *ast.CallExpr:
		if c04ConvTypes[c04TypeName(x.Fun)] && len(x.Args) == 1 {
			return c04Root(x.Args[0]) // conversion shares the storage
		}
		if s, ok := x.Fun.(*ast.SelectorExpr); ok && c04ViewCalls[s.Sel.Name] {
			return c04Root(s.X)
		}
	}
	return ""
}

func c04Effects(fn *ast.FuncDecl) []string {
	tainted := map[string]bool{}
	addFields := func(fl *ast.FieldList) {
		if fl == nil {
			return
		}
		for _, f := range fl.List {
			if _, isFunc := f.Type.(*ast.FuncType); isFunc || c04FuncTypes[c04TypeName(f.Type)] {
				continue // function values carry no collection storage
			}
			for _, n := range f.Names {
				tainted[n.Name] = true
			}
		}
	}
	addFields(fn.Recv)
	addFields(fn.Type.Params)
	derived := func(e ast.Expr) bool { r := c04Root(e); return r != "" && tainted[r] }
	// closure: locals assigned from derived expressions, range variables over derived collections
	for changed := true; changed; {
		changed = false
		mark := func(lhs ast.Expr) {
			if id, ok := lhs.(*ast.Ident); ok && id.Name != "_" && !tainted[id.Name] {
				tainted[id.Name] = true
				changed = true
			}
		}
		ast.Inspect(fn.Body, func(n ast.Node) bool {
			switch x := n.(type) {
			case *ast.AssignStmt:
				if len(x.Lhs) == len(x.Rhs) {
					for i := range x.Lhs {
						if derived(x.Rhs[i]) {
							mark(x.Lhs[i])
						}
					}
				} else if len(x.Rhs) == 1 && derived(x.Rhs[0]) { // v, ok := m[k]
					mark(x.Lhs[0])
				}
			case *ast.RangeStmt:
				if derived(x.X) && x.Value != nil {
					mark(x.Value)
				}
			case *ast.ValueSpec:
				for i, v := range x.Values {
					if i < len(x.Names) && derived(v) && !tainted[x.Names[i].Name] {
						tainted[x.Names[i].Name] = true
						changed = true
					}
				}
			}
			return true
		})
	}
	var effs []string
	recvName := ""
	if fn.Recv != nil && len(fn.Recv.List) == 1 && len(fn.Recv.List[0].Names) == 1 {
		recvName = fn.Recv.List[0].Names[0].Name
	}
	emit := func(kind string, e ast.Expr) {
		txt := types.ExprString(e)
		if recvName != "" { // the receiver's name is irrelevant
			txt = c04ReplaceWord(txt, recvName, "recv")
		}
		effs = append(effs, kind+":"+txt)
	}
	ast.Inspect(fn.Body, func(n ast.Node) bool {
		switch x := n.(type) {
		case *ast.AssignStmt:
			for _, l := range x.Lhs {
				switch t := l.(type) {
				case *ast.IndexExpr:
					if derived(t.X) {
						emit("idx", t.X)
					}
				case *ast.StarExpr:
					if derived(t.X) {
						emit("store", t.X)
					}
				case *ast.ParenExpr:
					if s, ok := t.X.(*ast.StarExpr); ok && derived(s.X) {
						emit("store", s.X)
					}
				}
			}
		case *ast.IncDecStmt:
			if t, ok := x.X.(*ast.IndexExpr); ok && derived(t.X) {
				emit("idx", t.X)
			}
		case *ast.CallExpr:
			name := ""
			switch f := x.Fun.(type) {
			case *ast.Ident:
				name = f.Name
			case *ast.SelectorExpr:
				name = f.Sel.Name
			case *ast.IndexExpr:
				name = c04TypeName(f.X)
			}
			switch {
			case name == "append" && len(x.Args) > 0 && derived(x.Args[0]):
				if s, ok := x.Args[0].(*ast.SliceExpr); ok && s.Slice3 && s.Max != nil {
					if lit, ok := s.Max.(*ast.BasicLit); ok && lit.Value == "0" {
						emit("append0", x.Args[0])
						break
					}
				}
				emit("append", x.Args[0])
			case name == "copy" && len(x.Args) == 2 && derived(x.Args[0]):
				emit("copy", x.Args[0])
			case name == "delete" && len(x.Args) == 2 && derived(x.Args[0]):
				emit("delete", x.Args[0])
			case c04SortCalls[name]:
				for _, a := range x.Args {
					if _, isFn := a.(*ast.FuncLit); isFn {
						continue
					}
					if derived(a) {
						emit("sort", a)
					}
				}
			}
		}
		return true
	})
	return effs
}

func c04ReplaceWord(s, old, new string) string {
	isId := func(c byte) bool { return c == '_' || c >= '0' && c <= '9' || c >= 'a' && c <= 'z' || c >= 'A' && c <= 'Z' }
	var b strings.Builder
	for i := 0; i < len(s); {
		if strings.HasPrefix(s[i:], old) && (i == 0 || !isId(s[i-1])) && (i+len(old) == len(s) || !isId(s[i+len(old)])) {
			b.WriteString(new)
			i += len(old)
			continue
		}
		b.WriteByte(s[i])
		i++
	}
	return b.String()
}

func c04LeanString(s string) string {
	return "\"" + strings.ReplaceAll(strings.ReplaceAll(s, "\\", "\\\\"), "\"", "\\\"") + "\""
}

func init() {
	register("StreamEffects.lean", func(repo string) (string, error) {
		fset := token.NewFileSet()
		type entry struct {
			name string
			effs []string
		}
		var entries []entry
		for _, file := range append(append([]string{}, c04Files...), "fp.go") {
			f, err := parser.ParseFile(fset, filepath.Join(repo, file), nil, 0)
			if err != nil {
				return "", err
			}
			for _, d := range f.Decls {
				fn, ok := d.(*ast.FuncDecl)
				if !ok || fn.Body == nil {
					continue
				}
				name := fn.Name.Name
				if fn.Recv != nil && len(fn.Recv.List) == 1 {
					rt := c04TypeName(fn.Recv.List[0].Type)
					if !c04RecvTypes[rt] {
						continue
					}
					name = rt + "." + name
				} else if file == "fp.go" {
					if !c04Helpers[name] {
						continue
					}
					name = "fp." + name
				} else {
					name = "func." + name
				}
				entries = append(entries, entry{name, c04Effects(fn)})
			}
		}
		// network/simpleHTTP.go: the interceptor bookkeeping of SimpleHTTPDef (a persistent-Stream client)
		{
			f, err := parser.ParseFile(fset, filepath.Join(repo, "network", "simpleHTTP.go"), nil, 0)
			if err != nil {
				return "", err
			}
			for _, d := range f.Decls {
				fn, ok := d.(*ast.FuncDecl)
				if !ok || fn.Body == nil || !strings.Contains(fn.Name.Name, "Interceptor") {
					continue
				}
				name := "func." + fn.Name.Name
				if fn.Recv != nil && len(fn.Recv.List) == 1 {
					name = c04TypeName(fn.Recv.List[0].Type) + "." + fn.Name.Name
				}
				entries = append(entries, entry{"network." + name, c04Effects(fn)})
			}
		}
		sort.Slice(entries, func(i, j int) bool { return entries[i].name < entries[j].name })
		var b strings.Builder
		b.WriteString("/-! Destructive-effect table of the Stream/Set/StreamSet methods and their fp.go helpers (extract/c04.go). -/\n")
		b.WriteString("namespace FpgoVerif.Gen\n\nstructure StreamEffect where\n  name : String\n  effects : List String\n\n")
		b.WriteString("def streamEffects : List StreamEffect := [\n")
		for i, e := range entries {
			parts := make([]string, len(e.effs))
			for j, s := range e.effs {
				parts[j] = c04LeanString(s)
			}
			sep := ","
			if i == len(entries)-1 {
				sep = ""
			}
			fmt.Fprintf(&b, "  ⟨%s, [%s]⟩%s\n", c04LeanString(e.name), strings.Join(parts, ", "), sep)
		}
		b.WriteString("]\n\nend FpgoVerif.Gen\n")
		return b.String(), nil
	})
}
