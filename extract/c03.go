package main

// Write-effect table for the C03 helpers (DESIGN.md section 3a, `Gen/Effects`): for every top-level
// function of fp.go, the list of destructive operations on storage that is reachable from a slice- or
// map-typed parameter.  The analysis is syntactic and conservative:
//
//   depth(e)  = how many levels of caller-owned storage are reachable through e
//               (param `[]T`/`...T`/`map[K]V` = 1, `[][]T`/`...[]T`/`map[K][]V` = 2; indexing and the value
//               variable of `range` subtract one level, slicing keeps it, `x[a:b:b]`-style zero-capacity
//               views with b == a have none, composite literals add one, calls propagate the maximum)
//   effects   = `store  x[i] = …` / `x[i]++` with depth(x) ≥ 1 (slice element or map entry of the caller)
//               `append(x, …)` with depth(x) ≥ 1 (may write into the caller's spare capacity)
//               `copy(x, …)`, `delete(x, …)`, `clear(x)`, `sort.*(x…)`/`slices.*(x…)`/`Sort*(…, x)` with depth ≥ 1
//               `call F` when storage is handed to a function of fp.go that itself has effects (transitively)
//               `escape f` when storage (not an element) is handed to a function value or an unknown function
//   aliasReturns = `return e` with depth(e) ≥ 1 (a call of a function of fp.go counts only if that function itself
//               returns parameter-derived storage — monotone fixpoint)
//
//   allocOrigins = for helpers returning a slice/map: the set of origins of every returned expression, following
//               local assignments: `make` / `map` (make(map…), map literal) / `append` / `nil` (`var x []T`, nil,
//               zero-capacity view) / `lit` — allocation sites —, `param` (parameter-derived storage), `unknown`;
//               a call of an fp.go function contributes that function's origins; otherwise `scalar`
//
// Output: `Gen/EffectsC03.lean`, `def effectsC03 : List (String × List String)` — one entry per helper named
// in property C03 (a helper that no longer exists gets the effect "missing").  `Props/C03.lean` closes it
// with `C03_effects … by decide`.

import (
	"fmt"
	"go/ast"
	"go/parser"
	"go/printer"
	"go/token"
	"path/filepath"
	"sort"
	"strings"
)

var c03Helpers = []string{"Map", "MapIndexed", "Filter", "Reject", "Reduce", "Concat", "Flatten", "Distinct", "Dedupe", "DropEq",
	"Drop", "DropLast", "DropWhile", "Take", "TakeLast", "Head", "Tail", "Reverse", "Prepend", "Partition", "SplitEvery",
	"GroupBy", "UniqBy", "Zip", "Range", "Keys", "Values", "Merge", "Min", "Max", "MinMax", "Every", "Some", "Exists",
	"IsEqual", "IsEqualMap", "IsDistinct", "SliceToMap", "DuplicateSlice", "DuplicateMap"}

type c03Fn struct {
	origins []string // where the returned slice/map values come from: make, append, nil, lit, map, param, scalar, unknown
	name    string
	returns []string          // return statements that hand out parameter-derived storage
	own     []string          // own destructive operations
	calls   map[string]string // in-package callee -> source text of the call that hands storage to it
	fnParam map[string]bool
}

func c03TypeDepth(t ast.Expr) int {
	switch x := t.(type) {
	case *ast.Ellipsis:
		return 1 + c03TypeDepth(x.Elt)
	case *ast.ArrayType:
		if x.Len == nil {
			return 1 + c03TypeDepth(x.Elt)
		}
		return c03TypeDepth(x.Elt)
	case *ast.MapType:
		return 1 + c03TypeDepth(x.Value)
	case *ast.ParenExpr:
		return c03TypeDepth(x.X)
	}
	return 0
}

func c03Src(fset *token.FileSet, n ast.Node) string {
	var b strings.Builder
	printer.Fprint(&b, fset, n)
	s := strings.Join(strings.Fields(b.String()), " ")
	if len(s) > 90 {
		s = s[:90] + "…"
	}
	return s
}

type c03Walker struct {
	aliasRet map[string]bool // in-package functions known to return parameter-derived storage
	fset    *token.FileSet
	env     map[string]int
	fn      *c03Fn
	pkgFns  map[string]bool
	collect bool
}

func isLit(e ast.Expr, v string) bool {
	b, ok := e.(*ast.BasicLit)
	return ok && b.Value == v
}

func (w *c03Walker) depth(e ast.Expr) int {
	switch x := e.(type) {
	case *ast.Ident:
		return w.env[x.Name]
	case *ast.ParenExpr:
		return w.depth(x.X)
	case *ast.StarExpr:
		return w.depth(x.X)
	case *ast.UnaryExpr:
		return w.depth(x.X)
	case *ast.SliceExpr:
		if x.Slice3 && x.Max != nil {
			// s[a:b:c] with c == a (syntactically): zero capacity, nothing of the caller is reachable for writing
			if (x.Low == nil && isLit(x.Max, "0")) || (x.Low != nil && x.Max != nil && c03Src(w.fset, x.Low) == c03Src(w.fset, x.Max)) {
				return 0
			}
		}
		return w.depth(x.X)
	case *ast.IndexExpr:
		d := w.depth(x.X) - 1
		if d < 0 {
			d = 0
		}
		return d
	case *ast.CompositeLit:
		d := 0
		for _, el := range x.Elts {
			if kv, ok := el.(*ast.KeyValueExpr); ok {
				el = kv.Value
			}
			if k := w.depth(el); k > 0 && k+1 > d {
				d = k + 1
			}
		}
		return d
	case *ast.CallExpr:
		name := sel(x.Fun)
		switch name {
		case "len", "cap", "make", "new", "copy", "delete", "min", "max":
			return 0
		case "append":
			d := 0
			for i, a := range x.Args {
				k := w.depth(a)
				if i > 0 {
					if x.Ellipsis.IsValid() && i == len(x.Args)-1 {
						// the elements of a are copied into the result: they keep their own depth (k-1) and sit one level down
						if k < 2 {
							k = 0
						}
					} else if k > 0 {
						k++
					}
				}
				if k > d {
					d = k
				}
			}
			return d
		}
		if w.pkgFns[name] && !w.aliasRet[name] {
			return 0 // the callee returns fresh storage
		}
		d := 0
		for _, a := range x.Args {
			if k := w.depth(a); k > d {
				d = k
			}
		}
		return d
	case *ast.TypeAssertExpr:
		return w.depth(x.X)
	}
	return 0
}

func (w *c03Walker) effect(kind string, n ast.Node) {
	if !w.collect {
		return
	}
	e := kind + " " + c03Src(w.fset, n)
	for _, o := range w.fn.own {
		if o == e {
			return
		}
	}
	w.fn.own = append(w.fn.own, e)
}

func (w *c03Walker) setVar(lhs ast.Expr, d int) {
	if id, ok := lhs.(*ast.Ident); ok && id.Name != "_" {
		if d > w.env[id.Name] {
			w.env[id.Name] = d
		}
	}
}

func (w *c03Walker) call(x *ast.CallExpr) {
	name := sel(x.Fun)
	maxd := 0
	for _, a := range x.Args {
		if k := w.depth(a); k > maxd {
			maxd = k
		}
	}
	switch name {
	case "len", "cap", "make", "new", "min", "max", "panic", "print", "println", "recover":
		return
	case "append":
		if len(x.Args) > 0 && w.depth(x.Args[0]) >= 1 {
			w.effect("append", x)
		}
		return
	case "copy", "delete", "clear":
		if len(x.Args) > 0 && w.depth(x.Args[0]) >= 1 {
			w.effect(name, x)
		}
		return
	}
	if maxd == 0 {
		return
	}
	if strings.HasPrefix(name, "sort.") || strings.HasPrefix(name, "slices.") {
		w.effect("sort", x)
		return
	}
	if strings.HasPrefix(name, "reflect.") || strings.HasPrefix(name, "fmt.") {
		return
	}
	if w.pkgFns[name] {
		if w.collect {
			if _, ok := w.fn.calls[name]; !ok {
				w.fn.calls[name] = c03Src(w.fset, x)
			}
		}
		return
	}
	if _, isType := x.Fun.(*ast.ArrayType); isType { // conversion []T(x)
		return
	}
	w.effect("escape", x)
}

func (w *c03Walker) visit(n ast.Node) {
	ast.Inspect(n, func(n ast.Node) bool {
		switch x := n.(type) {
		case *ast.AssignStmt:
			for _, l := range x.Lhs {
				if ix, ok := l.(*ast.IndexExpr); ok && w.depth(ix.X) >= 1 {
					w.effect("store", x)
				}
				if st, ok := l.(*ast.StarExpr); ok && w.depth(st.X) >= 1 {
					w.effect("store", x)
				}
			}
			if len(x.Lhs) == len(x.Rhs) {
				for i := range x.Lhs {
					w.setVar(x.Lhs[i], w.depth(x.Rhs[i]))
				}
			} else if len(x.Rhs) == 1 {
				d := w.depth(x.Rhs[0])
				for _, l := range x.Lhs {
					w.setVar(l, d)
				}
			}
		case *ast.IncDecStmt:
			if ix, ok := x.X.(*ast.IndexExpr); ok && w.depth(ix.X) >= 1 {
				w.effect("store", x)
			}
		case *ast.RangeStmt:
			d := w.depth(x.X) - 1
			if d < 0 {
				d = 0
			}
			if x.Value != nil {
				w.setVar(x.Value, d)
			}
		case *ast.ValueSpec:
			for i, nm := range x.Names {
				if i < len(x.Values) {
					w.setVar(nm, w.depth(x.Values[i]))
				}
			}
		case *ast.CallExpr:
			w.call(x)
		case *ast.ReturnStmt:
			if w.collect {
				for _, r := range x.Results {
					if w.depth(r) >= 1 {
						e := "return " + c03Src(w.fset, r)
						dup := false
						for _, o := range w.fn.returns {
							dup = dup || o == e
						}
						if !dup {
							w.fn.returns = append(w.fn.returns, e)
						}
					}
				}
			}
		case *ast.FuncLit:
			// a closure's own return statements are not the helper's; its body is still scanned for effects
			saved := w.fn.returns
			w.visit(x.Body)
			w.fn.returns = saved
			return false
		}
		return true
	})
}

// ---- allocation origins of the returned values

type c03Origins struct {
	w       *c03Walker
	assigns map[string][]ast.Expr // local name -> right-hand sides assigned to it
	nilDecl map[string]bool       // `var x []T` / `var x map…` without initialiser
	fnOrig  map[string][]string   // origins of the in-package functions computed so far
}

func c03CollectAssigns(body ast.Node) (map[string][]ast.Expr, map[string]bool) {
	as := map[string][]ast.Expr{}
	nd := map[string]bool{}
	ast.Inspect(body, func(n ast.Node) bool {
		switch x := n.(type) {
		case *ast.AssignStmt:
			if len(x.Lhs) == len(x.Rhs) {
				for i, l := range x.Lhs {
					if id, ok := l.(*ast.Ident); ok {
						as[id.Name] = append(as[id.Name], x.Rhs[i])
					}
				}
			} else if len(x.Rhs) == 1 {
				for _, l := range x.Lhs {
					if id, ok := l.(*ast.Ident); ok {
						as[id.Name] = append(as[id.Name], x.Rhs[0])
					}
				}
			}
		case *ast.ValueSpec:
			for i, nm := range x.Names {
				if i < len(x.Values) {
					as[nm.Name] = append(as[nm.Name], x.Values[i])
				} else if x.Type != nil && c03TypeDepth(x.Type) > 0 {
					nd[nm.Name] = true
				}
			}
		}
		return true
	})
	return as, nd
}

func (o *c03Origins) of(e ast.Expr, seen map[string]bool) []string {
	switch x := e.(type) {
	case *ast.ParenExpr:
		return o.of(x.X, seen)
	case *ast.Ident:
		var res []string
		if x.Name == "nil" {
			return []string{"nil"}
		}
		if seen[x.Name] {
			return nil
		}
		seen[x.Name] = true
		if o.nilDecl[x.Name] {
			res = append(res, "nil")
		}
		for _, rhs := range o.assigns[x.Name] {
			res = append(res, o.of(rhs, seen)...)
		}
		if o.w.env[x.Name] >= 1 {
			res = append(res, "param")
		}
		if len(res) == 0 {
			res = []string{"unknown"}
		}
		return res
	case *ast.SliceExpr:
		if x.Slice3 && o.w.depth(x) == 0 && o.w.depth(x.X) >= 1 {
			return []string{"nil"} // zero-capacity view of a parameter: appending to it allocates
		}
		return o.of(x.X, seen)
	case *ast.CompositeLit:
		res := []string{"lit"}
		if _, ok := x.Type.(*ast.MapType); ok {
			res = []string{"map"}
		}
		if o.w.depth(x) >= 1 {
			res = append(res, "param")
		}
		return res
	case *ast.CallExpr:
		name := sel(x.Fun)
		switch name {
		case "make":
			if len(x.Args) > 0 {
				if _, ok := x.Args[0].(*ast.MapType); ok {
					return []string{"map"}
				}
			}
			return []string{"make"}
		case "append":
			res := []string{"append"}
			if len(x.Args) > 0 {
				res = append(res, o.of(x.Args[0], seen)...)
			}
			return res
		}
		if o.w.pkgFns[name] {
			passes := false
			for _, a := range x.Args {
				passes = passes || o.w.depth(a) >= 1
			}
			var res []string
			for _, og := range o.fnOrig[name] {
				if og == "param" && !passes {
					continue
				}
				res = append(res, og)
			}
			if len(res) == 0 {
				res = []string{"unknown"}
			}
			return res
		}
		return []string{"unknown"}
	}
	return []string{"unknown"}
}

func c03ReturnsStorage(fd *ast.FuncDecl) bool {
	if fd.Type.Results == nil {
		return false
	}
	for _, r := range fd.Type.Results.List {
		if c03TypeDepth(r.Type) > 0 {
			return true
		}
	}
	return false
}

func c03Uniq(l []string) []string {
	sort.Strings(l)
	var r []string
	for i, x := range l {
		if i == 0 || x != l[i-1] {
			r = append(r, x)
		}
	}
	return r
}

func genEffectsC03(repo string) (string, error) {
	fset := token.NewFileSet()
	f, err := parser.ParseFile(fset, filepath.Join(repo, "fp.go"), nil, 0)
	if err != nil {
		return "", err
	}
	pkgFns := map[string]bool{}
	var decls []*ast.FuncDecl
	for _, d := range f.Decls {
		if fd, ok := d.(*ast.FuncDecl); ok && fd.Recv == nil && fd.Body != nil {
			pkgFns[fd.Name.Name] = true
			decls = append(decls, fd)
		}
	}
	fns := map[string]*c03Fn{}
	walkers := map[string]*c03Walker{}
	aliasRet := map[string]bool{}
	for round := 0; round < 6; round++ { // which functions return parameter-derived storage: monotone fixpoint
		changed := false
		for _, fd := range decls {
			fn := &c03Fn{name: fd.Name.Name, calls: map[string]string{}, fnParam: map[string]bool{}}
			w := &c03Walker{fset: fset, env: map[string]int{}, fn: fn, pkgFns: pkgFns, aliasRet: aliasRet}
			for _, p := range fd.Type.Params.List {
				d := c03TypeDepth(p.Type)
				for _, nm := range p.Names {
					if d > 0 {
						w.env[nm.Name] = d
					}
				}
			}
			for pass := 0; pass < 4; pass++ { // taint to a fixpoint (loops), effects collected on the last pass
				w.collect = pass == 3
				w.visit(fd.Body)
			}
			fns[fn.name] = fn
			walkers[fn.name] = w
			if len(fn.returns) > 0 && !aliasRet[fn.name] {
				aliasRet[fn.name] = true
				changed = true
			}
		}
		if !changed {
			break
		}
	}
	// allocation origins of the returned values (callees first: iterate to a fixpoint)
	fnOrig := map[string][]string{}
	for round := 0; round < 6; round++ {
		for _, fd := range decls {
			name := fd.Name.Name
			if !c03ReturnsStorage(fd) {
				fnOrig[name] = []string{"scalar"}
				continue
			}
			as, nd := c03CollectAssigns(fd.Body)
			o := &c03Origins{w: walkers[name], assigns: as, nilDecl: nd, fnOrig: fnOrig}
			var res []string
			var visit func(n ast.Node)
			visit = func(n ast.Node) {
				ast.Inspect(n, func(n ast.Node) bool {
					switch x := n.(type) {
					case *ast.FuncLit:
						return false
					case *ast.ReturnStmt:
						for _, r := range x.Results {
							res = append(res, o.of(r, map[string]bool{})...)
						}
					}
					return true
				})
			}
			visit(fd.Body)
			fnOrig[name] = c03Uniq(res)
		}
	}
	for name, og := range fnOrig {
		if fns[name] != nil {
			fns[name].origins = og
		}
	}
	// transitive closure over in-package calls that receive storage
	var total func(name string, seen map[string]bool) []string
	total = func(name string, seen map[string]bool) []string {
		fn := fns[name]
		if fn == nil || seen[name] {
			return nil
		}
		seen[name] = true
		res := append([]string{}, fn.own...)
		callees := make([]string, 0, len(fn.calls))
		for c := range fn.calls {
			callees = append(callees, c)
		}
		sort.Strings(callees)
		for _, c := range callees {
			for _, e := range total(c, seen) {
				res = append(res, "call "+c+": "+e)
			}
		}
		return res
	}
	var b strings.Builder
	b.WriteString("namespace FpgoVerif.Gen\n\n")
	b.WriteString("/-- per C03 helper: destructive operations on storage reachable from a slice/map parameter (see extract/c03.go) -/\n")
	b.WriteString("def effectsC03 : List (String × List String) := [\n")
	for i, h := range c03Helpers {
		var effs []string
		if fns[h] == nil {
			effs = []string{"missing"}
		} else {
			effs = total(h, map[string]bool{})
		}
		q := make([]string, len(effs))
		for j, e := range effs {
			q[j] = fmt.Sprintf("%q", e)
		}
		sep := ","
		if i == len(c03Helpers)-1 {
			sep = ""
		}
		fmt.Fprintf(&b, "  (%q, [%s])%s\n", h, strings.Join(q, ", "), sep)
	}
	b.WriteString("]\n\n")
	b.WriteString("/-- per C03 helper: return statements whose value shares storage with a slice/map parameter -/\n")
	b.WriteString("def aliasReturnsC03 : List (String × List String) := [\n")
	for i, h := range c03Helpers {
		effs := []string{"missing"}
		if fns[h] != nil {
			effs = fns[h].returns
		}
		q := make([]string, len(effs))
		for j, e := range effs {
			q[j] = fmt.Sprintf("%q", e)
		}
		sep := ","
		if i == len(c03Helpers)-1 {
			sep = ""
		}
		fmt.Fprintf(&b, "  (%q, [%s])%s\n", h, strings.Join(q, ", "), sep)
	}
	b.WriteString("]\n\n")
	b.WriteString("/-- per C03 helper: where the returned slice/map values come from (make, append, nil, lit, map = allocation sites; param = parameter storage; scalar; unknown) -/\n")
	b.WriteString("def allocOriginsC03 : List (String × List String) := [\n")
	for i, h := range c03Helpers {
		effs := []string{"missing"}
		if fns[h] != nil {
			effs = fns[h].origins
		}
		q := make([]string, len(effs))
		for j, e := range effs {
			q[j] = fmt.Sprintf("%q", e)
		}
		sep := ","
		if i == len(c03Helpers)-1 {
			sep = ""
		}
		fmt.Fprintf(&b, "  (%q, [%s])%s\n", h, strings.Join(q, ", "), sep)
	}
	b.WriteString("]\n\nend FpgoVerif.Gen\n")
	return b.String(), nil
}

func init() { register("EffectsC03.lean", genEffectsC03) }
