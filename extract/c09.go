package main

// C09: decision listing of the worker-pool functions (worker/pool.go).  The protocol skeletons carry the
// order of locks / channel operations / flag accesses but not the comparison operators of the guards, the
// operands of ++/--, which error a branch returns or where spawnWorkerCh.Offer is called.  This generator
// prints, for every function the C09 transition system models, its statements in source order as normalised
// one-line strings (receiver renamed to `p`, white space collapsed, verifPoint hooks and comments dropped,
// blocks delimited by "{" / "}" entries).  Props/C09.lean compares them with what the model assumes (decide).

import (
	"bytes"
	"fmt"
	"go/ast"
	"go/parser"
	"go/printer"
	"go/token"
	"path/filepath"
	"regexp"
	"sort"
	"strings"
)

var c09Funcs = map[string]bool{"Schedule": true, "ScheduleWithTimeout": true, "trySpawn": true, "generateWorkerWithMaximum": true,
	"spawnLoop": true, "notifyWorkers": true, "Close": true, "IsClosed": true, "Invoke": true, "InvokeWithTimeout": true,
	"PreAllocWorkerSize": true, "NewDefaultWorkerPool": true}

var c09Recv = regexp.MustCompile(`\b(workerPoolSelf|invokableSelf)\b`)
var c09WS = regexp.MustCompile(`\s+`)

type c09Lister struct {
	fset *token.FileSet
	out  []string
}

func (l *c09Lister) str(n ast.Node) string {
	var b bytes.Buffer
	printer.Fprint(&b, l.fset, n)
	s := c09WS.ReplaceAllString(b.String(), " ")
	s = c09Recv.ReplaceAllString(s, "p")
	return strings.TrimSpace(s)
}

func (l *c09Lister) emit(s string) { l.out = append(l.out, s) }

func c09IsHook(e ast.Expr) bool {
	c, ok := e.(*ast.CallExpr)
	if !ok {
		return false
	}
	if id, ok := c.Fun.(*ast.Ident); ok {
		return id.Name == "verifPoint" || id.Name == "verifEvent"
	}
	return false
}

func (l *c09Lister) block(b *ast.BlockStmt) {
	if b == nil {
		return
	}
	for _, s := range b.List {
		l.stmt(s)
	}
}

func (l *c09Lister) call(prefix string, c *ast.CallExpr) {
	if fl, ok := c.Fun.(*ast.FuncLit); ok {
		l.emit(prefix + " func {")
		l.block(fl.Body)
		args := make([]string, len(c.Args))
		for i, a := range c.Args {
			args[i] = l.str(a)
		}
		l.emit("}(" + strings.Join(args, ", ") + ")")
		return
	}
	l.emit(prefix + " " + l.str(c))
}

func (l *c09Lister) stmt(s ast.Stmt) {
	switch x := s.(type) {
	case nil:
	case *ast.BlockStmt:
		l.emit("{")
		l.block(x)
		l.emit("}")
	case *ast.ExprStmt:
		if c09IsHook(x.X) {
			return
		}
		l.emit(l.str(x.X))
	case *ast.IfStmt:
		h := "if "
		if x.Init != nil {
			h += l.str(x.Init) + "; "
		}
		l.emit(h + l.str(x.Cond) + " {")
		l.block(x.Body)
		for x.Else != nil {
			if ei, ok := x.Else.(*ast.IfStmt); ok {
				h = "} else if "
				if ei.Init != nil {
					h += l.str(ei.Init) + "; "
				}
				l.emit(h + l.str(ei.Cond) + " {")
				l.block(ei.Body)
				x = ei
				continue
			}
			l.emit("} else {")
			l.block(x.Else.(*ast.BlockStmt))
			break
		}
		l.emit("}")
	case *ast.ForStmt:
		h := "for "
		if x.Init != nil || x.Post != nil {
			h += l.str0(x.Init) + "; " + l.str0e(x.Cond) + "; " + l.str0(x.Post)
		} else if x.Cond != nil {
			h += l.str(x.Cond)
		}
		l.emit(strings.TrimSpace(h) + " {")
		l.block(x.Body)
		l.emit("}")
	case *ast.RangeStmt:
		l.emit("for range " + l.str(x.X) + " {")
		l.block(x.Body)
		l.emit("}")
	case *ast.SelectStmt:
		l.emit("select {")
		for _, cl := range x.Body.List {
			cc := cl.(*ast.CommClause)
			if cc.Comm == nil {
				l.emit("default:")
			} else {
				l.emit("case " + l.str(cc.Comm) + ":")
			}
			for _, st := range cc.Body {
				l.stmt(st)
			}
		}
		l.emit("}")
	case *ast.LabeledStmt:
		l.emit(x.Label.Name + ":")
		l.stmt(x.Stmt)
	case *ast.DeferStmt:
		l.call("defer", x.Call)
	case *ast.GoStmt:
		l.call("go", x.Call)
	case *ast.SwitchStmt, *ast.TypeSwitchStmt:
		l.emit("untranslatable switch " + l.str(x))
	default:
		// assignments, ++/--, return, break/continue, send, declarations: one line each
		l.emit(l.str(x))
	}
}

func (l *c09Lister) str0(s ast.Stmt) string {
	if s == nil {
		return ""
	}
	return l.str(s)
}
func (l *c09Lister) str0e(e ast.Expr) string {
	if e == nil {
		return ""
	}
	return l.str(e)
}

func genPoolGuards(repo string) (string, error) {
	fset := token.NewFileSet()
	f, err := parser.ParseFile(fset, filepath.Join(repo, "worker", "pool.go"), nil, 0)
	if err != nil {
		return "", err
	}
	type ent struct {
		name  string
		lines []string
		skel  []string
	}
	var ents []ent
	for _, d := range f.Decls {
		fd, ok := d.(*ast.FuncDecl)
		if !ok || fd.Body == nil || !c09Funcs[fd.Name.Name] {
			continue
		}
		l := &c09Lister{fset: fset}
		l.block(fd.Body)
		// the protocol skeleton of skeleton.go (the very string of Gen/Skeletons.lean), cut at its blanks: the
		// kernel compares many short strings much faster than one long one
		var atoms []string
		blockAtoms(fd.Body, &atoms)
		ents = append(ents, ent{fd.Name.Name, l.out, strings.Split(strings.Join(atoms, " "), " ")})
	}
	sort.Slice(ents, func(i, j int) bool { return ents[i].name < ents[j].name })
	var b strings.Builder
	b.WriteString("namespace FpgoVerif.Gen\n\n/-- normalised statement listing of the worker-pool functions modelled by C09 (worker/pool.go) -/\ndef poolGuards : List (String × List String) := [\n")
	for i, e := range ents {
		sep := ","
		if i == len(ents)-1 {
			sep = ""
		}
		qs := make([]string, len(e.lines))
		for k, s := range e.lines {
			qs[k] = leanStr(s)
		}
		fmt.Fprintf(&b, "  (%s, [\n    %s])%s\n", leanStr(e.name), strings.Join(qs, ",\n    "), sep)
	}
	b.WriteString("]\n\ndef poolGuardsOf (m : String) : Option (List String) := (poolGuards.find? (·.1 == m)).map (·.2)\n\n")
	b.WriteString("/-- protocol skeletons (extract/skeleton.go) of the same functions, as the list of their blank-separated pieces -/\ndef poolSkeletons : List (String × List String) := [\n")
	for i, e := range ents {
		sep := ","
		if i == len(ents)-1 {
			sep = ""
		}
		qs := make([]string, len(e.skel))
		for k, s := range e.skel {
			qs[k] = leanStr(s)
		}
		fmt.Fprintf(&b, "  (%s, [\n    %s])%s\n", leanStr(e.name), strings.Join(qs, ",\n    "), sep)
	}
	b.WriteString("]\n\ndef poolSkeletonOf (m : String) : Option (List String) := (poolSkeletons.find? (·.1 == m)).map (·.2)\n\nend FpgoVerif.Gen\n")
	return b.String(), nil
}

func init() { register("PoolGuards.lean", genPoolGuards) }
