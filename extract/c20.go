package main

// Write-effect table for the combinators of property C20 (`Gen/EffectsC20.lean`): for Compose,
// ComposeInterface, Pipe, PipeInterface the list of destructive operations on the caller's function slice
// (the variadic parameter and every alias of it: re-slices, plain copies of the slice header), anywhere in
// the body including the returned closure.  Syntactic and conservative:
//
//	store  <stmt>    assignment / swap / op-assign / ++ whose left side indexes an alias of the parameter
//	append <call>    append(alias, …)           (may write into the caller's spare capacity)
//	write  <call>    copy(alias, …), clear(alias), sort.*/slices.* with an alias argument
//	state  <stmt>    an assignment inside a closure to a variable of the enclosing function (state kept between
//	                 the invocations of the composed function, e.g. a recycled buffer)
//	escape <call>    an alias handed (not spread into one of the four combinators themselves) to any other call
//	missing          the function does not exist any more
//
// `Props/C20.lean` closes it with `C20_argument_list_not_written … by decide`: no effect for any of the four.

import (
	"fmt"
	"go/ast"
	"go/parser"
	"go/printer"
	"go/token"
	"path/filepath"
	"strings"
)

var c20Combinators = []string{"Compose", "ComposeInterface", "Pipe", "PipeInterface"}

func c20Src(fset *token.FileSet, n ast.Node) string {
	var b strings.Builder
	printer.Fprint(&b, fset, n)
	s := strings.Join(strings.Fields(b.String()), " ")
	if len(s) > 100 {
		s = s[:100] + "…"
	}
	return s
}

func c20Rooted(e ast.Expr, alias map[string]bool) bool {
	switch x := e.(type) {
	case *ast.Ident:
		return alias[x.Name]
	case *ast.ParenExpr:
		return c20Rooted(x.X, alias)
	case *ast.SliceExpr:
		return c20Rooted(x.X, alias)
	}
	return false
}

func c20Effects(fset *token.FileSet, fd *ast.FuncDecl) []string {
	alias := map[string]bool{}
	for _, p := range fd.Type.Params.List {
		switch p.Type.(type) {
		case *ast.Ellipsis, *ast.ArrayType:
			for _, nm := range p.Names {
				alias[nm.Name] = true
			}
		}
	}
	// aliases to a fixpoint: x := alias / x = alias[a:b] / var x = alias
	for changed := true; changed; {
		changed = false
		ast.Inspect(fd.Body, func(n ast.Node) bool {
			switch s := n.(type) {
			case *ast.AssignStmt:
				if len(s.Lhs) == len(s.Rhs) {
					for i, r := range s.Rhs {
						if id, ok := s.Lhs[i].(*ast.Ident); ok && c20Rooted(r, alias) && !alias[id.Name] {
							alias[id.Name] = true
							changed = true
						}
					}
				}
			case *ast.ValueSpec:
				if len(s.Names) == len(s.Values) {
					for i, r := range s.Values {
						if c20Rooted(r, alias) && !alias[s.Names[i].Name] {
							alias[s.Names[i].Name] = true
							changed = true
						}
					}
				}
			}
			return true
		})
	}
	isComb := map[string]bool{}
	for _, c := range c20Combinators {
		isComb[c] = true
	}
	var effs []string
	indexOfAlias := func(e ast.Expr) bool {
		for {
			switch x := e.(type) {
			case *ast.ParenExpr:
				e = x.X
				continue
			case *ast.IndexExpr:
				return c20Rooted(x.X, alias)
			}
			return false
		}
	}
	ast.Inspect(fd.Body, func(n ast.Node) bool {
		switch s := n.(type) {
		case *ast.AssignStmt:
			for _, l := range s.Lhs {
				if indexOfAlias(l) {
					effs = append(effs, "store "+c20Src(fset, s))
					break
				}
			}
		case *ast.IncDecStmt:
			if indexOfAlias(s.X) {
				effs = append(effs, "store "+c20Src(fset, s))
			}
		case *ast.CallExpr:
			name := ""
			switch f := s.Fun.(type) {
			case *ast.Ident:
				name = f.Name
			case *ast.SelectorExpr:
				if id, ok := f.X.(*ast.Ident); ok {
					name = id.Name + "." + f.Sel.Name
				} else {
					name = "." + f.Sel.Name
				}
			case *ast.IndexExpr: // explicit instantiation Compose[T](…)
				if id, ok := f.X.(*ast.Ident); ok {
					name = id.Name
				}
			}
			for i, a := range s.Args {
				if !c20Rooted(a, alias) {
					continue
				}
				switch {
				case name == "append" && i == 0:
					effs = append(effs, "append "+c20Src(fset, s))
				case name == "append" || name == "len" || name == "cap":
					// appended *from* / measured: read only
				case name == "copy" && i == 0, name == "clear", strings.HasPrefix(name, "sort."), strings.HasPrefix(name, "slices."):
					effs = append(effs, "write "+c20Src(fset, s))
				case name == "copy":
				case isComb[name] && s.Ellipsis.IsValid() && i == len(s.Args)-1:
					// spread into a combinator that is itself in the table
				default:
					effs = append(effs, "escape "+c20Src(fset, s))
				}
			}
		}
		return true
	})
	// captured mutable state: a closure that assigns to a variable of the enclosing function keeps state between
	// the invocations of the composed function (e.g. a recycled argument/result buffer)
	ast.Inspect(fd.Body, func(n ast.Node) bool {
		lit, ok := n.(*ast.FuncLit)
		if !ok {
			return true
		}
		local := map[string]bool{"_": true}
		for _, p := range lit.Type.Params.List {
			for _, nm := range p.Names {
				local[nm.Name] = true
			}
		}
		if lit.Type.Results != nil {
			for _, p := range lit.Type.Results.List {
				for _, nm := range p.Names {
					local[nm.Name] = true
				}
			}
		}
		ast.Inspect(lit.Body, func(m ast.Node) bool {
			switch x := m.(type) {
			case *ast.AssignStmt:
				if x.Tok == token.DEFINE {
					for _, l := range x.Lhs {
						if id, ok := l.(*ast.Ident); ok {
							local[id.Name] = true
						}
					}
				}
			case *ast.ValueSpec:
				for _, nm := range x.Names {
					local[nm.Name] = true
				}
			case *ast.RangeStmt:
				if x.Tok == token.DEFINE {
					for _, e := range []ast.Expr{x.Key, x.Value} {
						if id, ok := e.(*ast.Ident); ok {
							local[id.Name] = true
						}
					}
				}
			}
			return true
		})
		root := func(e ast.Expr) string {
			for {
				switch x := e.(type) {
				case *ast.Ident:
					return x.Name
				case *ast.ParenExpr:
					e = x.X
				case *ast.IndexExpr:
					e = x.X
				case *ast.SliceExpr:
					e = x.X
				case *ast.SelectorExpr:
					e = x.X
				case *ast.StarExpr:
					e = x.X
				default:
					return "_"
				}
			}
		}
		ast.Inspect(lit.Body, func(m ast.Node) bool {
			switch x := m.(type) {
			case *ast.AssignStmt:
				if x.Tok != token.DEFINE {
					for _, l := range x.Lhs {
						if !local[root(l)] {
							effs = append(effs, "state "+c20Src(fset, x))
							break
						}
					}
				}
			case *ast.IncDecStmt:
				if !local[root(x.X)] {
					effs = append(effs, "state "+c20Src(fset, x))
				}
			}
			return true
		})
		return false
	})
	return effs
}

func genEffectsC20(repo string) (string, error) {
	fset := token.NewFileSet()
	f, err := parser.ParseFile(fset, filepath.Join(repo, "fp.go"), nil, 0)
	if err != nil {
		return "", err
	}
	decls := map[string]*ast.FuncDecl{}
	for _, d := range f.Decls {
		if fd, ok := d.(*ast.FuncDecl); ok && fd.Recv == nil && fd.Body != nil {
			decls[fd.Name.Name] = fd
		}
	}
	var b strings.Builder
	b.WriteString("namespace FpgoVerif.Gen\n\n")
	b.WriteString("/-- per combinator of C20: destructive operations on the caller's function slice (see extract/c20.go) -/\n")
	b.WriteString("def effectsC20 : List (String × List String) := [\n")
	for i, h := range c20Combinators {
		effs := []string{"missing"}
		if fd := decls[h]; fd != nil {
			effs = c20Effects(fset, fd)
		}
		q := make([]string, len(effs))
		for j, e := range effs {
			q[j] = fmt.Sprintf("%q", e)
		}
		sep := ","
		if i == len(c20Combinators)-1 {
			sep = ""
		}
		fmt.Fprintf(&b, "  (%q, [%s])%s\n", h, strings.Join(q, ", "), sep)
	}
	b.WriteString("]\n\nend FpgoVerif.Gen\n")
	return b.String(), nil
}

func init() { register("EffectsC20.lean", genEffectsC20) }
