package main

// C19 — SortDescriptorsBuilder is a slice VALUE (sortDescriptor.go): whether two builders derived from the
// same shorter builder can share a backing array is decided by (a) the length/capacity of the slice the
// constructor returns and (b) what the `append` of every ThenWith… method appends to.
//
// Output: FpgoVerif.Gen.sortBuilderNew : SliceInit      — `T{}` => lenCap 0 0, `make(T, n)` => lenCap n n,
//                                                          `make(T, n, c)` => lenCap n c, else untranslatable
//         FpgoVerif.Gen.sortBuilderThenWith : List (String × AppendTarget)
//                                                        — for each method whose name starts with ThenWith, the
//                                                          first operand of its (only) append: the receiver
//                                                          itself, or `other "<src>"`
//         FpgoVerif.Gen.sortBuilderThenWithReturns : List (String × List String)
//                                                        — per ThenWith… method the source of every returned
//                                                          expression that is NOT the result of that append (the
//                                                          variable it was assigned to, or the call itself): a
//                                                          return path that hands out something else, e.g. the
//                                                          caller's argument slice, shows up here

import (
	"bytes"
	"fmt"
	"go/ast"
	"go/parser"
	"go/printer"
	"go/token"
	"path/filepath"
	"sort"
	"strconv"
	"strings"
)

func c19Src(fset *token.FileSet, n ast.Node) string {
	var b bytes.Buffer
	printer.Fprint(&b, fset, n)
	return strings.Join(strings.Fields(b.String()), " ")
}

func c19Gen(repo string) (string, error) {
	fset := token.NewFileSet()
	f, err := parser.ParseFile(fset, filepath.Join(repo, "sortDescriptor.go"), nil, 0)
	if err != nil {
		return "", err
	}
	init := fmt.Sprintf(".untranslatable %q", "NewSortDescriptorsBuilder not found")
	type tw struct {
		name, target string
		otherReturns   []string
	}
	var tws []tw
	for _, d := range f.Decls {
		fd, ok := d.(*ast.FuncDecl)
		if !ok || fd.Body == nil {
			continue
		}
		if fd.Recv == nil && fd.Name.Name == "NewSortDescriptorsBuilder" {
			init = fmt.Sprintf(".untranslatable %q", c19Src(fset, fd.Body))
			if len(fd.Body.List) == 1 {
				if rs, ok := fd.Body.List[0].(*ast.ReturnStmt); ok && len(rs.Results) == 1 {
					switch e := rs.Results[0].(type) {
					case *ast.CompositeLit:
						if len(e.Elts) == 0 {
							init = ".lenCap 0 0"
						}
					case *ast.CallExpr:
						if id, ok := e.Fun.(*ast.Ident); ok && id.Name == "make" && (len(e.Args) == 2 || len(e.Args) == 3) {
							nums := []int{}
							for _, a := range e.Args[1:] {
								if bl, ok := a.(*ast.BasicLit); ok && bl.Kind == token.INT {
									if v, err := strconv.Atoi(bl.Value); err == nil {
										nums = append(nums, v)
									}
								}
							}
							if len(nums) == len(e.Args)-1 {
								if len(nums) == 1 {
									nums = append(nums, nums[0])
								}
								init = fmt.Sprintf(".lenCap %d %d", nums[0], nums[1])
							}
						}
					}
				}
			}
		}
		if fd.Recv != nil && strings.HasPrefix(fd.Name.Name, "ThenWith") && strings.Contains(c19Src(fset, fd.Recv.List[0].Type), "SortDescriptorsBuilder") {
			recv := ""
			if len(fd.Recv.List[0].Names) > 0 {
				recv = fd.Recv.List[0].Names[0].Name
			}
			var appends []*ast.CallExpr
			ast.Inspect(fd.Body, func(n ast.Node) bool {
				if c, ok := n.(*ast.CallExpr); ok {
					if id, ok := c.Fun.(*ast.Ident); ok && id.Name == "append" {
						appends = append(appends, c)
					}
				}
				return true
			})
			target := fmt.Sprintf(".other %q", c19Src(fset, fd.Body))
			if len(appends) == 1 && len(appends[0].Args) >= 1 {
				if id, ok := appends[0].Args[0].(*ast.Ident); ok && id.Name == recv && recv != "" {
					target = ".receiver"
				} else {
					target = fmt.Sprintf(".other %q", c19Src(fset, appends[0].Args[0]))
				}
			}
			// every return must hand out the result of the append
			resultVar := ""
			ast.Inspect(fd.Body, func(n ast.Node) bool {
				if as, ok := n.(*ast.AssignStmt); ok && len(as.Lhs) == 1 && len(as.Rhs) == 1 && len(appends) == 1 && as.Rhs[0] == ast.Expr(appends[0]) {
					if id, ok := as.Lhs[0].(*ast.Ident); ok {
						resultVar = id.Name
					}
				}
				return true
			})
			var others []string
			ast.Inspect(fd.Body, func(n ast.Node) bool {
				if _, ok := n.(*ast.FuncLit); ok {
					return false
				}
				if rs, ok := n.(*ast.ReturnStmt); ok {
					okRet := false
					if len(rs.Results) == 1 {
						if id, ok := rs.Results[0].(*ast.Ident); ok && resultVar != "" && id.Name == resultVar {
							okRet = true
						}
						if len(appends) == 1 && rs.Results[0] == ast.Expr(appends[0]) {
							okRet = true
						}
					}
					if !okRet {
						others = append(others, c19Src(fset, rs))
					}
				}
				return true
			})
			tws = append(tws, tw{fd.Name.Name, target, others})
		}
	}
	sort.Slice(tws, func(i, j int) bool { return tws[i].name < tws[j].name })
	var b strings.Builder
	b.WriteString("namespace FpgoVerif.Gen\n\n")
	b.WriteString("inductive SliceInit\n  | lenCap (len cap : Nat)\n  | untranslatable (src : String)\nderiving DecidableEq, Repr\n\n")
	b.WriteString("inductive AppendTarget\n  | receiver\n  | other (src : String)\nderiving DecidableEq, Repr\n\n")
	b.WriteString("/-- length and capacity of the slice `NewSortDescriptorsBuilder` returns -/\n")
	b.WriteString("def sortBuilderNew : SliceInit := " + init + "\n\n")
	b.WriteString("/-- first operand of the `append` in every `ThenWith…` method of SortDescriptorsBuilder -/\n")
	b.WriteString("def sortBuilderThenWith : List (String × AppendTarget) := [\n")
	for i, t := range tws {
		sep := ","
		if i == len(tws)-1 {
			sep = ""
		}
		fmt.Fprintf(&b, "  (%q, %s)%s\n", t.name, t.target, sep)
	}
	b.WriteString("]\n\n/-- returned expressions of every `ThenWith…` method that are not the result of its `append` -/\n")
	b.WriteString("def sortBuilderThenWithReturns : List (String × List String) := [\n")
	for i, t := range tws {
		sep := ","
		if i == len(tws)-1 {
			sep = ""
		}
		qs := make([]string, len(t.otherReturns))
		for j, o := range t.otherReturns {
			qs[j] = strconv.Quote(o)
		}
		fmt.Fprintf(&b, "  (%q, [%s])%s\n", t.name, strings.Join(qs, ", "), sep)
	}
	b.WriteString("]\n\nend FpgoVerif.Gen\n")
	return b.String(), nil
}

func init() { register("SortBuilder.lean", c19Gen) }
