package main

// C10: the two publisher flavours behind one interface — PublisherNewGenerics[int]() and the interface{} twin
// created by Publisher.New() (values travel as interface{} holding an int).

import (
	fpgo "github.com/TeaEntityLab/fpGo/v2"
)

type c10P interface {
	Subscribe(onNext func(int)) interface{} // onNext == nil: a zero-value Subscription
	Unsubscribe(ptr interface{})
	SetOnNext(ptr interface{}, onNext func(int)) // through the pointer Subscribe returned; nil clears it
	Publish(v int)
	Map(fn func(int) int) c10P
	SubscribeOn(h *fpgo.HandlerDef)
	Count() int
}

type c10PG struct{ p *fpgo.PublisherDef[int] }

func (a c10PG) Subscribe(onNext func(int)) interface{} {
	if onNext == nil {
		return a.p.Subscribe(fpgo.Subscription[int]{})
	}
	return a.p.Subscribe(fpgo.Subscription[int]{OnNext: onNext})
}
func (a c10PG) Unsubscribe(ptr interface{})     { a.p.Unsubscribe(ptr.(*fpgo.Subscription[int])) }
func (a c10PG) SetOnNext(ptr interface{}, onNext func(int)) { ptr.(*fpgo.Subscription[int]).OnNext = onNext }
func (a c10PG) Publish(v int)                   { a.p.Publish(v) }
func (a c10PG) Map(fn func(int) int) c10P       { return c10PG{a.p.Map(fn)} }
func (a c10PG) SubscribeOn(h *fpgo.HandlerDef)  { a.p.SubscribeOn(h) }
func (a c10PG) Count() int                      { return a.p.VerifSubscriberCount() }

type c10PI struct{ p *fpgo.PublisherDef[interface{}] }

func (a c10PI) Subscribe(onNext func(int)) interface{} {
	if onNext == nil {
		return a.p.Subscribe(fpgo.Subscription[interface{}]{})
	}
	return a.p.Subscribe(fpgo.Subscription[interface{}]{OnNext: func(v interface{}) { onNext(v.(int)) }})
}
func (a c10PI) Unsubscribe(ptr interface{}) { a.p.Unsubscribe(ptr.(*fpgo.Subscription[interface{}])) }
func (a c10PI) SetOnNext(ptr interface{}, onNext func(int)) {
	if onNext == nil {
		ptr.(*fpgo.Subscription[interface{}]).OnNext = nil
		return
	}
	ptr.(*fpgo.Subscription[interface{}]).OnNext = func(v interface{}) { onNext(v.(int)) }
}
func (a c10PI) Publish(v int)               { a.p.Publish(v) }
func (a c10PI) Map(fn func(int) int) c10P {
	return c10PI{a.p.Map(func(v interface{}) interface{} { return fn(v.(int)) })}
}
func (a c10PI) SubscribeOn(h *fpgo.HandlerDef) { a.p.SubscribeOn(h) }
func (a c10PI) Count() int                     { return a.p.VerifSubscriberCount() }

// kind "i": Publisher.New() (interface{} twin); anything else: PublisherNewGenerics[int]()
func c10NewRoot(kind string) c10P {
	if kind == "i" {
		return c10PI{fpgo.Publisher.New()}
	}
	return c10PG{fpgo.PublisherNewGenerics[int]()}
}
