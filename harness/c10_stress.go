package main

// C10 stress: concurrent publishers and (un)subscribers on the real Publisher with monitors that state the
// property itself.  Case: `stress: pubs=P stable=S churn=C n=N handler=0|1 map=D seed=X`
//   * nil=1 adds zero-value Subscriptions (OnNext nil) around the stable ones; they must not disturb anybody;
//   * P publisher goroutines each Publish N distinct values on the origin publisher;
//   * the subscriptions live on the publisher derived by D Map(x+1) steps (D=0: the origin itself);
//   * S stable subscriptions are registered before the start and never removed: each must see every value
//     exactly once and, per publishing goroutine, in publishing order;
//   * C churn goroutines keep subscribing and unsubscribing temporary subscriptions (from outside, or by the
//     subscription removing itself inside its callback); for every temporary subscription and every Publish call:
//     at most once; never when its Unsubscribe returned before the call began; exactly once when its Subscribe
//     returned before the call began and its Unsubscribe began after the call returned.
// Output when the property holds (independent of the schedule): `ok stable=SxP*N`.

import (
	"fmt"
	"math/rand"
	"runtime"
	"sort"
	"strconv"
	"strings"
	"sync"
	"sync/atomic"
	"time"

	fpgo "github.com/TeaEntityLab/fpGo/v2"
)

type c10Jitter struct{ seed uint64 }

func (j *c10Jitter) Reach(gid int64, point string) {
	x := atomic.AddUint64(&j.seed, 0x9E3779B97F4A7C15)
	x ^= x >> 29
	switch x % 8 {
	case 0:
		runtime.Gosched()
	case 1:
		time.Sleep(time.Duration(x%50) * time.Microsecond)
	}
}

type c10Temp struct {
	mu         sync.Mutex
	got        map[int]int
	ptr        atomic.Pointer[fpgo.Subscription[int]]
	regSeq     int64
	unsubBegin atomic.Int64
	unsubDone  atomic.Int64
	selfUnsub  bool
}

func c10Params(body string) map[string]int {
	m := map[string]int{}
	for _, kv := range strings.Fields(body) {
		if i := strings.Index(kv, "="); i > 0 {
			v, _ := strconv.Atoi(kv[i+1:])
			m[kv[:i]] = v
		}
	}
	return m
}

func c10Stress(body string) string {
	pm := c10Params(body)
	P, S, C, N, D := pm["pubs"], pm["stable"], pm["churn"], pm["n"], pm["map"]
	rng := rand.New(rand.NewSource(int64(pm["seed"])))
	fpgo.VerifSetController(&c10Jitter{seed: uint64(pm["seed"])})
	defer fpgo.VerifSetController(nil)

	var violMu sync.Mutex
	viols := map[string]bool{}
	viol := func(format string, a ...interface{}) {
		violMu.Lock()
		if len(viols) < 8 {
			viols[fmt.Sprintf(format, a...)] = true
		}
		violMu.Unlock()
	}

	origin := fpgo.PublisherNewGenerics[int]()
	target := origin
	for d := 0; d < D; d++ {
		target = target.Map(func(x int) int { return x + 1 })
	}
	var handler *fpgo.HandlerDef
	if pm["handler"] == 1 {
		handler = fpgo.Handler.New()
		target.SubscribeOn(handler)
		defer handler.Close()
	}
	var seq atomic.Int64
	pubStart := make([][]atomic.Int64, P)
	pubEnd := make([][]atomic.Int64, P)
	for j := range pubStart {
		pubStart[j] = make([]atomic.Int64, N)
		pubEnd[j] = make([]atomic.Int64, N)
	}
	decode := func(v int) (j, k int, ok bool) {
		v -= D
		j, k = v/1000000, v%1000000
		return j, k, v >= 0 && j < P && k < N
	}

	// nil=1: zero-value Subscriptions (OnNext nil) sit before, between and after the stable ones
	withNil := pm["nil"] == 1
	if withNil {
		target.Subscribe(fpgo.Subscription[int]{})
	}
	// stable subscriptions
	type stable struct {
		mu    sync.Mutex
		lastK []int
		count int
	}
	stables := make([]*stable, S)
	for i := range stables {
		st := &stable{lastK: make([]int, P)}
		for j := range st.lastK {
			st.lastK[j] = -1
		}
		stables[i] = st
		i := i
		target.Subscribe(fpgo.Subscription[int]{OnNext: func(v int) {
			j, k, ok := decode(v)
			if !ok {
				viol("phantom-value stable=%d v=%d", i, v)
				return
			}
			st.mu.Lock()
			if k == st.lastK[j] {
				viol("twice stable=%d", i)
			} else if k < st.lastK[j] {
				viol("order stable=%d", i)
			} else if k > st.lastK[j]+1 {
				viol("skipped stable=%d", i)
			}
			st.lastK[j] = k
			st.count++
			st.mu.Unlock()
		}})
		if withNil {
			target.Subscribe(fpgo.Subscription[int]{})
		}
	}

	var stop atomic.Bool
	var temps []*c10Temp
	var tempsMu sync.Mutex
	var wg, cwg sync.WaitGroup
	for c := 0; c < C; c++ {
		crng := rand.New(rand.NewSource(rng.Int63()))
		cwg.Add(1)
		go func() {
			defer cwg.Done()
			defer func() {
				if r := recover(); r != nil {
					viol("panic churn")
				}
			}()
			for made := 0; !stop.Load() && made < 4000; made++ {
				t := &c10Temp{got: map[int]int{}, selfUnsub: crng.Intn(3) == 0}
				tempsMu.Lock()
				temps = append(temps, t)
				tempsMu.Unlock()
				ptr := target.Subscribe(fpgo.Subscription[int]{OnNext: func(v int) {
					j, k, ok := decode(v)
					if !ok {
						viol("phantom-value temp v=%d", v)
						return
					}
					t.mu.Lock()
					t.got[v]++
					twice := t.got[v] > 1
					t.mu.Unlock()
					if twice {
						viol("twice temp")
					}
					if ud := t.unsubDone.Load(); ud != 0 && pubStart[j][k].Load() > ud {
						viol("after-unsubscribe temp")
					}
					if t.selfUnsub && t.unsubBegin.Load() == 0 {
						if p := t.ptr.Load(); p != nil {
							t.unsubBegin.Store(seq.Add(1))
							target.Unsubscribe(p)
							t.unsubDone.Store(seq.Add(1))
						}
					}
				}})
				t.regSeq = seq.Add(1)
				t.ptr.Store(ptr)
				switch crng.Intn(3) {
				case 0:
					runtime.Gosched()
				case 1:
					time.Sleep(time.Duration(crng.Intn(200)) * time.Microsecond)
				}
				if !t.selfUnsub {
					t.unsubBegin.Store(seq.Add(1))
					target.Unsubscribe(ptr)
					t.unsubDone.Store(seq.Add(1))
				}
			}
		}()
	}
	for j := 0; j < P; j++ {
		j := j
		wg.Add(1)
		go func() {
			defer wg.Done()
			defer func() {
				if r := recover(); r != nil {
					viol("panic publisher")
				}
			}()
			for k := 0; k < N; k++ {
				pubStart[j][k].Store(seq.Add(1))
				origin.Publish(j*1000000 + k)
				pubEnd[j][k].Store(seq.Add(1))
			}
		}()
	}
	finished := make(chan struct{})
	go func() { wg.Wait(); stop.Store(true); cwg.Wait(); close(finished) }()
	select {
	case <-finished:
	case <-time.After(40 * time.Second):
		return "viol deadlock-or-timeout"
	}
	if handler != nil {
		done := make(chan struct{})
		go handler.Post(func() { close(done) })
		select {
		case <-done:
		case <-time.After(20 * time.Second):
			return "viol handler-not-drained"
		}
	}
	for i, st := range stables {
		st.mu.Lock()
		if st.count != P*N {
			viol("count stable=%d", i)
		}
		st.mu.Unlock()
	}
	// self-removing subscriptions that never got a value are still registered: leave them
	for _, t := range temps {
		ub := t.unsubBegin.Load()
		t.mu.Lock()
		for j := 0; j < P; j++ {
			for k := 0; k < N; k++ {
				if pubStart[j][k].Load() > t.regSeq && (ub == 0 || pubEnd[j][k].Load() < ub) && t.got[j*1000000+k+D] != 1 {
					viol("skipped temp (registered before the call, still registered after it)")
				}
			}
		}
		t.mu.Unlock()
	}
	if len(viols) > 0 {
		ks := make([]string, 0, len(viols))
		for k := range viols {
			ks = append(ks, k)
		}
		sort.Strings(ks)
		return "viol " + strings.Join(ks, ", ")
	}
	return fmt.Sprintf("ok stable=%dx%d", S, P*N)
}
