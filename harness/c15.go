package main

// C15 — "Shutdown is safe at any moment": directed schedules and seeded stress against the real code.
//
// Directed case line:   <comp> k=v ...: step ; step ; ...        comp = handler | actor | bcq | cor | pool
//   T=op[@pt][!]   goroutine T (created on first use) starts operation `op`; if `@pt` is given T parks when it
//                  reaches verifPoint(pt).  The harness then waits until T has finished (prints T=<result>), is
//                  parked (T@pt) or — after the timeout — is still blocked (T!).  `!` = the generator expects T to
//                  block: wait only 250 ms instead of 4 s (affects the waiting time, never the verdict).
//   T>[@pt][!]     release T from its park (optionally arming another point) / keep waiting for T; same report.
//   I+pt  I?pt  I>pt   arm / wait for / release the library's own goroutines (loader, run loop, workers).
//   gate           unblock the callbacks of messages ≥ 100.
// After the last step every park is released, the gate opened and unfinished goroutines are awaited
// (T=<result> / T!stuck), then the component's counters are printed (late=, np=).
//
// Stress case line:     stress <comp> users=N ops=K cap=C seed=S jitter=J rounds=R
//   R trials; in each N goroutines hammer a fresh object while one goroutine closes it at a random moment;
//   afterwards every API is called once more and must report the close.  Observation when the property holds (schedule independent):
//   "ok panics=0 late=0 np=0 stuck=0 after=ok".

import (
	"fmt"
	"math/rand"
	"runtime"
	"strconv"
	"strings"
	"sync"
	"sync/atomic"
	"time"

	fpgo "github.com/TeaEntityLab/fpGo/v2"
	"github.com/TeaEntityLab/fpGo/v2/worker"
)

const (
	c15Long  = 4 * time.Second
	c15Short = 250 * time.Millisecond
	// trials per stress line (each: fresh object, one Close at a random moment; ~10 ms)
	c15Rounds = 30
)

type c15Thread struct {
	name     string
	cmd      chan func() string
	res      chan string
	busy     bool
	parkedAt string
	armed    []string
	gid      int64 // cor target only
	isG      bool
}

type c15Comp interface {
	// Op returns the closure that performs `op` (run inside T's goroutine), or nil for an unknown op.
	Op(th *c15Thread, op string) func() string
	Gate()
	Summary() string
	Cleanup()
}

type c15Run struct {
	ctl  *Ctl
	sys  c15Comp
	ths  []*c15Thread
	comp string
	par  map[string]int
}

func c15Safe(f func() string) (out string) {
	defer func() {
		if r := recover(); r != nil {
			out = "panic"
		}
	}()
	return f()
}

func c15Params(fields []string) map[string]int {
	m := map[string]int{}
	for _, f := range fields {
		if i := strings.Index(f, "="); i > 0 {
			v, _ := strconv.Atoi(f[i+1:])
			m[f[:i]] = v
		}
	}
	return m
}

func (ctl *Ctl) c15Parked(thread, point string) bool {
	ctl.mu.Lock()
	defer ctl.mu.Unlock()
	_, ok := ctl.parked[thread+"@"+point]
	return ok
}

func (ctl *Ctl) c15Adopt(name string) int64 {
	gid := fpgo.VerifGoID()
	ctl.mu.Lock()
	ctl.names[gid] = name
	ctl.mu.Unlock()
	return gid
}

func c15GoroutineAlive(gid int64) bool {
	// the dump must be complete: a truncated one would make a live goroutine look finished
	buf := make([]byte, 1<<20)
	n := runtime.Stack(buf, true)
	for n == len(buf) && len(buf) < 1<<28 {
		buf = make([]byte, 2*len(buf))
		n = runtime.Stack(buf, true)
	}
	return strings.Contains(string(buf[:n]), "goroutine "+strconv.FormatInt(gid, 10)+" [")
}

func (r *c15Run) thread(name string, create bool) *c15Thread {
	for _, t := range r.ths {
		if t.name == name {
			return t
		}
	}
	if !create {
		return nil
	}
	t := &c15Thread{name: name, cmd: make(chan func() string, 1), res: make(chan string, 1)}
	r.ths = append(r.ths, t)
	if r.comp == "cor" && name == "G" {
		t.isG = true // served by the coroutine's own goroutine (see c15Cor)
		return t
	}
	r.ctl.Go(name, func() {
		for f := range t.cmd {
			t.res <- c15Safe(f)
		}
	})
	return t
}

func (r *c15Run) wait(t *c15Thread, d time.Duration) string {
	deadline := time.Now().Add(d)
	for {
		select {
		case x := <-t.res:
			t.busy = false
			return t.name + "=" + x
		default:
		}
		for _, p := range t.armed {
			if r.ctl.c15Parked(t.name, p) {
				t.parkedAt = p
				return t.name + "@" + p
			}
		}
		if t.isG && t.busy {
			if cc, ok := r.sys.(*c15Cor); ok && cc.retCalled && t.gid != 0 && !c15GoroutineAlive(t.gid) {
				t.busy = false
				return t.name + "=ok"
			}
		}
		if time.Now().After(deadline) {
			return t.name + "!"
		}
		time.Sleep(300 * time.Microsecond)
	}
}

func c15Erase(l []string, p string) []string {
	for i, x := range l {
		if x == p {
			return append(append([]string{}, l[:i]...), l[i+1:]...)
		}
	}
	return l
}

func (r *c15Run) step(tok0 string) string {
	d := c15Long
	tok := tok0
	if strings.HasSuffix(tok, "!") {
		d = c15Short
		tok = tok[:len(tok)-1]
	}
	switch {
	case tok == "gate":
		r.sys.Gate()
		return "gate"
	case strings.HasPrefix(tok, "I+"):
		r.ctl.ParkAt("internal", tok[2:])
		return "I+"
	case strings.HasPrefix(tok, "I?"):
		if r.ctl.WaitAt("internal", tok[2:], d) {
			return "I@" + tok[2:]
		}
		return "I!"
	case strings.HasPrefix(tok, "I>"):
		r.ctl.Release("internal", tok[2:])
		return "I>"
	}
	if i := strings.Index(tok, "="); i > 0 {
		name, rhs := tok[:i], tok[i+1:]
		op, pt := rhs, ""
		if j := strings.Index(rhs, "@"); j >= 0 {
			op, pt = rhs[:j], rhs[j+1:]
		}
		t := r.thread(name, true)
		if t.busy {
			return name + "?busy"
		}
		f := r.sys.Op(t, op)
		if f == nil {
			return name + "?badop"
		}
		if pt != "" {
			r.ctl.ParkAt(name, pt)
			t.armed = append(t.armed, pt)
		}
		t.busy = true
		t.cmd <- f
		return r.wait(t, d)
	}
	if i := strings.Index(tok, ">"); i > 0 {
		name, rest := tok[:i], tok[i+1:]
		t := r.thread(name, false)
		if t == nil {
			return name + "?none"
		}
		if t.parkedAt == "" {
			for _, p := range t.armed {
				if r.ctl.c15Parked(name, p) {
					t.parkedAt = p // parked while another goroutine's step was running
					break
				}
			}
		}
		if t.parkedAt != "" {
			t.armed = c15Erase(t.armed, t.parkedAt)
		}
		if strings.HasPrefix(rest, "@") {
			r.ctl.ParkAt(name, rest[1:])
			t.armed = append(t.armed, rest[1:])
		}
		if t.parkedAt != "" {
			r.ctl.Release(name, t.parkedAt)
			t.parkedAt = ""
		}
		if !t.busy {
			return name + "=idle"
		}
		return r.wait(t, d)
	}
	return "?badstep"
}

func c15RunSched(line string) string {
	i := strings.Index(line, ": ")
	if i < 0 {
		return "bad-line"
	}
	fields := strings.Fields(line[:i])
	if len(fields) == 0 {
		return "bad-line"
	}
	r := &c15Run{comp: fields[0], par: c15Params(fields[1:])}
	r.ctl = NewCtl()
	var steps []string
	for _, s := range strings.Split(line[i+2:], ";") {
		if s = strings.TrimSpace(s); s != "" {
			steps = append(steps, s)
		}
	}
	var outs []string
	k := 0
	// arming steps for the library's own goroutines come before the object exists
	for k < len(steps) && strings.HasPrefix(steps[k], "I+") {
		outs = append(outs, r.step(steps[k]))
		k++
	}
	switch r.comp {
	case "handler", "actor":
		r.sys = newC15Mailbox(r)
	case "bcq":
		r.sys = newC15Bcq(r)
	case "cor":
		r.sys = newC15Cor(r)
	case "pool":
		r.sys = newC15Pool(r)
	default:
		r.ctl.Uninstall()
		return "bad-component"
	}
	for ; k < len(steps); k++ {
		outs = append(outs, r.step(steps[k]))
	}
	outs = append(outs, "|")
	// final drain
	r.ctl.Uninstall()
	r.sys.Gate()
	finalDeadline := time.Now().Add(3 * time.Second)
	for _, t := range r.ths {
		if t.busy {
			t.armed = nil
			left := time.Until(finalDeadline)
			if left < 50*time.Millisecond {
				left = 50 * time.Millisecond
			}
			x := r.wait(t, left)
			if strings.HasSuffix(x, "!") {
				x = t.name + "!stuck"
			}
			outs = append(outs, x)
		}
	}
	outs = append(outs, r.sys.Summary())
	r.sys.Cleanup()
	for _, t := range r.ths {
		if !t.busy && !t.isG {
			close(t.cmd)
		}
	}
	return strings.Join(outs, " ")
}

// ------------------------------------------------------------------------------------------------ mailbox

type c15Mailbox struct {
	r           *c15Run
	h           *fpgo.HandlerDef
	a           *fpgo.ActorDef[int]
	gate        chan struct{}
	gateOnce    sync.Once
	closeCalled atomic.Bool
	closeRet    atomic.Bool
	late        atomic.Int64
	lateSubmits atomic.Int64
	afterClose  chan struct{} // closed by the closing goroutine right after its Close() returned
	afterOnce   sync.Once
}

func newC15Mailbox(r *c15Run) *c15Mailbox {
	m := &c15Mailbox{r: r, gate: make(chan struct{}), afterClose: make(chan struct{})}
	if r.comp == "handler" {
		m.h = fpgo.Handler.NewByCh(make(chan func(), r.par["cap"]))
	} else {
		m.a = fpgo.ActorNewByOptionsGenerics(func(_ *fpgo.ActorDef[int], v int) { m.callback(v%1000000, v >= 1000000) },
			make(chan int, r.par["cap"]), map[string]interface{}{})
	}
	return m
}

func (m *c15Mailbox) callback(id int, submittedAfterClose bool) {
	if submittedAfterClose {
		m.late.Add(1)
	}
	switch {
	case id >= 100 && id < 300:
		<-m.gate
	case id >= 300 && id < 400:
		// the callback shuts down the handler/actor it runs on (one closing goroutine: only if nobody closed yet)
		if m.closeCalled.CompareAndSwap(false, true) {
			m.close()
		}
	case id >= 400 && id < 500:
		<-m.afterClose // something the closer does only after its Close() has returned
	}
}

func (m *c15Mailbox) post(id int) {
	after := m.closeRet.Load()
	if after {
		m.lateSubmits.Add(1)
	}
	if m.h != nil {
		m.h.Post(func() { m.callback(id, after) })
	} else {
		v := id
		if after {
			v += 1000000
		}
		m.a.Send(v)
	}
}

func (m *c15Mailbox) close() {
	m.closeCalled.Store(true)
	if m.h != nil {
		m.h.Close()
	} else {
		m.a.Close()
	}
	m.closeRet.Store(true)
	m.afterOnce.Do(func() { close(m.afterClose) })
}

func (m *c15Mailbox) Op(_ *c15Thread, op string) func() string {
	switch {
	case strings.HasPrefix(op, "post:"):
		id, err := strconv.Atoi(op[5:])
		if err != nil {
			return nil
		}
		return func() string { m.post(id); return "ok" }
	case op == "close":
		if m.closeCalled.Load() {
			return nil // one closing goroutine only (the model refuses the spawn as well)
		}
		m.closeCalled.Store(true)
		return func() string { m.close(); return "ok" }
	case op == "waitclosed":
		return func() string { <-m.afterClose; return "ok" }
	}
	return nil
}
func (m *c15Mailbox) Gate() { m.gateOnce.Do(func() { close(m.gate) }) }
func (m *c15Mailbox) Summary() string {
	if m.lateSubmits.Load() > 0 {
		time.Sleep(30 * time.Millisecond) // grace: a wrongly accepted late message would be running by now
	}
	return fmt.Sprintf("late=%d", m.late.Load())
}
func (m *c15Mailbox) Cleanup() {
	m.Gate()
	if !m.closeCalled.Load() {
		m.close()
	}
}

// ------------------------------------------------------------------------------------------------ bcq

func c15QErr(err error) string {
	switch err {
	case nil:
		return "nil"
	case fpgo.ErrQueueIsClosed:
		return "closed"
	case fpgo.ErrQueueIsFull:
		return "full"
	case fpgo.ErrQueueIsEmpty:
		return "empty"
	case fpgo.ErrQueueTakeTimeout:
		return "timeout"
	case worker.ErrWorkerPoolIsClosed:
		return "pclosed"
	case worker.ErrWorkerPoolJobQueueIsFull:
		return "full"
	}
	return "err-other"
}

func c15QVal(v int, err error) string {
	if err != nil {
		return c15QErr(err)
	}
	return "ok" + strconv.Itoa(v)
}

type c15Bcq struct {
	q           *fpgo.BufferedChannelQueue[int]
	closeCalled atomic.Bool
}

func newC15Bcq(r *c15Run) *c15Bcq {
	q := fpgo.NewBufferedChannelQueue[int](r.par["c"], r.par["b"], 16)
	q.SetLoadFromPoolDuration(time.Millisecond)
	return &c15Bcq{q: q}
}

func (b *c15Bcq) Op(_ *c15Thread, op string) func() string {
	q := b.q
	switch {
	case op == "take":
		return func() string { return c15QVal(q.Take()) }
	case op == "poll":
		return func() string { return c15QVal(q.Poll()) }
	case op == "twt":
		return func() string { return c15QVal(q.TakeWithTimeout(120 * time.Millisecond)) }
	case op == "count":
		return func() string { return "n" + strconv.Itoa(q.Count()) }
	case op == "getch":
		return func() string { _ = q.GetChannel(); return "ok" }
	case op == "isclosed":
		return func() string {
			if q.IsClosed() {
				return "b1"
			}
			return "b0"
		}
	case strings.HasPrefix(op, "offer:"):
		v, err := strconv.Atoi(op[6:])
		if err != nil {
			return nil
		}
		return func() string { return c15QErr(q.Offer(v)) }
	case strings.HasPrefix(op, "put:"):
		v, err := strconv.Atoi(op[4:])
		if err != nil {
			return nil
		}
		return func() string { return c15QErr(q.Put(v)) }
	case op == "close":
		if b.closeCalled.Load() {
			return nil
		}
		b.closeCalled.Store(true)
		return func() string { q.Close(); return "ok" }
	}
	return nil
}
func (b *c15Bcq) Gate()           {}
func (b *c15Bcq) Summary() string { return "fin" }
func (b *c15Bcq) Cleanup() {
	if !b.closeCalled.Load() {
		b.closeCalled.Store(true)
		b.q.Close()
	}
}

// ------------------------------------------------------------------------------------------------ cor

type c15Cor struct {
	r         *c15Run
	tg        *fpgo.CorDef[int]
	callers   map[string]*fpgo.CorDef[int]
	mu        sync.Mutex
	retCalled bool
	gReady    chan struct{}
}

func newC15Cor(r *c15Run) *c15Cor {
	c := &c15Cor{r: r, callers: map[string]*fpgo.CorDef[int]{}, gReady: make(chan struct{})}
	g := r.thread("G", true)
	c.tg = fpgo.CorNewGenerics[int](func() {
		g.gid = r.ctl.c15Adopt("G")
		close(c.gReady)
		for f := range g.cmd {
			x := c15Safe(f)
			if x == "ret" {
				return // the library now runs close() in this goroutine
			}
			g.res <- x
		}
	})
	c.tg.Start()
	<-c.gReady
	return c
}

func (c *c15Cor) Op(th *c15Thread, op string) func() string {
	if th.isG {
		switch {
		case strings.HasPrefix(op, "yr:"):
			y, err := strconv.Atoi(op[3:])
			if err != nil || c.retCalled {
				return nil
			}
			return func() string { return "ok" + strconv.Itoa(c.tg.YieldRef(y)) }
		case op == "ret":
			if c.retCalled {
				return nil
			}
			c.retCalled = true
			return func() string { return "ret" }
		}
		return nil
	}
	c.mu.Lock()
	me := c.callers[th.name]
	if me == nil {
		me = fpgo.CorNewGenerics[int](func() {})
		c.callers[th.name] = me
	}
	c.mu.Unlock()
	switch {
	case strings.HasPrefix(op, "yf:"):
		x, err := strconv.Atoi(op[3:])
		if err != nil {
			return nil
		}
		return func() string { return "ok" + strconv.Itoa(me.YieldFrom(c.tg, x)) }
	case op == "isdone":
		return func() string {
			if c.tg.IsDone() {
				return "b1"
			}
			return "b0"
		}
	}
	return nil
}
func (c *c15Cor) Gate()           {}
func (c *c15Cor) Summary() string { return "fin" }
func (c *c15Cor) Cleanup() {
	if !c.retCalled {
		c.retCalled = true
		g := c.r.thread("G", false)
		if g != nil && !g.busy {
			g.cmd <- func() string { return "ret" }
		}
	}
}

// ------------------------------------------------------------------------------------------------ pool

type c15Pool struct {
	q           *fpgo.BufferedChannelQueue[func()]
	p           *worker.DefaultWorkerPool
	closeCalled atomic.Bool
	closeRet    atomic.Bool
	late        atomic.Int64
	lateSubmits atomic.Int64
	np          atomic.Int64
	jp          atomic.Int64
	gate        chan struct{}
	gateOnce    sync.Once
	inv         *worker.DefaultInvokable[int]
}

type c15JobPanic struct{ id int }

func newC15Pool(r *c15Run) *c15Pool {
	pl := &c15Pool{gate: make(chan struct{})}
	c, b := r.par["c"], r.par["b"]
	pl.q = fpgo.NewBufferedChannelQueue[func()](c, b, 16)
	pl.q.SetLoadFromPoolDuration(time.Millisecond)
	pl.p = worker.NewDefaultWorkerPool(pl.q, nil)
	pl.p.SetPanicHandler(func(v interface{}) {
		if _, ok := v.(c15JobPanic); ok {
			pl.jp.Add(1)
		} else {
			pl.np.Add(1)
		}
	})
	pl.p.SetIsJobQueueClosedWhenClose(r.par["qclose"] != 0)
	pl.p.SetSpawnWorkerDuration(2 * time.Millisecond)
	pl.p.SetWorkerExpiryDuration(150 * time.Millisecond)
	mx := r.par["max"]
	if mx <= 0 {
		mx = 1
	}
	pl.p.SetWorkerSizeMaximum(mx)
	pl.p.SetWorkerSizeStandBy(mx)
	// Invoke / InvokeWithTimeout: the value carries the job id (+1000000 when submitted after Close returned)
	pl.inv = worker.NewDefaultInvokable[int](pl.p, func(v int) { pl.job(v%1000000, v >= 1000000)() })
	return pl
}

func (pl *c15Pool) job(id int, after bool) func() {
	return func() {
		if after {
			pl.late.Add(1)
		}
		if id >= 100 && id < 200 {
			<-pl.gate
		}
		if id >= 200 {
			panic(c15JobPanic{id})
		}
	}
}

func (pl *c15Pool) Op(_ *c15Thread, op string) func() string {
	switch {
	case strings.HasPrefix(op, "sched:"):
		id, err := strconv.Atoi(op[6:])
		if err != nil {
			return nil
		}
		return func() string {
			after := pl.closeRet.Load()
			if after {
				pl.lateSubmits.Add(1)
			}
			return c15QErr(pl.p.Schedule(pl.job(id, after)))
		}
	case strings.HasPrefix(op, "invoke:"), strings.HasPrefix(op, "invoket:"):
		id, err := strconv.Atoi(op[strings.Index(op, ":")+1:])
		if err != nil {
			return nil
		}
		timed := strings.HasPrefix(op, "invoket:")
		return func() string {
			v := id
			if pl.closeRet.Load() {
				pl.lateSubmits.Add(1)
				v += 1000000
			}
			if timed {
				return c15QErr(pl.inv.InvokeWithTimeout(v, 20*time.Millisecond))
			}
			pl.inv.Invoke(v)
			return "ok"
		}
	case op == "isclosed":
		return func() string {
			if pl.p.IsClosed() {
				return "b1"
			}
			return "b0"
		}
	case op == "close":
		if pl.closeCalled.Load() {
			return nil
		}
		pl.closeCalled.Store(true)
		return func() string { pl.p.Close(); pl.closeRet.Store(true); return "ok" }
	}
	return nil
}
func (pl *c15Pool) Gate() { pl.gateOnce.Do(func() { close(pl.gate) }) }
func (pl *c15Pool) Summary() string {
	// after Close every worker leaves its loop; wait for that (bounded) so that np is final
	if pl.closeRet.Load() {
		deadline := time.Now().Add(2 * time.Second)
		for time.Now().Before(deadline) {
			if wc, _ := pl.p.VerifCounts(); wc == 0 {
				break
			}
			time.Sleep(time.Millisecond)
		}
	}
	if pl.lateSubmits.Load() > 0 {
		time.Sleep(30 * time.Millisecond)
	}
	return fmt.Sprintf("late=%d np=%d", pl.late.Load(), pl.np.Load())
}
func (pl *c15Pool) Cleanup() {
	pl.Gate()
	if !pl.closeCalled.Load() {
		pl.closeCalled.Store(true)
		pl.p.Close()
	}
	if !pl.q.IsClosed() {
		pl.q.Close()
	}
}

// ------------------------------------------------------------------------------------------------ stress

// c15Stress runs `rounds` independent trials (fresh object, derived seed, one Close each) and adds up the monitors:
// one trial places the Close at ONE random moment, so the chance of landing in a few-instruction window is per trial.
func c15Stress(line string) string {
	fields := strings.Fields(line)
	if len(fields) < 2 {
		return "bad-line"
	}
	comp := fields[1]
	par := c15Params(fields[2:])
	rounds := par["rounds"]
	if rounds <= 0 {
		rounds = 1
	}
	var panics, late, np, afterBad int64
	stuck := 0
	for r := 0; r < rounds; r++ {
		c, ok := c15StressOnce(comp, par, int64(par["seed"])+int64(r)*7919)
		if !ok {
			return "bad-component"
		}
		panics += c[0]
		late += c[1]
		np += c[2]
		stuck += int(c[3])
		afterBad += c[4]
		if c[3] > 0 {
			break // every further round would wait for its timeouts again
		}
	}
	after := "ok"
	if afterBad > 0 {
		after = "bad" + strconv.FormatInt(afterBad, 10)
	}
	status := "ok"
	if panics > 0 || late > 0 || np > 0 || stuck > 0 || after != "ok" {
		status = "viol"
	}
	return fmt.Sprintf("%s panics=%d late=%d np=%d stuck=%d after=%s", status, panics, late, np, stuck, after)
}

// c15StressOnce: one trial; returns {panics, late, np, stuck, afterBad}.
func c15StressOnce(comp string, par map[string]int, seed int64) ([5]int64, bool) {
	users, ops := par["users"], par["ops"]
	if users <= 0 {
		users = 1
	}
	rng := rand.New(rand.NewSource(seed))
	var ctl *Ctl
	if par["jitter"] > 0 {
		ctl = NewCtl()
		defer ctl.Uninstall()
		var jmu sync.Mutex
		jr := rand.New(rand.NewSource(seed ^ 0x5eed))
		jit := par["jitter"]
		ctl.SetDelay(func(_, _ string) time.Duration {
			jmu.Lock()
			defer jmu.Unlock()
			if jr.Intn(3) == 0 {
				return time.Duration(jr.Intn(jit*50)+1) * time.Microsecond
			}
			return 0
		})
	}
	var panics, late, np, afterBad atomic.Int64
	var closeRet atomic.Bool
	var wg sync.WaitGroup
	guard := func(f func()) {
		defer func() {
			if r := recover(); r != nil {
				panics.Add(1)
			}
		}()
		f()
	}
	var userOp func(u, i int, r *rand.Rand)
	var doClose func()
	var afterCheck func()
	var cleanup func()
	switch comp {
	case "handler", "actor":
		capa := par["cap"]
		var h *fpgo.HandlerDef
		var a *fpgo.ActorDef[int]
		if comp == "handler" {
			h = fpgo.Handler.NewByCh(make(chan func(), capa))
		} else {
			a = fpgo.ActorNewByOptionsGenerics(func(_ *fpgo.ActorDef[int], v int) {
				if v == 1 {
					late.Add(1)
				}
			}, make(chan int, capa), map[string]interface{}{})
		}
		userOp = func(u, i int, r *rand.Rand) {
			after := closeRet.Load()
			if h != nil {
				h.Post(func() {
					if after {
						late.Add(1)
					}
				})
			} else if after {
				a.Send(1)
			} else {
				a.Send(0)
			}
		}
		doClose = func() {
			if h != nil {
				h.Close()
			} else {
				a.Close()
			}
		}
		afterCheck = func() {
			userOp(0, 0, rng)
			if a != nil && !a.IsClosed() {
				afterBad.Add(1)
			}
			time.Sleep(10 * time.Millisecond)
		}
		cleanup = func() {}
	case "bcq":
		q := fpgo.NewBufferedChannelQueue[int](par["c"], par["b"], 16)
		q.SetLoadFromPoolDuration(time.Millisecond)
		userOp = func(u, i int, r *rand.Rand) {
			switch r.Intn(8) {
			case 0, 1:
				q.Offer(u*1000 + i)
			case 2:
				q.Put(u*1000 + i)
			case 3:
				q.Poll()
			case 4:
				q.TakeWithTimeout(time.Duration(r.Intn(300)) * time.Microsecond)
			case 5:
				q.Count()
			case 6:
				select {
				case <-q.GetChannel():
				default:
				}
			case 7:
				if r.Intn(4) == 0 {
					q.Take() // may block until an Offer or the Close
				} else {
					q.Poll()
				}
			}
		}
		doClose = func() { q.Close() }
		afterCheck = func() {
			if _, err := q.Take(); err != fpgo.ErrQueueIsClosed {
				afterBad.Add(1)
			}
			if _, err := q.Poll(); err != fpgo.ErrQueueIsClosed {
				afterBad.Add(1)
			}
			if _, err := q.TakeWithTimeout(time.Millisecond); err != fpgo.ErrQueueIsClosed {
				afterBad.Add(1)
			}
			if err := q.Offer(1); err != fpgo.ErrQueueIsClosed {
				afterBad.Add(1)
			}
			if err := q.Put(1); err != fpgo.ErrQueueIsClosed {
				afterBad.Add(1)
			}
			if q.Count() != 0 || !q.IsClosed() {
				afterBad.Add(1)
			}
			_ = q.GetChannel()
		}
		cleanup = func() {}
	case "pool":
		q := fpgo.NewBufferedChannelQueue[func()](par["c"], par["b"], 16)
		q.SetLoadFromPoolDuration(time.Millisecond)
		p := worker.NewDefaultWorkerPool(q, nil)
		p.SetPanicHandler(func(v interface{}) {
			if _, ok := v.(c15JobPanic); !ok {
				np.Add(1)
			}
		})
		p.SetIsJobQueueClosedWhenClose(par["qclose"] != 0)
		p.SetSpawnWorkerDuration(time.Millisecond)
		p.SetWorkerExpiryDuration(20 * time.Millisecond)
		mx := par["max"]
		if mx <= 0 {
			mx = 2
		}
		p.SetWorkerSizeMaximum(mx)
		p.SetWorkerSizeStandBy(1)
		inv := worker.NewDefaultInvokable[int](p, func(v int) {
			if v == 1 {
				late.Add(1)
			}
		})
		userOp = func(u, i int, r *rand.Rand) {
			after := closeRet.Load()
			boom := r.Intn(6) == 0
			if k := r.Intn(5); k == 0 || k == 1 {
				v := 0
				if after {
					v = 1
				}
				if k == 0 {
					inv.Invoke(v)
				} else {
					inv.InvokeWithTimeout(v, time.Millisecond)
				}
				return
			}
			p.Schedule(func() {
				if after {
					late.Add(1)
				}
				if boom {
					panic(c15JobPanic{i})
				}
			})
		}
		doClose = func() { p.Close() }
		afterCheck = func() {
			if err := p.Schedule(func() { late.Add(1) }); err != worker.ErrWorkerPoolIsClosed {
				afterBad.Add(1)
			}
			if err := p.ScheduleWithTimeout(func() { late.Add(1) }, 5*time.Millisecond); err != worker.ErrWorkerPoolIsClosed {
				afterBad.Add(1)
			}
			inv.Invoke(1) // no error result: must be dropped silently
			if err := inv.InvokeWithTimeout(1, 5*time.Millisecond); err != worker.ErrWorkerPoolIsClosed {
				afterBad.Add(1)
			}
			if !p.IsClosed() {
				afterBad.Add(1)
			}
			deadline := time.Now().Add(2 * time.Second)
			for time.Now().Before(deadline) {
				if wc, _ := p.VerifCounts(); wc == 0 {
					break
				}
				time.Sleep(time.Millisecond)
			}
			time.Sleep(10 * time.Millisecond)
		}
		cleanup = func() {
			if !q.IsClosed() {
				q.Close()
			}
		}
	case "cor":
		// the target serves `serve` requests and finishes; callers ask concurrently
		serve := par["serve"]
		var tg *fpgo.CorDef[int]
		tg = fpgo.CorNewGenerics[int](func() {
			for k := 0; k < serve; k++ {
				tg.YieldRef(k + 1)
			}
		})
		tg.Start()
		userOp = func(u, i int, r *rand.Rand) {
			me := fpgo.CorNewGenerics[int](func() {})
			me.YieldFrom(tg, u*1000+i)
		}
		doClose = func() {
			for !tg.IsDone() {
				time.Sleep(100 * time.Microsecond)
			}
		}
		afterCheck = func() {
			me := fpgo.CorNewGenerics[int](func() {})
			done := make(chan int, 1)
			go func() { done <- me.YieldFrom(tg, 1) }()
			select {
			case v := <-done:
				if v != 0 {
					afterBad.Add(1)
				}
			case <-time.After(2 * time.Second):
				afterBad.Add(1)
			}
			if !tg.IsDone() {
				afterBad.Add(1)
			}
		}
		cleanup = func() {}
	default:
		return [5]int64{}, false
	}
	var finished atomic.Int64
	for u := 0; u < users; u++ {
		wg.Add(1)
		ur := rand.New(rand.NewSource(seed*131 + int64(u)))
		go func(u int) {
			defer wg.Done()
			defer finished.Add(1)
			for i := 0; i < ops; i++ {
				guard(func() { userOp(u, i, ur) })
			}
		}(u)
	}
	closeDelay := time.Duration(rng.Intn(400)) * time.Microsecond
	closed := make(chan struct{})
	go func() {
		time.Sleep(closeDelay)
		guard(doClose)
		closeRet.Store(true)
		close(closed)
	}()
	all := make(chan struct{})
	go func() { wg.Wait(); close(all) }()
	stuck := 0
	select {
	case <-closed:
	case <-time.After(5 * time.Second):
		stuck++
	}
	select {
	case <-all:
	case <-time.After(5 * time.Second):
		stuck += users - int(finished.Load())
	}
	if stuck == 0 {
		guard(afterCheck)
	}
	cleanup()
	return [5]int64{panics.Load(), late.Load(), np.Load(), int64(stuck), afterBad.Load()}, true
}

// ------------------------------------------------------------------------------------------------ generator

func c15Gen(tier string, rng *rand.Rand, emit func(string)) map[string]interface{} {
	stats := map[string]interface{}{}
	n := 0
	e := func(s string) { emit(s); n++ }
	c15Directed(e)
	stats["directed"] = n
	// seeded stress
	rounds := 3
	if tier == "thorough" {
		rounds = 40
	}
	ns := 0
	for k := 0; k < rounds; k++ {
		for _, comp := range []string{"handler", "actor", "bcq", "pool", "cor"} {
			users := 1 + rng.Intn(8)
			ops := 20 + rng.Intn(60)
			seed := rng.Intn(1 << 30)
			jit := rng.Intn(3)
			switch comp {
			case "handler", "actor":
				e(fmt.Sprintf("stress %s users=%d ops=%d cap=%d seed=%d jitter=%d rounds=%d", comp, users, ops, []int{0, 1, 8}[rng.Intn(3)], seed, jit, c15Rounds))
			case "bcq":
				e(fmt.Sprintf("stress bcq users=%d ops=%d c=%d b=%d seed=%d jitter=%d rounds=%d", users, ops, rng.Intn(4), rng.Intn(6), seed, jit, c15Rounds))
			case "cor":
				// the target serves fewer requests than the callers make, so it always finishes under them
				e(fmt.Sprintf("stress cor users=%d ops=%d serve=%d seed=%d jitter=%d rounds=%d", users, ops, rng.Intn(users*ops), seed, jit, c15Rounds))
			case "pool":
				qclose := 1
				if rng.Intn(4) == 0 {
					qclose = 0
				}
				e(fmt.Sprintf("stress pool users=%d ops=%d c=%d b=%d max=%d qclose=%d seed=%d jitter=%d rounds=%d", users, ops, 1+rng.Intn(3), 1+rng.Intn(6), 1+rng.Intn(3), qclose, seed, jit, c15Rounds/2))
			}
			ns++
		}
	}
	stats["stress"] = ns
	return stats
}

func init() {
	register("C15", &Prop{Gen: c15Gen, CaseTimeout: 40 * time.Second, Run: func(line string) string {
		if strings.HasPrefix(line, "stress ") {
			return c15Stress(line)
		}
		if strings.HasPrefix(line, "corcaller ") {
			return c15CorCaller(c15ParamsStr(strings.Fields(line)[1:]))
		}
		return c15RunSched(line)
	}})
}

func c15ParamsStr(fields []string) map[string]string {
	m := map[string]string{}
	for _, f := range fields {
		if i := strings.Index(f, "="); i > 0 {
			m[f[:i]] = f[i+1:]
		}
	}
	return m
}

// c15CorCaller: the finishing coroutine k is the CALLER side of an in-flight request: goroutine A is inside
// k.YieldFrom(target, 5) (request delivered, waiting for the answer) while k's effect returns and k.close() closes
// k's resultCh.  A gets the zero value; the target's YieldRef takes the request afterwards (mode=after) or had
// taken it already and is parked at cor.yieldref.afterRecv (mode=parked): it must skip the answer (doCloseSafe on
// the done caller) and return x = 5 — never send on k's closed resultCh.
// Observation "A=ok<r> G=ok<x> | fin" (G=panic if the YieldRef panicked).
func c15CorCaller(par map[string]string) string {
	ctl := NewCtl()
	defer ctl.Uninstall()
	type cmd struct{ y int }
	gcmd := make(chan cmd)
	gres := make(chan string, 1)
	var tg *fpgo.CorDef[int]
	tg = fpgo.CorNewGenerics[int](func() {
		ctl.c15Adopt("G")
		for c := range gcmd {
			gres <- c15Safe(func() string { return "ok" + strconv.Itoa(tg.YieldRef(c.y)) })
		}
	})
	tg.Start()
	defer close(gcmd)
	kret := make(chan struct{})
	var kgid int64
	kready := make(chan struct{})
	var k *fpgo.CorDef[int]
	k = fpgo.CorNewGenerics[int](func() { kgid = fpgo.VerifGoID(); close(kready); <-kret })
	k.Start()
	<-kready
	ctl.ParkAt("A", "cor.yieldfrom.beforeResult")
	ares := make(chan string, 1)
	ctl.Go("A", func() { ares <- c15Safe(func() string { return "ok" + strconv.Itoa(k.YieldFrom(tg, 5)) }) })
	if !ctl.WaitAt("A", "cor.yieldfrom.beforeResult", c15Long) {
		return "setup-failed A"
	}
	parked := par["mode"] == "parked"
	if parked {
		ctl.ParkAt("G", "cor.yieldref.afterRecv")
		gcmd <- cmd{9}
		if !ctl.WaitAt("G", "cor.yieldref.afterRecv", c15Long) {
			return "setup-failed G"
		}
	}
	close(kret) // k's effect returns: k.close() closes k's channels
	deadline := time.Now().Add(c15Long)
	for (c15GoroutineAlive(kgid) || !k.IsDone()) && time.Now().Before(deadline) {
		time.Sleep(200 * time.Microsecond)
	}
	ctl.Release("A", "cor.yieldfrom.beforeResult")
	a := "A!stuck"
	select {
	case x := <-ares:
		a = "A=" + x
	case <-time.After(c15Long):
	}
	if parked {
		ctl.Release("G", "cor.yieldref.afterRecv")
	} else {
		gcmd <- cmd{9}
	}
	g := "G!stuck"
	select {
	case x := <-gres:
		g = "G=" + x
	case <-time.After(c15Long):
	}
	return a + " " + g + " | fin"
}
