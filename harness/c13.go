package main

// C13 — Ask / Reply: every asker gets its own answer; timeouts are clean.
//
// Case lines (grammar and model semantics: lean/FpgoVerif/Model/C13.lean):
//   ask mcap=<k> n=<n> spec=<K><rcap>,...: op ; op ; ...     directed schedule
//        K: O AskOnce | T AskOnceWithTimeout(30 s: never fires) | S AskOnceWithTimeout(15 ms, parked at
//           ask.timeout.fired) | C AskChannel + receive;   rcap = capacity of the reply channel
//        ops: a<i> start asker i | r let the actor enter Reply | w<i> wait until asker i's timer fired |
//             u<i> release asker i (close(done), return the timeout) | d<i> a kind-D asker (AskChannel, caller only
//             holding the channel) starts to read, after the head parameter late=<ms> has elapsed
//   askstress mcap=<k> n=<n> m=<m> rcap=<c> to=<µs> seed=<s>   free running + monitors
//
// The actor's effect waits for a token before calling Reply (= parked at ask.reply.beforeSend, the first
// statement of Reply); a reply is a function of the request payload and of the asker id, so a misrouted reply
// is visible.  As in c12.go the harness runs a mini-simulation next to the real code only to know what to
// wait for; everything printed is observed.

import (
	"fmt"
	"math/rand"
	"strconv"
	"strings"
	"sync"
	"sync/atomic"
	"time"

	fpgo "github.com/TeaEntityLab/fpGo/v2"
)

func c13Payload(i int) int  { return 100 + 13*i }
func c13Reply(i, p int) int { return p*7 + i + 1 }

// ---------------------------------------------------------------------------------------------
// mini-simulation (mirrors Model/C13.lean doOp / settle)

const (
	c13Idle = iota
	c13Sending
	c13Waiting
	c13Fired
	c13Got
	c13RetV
	c13RetT
	c13Holding
)

type c13Asker struct {
	ctor       byte // n New, g AskNewGenerics, o NewByOptions, p AskNewByOptionsGenerics, 0 = pick by index
	kind       byte
	rcap       int
	pc         int
	buf        int
	chClosed   bool
	doneClosed bool
}

type c13Sim struct {
	mcap, n  int
	as       []c13Asker
	mbox     []int
	actor    int // 0 idle, 1 computing, 2 replying
	req      int
	released bool
	sendQ    []int
	served   []int
}

// c13Short: the kinds of AskOnceWithTimeout whose timer fires within the case (S 15 ms, Z zero, N negative, Y 1 µs)
func c13Short(kind byte) bool { return kind == 'S' || kind == 'Z' || kind == 'N' || kind == 'Y' }

func c13Timeout(kind byte) time.Duration {
	switch kind {
	case 'S':
		return 15 * time.Millisecond
	case 'Z':
		return 0
	case 'N':
		return -time.Millisecond
	case 'Y':
		return time.Microsecond
	}
	return 30 * time.Second
}

func c13ParseSpec(spec string, n int) []c13Asker {
	items := strings.Split(spec, ",")
	as := make([]c13Asker, n)
	for i := range as {
		as[i] = c13Asker{kind: 'O'}
		if i < len(items) && len(items[i]) > 0 {
			as[i].kind = items[i][0]
			rest := items[i][1:]
			if k := len(rest); k > 0 && (rest[k-1] < '0' || rest[k-1] > '9') {
				as[i].ctor = rest[k-1]
				rest = rest[:k-1]
			}
			as[i].rcap, _ = strconv.Atoi(rest)
		}
	}
	return as
}

func c13NewSim(mcap, n int, spec string) *c13Sim {
	return &c13Sim{mcap: mcap, n: n, as: c13ParseSpec(spec, n)}
}

func (s *c13Sim) trySend(i int) bool {
	a := &s.as[i]
	if a.pc != c13Sending {
		return false
	}
	switch {
	case len(s.mbox) < s.mcap:
		s.mbox = append(s.mbox, i)
	case s.mcap == 0 && len(s.mbox) == 0 && s.actor == 0:
		s.actor, s.req = 1, i
	default:
		return false
	}
	a.pc = c13Waiting
	if a.kind == 'D' {
		a.pc = c13Holding
	}
	return true
}

func (s *c13Sim) settle1() bool {
	for i := range s.as { // finish
		if s.as[i].pc == c13Got {
			s.as[i].pc = c13RetV
			if s.as[i].kind != 'C' && s.as[i].kind != 'D' {
				s.as[i].chClosed = true
			}
			return true
		}
	}
	for i := range s.as { // recv
		if s.as[i].pc == c13Waiting && s.as[i].buf > 0 {
			s.as[i].buf--
			s.as[i].pc = c13Got
			return true
		}
	}
	if s.actor == 1 { // compute
		s.actor = 2
		s.released = false
		return true
	}
	if s.actor == 2 && s.released {
		a := &s.as[s.req]
		done := false
		switch {
		case a.chClosed: // unreachable in the repaired code
		case a.buf < a.rcap:
			a.buf++
			done = true
		case a.rcap == 0 && a.pc == c13Waiting && a.buf == 0:
			a.pc = c13Got
			done = true
		case a.doneClosed:
			done = true
		}
		if done {
			s.actor = 0
			s.served = append(s.served, s.req)
			s.released = false
			return true
		}
	}
	if s.actor == 0 && len(s.mbox) > 0 { // take
		s.actor, s.req = 1, s.mbox[0]
		s.mbox = s.mbox[1:]
		return true
	}
	if len(s.sendQ) > 0 && s.trySend(s.sendQ[0]) {
		s.sendQ = s.sendQ[1:]
		return true
	}
	return false
}

func (s *c13Sim) op(tok string) (effective bool) {
	i := 0
	if len(tok) > 1 {
		i, _ = strconv.Atoi(tok[1:])
	}
	switch tok[0] {
	case 'a':
		if i < s.n && s.as[i].pc == c13Idle {
			s.as[i].pc = c13Sending
			s.sendQ = append(s.sendQ, i)
			effective = true
		}
	case 'r':
		if s.actor == 2 && !s.released {
			s.released = true
			effective = true
		}
	case 'w':
		if i < s.n && c13Short(s.as[i].kind) && s.as[i].pc == c13Waiting {
			s.as[i].pc = c13Fired
			effective = true
		}
	case 'd':
		if i < s.n && s.as[i].pc == c13Holding {
			s.as[i].pc = c13Waiting
			effective = true
		}
	case 'u':
		if i < s.n && s.as[i].pc == c13Fired {
			s.as[i].pc = c13RetT
			s.as[i].doneClosed = true
			effective = true
		}
	}
	for s.settle1() {
	}
	return
}

func (s *c13Sim) status() string {
	var b strings.Builder
	for _, a := range s.as {
		switch a.pc {
		case c13Idle:
			b.WriteByte('-')
		case c13RetV:
			b.WriteByte('V')
		case c13RetT:
			b.WriteByte('T')
		case c13Sending:
			b.WriteByte('s')
		default:
			b.WriteByte('w')
		}
	}
	b.WriteByte('/')
	switch {
	case s.actor == 0:
		b.WriteByte('i')
	case s.actor == 2 && s.released:
		fmt.Fprintf(&b, "b%d", s.req)
	default:
		fmt.Fprintf(&b, "p%d", s.req)
	}
	return b.String()
}

// ---------------------------------------------------------------------------------------------
// directed schedules

var c13Deviations int32

// c13NewAskBy builds the request with the named constructor; o/p pass a caller-made channel of capacity rcap
// (unbuffered for rcap 0), n/g use the library's own channel (only meaningful for rcap 0)
func c13NewAskBy(p, rcap int, ctor byte) *fpgo.AskDef[int, int] {
	var proto fpgo.AskDef[int, int]
	switch {
	case ctor == 'n' && rcap == 0:
		return proto.New(p)
	case ctor == 'g' && rcap == 0:
		return fpgo.AskNewGenerics[int, int](p)
	case ctor == 'o':
		return proto.NewByOptions(p, make(chan int, rcap))
	case ctor == 'p':
		return fpgo.AskNewByOptionsGenerics[int, int](p, make(chan int, rcap))
	}
	return nil
}

func c13NewAsk(p, rcap int, variant int) *fpgo.AskDef[int, int] {
	if rcap == 0 {
		return c13NewAskBy(p, 0, "ngop"[variant%4])
	}
	var proto fpgo.AskDef[int, int]
	switch {
	case rcap == 0 && variant%2 == 0:
		return proto.New(p)
	case rcap == 0:
		return fpgo.AskNewGenerics[int, int](p)
	case variant%2 == 0:
		return proto.NewByOptions(p, make(chan int, rcap))
	default:
		return fpgo.AskNewByOptionsGenerics[int, int](p, make(chan int, rcap))
	}
}

func c13NewActor(mcap int, effect func(*fpgo.ActorDef[interface{}], interface{})) *fpgo.ActorDef[interface{}] {
	var proto fpgo.ActorDef[interface{}]
	if mcap == 0 {
		return proto.New(effect)
	}
	return proto.NewByOptions(effect, make(chan interface{}, mcap), map[string]interface{}{})
}

// c13Target is the ActorHandle handed to the Ask* calls: it forwards to the real actor and records that the
// Send of a request has returned (so "request is in the mailbox" is observable)
type c13Target struct {
	a    *fpgo.ActorDef[interface{}]
	sent []int32
}

func (t *c13Target) Send(m interface{}) {
	t.a.Send(m)
	if ask, ok := m.(*fpgo.AskDef[int, int]); ok {
		if i := (ask.Message - 100) / 13; i >= 0 && i < len(t.sent) {
			atomic.StoreInt32(&t.sent[i], 1)
		}
	}
}

func c13RunAsk(line string) string {
	head, body := line, ""
	if k := strings.Index(line, ": "); k >= 0 {
		head, body = line[:k], line[k+2:]
	}
	toks := strings.Fields(head)
	mcap, n, spec := c12KVInt(toks, "mcap"), c12KVInt(toks, "n"), c12KV(toks, "spec")
	late := time.Duration(c12KVInt(toks, "late")) * time.Millisecond
	readNow := make([]chan struct{}, n)
	for i := range readNow {
		readNow[i] = make(chan struct{})
	}
	readReleased := make([]bool, n)
	specs := c13ParseSpec(spec, n)
	const firedPoint = "ask.timeout.fired"

	var pan int32
	var phase, serving int32 // phase: 0 idle, 1 waiting for the reply token, 2 inside Reply
	serving = -1
	gate := make(chan struct{}, 1024)
	gateOpen := make(chan struct{})
	var mu sync.Mutex
	var served []int
	effect := func(self *fpgo.ActorDef[interface{}], msg interface{}) {
		ask, ok := msg.(*fpgo.AskDef[int, int])
		if !ok {
			atomic.AddInt32(&pan, 1)
			return
		}
		p := ask.Message
		i := (p - 100) / 13
		atomic.StoreInt32(&serving, int32(i))
		atomic.StoreInt32(&phase, 1)
		select {
		case <-gate:
		case <-gateOpen:
		}
		atomic.StoreInt32(&phase, 2)
		func() {
			defer func() {
				if r := recover(); r != nil {
					atomic.AddInt32(&pan, 1)
				}
			}()
			ask.Reply(c13Reply(i, p))
		}()
		mu.Lock()
		served = append(served, i)
		mu.Unlock()
		atomic.StoreInt32(&serving, -1)
		atomic.StoreInt32(&phase, 0)
	}
	realActor := c13NewActor(mcap, effect)
	actor := &c13Target{a: realActor, sent: make([]int32, n)}
	ctl := NewCtl()
	threads := make([]*Thread, n)
	results := make([]string, n)
	var resMu sync.Mutex
	setRes := func(i int, r string) { resMu.Lock(); results[i] = r; resMu.Unlock() }
	getRes := func(i int) string { resMu.Lock(); defer resMu.Unlock(); return results[i] }
	collected := map[*Thread]bool{}
	askerState := func(i int) byte {
		t := threads[i]
		if t == nil {
			return '-'
		}
		if r, ok := c12ThreadDone(t); ok {
			if !collected[t] {
				collected[t] = true
				if r != "ok" {
					atomic.AddInt32(&pan, 1)
				}
			}
			if strings.HasPrefix(getRes(i), "T") {
				return 'T'
			}
			return 'V'
		}
		if atomic.LoadInt32(&actor.sent[i]) == 0 {
			return 's'
		}
		return 'w'
	}
	status := func() string {
		var sb strings.Builder
		for i := 0; i < n; i++ {
			sb.WriteByte(askerState(i))
		}
		sb.WriteByte('/')
		// read phase, then serving, then phase again: only a stable pair is reported
		for {
			p1 := atomic.LoadInt32(&phase)
			k := atomic.LoadInt32(&serving)
			p2 := atomic.LoadInt32(&phase)
			if p1 != p2 {
				continue
			}
			switch {
			case p1 == 0 || k < 0:
				sb.WriteByte('i')
			case p1 == 1:
				fmt.Fprintf(&sb, "p%d", k)
			default:
				fmt.Fprintf(&sb, "b%d", k)
			}
			break
		}
		return sb.String()
	}
	patience := func() time.Duration {
		if atomic.LoadInt32(&c13Deviations) >= 3 {
			return 300 * time.Millisecond
		}
		return 2500 * time.Millisecond
	}
	await := func(hint string, confirmBlocked bool) string {
		if hint == "" {
			time.Sleep(60 * time.Millisecond)
			return status()
		}
		deadline := time.Now().Add(patience())
		for {
			cur := status()
			if cur == hint {
				if confirmBlocked && strings.Contains(hint, "/b") {
					time.Sleep(100 * time.Millisecond)
					return status()
				}
				return cur
			}
			if time.Now().After(deadline) {
				return cur
			}
			time.Sleep(100 * time.Microsecond)
		}
	}
	sim := c13NewSim(mcap, n, spec)
	deviated := false
	var outs []string
	for _, raw := range strings.Split(body, ";") {
		tok := strings.TrimSpace(raw)
		if tok == "" {
			continue
		}
		i := 0
		if len(tok) > 1 {
			i, _ = strconv.Atoi(tok[1:])
		}
		effective := sim.op(tok)
		hint := sim.status()
		if deviated {
			hint = ""
		}
		if effective {
			switch tok[0] {
			case 'a':
				i := i
				sp := specs[i]
				name := "a" + strconv.Itoa(i)
				if c13Short(sp.kind) {
					ctl.ParkAt(name, firedPoint)
				}
				ask := c13NewAskBy(c13Payload(i), sp.rcap, sp.ctor)
				if ask == nil {
					ask = c13NewAsk(c13Payload(i), sp.rcap, i)
				}
				threads[i] = ctl.Go(name, func() {
					switch sp.kind {
					case 'O':
						setRes(i, "V"+strconv.Itoa(ask.AskOnce(actor)))
					case 'C':
						ch := ask.AskChannel(actor)
						setRes(i, "V"+strconv.Itoa(<-ch))
					case 'D':
						ch := ask.AskChannel(actor)
						<-readNow[i] // the caller only holds the channel until the schedule says `d<i>`
						setRes(i, "V"+strconv.Itoa(<-ch))
					default:
						to := c13Timeout(sp.kind)
						t0 := time.Now()
						v, err := ask.AskOnceWithTimeout(actor, to)
						elapsed := time.Since(t0)
						switch {
						case err == nil:
							setRes(i, "V"+strconv.Itoa(v))
						case err == fpgo.ErrActorAskTimeout && elapsed < to:
							// the timer starts inside the call: a timeout result can never come back sooner than `to`
							setRes(i, "Tearly")
						case err == fpgo.ErrActorAskTimeout && v == 0:
							setRes(i, "T")
						case err == fpgo.ErrActorAskTimeout:
							setRes(i, "T!"+strconv.Itoa(v))
						default:
							setRes(i, "E")
						}
					}
				})
			case 'r':
				gate <- struct{}{}
			case 'w':
				ctl.WaitAt("a"+strconv.Itoa(i), firedPoint, patience())
			case 'u':
				ctl.Release("a"+strconv.Itoa(i), firedPoint)
			case 'd':
				time.Sleep(late) // the reader is late: whatever the delay, the value must still arrive
				if !readReleased[i] {
					readReleased[i] = true
					close(readNow[i])
				}
			}
		}
		got := await(hint, tok[0] == 'r')
		if hint != "" && got != hint {
			deviated = true
			atomic.AddInt32(&c13Deviations, 1)
		}
		outs = append(outs, got)
	}
	time.Sleep(30 * time.Millisecond)
	final := status()
	res := make([]string, n)
	for i := 0; i < n; i++ {
		r := "-"
		if st := askerState(i); st == 'V' || st == 'T' {
			r = getRes(i)
		}
		res[i] = strconv.Itoa(i) + ":" + r
	}
	mu.Lock()
	srv := make([]string, len(served))
	for k, v := range served {
		srv[k] = strconv.Itoa(v)
	}
	mu.Unlock()
	outs = append(outs, fmt.Sprintf("end %s res=%s srv=%s pan=%d", final, strings.Join(res, ","), strings.Join(srv, ","),
		atomic.LoadInt32(&pan)))
	// cleanup: everything parked continues, every reply may be sent, then the actor is closed
	ctl.Uninstall()
	close(gateOpen)
	for i := range readNow {
		if !readReleased[i] {
			readReleased[i] = true
			close(readNow[i])
		}
	}
	cleanupDeadline := time.Now().Add(1500 * time.Millisecond)
	for _, t := range threads {
		if t != nil {
			t.Wait(time.Until(cleanupDeadline))
		}
	}
	func() { defer func() { recover() }(); realActor.Close() }()
	return strings.Join(outs, " | ")
}

// ---------------------------------------------------------------------------------------------
// stress

func c13RunStress(line string) string {
	toks := strings.Fields(line)
	mcap, n, m := c12KVInt(toks, "mcap"), c12KVInt(toks, "n"), c12KVInt(toks, "m")
	rcap, to := c12KVInt(toks, "rcap"), time.Duration(c12KVInt(toks, "to"))*time.Microsecond
	seed := int64(c12KVInt(toks, "seed"))
	var violMu sync.Mutex
	viol := ""
	setViol := func(s string) {
		violMu.Lock()
		if viol == "" {
			viol = s
		}
		violMu.Unlock()
	}
	reply := func(p int) int { return p*7 + 3 }
	lrng := rand.New(rand.NewSource(seed))
	var lmu sync.Mutex
	var inEffect int32
	effect := func(self *fpgo.ActorDef[interface{}], msg interface{}) {
		if r := atomic.AddInt32(&inEffect, 1); r > 1 {
			setViol("overlap two requests served at once")
		}
		defer atomic.AddInt32(&inEffect, -1)
		ask, ok := msg.(*fpgo.AskDef[int, int])
		if !ok {
			setViol("phantom message that is not a request")
			return
		}
		lmu.Lock()
		lat := time.Duration(0)
		if to > 0 {
			lat = time.Duration(lrng.Int63n(int64(2*to) + 1))
		}
		lmu.Unlock()
		if lat > 20*time.Microsecond {
			time.Sleep(lat)
		}
		defer func() {
			if r := recover(); r != nil {
				setViol(fmt.Sprint("panic in Reply: ", r))
			}
		}()
		ask.Reply(reply(ask.Message))
	}
	actor := c13NewActor(mcap, effect)
	var wg sync.WaitGroup
	var timeouts, answers int32
	for i := 0; i < n; i++ {
		wg.Add(1)
		go func(i int) {
			defer wg.Done()
			rng := rand.New(rand.NewSource(seed*1000 + int64(i)))
			defer func() {
				if r := recover(); r != nil {
					setViol(fmt.Sprint("panic in an ask call: ", r))
				}
			}()
			for q := 0; q < m; q++ {
				p := 1 + i*100000 + q
				rc := 0
				if rng.Intn(3) == 0 {
					rc = rcap
				}
				ask := c13NewAsk(p, rc, q)
				kind := rng.Intn(4)
				switch kind {
				case 0:
					if v := ask.AskOnce(actor); v != reply(p) {
						setViol(fmt.Sprintf("misrouted AskOnce(%d) = %d, want %d", p, v, reply(p)))
					}
					atomic.AddInt32(&answers, 1)
				case 1:
					if v := <-ask.AskChannel(actor); v != reply(p) {
						setViol(fmt.Sprintf("misrouted AskChannel(%d) = %d, want %d", p, v, reply(p)))
					}
					atomic.AddInt32(&answers, 1)
				default:
					if to > 0 && rng.Intn(3) == 0 {
						// the request object is older than the call: the timeout still counts from the call
						time.Sleep(to + time.Duration(rng.Int63n(int64(to)+1)))
					}
					t0 := time.Now()
					v, err := ask.AskOnceWithTimeout(actor, to)
					elapsed := time.Since(t0)
					switch {
					case err == nil && v == reply(p):
						atomic.AddInt32(&answers, 1)
					case err == nil:
						setViol(fmt.Sprintf("misrouted AskOnceWithTimeout(%d) = %d, want %d", p, v, reply(p)))
					case err == fpgo.ErrActorAskTimeout && elapsed < to:
						setViol(fmt.Sprintf("early timeout ErrActorAskTimeout after %dus of a %dus timeout", elapsed.Microseconds(), to.Microseconds()))
					case err == fpgo.ErrActorAskTimeout && v == 0:
						atomic.AddInt32(&timeouts, 1)
					default:
						setViol(fmt.Sprintf("unclean timeout result (%d, %v)", v, err))
					}
				}
			}
		}(i)
	}
	done := make(chan struct{})
	go func() { wg.Wait(); close(done) }()
	select {
	case <-done:
	case <-time.After(c13StressPatience(12 * time.Second)):
		atomic.AddInt32(&c13StressViols, 1)
		return "viol deadlock askers still blocked (actor stuck in Reply or an ask never returned)"
	}
	// after all the timeouts the actor must still answer a fresh ask
	fresh := c13NewAsk(777, 0, 0)
	v, err := fresh.AskOnceWithTimeout(actor, c13StressPatience(8*time.Second))
	if err != nil || v != reply(777) {
		setViol(fmt.Sprintf("stuck the actor does not answer a fresh ask any more (%d, %v)", v, err))
	}
	func() { defer func() { recover() }(); actor.Close() }()
	if viol != "" {
		atomic.AddInt32(&c13StressViols, 1)
		return "viol " + viol
	}
	return "ok"
}


// ---------------------------------------------------------------------------------------------
// fan-in: k AskChannel requests share ONE caller-made buffered reply channel, the collector reads late

func c13RunFanIn(line string) string {
	toks := strings.Fields(line)
	mcap, k, c := c12KVInt(toks, "mcap"), c12KVInt(toks, "k"), c12KVInt(toks, "c")
	late := time.Duration(c12KVInt(toks, "late")) * time.Millisecond
	reply := func(p int) int { return p*7 + 3 }
	var pan int32
	effect := func(self *fpgo.ActorDef[interface{}], msg interface{}) {
		ask, ok := msg.(*fpgo.AskDef[int, int])
		if !ok {
			return
		}
		defer func() {
			if r := recover(); r != nil {
				atomic.AddInt32(&pan, 1)
			}
		}()
		ask.Reply(reply(ask.Message))
	}
	actor := c13NewActor(mcap, effect)
	shared := make(chan int, c)
	var wg sync.WaitGroup
	for i := 0; i < k; i++ {
		wg.Add(1)
		go func(i int) {
			defer wg.Done()
			defer func() {
				if r := recover(); r != nil {
					atomic.AddInt32(&pan, 1)
				}
			}()
			var ask *fpgo.AskDef[int, int]
			if i%2 == 0 {
				var proto fpgo.AskDef[int, int]
				ask = proto.NewByOptions(1000+i, shared)
			} else {
				ask = fpgo.AskNewByOptionsGenerics[int, int](1000+i, shared)
			}
			ask.AskChannel(actor)
		}(i)
	}
	time.Sleep(late) // the collector is late: the actor waits in Reply once the c slots are taken
	want := map[int]int{}
	for i := 0; i < k; i++ {
		want[reply(1000+i)]++
	}
	received := 0
	for received < k {
		select {
		case v := <-shared:
			if want[v] == 0 {
				atomic.AddInt32(&c13StressViols, 1)
				return fmt.Sprintf("viol misrouted value %d is not an outstanding reply (or came twice)", v)
			}
			want[v]--
			received++
			continue
		case <-time.After(c13StressPatience(5 * time.Second)):
		}
		break
	}
	func() { defer func() { recover() }(); actor.Close() }()
	if atomic.LoadInt32(&pan) != 0 {
		atomic.AddInt32(&c13StressViols, 1)
		return "viol panic in Reply / AskChannel"
	}
	if received != k {
		atomic.AddInt32(&c13StressViols, 1)
		return fmt.Sprintf("viol lost received=%d of %d replies", received, k)
	}
	return fmt.Sprintf("ok received=%d", received)
}

var c13StressViols int32

// c13StressPatience: generous while everything is fine, short once this process has already seen violations
func c13StressPatience(d time.Duration) time.Duration {
	if atomic.LoadInt32(&c13StressViols) >= 2 {
		return 2 * time.Second
	}
	return d
}

func c13Run(line string) string {
	switch {
	case strings.HasPrefix(line, "ask "):
		return c13RunAsk(line)
	case strings.HasPrefix(line, "askstress "):
		return c13RunStress(line)
	case strings.HasPrefix(line, "fanin "):
		return c13RunFanIn(line)
	}
	return "bad-case"
}

// ---------------------------------------------------------------------------------------------
// generator

// c13Drain appends ops until every started asker has returned and the actor is idle (bounded).
func c13Drain(sim *c13Sim, ops []string) []string {
	for fuel := 0; fuel < 64; fuel++ {
		progressed := false
		if sim.actor == 2 && !sim.released {
			a := sim.as[sim.req]
			if c13Short(a.kind) && a.pc == c13Waiting {
				w := "w" + strconv.Itoa(sim.req)
				sim.op(w)
				ops = append(ops, w)
			}
			if sim.op("r") {
				ops = append(ops, "r")
				progressed = true
			}
		}
		for i := range sim.as {
			if sim.as[i].pc == c13Holding && (sim.as[i].buf > 0 || (sim.actor == 2 && sim.released && sim.req == i)) {
				d := "d" + strconv.Itoa(i)
				sim.op(d)
				ops = append(ops, d)
				progressed = true
			}
			if sim.as[i].pc == c13Fired {
				u := "u" + strconv.Itoa(i)
				sim.op(u)
				ops = append(ops, u)
				progressed = true
			}
		}
		if !progressed {
			break
		}
	}
	return ops
}

func c13Line(mcap, n int, spec string, ops []string) string { return c13LineLate(mcap, n, 0, spec, ops) }

func c13LineLate(mcap, n, late int, spec string, ops []string) string {
	sim := c13NewSim(mcap, n, spec)
	for _, o := range ops {
		sim.op(o)
	}
	ops = c13Drain(sim, append([]string{}, ops...))
	if late > 0 {
		return fmt.Sprintf("ask mcap=%d n=%d late=%d spec=%s: %s", mcap, n, late, spec, strings.Join(ops, " ; "))
	}
	return fmt.Sprintf("ask mcap=%d n=%d spec=%s: %s", mcap, n, spec, strings.Join(ops, " ; "))
}

func c13Gen(tier string, rng *rand.Rand, emit func(string)) map[string]interface{} {
	thorough := tier == "thorough"
	stats := map[string]interface{}{}
	nDirected := 0
	// (1) the three orders of reply and timeout (reply first; timeout, then reply; reply blocked, then timeout), for
	//     every kind of ask and reply-channel capacity, followed by a fresh ask that must be served
	for _, mcap := range []int{0, 1} {
		for _, x := range []string{"O0n", "O0o", "O1p", "C0g", "C0p", "C2o", "T0n", "T0o", "T1p", "S0n", "S0g", "S0o", "S0p", "S1o", "S1p",
			"Z0n", "Z0p", "Z1o", "N0g", "N0o", "Y0n", "Y0p"} {
			for _, y := range []string{"O0n", "C0p", "T0g", "O0o"} {
				spec := x + "," + y
				var scheds [][]string
				if c13Short(x[0]) {
					scheds = [][]string{
						{"a0", "w0", "u0", "r", "a1", "r"}, {"a0", "w0", "r", "u0", "a1", "r"},
						{"a0", "a1", "w0", "r", "u0", "r"}, {"a0", "a1", "w0", "u0", "r", "r"},
						{"a1", "a0", "r", "w0", "u0", "r"}, {"a1", "a0", "r", "w0", "r", "u0"},
					}
				} else {
					scheds = [][]string{{"a0", "r", "a1", "r"}, {"a0", "a1", "r", "r"}, {"a1", "a0", "r", "r"}}
				}
				for _, sc := range scheds {
					if !thorough && ((!c13Short(x[0]) && rng.Intn(3) != 0) || (c13Short(x[0]) && rng.Intn(3) != 0)) {
						continue
					}
					emit(c13Line(mcap, 2, spec, sc))
					nDirected++
				}
			}
		}
	}
	// (1b) AskChannel with a LATE reader: the caller obtains the channel, the actor replies (and waits in Reply, or the
	//      value waits in the buffer), the caller reads only after a delay — the value must arrive whatever the delay
	type lateCase struct {
		late int
		spec string
		ops  []string
	}
	lates := []lateCase{
		{0, "D0p,O0o", []string{"a0", "r", "d0", "a1", "r"}}, {0, "D0n,C0p", []string{"a0", "d0", "r", "a1", "r"}},
		{200, "D0g,O0n", []string{"a0", "r", "d0", "a1", "r"}}, {200, "D1o,T0o", []string{"a0", "r", "a1", "r", "d0"}},
		{1500, "D0o,O0n", []string{"a0", "r", "d0", "a1", "r"}}, {3000, "D0n,T0p", []string{"a0", "r", "d0", "a1", "r"}},
	}
	if thorough {
		for _, l := range []int{0, 200, 1500, 3000} {
			for _, sp := range []string{"D0n,O0o", "D0g,C0p", "D0o,T0n", "D0p,O0n", "D2p,O0o"} {
				lates = append(lates, lateCase{l, sp, []string{"a0", "r", "d0", "a1", "r"}}, lateCase{l, sp, []string{"a0", "a1", "r", "d0", "r"}})
			}
		}
	}
	for _, lc := range lates {
		emit(c13LineLate(rng.Intn(2), 2, lc.late, lc.spec, lc.ops))
		nDirected++
	}
	stats["directed_schedules"] = nDirected
	// (2) random schedules: up to 5 askers, every op effective in the mini-simulation; an `r` towards a short-timeout
	//     asker is only released after its timer was observed to have fired (w), otherwise the outcome would be a race
	nRand := 60
	if thorough {
		nRand = 600
	}
	kinds := []string{"O0n", "O0p", "O1o", "C0g", "C0o", "C1p", "T0n", "T0o", "T2p", "S0n", "S0g", "S0o", "S0p", "S1o", "Z0n", "Z0p", "N0o", "N0g", "Y0p", "Z1o", "D0p", "D0n", "D1o"}
	for r := 0; r < nRand; r++ {
		n := 1 + rng.Intn(5)
		mcap := []int{0, 0, 1, 3}[rng.Intn(4)]
		items := make([]string, n)
		for i := range items {
			items[i] = kinds[rng.Intn(len(kinds))]
		}
		spec := strings.Join(items, ",")
		sim := c13NewSim(mcap, n, spec)
		var ops []string
		for tries := 0; tries < 60 && len(ops) < 3+rng.Intn(12); tries++ {
			var cand string
			switch x := rng.Intn(10); {
			case x < 4:
				cand = "a" + strconv.Itoa(rng.Intn(n))
			case x < 7:
				cand = "r"
			case x < 9:
				cand = "w" + strconv.Itoa(rng.Intn(n))
			default:
				cand = []string{"u", "d"}[rng.Intn(2)] + strconv.Itoa(rng.Intn(n))
			}
			if cand == "r" && sim.actor == 2 && c13Short(sim.as[sim.req].kind) && sim.as[sim.req].pc == c13Waiting {
				cand = "w" + strconv.Itoa(sim.req)
			}
			// probe on a copy
			probe := c13NewSim(mcap, n, spec)
			for _, o := range ops {
				probe.op(o)
			}
			if probe.op(cand) {
				sim.op(cand)
				ops = append(ops, cand)
			}
		}
		emit(c13Line(mcap, n, spec, ops))
	}
	stats["random_schedules"] = nRand
	// (3) stress: many concurrent askers, latencies around the timeout
	nStress := 0
	reps, m := 1, 25
	if thorough {
		reps, m = 4, 60
	}
	for rep := 0; rep < reps; rep++ {
		for _, mcap := range []int{0, 4} {
			for _, n := range []int{1, 4, 16} {
				for _, to := range []int{0, -5, 100, 1000} {
					emit(fmt.Sprintf("askstress mcap=%d n=%d m=%d rcap=%d to=%d seed=%d", mcap, n, m, 1+rng.Intn(2), to, rng.Intn(1000000)))
					nStress++
				}
			}
		}
	}
	stats["stress_cases"] = nStress
	// (4) fan-in: k requests on one shared reply channel of capacity c < k, late collector
	nFan := 0
	for _, mcap := range []int{0, 4} {
		for _, kc := range [][2]int{{2, 1}, {4, 1}, {4, 3}, {8, 2}, {16, 4}} {
			for _, late := range []int{0, 30, 150} {
				if !thorough && rng.Intn(2) == 0 && late != 30 {
					continue
				}
				emit(fmt.Sprintf("fanin mcap=%d k=%d c=%d late=%d seed=%d", mcap, kc[0], kc[1], late, rng.Intn(1000000)))
				nFan++
			}
		}
	}
	stats["fanin_cases"] = nFan
	return stats
}

func init() { register("C13", &Prop{Gen: c13Gen, Run: c13Run, CaseTimeout: 90 * time.Second}) }
