package main

// C03 — slice/map helpers of fp.go vs the Lean model (Model/C03Defs.lean) / the documented definitions.
//
// Case line:  <Helper> <ty> <args…>     (space separated; see lean/FpgoVerif/Model/C03.lean for the grammar)
//   ty i|s|t = int / string / struct{A int; B string};  element tokens: 3, -1 | ~ab (~ = "") | 2~b
//   ty l|u = int64 / uint64 (decimal tokens up to the type extremes); ty f = float64, token k = the value k/2 (numeric helpers only)
//   slice nil | [e,e] | [e,e|h,h]  (h = hidden elements between len and cap)    map nil | {k:v,…}   fn f<k> | fnil
//   ALIASED operands: `[e,e,e,e]#a:b` = backing[a:b] of ONE backing array shared by all operands of the case with the
//   same backing text (prefix views, overlapping views, the same slice twice); `{k:v}#s` = the same map object
// Observation: canonical rendering of the result (nil and empty not distinguished, maps sorted by key token,
// Keys/Values sorted), `panic`; ` mutated` is appended when any input slice (up to cap) or input map changed;
// ` aliased` when writing through a result that the doc comment calls new (Dedupe, DropEq, DropWhile, Flatten, Merge,
// Zip, GroupBy, DuplicateSlice, DuplicateMap) is visible in an input.
// The function families (indexed by k) are the same arithmetic on `ord(element)` as in the Lean file.

import (
	"fmt"
	"math/rand"
	"sort"
	"strconv"
	"strings"
	"time"

	fpgo "github.com/TeaEntityLab/fpGo/v2"
)

type c03Struct struct {
	A int
	B string
}

type c03Codec[T comparable] struct {
	parse func(string) T
	show  func(T) string
	ord   func(T) int
}

func c03CharSum(s string) int {
	n := 0
	for i := 0; i < len(s); i++ {
		n += int(s[i]) - 96
	}
	return n
}

var c03Int = c03Codec[int]{
	parse: func(s string) int { v, _ := strconv.Atoi(s); return v },
	show:  strconv.Itoa,
	ord:   func(v int) int { return v },
}
var c03Str = c03Codec[string]{
	parse: func(s string) string { return strings.TrimPrefix(s, "~") },
	show:  func(v string) string { return "~" + v },
	ord:   c03CharSum,
}
var c03St = c03Codec[c03Struct]{
	parse: func(s string) c03Struct {
		p := strings.SplitN(s, "~", 2)
		a, _ := strconv.Atoi(p[0])
		b := ""
		if len(p) > 1 {
			b = p[1]
		}
		return c03Struct{a, b}
	},
	show: func(v c03Struct) string { return strconv.Itoa(v.A) + "~" + v.B },
	ord:  func(v c03Struct) int { return v.A*4 + c03CharSum(v.B) },
}

// ---- function families (must stay in step with Model/C03.lean)

func c03Even(x int) bool { return x%2 == 0 }

func c03MapFn(k, o int) int {
	switch k {
	case 0:
		return o
	case 1:
		return o * 2
	case 2:
		return o % 2
	case 3:
		return 7
	case 4:
		return -o
	case 5:
		return o*o - 3
	case 6:
		return o / 2
	}
	return o + 1
}

func c03MapIdxFn(k, o, i int) int {
	switch k {
	case 0:
		return o + i
	case 1:
		return o * i
	case 2:
		return i
	case 3:
		return (o + i) % 2
	case 4:
		return o
	case 5:
		return i - o
	case 6:
		return o*10 + i
	}
	if c03Even(i) {
		return o
	}
	return -o
}

func c03PredIdxFn(k, o, i int) bool {
	switch k {
	case 0:
		return c03Even(o)
	case 1:
		return c03Even(i)
	case 2:
		return c03Even(o + i)
	case 3:
		return true
	case 4:
		return false
	case 5:
		return o > 1
	case 6:
		return i < 2
	}
	return o == i+1
}

func c03PredFn(k, o int) bool {
	switch k {
	case 0:
		return c03Even(o)
	case 1:
		return true
	case 2:
		return false
	case 3:
		return o > 1
	case 4:
		return o <= 2
	case 5:
		return o == 3
	case 6:
		return !c03Even(o)
	}
	return o < 0
}

func c03ReduceFn(k, m, o int) int {
	switch k {
	case 0:
		return m + o
	case 1:
		return (m*2 + o) % 1000003
	case 2:
		return m - o
	case 3:
		return o
	case 4:
		return m
	case 5:
		if m < o {
			return o
		}
		return m
	case 6:
		return (m*3 + o + 1) % 1000003
	}
	return (m * o) % 1000003
}

func c03KeyFn(k, o int) int {
	switch k {
	case 0:
		return o % 2
	case 1:
		return o
	case 2:
		return 0
	case 3:
		return o / 2
	case 4:
		return o * o
	case 5:
		return -o
	case 6:
		return o % 3
	}
	if o > 1 {
		return 1
	}
	return 0
}

const c03FamilySize = 8

// ---- parsing / rendering

func c03Csv(s string) []string {
	if s == "" {
		return nil
	}
	return strings.Split(s, ",")
}

func c03FnIndex(tok string) (int, bool) { // f3 -> 3,true ; fnil -> 0,false
	k, err := strconv.Atoi(tok[1:])
	return k, err == nil
}

func c03ShowList[T comparable](cd c03Codec[T], l []T) string {
	parts := make([]string, len(l))
	for i, v := range l {
		parts[i] = cd.show(v)
	}
	return "[" + strings.Join(parts, ",") + "]"
}

func c03ShowLL[T comparable](cd c03Codec[T], ll [][]T) string {
	parts := make([]string, len(ll))
	for i, l := range ll {
		parts[i] = c03ShowList(cd, l)
	}
	return "[" + strings.Join(parts, ",") + "]"
}

func c03ShowPairs(keys, vals []string) string {
	idx := make([]int, len(keys))
	for i := range idx {
		idx[i] = i
	}
	sort.Slice(idx, func(a, b int) bool { return keys[idx[a]] < keys[idx[b]] })
	parts := make([]string, len(keys))
	for i, j := range idx {
		parts[i] = keys[j] + ":" + vals[j]
	}
	return "{" + strings.Join(parts, ",") + "}"
}

func c03SortedJoin(toks []string) string {
	sort.Strings(toks)
	return "[" + strings.Join(toks, ",") + "]"
}

func c03ShowBool(b bool) string {
	if b {
		return "true"
	}
	return "false"
}

// c03Inputs builds the inputs of one case and remembers a snapshot of each (slices up to cap, maps fully).
type c03Inputs[T comparable] struct {
	cd       c03Codec[T]
	checks   []func() bool
	backings map[string][]T      // shared backing arrays of `[…]#a:b` view operands, by backing text
	maps     map[string]map[T]int // shared map objects of `{…}#s` operands, by text
}

// view returns backing[a:b] of the backing array shared by every operand of this case with the same backing text.
func (in *c03Inputs[T]) view(tok string) []T {
	p := strings.SplitN(tok, "#", 2)
	bk := p[0]
	r := strings.SplitN(p[1], ":", 2)
	a, _ := strconv.Atoi(r[0])
	b, _ := strconv.Atoi(r[1])
	if in.backings == nil {
		in.backings = map[string][]T{}
	}
	backing, ok := in.backings[bk]
	if !ok {
		cells := c03Csv(bk[1 : len(bk)-1])
		backing = make([]T, len(cells))
		for i, t := range cells {
			backing[i] = in.cd.parse(t)
		}
		in.backings[bk] = backing
		snap := append([]T(nil), backing...)
		in.checks = append(in.checks, func() bool {
			for i := range snap {
				if backing[i] != snap[i] {
					return false
				}
			}
			return true
		})
	}
	return backing[a:b]
}

func (in *c03Inputs[T]) slice(tok string) []T {
	if tok == "nil" {
		return nil
	}
	if strings.Contains(tok, "#") {
		return in.view(tok)
	}
	inner := tok[1 : len(tok)-1]
	p := strings.SplitN(inner, "|", 2)
	vis := c03Csv(p[0])
	var hid []string
	if len(p) > 1 {
		hid = c03Csv(p[1])
	}
	backing := make([]T, len(vis)+len(hid))
	for i, t := range vis {
		backing[i] = in.cd.parse(t)
	}
	for i, t := range hid {
		backing[len(vis)+i] = in.cd.parse(t)
	}
	s := backing[:len(vis)]
	snap := append([]T(nil), backing...)
	in.checks = append(in.checks, func() bool {
		full := s[:cap(s)]
		if len(full) != len(snap) {
			return false
		}
		for i := range snap {
			if full[i] != snap[i] {
				return false
			}
		}
		return true
	})
	return s
}

func (in *c03Inputs[T]) mapOf(tok string) map[T]int {
	if strings.HasSuffix(tok, "#s") { // the very same map object for equal texts
		if m, ok := in.maps[tok]; ok {
			return m
		}
		m := in.mapOf(strings.TrimSuffix(tok, "#s"))
		if in.maps == nil {
			in.maps = map[string]map[T]int{}
		}
		in.maps[tok] = m
		return m
	}
	if tok == "nil" {
		return nil
	}
	m := map[T]int{}
	for _, kv := range c03Csv(tok[1 : len(tok)-1]) {
		p := strings.SplitN(kv, ":", 2)
		v, _ := strconv.Atoi(p[1])
		m[in.cd.parse(p[0])] = v
	}
	snap := make(map[T]int, len(m))
	for k, v := range m {
		snap[k] = v
	}
	in.checks = append(in.checks, func() bool {
		if len(m) != len(snap) {
			return false
		}
		for k, v := range snap {
			if w, ok := m[k]; !ok || w != v {
				return false
			}
		}
		return true
	})
	return m
}

func (in *c03Inputs[T]) unchanged() bool {
	for _, c := range in.checks {
		if !c() {
			return false
		}
	}
	return true
}

// c03ProbeSlice writes through a result that the doc comment calls "new": every cell, then an append into any
// spare capacity.  If an input snapshot changes, the result shares storage with the input.
func c03ProbeSlice[T comparable, E any](in *c03Inputs[T], res []E, out string) string {
	var zero E
	for i := range res {
		res[i] = zero
	}
	res = append(res, zero, zero, zero)
	_ = res
	if !in.unchanged() {
		in.checks = nil
		return out + " aliased"
	}
	return out
}

func c03ProbeMap[T comparable, K comparable, V any](in *c03Inputs[T], res map[K]V, out string, v V) string {
	var zero K
	if res != nil {
		res[zero] = v
		for k := range res {
			res[k] = v
		}
	}
	if !in.unchanged() {
		in.checks = nil
		return out + " aliased"
	}
	return out
}

func c03ShowMapInt[T comparable](cd c03Codec[T], m map[T]int) string {
	ks, vs := []string{}, []string{}
	for k, v := range m {
		ks = append(ks, cd.show(k))
		vs = append(vs, strconv.Itoa(v))
	}
	return c03ShowPairs(ks, vs)
}

func c03RunT[T comparable](cd c03Codec[T], helper string, a []string) string {
	in := &c03Inputs[T]{cd: cd}
	out := c03Call(in, cd, helper, a)
	if !in.unchanged() {
		out += " mutated"
	}
	return out
}

func c03Call[T comparable](in *c03Inputs[T], cd c03Codec[T], helper string, a []string) string {
	need := func(n int) bool { return len(a) == n }
	atoi := func(s string) int { v, _ := strconv.Atoi(s); return v }
	pred := func(tok string) fpgo.Predicate[T] {
		k, ok := c03FnIndex(tok)
		if !ok {
			return nil
		}
		return func(v T) bool { return c03PredFn(k, cd.ord(v)) }
	}
	predIdx := func(tok string) func(T, int) bool {
		k, _ := c03FnIndex(tok)
		return func(v T, i int) bool { return c03PredIdxFn(k, cd.ord(v), i) }
	}
	switch helper {
	case "Map":
		if need(2) {
			k, _ := c03FnIndex(a[0])
			return c03ShowList(c03Int, fpgo.Map(func(v T) int { return c03MapFn(k, cd.ord(v)) }, in.slice(a[1])...))
		}
	case "MapIndexed":
		if need(2) {
			k, _ := c03FnIndex(a[0])
			return c03ShowList(c03Int, fpgo.MapIndexed(func(v T, i int) int { return c03MapIdxFn(k, cd.ord(v), i) }, in.slice(a[1])...))
		}
	case "Filter":
		if need(2) {
			return c03ShowList(cd, fpgo.Filter(predIdx(a[0]), in.slice(a[1])...))
		}
	case "Reject":
		if need(2) {
			return c03ShowList(cd, fpgo.Reject(predIdx(a[0]), in.slice(a[1])...))
		}
	case "Reduce":
		if need(3) {
			k, _ := c03FnIndex(a[0])
			return strconv.Itoa(fpgo.Reduce(func(m int, v T) int { return c03ReduceFn(k, m, cd.ord(v)) }, atoi(a[1]), in.slice(a[2])...))
		}
	case "Concat":
		if len(a) >= 1 {
			mine := in.slice(a[0])
			var rest [][]T
			for _, t := range a[1:] {
				rest = append(rest, in.slice(t))
			}
			return c03ShowList(cd, fpgo.Concat(mine, rest...))
		}
	case "Flatten":
		var rest [][]T
		for _, t := range a {
			rest = append(rest, in.slice(t))
		}
		return c03ShowList(cd, fpgo.Flatten(rest...))
	case "Distinct":
		if need(1) {
			return c03ShowList(cd, fpgo.Distinct(in.slice(a[0])...))
		}
	case "Dedupe":
		if need(1) {
			res := fpgo.Dedupe(in.slice(a[0])...)
			return c03ProbeSlice(in, res, c03ShowList(cd, res))
		}
	case "DropEq":
		if need(2) {
			res := fpgo.DropEq(cd.parse(a[0]), in.slice(a[1])...)
			return c03ProbeSlice(in, res, c03ShowList(cd, res))
		}
	case "Drop":
		if need(2) {
			return c03ShowList(cd, fpgo.Drop(atoi(a[0]), in.slice(a[1])...))
		}
	case "DropLast":
		if need(2) {
			return c03ShowList(cd, fpgo.DropLast(atoi(a[0]), in.slice(a[1])...))
		}
	case "Take":
		if need(2) {
			return c03ShowList(cd, fpgo.Take(atoi(a[0]), in.slice(a[1])...))
		}
	case "TakeLast":
		if need(2) {
			return c03ShowList(cd, fpgo.TakeLast(atoi(a[0]), in.slice(a[1])...))
		}
	case "Tail":
		if need(1) {
			return c03ShowList(cd, fpgo.Tail(in.slice(a[0])...))
		}
	case "Head":
		if need(1) {
			return cd.show(fpgo.Head(in.slice(a[0])...))
		}
	case "DropWhile":
		if need(2) {
			res := fpgo.DropWhile(pred(a[0]), in.slice(a[1])...)
			return c03ProbeSlice(in, res, c03ShowList(cd, res))
		}
	case "Every":
		if need(2) {
			return c03ShowBool(fpgo.Every(pred(a[0]), in.slice(a[1])...))
		}
	case "Some":
		if need(2) {
			return c03ShowBool(fpgo.Some(pred(a[0]), in.slice(a[1])...))
		}
	case "Exists":
		if need(2) {
			return c03ShowBool(fpgo.Exists(cd.parse(a[0]), in.slice(a[1])...))
		}
	case "Partition":
		if need(2) {
			return c03ShowLL(cd, fpgo.Partition(pred(a[0]), in.slice(a[1])...))
		}
	case "Reverse":
		if need(1) {
			return c03ShowList(cd, fpgo.Reverse(in.slice(a[0])...))
		}
	case "Prepend":
		if need(2) {
			return c03ShowList(cd, fpgo.Prepend(cd.parse(a[0]), in.slice(a[1])))
		}
	case "SplitEvery":
		if need(2) {
			return c03ShowLL(cd, fpgo.SplitEvery(atoi(a[0]), in.slice(a[1])...))
		}
	case "GroupBy":
		if need(2) {
			k, _ := c03FnIndex(a[0])
			m := fpgo.GroupBy(func(v T) int { return c03KeyFn(k, cd.ord(v)) }, in.slice(a[1])...)
			ks, vs := []string{}, []string{}
			for key, l := range m {
				ks = append(ks, strconv.Itoa(key))
				vs = append(vs, c03ShowList(cd, l))
			}
			out := c03ShowPairs(ks, vs)
			for _, l := range m {
				out = c03ProbeSlice(in, l, out)
			}
			return out
		}
	case "UniqBy":
		if need(2) {
			k, _ := c03FnIndex(a[0])
			return c03ShowList(cd, fpgo.UniqBy(func(v T) int { return c03KeyFn(k, cd.ord(v)) }, in.slice(a[1])...))
		}
	case "Zip":
		if need(2) {
			m := fpgo.Zip(in.slice(a[0]), in.slice(a[1]))
			ks, vs := []string{}, []string{}
			for key, v := range m {
				ks = append(ks, cd.show(key))
				vs = append(vs, cd.show(v))
			}
			var zv T
			return c03ProbeMap(in, m, c03ShowPairs(ks, vs), zv)
		}
	case "Keys":
		if need(1) {
			toks := []string{}
			for _, k := range fpgo.Keys(in.mapOf(a[0])) {
				toks = append(toks, cd.show(k))
			}
			return c03SortedJoin(toks)
		}
	case "Values":
		if need(1) {
			toks := []string{}
			for _, v := range fpgo.Values(in.mapOf(a[0])) {
				toks = append(toks, strconv.Itoa(v))
			}
			return c03SortedJoin(toks)
		}
	case "Merge":
		if need(2) {
			res := fpgo.Merge(in.mapOf(a[0]), in.mapOf(a[1]))
			return c03ProbeMap(in, res, c03ShowMapInt(cd, res), -78)
		}
	case "IsEqual":
		if need(2) {
			return c03ShowBool(fpgo.IsEqual(in.slice(a[0]), in.slice(a[1])))
		}
	case "IsEqualMap":
		if need(2) {
			return c03ShowBool(fpgo.IsEqualMap(in.mapOf(a[0]), in.mapOf(a[1])))
		}
	case "IsDistinct":
		if need(1) {
			return c03ShowBool(fpgo.IsDistinct(in.slice(a[0])...))
		}
	case "SliceToMap":
		if need(2) {
			return c03ShowMapInt(cd, fpgo.SliceToMap(atoi(a[0]), in.slice(a[1])...))
		}
	case "DuplicateSlice":
		if need(1) {
			res := fpgo.DuplicateSlice(in.slice(a[0]))
			return c03ProbeSlice(in, res, c03ShowList(cd, res))
		}
	case "DuplicateMap":
		if need(1) {
			res := fpgo.DuplicateMap(in.mapOf(a[0]))
			return c03ProbeMap(in, res, c03ShowMapInt(cd, res), -78)
		}
	}
	return "bad-case"
}

// numeric helpers: int only
// numeric helpers at int, int64, uint64 and float64 (float tokens are integers k meaning k/2: every value used is
// exactly representable and the order / the arithmetic of Range are those of k, so the Int model is exact)
func c03RunNum[T fpgo.Numeric](cd c03Codec[T], helper string, a []string) string {
	in := &c03Inputs[T]{cd: cd}
	out := "bad-case"
	switch helper {
	case "Max":
		if len(a) == 1 {
			out = cd.show(fpgo.Max(in.slice(a[0])...))
		}
	case "Min":
		if len(a) == 1 {
			out = cd.show(fpgo.Min(in.slice(a[0])...))
		}
	case "MinMax":
		if len(a) == 1 {
			lo, hi := fpgo.MinMax(in.slice(a[0])...)
			out = "(" + cd.show(lo) + "," + cd.show(hi) + ")"
		}
	case "Range":
		if len(a) >= 2 {
			hops := []T{}
			for _, t := range a[2:] {
				hops = append(hops, cd.parse(t))
			}
			snap := append([]T(nil), hops...)
			out = c03ShowList(cd, fpgo.Range(cd.parse(a[0]), cd.parse(a[1]), hops...))
			for i := range snap {
				if hops[i] != snap[i] {
					out += " mutated"
					break
				}
			}
		}
	}
	if !in.unchanged() {
		out += " mutated"
	}
	return out
}

var c03I64 = c03Codec[int64]{
	parse: func(s string) int64 { v, _ := strconv.ParseInt(s, 10, 64); return v },
	show:  func(v int64) string { return strconv.FormatInt(v, 10) },
	ord:   func(v int64) int { return int(v) },
}
var c03U64 = c03Codec[uint64]{
	parse: func(s string) uint64 { v, _ := strconv.ParseUint(s, 10, 64); return v },
	show:  func(v uint64) string { return strconv.FormatUint(v, 10) },
	ord:   func(v uint64) int { return int(v) },
}

// float64 element token k (an integer) = the value k/2
var c03F64 = c03Codec[float64]{
	parse: func(s string) float64 { v, _ := strconv.ParseInt(s, 10, 64); return float64(v) / 2 },
	show:  func(v float64) string { return strconv.FormatInt(int64(v*2), 10) },
	ord:   func(v float64) int { return int(v * 2) },
}

func c03Run(line string) (out string) {
	defer func() {
		if r := recover(); r != nil {
			out = "panic"
		}
	}()
	f := strings.Fields(line)
	if len(f) < 2 {
		return "bad-case"
	}
	helper, ty, a := f[0], f[1], f[2:]
	switch helper {
	case "Max", "Min", "MinMax", "Range":
		switch ty {
		case "i":
			return c03RunNum(c03Int, helper, a)
		case "l":
			return c03RunNum(c03I64, helper, a)
		case "u":
			return c03RunNum(c03U64, helper, a)
		case "f":
			return c03RunNum(c03F64, helper, a)
		}
		return "bad-case"
	}
	switch ty {
	case "l":
		return c03RunT(c03I64, helper, a)
	case "u":
		return c03RunT(c03U64, helper, a)
	case "i":
		return c03RunT(c03Int, helper, a)
	case "s":
		return c03RunT(c03Str, helper, a)
	case "t":
		return c03RunT(c03St, helper, a)
	}
	return "bad-case"
}

// ---- generators

type c03Alpha struct {
	ty      string
	letters []string // visible alphabet
	hidden  []string // spare-capacity fillers, distinct from every letter
	extra   []string // further element values for the random part (zero value, a stranger)
}

var c03Alphas = []c03Alpha{
	{"i", []string{"1", "2", "3"}, []string{"8", "9"}, []string{"0", "-1", "4"}},
	{"s", []string{"~a", "~b", "~c"}, []string{"~y", "~z"}, []string{"~", "~ab"}},
	{"t", []string{"1~a", "2~b", "1~b"}, []string{"9~z", "8~y"}, []string{"0~", "2~a"}},
}
var c03NumAlpha = c03Alpha{"i", []string{"-2", "-1", "0", "3"}, []string{"8", "-9"}, []string{"7", "-5", "1"}}

func c03AllLists(letters []string, maxLen int) [][]string {
	res := [][]string{{}}
	level := [][]string{{}}
	for n := 1; n <= maxLen; n++ {
		var next [][]string
		for _, l := range level {
			for _, x := range letters {
				next = append(next, append(append([]string{}, l...), x))
			}
		}
		res = append(res, next...)
		level = next
	}
	return res
}

func c03Tok(vis, hid []string) string {
	if len(hid) == 0 {
		return "[" + strings.Join(vis, ",") + "]"
	}
	return "[" + strings.Join(vis, ",") + "|" + strings.Join(hid, ",") + "]"
}

// every storage variant of one list: exact capacity, two spare (hidden) cells; for the empty list also nil
func c03Variants(al c03Alpha, l []string) []string {
	v := []string{c03Tok(l, nil), c03Tok(l, al.hidden)}
	if len(l) == 0 {
		v = append(v, "nil")
	}
	return v
}

// all views backing[a:b], 0 <= a <= b <= n, of the shared backing array written as `bk`
func c03Views(bk string, n int) []string {
	var v []string
	for a := 0; a <= n; a++ {
		for b := a; b <= n; b++ {
			v = append(v, bk+"#"+strconv.Itoa(a)+":"+strconv.Itoa(b))
		}
	}
	return v
}

func c03MapTok(rng *rand.Rand, keys []string, vals []int) string {
	idx := rng.Perm(len(keys))
	parts := make([]string, len(keys))
	for i, j := range idx {
		parts[i] = keys[j] + ":" + strconv.Itoa(vals[j])
	}
	return "{" + strings.Join(parts, ",") + "}"
}

// all maps over the 3-letter key alphabet with values in {1,2} (27) + nil, each in a random binding order
func c03AllMaps(rng *rand.Rand, al c03Alpha) []string {
	res := []string{"nil"}
	n := len(al.letters)
	total := 1
	for i := 0; i < n; i++ {
		total *= 3
	}
	for code := 0; code < total; code++ {
		var ks []string
		var vs []int
		c := code
		for i := 0; i < n; i++ {
			if c%3 != 0 {
				ks = append(ks, al.letters[i])
				vs = append(vs, c%3)
			}
			c /= 3
		}
		res = append(res, c03MapTok(rng, ks, vs))
	}
	return res
}

func c03Gen(tier string, rng *rand.Rand, emit func(string)) map[string]interface{} {
	maxLen, pairLen, catLen, nRandom := 4, 3, 2, 60000
	if tier == "thorough" {
		maxLen, pairLen, catLen, nRandom = 5, 4, 3, 1500000
	}
	count := map[string]int{}
	out := func(helper, ty string, args ...string) {
		count[helper]++
		emit(helper + " " + ty + " " + strings.Join(args, " "))
	}
	fns := func(withNil bool) []string {
		r := []string{}
		for k := 0; k < c03FamilySize; k++ {
			r = append(r, "f"+strconv.Itoa(k))
		}
		if withNil {
			r = append(r, "fnil")
		}
		return r
	}
	itoa := strconv.Itoa
	exhaustive := 0
	aliased := 0
	aliasLen := 3
	if tier == "thorough" {
		aliasLen = 4
	}
	for _, al := range c03Alphas {
		lists := c03AllLists(al.letters, maxLen)
		for _, l := range lists {
			for _, tok := range c03Variants(al, l) {
				exhaustive++
				for _, h := range []string{"Distinct", "Dedupe", "IsDistinct", "Reverse", "Head", "Tail", "DuplicateSlice"} {
					out(h, al.ty, tok)
				}
				for _, h := range []string{"Drop", "DropLast", "Take", "TakeLast", "SplitEvery"} {
					for k := -3; k <= len(l)+3; k++ {
						out(h, al.ty, itoa(k), tok)
					}
				}
				for _, f := range fns(false) {
					for _, h := range []string{"Map", "MapIndexed", "Filter", "Reject", "Partition", "GroupBy", "UniqBy"} {
						out(h, al.ty, f, tok)
					}
					out("Reduce", al.ty, f, "0", tok)
					out("Reduce", al.ty, f, itoa(rng.Intn(9)-4), tok)
				}
				for _, f := range fns(true) {
					for _, h := range []string{"DropWhile", "Every", "Some"} {
						out(h, al.ty, f, tok)
					}
				}
				for _, x := range append(append([]string{}, al.letters...), al.hidden[0], al.extra[0]) {
					for _, h := range []string{"DropEq", "Exists", "Prepend"} {
						out(h, al.ty, x, tok)
					}
				}
				out("SliceToMap", al.ty, "0", tok)
				out("SliceToMap", al.ty, "7", tok)
			}
		}
		// pairs of lists
		short := c03AllLists(al.letters, pairLen)
		var shortToks []string
		for _, l := range short {
			shortToks = append(shortToks, c03Tok(l, nil))
		}
		shortToks = append(shortToks, "nil")
		for _, x := range shortToks {
			for _, y := range shortToks {
				out("IsEqual", al.ty, x, y)
				out("Zip", al.ty, x, y)
			}
		}
		// Concat / Flatten: up to three operands over lists of length ≤ catLen (+ nil, + a spare-capacity variant)
		var cat []string
		for _, l := range c03AllLists(al.letters, catLen) {
			cat = append(cat, c03Tok(l, nil))
		}
		cat = append(cat, "nil", c03Tok([]string{al.letters[0]}, al.hidden))
		out("Flatten", al.ty)
		for _, x := range cat {
			out("Concat", al.ty, x)
			out("Flatten", al.ty, x)
			for _, y := range cat {
				out("Concat", al.ty, x, y)
				out("Flatten", al.ty, x, y)
				for _, z := range cat {
					out("Concat", al.ty, x, y, z)
					out("Flatten", al.ty, x, y, z)
				}
			}
		}
		// ALIASED operands: every pair of views of ONE shared backing array (prefix views, overlapping views with
		// different starts, the very same slice twice, views with spare capacity that is the other operand's data)
		al2 := aliasLen
		if al.ty == "i" {
			al2 = aliasLen + 1
		}
		for _, l := range c03AllLists(al.letters, al2) {
			views := c03Views(c03Tok(l, nil), len(l))
			for _, x := range views {
				for _, y := range views {
					out("IsEqual", al.ty, x, y)
					out("Zip", al.ty, x, y)
					out("Concat", al.ty, x, y)
					out("Flatten", al.ty, x, y)
					aliased += 4
				}
				out("Concat", al.ty, x, x, x)
				out("Flatten", al.ty, x, x, x)
				out("Concat", al.ty, x, "nil", x)
				aliased += 3
			}
		}
		// maps
		maps := c03AllMaps(rng, al)
		for _, m := range maps {
			out("Merge", al.ty, m+"#s", m+"#s")
			out("IsEqualMap", al.ty, m+"#s", m+"#s")
			aliased += 2
		}
		for _, m := range maps {
			out("Keys", al.ty, m)
			out("Values", al.ty, m)
			out("DuplicateMap", al.ty, m)
		}
		for _, m1 := range maps {
			for _, m2 := range c03AllMaps(rng, al) {
				out("Merge", al.ty, m1, m2)
				out("IsEqualMap", al.ty, m1, m2)
			}
		}
	}
	// numeric
	for _, l := range c03AllLists(c03NumAlpha.letters, maxLen) {
		for _, tok := range c03Variants(c03NumAlpha, l) {
			out("Max", "i", tok)
			out("Min", "i", tok)
			out("MinMax", "i", tok)
		}
	}
	for lo := -3; lo <= 4; lo++ {
		for hi := -3; hi <= 4; hi++ {
			out("Range", "i", itoa(lo), itoa(hi))
			for hop := -3; hop <= 7; hop++ {
				out("Range", "i", itoa(lo), itoa(hi), itoa(hop))
			}
		}
	}
	// values at the extremes of the numeric types (the model's Int is unbounded, so expectations are exact):
	// around ±2^53 (where float64 stops being exact), 2^62, MaxInt64, MinInt64, MaxUint64; halves for float64
	extreme := 0
	outX := func(helper, ty string, args ...string) { extreme++; out(helper, ty, args...) }
	numAlphas := []c03Alpha{
		{"i", []string{"9007199254740992", "9007199254740993", "-9007199254740993", "4611686018427387904", "9223372036854775807", "-9223372036854775808", "0", "-1"}, []string{"8", "9"}, nil},
		{"l", []string{"9007199254740992", "9007199254740993", "-9007199254740993", "4611686018427387904", "9223372036854775807", "-9223372036854775808", "0", "-1"}, []string{"8", "9"}, nil},
		{"u", []string{"9007199254740992", "9007199254740993", "18446744073709551615", "18446744073709551614", "9223372036854775808", "0", "1"}, []string{"8", "9"}, nil},
		{"f", []string{"-3", "-1", "0", "1", "5", "6000000000000001", "-6000000000000001"}, []string{"8", "9"}, nil},
	}
	xLen := 3
	if tier == "thorough" {
		xLen = 4
	}
	for _, al := range numAlphas {
		for _, l := range c03AllLists(al.letters, xLen) {
			tok := c03Tok(l, nil)
			if len(l) == 2 {
				tok = c03Tok(l, al.hidden)
			}
			outX("Max", al.ty, tok)
			outX("Min", al.ty, tok)
			outX("MinMax", al.ty, tok)
		}
	}
	for _, ty := range []string{"i", "l", "u"} {
		for _, base := range []string{"9007199254740990", "4611686018427387902", "9223372036854775800"} {
			if ty == "u" && base == "9223372036854775800" {
				base = "9223372036854775000" // keep the model's 64-bit signed wrap out of play
			}
			b0, _ := strconv.ParseInt(base, 10, 64)
			for d := int64(0); d <= 4; d++ {
				for lo := b0; lo <= b0+3; lo++ {
					outX("Range", ty, strconv.FormatInt(lo, 10), strconv.FormatInt(lo+d, 10))
					for hop := int64(1); hop <= 3; hop++ {
						outX("Range", ty, strconv.FormatInt(lo, 10), strconv.FormatInt(lo+d, 10), strconv.FormatInt(hop, 10))
					}
				}
			}
		}
	}
	for lo := -3; lo <= 3; lo++ { // float64 Range in halves, explicit hop (the default hop 1.0 is 2 half-units)
		for hi := -3; hi <= 5; hi++ {
			for hop := -1; hop <= 4; hop++ {
				outX("Range", "f", itoa(lo), itoa(hi), itoa(hop))
			}
		}
	}
	// the comparable helpers at int64 / uint64 with extreme elements (equality, set membership, copying, + in Reduce)
	cmpAlphas := []c03Alpha{
		{"l", []string{"9007199254740992", "9007199254740993", "9223372036854775807", "-9223372036854775808"}, []string{"8", "9"}, nil},
		{"u", []string{"9007199254740992", "9007199254740993", "18446744073709551615", "18446744073709551614"}, []string{"8", "9"}, nil},
	}
	for _, al := range cmpAlphas {
		lists := c03AllLists(al.letters, 3)
		for _, l := range lists {
			tok := c03Tok(l, nil)
			for _, h := range []string{"Distinct", "Dedupe", "IsDistinct", "Reverse", "Head", "Tail", "DuplicateSlice"} {
				outX(h, al.ty, tok)
			}
			outX("UniqBy", al.ty, "f1", tok)
			outX("SliceToMap", al.ty, "7", tok)
			outX("Filter", al.ty, "f1", tok)
			outX("DropWhile", al.ty, "f1", tok)
			for _, x := range al.letters {
				outX("Exists", al.ty, x, tok)
				outX("DropEq", al.ty, x, tok)
				outX("Prepend", al.ty, x, tok)
			}
			for k := -1; k <= len(l)+1; k++ {
				outX("Drop", al.ty, itoa(k), tok)
				outX("TakeLast", al.ty, itoa(k), tok)
			}
		}
		short := c03AllLists(al.letters, 2)
		for _, x := range short {
			for _, y := range short {
				outX("IsEqual", al.ty, c03Tok(x, nil), c03Tok(y, nil))
				outX("Zip", al.ty, c03Tok(x, nil), c03Tok(y, nil))
				outX("Concat", al.ty, c03Tok(x, nil), c03Tok(y, nil))
			}
		}
	}
	// Reduce with + (f0) and max (f5) over int64 values beyond 2^53 (sums stay below 2^63)
	for _, l := range c03AllLists([]string{"9007199254740992", "9007199254740993", "-9007199254740993", "2305843009213693952"}, 3) {
		outX("Reduce", "l", "f0", "0", c03Tok(l, nil))
		outX("Reduce", "l", "f0", "1", c03Tok(l, nil))
		outX("Reduce", "l", "f5", "0", c03Tok(l, nil))
		outX("Reduce", "l", "f2", "0", c03Tok(l, nil))
	}
	structured := 0
	for _, c := range count {
		structured += c
	}
	// seeded random: longer lists over a wider alphabet (incl. the zero value), every helper
	randList := func(al c03Alpha, maxN int) ([]string, string) {
		n := rng.Intn(maxN + 1)
		pool := append(append([]string{}, al.letters...), al.extra...)
		if rng.Intn(3) == 0 {
			pool = pool[:2] // many duplicates
		}
		l := make([]string, n)
		for i := range l {
			if i > 0 && rng.Intn(4) == 0 {
				l[i] = l[i-1] // runs of equal neighbours
			} else {
				l[i] = pool[rng.Intn(len(pool))]
			}
		}
		switch rng.Intn(4) {
		case 0:
			return l, c03Tok(l, al.hidden)
		case 1:
			return l, c03Tok(l, al.hidden[:1])
		}
		if n == 0 && rng.Intn(2) == 0 {
			return l, "nil"
		}
		return l, c03Tok(l, nil)
	}
	randView := func(l []string) string {
		a := rng.Intn(len(l) + 1)
		b := a + rng.Intn(len(l)-a+1)
		if rng.Intn(3) == 0 {
			a = 0 // prefix views
		}
		return c03Tok(l, nil) + "#" + itoa(a) + ":" + itoa(b)
	}
	randMap := func(al c03Alpha) string {
		if rng.Intn(12) == 0 {
			return "nil"
		}
		pool := append(append([]string{}, al.letters...), al.extra...)
		var ks []string
		var vs []int
		for _, k := range pool {
			if rng.Intn(2) == 0 {
				ks = append(ks, k)
				vs = append(vs, rng.Intn(4))
			}
		}
		return c03MapTok(rng, ks, vs)
	}
	helpers := []string{"Map", "MapIndexed", "Filter", "Reject", "Reduce", "Concat", "Flatten", "Distinct", "Dedupe", "DropEq",
		"Drop", "DropLast", "DropWhile", "Take", "TakeLast", "Head", "Tail", "Reverse", "Prepend", "Partition", "SplitEvery",
		"GroupBy", "UniqBy", "Zip", "Range", "Keys", "Values", "Merge", "Min", "Max", "MinMax", "Every", "Some", "Exists",
		"IsEqual", "IsEqualMap", "IsDistinct", "SliceToMap", "DuplicateSlice", "DuplicateMap"}
	lenHist := map[string]int{}
	for i := 0; i < nRandom; i++ {
		h := helpers[rng.Intn(len(helpers))]
		al := c03Alphas[rng.Intn(len(c03Alphas))]
		l, tok := randList(al, 24)
		lenHist[fmt.Sprintf("len%02d-%02d", len(l)/5*5, len(l)/5*5+4)]++
		f := "f" + itoa(rng.Intn(c03FamilySize))
		k := itoa(rng.Intn(len(l)+7) - 3)
		pool := append(append(append([]string{}, al.letters...), al.extra...), al.hidden...)
		x := pool[rng.Intn(len(pool))]
		switch h {
		case "Map", "MapIndexed", "Filter", "Reject", "Partition", "GroupBy", "UniqBy":
			out(h, al.ty, f, tok)
		case "Reduce":
			out(h, al.ty, f, itoa(rng.Intn(21)-10), tok)
		case "DropWhile", "Every", "Some":
			if rng.Intn(10) == 0 {
				f = "fnil"
			}
			out(h, al.ty, f, tok)
		case "Concat", "Flatten":
			args := []string{}
			for j := rng.Intn(5); j > 0; j-- {
				_, t := randList(al, 6)
				args = append(args, t)
			}
			if h == "Concat" {
				args = append([]string{tok}, args...)
			}
			if rng.Intn(3) == 0 && len(l) > 0 { // operands that are views of one shared backing array
				for j := range args {
					if rng.Intn(2) == 0 {
						args[j] = randView(l)
					}
				}
				aliased++
			}
			out(h, al.ty, args...)
		case "Distinct", "Dedupe", "Head", "Tail", "Reverse", "IsDistinct", "DuplicateSlice":
			out(h, al.ty, tok)
		case "DropEq", "Exists", "Prepend":
			out(h, al.ty, x, tok)
		case "Drop", "DropLast", "Take", "TakeLast", "SplitEvery":
			out(h, al.ty, k, tok)
		case "Zip", "IsEqual":
			_, t2 := randList(al, 24)
			switch rng.Intn(4) {
			case 0: // equal contents, different storage
				t2 = c03Tok(l, nil)
			case 1: // two views of one shared backing array
				tok, t2 = randView(l), randView(l)
				aliased++
			}
			out(h, al.ty, tok, t2)
		case "Range":
			lo, hi := rng.Intn(41)-20, rng.Intn(41)-20
			if rng.Intn(3) == 0 {
				out(h, "i", itoa(lo), itoa(hi))
			} else {
				out(h, "i", itoa(lo), itoa(hi), itoa(rng.Intn(12)-3))
			}
		case "Keys", "Values", "DuplicateMap":
			out(h, al.ty, randMap(al))
		case "Merge", "IsEqualMap":
			m1 := randMap(al)
			m2 := randMap(al)
			switch rng.Intn(4) {
			case 0:
				m2 = m1
			case 1: // the very same map object twice
				if m1 != "nil" {
					m1 += "#s"
					m2 = m1
					aliased++
				}
			}
			out(h, al.ty, m1, m2)
		case "Min", "Max", "MinMax":
			_, t := randList(c03NumAlpha, 24)
			out(h, "i", t)
		case "SliceToMap":
			out(h, al.ty, itoa(rng.Intn(5)), tok)
		}
	}
	return map[string]interface{}{
		"exhaustive": false,
		"exhaustive_scope": fmt.Sprintf("all lists over a 3-letter alphabet up to length %d for int/string/struct x {exact cap, 2 hidden cells, nil}; "+
			"all counts in [-3,len+3]; all %d members of each function family (+nil predicate); all pairs of lists up to length %d; "+
			"all maps over 3 keys x 2 values (+nil) and all pairs of them; Range lo,hi in [-3,4] x hop in {none,-3..7}; "+
			"ALIASED operands: all pairs of views backing[a:b] of one shared array (lists up to length %d, int %d) for IsEqual/Zip/Concat/Flatten, "+
			"same slice thrice, same map object twice for Merge/IsEqualMap", maxLen, c03FamilySize, pairLen, aliasLen, aliasLen+1),
		"aliased_operand_cases": aliased, "numeric_extreme_cases": extreme,
		"list_storage_variants": exhaustive, "structured_cases": structured, "random_cases": nRandom,
		"random_list_lengths": lenHist, "per_helper": count,
	}
}

func init() { register("C03", &Prop{Gen: c03Gen, Run: c03Run, CaseTimeout: 5 * time.Second}) }
