package main

// C12 — Handler / Actor mailboxes: serial, exactly once, per-sender order; spawn trees; after-Close dropping.
//
// Case lines (see lean/FpgoVerif/Model/C12.lean for the grammar and the model's semantics):
//   sched k=H|A ctor=new|ch cap=<k> n=<n> gate=0|1: op ; op ; ...     directed schedule (park points)
//   stress k=H|A ctor=.. cap=<k> n=<n> m=<m> jit=0|1 close=0|1 seed=<s>         free running + monitors
//   tree: new <cap> ; spawn <p> ; close <a> ; send <a> ; parent <c> ; child <p> <c> ; closed <a>
//
// The harness runs its own mini-simulation of the schedule next to the real code to know what to expect after each op; the
// expectation is used only to know what to wait for (a positive event: up to 2 s; "still blocked": 100 ms).
// What is printed is always what was actually observed.

import (
	"fmt"
	"math/rand"
	"sort"
	"strconv"
	"strings"
	"sync"
	"sync/atomic"
	"time"

	fpgo "github.com/TeaEntityLab/fpGo/v2"
)

type c12Msg struct{ sender, seq int }

// ---------------------------------------------------------------------------------------------
// a mailbox under test: Handler or Actor behind one interface

type c12Box struct {
	kind    string
	h       *fpgo.HandlerDef
	a       *fpgo.ActorDef[c12Msg]
	body    func(i, seq int)
	selfBad int32
}

func c12NewBox(kind, ctor string, capacity int, body func(i, seq int)) *c12Box {
	b := &c12Box{kind: kind, body: body}
	if kind == "H" {
		var proto fpgo.HandlerDef
		if ctor == "new" && capacity == 0 {
			b.h = proto.New()
		} else {
			b.h = proto.NewByCh(make(chan func(), capacity))
		}
		return b
	}
	effect := func(self *fpgo.ActorDef[c12Msg], m c12Msg) {
		if self != b.a {
			atomic.AddInt32(&b.selfBad, 1)
		}
		b.body(m.sender, m.seq)
	}
	var proto fpgo.ActorDef[c12Msg]
	switch {
	case ctor == "new" && capacity == 0:
		b.a = proto.New(effect)
	case ctor == "gen" && capacity == 0:
		b.a = fpgo.ActorNewGenerics(effect)
	case ctor == "opt":
		b.a = proto.NewByOptions(effect, make(chan c12Msg, capacity), map[string]interface{}{})
	default:
		b.a = fpgo.ActorNewByOptionsGenerics(effect, make(chan c12Msg, capacity), map[string]interface{}{})
	}
	// the effect may run before b.a is assigned only if a message is sent before this returns: it is not
	return b
}

func (b *c12Box) post(i, seq int) {
	if b.kind == "H" {
		b.h.Post(func() { b.body(i, seq) })
	} else {
		b.a.Send(c12Msg{i, seq})
	}
}
func (b *c12Box) close() {
	if b.kind == "H" {
		b.h.Close()
	} else {
		b.a.Close()
	}
}
func (b *c12Box) points() (check, flag string) {
	if b.kind == "H" {
		return "handler.post.afterClosedCheck", "handler.close.afterFlag"
	}
	return "actor.send.afterClosedCheck", "actor.close.afterFlag"
}

func c12KV(toks []string, key string) string {
	for _, t := range toks {
		if strings.HasPrefix(t, key+"=") {
			return t[len(key)+1:]
		}
	}
	return ""
}
func c12KVInt(toks []string, key string) int { v, _ := strconv.Atoi(c12KV(toks, key)); return v }

func c12ThreadDone(t *Thread) (string, bool) {
	if t == nil {
		return "", true
	}
	select {
	case r := <-t.done:
		t.done <- r
		return r, true
	default:
		return "", false
	}
}

// ---------------------------------------------------------------------------------------------
// mini-simulation used by the generator to attach hints (mirrors Model/C12.lean `doOp`/`settle`)

type c12Sim struct {
	cap, n         int
	gate           bool
	permits        int
	st             []byte
	waitQ          []int
	closer         byte
	flag, chClosed bool
	exited         bool
	ch             []c12Msg
	running        []c12Msg
	done           []c12Msg
	cur            []*c12Msg
	next           []int
}

func c12NewSim(capacity, n int, gate bool) *c12Sim {
	s := &c12Sim{cap: capacity, n: n, gate: gate, closer: '-'}
	s.st = []byte(strings.Repeat("r", n))
	s.cur = make([]*c12Msg, n)
	s.next = make([]int, n)
	return s
}
func (s *c12Sim) idle() bool { return len(s.running) == 0 && !s.exited }
func (s *c12Sim) trySend(i int) bool {
	m := s.cur[i]
	if m == nil {
		return false
	}
	switch {
	case s.chClosed:
	case len(s.ch) < s.cap:
		s.ch = append(s.ch, *m)
	case s.cap == 0 && len(s.ch) == 0 && s.idle():
		s.running = []c12Msg{*m}
	default:
		return false
	}
	s.cur[i] = nil
	return true
}
func (s *c12Sim) settle() {
	for {
		switch {
		case len(s.running) > 0 && (!s.gate || s.permits > 0):
			s.done = append(s.done, s.running[0])
			s.running = s.running[1:]
			if s.gate {
				s.permits--
			}
		case s.idle() && len(s.ch) > 0:
			s.running = []c12Msg{s.ch[0]}
			s.ch = s.ch[1:]
		case len(s.waitQ) > 0 && s.trySend(s.waitQ[0]):
			s.st[s.waitQ[0]] = 'r'
			s.waitQ = s.waitQ[1:]
		case s.chClosed && len(s.ch) == 0 && s.idle():
			s.exited = true
		default:
			return
		}
	}
}
func (s *c12Sim) check(i int) bool { // returns true if the message passed the closed-check
	m := c12Msg{i, s.next[i]}
	s.next[i]++
	if s.flag {
		return false
	}
	s.cur[i] = &m
	return true
}

// op applies one op; effective reports whether it was not ignored
func (s *c12Sim) op(tok string) (effective bool) {
	i := 0
	if len(tok) > 1 {
		i, _ = strconv.Atoi(tok[1:])
	}
	switch tok[0] {
	case 'p':
		if i < s.n && s.st[i] == 'r' {
			effective = true
			if s.check(i) {
				s.st[i] = 'b'
				s.waitQ = append(s.waitQ, i)
			}
		}
	case 'k':
		if i < s.n && s.st[i] == 'r' {
			effective = true
			if s.check(i) {
				s.st[i] = 'p'
			}
		}
	case 's':
		if i < s.n && s.st[i] == 'p' {
			effective = true
			s.st[i] = 'b'
			s.waitQ = append(s.waitQ, i)
		}
	case 'c':
		if s.closer == '-' {
			effective = true
			s.flag, s.chClosed, s.closer = true, true, 'r'
		}
	case 'g':
		if s.closer == '-' {
			effective = true
			s.flag, s.closer = true, 'p'
		}
	case 'h':
		if s.closer == 'p' {
			effective = true
			s.chClosed, s.closer = true, 'r'
		}
	case 'f':
		effective = s.gate
		s.permits++
	case 'F':
		effective = s.gate
		s.gate = false
	}
	s.settle()
	return
}
func (s *c12Sim) status() string {
	return fmt.Sprintf("S%dF%d/%s%c", len(s.done)+len(s.running), len(s.done), string(s.st), s.closer)
}

// ---------------------------------------------------------------------------------------------
// directed schedules

var c12Deviations int32 // schedules steps (in this process) whose observed status was not the expected one

func c12RunSched(line string) string {
	head, body := line, ""
	if k := strings.Index(line, ": "); k >= 0 {
		head, body = line[:k], line[k+2:]
	}
	toks := strings.Fields(head)
	kind, ctor := c12KV(toks, "k"), c12KV(toks, "ctor")
	capacity, n, gate := c12KVInt(toks, "cap"), c12KVInt(toks, "n"), c12KVInt(toks, "gate") == 1

	var started, finished, running, maxOv, pan int32
	var mu sync.Mutex
	var log []c12Msg
	permits := make(chan struct{}, 4096)
	gateOpen := make(chan struct{})
	gateIsOpen := false
	openGate := func() {
		if !gateIsOpen {
			gateIsOpen = true
			close(gateOpen)
		}
	}
	if !gate {
		openGate()
	}
	bodyFn := func(i, seq int) {
		atomic.AddInt32(&started, 1)
		r := atomic.AddInt32(&running, 1)
		for {
			m := atomic.LoadInt32(&maxOv)
			if r <= m || atomic.CompareAndSwapInt32(&maxOv, m, r) {
				break
			}
		}
		select {
		case <-gateOpen:
		case <-permits:
		}
		mu.Lock()
		log = append(log, c12Msg{i, seq})
		mu.Unlock()
		atomic.AddInt32(&running, -1)
		atomic.AddInt32(&finished, 1)
	}
	box := c12NewBox(kind, ctor, capacity, bodyFn)
	pCheck, pFlag := box.points()
	ctl := NewCtl()
	senders := make([]*Thread, n)
	next := make([]int, n)
	var closer *Thread
	closerStarted := false
	collected := map[*Thread]bool{}
	collect := func(t *Thread) { // count a panic that escaped from a finished thread, once
		if r, ok := c12ThreadDone(t); ok && t != nil && !collected[t] {
			collected[t] = true
			if r != "ok" {
				atomic.AddInt32(&pan, 1)
			}
		}
	}
	senderState := func(i int) byte {
		if _, ok := c12ThreadDone(senders[i]); ok {
			collect(senders[i])
			return 'r'
		}
		if ctl.WaitAt("s"+strconv.Itoa(i), pCheck, 0) {
			return 'p'
		}
		return 'b'
	}
	closerState := func() byte {
		if !closerStarted {
			return '-'
		}
		if _, ok := c12ThreadDone(closer); ok {
			collect(closer)
			return 'r'
		}
		if ctl.WaitAt("c", pFlag, 0) {
			return 'p'
		}
		return 'b'
	}
	status := func() string {
		// read finished before started so that S >= F in every snapshot
		f := atomic.LoadInt32(&finished)
		s := atomic.LoadInt32(&started)
		var sb strings.Builder
		fmt.Fprintf(&sb, "S%dF%d/", s, f)
		for i := 0; i < n; i++ {
			sb.WriteByte(senderState(i))
		}
		sb.WriteByte(closerState())
		return sb.String()
	}
	await := func(hint string, own int) string { // own: index of the status char of the op's own thread, -1 if none
		if hint == "" {
			time.Sleep(60 * time.Millisecond)
			return status()
		}
		patience := 2500 * time.Millisecond
		if atomic.LoadInt32(&c12Deviations) >= 3 {
			patience = 300 * time.Millisecond // the real code has left the expected path repeatedly: stop being patient
		}
		deadline := time.Now().Add(patience)
		for {
			cur := status()
			if cur == hint {
				k := strings.IndexByte(hint, '/')
				if own >= 0 && k >= 0 && k+1+own < len(hint) && hint[k+1+own] == 'b' {
					if strings.Count(hint[k+1:k+1+n], "b") > 1 {
						time.Sleep(200 * time.Millisecond) // two blocked senders: the order in which they queued matters later
					}
					time.Sleep(100 * time.Millisecond) // "still blocked" must be stable
					return status()
				}
				return cur
			}
			if time.Now().After(deadline) {
				return cur
			}
			time.Sleep(100 * time.Microsecond)
		}
	}
	var outs []string
	sim := c12NewSim(capacity, n, gate) // the harness's own expectation of what to wait for (never printed)
	deviated := false
	for _, raw := range strings.Split(body, ";") {
		raw = strings.TrimSpace(raw)
		if raw == "" {
			continue
		}
		tok := raw
		if k := strings.Index(raw, "@"); k >= 0 {
			tok = raw[:k]
		}
		sim.op(tok)
		hint := sim.status()
		if deviated {
			hint = "" // expectations are void once the real code left the expected path: fixed settle time
		}
		i := 0
		if len(tok) > 1 {
			i, _ = strconv.Atoi(tok[1:])
		}
		own := -1
		switch tok[0] {
		case 'p', 'k':
			if i < n && senderState(i) == 'r' {
				name := "s" + strconv.Itoa(i)
				if tok[0] == 'k' {
					ctl.ParkAt(name, pCheck)
				}
				seq := next[i]
				next[i]++
				senders[i] = ctl.Go(name, func() { box.post(i, seq) })
				own = i
			}
		case 's':
			if i < n && senderState(i) == 'p' {
				ctl.Release("s"+strconv.Itoa(i), pCheck)
				own = i
			}
		case 'c', 'g':
			if !closerStarted {
				closerStarted = true
				if tok[0] == 'g' {
					ctl.ParkAt("c", pFlag)
				}
				closer = ctl.Go("c", func() { box.close() })
			}
		case 'h':
			if closerStarted && closerState() == 'p' {
				ctl.Release("c", pFlag)
			}
		case 'f':
			permits <- struct{}{}
		case 'F':
			openGate()
		}
		got := await(hint, own)
		if hint != "" && got != hint {
			deviated = true
			atomic.AddInt32(&c12Deviations, 1)
		}
		outs = append(outs, got)
		// a `k` whose Post returned without reaching the park point leaves its rule behind: drop it
		if tok[0] == 'k' && i < n {
			if _, ok := c12ThreadDone(senders[i]); ok {
				ctl.Unpark("s"+strconv.Itoa(i), pCheck)
			}
		}
	}
	// final snapshot: what the last op settled to must be stable
	time.Sleep(40 * time.Millisecond)
	final := status()
	mu.Lock()
	per := make([][]string, n)
	for _, m := range log {
		if m.sender >= 0 && m.sender < n {
			per[m.sender] = append(per[m.sender], strconv.Itoa(m.seq))
		}
	}
	mu.Unlock()
	parts := make([]string, n)
	for i := range per {
		parts[i] = strconv.Itoa(i) + ":" + strings.Join(per[i], ",")
	}
	self := "ok"
	if atomic.LoadInt32(&box.selfBad) != 0 {
		self = "bad"
	}
	outs = append(outs, fmt.Sprintf("end %s log=%s ov=%d pan=%d self=%s", final, strings.Join(parts, "/"),
		atomic.LoadInt32(&maxOv), atomic.LoadInt32(&pan), self))
	// cleanup: release everything, let every function finish, stop the consumer
	ctl.Uninstall()
	openGate()
	cleanupDeadline := time.Now().Add(1500 * time.Millisecond)
	for _, t := range senders {
		if t != nil {
			t.Wait(time.Until(cleanupDeadline))
		}
	}
	if closerStarted {
		closer.Wait(time.Until(cleanupDeadline) + 100*time.Millisecond)
	} else {
		func() { defer func() { recover() }(); box.close() }()
	}
	return strings.Join(outs, " | ")
}

// ---------------------------------------------------------------------------------------------
// stress

func c12RunStress(line string) string {
	toks := strings.Fields(line)
	kind, ctor := c12KV(toks, "k"), c12KV(toks, "ctor")
	capacity, n, m := c12KVInt(toks, "cap"), c12KVInt(toks, "n"), c12KVInt(toks, "m")
	jit, withClose := c12KVInt(toks, "jit") == 1, c12KVInt(toks, "close") == 1
	seed := int64(c12KVInt(toks, "seed"))
	const late = 3
	counts := make([][]int32, n)
	lastSeq := make([]int32, n)
	for i := range counts {
		counts[i] = make([]int32, m+late)
		lastSeq[i] = -1
	}
	var running, delivered int32
	var violMu sync.Mutex
	viol := ""
	setViol := func(s string) {
		violMu.Lock()
		if viol == "" {
			viol = s
		}
		violMu.Unlock()
	}
	jrng := rand.New(rand.NewSource(seed))
	var jmu sync.Mutex
	jitter := func() {
		if !jit {
			return
		}
		jmu.Lock()
		r := jrng.Intn(16)
		jmu.Unlock()
		switch {
		case r < 8:
		case r < 13:
			for k := 0; k < r; k++ {
				time.Now()
			}
		case r < 15:
			time.Sleep(time.Microsecond)
		default:
			time.Sleep(20 * time.Microsecond)
		}
	}
	body := func(i, seq int) {
		if r := atomic.AddInt32(&running, 1); r > 1 {
			setViol(fmt.Sprintf("overlap %d functions running at once", r))
		}
		jitter()
		if i < 0 || i >= n || seq < 0 || seq >= m+late {
			setViol(fmt.Sprintf("phantom message %d/%d", i, seq))
		} else {
			if c := atomic.AddInt32(&counts[i][seq], 1); c > 1 {
				setViol(fmt.Sprintf("duplicate message %d/%d ran %d times", i, seq, c))
			}
			if prev := atomic.SwapInt32(&lastSeq[i], int32(seq)); int32(seq) <= prev {
				setViol(fmt.Sprintf("order sender %d: %d ran after %d", i, seq, prev))
			}
		}
		atomic.AddInt32(&running, -1)
		atomic.AddInt32(&delivered, 1)
	}
	box := c12NewBox(kind, ctor, capacity, body)
	var ctl *Ctl
	if jit {
		ctl = NewCtl()
		drng := rand.New(rand.NewSource(seed + 1))
		var dmu sync.Mutex
		ctl.SetDelay(func(thread, point string) time.Duration {
			dmu.Lock()
			r := drng.Intn(20)
			dmu.Unlock()
			if r == 0 {
				return 10 * time.Microsecond
			}
			return 0
		})
		defer ctl.Uninstall()
	}
	var closeStarted int32
	mustHave := make([]int32, n)
	var wg sync.WaitGroup
	for i := 0; i < n; i++ {
		wg.Add(1)
		go func(i int) {
			defer wg.Done()
			defer func() {
				if r := recover(); r != nil {
					setViol(fmt.Sprint("panic escaped from Post/Send: ", r))
				}
			}()
			for seq := 0; seq < m; seq++ {
				box.post(i, seq)
				if atomic.LoadInt32(&closeStarted) == 0 {
					atomic.StoreInt32(&mustHave[i], int32(seq+1))
				}
			}
		}(i)
	}
	closeDone := make(chan struct{})
	if withClose {
		threshold := int32(rand.New(rand.NewSource(seed+2)).Intn(n*m + 1))
		go func() {
			defer close(closeDone)
			defer func() {
				if r := recover(); r != nil {
					setViol(fmt.Sprint("panic escaped from Close: ", r))
				}
			}()
			deadline := time.Now().Add(2 * time.Second)
			for atomic.LoadInt32(&delivered) < threshold && time.Now().Before(deadline) {
				time.Sleep(5 * time.Microsecond)
			}
			atomic.StoreInt32(&closeStarted, 1)
			box.close()
		}()
	}
	done := make(chan struct{})
	go func() { wg.Wait(); close(done) }()
	select {
	case <-done:
	case <-time.After(c13StressPatience(20 * time.Second)):
		atomic.AddInt32(&c13StressViols, 1)
		return "viol deadlock senders still blocked"
	}
	if !withClose {
		deadline := time.Now().Add(c13StressPatience(20 * time.Second))
		for atomic.LoadInt32(&delivered) < int32(n*m) && time.Now().Before(deadline) && viol == "" {
			time.Sleep(50 * time.Microsecond)
		}
		d := atomic.LoadInt32(&delivered)
		func() { defer func() { recover() }(); box.close() }()
		if viol != "" {
			return "viol " + viol
		}
		if d != int32(n*m) {
			atomic.AddInt32(&c13StressViols, 1)
			return fmt.Sprintf("viol lost delivered=%d of %d", d, n*m)
		}
		if atomic.LoadInt32(&box.selfBad) != 0 {
			return "viol self effect received another actor"
		}
		return fmt.Sprintf("ok delivered=%d", d)
	}
	select {
	case <-closeDone:
	case <-time.After(c13StressPatience(20 * time.Second)):
		atomic.AddInt32(&c13StressViols, 1)
		return "viol deadlock Close did not return"
	}
	// every message whose Post returned before Close began must run
	deadline := time.Now().Add(c13StressPatience(10 * time.Second))
	for {
		ok := true
		for i := 0; i < n; i++ {
			for q := 0; q < int(atomic.LoadInt32(&mustHave[i])); q++ {
				if atomic.LoadInt32(&counts[i][q]) == 0 {
					ok = false
				}
			}
		}
		if ok || time.Now().After(deadline) {
			if !ok {
				setViol("lost a message whose Post/Send returned before Close began never ran")
			}
			break
		}
		time.Sleep(100 * time.Microsecond)
	}
	// work submitted after Close returned is dropped without running
	func() {
		defer func() {
			if r := recover(); r != nil {
				setViol(fmt.Sprint("panic escaped from Post/Send after Close: ", r))
			}
		}()
		for q := 0; q < late; q++ {
			box.post(0, m+q)
		}
	}()
	time.Sleep(15 * time.Millisecond)
	for q := 0; q < late; q++ {
		if atomic.LoadInt32(&counts[0][m+q]) != 0 {
			setViol("afterclose a message submitted after Close returned was run")
		}
	}
	if atomic.LoadInt32(&box.selfBad) != 0 {
		setViol("self effect received another actor")
	}
	if viol != "" {
		return "viol " + viol
	}
	return "ok closed"
}


// ---------------------------------------------------------------------------------------------
// fresh objects: the very first posts on a just-constructed Handler/Actor race each other

func c12RunFresh(line string) string {
	toks := strings.Fields(line)
	kind, ctor := c12KV(toks, "k"), c12KV(toks, "ctor")
	capacity, posters, m, rounds := c12KVInt(toks, "cap"), c12KVInt(toks, "posters"), c12KVInt(toks, "m"), c12KVInt(toks, "rounds")
	for round := 0; round < rounds; round++ {
		counts := make([][]int32, posters)
		lastSeq := make([]int32, posters)
		for i := range counts {
			counts[i] = make([]int32, m)
			lastSeq[i] = -1
		}
		var running, delivered int32
		var violMu sync.Mutex
		viol := ""
		setViol := func(s string) {
			violMu.Lock()
			if viol == "" {
				viol = s
			}
			violMu.Unlock()
		}
		body := func(i, seq int) {
			if r := atomic.AddInt32(&running, 1); r > 1 {
				setViol(fmt.Sprintf("overlap %d functions running at once on a fresh mailbox", r))
			}
			for k := 0; k < 40; k++ { // stay "running" for a moment
				atomic.LoadInt32(&delivered)
			}
			if i < 0 || i >= posters || seq < 0 || seq >= m {
				setViol(fmt.Sprintf("phantom message %d/%d", i, seq))
			} else {
				if c := atomic.AddInt32(&counts[i][seq], 1); c > 1 {
					setViol(fmt.Sprintf("duplicate message %d/%d ran %d times", i, seq, c))
				}
				if prev := atomic.SwapInt32(&lastSeq[i], int32(seq)); int32(seq) <= prev {
					setViol(fmt.Sprintf("order sender %d: %d ran after %d", i, seq, prev))
				}
			}
			atomic.AddInt32(&running, -1)
			atomic.AddInt32(&delivered, 1)
		}
		box := c12NewBox(kind, ctor, capacity, body)
		var ready int32
		var wg sync.WaitGroup
		for i := 0; i < posters; i++ {
			wg.Add(1)
			go func(i int) {
				defer wg.Done()
				defer func() {
					if r := recover(); r != nil {
						setViol(fmt.Sprint("panic escaped from Post/Send: ", r))
					}
				}()
				atomic.AddInt32(&ready, 1)
				for spin := 0; atomic.LoadInt32(&ready) < int32(posters); spin++ { // spin barrier: all first posts at once
					if spin > 2000 {
						time.Sleep(time.Microsecond)
					}
				}
				for seq := 0; seq < m; seq++ {
					box.post(i, seq)
				}
			}(i)
		}
		done := make(chan struct{})
		go func() { wg.Wait(); close(done) }()
		select {
		case <-done:
		case <-time.After(c13StressPatience(20 * time.Second)):
			atomic.AddInt32(&c13StressViols, 1)
			return fmt.Sprintf("viol deadlock round %d: posters still blocked", round)
		}
		deadline := time.Now().Add(c13StressPatience(20 * time.Second))
		for atomic.LoadInt32(&delivered) < int32(posters*m) && time.Now().Before(deadline) && viol == "" {
			time.Sleep(20 * time.Microsecond)
		}
		d := atomic.LoadInt32(&delivered)
		func() { defer func() { recover() }(); box.close() }()
		if viol == "" && d != int32(posters*m) {
			viol = fmt.Sprintf("lost delivered=%d of %d", d, posters*m)
		}
		if viol == "" && atomic.LoadInt32(&box.selfBad) != 0 {
			viol = "self effect received another actor"
		}
		if viol != "" {
			atomic.AddInt32(&c13StressViols, 1)
			return fmt.Sprintf("viol %s (round %d)", viol, round)
		}
	}
	return fmt.Sprintf("ok rounds=%d", rounds)
}


// ---------------------------------------------------------------------------------------------
// messages that are Ask objects: the mailbox guarantees are the same whatever the message type

func c12RunAskMsg(line string) string {
	toks := strings.Fields(line)
	capacity, n, m := c12KVInt(toks, "cap"), c12KVInt(toks, "n"), c12KVInt(toks, "m")
	counts := make([][]int32, n)
	lastSeq := make([]int32, n)
	for i := range counts {
		counts[i] = make([]int32, m)
		lastSeq[i] = -1
	}
	var running, delivered, selfBad int32
	var violMu sync.Mutex
	viol := ""
	setViol := func(s string) {
		violMu.Lock()
		if viol == "" {
			viol = s
		}
		violMu.Unlock()
	}
	var actor *fpgo.ActorDef[interface{}]
	effect := func(self *fpgo.ActorDef[interface{}], msg interface{}) {
		if r := atomic.AddInt32(&running, 1); r > 1 {
			setViol(fmt.Sprintf("overlap %d effects running at once on one actor", r))
		}
		if self != actor {
			atomic.AddInt32(&selfBad, 1)
		}
		var i, seq int
		var ask *fpgo.AskDef[int, int]
		switch x := msg.(type) {
		case c12Msg:
			i, seq = x.sender, x.seq
		case *fpgo.AskDef[int, int]:
			ask = x
			i, seq = x.Message/100000, x.Message%100000
		default:
			setViol("phantom message of an unknown type")
		}
		time.Sleep(30 * time.Microsecond) // a slow effect: a second one started meanwhile would be seen
		if i < 0 || i >= n || seq < 0 || seq >= m {
			setViol(fmt.Sprintf("phantom message %d/%d", i, seq))
		} else {
			if c := atomic.AddInt32(&counts[i][seq], 1); c > 1 {
				setViol(fmt.Sprintf("duplicate message %d/%d ran %d times", i, seq, c))
			}
			if prev := atomic.SwapInt32(&lastSeq[i], int32(seq)); int32(seq) <= prev {
				setViol(fmt.Sprintf("order sender %d: %d ran after %d", i, seq, prev))
			}
		}
		atomic.AddInt32(&running, -1)
		atomic.AddInt32(&delivered, 1)
		if ask != nil {
			func() {
				defer func() {
					if r := recover(); r != nil {
						setViol(fmt.Sprint("panic in Reply: ", r))
					}
				}()
				ask.Reply(ask.Message*3 + 1)
			}()
		}
	}
	var proto fpgo.ActorDef[interface{}]
	if capacity == 0 {
		actor = proto.New(effect)
	} else {
		actor = proto.NewByOptions(effect, make(chan interface{}, capacity), map[string]interface{}{})
	}
	var wg sync.WaitGroup
	for i := 0; i < n; i++ {
		wg.Add(1)
		go func(i int) {
			defer wg.Done()
			defer func() {
				if r := recover(); r != nil {
					setViol(fmt.Sprint("panic escaped from Send/AskChannel: ", r))
				}
			}()
			type pending struct {
				p  int
				ch chan int
			}
			var waitFor []pending
			for seq := 0; seq < m; seq++ {
				if (i+seq)%3 == 0 { // a plain message now and then, in the same per-sender sequence
					actor.Send(c12Msg{i, seq})
					continue
				}
				p := i*100000 + seq
				var ask *fpgo.AskDef[int, int]
				if seq%2 == 0 {
					ask = fpgo.AskNewByOptionsGenerics[int, int](p, make(chan int, 1))
				} else {
					var ap fpgo.AskDef[int, int]
					ask = ap.NewByOptions(p, make(chan int, 1))
				}
				waitFor = append(waitFor, pending{p, ask.AskChannel(actor)}) // buffered reply: several requests in flight
			}
			for _, w := range waitFor {
				select {
				case v := <-w.ch:
					if v != w.p*3+1 {
						setViol(fmt.Sprintf("misrouted reply %d for request %d", v, w.p))
					}
				case <-time.After(c13StressPatience(10 * time.Second)):
					setViol(fmt.Sprintf("lost reply for request %d", w.p))
					return
				}
			}
		}(i)
	}
	done := make(chan struct{})
	go func() { wg.Wait(); close(done) }()
	select {
	case <-done:
	case <-time.After(c13StressPatience(30 * time.Second)):
		atomic.AddInt32(&c13StressViols, 1)
		return "viol deadlock senders still blocked"
	}
	deadline := time.Now().Add(c13StressPatience(10 * time.Second))
	for atomic.LoadInt32(&delivered) < int32(n*m) && time.Now().Before(deadline) && viol == "" {
		time.Sleep(50 * time.Microsecond)
	}
	d := atomic.LoadInt32(&delivered)
	func() { defer func() { recover() }(); actor.Close() }()
	if viol == "" && d != int32(n*m) {
		viol = fmt.Sprintf("lost delivered=%d of %d", d, n*m)
	}
	if viol == "" && atomic.LoadInt32(&selfBad) != 0 {
		viol = "self effect received another actor"
	}
	if viol != "" {
		atomic.AddInt32(&c13StressViols, 1)
		return "viol " + viol
	}
	return fmt.Sprintf("ok delivered=%d", d)
}


// ---------------------------------------------------------------------------------------------
// nil messages (untyped nil, typed nil pointer) are messages like any other

// c12NilKind: what sender i submits at position seq: 'N' untyped nil (typed nil for a pointer actor), 'P' typed nil
// pointer, 'v' an ordinary message
func c12NilKind(i, seq int) byte {
	switch (i*7 + seq) % 4 {
	case 0:
		return 'N'
	case 1:
		return 'P'
	}
	return 'v'
}

func c12RunNilMsg(line string) string {
	toks := strings.Fields(line)
	typ, capacity, n, m := c12KV(toks, "t"), c12KVInt(toks, "cap"), c12KVInt(toks, "n"), c12KVInt(toks, "m")
	var mu sync.Mutex
	var log []string // "N", "P" or "<i>/<seq>" in the order the effect saw them
	var running, delivered, overlap int32
	record := func(tok string) {
		if r := atomic.AddInt32(&running, 1); r > 1 {
			atomic.StoreInt32(&overlap, r)
		}
		mu.Lock()
		log = append(log, tok)
		mu.Unlock()
		atomic.AddInt32(&running, -1)
		atomic.AddInt32(&delivered, 1)
	}
	var send func(i, seq int)
	var closeIt func()
	selfBad := int32(0)
	if typ == "P" {
		var actor *fpgo.ActorDef[*c12Msg]
		effect := func(self *fpgo.ActorDef[*c12Msg], msg *c12Msg) {
			if self != actor {
				atomic.AddInt32(&selfBad, 1)
			}
			if msg == nil {
				record("P")
			} else {
				record(fmt.Sprintf("%d/%d", msg.sender, msg.seq))
			}
		}
		if capacity == 0 {
			actor = fpgo.ActorNewGenerics(effect)
		} else {
			actor = fpgo.ActorNewByOptionsGenerics(effect, make(chan *c12Msg, capacity), map[string]interface{}{})
		}
		send = func(i, seq int) {
			if c12NilKind(i, seq) == 'v' {
				actor.Send(&c12Msg{i, seq})
			} else {
				actor.Send(nil)
			}
		}
		closeIt = func() { actor.Close() }
	} else {
		var actor *fpgo.ActorDef[interface{}]
		effect := func(self *fpgo.ActorDef[interface{}], msg interface{}) {
			if self != actor {
				atomic.AddInt32(&selfBad, 1)
			}
			switch x := msg.(type) {
			case nil:
				record("N")
			case *c12Msg:
				if x == nil {
					record("P")
				} else {
					record(fmt.Sprintf("%d/%d", x.sender, x.seq))
				}
			case c12Msg:
				record(fmt.Sprintf("%d/%d", x.sender, x.seq))
			default:
				record("?")
			}
		}
		var proto fpgo.ActorDef[interface{}]
		if capacity == 0 {
			actor = proto.New(effect)
		} else {
			actor = proto.NewByOptions(effect, make(chan interface{}, capacity), map[string]interface{}{})
		}
		send = func(i, seq int) {
			switch c12NilKind(i, seq) {
			case 'N':
				actor.Send(nil)
			case 'P':
				actor.Send((*c12Msg)(nil))
			default:
				if seq%2 == 0 {
					actor.Send(c12Msg{i, seq})
				} else {
					actor.Send(&c12Msg{i, seq})
				}
			}
		}
		closeIt = func() { actor.Close() }
	}
	expect := func(i, seq int) string {
		k := c12NilKind(i, seq)
		if k == 'v' {
			return fmt.Sprintf("%d/%d", i, seq)
		}
		if typ == "P" {
			return "P"
		}
		return string(k)
	}
	var wg sync.WaitGroup
	panicked := int32(0)
	for i := 0; i < n; i++ {
		wg.Add(1)
		go func(i int) {
			defer wg.Done()
			defer func() {
				if r := recover(); r != nil {
					atomic.AddInt32(&panicked, 1)
				}
			}()
			for seq := 0; seq < m; seq++ {
				send(i, seq)
			}
		}(i)
	}
	done := make(chan struct{})
	go func() { wg.Wait(); close(done) }()
	select {
	case <-done:
	case <-time.After(c13StressPatience(20 * time.Second)):
		atomic.AddInt32(&c13StressViols, 1)
		return "viol deadlock senders still blocked"
	}
	deadline := time.Now().Add(c13StressPatience(5 * time.Second))
	for atomic.LoadInt32(&delivered) < int32(n*m) && time.Now().Before(deadline) {
		time.Sleep(50 * time.Microsecond)
	}
	time.Sleep(2 * time.Millisecond) // anything delivered twice would show up now
	func() { defer func() { recover() }(); closeIt() }()
	mu.Lock()
	got := append([]string{}, log...)
	mu.Unlock()
	viol := ""
	want := map[string]int{}
	for i := 0; i < n; i++ {
		for seq := 0; seq < m; seq++ {
			want[expect(i, seq)]++
		}
	}
	have := map[string]int{}
	last := make([]int, n)
	for i := range last {
		last[i] = -1
	}
	for _, tok := range got {
		have[tok]++
		var i, seq int
		if k, _ := fmt.Sscanf(tok, "%d/%d", &i, &seq); k == 2 && i >= 0 && i < n {
			if seq <= last[i] {
				viol = fmt.Sprintf("order sender %d: %d ran after %d", i, seq, last[i])
			}
			last[i] = seq
		}
	}
	switch {
	case atomic.LoadInt32(&panicked) != 0:
		viol = "panic escaped from Send"
	case atomic.LoadInt32(&overlap) > 1:
		viol = "overlap two effects at once"
	case atomic.LoadInt32(&selfBad) != 0:
		viol = "self effect received another actor"
	case viol != "":
	default:
		for tok, w := range want {
			if have[tok] < w {
				viol = fmt.Sprintf("lost message %s ran %d times, submitted %d times (delivered=%d of %d)", tok, have[tok], w, len(got), n*m)
				break
			}
		}
		for tok, h := range have {
			if viol == "" && h > want[tok] {
				viol = fmt.Sprintf("duplicate or phantom message %s ran %d times, submitted %d times", tok, h, want[tok])
			}
		}
		if viol == "" && n == 1 { // one sender: the effect must have seen exactly its sequence, nils in their places
			for seq := 0; seq < m; seq++ {
				if got[seq] != expect(0, seq) {
					viol = fmt.Sprintf("order position %d is %s, submitted %s", seq, got[seq], expect(0, seq))
					break
				}
			}
		}
	}
	if viol != "" {
		atomic.AddInt32(&c13StressViols, 1)
		return "viol " + viol
	}
	return fmt.Sprintf("ok delivered=%d", len(got))
}

// ---------------------------------------------------------------------------------------------
// spawn trees

type c12Node struct {
	a    *fpgo.ActorDef[c12Msg]
	ran  int32
	bad  int32
	shut bool
}

func c12RunTree(line string) string {
	body := line
	if k := strings.Index(line, ": "); k >= 0 {
		body = line[k+2:]
	}
	var nodes []*c12Node
	mk := func(ctor func(effect func(*fpgo.ActorDef[c12Msg], c12Msg)) *fpgo.ActorDef[c12Msg]) *c12Node {
		nd := &c12Node{}
		ready := make(chan struct{})
		nd.a = ctor(func(self *fpgo.ActorDef[c12Msg], m c12Msg) {
			<-ready
			if self != nd.a {
				atomic.AddInt32(&nd.bad, 1)
			}
			atomic.AddInt32(&nd.ran, 1)
		})
		close(ready)
		nodes = append(nodes, nd)
		time.Sleep(time.Microsecond) // actor ids are time.Now(): keep them distinct (assumption of the model)
		return nd
	}
	idOf := func(a *fpgo.ActorDef[c12Msg]) string {
		if a == nil {
			return "-"
		}
		for i, nd := range nodes {
			if nd.a == a {
				return "a" + strconv.Itoa(i)
			}
		}
		return "a?"
	}
	var outs []string
	var proto fpgo.ActorDef[c12Msg]
	arg := func(f []string, k int) int {
		if k < len(f) {
			v, err := strconv.Atoi(f[k])
			if err == nil {
				return v
			}
		}
		return -1
	}
	for _, raw := range strings.Split(body, ";") {
		f := strings.Fields(raw)
		if len(f) == 0 {
			continue
		}
		out := "bad"
		x, y := arg(f, 1), arg(f, 2)
		valid := func(v int) bool { return v >= 0 && v < len(nodes) }
		switch {
		case f[0] == "new" && len(f) == 2:
			nd := mk(func(e func(*fpgo.ActorDef[c12Msg], c12Msg)) *fpgo.ActorDef[c12Msg] {
				if x == 0 {
					return proto.New(e)
				}
				return proto.NewByOptions(e, make(chan c12Msg, x), map[string]interface{}{})
			})
			out = idOf(nd.a)
		case f[0] == "spawn" && len(f) == 2 && valid(x):
			p := nodes[x]
			nd := mk(func(e func(*fpgo.ActorDef[c12Msg], c12Msg)) *fpgo.ActorDef[c12Msg] { return p.a.Spawn(e) })
			kid := "n"
			if p.a.GetChild(nd.a.GetID()) == nd.a {
				kid = "y"
			}
			out = fmt.Sprintf("%s par=%s kid=%s", idOf(nd.a), idOf(nd.a.GetParent()), kid)
		case f[0] == "close" && len(f) == 2:
			if valid(x) && !nodes[x].shut {
				nodes[x].shut = true
				nodes[x].a.Close()
				out = "ok"
			} else {
				out = "nop"
			}
		case f[0] == "send" && len(f) == 2:
			if !valid(x) {
				out = "ran 0"
				break
			}
			nd := nodes[x]
			before := atomic.LoadInt32(&nd.ran)
			// Send in its own goroutine: a Send that never returns must cost seconds, not the per-case deadline
			sent := make(chan struct{})
			go func() {
				defer close(sent)
				defer func() { recover() }()
				nd.a.Send(c12Msg{0, int(before)})
			}()
			patience := 2 * time.Second
			if atomic.LoadInt32(&c12Deviations) >= 2 {
				patience = 300 * time.Millisecond
			}
			select {
			case <-sent:
			case <-time.After(patience):
				atomic.AddInt32(&c12Deviations, 1)
				out = "send-blocked"
				outs = append(outs, out)
				continue
			}
			if !nd.shut {
				deadline := time.Now().Add(patience)
				for atomic.LoadInt32(&nd.ran) == before && time.Now().Before(deadline) {
					time.Sleep(20 * time.Microsecond)
				}
				if atomic.LoadInt32(&nd.ran) == before {
					atomic.AddInt32(&c12Deviations, 1)
				}
			}
			out = "ran " + strconv.Itoa(int(atomic.LoadInt32(&nd.ran)))
		case f[0] == "parent" && len(f) == 2:
			out = "-"
			if valid(x) {
				out = idOf(nodes[x].a.GetParent())
			}
		case f[0] == "child" && len(f) == 3:
			out = "n"
			if valid(x) && valid(y) && nodes[x].a.GetChild(nodes[y].a.GetID()) == nodes[y].a {
				out = "y"
			}
		case f[0] == "closed" && len(f) == 2:
			out = "n"
			if valid(x) && nodes[x].a.IsClosed() {
				out = "y"
			}
		}
		outs = append(outs, out)
	}
	time.Sleep(10 * time.Millisecond)
	rans := make([]string, len(nodes))
	self := "ok"
	for i, nd := range nodes {
		rans[i] = strconv.Itoa(int(atomic.LoadInt32(&nd.ran)))
		if atomic.LoadInt32(&nd.bad) != 0 {
			self = "bad"
		}
	}
	outs = append(outs, fmt.Sprintf("end ran=%s self=%s", strings.Join(rans, " "), self))
	for _, nd := range nodes {
		if !nd.shut {
			func() { defer func() { recover() }(); nd.a.Close() }()
		}
	}
	return strings.Join(outs, " | ")
}

func c12Run(line string) string {
	switch {
	case strings.HasPrefix(line, "sched "):
		return c12RunSched(line)
	case strings.HasPrefix(line, "stress "):
		return c12RunStress(line)
	case strings.HasPrefix(line, "fresh "):
		return c12RunFresh(line)
	case strings.HasPrefix(line, "askmsg "):
		return c12RunAskMsg(line)
	case strings.HasPrefix(line, "nilmsg "):
		return c12RunNilMsg(line)
	case strings.HasPrefix(line, "tree"):
		return c12RunTree(line)
	}
	return "bad-case"
}

// ---------------------------------------------------------------------------------------------
// generator

// c12Hinted renders a schedule with hints and appends the drain (release everything, open the gate, one
// post after Close) so that every schedule ends quiescent.
func c12Hinted(kind, ctor string, capacity, n int, gate bool, ops []string) string {
	sim := c12NewSim(capacity, n, gate)
	var parts []string
	apply := func(op string) {
		sim.op(op)
		parts = append(parts, op)
	}
	for _, op := range ops {
		apply(op)
	}
	for i := 0; i < n; i++ {
		if sim.st[i] == 'p' {
			apply("s" + strconv.Itoa(i))
		}
	}
	if sim.closer == 'p' {
		apply("h")
	}
	if sim.gate {
		apply("F")
	}
	if sim.closer == 'r' {
		for i := 0; i < n; i++ {
			if sim.st[i] == 'r' {
				apply("p" + strconv.Itoa(i))
				break
			}
		}
	}
	g := 0
	if gate {
		g = 1
	}
	return fmt.Sprintf("sched k=%s ctor=%s cap=%d n=%d gate=%d: %s", kind, ctor, capacity, n, g, strings.Join(parts, " ; "))
}

// all op sequences up to maxLen in which every op is effective (not ignored), by DFS over the simulation
func c12Effective(capacity, n int, gate bool, maxLen int, alphabet []string, emit func(ops []string)) {
	var rec func(prefix []string)
	rec = func(prefix []string) {
		if len(prefix) > 0 {
			emit(append([]string{}, prefix...))
		}
		if len(prefix) == maxLen {
			return
		}
		for _, a := range alphabet {
			sim := c12NewSim(capacity, n, gate)
			for _, p := range prefix {
				sim.op(p)
			}
			if sim.op(a) {
				rec(append(append([]string{}, prefix...), a))
			}
		}
	}
	rec(nil)
}

func c12Alphabet(n int, gate bool) []string {
	var al []string
	for i := 0; i < n; i++ {
		al = append(al, "p"+strconv.Itoa(i), "k"+strconv.Itoa(i), "s"+strconv.Itoa(i))
	}
	al = append(al, "c", "g", "h")
	if gate {
		al = append(al, "f")
	}
	return al
}

func c12Gen(tier string, rng *rand.Rand, emit func(string)) map[string]interface{} {
	thorough := tier == "thorough"
	stats := map[string]interface{}{}
	kinds := []string{"H", "A"}
	ctorFor := func(kind string, capacity int) string {
		if kind == "H" {
			if capacity == 0 && rng.Intn(2) == 0 {
				return "new"
			}
			return "ch"
		}
		if capacity == 0 {
			return []string{"new", "gen", "opt", "optgen"}[rng.Intn(4)]
		}
		return []string{"opt", "optgen"}[rng.Intn(2)]
	}
	nSched := 0
	// (1) the close window, every interleaving of Post's two atoms with Close's two atoms, on an idle and on a
	//     busy consumer, with an empty and a full buffer
	windows := [][]string{
		{"k0", "s0", "g", "h"}, {"k0", "g", "s0", "h"}, {"k0", "g", "h", "s0"},
		{"g", "k0", "s0", "h"}, {"g", "k0", "h", "s0"}, {"g", "h", "k0", "s0"},
		{"k0", "c", "s0"}, {"p0", "c", "p0"}, {"g", "p0", "h", "p0"},
	}
	for _, kind := range kinds {
		for _, capacity := range []int{0, 1, 2} {
			for _, pre := range [][]string{{}, {"p1"}, {"p1", "p1"}, {"p1", "p1", "p1", "p1"}} {
				for _, w := range windows {
					gate := len(pre) > 0
					if !thorough && rng.Intn(3) != 0 && len(pre) > 1 {
						continue
					}
					emit(c12Hinted(kind, ctorFor(kind, capacity), capacity, 2, gate, append(append([]string{}, pre...), w...)))
					nSched++
				}
			}
		}
	}
	stats["window_schedules"] = nSched
	// (2) bounded exhaustive: every sequence of effective ops up to a length bound, small scopes
	type scope struct {
		n, maxLen int
		gate      bool
	}
	scopes := []scope{{1, 4, true}, {2, 3, true}, {1, 4, false}}
	budget := 190 // how many of the enumerated sequences are run (seeded sample); the enumeration itself is complete
	if thorough {
		scopes = []scope{{1, 5, true}, {2, 4, true}, {1, 5, false}, {2, 3, false}}
		budget = 1500
	}
	type exh struct {
		capacity int
		sc       scope
		ops      []string
	}
	var all []exh
	for _, sc := range scopes {
		for _, capacity := range []int{0, 1, 2} {
			sc := sc
			capacity := capacity
			c12Effective(capacity, sc.n, sc.gate, sc.maxLen, c12Alphabet(sc.n, sc.gate), func(ops []string) {
				all = append(all, exh{capacity, sc, ops})
			})
		}
	}
	nExh := 0
	for k, e := range all {
		// keep with probability budget/len(all), decided by the seeded rng
		if len(all) > budget && rng.Intn(len(all)) >= budget {
			continue
		}
		_ = k
		kind := kinds[rng.Intn(2)]
		emit(c12Hinted(kind, ctorFor(kind, e.capacity), e.capacity, e.sc.n, e.sc.gate, e.ops))
		nExh++
	}
	stats["exhaustive_scope"] = fmt.Sprintf("%v x cap 0..2, effective op sequences; %d of %d emitted", scopes, nExh, len(all))
	stats["exhaustive"] = nExh == len(all)
	// (3) random longer schedules, up to 4 senders
	nRand := 40
	if thorough {
		nRand = 400
	}
	for r := 0; r < nRand; r++ {
		n := 1 + rng.Intn(4)
		capacity := []int{0, 0, 1, 2, 3, 8}[rng.Intn(6)]
		gate := rng.Intn(3) != 0
		al := c12Alphabet(n, gate)
		var ops []string
		for len(ops) < 4+rng.Intn(12) {
			a := al[rng.Intn(len(al))]
			if (a == "c" || a == "g") && rng.Intn(3) != 0 {
				continue
			}
			t := c12NewSim(capacity, n, gate)
			for _, p := range ops {
				t.op(p)
			}
			if t.op(a) {
				ops = append(ops, a)
			} else if rng.Intn(8) == 0 {
				ops = append(ops, a) // now and then an ignored op, both sides must ignore it
			}
		}
		kind := kinds[rng.Intn(2)]
		emit(c12Hinted(kind, ctorFor(kind, capacity), capacity, n, gate, ops))
	}
	stats["random_schedules"] = nRand
	// (4) stress: 1..16 senders, capacities 0/1/8, with and without jitter / a racing Close
	nStress := 0
	ms := 60
	reps := 1
	if thorough {
		ms, reps = 300, 4
	}
	for rep := 0; rep < reps; rep++ {
		for _, kind := range kinds {
			for _, capacity := range []int{0, 1, 8} {
				for _, n := range []int{1, 2, 4, 16} {
					for _, cl := range []int{0, 1} {
						if !thorough && n == 2 && cl == 1 {
							continue
						}
						emit(fmt.Sprintf("stress k=%s ctor=%s cap=%d n=%d m=%d jit=%d close=%d seed=%d", kind, ctorFor(kind, capacity),
							capacity, n, ms/2+rng.Intn(ms), rng.Intn(2), cl, rng.Intn(1000000)))
						nStress++
					}
				}
			}
		}
	}
	stats["stress_cases"] = nStress
	// (4b) fresh objects: k posters released by a barrier make the very first posts on a just-constructed mailbox
	nFresh := 0
	freshRounds := 150
	if thorough {
		freshRounds = 1500
	}
	for _, kind := range kinds {
		for _, capacity := range []int{0, 1, 8} {
			for _, posters := range []int{2, 8} {
				emit(fmt.Sprintf("fresh k=%s ctor=%s cap=%d posters=%d m=%d rounds=%d seed=%d", kind, ctorFor(kind, capacity),
					capacity, posters, 1+rng.Intn(4), freshRounds, rng.Intn(1000000)))
				nFresh++
			}
		}
	}
	stats["fresh_cases"] = nFresh
	// (4c) Ask objects as messages (sent through AskChannel, several in flight per sender) next to plain ones
	nAskMsg := 0
	for _, capacity := range []int{0, 4} {
		for _, n := range []int{1, 4} {
			mm := 12 + rng.Intn(12)
			if thorough {
				mm *= 5
			}
			emit(fmt.Sprintf("askmsg cap=%d n=%d m=%d seed=%d", capacity, n, mm, rng.Intn(1000000)))
			nAskMsg++
		}
	}
	stats["askmsg_cases"] = nAskMsg
	// (4d) nil messages (untyped nil, typed nil pointer) inside the per-sender sequences
	nNil := 0
	for _, typ := range []string{"I", "P"} {
		for _, capacity := range []int{0, 4} {
			for _, n := range []int{1, 4} {
				mm := 8 + rng.Intn(24)
				if thorough {
					mm *= 8
				}
				emit(fmt.Sprintf("nilmsg t=%s cap=%d n=%d m=%d seed=%d", typ, capacity, n, mm, rng.Intn(1000000)))
				nNil++
			}
		}
	}
	stats["nilmsg_cases"] = nNil
	// (5) spawn trees: sequential histories
	nTree := 120
	if thorough {
		nTree = 1000
	}
	for r := 0; r < nTree; r++ {
		var ops []string
		count := 0
		for len(ops) < 3+rng.Intn(14) {
			x := rng.Intn(100)
			pick := func() int { return rng.Intn(count) }
			switch {
			case count == 0 || x < 10:
				ops = append(ops, "new "+strconv.Itoa([]int{0, 0, 1, 4}[rng.Intn(4)]))
				count++
			case x < 40:
				ops = append(ops, "spawn "+strconv.Itoa(pick()))
				count++
			case x < 52:
				ops = append(ops, "close "+strconv.Itoa(pick()))
			case x < 72:
				ops = append(ops, "send "+strconv.Itoa(pick()))
			case x < 82:
				ops = append(ops, "parent "+strconv.Itoa(pick()))
			case x < 94:
				ops = append(ops, fmt.Sprintf("child %d %d", pick(), pick()))
			default:
				ops = append(ops, "closed "+strconv.Itoa(pick()))
			}
		}
		emit("tree: " + strings.Join(ops, " ; "))
	}
	stats["tree_cases"] = nTree
	_ = sort.Strings
	return stats
}

func init() { register("C12", &Prop{Gen: c12Gen, Run: c12Run, CaseTimeout: 90 * time.Second}) }
