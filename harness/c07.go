package main

// C07 — ChannelQueue / BufferedChannelQueue: bounded, FIFO, exactly-once delivery, nothing stranded.
//
// Case lines (shared with lean/FpgoVerif/Model/C07.lean):
//
//	chq cap=K: step ; …        ChannelQueue's own wrappers, sequential:
//	     o:v Offer   w:v PutWithTimeout   U:v Put (only when it cannot block)   p Poll   t TakeWithTimeout
//	     T Take (only when it cannot block)   x close
//	sched c=C b=B: step ; …    BufferedChannelQueue with the loader goroutine held at its park points
//	     (bcq.loader.afterClosedCheck = token taken, before Lock;  bcq.loader.polled = between pool.Poll() and the
//	     channel try-send, lock held).  The driving thread performs
//	     o:v Offer (started asynchronously while the loader holds the lock: "pending", joined when the pass ends)
//	     p Poll   t TakeWithTimeout   T Take (only when the channel is non-empty)   r non-blocking receive on GetChannel()   n Count
//	     B a consumer thread calls Take() on the empty channel and blocks; it is joined (" take=ok v") by the step that
//	       makes a value available (an Offer into the channel, the loader's try-send)
//	     L let the loader take the lock and reach its first pool.Poll() ("polled") or finish ("pass-done")
//	     S let the loader try-send the polled value: "moved polled" | "moved pass-done" | "unshift pass-done"
//	     After every finished pass a token is posted (GetChannel) and the loader is awaited at afterClosedCheck.
//	chqstress cap=K p=P k=C n=N mode=block|try|tmo|mix seed=S        ChannelQueue alone, free-running (see c07ChqStress)
//	stress c=C b=B p=P k=K n=N mode=poll|take|chan|takeb seed=S     free-running producers/consumers/loader with monitors
//	     observation: ok accepted=P*N delivered=P*N  (c ≥ 1)  |  ok safe  (c = 0: stranding is legitimate)  |  viol <kind> …

import (
	"fmt"
	"os"
	"path/filepath"
	"math/rand"
	"runtime"
	"strconv"
	"strings"
	"sync"
	"sync/atomic"
	"time"

	fpgo "github.com/TeaEntityLab/fpGo/v2"
)

const (
	c07PtWoke   = "bcq.loader.afterClosedCheck"
	c07PtPolled = "bcq.loader.polled"
)

// c07ReleaseKeep releases the goroutine parked under thread@point but keeps the rule, so that the next
// arrival parks again (Ctl.Release would drop the rule and open a window).
func c07ReleaseKeep(c *Ctl, thread, point string) bool {
	key := thread + "@" + point
	c.mu.Lock()
	ch, ok := c.parked[key]
	delete(c.parked, key)
	c.mu.Unlock()
	if ok {
		close(ch)
	}
	return ok
}

func c07ShowErr(err error) string {
	switch err {
	case nil:
		return "nil"
	case fpgo.ErrQueueIsFull:
		return "full"
	case fpgo.ErrQueueIsEmpty:
		return "empty"
	case fpgo.ErrQueueIsClosed:
		return "closed"
	case fpgo.ErrQueueTakeTimeout, fpgo.ErrQueuePutTimeout:
		return "timeout"
	}
	return "err-other"
}

func c07ShowVal(v int, err error) string {
	if err != nil {
		return c07ShowErr(err)
	}
	return "ok " + strconv.Itoa(v)
}

func c07Arg(tok string) int {
	if i := strings.Index(tok, ":"); i >= 0 {
		v, _ := strconv.Atoi(tok[i+1:])
		return v
	}
	return 0
}

// ---- ChannelQueue wrappers ----

func c07Chq(capacity int, steps []string) string {
	ch := fpgo.NewChannelQueue[int](capacity)
	closed := false
	outs := make([]string, 0, len(steps))
	one := func(tok string) (out string) {
		defer func() {
			if r := recover(); r != nil {
				out = "panic"
			}
		}()
		switch {
		case strings.HasPrefix(tok, "o:"):
			if closed {
				return "skip"
			}
			return c07ShowErr(ch.Offer(c07Arg(tok)))
		case strings.HasPrefix(tok, "w:"):
			if closed {
				return "skip"
			}
			// the timeout branch is expected only when the send cannot proceed; when it can, a long timeout keeps a
			// descheduled thread (timer already expired when the select is finally evaluated) from flipping the result
			d := 30 * time.Millisecond
			if len(ch) < cap(ch) {
				d = c07LongTimeout
			}
			return c07ShowErr(ch.PutWithTimeout(c07Arg(tok), d))
		case strings.HasPrefix(tok, "U:"):
			if closed || len(ch) >= cap(ch) {
				return "skip"
			}
			return c07ShowErr(ch.Put(c07Arg(tok)))
		case tok == "p":
			return c07ShowVal(ch.Poll())
		case tok == "t":
			d := 30 * time.Millisecond
			if len(ch) > 0 || closed {
				d = c07LongTimeout
			}
			return c07ShowVal(ch.TakeWithTimeout(d))
		case tok == "T":
			if len(ch) == 0 && !closed {
				return "skip"
			}
			return c07ShowVal(ch.Take())
		case tok == "x":
			if closed {
				return "skip"
			}
			close(ch)
			closed = true
			return "nil"
		}
		return "bad-op"
	}
	for _, t := range steps {
		outs = append(outs, one(t))
	}
	return strings.Join(outs, " | ")
}

// ---- directed schedules ----

type c07Sched struct {
	ctl      *Ctl
	q        *fpgo.BufferedChannelQueue[int]
	handle   chan int
	lstate   int // 0 waiting, 1 woke, 2 inpass
	passLeft int
	pending  *Thread
	pendRes  *error
	taker    *Thread // a consumer blocked in Take()
	takeVal  *int
	takeErr  *error
	broken   bool
}

// joinTaker waits for the consumer blocked in Take() (a value has just been made available to it).
func (m *c07Sched) joinTaker() string {
	r := m.taker.Wait(c07WaitDur())
	defer func() { m.taker = nil }()
	switch {
	case r == "blocked":
		c07NoteLost()
		return " take=blocked"
	case r != "ok":
		return " take=panic"
	}
	return " take=" + c07ShowVal(*m.takeVal, *m.takeErr)
}

// c07Lost counts "the loader never arrived" / "stranded" events in this process.  The first ones are awaited
// generously (a loaded machine must not cause a false alarm); once the code under test has shown itself broken
// three times the remaining cases of the run use short waits so that a failing run still ends in reasonable time.
var c07Lost int32

// Shrinking and replaying run every candidate in a NEW harness process, which would start again with the generous
// waits.  Once three loss events have been seen, a marker file is left next to the harness binary — only inside the
// per-run directory `.build/run-<prop>-<pid>/` that the check deletes at its end — and later processes of the same
// check run start with the short waits.
func c07MarkerPath() string {
	exe, err := os.Executable()
	if err != nil || !strings.HasPrefix(filepath.Base(filepath.Dir(exe)), "run-") {
		return ""
	}
	return filepath.Join(filepath.Dir(exe), "c07-broken.marker")
}

func c07NoteLost() {
	if atomic.AddInt32(&c07Lost, 1) == 3 {
		if p := c07MarkerPath(); p != "" {
			os.WriteFile(p, []byte("three loss events seen in this check run\n"), 0o644)
		}
	}
}

func init() {
	if p := c07MarkerPath(); p != "" {
		if _, err := os.Stat(p); err == nil {
			atomic.StoreInt32(&c07Lost, 10)
		}
	}
}

func c07WaitDur() time.Duration {
	if n := atomic.LoadInt32(&c07Lost); n >= 10 {
		return 100 * time.Millisecond // the tree has shown itself broken ten times: just get through the rest
	} else if n >= 3 {
		return 400 * time.Millisecond
	}
	return 3 * time.Second
}

func c07IdleDur() time.Duration {
	if n := atomic.LoadInt32(&c07Lost); n >= 10 {
		return 500 * time.Millisecond
	} else if n >= 3 {
		return 1500 * time.Millisecond
	}
	return 6 * time.Second
}

const c07Wait = 5 * time.Second

// c07LongTimeout is passed to PutWithTimeout / TakeWithTimeout when the harness has observed (len/cap of the real
// channel) that the operation can complete at once: both select branches being ready is then practically impossible.
const c07LongTimeout = 20 * time.Second

func (m *c07Sched) sync() {
	if m.lstate != 0 || m.broken {
		return
	}
	m.q.GetChannel() // posts a token
	if !m.ctl.WaitAt("*", c07PtWoke, c07WaitDur()) {
		m.broken = true
		c07NoteLost()
		return
	}
	m.lstate = 1
}

func (m *c07Sched) afterPass(out string) string {
	m.lstate = 0
	if m.pending != nil {
		r := m.pending.Wait(c07Wait)
		switch {
		case r == "blocked":
			out += " offer=blocked"
			m.broken = true
		case r != "ok":
			out += " offer=panic"
		default:
			out += " offer=" + c07ShowErr(*m.pendRes)
		}
		m.pending = nil
	}
	m.sync()
	if m.broken {
		out += " lost-loader"
	}
	return out
}

func (m *c07Sched) step(tok string) (out string) {
	defer func() {
		if r := recover(); r != nil {
			out = "panic"
		}
	}()
	if m.broken {
		return "lost-loader"
	}
	inpass := m.lstate == 2
	switch {
	case strings.HasPrefix(tok, "o:"):
		v := c07Arg(tok)
		if inpass {
			if m.pending != nil || m.taker != nil {
				return "skip"
			}
			var res error
			m.pendRes = &res
			m.pending = m.ctl.Go("producer", func() { res = m.q.Offer(v) })
			return "pending"
		}
		_, before := m.q.VerifState()
		err := m.q.Offer(v)
		if err == fpgo.ErrQueueIsFull {
			_, pc := m.q.VerifState()
			return "full pool=" + strconv.Itoa(pc)
		}
		out := c07ShowErr(err)
		if err == nil && before == 0 && m.taker != nil { // went to the (empty) channel: the blocked consumer gets it
			out += m.joinTaker()
		}
		return out
	case tok == "B":
		if inpass || m.taker != nil || cap(m.handle) == 0 || len(m.handle) > 0 {
			return "skip"
		}
		var v int
		var err error
		m.takeVal, m.takeErr = &v, &err
		seen := m.ctl.Reached("consumer", "bcq.notify.beforeSend")
		m.taker = m.ctl.Go("consumer", func() { v, err = m.q.Take() })
		// wait until the consumer is inside notifyWorkers (it then needs the lock no more before its receive)
		deadline := time.Now().Add(c07WaitDur())
		for m.ctl.Reached("consumer", "bcq.notify.beforeSend") == seen {
			if time.Now().After(deadline) {
				m.broken = true
				return "lost-consumer"
			}
			time.Sleep(100 * time.Microsecond)
		}
		return "started"
	case tok == "p":
		if inpass {
			return "skip"
		}
		return c07ShowVal(m.q.Poll())
	case tok == "t":
		if inpass {
			return "skip"
		}
		// the loader is parked, so nothing can arrive during the call: with a value in the channel the receive is
		// immediately ready (long timeout: no false "timeout" on a loaded machine), without one the timeout fires
		d := 40 * time.Millisecond
		if len(m.handle) > 0 {
			d = c07LongTimeout
		}
		return c07ShowVal(m.q.TakeWithTimeout(d))
	case tok == "T":
		if inpass || len(m.handle) == 0 {
			return "skip"
		}
		return c07ShowVal(m.q.Take())
	case tok == "r":
		select {
		case v, ok := <-m.handle:
			if !ok {
				return "closed"
			}
			return "ok " + strconv.Itoa(v)
		default:
			return "none"
		}
	case tok == "n":
		if inpass {
			return "skip"
		}
		return "n " + strconv.Itoa(m.q.Count())
	case tok == "L":
		if m.lstate != 1 {
			return "skip"
		}
		_, poolCount := m.q.VerifState()
		c07ReleaseKeep(m.ctl, "*", c07PtWoke)
		if poolCount > 0 {
			if !m.ctl.WaitAt("*", c07PtPolled, c07WaitDur()) {
				m.broken = true
				c07NoteLost()
				return "lost-loader"
			}
			m.lstate = 2
			m.passLeft = poolCount - 1
			return "polled"
		}
		return m.afterPass("pass-done")
	case tok == "S":
		if !inpass {
			return "skip"
		}
		room := len(m.handle) < cap(m.handle)
		c07ReleaseKeep(m.ctl, "*", c07PtPolled)
		if !room {
			return m.afterPass("unshift pass-done")
		}
		suffix := ""
		if m.taker != nil { // the channel was empty: the moved value goes to the blocked consumer
			suffix = m.joinTaker()
		}
		if m.passLeft > 0 {
			if !m.ctl.WaitAt("*", c07PtPolled, c07WaitDur()) {
				m.broken = true
				c07NoteLost()
				return "moved lost-loader"
			}
			m.passLeft--
			return "moved polled" + suffix
		}
		return m.afterPass("moved pass-done" + suffix)
	}
	return "bad-op"
}

func c07SchedRun(c, b int, steps []string) string {
	ctl := NewCtl()
	ctl.ParkAt("*", c07PtWoke)
	ctl.ParkAt("*", c07PtPolled)
	// node-pool size: every other case keeps no spare nodes and trims every 100 µs, so that the freeNodePool goroutine
	// (Lock; KeepNodePoolCount) really runs between the steps and recycled nodes travel through the sync.Pool
	hook := 10000
	if len(steps)%2 == 1 {
		hook = 0
	}
	q := fpgo.NewBufferedChannelQueue[int](c, b, hook).SetLoadFromPoolDuration(20 * time.Microsecond).
		SetFreeNodeHookPoolIntervalDuration(100 * time.Microsecond)
	m := &c07Sched{ctl: ctl, q: q}
	m.handle = q.GetChannel() // also posts the first token
	if !ctl.WaitAt("*", c07PtWoke, c07WaitDur()) {
		m.broken = true
		c07NoteLost()
	}
	m.lstate = 1
	outs := make([]string, 0, len(steps))
	for _, t := range steps {
		outs = append(outs, m.step(t))
	}
	ctl.Uninstall()
	if m.pending != nil {
		m.pending.Wait(c07Wait)
	}
	done := make(chan struct{})
	go func() { q.Close(); close(done) }()
	select {
	case <-done:
	case <-time.After(c07Wait):
	}
	return strings.Join(outs, " | ")
}

// ---- stress ----

func c07Stress(c, b, p, k, n int, mode string, seed int64) string {
	rng := rand.New(rand.NewSource(seed))
	durs := []time.Duration{0, 20 * time.Microsecond, 200 * time.Microsecond, time.Millisecond}
	var ctl *Ctl
	if seed%3 == 0 {
		ctl = NewCtl()
		var dmu sync.Mutex
		drng := rand.New(rand.NewSource(seed + 17))
		ctl.SetDelay(func(thread, point string) time.Duration {
			dmu.Lock()
			defer dmu.Unlock()
			if drng.Intn(4) != 0 {
				return 0
			}
			return time.Duration(drng.Intn(150)) * time.Microsecond
		})
		defer ctl.Uninstall()
	}
	// node-pool size 0 / 1 / 64: with 0 or 1 the freeNodePool goroutine trims (under the lock) all the time
	hooks := []int{0, 1, 64}
	q := fpgo.NewBufferedChannelQueue[int](c, b, hooks[rng.Intn(len(hooks))]).SetLoadFromPoolDuration(durs[rng.Intn(len(durs))]).
		SetFreeNodeHookPoolIntervalDuration(durs[1+rng.Intn(len(durs)-1)])
	total := p * n
	retry := c >= 1
	var accepted, delivered, prodDone, panics, slow int64
	var lastProgress int64 = time.Now().UnixNano()
	var violMu sync.Mutex
	viol := ""
	setViol := func(s string) {
		violMu.Lock()
		if viol == "" {
			viol = s
		}
		violMu.Unlock()
	}
	stop := make(chan struct{})
	var wg sync.WaitGroup
	timed := func(f func()) {
		t0 := time.Now()
		f()
		if time.Since(t0) > 3*time.Second {
			atomic.AddInt64(&slow, 1)
		}
	}
	acceptedBy := make([][]int, p)
	for t := 0; t < p; t++ {
		wg.Add(1)
		go func(t int) {
			defer wg.Done()
			defer atomic.AddInt64(&prodDone, 1)
			defer func() {
				if r := recover(); r != nil {
					atomic.AddInt64(&panics, 1)
				}
			}()
			for i := 0; i < n; i++ {
				v := t*100000 + i
				for {
					var err error
					timed(func() {
						if i%2 == 0 {
							err = q.Offer(v)
						} else {
							err = q.Put(v)
						}
					})
					if err == nil {
						acceptedBy[t] = append(acceptedBy[t], v)
						atomic.AddInt64(&accepted, 1)
						atomic.StoreInt64(&lastProgress, time.Now().UnixNano())
						break
					}
					if err != fpgo.ErrQueueIsFull {
						setViol("viol offer-error " + err.Error())
						return
					}
					if !retry {
						break
					}
					select {
					case <-stop:
						return
					default:
					}
					runtime.Gosched()
					time.Sleep(10 * time.Microsecond)
				}
			}
		}(t)
	}
	got := make([][]int, k)
	var cwg sync.WaitGroup
	for t := 0; t < k; t++ {
		cwg.Add(1)
		go func(t int) {
			defer cwg.Done()
			defer func() {
				if r := recover(); r != nil {
					atomic.AddInt64(&panics, 1)
				}
			}()
			for {
				select {
				case <-stop:
					return
				default:
				}
				var v int
				var err error
				switch mode {
				case "poll":
					timed(func() { v, err = q.Poll() })
					if err == fpgo.ErrQueueIsEmpty {
						runtime.Gosched()
						time.Sleep(10 * time.Microsecond)
						continue
					}
				case "take":
					v, err = q.TakeWithTimeout(5 * time.Millisecond)
					if err == fpgo.ErrQueueTakeTimeout {
						continue
					}
				case "takeb": // blocking Take only: released by Close at the end of the case
					v, err = q.Take()
					if err == fpgo.ErrQueueIsClosed {
						return
					}
				default:
					select {
					case x, ok := <-q.GetChannel():
						if !ok {
							err = fpgo.ErrQueueIsClosed
						}
						v = x
					case <-time.After(5 * time.Millisecond):
						continue
					}
				}
				if err != nil {
					setViol("viol consumer-error " + err.Error())
					return
				}
				got[t] = append(got[t], v)
				atomic.AddInt64(&delivered, 1)
				atomic.StoreInt64(&lastProgress, time.Now().UnixNano())
			}
		}(t)
	}
	// sampler: occupancy bounds
	var swg sync.WaitGroup
	swg.Add(1)
	go func() {
		defer swg.Done()
		for {
			select {
			case <-stop:
				return
			default:
			}
			cl, pc := q.VerifState()
			if cl > c || pc > b {
				setViol(fmt.Sprintf("viol bound chan=%d/%d pool=%d/%d", cl, c, pc, b))
			}
			if cnt := q.Count(); cnt > c+b {
				setViol(fmt.Sprintf("viol count %d > %d", cnt, c+b))
			}
			time.Sleep(50 * time.Microsecond)
		}
	}()
	// wait for the producers, then for the drain
	pdone := make(chan struct{})
	go func() { wg.Wait(); close(pdone) }()
	stranded := false
	idleDur := c07IdleDur()
	idle := func() bool { return time.Since(time.Unix(0, atomic.LoadInt64(&lastProgress))) > idleDur }
waitProducers:
	for {
		select {
		case <-pdone:
			break waitProducers
		case <-time.After(2 * time.Millisecond):
			if idle() { // nothing accepted and nothing delivered for idleDur although producers keep offering
				stranded = true
				break waitProducers
			}
		}
	}
	if retry {
		for !stranded && atomic.LoadInt64(&delivered) < atomic.LoadInt64(&accepted) {
			if idle() {
				stranded = true
				break
			}
			time.Sleep(200 * time.Microsecond)
		}
	} else {
		time.Sleep(30 * time.Millisecond)
	}
	close(stop)
	if mode != "takeb" {
		cwg.Wait()
	}
	swg.Wait()
	<-pdone
	// quiescent now: producers and non-blocked consumers have returned; consumers of mode takeb are blocked in a
	// channel receive.  Count (read lock) against accepted - delivered, read stably.
	res := ""
	violMu.Lock()
	res = viol
	violMu.Unlock()
	countOK, lastCnt, lastHeld := false, 0, 0
	for try := 0; try < 200 && !countOK; try++ {
		d1 := atomic.LoadInt64(&delivered)
		cnt := q.Count()
		d2 := atomic.LoadInt64(&delivered)
		lastCnt, lastHeld = cnt, int(atomic.LoadInt64(&accepted)-d2)
		if d1 == d2 && cnt == lastHeld {
			countOK = true
		} else {
			time.Sleep(time.Millisecond)
		}
	}
	cdone := make(chan struct{})
	go func() { q.Close(); close(cdone) }()
	select {
	case <-cdone:
	case <-time.After(c07Wait):
	}
	cw := make(chan struct{})
	go func() { cwg.Wait(); close(cw) }()
	select {
	case <-cw:
	case <-time.After(c07Wait):
		return "viol consumers-stuck-after-close"
	}
	acc, del := int(atomic.LoadInt64(&accepted)), int(atomic.LoadInt64(&delivered))
	if res == "" && atomic.LoadInt64(&panics) != 0 {
		res = "viol panic"
	}
	if res == "" && atomic.LoadInt64(&slow) != 0 {
		res = "viol blocked Offer/Poll call took more than 3s"
	}
	if res == "" {
		// multiset + per-producer order
		seen := map[int]bool{}
		for t := 0; t < k && res == ""; t++ {
			last := map[int]int{}
			for _, v := range got[t] {
				prod, seq := v/100000, v%100000
				if v < 0 || prod >= p || seq >= n || seq >= 100000 {
					res = fmt.Sprintf("viol phantom value=%d", v)
					break
				}
				if seen[v] {
					res = fmt.Sprintf("viol duplicate value=%d", v)
					break
				}
				seen[v] = true
				if l, ok := last[prod]; ok && seq < l {
					res = fmt.Sprintf("viol order producer=%d got %d after %d", prod, seq, l)
					break
				}
				last[prod] = seq
			}
		}
		if res == "" {
			accSet := map[int]bool{}
			for _, l := range acceptedBy {
				for _, v := range l {
					accSet[v] = true
				}
			}
			for v := range seen {
				if !accSet[v] {
					res = fmt.Sprintf("viol phantom value=%d was never accepted", v)
					break
				}
			}
		}
		if res == "" && k == 1 && p == 1 {
			for i, v := range got[0] {
				if v != acceptedBy[0][i] {
					res = fmt.Sprintf("viol fifo position=%d got %d want %d", i, v, acceptedBy[0][i])
					break
				}
			}
		}
	}
	if stranded {
		c07NoteLost()
	}
	if res == "" && stranded {
		res = fmt.Sprintf("viol stranded delivered=%d of %d accepted, no progress for %v with consumers calling %s", del, acc, idleDur, mode)
	}
	if res == "" && !countOK {
		res = fmt.Sprintf("viol count-at-quiescence Count=%d accepted-delivered=%d", lastCnt, lastHeld)
	}
	if res == "" && retry && (acc != total || del != total) {
		res = fmt.Sprintf("viol lost accepted=%d delivered=%d of %d", acc, del, total)
	}
	if res != "" {
		return res
	}
	if !retry {
		return "ok safe"
	}
	return fmt.Sprintf("ok accepted=%d delivered=%d", total, total)
}

// ---- ChannelQueue alone, free-running (review R3) ----
//
//	chqstress cap=K p=P k=C n=N mode=block|try|tmo|mix seed=S
//	    P producers × N values through Put (blocking) / Offer (retried while full) / PutWithTimeout (retried on timeout),
//	    C consumers through Take (blocking, released by closing the channel at the end) / Poll (retried while empty) /
//	    TakeWithTimeout (retried on timeout); `mix` rotates the three by call index.  mode=try is generated only for
//	    cap ≥ 1 (two non-blocking sides never meet on an unbuffered channel).
//	    monitors: duplicate, phantom, lost, per-producer order per consumer (global FIFO for 1×1), len ≤ cap, panic,
//	    no progress for 6 s;  observation: ok accepted=P*N delivered=P*N | viol <kind> …
func c07ChqStress(capacity, p, k, n int, mode string, seed int64) string {
	ch := fpgo.NewChannelQueue[int](capacity)
	total := p * n
	var accepted, delivered, panics int64
	var lastProgress int64 = time.Now().UnixNano()
	var violMu sync.Mutex
	viol := ""
	setViol := func(s string) {
		violMu.Lock()
		if viol == "" {
			viol = s
		}
		violMu.Unlock()
	}
	pick := func(i int) int { // 0 blocking, 1 non-blocking, 2 with timeout
		switch mode {
		case "block":
			return 0
		case "try":
			return 1
		case "tmo":
			return 2
		}
		return (i + int(seed)) % 3
	}
	// short and long timeouts, so that both branches of the timed selects are really taken (a timeout that has been
	// reported must not have moved a value; a value that has been moved must not be reported as a timeout)
	tmos := []time.Duration{20 * time.Microsecond, 200 * time.Microsecond, 5 * time.Millisecond}
	tmo := func(i int) time.Duration { return tmos[i%len(tmos)] }
	stop := make(chan struct{})
	stopped := func() bool {
		select {
		case <-stop:
			return true
		default:
			return false
		}
	}
	var wg sync.WaitGroup
	for t := 0; t < p; t++ {
		wg.Add(1)
		go func(t int) {
			defer wg.Done()
			defer func() {
				if r := recover(); r != nil {
					atomic.AddInt64(&panics, 1)
				}
			}()
			for i := 0; i < n; i++ {
				v := t*100000 + i
				how := pick(i + t)
				for {
					var err error
					switch how {
					case 0:
						err = ch.Put(v)
					case 1:
						err = ch.Offer(v)
					default:
						err = ch.PutWithTimeout(v, tmo(i+t))
					}
					if err == nil {
						atomic.AddInt64(&accepted, 1)
						atomic.StoreInt64(&lastProgress, time.Now().UnixNano())
						break
					}
					if (how == 1 && err != fpgo.ErrQueueIsFull) || (how == 2 && err != fpgo.ErrQueuePutTimeout) || how == 0 {
						setViol("viol producer-error " + err.Error())
						return
					}
					if stopped() {
						return
					}
					if how == 1 {
						runtime.Gosched()
						time.Sleep(10 * time.Microsecond)
					}
				}
			}
		}(t)
	}
	got := make([][]int, k)
	var cwg sync.WaitGroup
	for t := 0; t < k; t++ {
		cwg.Add(1)
		go func(t int) {
			defer cwg.Done()
			defer func() {
				if r := recover(); r != nil {
					atomic.AddInt64(&panics, 1)
				}
			}()
			for i := 0; ; i++ {
				if stopped() {
					return
				}
				how := pick(i + t)
				var v int
				var err error
				switch how {
				case 0:
					v, err = ch.Take()
					if err == fpgo.ErrQueueIsClosed {
						return
					}
				case 1:
					v, err = ch.Poll()
					if err == fpgo.ErrQueueIsEmpty {
						runtime.Gosched()
						time.Sleep(10 * time.Microsecond)
						continue
					}
				default:
					v, err = ch.TakeWithTimeout(tmo(i + t))
					if err == fpgo.ErrQueueTakeTimeout {
						continue
					}
				}
				if err == fpgo.ErrQueueIsClosed && stopped() {
					return
				}
				if err != nil {
					setViol("viol consumer-error " + err.Error())
					return
				}
				got[t] = append(got[t], v)
				atomic.AddInt64(&delivered, 1)
				atomic.StoreInt64(&lastProgress, time.Now().UnixNano())
				if (len(got[t])+t)%16 == 0 { // let the channel fill up now and then: producers see Full / time out
					time.Sleep(300 * time.Microsecond)
				}
				if l := len(ch); l > capacity {
					setViol(fmt.Sprintf("viol bound len=%d cap=%d", l, capacity))
				}
			}
		}(t)
	}
	pdone := make(chan struct{})
	go func() { wg.Wait(); close(pdone) }()
	idleDur := c07IdleDur()
	idle := func() bool { return time.Since(time.Unix(0, atomic.LoadInt64(&lastProgress))) > idleDur }
	stranded := false
	producersDone := false
	var emptySince time.Time
	dropped := false
	surelyLost := 2 * time.Second
	if atomic.LoadInt32(&c07Lost) >= 3 {
		surelyLost = 500 * time.Millisecond
	}
	for !stranded {
		if !producersDone {
			select {
			case <-pdone:
				producersDone = true
			case <-time.After(time.Millisecond):
			}
		} else if atomic.LoadInt64(&delivered) >= atomic.LoadInt64(&accepted) {
			break
		} else {
			time.Sleep(200 * time.Microsecond)
			// Every Put/Offer has returned and the buffer is empty: each accepted value has already been handed to
			// some consumer's receive, which only has to be scheduled to count it.  If the books still do not balance
			// after a (generous) while, the value was dropped inside a wrapper — no need to sit out the full idle time.
			if len(ch) == 0 {
				if emptySince.IsZero() {
					emptySince = time.Now()
				} else if time.Since(emptySince) > surelyLost {
					stranded, dropped = true, true
				}
			} else {
				emptySince = time.Time{}
			}
		}
		if idle() {
			stranded = true
		}
	}
	close(stop)
	if stranded {
		c07NoteLost()
		// drain so that blocked producers can leave, then give up on them
		go func() {
			for range ch {
			}
		}()
		select {
		case <-pdone:
		case <-time.After(c07Wait):
		}
	} else {
		<-pdone
	}
	func() {
		defer func() { recover() }()
		close(ch) // releases the consumers blocked in Take
	}()
	cw := make(chan struct{})
	go func() { cwg.Wait(); close(cw) }()
	select {
	case <-cw:
	case <-time.After(c07Wait):
		return "viol consumers-stuck-after-close"
	}
	violMu.Lock()
	res := viol
	violMu.Unlock()
	acc, del := int(atomic.LoadInt64(&accepted)), int(atomic.LoadInt64(&delivered))
	if res == "" && atomic.LoadInt64(&panics) != 0 {
		res = "viol panic"
	}
	if res == "" {
		seen := map[int]bool{}
		for t := 0; t < k && res == ""; t++ {
			last := map[int]int{}
			for _, v := range got[t] {
				prod, seq := v/100000, v%100000
				if v < 0 || prod >= p || seq >= n {
					res = fmt.Sprintf("viol phantom value=%d", v)
					break
				}
				if seen[v] {
					res = fmt.Sprintf("viol duplicate value=%d", v)
					break
				}
				seen[v] = true
				if l, ok := last[prod]; ok && seq < l {
					res = fmt.Sprintf("viol order producer=%d got %d after %d", prod, seq, l)
					break
				}
				last[prod] = seq
			}
		}
		if res == "" && k == 1 && p == 1 {
			for i, v := range got[0] {
				if v != i {
					res = fmt.Sprintf("viol fifo position=%d got %d", i, v)
					break
				}
			}
		}
	}
	if res == "" && dropped {
		res = fmt.Sprintf("viol lost delivered=%d of %d accepted (of %d): every Put returned and the channel is empty", del, acc, total)
	}
	if res == "" && stranded {
		res = fmt.Sprintf("viol stranded delivered=%d of %d accepted (of %d), no progress for %v", del, acc, total, idleDur)
	}
	if res == "" && (acc != total || del != total) {
		res = fmt.Sprintf("viol lost accepted=%d delivered=%d of %d", acc, del, total)
	}
	if res != "" {
		return res
	}
	return fmt.Sprintf("ok accepted=%d delivered=%d", total, total)
}

func c07Field(toks []string, k string) string {
	for _, t := range toks {
		if strings.HasPrefix(t, k+"=") {
			return t[len(k)+1:]
		}
	}
	return ""
}

func c07Int(toks []string, k string) int { v, _ := strconv.Atoi(c07Field(toks, k)); return v }

func c07Run(line string) string {
	head, body := line, ""
	if i := strings.Index(line, ": "); i >= 0 {
		head, body = line[:i], line[i+2:]
	}
	toks := strings.Fields(head)
	if len(toks) == 0 {
		return "bad-case"
	}
	var steps []string
	for _, t := range strings.Split(body, ";") {
		if t = strings.TrimSpace(t); t != "" {
			steps = append(steps, t)
		}
	}
	switch toks[0] {
	case "chq":
		return c07Chq(c07Int(toks, "cap"), steps)
	case "sched":
		return c07SchedRun(c07Int(toks, "c"), c07Int(toks, "b"), steps)
	case "chqstress":
		return c07ChqStress(c07Int(toks, "cap"), c07Int(toks, "p"), c07Int(toks, "k"), c07Int(toks, "n"), c07Field(toks, "mode"),
			int64(c07Int(toks, "seed")))
	case "stress":
		return c07Stress(c07Int(toks, "c"), c07Int(toks, "b"), c07Int(toks, "p"), c07Int(toks, "k"), c07Int(toks, "n"),
			c07Field(toks, "mode"), int64(c07Int(toks, "seed")))
	}
	return "bad-case"
}

func c07Number(ops []string) string {
	out := make([]string, len(ops))
	v := 0
	for i, o := range ops {
		if o == "o" || o == "w" || o == "U" {
			v++
			out[i] = o + ":" + strconv.Itoa(v)
		} else {
			out[i] = o
		}
	}
	return strings.Join(out, " ; ")
}

func c07Gen(tier string, rng *rand.Rand, emit func(string)) map[string]interface{} {
	thorough := tier == "thorough"
	nChq, nSched, nStress := 0, 0, 0
	exh := func(head string, alphabet []string, maxLen int, count *int) {
		var rec func(prefix []string)
		rec = func(prefix []string) {
			if len(prefix) > 0 {
				emit(head + ": " + c07Number(prefix))
				*count++
			}
			if len(prefix) == maxLen {
				return
			}
			for _, a := range alphabet {
				rec(append(append([]string{}, prefix...), a))
			}
		}
		rec(nil)
	}
	pick := func(weights map[string]int, order []string) string {
		tot := 0
		for _, k := range order {
			tot += weights[k]
		}
		r := rng.Intn(tot)
		for _, k := range order {
			if r < weights[k] {
				return k
			}
			r -= weights[k]
		}
		return order[0]
	}
	// 1. ChannelQueue wrappers
	chqLen := 4
	if thorough {
		chqLen = 6
	}
	for _, capacity := range []int{0, 1, 2} {
		exh(fmt.Sprintf("chq cap=%d", capacity), []string{"o", "p", "U", "T", "x"}, chqLen, &nChq)
	}
	nr := 120
	if thorough {
		nr = 1500
	}
	cw := map[string]int{"o": 30, "w": 3, "U": 10, "p": 25, "t": 3, "T": 12, "x": 2}
	co := []string{"o", "w", "U", "p", "t", "T", "x"}
	for i := 0; i < nr; i++ {
		ops := make([]string, 1+rng.Intn(30))
		for j := range ops {
			ops[j] = pick(cw, co)
		}
		emit(fmt.Sprintf("chq cap=%d: %s", rng.Intn(4), c07Number(ops)))
		nChq++
	}
	// 2. directed schedules around the loader's poll / try-send / unshift window
	directed := []string{
		"sched c=1 b=2: o:1 ; o:2 ; o:3 ; n ; L ; r ; o:4 ; S ; S ; n ; p ; L ; S ; S ; p ; L ; S ; p ; p ; n",
		"sched c=1 b=2: o:1 ; o:2 ; o:3 ; o:4 ; L ; S ; p ; L ; S ; S ; p ; p ; L ; S ; p ; n",
		"sched c=2 b=3: o:1 ; o:2 ; o:3 ; o:4 ; o:5 ; o:6 ; L ; r ; r ; S ; S ; S ; o:7 ; r ; r ; r ; L ; p ; p",
		"sched c=1 b=1: o:1 ; o:2 ; o:3 ; L ; S ; r ; t ; L ; S ; t ; n ; o:4 ; o:5 ; o:6",
		"sched c=0 b=2: o:1 ; o:2 ; o:3 ; n ; L ; S ; p ; r ; t ; n",
		"sched c=2 b=0: o:1 ; o:2 ; o:3 ; n ; L ; p ; o:4 ; p ; p ; p",
		"sched c=1 b=5: o:1 ; o:2 ; o:3 ; o:4 ; o:5 ; o:6 ; o:7 ; L ; r ; S ; r ; S ; r ; S ; r ; S ; r ; S ; r ; n",
		"sched c=3 b=2: o:1 ; o:2 ; o:3 ; o:4 ; r ; o:5 ; o:6 ; L ; S ; o:7 ; S ; r ; r ; r ; r ; L ; S ; S ; r ; r ; r ; n",
		"sched c=1 b=2: B ; o:1 ; n ; o:2 ; o:3 ; r ; B ; L ; S ; S ; n ; p ; B ; L ; p ; n",
		"sched c=1 b=3: o:1 ; o:2 ; o:3 ; o:4 ; r ; B ; n ; L ; S ; r ; S ; B ; S ; n ; p",
		"sched c=2 b=2: B ; B ; L ; o:1 ; B ; o:2 ; o:3 ; o:4 ; o:5 ; r ; r ; B ; L ; S ; S ; p ; p ; n",
	}
	for _, d := range directed {
		emit(d)
		nSched++
	}
	sl := 3
	if thorough {
		sl = 5
	}
	for _, cf := range [][2]int{{1, 1}, {1, 2}, {2, 1}, {0, 1}, {1, 0}} {
		exh(fmt.Sprintf("sched c=%d b=%d", cf[0], cf[1]), []string{"o", "p", "r", "L", "S", "n"}, sl, &nSched)
	}
	ns := 25
	if thorough {
		ns = 120
	}
	sw := map[string]int{"o": 33, "p": 7, "r": 10, "t": 1, "T": 4, "B": 4, "n": 5, "L": 13, "S": 23}
	so := []string{"o", "p", "r", "t", "T", "B", "n", "L", "S"}
	for _, c := range []int{0, 1, 2, 3} {
		for _, b := range []int{0, 1, 2, 5} {
			for i := 0; i < ns; i++ {
				ops := make([]string, 6+rng.Intn(40))
				for j := range ops {
					ops[j] = pick(sw, so)
				}
				emit(fmt.Sprintf("sched c=%d b=%d: %s", c, b, c07Number(ops)))
				nSched++
			}
		}
	}
	// 3. stress
	sizes := []int{1, 2, 4, 8}
	modes := []string{"poll", "take", "chan", "takeb"}
	rounds, n := 2, 300
	if thorough {
		rounds, n = 6, 1500
	}
	for r := 0; r < rounds; r++ {
		for _, c := range []int{0, 1, 2, 3} {
			for _, b := range []int{0, 1, 2, 5} {
				p, k := sizes[rng.Intn(4)], sizes[rng.Intn(4)]
				mode := modes[rng.Intn(4)]
				nn := n/p + 1
				if c == 0 {
					nn = 40
				}
				emit(fmt.Sprintf("stress c=%d b=%d p=%d k=%d n=%d mode=%s seed=%d", c, b, p, k, nn, mode, rng.Intn(1000000)))
				nStress++
			}
		}
		// single producer / single consumer: global FIFO; many of each
		for _, mode := range modes {
			emit(fmt.Sprintf("stress c=%d b=%d p=1 k=1 n=%d mode=%s seed=%d", 1+rng.Intn(3), 1+rng.Intn(5), n, mode, rng.Intn(1000000)))
			emit(fmt.Sprintf("stress c=%d b=%d p=8 k=8 n=%d mode=%s seed=%d", 1+rng.Intn(3), rng.Intn(6), n/8+1, mode, rng.Intn(1000000)))
			nStress += 2
		}
	}
	// 4. ChannelQueue alone under concurrent producers / consumers (blocking Put/Take included)
	nChqStress := 0
	cmodes := []string{"block", "try", "tmo", "mix"}
	crounds, cn := 1, 1000
	if thorough {
		crounds, cn = 4, 4000
	}
	for r := 0; r < crounds; r++ {
		for _, capacity := range []int{0, 1, 2, 7} {
			for _, mode := range cmodes {
				if capacity == 0 && mode == "try" {
					continue
				}
				pp, kk := sizes[rng.Intn(4)], sizes[rng.Intn(4)]
				nn := cn/pp + 1
				if capacity == 0 && mode != "block" {
					nn = 100/pp + 1 // rendezvous of two timed / non-blocking sides is slow by nature
				}
				emit(fmt.Sprintf("chqstress cap=%d p=%d k=%d n=%d mode=%s seed=%d", capacity, pp, kk, nn, mode, rng.Intn(1000000)))
				nChqStress++
			}
		}
		emit(fmt.Sprintf("chqstress cap=%d p=1 k=1 n=%d mode=%s seed=%d", 1+rng.Intn(3), cn, cmodes[rng.Intn(4)], rng.Intn(1000000)))
		nChqStress++
	}
	return map[string]interface{}{
		"chqstress_cases": nChqStress,
		"exhaustive": false, "chq_cases": nChq, "sched_cases": nSched, "stress_cases": nStress,
		"chq_scope":   fmt.Sprintf("all step sequences ≤%d over {Offer,Poll,Put,Take,close} for cap 0,1,2 + random ≤30 incl. timeouts", chqLen),
		"sched_scope": fmt.Sprintf("8 hand-written windows + all step sequences ≤%d over {o,p,r,L,S,n} for 5 (c,b) + random ≤46 for c∈0..3 × b∈{0,1,2,5}", sl),
		"stress_scope": "c∈0..3 × b∈{0,1,2,5}, producers/consumers ∈ {1,2,4,8}, modes poll/take/chan, loader interval 0..1ms, seeded delays at park points on a third of the cases",
	}
}

func init() { register("C07", &Prop{Gen: c07Gen, Run: c07Run, CaseTimeout: 60 * time.Second}) }
