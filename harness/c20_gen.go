package main

// Generators of the C20 correspondence: bounded-exhaustive small scopes + seeded random + directed cases.

import (
	"fmt"
	"math/rand"
	"strconv"
	"strings"
)

// every list over alphabet of length lo..hi
func c20Lists(alphabet []string, lo, hi int, f func([]string)) {
	var rec func(prefix []string)
	rec = func(prefix []string) {
		if len(prefix) >= lo {
			f(prefix)
		}
		if len(prefix) == hi {
			return
		}
		for _, a := range alphabet {
			rec(append(append([]string{}, prefix...), a))
		}
	}
	rec(nil)
}

// every ordered subset (permutation of a subset) of items
func c20OrderedSubsets(n int, f func([]int)) {
	used := make([]bool, n)
	var rec func(cur []int)
	rec = func(cur []int) {
		f(cur)
		for i := 0; i < n; i++ {
			if !used[i] {
				used[i] = true
				rec(append(append([]int{}, cur...), i))
				used[i] = false
			}
		}
	}
	rec(nil)
}

var c20Probes = []string{
	"nil",
	"b:1", "b:0",
	"i:2:42", "i:2:0", "i:2:-1", "i:3:5", "i:4:5", "i:5:5", "i:6:42", "i:7:42", "i:8:7", "i:9:7", "i:10:7", "i:11:7", "i:12:3",
	"f:14:h3", "f:14:nan", "f:14:nz", "f:14:h0", "f:13:h3",
	"s:abc", "s:", "s:123", "s:world", "ns:abc", "ns:123",
	"np:0", "np:1", "np:2",
	"st:0:1", "st:0:2", "st:1:1",
	"p:0:1", "p:0:2", "p:1:1",
	"sl:n", "sl:", "sl:1+2",
	"mp:n", "mp:e",
	"c/P.2.2.24/i:2:1,s:x", "c/N/nil", "c/P.0/-", "c/S.2.N.P.1.24/s:abc", "c/P.1.2/s:x",
	"cp:1/P.2.2.24/i:2:1,s:x", "cp:2/N/nil", "cp:3/P.1.2/s:x", "cp:4/S.2.N.P.1.22/p:0:1", "cp:5/P.0/-",
}

// a value of the same dynamic type that differs (for the "untuned" equality pattern)
func c20Sibling(p string) string {
	switch {
	case p == "nil":
		return "i:2:0"
	case strings.HasPrefix(p, "b:"):
		if p == "b:1" {
			return "b:0"
		}
		return "b:1"
	case strings.HasPrefix(p, "i:"):
		parts := strings.Split(p, ":")
		return "i:" + parts[1] + ":" + strconv.Itoa(c20Atoi(parts[2], 0)+1)
	case strings.HasPrefix(p, "f:"):
		parts := strings.Split(p, ":")
		return "f:" + parts[1] + ":h7"
	case strings.HasPrefix(p, "s:"):
		return "s:" + p[2:] + "q"
	case strings.HasPrefix(p, "ns:"):
		return "s:" + p[3:] // same text, different type
	case strings.HasPrefix(p, "np:"):
		if p == "np:0" {
			return "np:1"
		}
		return "np:0"
	case strings.HasPrefix(p, "st:"):
		parts := strings.Split(p, ":")
		return "st:" + parts[1] + ":" + strconv.Itoa(c20Atoi(parts[2], 0)+5)
	case strings.HasPrefix(p, "p:"):
		parts := strings.Split(p, ":")
		return "p:" + parts[1] + ":" + strconv.Itoa(c20Atoi(parts[2], 0)+5)
	case strings.HasPrefix(p, "cp:"):
		return "cp:9/P.1.2/i:2:1"
	}
	return "i:2:42"
}

func c20Comparable(p string) bool {
	return !(strings.HasPrefix(p, "sl:") || strings.HasPrefix(p, "mp:") || strings.HasPrefix(p, "c/"))
}

// c20AtomJustKind: Maybe.Just(v).Kind() of an atom, from its encoding (the generator does not call fpGo)
func c20AtomJustKind(enc string) int {
	parts := strings.Split(enc, ":")
	switch parts[0] {
	case "nil", "np":
		return 0
	case "b":
		return 1
	case "i", "f":
		return c20Atoi(parts[1], 2)
	case "s", "ns":
		return 24
	case "st":
		return 25
	case "p":
		return 22
	case "sl":
		return 23
	case "mp":
		return 21
	}
	return 0
}

// what the patterns will see of the CompData probes of c20Probes: the objects, or nil pointer
var c20CompProbeObjs = map[string][]string{
	"c/P.2.2.24/i:2:1,s:x":    {"i:2:1", "s:x"},
	"c/N/nil":                 {"nil"},
	"c/P.0/-":                 {},
	"c/S.2.N.P.1.24/s:abc":    {"s:abc"},
	"c/P.1.2/s:x":             {}, // does not match its type: the harness substitutes the zero CompData
	"cp:1/P.2.2.24/i:2:1,s:x": {"i:2:1", "s:x"},
	"cp:2/N/nil":              {"nil"},
	"cp:4/S.2.N.P.1.22/p:0:1": {"p:0:1"},
	"cp:5/P.0/-":              {},
}

// parameters of the five pattern kinds tuned to (tuned=true) / away from (false) a probe
func c20PatFor(kind int, probe string, tuned bool) string {
	objs, isComp := c20CompProbeObjs[probe]
	isNil := probe == "nil" || strings.HasPrefix(probe, "np:") || probe == "cp:3/P.1.2/s:x"
	k := 0 // reflect kind of the value the pattern sees
	switch {
	case isComp:
		k = 25
	case probe == "cp:3/P.1.2/s:x":
		k = 22
	case probe == "nil":
		k = 0
	case strings.HasPrefix(probe, "np:"):
		k = 22
	default:
		k = c20AtomJustKind(probe)
	}
	switch kind {
	case 0: // kind
		if tuned {
			return "K:" + strconv.Itoa(k)
		}
		if k == 2 {
			return "K:24"
		}
		return "K:2"
	case 1: // equal
		if tuned {
			if c20Comparable(probe) {
				return "E:" + probe
			}
			return "E:i:2:42"
		}
		return "E:" + c20Sibling(probe)
	case 2: // regex
		if tuned {
			if strings.HasPrefix(probe, "s:") {
				return "R:lit:" + probe[2:]
			}
			if strings.HasPrefix(probe, "ns:") {
				return "R:full:" + probe[3:]
			}
			return "R:any"
		}
		if k == 24 {
			return "R:lit:zz"
		}
		return "R:bad"
	case 3: // sum type
		if tuned {
			if isComp {
				ks := make([]string, len(objs))
				for i, o := range objs {
					ks[i] = strconv.Itoa(c20AtomJustKind(o))
				}
				if len(objs) == 0 {
					return "T:S.2.N.P.0"
				}
				return "T:S.2.N.P." + strconv.Itoa(len(objs)) + "." + strings.Join(ks, ".")
			}
			if isNil {
				return "T:S.2.P.1.2.N"
			}
			return "T:P.1." + strconv.Itoa(k)
		}
		return "T:S.2.P.1.17.P.2.2.2"
	}
	return "O"
}

var c20CompTypes = []string{
	"N", "P.0", "P.1.2", "P.1.24", "P.2.2.24", "P.2.24.24", "P.1.0", "P.1.22", "P.1.25", "P.1.23", "S.0",
	"S.2.N.P.2.2.24", "S.3.N.P.2.2.24.P.1.24", "S.2.S.1.N.P.1.2", "S.2.P.1.2.P.1.2", "S.2.P.1.24.S.2.P.2.2.2.N",
}

var c20ObjAtoms = []string{"nil", "i:2:1", "s:x", "np:0", "p:0:1", "sl:n", "st:0:1", "b:1", "f:14:h3", "i:3:1"}

func c20Gen(tier string, rng *rand.Rand, emit func(string)) map[string]interface{} {
	thorough := tier == "thorough"
	counts := map[string]int{}
	out := func(class, line string) {
		counts[class]++
		emit(line)
	}

	// ---- directed cases first
	for _, l := range []string{
		"cp C 1: -", "cp P 1: -", "cp CI 1: -", "cp PI 1: -",
		"cp C -: a4.1", "cp P -: s ; p3", "cp C 1,2,3: v3 ; r", "cp C 1: v2", "cp P 1: d ; v2 ; v3", "cp C 5: n3 ; s ; d",
		"m ns:abc: R:lit:abc ; O", "e ns:abc: R:lit:abc ; O", "m ns:abc: R:lit:zz ; O",
		"m p:0:1: E:p:0:1 ; K:25 ; O", "m p:0:1: K:25 ; K:22 ; O", "m st:0:1: T:P.1.25 ; O", "m st:0:1: T:N ; O",
		"m cp:1/P.2.2.24/i:2:1,s:x: K:22 ; K:25", "m cp:1/P.2.2.24/i:2:1,s:x: E:cp:1/P.2.2.24/i:2:1,s:x ; T:P.2.2.24",
		"m nil: O", "m nil: K:0 ; T:N ; O", "m nil: E:nil ; O", "m np:0: K:22 ; O", "m np:0: E:nil ; E:np:1 ; E:np:0",
		"m i:2:5: R:lit:5 ; R:any ; R:dig ; O", "m s:5: R:bad ; R:dig ; O", "m i:2:1: -", "e i:2:1: -",
		"m f:14:nan: E:f:14:nan ; O", "m f:14:nz: E:f:14:h0 ; O", "m sl:n: K:23 ; O", "m sl:1+2: E:i:2:1 ; K:23",
		"m i:6:42: E:i:2:42 ; K:2 ; K:6", "m s:abc: E:ns:abc ; E:s:abc", "m c/P.0/-: T:P.0 ; O", "m cp:3/P.1.2/s:x: T:N ; K:22 ; O",
	} {
		out("directed", l)
	}

	// ---- Compose / Pipe
	aff4 := []string{"a4.0", "a4.1", "a4.2", "a4.3"}
	maxLen := 6
	c20Lists(aff4, 1, maxLen, func(fs []string) {
		body := strings.Join(fs, " ; ")
		out("compose_pipe_exhaustive", "cp C 1,2: "+body)
		out("compose_pipe_exhaustive", "cp P 1,2: "+body)
		if len(fs) <= 4 || thorough {
			out("compose_pipe_exhaustive", "cp CI 1,2: "+body)
			out("compose_pipe_exhaustive", "cp PI 1,2: "+body)
		}
	})
	mixed := []string{"a5.1", "a5.2", "r", "t", "p7", "s", "d", "v2"}
	mixLen := 4
	if thorough {
		mixLen = 5
	}
	c20Lists(mixed, 1, mixLen, func(fs []string) {
		body := strings.Join(fs, " ; ")
		out("compose_pipe_mixed", "cp C 1,2,3: "+body)
		out("compose_pipe_mixed", "cp P 1,2,3: "+body)
	})
	c20Lists(aff4, 2, 5, func(fs []string) {
		body := strings.Join(fs, " ; ")
		for k := 1; k < len(fs); k++ {
			out("regroup", fmt.Sprintf("cg C %d 3: %s", k, body))
			out("regroup", fmt.Sprintf("cg P %d 3: %s", k, body))
		}
	})
	// stages that yield nothing (nil / empty) in the middle, followed by stages that produce a value from zero arguments
	// (seeded C20-w5v2: Pipe returned nil when the inner result was a nil slice)
	nilFns := []string{"nl", "em", "fg9", "fg3", "ct", "cn7", "a4.1", "s"}
	c20Lists(nilFns, 1, 4, func(fs []string) {
		body := strings.Join(fs, " ; ")
		for _, v := range []string{"C", "P", "CI", "PI"} {
			out("nil_stages", "cp "+v+" 2,4,6: "+body)
		}
		if len(fs) >= 2 && len(fs) <= 3 {
			for k := 1; k < len(fs); k++ {
				out("nil_stages", fmt.Sprintf("cg C %d 2,4,6: %s", k, body))
				out("nil_stages", fmt.Sprintf("cg P %d 2,4,6: %s", k, body))
			}
			out("nil_stages", "ru P,C,J,I,h1,g1 2,4,6: "+body)
		}
	})
	allFns := []string{"nl", "em", "fg3", "fg9", "ct", "cn7", "a4.0", "a4.1", "a4.2", "a4.3", "a5.1", "a3.2", "a7.6", "r", "t", "p7", "p-2", "s", "d", "v1", "v2", "v3", "w2", "c1.5", "n3"}
	nRand := 1500
	if thorough {
		nRand = 15000
	}
	for i := 0; i < nRand; i++ {
		n := 1 + rng.Intn(12)
		fs := make([]string, n)
		dups := 0
		for j := range fs {
			fs[j] = allFns[rng.Intn(len(allFns))]
			if fs[j] == "d" {
				dups++
				if dups > 4 {
					fs[j] = "r"
				}
			}
		}
		in := make([]int, rng.Intn(5))
		for j := range in {
			in[j] = rng.Intn(9) - 3
		}
		variant := []string{"C", "P", "CI", "PI"}[rng.Intn(4)]
		body := strings.Join(fs, " ; ")
		if rng.Intn(4) == 0 && (variant == "C" || variant == "P") {
			out("regroup_random", fmt.Sprintf("cg %s %d %s: %s", variant, rng.Intn(n+1), c20ShowInts(in), body))
		} else {
			out("compose_pipe_random", fmt.Sprintf("cp %s %s: %s", variant, c20ShowInts(in), body))
		}
	}

	// ---- one caller-owned slice spread into several combinator calls (argument list must stay untouched)
	ruScripts := []string{"P", "C", "J", "I", "P,P", "P,C", "C,P", "J,I", "J,J", "I,J", "P,x,C,x", "P,x,P,x", "C,P,x,C",
		"P,g1", "P,h1", "h1,P", "h1,g1", "h2,x,h1", "g1,C", "P,C,P", "J,C,P,I", "P,J,C", "h1,h2,C", "P,x,h1,x,g2"}
	c20Lists(aff4, 2, 4, func(fs []string) {
		body := strings.Join(fs, " ; ")
		for _, sc := range ruScripts {
			out("reuse_slice", fmt.Sprintf("ru %s 1,2: %s", sc, body))
		}
	})
	ruSteps := []string{"C", "P", "I", "J", "x", "g1", "g2", "g3", "h1", "h2", "h3", "h5"}
	nRU := 800
	if thorough {
		nRU = 8000
	}
	for i := 0; i < nRU; i++ {
		n := 1 + rng.Intn(8)
		fs := make([]string, n)
		for j := range fs {
			fs[j] = allFns[rng.Intn(len(allFns))]
			if fs[j] == "d" && j > 2 {
				fs[j] = "r"
			}
		}
		m := 1 + rng.Intn(6)
		steps := make([]string, m)
		for j := range steps {
			steps[j] = ruSteps[rng.Intn(len(ruSteps))]
		}
		in := make([]int, rng.Intn(4))
		for j := range in {
			in[j] = rng.Intn(9) - 3
		}
		out("reuse_slice_random", fmt.Sprintf("ru %s %s: %s", strings.Join(steps, ","), c20ShowInts(in), strings.Join(fs, " ; ")))
	}

	// ---- results are values: pass-through stages (identity, Take/Drop as views, in-place sorts) so that the result
	// of a composed function can be a view of whatever buffer the combinator handed to the innermost stage; run on A,
	// keep the result, run on B, re-read result A (seeded C20-w4v1: Compose recycled one argument buffer)
	passFns := []string{"id", "tk2", "dk1", "so", "sd", "r", "a4.1"}
	rrSteps := []string{"C", "P", "I", "J", "g1", "h1", "g2", "h2"}
	c20Lists(passFns, 1, 3, func(fs []string) {
		body := strings.Join(fs, " ; ")
		for _, st := range rrSteps {
			if (st == "g2" || st == "h2") && len(fs) < 3 {
				continue
			}
			out("result_retained", fmt.Sprintf("rr %s 5,1,9,4 2,8,3,7: %s", st, body))
		}
	})
	rrFns := append([]string{"id", "id", "tk1", "tk2", "tk3", "dk1", "dk2", "so", "sd", "so", "sd"}, allFns...)
	nRR := 600
	if thorough {
		nRR = 6000
	}
	for i := 0; i < nRR; i++ {
		n := 1 + rng.Intn(6)
		fs := make([]string, n)
		for j := range fs {
			fs[j] = rrFns[rng.Intn(len(rrFns))]
			if fs[j] == "d" && j > 1 {
				fs[j] = "id"
			}
		}
		m := 1 + rng.Intn(3)
		steps := make([]string, m)
		for j := range steps {
			steps[j] = []string{"C", "P", "I", "J", "g1", "g2", "g3", "h1", "h2", "h4"}[rng.Intn(10)]
		}
		mkIn := func() string {
			in := make([]int, 1+rng.Intn(6))
			for j := range in {
				in[j] = rng.Intn(19) - 5
			}
			return c20ShowInts(in)
		}
		out("result_retained_random", fmt.Sprintf("rr %s %s %s: %s", strings.Join(steps, ","), mkIn(), mkIn(), strings.Join(fs, " ; ")))
	}

	// ---- adapters
	for n := 1; n <= 6; n++ {
		for l := 0; l <= 8; l++ {
			args := make([]int, l)
			for i := range args {
				args[i] = 11 + i
			}
			out("adapters", fmt.Sprintf("ad vp%d -: %s", n, c20ShowInts(args)))
			if l <= 4 {
				out("adapters", fmt.Sprintf("ad vr%d -: %s", n, c20ShowInts(args)))
				bound := make([]int, n)
				for i := range bound {
					bound[i] = 101 + i
				}
				out("adapters", fmt.Sprintf("ad cp%d %s: %s", n, c20ShowInts(bound), c20ShowInts(args)))
			}
		}
	}
	for l := 0; l <= 3; l++ {
		args := make([]int, l)
		for i := range args {
			args[i] = 3 + i
		}
		for _, b := range []int{-1, 3, 4, 100} {
			out("adapters", fmt.Sprintf("ad cs1 %d: %s", b, c20ShowInts(args)))
			out("adapters", fmt.Sprintf("ad nv %d: %s", b, c20ShowInts(args)))
			out("adapters", fmt.Sprintf("ad ns %d: %s", b, c20ShowInts(args)))
			out("adapters", fmt.Sprintf("ad np %d: %s", b, c20ShowInts(args)))
		}
	}
	for i := 0; i < 300; i++ {
		names := []string{"vp", "vr", "cp"}
		name := names[rng.Intn(3)] + strconv.Itoa(1+rng.Intn(6))
		b := make([]int, 6)
		for j := range b {
			b[j] = rng.Intn(200) - 100
		}
		args := make([]int, rng.Intn(9))
		for j := range args {
			args[j] = rng.Intn(200) - 100
		}
		out("adapters_random", fmt.Sprintf("ad %s %s: %s", name, c20ShowInts(b), c20ShowInts(args)))
	}

	// ---- Trampoline
	for kd := 1; kd <= 8; kd++ {
		for ke := -1; ke <= 8; ke++ {
			for mode := 0; mode <= 1; mode++ {
				for _, in := range []string{"-", "0", "0,5", "2,1,1", "0,1,2,3"} {
					out("trampoline", fmt.Sprintf("tr %d %d %d: %s", kd, ke, mode, in))
				}
			}
		}
	}
	for i := 0; i < 200; i++ {
		out("trampoline_random", fmt.Sprintf("tr %d %d %d: %d,%d", 1+rng.Intn(40), rng.Intn(45)-2, rng.Intn(2), rng.Intn(3), rng.Intn(3)))
	}

	// long runs: "iterates its step until done or error" has no bound — a hidden iteration cap (stack-depth style limits
	// such as 1 000, 10 000, 65 536) or a counter that wraps shows only far beyond the 40 iterations above; the model's
	// fuel is 100 000.  (The Spec the judge evaluates on a mismatch recomputes every iterate from the start — quadratic —
	// so the lengths stay moderate: 10 001 iterations cost the judge ~8 s, 32 769 ~80 s, and only when a case deviates.)
	longRuns := []int{257, 1001, 4097, 10001}
	if thorough {
		longRuns = append(longRuns, 20011, 32769)
	}
	for _, kd := range longRuns {
		out("trampoline_long", fmt.Sprintf("tr %d -1 0: 0,5", kd))
		out("trampoline_long", fmt.Sprintf("tr %d %d %d: 0,1,2", kd, kd-2, rng.Intn(2)))
	}

	// ---- CurryDef scripts
	curryOps := []string{"c1", "c2", "c0", "d", "r", "i"}
	concrete := func(ops []string) string {
		v := 0
		outOps := make([]string, len(ops))
		for i, o := range ops {
			switch o {
			case "c1":
				v++
				outOps[i] = "c:" + strconv.Itoa(v)
			case "c2":
				v += 2
				outOps[i] = fmt.Sprintf("c:%d,%d", v-1, v)
			case "c0":
				outOps[i] = "c:-"
			default:
				outOps[i] = o
			}
		}
		return strings.Join(outOps, " ; ")
	}
	curryLen := 4
	if thorough {
		curryLen = 5
	}
	c20Lists(curryOps, 1, curryLen, func(ops []string) {
		body := concrete(ops)
		for _, n := range []int{-1, 0, 1, 2, 3, 5} {
			out("curry_exhaustive", fmt.Sprintf("cu G %d: %s", n, body))
			if len(ops) <= 3 {
				out("curry_exhaustive", fmt.Sprintf("cu I %d: %s", n, body))
			}
		}
	})
	for i := 0; i < 300; i++ {
		n := 1 + rng.Intn(40)
		ops := make([]string, n)
		for j := range ops {
			r := rng.Intn(100)
			switch {
			case r < 35:
				ops[j] = "c1"
			case r < 55:
				ops[j] = "c2"
			case r < 60:
				ops[j] = "c0"
			case r < 63:
				ops[j] = "d"
			case r < 82:
				ops[j] = "r"
			default:
				ops[j] = "i"
			}
		}
		out("curry_random", fmt.Sprintf("cu %s %d: %s", []string{"G", "I"}[rng.Intn(2)], rng.Intn(30)-2, concrete(ops)))
	}

	// ---- caller-owned argument slices: a buffer with spare capacity spread into Calls of two CurryDefs,
	// overwritten and re-used in between (the accumulator must be the CurryDef's own storage)
	for _, l := range []string{
		"cw G 4: b:2:1,2 ; A ; w:0:30 ; w:1:40 ; A ; rA",
		"cw G 4: b:8:1,2 ; A ; B ; A:7 ; B:8 ; A:0 ; B:9 ; rA ; rB ; v",
		"cw G -1: b:8:1,2 ; A ; A:7 ; v", "cw G -1: b:8:1,2 ; A ; w:0:5 ; A:7 ; b:8:3 ; A ; B ; v",
		"cw I 4: b:8:1,2 ; A ; B ; A:7 ; B:8 ; A:0 ; B:9 ; rA ; rB ; v",
	} {
		out("curry_caller_slice", l)
	}
	cwOps := []string{"A", "B", "w:0:30", "w:1:40", "A:7", "B:8", "b:8:3,4", "A:-"}
	cwLen := 4
	if thorough {
		cwLen = 5
	}
	c20Lists(cwOps, 1, cwLen, func(ops []string) {
		body := strings.Join(ops, " ; ")
		for _, start := range []string{"b:8:1,2", "b:2:1,2"} {
			for _, n := range []int{-1, 4} {
				out("curry_caller_slice", fmt.Sprintf("cw G %d: %s ; %s ; A:0 ; B:9 ; rA ; rB ; v", n, start, body))
			}
		}
	})
	for i := 0; i < 400; i++ {
		m := 2 + rng.Intn(14)
		ops := make([]string, m)
		for j := range ops {
			switch r := rng.Intn(100); {
			case r < 22:
				ops[j] = "A"
			case r < 44:
				ops[j] = "B"
			case r < 58:
				ops[j] = fmt.Sprintf("w:%d:%d", rng.Intn(4), 50+rng.Intn(40))
			case r < 68:
				ops[j] = fmt.Sprintf("A:%d", 10+rng.Intn(9))
			case r < 78:
				ops[j] = fmt.Sprintf("B:%d,%d", 20+rng.Intn(9), 30+rng.Intn(9))
			case r < 86:
				ops[j] = fmt.Sprintf("b:%d:%d,%d,%d", rng.Intn(12), rng.Intn(9), rng.Intn(9), rng.Intn(9))
			case r < 92:
				ops[j] = "v"
			case r < 96:
				ops[j] = "rA"
			default:
				ops[j] = "rB"
			}
		}
		out("curry_caller_slice_random", fmt.Sprintf("cw %s %d: b:%d:1,2 ; %s ; v", []string{"G", "G", "I"}[rng.Intn(3)], rng.Intn(24)-2, 2+rng.Intn(8), strings.Join(ops, " ; ")))
	}

	// ---- concurrent CurryDef.Call stress (monitor)
	stressG := []int{2, 4, 8}
	stressM := []int{20, 150}
	if thorough {
		stressG = []int{2, 3, 4, 8, 16, 32}
		stressM = []int{20, 150, 600}
	}
	for _, g := range stressG {
		for _, m := range stressM {
			for _, a := range []int{1, 3} {
				for _, n := range []int{-1, -2, 7, g * m * a / 2, g*m*a + 5} {
					for _, y := range []int{0, 1, 2} {
						out("curry_stress", fmt.Sprintf("cs %d %d %d %d %d", g, m, a, n, y))
					}
				}
			}
		}
	}

	// inversion probe (y = 3): the first invocation lingers; done at the second Call / never / beyond
	for _, g := range stressG {
		for _, a := range []int{1, 3} {
			for _, n := range []int{2 * a, -1, g*20*a + 5} {
				out("curry_stress", fmt.Sprintf("cs %d 20 %d %d 3", g, a, n))
			}
		}
	}

	// ---- pattern matching: every ordered subset of the five kinds x every probe
	subsets := 0
	for pi, probe := range c20Probes {
		c20OrderedSubsets(5, func(kinds []int) {
			subsets++
			k := len(kinds)
			var masks []int
			if thorough || k <= 4 {
				for mk := 0; mk < 1<<uint(k); mk++ {
					masks = append(masks, mk)
				}
			} else {
				masks = append(masks, 0)
				if k > 0 {
					masks = append(masks, 1<<uint(k)-1)
					for i := 0; i < k; i++ {
						masks = append(masks, 1<<uint(i))
					}
					if k > 1 {
						masks = append(masks, rng.Intn(1<<uint(k)))
					}
				}
			}
			for mi, mk := range masks {
				pats := make([]string, k)
				for i, kd := range kinds {
					pats[i] = c20PatFor(kd, probe, mk&(1<<uint(i)) != 0)
				}
				mode := "m"
				if (pi+mi+k)%5 == 0 {
					mode = "e"
				}
				body := strings.Join(pats, " ; ")
				if k == 0 {
					body = "-"
				}
				out("match_subsets", fmt.Sprintf("%s %s: %s", mode, probe, body))
			}
		})
	}
	// random pattern lists with repeats and cross-type parameters
	eqPool := []string{}
	for _, p := range c20Probes {
		if c20Comparable(p) {
			eqPool = append(eqPool, p)
		}
	}
	rxPool := []string{"lit:abc", "lit:b", "lit:", "pre:ab", "pre:bc", "suf:bc", "suf:ab", "full:abc", "full:", "dig", "any", "bad", "lit:12", "pre:1", "lit:world", "lit:5", "lit:42"}
	kindPool := []int{0, 1, 2, 3, 6, 7, 8, 12, 13, 14, 21, 22, 23, 24, 25, 17}
	nMatchRand := 4000
	if thorough {
		nMatchRand = 60000
	}
	for i := 0; i < nMatchRand; i++ {
		probe := c20Probes[rng.Intn(len(c20Probes))]
		n := rng.Intn(9)
		pats := make([]string, n)
		for j := range pats {
			switch r := rng.Intn(100); {
			case r < 25:
				pats[j] = "K:" + strconv.Itoa(kindPool[rng.Intn(len(kindPool))])
			case r < 50:
				if rng.Intn(3) == 0 {
					pats[j] = c20PatFor(1, probe, rng.Intn(2) == 0)
				} else {
					pats[j] = "E:" + eqPool[rng.Intn(len(eqPool))]
				}
			case r < 70:
				pats[j] = "R:" + rxPool[rng.Intn(len(rxPool))]
			case r < 92:
				if rng.Intn(3) == 0 {
					pats[j] = c20PatFor(3, probe, true)
				} else {
					pats[j] = "T:" + c20CompTypes[rng.Intn(len(c20CompTypes))]
				}
			default:
				pats[j] = "O"
			}
		}
		body := strings.Join(pats, " ; ")
		if n == 0 {
			body = "-"
		}
		out("match_random", fmt.Sprintf("%s %s: %s", []string{"m", "e"}[rng.Intn(2)], probe, body))
	}

	// ---- sum / product / nil types, NewCompData, MatchCompType
	objLen := 2
	if thorough {
		objLen = 3
	}
	c20Lists(c20ObjAtoms, 0, objLen, func(objs []string) {
		os := strings.Join(objs, ",")
		if len(objs) == 0 {
			os = "-"
		}
		for ti, t := range c20CompTypes {
			out("comptype", fmt.Sprintf("nd %s %s", t, os))
			out("comptype", fmt.Sprintf("tm %s %s", t, os))
			out("comptype", fmt.Sprintf("mc %s %s %s", c20CompTypes[(ti+len(objs)+1)%len(c20CompTypes)], t, os))
		}
	})
	for i := 0; i < 1500; i++ {
		n := rng.Intn(5)
		objs := make([]string, n)
		for j := range objs {
			objs[j] = c20ObjAtoms[rng.Intn(len(c20ObjAtoms))]
		}
		os := strings.Join(objs, ",")
		if n == 0 {
			os = "-"
		}
		// a product type tuned to the objects, possibly perturbed, inside a random sum
		ks := make([]string, n)
		for j, o := range objs {
			ks[j] = strconv.Itoa(c20AtomJustKind(o))
		}
		if n > 0 && rng.Intn(3) == 0 {
			ks[rng.Intn(n)] = strconv.Itoa(kindPool[rng.Intn(len(kindPool))])
		}
		if n > 1 && rng.Intn(6) == 0 {
			ks[0], ks[n-1] = ks[n-1], ks[0]
		}
		t := "P." + strconv.Itoa(n)
		if n > 0 {
			t += "." + strings.Join(ks, ".")
		}
		switch rng.Intn(4) {
		case 0:
			t = "S.2.N." + t
		case 1:
			t = "S.3.P.1.2." + t + ".N"
		case 2:
			t = "S.2.S.1." + t + ".P.0"
		}
		out("comptype_random", fmt.Sprintf("nd %s %s", t, os))
		out("comptype_random", fmt.Sprintf("mc %s %s %s", c20CompTypes[rng.Intn(len(c20CompTypes))], t, os))
	}

	stats := map[string]interface{}{
		"exhaustive": false,
		"scopes": map[string]interface{}{
			"compose_pipe":  "all lists of length 1..6 over 4 pairwise non-commuting functions x -> 4x+i (every list gives a distinct output) x Compose/Pipe(+Interface); length 1.." + strconv.Itoa(mixLen) + " over 8 mixed list functions; every regrouping split of lists of length 2..5",
			"adapters":      "MakeVariadicParam1..6 x 0..8 args, MakeVariadicReturn1..6, CurryParam1..6/ForSlice1 x 0..4 args, MakeNumericReturn* + random",
			"trampoline":    "done-at 1..8 x error-at -1..8 x error-with-done x 5 inputs + random up to 40 iterations + long runs (257..10001 iterations, thorough ..32769; done / late error)",
			"curry":         "all scripts of length 1.." + strconv.Itoa(curryLen) + " over Call(1 arg)/Call(2 args)/Call()/MarkDone/Result/IsDone x 6 done-thresholds; random scripts up to 40 ops; concurrent stress",
			"match":         fmt.Sprintf("%d probe values x every ordered subset of the 5 pattern kinds (326) x tuned/untuned parameter masks; random lists up to 8 patterns", len(c20Probes)),
			"comptype":      fmt.Sprintf("%d types x all object lists of length 0..%d over %d atoms x NewCompData/Matches/MatchCompType", len(c20CompTypes), objLen, len(c20ObjAtoms)),
			"ordered_subset_instances": subsets,
		},
		"classes": counts,
	}
	return stats
}
