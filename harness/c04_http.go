package main

// C04, family "H:" — network/simpleHTTP.go uses a Stream for its interceptor list and relies on its persistence.
//
//	a0=arr <len> <ids>      the CALLER's []*Interceptor: storage = ids (cap = count), length <len>
//	a1=sub a0 lo hi         a0[lo:hi]
//	wr a0 i id              caller writes its own slice
//	h0=http a0              NewSimpleHTTPWithClientAndInterceptors(client, a0...)   (spread: wraps the caller's slice)
//	hadd h0 ids | hrem h0 ids | hclear h0     AddInterceptor / RemoveInterceptor / ClearInterceptor
//
// After EVERY op: the caller's slices up to cap (by interceptor id) and each instance's interceptor list, obtained by
// sending a request through the instance (RoundTrip) with a stub transport — every interceptor logs its id.

import (
	"io"
	"math/rand"
	"net/http"
	"strconv"
	"strings"

	"github.com/TeaEntityLab/fpGo/v2/network"
)

type c04HStub struct{}

func (c04HStub) RoundTrip(r *http.Request) (*http.Response, error) {
	return &http.Response{StatusCode: 200, Status: "200 OK", Proto: "HTTP/1.1", ProtoMajor: 1, ProtoMinor: 1,
		Header: http.Header{}, Body: io.NopCloser(strings.NewReader("{}")), Request: r}, nil
}

type c04HObj struct {
	name string
	arr  []*network.Interceptor
	h    *network.SimpleHTTPDef
}

type c04HState struct {
	objs []*c04HObj
	ptrs map[int]*network.Interceptor
	ids  map[*network.Interceptor]int
	log  []int
}

func (st *c04HState) ptr(id int) *network.Interceptor {
	if p, ok := st.ptrs[id]; ok {
		return p
	}
	var f network.Interceptor = func(*http.Request) error { st.log = append(st.log, id); return nil }
	p := &f
	st.ptrs[id] = p
	st.ids[p] = id
	return p
}

func (st *c04HState) find(name string) *c04HObj {
	for _, o := range st.objs {
		if o.name == name {
			return o
		}
	}
	return nil
}

func (st *c04HState) idList(l []*network.Interceptor) string {
	parts := make([]string, len(l))
	for i, p := range l {
		if id, ok := st.ids[p]; ok {
			parts[i] = strconv.Itoa(id)
		} else {
			parts[i] = "-777"
		}
	}
	return strings.Join(parts, ",")
}

func (st *c04HState) dump() string {
	parts := make([]string, len(st.objs))
	for i, o := range st.objs {
		if o.h != nil {
			st.log = nil
			req, _ := http.NewRequest(http.MethodGet, "http://c04.invalid/", nil)
			func() {
				defer func() {
					if r := recover(); r != nil {
						st.log = append(st.log, -888)
					}
				}()
				if resp, err := o.h.RoundTrip(req); err == nil && resp != nil && resp.Body != nil {
					resp.Body.Close()
				}
			}()
			parts[i] = o.name + "=[" + c04Ints(st.log) + "]"
			continue
		}
		s := "[" + st.idList(o.arr)
		if cap(o.arr) > len(o.arr) {
			s += "|" + st.idList(o.arr[len(o.arr):cap(o.arr)])
		}
		parts[i] = o.name + "=" + s + "]"
	}
	return strings.Join(parts, " ")
}

func (st *c04HState) runOp(tok string) (out string) {
	defer func() {
		if r := recover(); r != nil {
			out = "panic"
		}
	}()
	ws := strings.Fields(tok)
	if len(ws) == 0 {
		return c04BadOp
	}
	ptrList := func(s string) ([]*network.Interceptor, bool) {
		ids, ok := c04ParseInts(s)
		if !ok {
			return nil, false
		}
		r := make([]*network.Interceptor, len(ids))
		for i, id := range ids {
			r[i] = st.ptr(id)
		}
		return r, true
	}
	if i := strings.Index(ws[0], "="); i >= 0 {
		dst, name, args := ws[0][:i], ws[0][i+1:], ws[1:]
		if dst == "" || name == "" {
			return c04BadOp
		}
		switch {
		case name == "arr" && len(args) == 2:
			l, err := strconv.Atoi(args[0])
			store, ok := ptrList(args[1])
			if err != nil || !ok || l < 0 || l > len(store) {
				return c04BadOp
			}
			st.objs = append(st.objs, &c04HObj{name: dst, arr: store[:l:len(store)]})
			return "ok"
		case name == "sub" && len(args) == 3:
			lo, e1 := strconv.Atoi(args[1])
			hi, e2 := strconv.Atoi(args[2])
			if e1 != nil || e2 != nil || lo < 0 || hi < 0 {
				return c04BadOp
			}
			a := st.find(args[0])
			if a == nil || a.h != nil {
				return c04BadRef
			}
			if !(lo <= hi && hi <= cap(a.arr)) {
				return c04BadOp
			}
			st.objs = append(st.objs, &c04HObj{name: dst, arr: a.arr[lo:hi]})
			return "ok"
		case name == "http" && len(args) == 1:
			a := st.find(args[0])
			if a == nil || a.h != nil {
				return c04BadRef
			}
			h := network.NewSimpleHTTPWithClientAndInterceptors(&http.Client{Transport: c04HStub{}}, a.arr...)
			st.objs = append(st.objs, &c04HObj{name: dst, h: h})
			return "ok"
		}
		return c04BadOp
	}
	switch {
	case ws[0] == "wr" && len(ws) == 4:
		i, e1 := strconv.Atoi(ws[2])
		v, e2 := strconv.Atoi(ws[3])
		if e1 != nil || e2 != nil || i < 0 {
			return c04BadOp
		}
		a := st.find(ws[1])
		if a == nil || a.h != nil {
			return c04BadRef
		}
		if i >= len(a.arr) {
			return c04BadOp
		}
		a.arr[i] = st.ptr(v)
		return "ok"
	case (ws[0] == "hadd" || ws[0] == "hrem") && len(ws) == 3:
		l, ok := ptrList(ws[2])
		if !ok {
			return c04BadOp
		}
		h := st.find(ws[1])
		if h == nil || h.h == nil {
			return c04BadRef
		}
		if ws[0] == "hadd" {
			h.h.AddInterceptor(l...)
		} else {
			h.h.RemoveInterceptor(l...)
		}
		return "ok"
	case ws[0] == "hclear" && len(ws) == 2:
		h := st.find(ws[1])
		if h == nil || h.h == nil {
			return c04BadRef
		}
		h.h.ClearInterceptor()
		return "ok"
	}
	return c04BadOp
}

func c04HRun(body string) string {
	st := &c04HState{ptrs: map[int]*network.Interceptor{}, ids: map[*network.Interceptor]int{}}
	var outs []string
	for _, t := range strings.Split(body, ";") {
		t = strings.TrimSpace(t)
		if t == "" {
			continue
		}
		o := st.runOp(t)
		outs = append(outs, o+" "+st.dump())
	}
	return strings.Join(outs, " | ")
}

// all programs of length <= 3 over the bookkeeping alphabet on two instances built from ONE caller slice
// (spare capacity 0..2, and one instance over a sub-slice), plus random longer ones
func c04HGen(tier string, rng *rand.Rand, emit func(string)) (exhaustive, random int) {
	setups := []string{
		"a0=arr 2 1,2,9,9 ; h0=http a0 ; h1=http a0",
		"a0=arr 2 1,2,9 ; h0=http a0 ; h1=http a0",
		"a0=arr 2 1,2 ; h0=http a0 ; h1=http a0",
		"a0=arr 0 9,9 ; h0=http a0 ; h1=http a0",
		"a0=arr 3 1,2,1,9,9 ; a1=sub a0 0 1 ; h0=http a1 ; h1=http a0",
		"a0=arr 1 1,9,9 ; h0=http a0",
	}
	alpha := []string{"hadd h0 5", "hadd h1 6", "hadd h0 7,8", "hadd h1 3,4", "hadd h0 -", "hrem h0 1", "hrem h1 2", "hrem h0 1,5", "hrem h1 9",
		"hclear h0", "hclear h1", "wr a0 0 3"}
	maxLen := 3
	if tier == "thorough" {
		maxLen = 4
	}
	for _, su := range setups {
		emit("H: " + su)
		var rec func(prefix []string)
		rec = func(prefix []string) {
			if len(prefix) > 0 {
				emit("H: " + su + " ; " + strings.Join(prefix, " ; "))
				exhaustive++
			}
			if len(prefix) == maxLen {
				return
			}
			for _, a := range alpha {
				if strings.Contains(a, "h1") && !strings.Contains(su, "h1=") {
					continue
				}
				rec(append(append([]string{}, prefix...), a))
			}
		}
		rec(nil)
	}
	nRandom := 300
	if tier == "thorough" {
		nRandom = 3000
	}
	for i := 0; i < nRandom; i++ {
		total := 1 + rng.Intn(5)
		vals := make([]string, total)
		for j := range vals {
			vals[j] = strconv.Itoa(1 + rng.Intn(4))
		}
		l := total - rng.Intn(3)
		if l < 0 {
			l = 0
		}
		toks := []string{"a0=arr " + strconv.Itoa(l) + " " + strings.Join(vals, ",")}
		nh := 1 + rng.Intn(3)
		for h := 0; h < nh; h++ {
			toks = append(toks, "h"+strconv.Itoa(h)+"=http a0")
		}
		n := 1 + rng.Intn(20)
		for j := 0; j < n; j++ {
			h := "h" + strconv.Itoa(rng.Intn(nh))
			ids := strconv.Itoa(1 + rng.Intn(6))
			if rng.Intn(3) == 0 {
				ids += "," + strconv.Itoa(1+rng.Intn(6))
			}
			switch r := rng.Intn(10); {
			case r < 5:
				toks = append(toks, "hadd "+h+" "+ids)
			case r < 8:
				toks = append(toks, "hrem "+h+" "+ids)
			case r < 9:
				toks = append(toks, "hclear "+h)
			default:
				toks = append(toks, "wr a0 "+strconv.Itoa(rng.Intn(3))+" "+strconv.Itoa(1+rng.Intn(6)))
			}
		}
		emit("H: " + strings.Join(toks, " ; "))
		random++
	}
	return
}
