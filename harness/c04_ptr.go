package main

// C04, family "P:" — generic streams whose ELEMENT type is a pointer: fpgo.StreamDef[*int].
// Code -1 is the nil pointer, every other code c is the (interned, one cell per code) pointer to an int holding c, so
// pointer equality is code equality.  Only the element-generic Stream operations are driven here; the point is
// FilterNotNil (an absent element is a nil pointer, not only an untyped nil) and that nil elements travel unharmed
// through every other operation.  Tokens and dump format are those of the G/I families.

import (
	"strconv"
	"strings"

	fpgo "github.com/TeaEntityLab/fpGo/v2"
)

type c04PObj struct {
	name string
	kind byte // 'a' caller slice, 's' stream, 'l' caller-owned list of streams / of slices
	full bool
	arr  []*int
	s    *fpgo.StreamDef[*int]
	sl   []*fpgo.StreamDef[*int]
	al   [][]*int
	lk   byte
}

type c04PState struct{ objs []*c04PObj }

func c04PEnc(c int) *int {
	if c == -1 {
		return nil
	}
	return c04Cell(c)
}

func c04PDec(p *int) int {
	if p == nil {
		return -1
	}
	return *p
}

func c04PEncList(l []int) []*int {
	r := make([]*int, len(l))
	for i, c := range l {
		r[i] = c04PEnc(c)
	}
	return r
}

func c04PInts(l []*int) string {
	parts := make([]string, len(l))
	for i, p := range l {
		parts[i] = strconv.Itoa(c04PDec(p))
	}
	return strings.Join(parts, ",")
}

func (st *c04PState) find(name string) *c04PObj {
	for _, o := range st.objs {
		if o.name == name {
			return o
		}
	}
	return nil
}

func (st *c04PState) str(name string) *c04PObj {
	o := st.find(name)
	if o == nil || o.kind != 's' || o.s == nil {
		return nil
	}
	return o
}

func (st *c04PState) strArg(name string) (*c04PObj, bool) {
	if name == "nil" {
		return nil, true
	}
	o := st.find(name)
	if o == nil || o.kind != 's' {
		return nil, false
	}
	if o.s == nil {
		return nil, true
	}
	return o, true
}

func (st *c04PState) arrObj(name string) *c04PObj {
	o := st.find(name)
	if o == nil || o.kind != 'a' {
		return nil
	}
	return o
}

func (st *c04PState) dump() string {
	parts := make([]string, len(st.objs))
	for i, o := range st.objs {
		switch o.kind {
		case 'a':
			s := "[" + c04PInts(o.arr)
			if o.full && cap(o.arr) > len(o.arr) {
				s += "|" + c04PInts(o.arr[len(o.arr):cap(o.arr)])
			}
			parts[i] = o.name + "=" + s + "]"
		case 's':
			if o.s == nil {
				parts[i] = o.name + "=nil"
			} else {
				parts[i] = o.name + "=[" + c04PInts([]*int(*o.s)) + "]"
			}
		case 'l':
			var ms []string
			if o.lk == 's' {
				for _, m := range o.sl {
					if m == nil {
						ms = append(ms, "nil")
					} else {
						ms = append(ms, "["+c04PInts([]*int(*m))+"]")
					}
				}
			} else {
				for _, m := range o.al {
					if m == nil {
						ms = append(ms, "nil")
					} else {
						ms = append(ms, "["+c04PInts(m)+"]")
					}
				}
			}
			parts[i] = o.name + "=(" + strings.Join(ms, "/") + ")"
		}
	}
	return strings.Join(parts, " ")
}

func (st *c04PState) add(o *c04PObj) string { st.objs = append(st.objs, o); return "ok" }

func (st *c04PState) runOp(tok string) (out string) {
	defer func() {
		if r := recover(); r != nil {
			out = "panic"
		}
	}()
	ws := strings.Fields(tok)
	if len(ws) == 0 {
		return c04BadOp
	}
	atoi := func(s string) (int, bool) { v, err := strconv.Atoi(s); return v, err == nil }
	newS := func(dst string, s *fpgo.StreamDef[*int]) string { return st.add(&c04PObj{name: dst, kind: 's', s: s}) }
	if i := strings.Index(ws[0], "="); i >= 0 {
		dst, name, args := ws[0][:i], ws[0][i+1:], ws[1:]
		n := len(args)
		if dst == "" || name == "" {
			return c04BadOp
		}
		switch {
		case name == "arr" && n == 2:
			l, ok1 := atoi(args[0])
			vals, ok2 := c04ParseInts(args[1])
			if !ok1 || !ok2 || l < 0 || l > len(vals) {
				return c04BadOp
			}
			store := c04PEncList(vals)
			return st.add(&c04PObj{name: dst, kind: 'a', full: true, arr: store[:l:len(store)]})
		case name == "sub" && n == 3:
			lo, ok1 := atoi(args[1])
			hi, ok2 := atoi(args[2])
			if !ok1 || !ok2 || lo < 0 || hi < 0 {
				return c04BadOp
			}
			a := st.arrObj(args[0])
			if a == nil {
				return c04BadRef
			}
			if !(lo <= hi && hi <= cap(a.arr)) {
				return c04BadOp
			}
			return st.add(&c04PObj{name: dst, kind: 'a', full: a.full, arr: a.arr[lo:hi]})
		case (name == "from" || name == "fromv") && n == 1:
			a := st.arrObj(args[0])
			if a == nil {
				return c04BadRef
			}
			if name == "from" {
				return newS(dst, fpgo.StreamFromArray(a.arr))
			}
			return newS(dst, fpgo.StreamFrom(a.arr...))
		case name == "toarr" && n == 1:
			s := st.str(args[0])
			if s == nil {
				return c04BadRef
			}
			return st.add(&c04PObj{name: dst, kind: 'a', arr: s.s.ToArray()})
		case (name == "inter" || name == "minus") && n == 2:
			s := st.str(args[0])
			a, ok := st.strArg(args[1])
			if s == nil || !ok {
				return c04BadRef
			}
			var arg *fpgo.StreamDef[*int]
			if a != nil {
				arg = a.s
			}
			if name == "inter" {
				return newS(dst, s.s.Intersection(arg))
			}
			return newS(dst, s.s.Minus(arg))
		case name == "extend" && n >= 1:
			s := st.str(args[0])
			if s == nil {
				return c04BadRef
			}
			var list []*fpgo.StreamDef[*int]
			for _, an := range args[1:] {
				a, ok := st.strArg(an)
				if !ok {
					return c04BadRef
				}
				if a == nil {
					list = append(list, nil)
				} else {
					list = append(list, a.s)
				}
			}
			return newS(dst, s.s.Extend(list...))
		case name == "concat" && n >= 1:
			s := st.str(args[0])
			if s == nil {
				return c04BadRef
			}
			var list [][]*int
			for _, an := range args[1:] {
				if an == "nil" {
					list = append(list, nil)
					continue
				}
				a := st.arrObj(an)
				if a == nil {
					return c04BadRef
				}
				list = append(list, a.arr)
			}
			return newS(dst, s.s.Concat(list...))
		case (name == "slist" || name == "alist") && n == 1:
			o := &c04PObj{name: dst, kind: 'l', lk: name[0]}
			for _, mn := range strings.Split(args[0], ",") {
				if name == "slist" {
					a, ok := st.strArg(mn)
					if !ok {
						return c04BadRef
					}
					if a == nil {
						o.sl = append(o.sl, nil)
					} else {
						o.sl = append(o.sl, a.s)
					}
					continue
				}
				if mn == "nil" {
					o.al = append(o.al, nil)
					continue
				}
				a := st.arrObj(mn)
				if a == nil {
					return c04BadRef
				}
				o.al = append(o.al, a.arr)
			}
			o.sl, o.al = o.sl[:len(o.sl):len(o.sl)], o.al[:len(o.al):len(o.al)]
			return st.add(o)
		case (name == "extendv" || name == "concatv") && n == 2:
			s := st.str(args[0])
			l := st.find(args[1])
			if l == nil || l.kind != 'l' || s == nil || (name == "extendv") != (l.lk == 's') {
				return c04BadRef
			}
			if name == "extendv" {
				return newS(dst, s.s.Extend(l.sl...))
			}
			return newS(dst, s.s.Concat(l.al...))
		case (name == "appendv" || name == "rmitemv") && n == 2:
			s := st.str(args[0])
			a := st.arrObj(args[1])
			if s == nil || a == nil {
				return c04BadRef
			}
			if name == "appendv" {
				return newS(dst, s.s.Append(a.arr...))
			}
			return newS(dst, s.s.RemoveItem(a.arr...))
		}
		// unary transformers
		known := map[string]int{"map": 2, "filter": 2, "reject": 2, "notnil": 1, "distinct": 1, "clone": 1, "reverse": 1,
			"sort": 2, "sortidx": 2, "rmitem": 2, "append": 2, "remove": 2}
		want, ok := known[name]
		if !ok || n != want {
			return c04BadOp
		}
		k := 0
		var vs []int
		if want == 2 {
			if name == "rmitem" || name == "append" {
				var ok bool
				if vs, ok = c04ParseInts(args[1]); !ok {
					return c04BadOp
				}
			} else {
				var ok bool
				if k, ok = atoi(args[1]); !ok || (k < 0 && name != "remove") {
					return c04BadOp
				}
			}
		}
		s := st.str(args[0])
		if s == nil {
			return c04BadRef
		}
		r := s.s
		switch name {
		case "map":
			return newS(dst, r.Map(func(x *int, i int) *int { return c04PEnc(c04MapFn(k, c04PDec(x), i)) }))
		case "filter":
			return newS(dst, r.Filter(func(x *int, i int) bool { return c04PredFn(k, c04PDec(x), i) }))
		case "reject":
			return newS(dst, r.Reject(func(x *int, i int) bool { return c04PredFn(k, c04PDec(x), i) }))
		case "notnil":
			return newS(dst, r.FilterNotNil())
		case "distinct":
			return newS(dst, r.Distinct())
		case "clone":
			return newS(dst, r.Clone())
		case "reverse":
			return newS(dst, r.Reverse())
		case "sort":
			return newS(dst, r.Sort(func(a, b *int) bool { return c04LessFn(k, c04PDec(a), c04PDec(b)) }))
		case "sortidx":
			return newS(dst, r.SortByIndex(func(a, b int) bool { return c04LessFn(k, c04PDec((*r)[a]), c04PDec((*r)[b])) }))
		case "rmitem":
			return newS(dst, r.RemoveItem(c04PEncList(vs)...))
		case "append":
			return newS(dst, r.Append(c04PEncList(vs)...))
		case "remove":
			return newS(dst, r.Remove(k))
		}
		return c04BadOp
	}
	n := len(ws) - 1
	switch {
	case ws[0] == "wr" && n == 3:
		i, ok1 := atoi(ws[2])
		v, ok2 := atoi(ws[3])
		if !ok1 || !ok2 || i < 0 {
			return c04BadOp
		}
		a := st.arrObj(ws[1])
		if a == nil {
			return c04BadRef
		}
		if i >= len(a.arr) {
			return c04BadOp
		}
		a.arr[i] = c04PEnc(v)
		return "ok"
	case ws[0] == "len" && n == 1:
		s := st.str(ws[1])
		if s == nil {
			return c04BadRef
		}
		return "n " + strconv.Itoa(s.s.Len())
	case ws[0] == "get" && n == 2:
		i, ok := atoi(ws[2])
		if !ok {
			return c04BadOp
		}
		s := st.str(ws[1])
		if s == nil {
			return c04BadRef
		}
		return "v " + strconv.Itoa(c04PDec(s.s.Get(i)))
	case ws[0] == "has" && n == 2:
		v, ok := atoi(ws[2])
		if !ok {
			return c04BadOp
		}
		s := st.str(ws[1])
		if s == nil {
			return c04BadRef
		}
		return c04Bool(s.s.Contains(c04PEnc(v)))
	case (ws[0] == "subset" || ws[0] == "superset") && n == 2:
		s := st.str(ws[1])
		a, ok := st.strArg(ws[2])
		if s == nil || !ok {
			return c04BadRef
		}
		var arg *fpgo.StreamDef[*int]
		if a != nil {
			arg = a.s
		}
		if ws[0] == "subset" {
			return c04Bool(s.s.IsSubset(arg))
		}
		return c04Bool(s.s.IsSuperset(arg))
	}
	return c04BadOp
}

func c04PRun(body string) string {
	st := &c04PState{}
	var outs []string
	for _, t := range strings.Split(body, ";") {
		t = strings.TrimSpace(t)
		if t == "" {
			continue
		}
		o := st.runOp(t)
		outs = append(outs, o+" "+st.dump())
	}
	return strings.Join(outs, " | ")
}
