package main

// C17 — SimpleAPI sends exactly the request it was defined with, lazily, and decodes it.
//
// Case line (strings hex-encoded, see lean/FpgoVerif/Model/C17.lean):
//
//	base=<hex> hdr=<nil|-|Khex~vhex,vhex+…> ctor=<Get|Delete|PostJSONBody|…|Do|DoBody|DoMP> m=<hex> ct=<hex> tmpl=<hex>: op ; op ; …
//	ops:  call <params> <body>       params: nil | - | khex=s<vhex>,khex=i<int>    body: nil | j<ahex>:<n> | f- | f<khex>=<vhex>,…
//	                                 (further value kinds: l<int> int64, b<0|1> bool, t<vhex> defined string type, g<vhex> fmt.Stringer)
//	      eval <io index> <fault> <resp>     fault: none|ser|tx[kind]|read|readmid|dec|dect
//	                                          resp: <body>[@<status>], body = ok<vhex>:<k> | big<k> | empty | ws | null | obj0 | garbage | arr | bad
//	                                          (<status> = HTTP status of the stub's response, 200 if absent; the property decodes
//	                                          the body whatever the status is)
//	      mut (add a header to the request that was sent last) | dh (print DefaultHeader) | sent (transport calls so far)
//
// The API talks to a stub http.RoundTripper (no network) that records method, URL, headers and body and injects
// failures.  Observation per op, joined by " | ":
//
//	io <sent> | n=<k> [<mhex> <urlhex> <hdr> <body>] err=<class> tgt=<nil|vhex:k> | nil | hdr <hdr> | sent <k> | panic

import (
	"bytes"
	"context"
	"encoding/hex"
	"encoding/json"
	"errors"
	"fmt"
	"io"
	"math/rand"
	"mime"
	"mime/multipart"
	"net"
	"net/http"
	"net/url"
	"os"
	"sort"
	"strconv"
	"strings"
	"syscall"
	"time"

	fpgo "github.com/TeaEntityLab/fpGo/v2"
	"github.com/TeaEntityLab/fpGo/v2/network"
)

type c17Body struct {
	A string
	N int
}
type c17Target struct {
	V string
	K int
}

// c17NetErr is a net.Error-style failure (Temporary()/Timeout()), as a dial timeout or a reset connection reports itself.
type c17NetErr struct {
	msg           string
	temp, timeout bool
}

func (e *c17NetErr) Error() string   { return e.msg }
func (e *c17NetErr) Temporary() bool { return e.temp }
func (e *c17NetErr) Timeout() bool   { return e.timeout }

var c17ErrKinds = []string{"plain", "temp", "timeout", "wrap", "dl", "reset", "etimedout", "url"}

// c17MakeErr builds a fresh error of the given kind; errors.Is(x, result) identifies it through any wrapping.
func c17MakeErr(kind, who string) error {
	switch kind {
	case "temp":
		return &c17NetErr{who + ": temporary failure", true, false}
	case "timeout":
		return &c17NetErr{who + ": i/o timeout", true, true}
	case "wrap":
		return fmt.Errorf("%s: wrapped: %w", who, &c17NetErr{"connection reset", true, false})
	case "dl":
		return fmt.Errorf("%s: %w", who, context.DeadlineExceeded)
	case "reset":
		return &net.OpError{Op: "read", Net: "tcp", Err: os.NewSyscallError("read", syscall.ECONNRESET)}
	case "etimedout":
		return &net.OpError{Op: "dial", Net: "tcp", Err: os.NewSyscallError("connect", syscall.ETIMEDOUT)}
	case "url":
		return &url.Error{Op: "Get", URL: "http://stub.test/", Err: &c17NetErr{who + ": temporary failure", true, true}}
	}
	return errors.New(who + ": injected failure")
}

var (
	c17ErrSer    = errors.New("injected serializer failure")
	c17ErrStream = errors.New("injected failure of the serializer's streaming reader")
	c17ErrTx     = errors.New("injected transport failure")
	c17ErrRead   = errors.New("injected body read failure")
	c17ErrDec    = errors.New("injected decoder failure")
)

type c17Str string

type c17Stringer struct{ s string }

func (x c17Stringer) String() string { return x.s }

type c17FailReader struct{}

func (c17FailReader) Read([]byte) (int, error) { return 0, c17ErrRead }

// c17SlowReader hands out one byte per Read; with failAfter >= 0 it fails after that many bytes.
type c17SlowReader struct {
	data      []byte
	failAfter int
	ctx       context.Context // like a real connection, the body cannot be read once the request's context is cancelled
	n         int
}

func (r *c17SlowReader) Read(p []byte) (int, error) {
	if r.ctx != nil && r.ctx.Err() != nil {
		return 0, r.ctx.Err()
	}
	if r.failAfter >= 0 && r.n >= r.failAfter {
		return 0, c17ErrRead
	}
	if r.n >= len(r.data) {
		return 0, io.EOF
	}
	if len(p) == 0 {
		return 0, nil
	}
	p[0] = r.data[r.n]
	r.n++
	return 1, nil
}

type c17Stub struct {
	fault string
	resp  string
	txErr error
	recs  []string
	last  *http.Request
}

func hx(s string) string { return hex.EncodeToString([]byte(s)) }
func unhx(s string) string {
	b, _ := hex.DecodeString(s)
	return string(b)
}

// c17RawURL re-assembles the string net/url parsed (scheme://host + raw path [+ ?query] [+ #fragment]).
func c17RawURL(u *url.URL) string {
	p := u.RawPath
	if p == "" {
		p = u.EscapedPath()
	}
	s := u.Scheme + "://" + u.Host + p
	if u.ForceQuery || u.RawQuery != "" {
		s += "?" + u.RawQuery
	}
	f := u.RawFragment
	if f == "" {
		f = u.EscapedFragment()
	}
	if f != "" {
		s += "#" + f
	}
	return s
}

func c17Header(h http.Header) string {
	if h == nil {
		return "nil"
	}
	if len(h) == 0 {
		return "-"
	}
	keys := make([]string, 0, len(h))
	for k := range h {
		keys = append(keys, k)
	}
	sort.Strings(keys)
	parts := make([]string, len(keys))
	for i, k := range keys {
		vs := make([]string, len(h[k]))
		for j, v := range h[k] {
			if k == "Content-Type" && strings.HasPrefix(v, "multipart/form-data; boundary=") {
				v = "multipart/form-data; boundary=*"
			}
			vs[j] = hx(v)
		}
		parts[i] = hx(k) + "~" + strings.Join(vs, ",")
	}
	return strings.Join(parts, "+")
}

// c17Stream is a streaming serializer output (deliberately not a *bytes.Reader / *bytes.Buffer / *strings.Reader): it delivers at
// most two bytes per Read and, with failAfter >= 0, fails with a non-EOF error once that many bytes (or the whole body) are out.
type c17Stream struct {
	r         io.Reader
	failAfter int
	n         int
}

func (s *c17Stream) Read(p []byte) (int, error) {
	if s.failAfter >= 0 && s.n >= s.failAfter {
		return 0, c17ErrStream
	}
	if len(p) > 2 {
		p = p[:2]
	}
	if s.failAfter >= 0 && len(p) > s.failAfter-s.n {
		p = p[:s.failAfter-s.n]
	}
	k, err := s.r.Read(p)
	s.n += k
	if err == io.EOF && s.failAfter >= 0 {
		return k, c17ErrStream
	}
	return k, err
}

func c17WrapStream(r io.Reader, fault string) io.Reader {
	if r == nil {
		return r
	}
	switch fault {
	case "sstream":
		return &c17Stream{r: r, failAfter: -1}
	case "sstreamk":
		return &c17Stream{r: r, failAfter: 3}
	case "sstream0":
		return &c17Stream{r: r, failAfter: 0}
	}
	return r
}

// c17BodyRecord reads the request body as a transport does while sending; a body that cannot be read to its end makes the
// round trip fail (record: how many bytes had arrived).
func c17BodyRecord(r *http.Request) (string, error) {
	if r.Body == nil || r.Body == http.NoBody {
		return "nil", nil
	}
	b, err := io.ReadAll(r.Body)
	if err != nil {
		return "sfail:" + strconv.Itoa(len(b)), err
	}
	return c17BodyRecordOf(r, b), nil
}

func c17BodyRecordOf(r *http.Request, b []byte) string {
	cts := r.Header["Content-Type"]
	for _, ct := range cts {
		mt, params, err := mime.ParseMediaType(ct)
		if err == nil && mt == "multipart/form-data" {
			mr := multipart.NewReader(bytes.NewReader(b), params["boundary"])
			var fields []string
			for {
				p, err := mr.NextPart()
				if err != nil {
					break
				}
				v, _ := io.ReadAll(p)
				fields = append(fields, hx(p.FormName())+"="+hx(string(v)))
			}
			sort.Strings(fields)
			return "mp:" + strings.Join(fields, ",")
		}
	}
	return "raw:" + hx(string(b))
}

func (s *c17Stub) RoundTrip(r *http.Request) (*http.Response, error) {
	s.last = r
	bodyRec, bodyErr := c17BodyRecord(r)
	s.recs = append(s.recs, "["+hx(r.Method)+" "+hx(c17RawURL(r.URL))+" "+c17Header(r.Header)+" "+bodyRec+"]")
	if bodyErr != nil {
		return nil, fmt.Errorf("http: error reading the request body: %w", bodyErr)
	}
	if strings.HasPrefix(s.fault, "tx") {
		s.txErr = c17MakeErr(strings.TrimPrefix(s.fault, "tx"), "transport")
		return nil, s.txErr
	}
	spec, statusStr, _ := strings.Cut(s.resp, "@")
	status := 200
	if n, err := strconv.Atoi(statusStr); err == nil {
		status = n
	}
	var data []byte
	switch {
	case strings.HasPrefix(spec, "big"):
		k, _ := strconv.Atoi(spec[3:])
		data, _ = json.Marshal(c17Target{V: strings.Repeat("a", 5000), K: k})
	case strings.HasPrefix(spec, "ok"):
		parts := strings.SplitN(spec[2:], ":", 2)
		k := 0
		if len(parts) >= 2 {
			k, _ = strconv.Atoi(parts[1])
		}
		data, _ = json.Marshal(c17Target{V: unhx(parts[0]), K: k})
	case spec == "empty":
		data = []byte{}
	case spec == "ws":
		data = []byte(" \n\t ")
	case spec == "null":
		data = []byte("null")
	case spec == "obj0":
		data = []byte(" {} ")
	case spec == "garbage":
		data = []byte("xyz{")
	case spec == "arr":
		data = []byte("[1]")
	default: // bad: truncated JSON
		data = []byte("{")
	}
	var body io.Reader = &c17SlowReader{data: data, failAfter: -1, ctx: r.Context()}
	if len(data) > 1000 {
		body = bytes.NewReader(data) // (big bodies in one piece: keeps the case fast)
	}
	switch s.fault {
	case "read":
		body = c17FailReader{}
	case "readmid":
		body = &c17SlowReader{data: append(data, "{\"V\":"...), failAfter: 3}
	}
	hdr := http.Header{}
	contentLength := int64(-1)
	if status != 200 {
		contentLength = int64(len(data))
		hdr.Set("Content-Length", strconv.Itoa(len(data)))
		hdr.Set("Content-Type", "text/html; charset=utf-8")
		hdr.Set("Retry-After", "1")
		hdr.Set("X-Resp", strconv.Itoa(status))
	}
	return &http.Response{StatusCode: status, Status: strconv.Itoa(status) + " " + http.StatusText(status), Proto: "HTTP/1.1", ProtoMajor: 1, ProtoMinor: 1,
		Header: hdr, Body: io.NopCloser(body), Request: r, ContentLength: contentLength}, nil
}

func c17ParseHeader(s string) http.Header {
	if s == "nil" {
		return nil
	}
	h := http.Header{}
	if s == "-" {
		return h
	}
	for _, e := range strings.Split(s, "+") {
		kv := strings.SplitN(e, "~", 2)
		if len(kv) != 2 {
			continue
		}
		var vs []string
		for _, v := range strings.Split(kv[1], ",") {
			vs = append(vs, unhx(v))
		}
		h[unhx(kv[0])] = vs
	}
	return h
}

func c17ParseParams(s string) network.PathParam {
	if s == "nil" {
		return nil
	}
	p := network.PathParam{}
	if s == "-" {
		return p
	}
	for _, e := range strings.Split(s, ",") {
		kv := strings.SplitN(e, "=", 2)
		if len(kv) != 2 || kv[1] == "" {
			continue
		}
		// the property says "replaced by its value" for any printable value: besides string and int, an int64, a bool, a
		// defined string type and a fmt.Stringer (all printed by %v as the model prints them)
		switch kv[1][0] {
		case 'i':
			n, _ := strconv.Atoi(kv[1][1:])
			p[unhx(kv[0])] = n
		case 'l':
			n, _ := strconv.ParseInt(kv[1][1:], 10, 64)
			p[unhx(kv[0])] = n
		case 'b':
			p[unhx(kv[0])] = kv[1][1:] == "1"
		case 't':
			p[unhx(kv[0])] = c17Str(unhx(kv[1][1:]))
		case 'g':
			p[unhx(kv[0])] = c17Stringer{unhx(kv[1][1:])}
		default:
			p[unhx(kv[0])] = unhx(kv[1][1:])
		}
	}
	return p
}

func c17ErrClass(err error, txErr error) string {
	var ue *url.Error
	var se *json.SyntaxError
	var ute *json.UnmarshalTypeError
	switch {
	case err == nil:
		return "nil"
	case errors.Is(err, c17ErrSer):
		return "ser"
	case errors.Is(err, c17ErrStream):
		return "stream"
	case errors.Is(err, c17ErrTx), txErr != nil && errors.Is(err, txErr):
		return "tx"
	case errors.Is(err, c17ErrRead):
		return "read"
	case errors.Is(err, c17ErrDec):
		return "dec"
	case errors.As(err, &se), errors.As(err, &ute):
		return "json"
	case errors.As(err, &ue) && ue.Op == "parse":
		return "url"
	case strings.Contains(err.Error(), "invalid method"):
		return "method"
	}
	return "other"
}

type c17IO = *fpgo.MonadIODef[*network.APIResponse[c17Target]]

func c17Run(line string) string {
	head, rest, ok := strings.Cut(line, ": ")
	if !ok {
		return "bad-case"
	}
	cfg := map[string]string{}
	for _, t := range strings.Fields(head) {
		k, v, _ := strings.Cut(t, "=")
		cfg[k] = v
	}
	stub := &c17Stub{}
	sh := network.NewSimpleHTTPWithClientAndInterceptors(&http.Client{Transport: stub})
	api := network.NewSimpleAPIWithSimpleHTTP(unhx(cfg["base"]), sh)
	api.DefaultHeader = c17ParseHeader(cfg["hdr"])
	jsonSer := func(body interface{}) (io.Reader, error) {
		if stub.fault == "ser" {
			return nil, c17ErrSer
		}
		r, err := network.JSONBodySerializer(body)
		return c17WrapStream(r, stub.fault), err
	}
	mpSer := func(form *network.MultipartForm) (io.Reader, string, error) {
		if stub.fault == "ser" {
			return nil, "", c17ErrSer
		}
		r, ct, err := network.GeneralMultipartSerializer(form)
		return c17WrapStream(r, stub.fault), ct, err
	}
	if cfg["nest"] == "1" {
		// an interceptor that makes a JSON POST of its own (a different body, the library's own serializer) through the same SimpleAPI
		// before the outer request goes out — a token refresh, say; every request's body must remain its own serializer's output
		nestedAPI := network.APIMakeDoNewRequestWithBodySerializer[*c17Body, c17Target](api, "POST", "nested", "application/json", network.JSONBodySerializer)
		nestIcpt := network.Interceptor(func(r *http.Request) error {
			if r.URL.Path != "/nested" && !strings.HasSuffix(r.URL.Path, "/nested") {
				var t c17Target
				nestedAPI(nil, &c17Body{A: "n", N: 9}, &t).Eval()
			}
			return nil
		})
		sh.AddInterceptor(&nestIcpt)
	}
	api.RequestSerializerForJSON = jsonSer
	api.RequestSerializerForMultipart = mpSer
	api.ResponseDeserializer = func(b []byte, target interface{}) (interface{}, error) {
		switch stub.fault {
		case "dec":
			return nil, c17ErrDec
		case "dect":
			return 42, nil
		}
		return network.JSONBodyDeserializer(b, target)
	}
	tmpl, method, ct := unhx(cfg["tmpl"]), unhx(cfg["m"]), unhx(cfg["ct"])

	var noBody network.APINoBody[c17Target]
	var hasBody network.APIHasBody[*c17Body, c17Target]
	// the same constructor instantiated for other body types T (the body VALUE decides which one `call` uses)
	var hasInts network.APIHasBody[[]int, c17Target]
	var hasDict network.APIHasBody[map[string]int, c17Target]
	var hasVal network.APIHasBody[c17Body, c17Target]
	var multi network.APIMultipart[c17Target]
	switch cfg["ctor"] {
	case "Get":
		noBody = network.APIMakeGet[c17Target](api, tmpl)
	case "Delete":
		noBody = network.APIMakeDelete[c17Target](api, tmpl)
	case "PostJSONBody":
		hasBody = network.APIMakePostJSONBody[*c17Body, c17Target](api, tmpl)
		hasInts = network.APIMakePostJSONBody[[]int, c17Target](api, tmpl)
		hasDict = network.APIMakePostJSONBody[map[string]int, c17Target](api, tmpl)
		hasVal = network.APIMakePostJSONBody[c17Body, c17Target](api, tmpl)
	case "PutJSONBody":
		hasBody = network.APIMakePutJSONBody[*c17Body, c17Target](api, tmpl)
		hasInts = network.APIMakePutJSONBody[[]int, c17Target](api, tmpl)
		hasDict = network.APIMakePutJSONBody[map[string]int, c17Target](api, tmpl)
		hasVal = network.APIMakePutJSONBody[c17Body, c17Target](api, tmpl)
	case "PatchJSONBody":
		hasBody = network.APIMakePatchJSONBody[*c17Body, c17Target](api, tmpl)
		hasInts = network.APIMakePatchJSONBody[[]int, c17Target](api, tmpl)
		hasDict = network.APIMakePatchJSONBody[map[string]int, c17Target](api, tmpl)
		hasVal = network.APIMakePatchJSONBody[c17Body, c17Target](api, tmpl)
	case "PostMultipartBody":
		multi = network.APIMakePostMultipartBody[c17Target](api, tmpl)
	case "PutMultipartBody":
		multi = network.APIMakePutMultipartBody[c17Target](api, tmpl)
	case "PatchMultipartBody":
		multi = network.APIMakePatchMultipartBody[c17Target](api, tmpl)
	case "Do":
		noBody = network.APIMakeDoNewRequest[c17Target](api, method, tmpl)
	case "DoBody":
		hasBody = network.APIMakeDoNewRequestWithBodySerializer[*c17Body, c17Target](api, method, tmpl, ct, jsonSer)
		hasInts = network.APIMakeDoNewRequestWithBodySerializer[[]int, c17Target](api, method, tmpl, ct, jsonSer)
		hasDict = network.APIMakeDoNewRequestWithBodySerializer[map[string]int, c17Target](api, method, tmpl, ct, jsonSer)
		hasVal = network.APIMakeDoNewRequestWithBodySerializer[c17Body, c17Target](api, method, tmpl, ct, jsonSer)
	case "DoMP":
		multi = network.APIMakeDoNewRequestWithMultipartSerializer[c17Target](api, method, tmpl, mpSer)
	default:
		return "bad-ctor"
	}

	var ios []c17IO
	runOp := func(op string) (out string) {
		defer func() {
			if r := recover(); r != nil {
				out = "panic"
			}
		}()
		f := strings.Fields(op)
		switch {
		case len(f) == 3 && f[0] == "call":
			params := c17ParseParams(f[1])
			target := &c17Target{}
			var m c17IO
			switch {
			case noBody != nil:
				m = noBody(params, target)
			case hasBody != nil && f[2] == "vsn":
				m = hasInts(params, []int(nil), target)
			case hasBody != nil && f[2] == "vse":
				m = hasInts(params, []int{}, target)
			case hasBody != nil && f[2] == "vsv":
				m = hasInts(params, []int{1, 2}, target)
			case hasBody != nil && f[2] == "vmn":
				m = hasDict(params, map[string]int(nil), target)
			case hasBody != nil && f[2] == "vme":
				m = hasDict(params, map[string]int{}, target)
			case hasBody != nil && f[2] == "vmv":
				m = hasDict(params, map[string]int{"a": 1}, target)
			case hasBody != nil && f[2] == "vz":
				m = hasVal(params, c17Body{}, target)
			case hasBody != nil:
				var b *c17Body
				if strings.HasPrefix(f[2], "j") {
					a, n, _ := strings.Cut(f[2][1:], ":")
					k, _ := strconv.Atoi(n)
					b = &c17Body{A: unhx(a), N: k}
				}
				m = hasBody(params, b, target)
			default:
				var form *network.MultipartForm
				if strings.HasPrefix(f[2], "f") {
					form = &network.MultipartForm{Value: map[string][]string{}}
					if f[2] != "f-" {
						for _, e := range strings.Split(f[2][1:], ",") {
							k, v, _ := strings.Cut(e, "=")
							form.Value[unhx(k)] = append(form.Value[unhx(k)], unhx(v))
						}
					}
				}
				m = multi(params, form, target)
			}
			ios = append(ios, m)
			return "io " + strconv.Itoa(len(stub.recs))
		case len(f) == 4 && f[0] == "eval":
			idx, _ := strconv.Atoi(f[1])
			if idx < 0 || idx >= len(ios) {
				return "noio"
			}
			stub.fault, stub.resp, stub.txErr = f[2], f[3], nil
			before := len(stub.recs)
			resp := ios[idx].Eval()
			news := stub.recs[before:]
			out := "n=" + strconv.Itoa(len(news)) + " "
			for _, r := range news {
				out += r + " "
			}
			tgt := "nil"
			if resp.TargetObject != nil {
				tgt = hx(resp.TargetObject.V) + ":" + strconv.Itoa(resp.TargetObject.K)
			}
			return out + "err=" + c17ErrClass(resp.Err, stub.txErr) + " tgt=" + tgt
		case len(f) == 1 && f[0] == "mut":
			if stub.last == nil {
				return "nomut"
			}
			stub.last.Header.Add("X-Mut", "1")
			return "nil"
		case len(f) == 1 && f[0] == "dh":
			return "hdr " + c17Header(api.DefaultHeader)
		case len(f) == 1 && f[0] == "sent":
			return "sent " + strconv.Itoa(len(stub.recs))
		}
		return "bad-op"
	}
	var outs []string
	for _, op := range strings.Split(rest, ";") {
		op = strings.TrimSpace(op)
		if op == "" {
			continue
		}
		outs = append(outs, runOp(op))
	}
	return strings.Join(outs, " | ")
}

// ---- generator

var c17Ctors = []string{"Get", "Delete", "PostJSONBody", "PutJSONBody", "PatchJSONBody", "PostMultipartBody", "PutMultipartBody",
	"PatchMultipartBody", "Do", "DoBody", "DoMP"}
var c17BodyVals = []string{"vsn", "vse", "vsv", "vmn", "vme", "vmv", "vz"}
var c17Faults = []string{"sstream", "sstreamk", "sstream0", "none", "ser", "tx", "read", "dec", "dect", "txtemp", "txtimeout", "txwrap", "txdl", "txreset", "txetimedout", "txurl", "readmid"}
var c17RespKinds = []string{"empty", "ws", "null", "obj0", "garbage", "arr", "bad"}
var c17Statuses = []string{"", "", "@200", "@201", "@204", "@304", "@400", "@401", "@404", "@429", "@500", "@503"}
var c17Bases = []string{"http://stub.test", "http://stub.test/api", "http://stub.test:8080/v1/"}
var c17Headers = []string{"nil", "-", hx("X-A") + "~" + hx("1"), hx("X-A") + "~" + hx("1") + "," + hx("2") + "+" + hx("Authorization") + "~" + hx("Bearer t0k"),
	hx("Content-Type") + "~" + hx("text/plain"), hx("Accept") + "~" + hx("*/*") + "+" + hx("X-B") + "~" + hx("")}
var c17Methods = []string{"GET", "HEAD", "OPTIONS", "DELETE", "POST", "PUT", "PATCH", "PURGE", "get", "B AD", ""}
var c17CTypes = []string{"application/json", "text/plain", "", "application/x-custom; v=1"}
var c17Keys = []string{"id", "name", "a", "b", "x y", "", "id2", "K"}
var c17Lits = []string{"", "/", "users/", "-", "v1/items/", "}", "a=b&", ".", "x", "?q=", "%41", "#top/"}

// values: brace-open-free (the URL law's side condition), including ones equal to other keys' names and URL-tricky ones
var c17Vals = []string{"1", "42", "bob", "id", "name", "a", "b", "", "a b", "x/y", "..", "}", "a}b", "%41", "%zz", "%", "?q=1", "#frag", "#",
	"?", "é", "a&b=c", "ünï", "\"<>|\\^`[]", "~._-", "+", ":@", "id}", "{id"[1:], "100%", "%4", "a#b#c", "a??"}

func c17GenTemplate(rng *rand.Rand, nHoles int) (string, []string) {
	var sb strings.Builder
	var keys []string
	sb.WriteString(c17Lits[rng.Intn(len(c17Lits))])
	for i := 0; i < nHoles; i++ {
		k := c17Keys[rng.Intn(len(c17Keys))]
		if len(keys) > 0 && rng.Intn(5) == 0 {
			k = keys[rng.Intn(len(keys))] // the same placeholder twice
		}
		keys = append(keys, k)
		sb.WriteString("{" + k + "}")
		sb.WriteString(c17Lits[rng.Intn(len(c17Lits))])
	}
	return sb.String(), keys
}

func c17GenParams(rng *rand.Rand, tmplKeys []string) string {
	switch rng.Intn(12) {
	case 0:
		return "nil"
	case 1:
		return "-"
	}
	chosen := map[string]bool{}
	var order []string
	for _, k := range tmplKeys {
		if rng.Intn(5) != 0 && !chosen[k] { // sometimes missing
			chosen[k] = true
			order = append(order, k)
		}
	}
	for n := rng.Intn(3); n > 0; n-- { // extra keys
		k := c17Keys[rng.Intn(len(c17Keys))]
		if rng.Intn(6) == 0 {
			k = []string{"{a", "zz", "ID", "i d"}[rng.Intn(4)]
		}
		if !chosen[k] {
			chosen[k] = true
			order = append(order, k)
		}
	}
	if len(order) == 0 {
		return "-"
	}
	rng.Shuffle(len(order), func(i, j int) { order[i], order[j] = order[j], order[i] })
	parts := make([]string, len(order))
	for i, k := range order {
		switch r := rng.Intn(20); {
		case r < 4:
			parts[i] = hx(k) + "=i" + strconv.Itoa(rng.Intn(2000)-500)
		case r == 4:
			parts[i] = hx(k) + "=l" + strconv.Itoa(rng.Intn(2000)-500)
		case r == 5:
			parts[i] = hx(k) + "=b" + strconv.Itoa(rng.Intn(2))
		case r == 6:
			parts[i] = hx(k) + "=t" + hx(c17Vals[rng.Intn(len(c17Vals))])
		case r == 7:
			parts[i] = hx(k) + "=g" + hx(c17Vals[rng.Intn(len(c17Vals))])
		default:
			parts[i] = hx(k) + "=s" + hx(c17Vals[rng.Intn(len(c17Vals))])
		}
	}
	return strings.Join(parts, ",")
}

func c17Kind(ctor string) int {
	switch {
	case ctor == "Get" || ctor == "Delete" || ctor == "Do":
		return 0
	case ctor == "DoBody" || strings.HasSuffix(ctor, "JSONBody"):
		return 1
	}
	return 2
}

var c17Words = []string{"", "a", "hello world", "Zed-9_", "0", "x y z"}

func c17GenBody(rng *rand.Rand, kind int) string {
	if kind == 0 || rng.Intn(6) == 0 {
		return "nil"
	}
	if kind == 1 {
		if rng.Intn(4) == 0 {
			return c17BodyVals[rng.Intn(len(c17BodyVals))]
		}
		return "j" + hx(c17Words[rng.Intn(len(c17Words))]) + ":" + strconv.Itoa(rng.Intn(200)-50)
	}
	n := rng.Intn(4)
	if n == 0 {
		return "f-"
	}
	parts := make([]string, n)
	for i := range parts {
		parts[i] = hx([]string{"f", "g", "file name", "k"}[rng.Intn(4)]) + "=" + hx(c17Vals[rng.Intn(len(c17Vals))])
	}
	return "f" + strings.Join(parts, ",")
}

func c17GenResp(rng *rand.Rand) string {
	st := c17Statuses[rng.Intn(len(c17Statuses))]
	if rng.Intn(60) == 0 {
		return "big" + strconv.Itoa(rng.Intn(9)) + st
	}
	if rng.Intn(3) == 0 {
		return c17RespKinds[rng.Intn(len(c17RespKinds))] + st
	}
	return "ok" + hx(c17Words[rng.Intn(len(c17Words))]) + ":" + strconv.Itoa(rng.Intn(100)-10) + st
}

func c17Head(base, hdr, ctor, m, ct, tmpl string) string {
	return "base=" + hx(base) + " hdr=" + hdr + " ctor=" + ctor + " m=" + hx(m) + " ct=" + hx(ct) + " tmpl=" + hx(tmpl) + ": "
}

func c17Gen(tier string, rng *rand.Rand, emit func(string)) map[string]interface{} {
	nRandom := 30000
	if tier == "thorough" {
		nRandom = 400000
	}
	for _, b := range c17Bases {
		if u, err := url.Parse(b); err != nil || u.String() != b {
			panic("c17: base URL is not a fixpoint of url.Parse: " + b)
		}
	}
	stats := map[string]int{}
	count := func(k string) { stats[k]++ }
	// 1. bounded-exhaustive: every constructor x every fault x 0/1/2 evaluations x header variants, fixed 2-placeholder template
	for _, ctor := range c17Ctors {
		for _, f := range []string{"none", "dec", "dect"} {
			for _, st := range []string{"", "@204", "@200", "@500"} {
				body := "nil"
				if c17Kind(ctor) == 1 {
					body = "j" + hx("a") + ":1"
				}
				emit(c17Head(c17Bases[0], "nil", ctor, c17Methods[0], c17CTypes[0], "e/{id}") + "call " + hx("id") + "=i1 " + body + " ; eval 0 " + f + " empty" + st + " ; sent ; eval 0 none ok" + hx("v") + ":2 ; sent")
			}
		}
	}
	exhaustive := 0
	for _, ctor := range c17Ctors {
		for _, f := range c17Faults {
			for evals := 0; evals <= 2; evals++ {
				for hi, hdr := range c17Headers {
					for _, nilBody := range []bool{false, true} {
						kind := c17Kind(ctor)
						if kind == 0 && nilBody {
							continue
						}
						body := "nil"
						if !nilBody && kind == 1 {
							body = "j" + hx("hello") + ":7"
						} else if !nilBody && kind == 2 {
							body = "f" + hx("f") + "=" + hx("v1") + "," + hx("g") + "=" + hx("v 2")
						}
						m := c17Methods[(hi+evals)%8]
						ops := []string{"sent", "call " + hx("id") + "=i7," + hx("name") + "=s" + hx("id") + " " + body, "sent"}
						for e := 0; e < evals; e++ {
							st := ""
							if (hi+e)%2 == 1 {
								st = c17Statuses[(exhaustive+e)%len(c17Statuses)]
							}
							ops = append(ops, "eval 0 "+f+" ok"+hx("r")+":"+strconv.Itoa(e)+st, "sent")
						}
						ops = append(ops, "mut", "dh")
						emit(c17Head(c17Bases[hi%len(c17Bases)], hdr, ctor, m, c17CTypes[hi%len(c17CTypes)], "users/{id}/n/{name}") + strings.Join(ops, " ; "))
						exhaustive++
					}
				}
			}
		}
	}
	// 1b. bounded-exhaustive: every constructor x every response-body kind (zero bytes, whitespace, null, {}, garbage, wrong type,
	// truncated, valid) x status codes x decoder behaviour (real / injected error / wrong type), evaluated twice
	for _, ctor := range c17Ctors {
		for _, rk := range append([]string{"ok" + hx("v") + ":5", "big7"}, c17RespKinds...) {
			for _, st := range []string{"", "@204", "@304", "@404", "@503"} {
				for _, f := range []string{"none", "dec", "dect"} {
					body := "nil"
					if c17Kind(ctor) == 1 {
						body = "j" + hx("b") + ":1"
					} else if c17Kind(ctor) == 2 {
						body = "f" + hx("f") + "=" + hx("v")
					}
					emit(c17Head(c17Bases[0], "nil", ctor, "GET", "application/json", "x/{id}") + "call " + hx("id") + "=i1 " + body +
						" ; eval 0 none ok" + hx("first") + ":1 ; eval 0 " + f + " " + rk + st + " ; sent")
					exhaustive++
				}
			}
		}
	}
	// 1c. bounded-exhaustive: every body-carrying constructor x every body VALUE (nil pointer, struct, nil / empty / filled slice and map,
	// zero struct value; forms) x serializer behaviour (plain, error, streaming reader that works / breaks after 3 bytes / at once)
	for _, ctor := range c17Ctors {
		kind := c17Kind(ctor)
		if kind == 0 {
			continue
		}
		bodies := append([]string{"nil", "j" + hx("hi") + ":3"}, c17BodyVals...)
		if kind == 2 {
			bodies = []string{"nil", "f-", "f" + hx("f") + "=" + hx("v1") + "," + hx("f") + "=" + hx("v2")}
		}
		for _, b := range bodies {
			for _, f := range []string{"none", "ser", "sstream", "sstreamk", "sstream0"} {
				emit(c17Head(c17Bases[0], "nil", ctor, "POST", "application/json", "b/{id}") + "call " + hx("id") + "=i1 " + b +
					" ; eval 0 " + f + " ok" + hx("v") + ":1 ; sent ; eval 0 none ok" + hx("w") + ":2 ; sent")
				exhaustive++
			}
		}
	}
	// 1d. an interceptor making a nested JSON POST (different body) through the same SimpleAPI while the outer request is in flight:
	// every constructor x body values x faults, evaluated twice
	for _, ctor := range c17Ctors {
		kind := c17Kind(ctor)
		bodies := []string{"nil"}
		if kind == 1 {
			bodies = []string{"nil", "j" + hx("outer body that is longer than the nested one") + ":12345", "j" + hx("o") + ":1", "vsv", "vmv"}
		} else if kind == 2 {
			bodies = []string{"nil", "f" + hx("f") + "=" + hx("v1")}
		}
		for _, b := range bodies {
			for _, f := range []string{"none", "tx", "read", "dec", "sstream"} {
				emit("nest=1 " + c17Head(c17Bases[0], c17Headers[2], ctor, "POST", "application/json", "o/{id}") + "call " + hx("id") + "=i1 " + b +
					" ; eval 0 " + f + " ok" + hx("v") + ":1 ; sent ; eval 0 none ok" + hx("w") + ":2 ; sent ; mut ; dh")
				exhaustive++
			}
		}
	}
	// 2. directed: points outside the URL law's side conditions where the result does not depend on map order (<= 1 key)
	for _, d := range [][2]string{{"{a}/{b}", hx("a") + "=s" + hx("{b}")}, {"{a{b}c}", hx("b") + "=s" + hx("x")}, {"{a}b}", hx("a") + "=s" + hx("{")},
		{"{{a}}", hx("a") + "=s" + hx("a")}, {"{a", hx("a") + "=s" + hx("1")}, {"{a}{a}", hx("a") + "=s" + hx("{a}")}, {"x{}y", hx("") + "=s" + hx("E")},
		{"{a}}", hx("a}") + "=s" + hx("1")}} {
		for _, ctor := range []string{"Get", "PutJSONBody", "PatchMultipartBody"} {
			emit(c17Head(c17Bases[0], "nil", ctor, "", "", d[0]) + "call " + d[1] + " nil ; eval 0 none ok" + hx("v") + ":1 ; sent")
		}
	}
	// 3. random
	for i := 0; i < nRandom; i++ {
		ctor := c17Ctors[rng.Intn(len(c17Ctors))]
		kind := c17Kind(ctor)
		nHoles := rng.Intn(5)
		tmpl, keys := c17GenTemplate(rng, nHoles)
		m, ct := "", ""
		if ctor == "Do" || ctor == "DoBody" || ctor == "DoMP" {
			m = c17Methods[rng.Intn(len(c17Methods))]
			if rng.Intn(3) > 0 {
				m = c17Methods[rng.Intn(8)]
			}
			ct = c17CTypes[rng.Intn(len(c17CTypes))]
		}
		var ops []string
		nCalls := 0
		for n := 1 + rng.Intn(7); n > 0; n-- {
			r := rng.Intn(100)
			switch {
			case nCalls == 0 || r < 20:
				ops = append(ops, "call "+c17GenParams(rng, keys)+" "+c17GenBody(rng, kind))
				nCalls++
				count("op.call")
			case r < 70:
				f := "none"
				if rng.Intn(2) == 0 {
					f = c17Faults[rng.Intn(len(c17Faults))]
				}
				ops = append(ops, "eval "+strconv.Itoa(rng.Intn(nCalls))+" "+f+" "+c17GenResp(rng))
				count("op.eval")
				count("fault." + f)
			case r < 80:
				ops = append(ops, "mut")
				count("op.mut")
			case r < 90:
				ops = append(ops, "dh")
				count("op.dh")
			default:
				ops = append(ops, "sent")
				count("op.sent")
			}
		}
		count("holes." + strconv.Itoa(nHoles))
		count("ctor." + ctor)
		nestTok := ""
		if rng.Intn(8) == 0 {
			nestTok = "nest=1 "
		}
		emit(nestTok + c17Head(c17Bases[rng.Intn(len(c17Bases))], c17Headers[rng.Intn(len(c17Headers))], ctor, m, ct, tmpl) + strings.Join(ops, " ; "))
	}
	return map[string]interface{}{"exhaustive": false, "exhaustive_scope": "11 constructors x 17 faults (serializer error, streaming serializer reader working / breaking, 8 transport error kinds incl. net.Error Temporary/Timeout, read at once / mid-body, decoder) x 0..2 evaluations x 6 default headers x body/nil body; 11 constructors x 9 response-body kinds (incl. a 5 kB one) x 5 status codes x 3 decoder behaviours; 9 body-carrying constructors x 9 body values (nil pointer, struct, nil/empty/filled slice and map, zero struct) x 5 serializer behaviours",
		"exhaustive_cases": exhaustive, "random_cases": nRandom, "random_distribution": stats,
		"value_alphabet": fmt.Sprintf("%d values incl. URL-tricky ones, %d keys, %d literal chunks, 0..4 placeholders", len(c17Vals), len(c17Keys), len(c17Lits))}
}

func init() { register("C17", &Prop{Gen: c17Gen, Run: c17Run, CaseTimeout: 5 * time.Second}) }
