package main

// C10 generators: bounded-exhaustive re-entrant histories, random longer ones, Map chains, SubscribeOn,
// directed park-point schedules (every placement of a subscribe / unsubscribe / publish of another goroutine
// between the snapshot and each delivery of a parked Publish), random schedules with two background
// publishers, and free-running stress.

import (
	"fmt"
	"math/rand"
	"strconv"
	"strings"
)

var c10Acts = []string{"n", "u0", "u-1", "u+1", "p"}

// all scripts of length <= maxLen over c10Acts
func c10Scripts(maxLen int) []string {
	res := []string{""}
	level := []string{""}
	for l := 0; l < maxLen; l++ {
		var next []string
		for _, s := range level {
			for _, a := range c10Acts {
				t := a
				if s != "" {
					t = s + "," + a
				}
				next = append(next, t)
			}
		}
		res = append(res, next...)
		level = next
	}
	return res
}

func c10SubTok(script string) string {
	if script == "" {
		return "s"
	}
	return "s:" + script
}

func c10RandScript(rng *rand.Rand, maxLen int, withPub bool) string {
	n := rng.Intn(maxLen + 1)
	acts := []string{"n", "u0", "u-1", "u+1", "u-2", "u+2", "u0", "p"}
	var parts []string
	for i := 0; i < n; i++ {
		a := acts[rng.Intn(len(acts))]
		if a == "p" && !withPub {
			a = "u0"
		}
		parts = append(parts, a)
	}
	return strings.Join(parts, ",")
}

func c10Gen(tier string, rng *rand.Rand, emit func(string)) map[string]interface{} {
	thorough := tier == "thorough"
	stats := map[string]int{}
	out := func(kind, line string) { stats[kind]++; emit(line) }

	// (1) bounded-exhaustive: 1..3 subscribers x all scripts of <= 2 re-entrant actions, two publishes;
	// 4 subscribers: all scripts of <= 1 action, plus a sample of the <= 2 space (5 subscribers: sample, thorough)
	scripts2 := c10Scripts(2)
	scripts1 := c10Scripts(1)
	tail := " ; p:1 ; c ; p:2 ; c"
	var rec func(n, k int, alphabet []string, toks []string)
	rec = func(n, k int, alphabet []string, toks []string) {
		if k == n {
			out("exhaustive", "seq: "+strings.Join(toks, " ; ")+tail)
			return
		}
		for _, s := range alphabet {
			rec(n, k+1, alphabet, append(append([]string{}, toks...), c10SubTok(s)))
		}
	}
	for n := 1; n <= 3; n++ {
		rec(n, 0, scripts2, nil)
	}
	rec(4, 0, scripts1, nil)
	sample4, sample5 := 3000, 0
	if thorough {
		sample4, sample5 = 100000, 30000
	}
	for i := 0; i < sample4+sample5; i++ {
		n := 4
		if i >= sample4 {
			n = 5
		}
		toks := make([]string, n)
		for k := range toks {
			toks[k] = c10SubTok(scripts2[rng.Intn(len(scripts2))])
		}
		out("sampled", "seq: "+strings.Join(toks, " ; ")+tail)
	}

	// (1b) zero-value Subscriptions (OnNext nil) at every position among ordinary ones (scripts of <= 1 action):
	// one or two of them among 1..3 ordinary subscriptions; also before / after a Map call and with SubscribeOn
	var recZ func(n, k int, toks []string)
	recZ = func(n, k int, toks []string) {
		if k == n {
			for i := 0; i <= len(toks); i++ {
				one := append(append(append([]string{}, toks[:i]...), "z"), toks[i:]...)
				out("nil", "seq: "+strings.Join(one, " ; ")+tail)
				if n <= 2 {
					for j := i + 1; j <= len(one); j++ {
						two := append(append(append([]string{}, one[:j]...), "z"), one[j:]...)
						out("nil", "seq: "+strings.Join(two, " ; ")+tail)
					}
				}
			}
			return
		}
		for _, s := range scripts1 {
			recZ(n, k+1, append(append([]string{}, toks...), c10SubTok(s)))
		}
	}
	for n := 0; n <= 3; n++ {
		recZ(n, 0, nil)
	}
	for _, f := range []string{"a", "z"} {
		for _, pre := range [][]string{{"z"}, {"s", "z"}, {"z", "s"}, {"z", "z"}} {
			for _, post := range [][]string{{}, {"z"}, {"s", "z"}} {
				for _, der := range [][]string{{"s@1"}, {"z@1", "s@1"}, {"s@1", "z@1", "s@1:u-1"}} {
					toks := append([]string{}, pre...)
					toks = append(toks, "m:"+f)
					toks = append(toks, post...)
					toks = append(toks, der...)
					toks = append(toks, "p:0", "p:4", "m@1:d", "z@2", "s@2", "p:-2", "c", "c@1")
					out("nil", "seq: "+strings.Join(toks, " ; "))
				}
			}
		}
	}
	for _, lay := range [][]string{{"z", "s"}, {"s", "z", "s"}, {"s", "s:u0", "z"}, {"z", "z", "s:n"}, {"s:u+1", "z", "s"}} {
		for hAt := 0; hAt <= len(lay); hAt++ {
			toks := append(append(append([]string{}, lay[:hAt]...), "h"), lay[hAt:]...)
			toks = append(toks, "p:1", "z", "s", "p:2", "c")
			out("nil", "seq: "+strings.Join(toks, " ; "))
		}
	}
	// parked Publish with zero-value Subscriptions in the snapshot, another goroutine adds / removes them
	for _, lay := range [][]string{{"z", "s"}, {"s", "z", "s"}, {"s", "z"}} {
		for pos := 0; pos <= len(lay)+1; pos++ {
			for _, op := range []string{"z", "u:1", "u:2", "s"} {
				toks := append([]string{}, lay...)
				toks = append(toks, "go1:1")
				for k := 0; k <= len(lay)+1; k++ {
					if k == pos {
						toks = append(toks, op)
					}
					toks = append(toks, "adv1")
				}
				toks = append(toks, "fin1", "p:2", "c")
				out("nil", "sched: "+strings.Join(toks, " ; "))
			}
		}
	}

	// (1c) several independent root publishers alive in one case, from both constructors (r:g = PublisherNewGenerics,
	// r:i = Publisher.New(), the interface{} twin), interleaved Subscribe / Publish: publishers are independent.
	// Bounded-exhaustive: 2 extra roots of every kind pair, all interleavings of <= 3 subscribes on each (no
	// Unsubscribe), publishes on both after every prefix length; then random histories over 2-3 roots (+ publisher 0).
	for _, k1 := range []string{"g", "i"} {
		for _, k2 := range []string{"g", "i"} {
			for n1 := 1; n1 <= 3; n1++ {
				for n2 := 1; n2 <= 3; n2++ {
					// all interleavings of n1 subscribes on root 1 and n2 on root 2
					var inter func(a, b int, toks []string)
					inter = func(a, b int, toks []string) {
						if a == n1 && b == n2 {
							line := append([]string{"r:" + k1, "r:" + k2}, toks...)
							line = append(line, "p@1:1", "p@2:2", "c@1", "c@2", "s@1:u0", "s@2", "p@1:3", "p@2:4", "p@1:5")
							out("roots", "seq: "+strings.Join(line, " ; "))
							return
						}
						if a < n1 {
							inter(a+1, b, append(append([]string{}, toks...), "s@1"))
						}
						if b < n2 {
							inter(a, b+1, append(append([]string{}, toks...), "s@2"))
						}
					}
					inter(0, 0, nil)
				}
			}
		}
	}
	nRoots := 600
	if thorough {
		nRoots = 6000
	}
	for i := 0; i < nRoots; i++ {
		nr := 2 + rng.Intn(2)
		var toks []string
		nsub := make([]int, nr+1)
		created := 0
		v := 0
		for j, nops := 0, 8+rng.Intn(20); j < nops; j++ {
			if created < nr && (j == 0 || rng.Intn(4) == 0) {
				toks = append(toks, "r:"+[]string{"i", "i", "g"}[rng.Intn(3)])
				created++
				continue
			}
			q := rng.Intn(created + 1)
			r := rng.Intn(100)
			switch {
			case r < 45 && nsub[q] < 6:
				toks = append(toks, strings.Replace(c10SubTok(c10RandScript(rng, 2, false)), "s", "s@"+strconv.Itoa(q), 1))
				nsub[q]++
			case r < 50:
				toks = append(toks, fmt.Sprintf("z@%d", q))
				nsub[q]++
			case r < 58:
				toks = append(toks, fmt.Sprintf("u@%d:%d", q, 1+rng.Intn(nsub[q]+1)))
			case r < 92:
				v++
				toks = append(toks, fmt.Sprintf("p@%d:%d", q, v))
			default:
				toks = append(toks, fmt.Sprintf("c@%d", q))
			}
		}
		for q := 0; q <= created; q++ {
			v++
			toks = append(toks, fmt.Sprintf("p@%d:%d", q, v))
		}
		out("roots", "seq: "+strings.Join(toks, " ; "))
	}
	// the interface{} twin under the other generators' shapes: re-entrant scripts, Map, SubscribeOn, parked Publish
	for _, lay := range [][]string{
		{"r:i", "s@1:u0", "s@1", "s@1", "p@1:1", "c@1", "p@1:2"},
		{"r:i", "s@1:p", "s@1:n,u-1", "p@1:1", "c@1"},
		{"r:i", "s@1", "m@1:a", "s@2", "m@2:z", "s@3", "p@1:0", "p@1:5"},
		{"r:i", "h@1", "s@1:n", "s@1", "p@1:6", "p@1:7"},
		{"r:i", "r:i", "h@1", "m@1:a", "s@3", "s@2", "s@1", "p@1:1", "p@2:2"},
		{"r:i", "r:i", "s@1", "s@2", "s@1", "z@2", "s@2", "s@1", "s@1", "s@1", "s@2", "p@1:1", "p@2:2", "c@1", "c@2"},
	} {
		out("roots", "seq: "+strings.Join(lay, " ; "))
	}
	for pos := 0; pos <= 3; pos++ {
		for _, op := range []string{"s@2", "s@1", "u@1:1", "p@2:9"} {
			toks := []string{"r:i", "r:i", "s@1", "s@2", "s@1", "go1@1:1"}
			for k := 0; k <= 3; k++ {
				if k == pos {
					toks = append(toks, op)
				}
				toks = append(toks, "adv1")
			}
			toks = append(toks, "fin1", "p@1:2", "p@2:3", "c@1", "c@2")
			out("roots", "sched: "+strings.Join(toks, " ; "))
		}
	}

	// (1d) OnNext set / cleared AFTER Subscribe through the returned pointer (a:<id> arms, d:<id> disarms): registration is
	// independent of OnNext, Publish looks at OnNext at delivery time.  Zero-value subscription armed before / between
	// publishes at every position among ordinary ones, live one disarmed and re-armed, both constructors, Map, handler.
	for _, lay := range [][]string{{"z"}, {"z", "s"}, {"s", "z"}, {"s", "z", "s"}, {"s:u0", "z", "s"}, {"z", "z"}, {"s", "s", "z"}} {
		zi := 0
		for i, t := range lay {
			if t == "z" {
				zi = i + 1
			}
		}
		z := strconv.Itoa(zi)
		for _, mid := range [][]string{
			{"a:" + z, "p:1"}, {"p:1", "a:" + z, "p:2"}, {"a:" + z, "p:1", "d:" + z, "p:2", "a:" + z, "p:3"},
			{"p:1", "d:1", "p:2", "a:1", "p:3", "a:" + z, "p:4"}, {"a:" + z, "u:" + z, "p:1"}, {"a:" + z, "d:" + z, "p:1", "c"},
		} {
			for _, root := range []string{"", "i"} {
				toks := append(append([]string{}, lay...), mid...)
				toks = append(toks, "c")
				if root == "i" {
					for k := range toks {
						if i := strings.Index(toks[k], ":"); i >= 0 {
							toks[k] = toks[k][:i] + "@1" + toks[k][i:]
						} else {
							toks[k] += "@1"
						}
					}
					toks = append([]string{"r:i"}, toks...)
				}
				out("arm", "seq: "+strings.Join(toks, " ; "))
			}
		}
	}
	for _, lay := range [][]string{
		{"z", "m:a", "s@1", "a:1", "p:1", "d:1", "p:2"},
		{"m:a", "z@1", "s@1", "p:1", "a@1:1", "p:2", "d@1:2", "p:3", "c@1"},
		{"h", "z", "s", "a:1", "p:1", "d:2", "p:2", "a:2", "d:1", "p:3"},
		{"z", "h", "p:1", "a:1", "p:2"},
		{"s", "z", "s", "go1:1", "adv1", "adv1", "a:2", "adv1", "adv1", "fin1", "p:2"},
		{"s", "s", "s", "go1:1", "adv1", "d:2", "adv1", "adv1", "adv1", "fin1", "p:2"},
	} {
		kind := "seq: "
		if strings.Contains(strings.Join(lay, " "), "go1") {
			kind = "sched: "
		}
		out("arm", kind+strings.Join(lay, " ; "))
	}
	for i := 0; i < 400; i++ {
		var toks []string
		subs, v := 0, 0
		for j, nops := 0, 6+rng.Intn(16); j < nops; j++ {
			r := rng.Intn(100)
			switch {
			case r < 20 && subs < 7 || subs == 0:
				toks = append(toks, "z")
				subs++
			case r < 35 && subs < 7:
				toks = append(toks, c10SubTok(c10RandScript(rng, 2, false)))
				subs++
			case r < 55:
				toks = append(toks, "a:"+strconv.Itoa(1+rng.Intn(subs)))
			case r < 65:
				toks = append(toks, "d:"+strconv.Itoa(1+rng.Intn(subs)))
			case r < 70:
				toks = append(toks, "u:"+strconv.Itoa(1+rng.Intn(subs)))
			default:
				v++
				toks = append(toks, "p:"+strconv.Itoa(v))
			}
		}
		v++
		toks = append(toks, "p:"+strconv.Itoa(v), "c")
		out("arm", "seq: "+strings.Join(toks, " ; "))
	}

	// (2) random longer histories on one publisher
	nRandom := 1500
	if thorough {
		nRandom = 20000
	}
	for i := 0; i < nRandom; i++ {
		nops := 6 + rng.Intn(24)
		var toks []string
		subs, v, pubScripts := 0, 0, 0
		for j := 0; j < nops; j++ {
			r := rng.Intn(100)
			switch {
			case r < 40 && subs < 9 || subs == 0:
				s := c10RandScript(rng, 3, pubScripts < 2)
				if strings.Contains(s, "p") {
					pubScripts++
				}
				toks = append(toks, c10SubTok(s))
				subs++
			case r < 50:
				toks = append(toks, "u:"+strconv.Itoa(1+rng.Intn(subs+2)))
			case r < 57 && subs < 9:
				toks = append(toks, "z")
				subs++
			case r < 90:
				v++
				toks = append(toks, "p:"+strconv.Itoa(v))
			default:
				toks = append(toks, "c")
			}
		}
		v++
		toks = append(toks, "p:"+strconv.Itoa(v), "c")
		out("random", "seq: "+strings.Join(toks, " ; "))
	}

	// (3) Map chains depth 1-3 (values include 0 and negatives; functions include the constant 0)
	fns := []string{"a", "d", "z", "i", "g"}
	nMap := 600
	if thorough {
		nMap = 6000
	}
	for _, f := range fns { // directed: every function, depth 1..3, value 0 / 7 / -3
		for depth := 1; depth <= 3; depth++ {
			toks := []string{"s"}
			for d := 0; d < depth; d++ {
				toks = append(toks, fmt.Sprintf("m@%d:%s", d, f), fmt.Sprintf("s@%d", d+1))
			}
			toks = append(toks, "p:0", "p:7", "p:-3", "s@"+strconv.Itoa(depth)+":u0", "p:0", "p:5", fmt.Sprintf("c@%d", depth))
			out("map", "seq: "+strings.Join(toks, " ; "))
		}
	}
	for i := 0; i < nMap; i++ {
		npub := 1
		depth := 1 + rng.Intn(3)
		var toks []string
		subsOn := []int{0, 0, 0, 0, 0, 0, 0, 0}
		v := 0
		for j, nops := 0, 5+rng.Intn(16); j < nops; j++ {
			r := rng.Intn(100)
			q := rng.Intn(npub)
			switch {
			case r < 15 && npub <= depth+1 && npub < 6:
				// derive from any existing publisher (chains and small trees)
				toks = append(toks, fmt.Sprintf("m@%d:%s", q, fns[rng.Intn(len(fns))]))
				subsOn[q]++
				npub++
			case r < 40:
				toks = append(toks, strings.Replace(c10SubTok(c10RandScript(rng, 2, false)), "s", "s@"+strconv.Itoa(q), 1))
				subsOn[q]++
			case r < 47:
				toks = append(toks, fmt.Sprintf("z@%d", q))
				subsOn[q]++
			case r < 55:
				toks = append(toks, fmt.Sprintf("u@%d:%d", q, 1+rng.Intn(subsOn[q]+1)))
			case r < 92:
				v++
				val := []int{0, v, -v, v * 3}[rng.Intn(4)]
				if rng.Intn(3) > 0 {
					q = 0
				}
				toks = append(toks, fmt.Sprintf("p@%d:%d", q, val))
			default:
				toks = append(toks, fmt.Sprintf("c@%d", q))
			}
		}
		toks = append(toks, "p:0", "p:9")
		out("map", "seq: "+strings.Join(toks, " ; "))
	}

	// (4) SubscribeOn(handler): deliveries are posts, run on the handler goroutine (one handler per case)
	nH := 300
	if thorough {
		nH = 3000
	}
	for i := 0; i < nH; i++ {
		var toks []string
		subs, v := 0, 0
		withMap := rng.Intn(3) == 0
		hq := 0
		hop := "h" // unbuffered Handler.New(); hb = buffered channel
		if rng.Intn(3) == 0 {
			hop = "hb"
		}
		hAt := rng.Intn(4)
		if withMap {
			if rng.Intn(2) == 0 {
				// SubscribeOn(h) on the origin BEFORE Map: the forwarder runs on h, the derived publisher has no handler
				toks = append(toks, hop)
				hAt = -1
			}
			toks = append(toks, "m:"+fns[rng.Intn(len(fns))])
			subs = 1
			if hAt >= 0 {
				hq = rng.Intn(2)
			}
		}
		nsub := map[int]int{0: subs, 1: 0}
		for j, nops := 0, 5+rng.Intn(14); j < nops; j++ {
			if j == hAt {
				toks = append(toks, fmt.Sprintf("%s@%d", hop, hq))
			}
			q := 0
			if withMap {
				q = rng.Intn(2)
			}
			r := rng.Intn(100)
			switch {
			case r < 34:
				toks = append(toks, strings.Replace(c10SubTok(c10RandScript(rng, 2, false)), "s", "s@"+strconv.Itoa(q), 1))
				nsub[q]++
			case r < 40:
				toks = append(toks, fmt.Sprintf("z@%d", q))
				nsub[q]++
			case r < 52:
				toks = append(toks, fmt.Sprintf("u@%d:%d", q, 1+rng.Intn(nsub[q]+1)))
			case r < 92:
				v++
				toks = append(toks, fmt.Sprintf("p:%d", v))
			default:
				toks = append(toks, fmt.Sprintf("c@%d", q))
			}
		}
		if hAt >= 0 && len(toks) <= hAt {
			toks = append(toks, fmt.Sprintf("%s@%d", hop, hq))
		}
		v++
		toks = append(toks, fmt.Sprintf("p:%d", v), "c")
		out("handler", "seq: "+strings.Join(toks, " ; "))
	}

	// SubscribeOn(h) BEFORE Map(fn): the forwarding subscription runs on h and publishes on the derived publisher, which
	// has no handler of its own (its deliveries happen right there, exactly once, fn(v) for every v); unbuffered and
	// buffered handlers, subscribers on the derived publisher and after the forwarder on the origin, chains of Maps
	for _, hop := range []string{"h", "hb"} {
		for _, f := range []string{"a", "z"} {
			for _, pre := range [][]string{{}, {"s"}, {"s:u0", "z"}} {
				for _, post := range [][]string{{}, {"s"}, {"s:n", "s"}} {
					for _, der := range [][]string{{"s@1"}, {"s@1", "s@1:u0", "z@1"}, {"s@1:n", "s@1"}} {
						toks := append([]string{}, pre...)
						toks = append(toks, hop, "m:"+f)
						toks = append(toks, post...)
						toks = append(toks, der...)
						toks = append(toks, "p:1", "p:0", "c@1", "s@1", "p:2", "c")
						if f == "z" && (len(pre) != 1 || len(post) != 1) {
							continue // the constant-0 function only on a diagonal of the layouts
						}
						out("handlermap", "seq: "+strings.Join(toks, " ; "))
					}
				}
			}
		}
		for _, lay := range [][]string{
			{hop, "m:a", "m@1:d", "s@2", "p:1", "p:2"},
			{hop, "m:a", "s@1", "m@1:d", "s@2", "s", "p:1", "p:2", "c@2"},
			{"s", hop, "m:a", "m:d", "s@1", "s@2", "s", "p:3", "p:4"},
			{hop, "m:a", "s@1", hop + "@1", "s@1", "p:1", "p:2"},
			{hop, "m:i", "s@1:p", "s@1", "p:1"},
		} {
			out("handlermap", "seq: "+strings.Join(lay, " ; "))
		}
	}

	// SubscribeOn called again between publishes (a new handler each time): every later delivery runs on the handler
	// set last, also behind a Map and when origin and derived publisher both have one
	for _, lay := range [][]string{
		{"h", "s", "p:1", "h", "p:2", "s", "p:3", "c"},
		{"s", "s:u0", "h", "p:1", "h", "s", "p:2", "z", "p:3", "c"},
		{"m:a", "s@1", "h@1", "p:1", "h@1", "s@1:u-1", "p:2", "h", "p:3", "c@1"},
		{"s", "p:1", "h", "p:2", "h", "h", "s:n", "p:3", "p:4", "c"},
	} {
		out("handler", "seq: "+strings.Join(lay, " ; "))
	}

	// (5) directed schedules: Publish(1) of goroutine 1 parked after the snapshot (position 0) / before delivery
	// k (position k), another goroutine performs one or two operations there
	initScripts := []string{"", "u0", "u+1", "n"}
	maxN := 3
	if thorough {
		maxN = 4
	}
	for n := 0; n <= maxN; n++ {
		for _, is := range initScripts {
			var mainOps []string
			mainOps = append(mainOps, "s", "p:2", "s:u0")
			for id := 1; id <= n; id++ {
				mainOps = append(mainOps, "u:"+strconv.Itoa(id))
			}
			sched := func(at map[int][]string) string {
				toks := []string{}
				for k := 0; k < n; k++ {
					toks = append(toks, c10SubTok(is))
				}
				toks = append(toks, "go1:1")
				// at[0]: parked after the snapshot; at[k]: parked before delivery k-1; at[n+1]: Publish has returned
				for pos := 0; pos <= n+1; pos++ {
					toks = append(toks, at[pos]...)
					toks = append(toks, "adv1")
				}
				toks = append(toks, "fin1", "p:3", "c")
				return "sched: " + strings.Join(toks, " ; ")
			}
			for pos := 0; pos <= n+1; pos++ {
				for _, op := range mainOps {
					out("sched1", sched(map[int][]string{pos: {op}}))
					if is == "" || thorough {
						for pos2 := pos; pos2 <= n+1; pos2++ {
							for _, op2 := range mainOps {
								if pos2 == pos {
									out("sched2", sched(map[int][]string{pos: {op, op2}}))
								} else {
									out("sched2", sched(map[int][]string{pos: {op}, pos2: {op2}}))
								}
							}
						}
					}
				}
			}
		}
	}
	// random schedules: two background publishers stepping through their deliveries, scripts, main ops in between
	nSched := 600
	if thorough {
		nSched = 6000
	}
	for i := 0; i < nSched; i++ {
		var toks []string
		subs := 1 + rng.Intn(5)
		pubScripts := 0
		for k := 0; k < subs; k++ {
			s := c10RandScript(rng, 2, pubScripts < 1)
			if strings.Contains(s, "p") {
				pubScripts++
			}
			toks = append(toks, c10SubTok(s))
		}
		live := map[int]bool{}
		v := 0
		for j, nops := 0, 6+rng.Intn(20); j < nops; j++ {
			r := rng.Intn(100)
			t := 1 + rng.Intn(2)
			switch {
			case r < 15 && !live[t]:
				v++
				toks = append(toks, fmt.Sprintf("go%d:%d", t, v))
				live[t] = true
			case r < 60:
				toks = append(toks, fmt.Sprintf("adv%d", t))
			case r < 67:
				toks = append(toks, c10SubTok(c10RandScript(rng, 2, false)))
				subs++
			case r < 72:
				toks = append(toks, "z")
				subs++
			case r < 86:
				toks = append(toks, "u:"+strconv.Itoa(1+rng.Intn(subs+1)))
			case r < 94:
				v++
				toks = append(toks, "p:"+strconv.Itoa(v))
			default:
				toks = append(toks, "c")
			}
		}
		v++
		toks = append(toks, "fin1", "fin2", "p:"+strconv.Itoa(v), "c")
		out("schedrandom", "sched: "+strings.Join(toks, " ; "))
	}

	// (6) stress
	nStress, N := 10, 150
	if thorough {
		nStress, N = 60, 400
	}
	for i := 0; i < nStress; i++ {
		out("stress", fmt.Sprintf("stress: pubs=%d stable=%d churn=%d n=%d handler=%d map=%d nil=%d seed=%d",
			1+rng.Intn(4), 1+rng.Intn(4), 1+rng.Intn(3), N, i%3/2, (i/3)%3, i%2, rng.Intn(1<<30)))
	}

	res := map[string]interface{}{
		"exhaustive": false,
		"exhaustive_scope": "1..3 subscribers x all callback scripts of <= 2 actions over {n,u0,u-1,u+1,p} (4 subscribers: <= 1 action), two publishes each",
	}
	for k, v := range stats {
		res["cases_"+k] = v
	}
	return res
}
