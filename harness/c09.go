package main

// C09 — WorkerPool (worker/pool.go) against the transition system of lean/FpgoVerif/Model/C09Sys.lean.
//
//	sched <cfg>: op ; op ; ...     directed schedule: every op is performed on the real pool, goroutines are held
//	                               at the verif park points named by `park:<point>:<n>`; one observation per op
//	stress <params>                free-running seeded stress with monitors; one summary observation
//
// cfg: max sb batch c b cq(1/0) jam(ms,0=1h).  Ops (model semantics in Model/C09.lean):
//
//	s:<k>:<kind> Schedule job k          t:<k>:<kind> ScheduleWithTimeout(30ms)   i:<k>:<kind> Invoke
//	it:<k>:<kind> InvokeWithTimeout(30ms)          t:<k>:<kind>:<ns> / it:<k>:<kind>:<ns> the same with a timeout of <ns> nanoseconds
//	as:<k>:<kind> Schedule in its own goroutine (parks at `sched`)   j:<k> its answer
//	r:<k> open the gate of job k         w:<count>/<busy>/<fin> wait for these counters (hint), then observe
//	park:<pt>:<n>  wp:<pt>:<n>  rel:<pt>   close  aclose  jclose  pre:<n>  exp:<ms>  sleep:<ms>  expire:<n>
//
// kinds: f fast, g gated, p<v> gated then panics with v, q<v> panics at once.

import (
	"errors"
	"fmt"
	"io"
	"log"
	"math/rand"
	"os"
	"runtime"
	"sort"
	"strconv"
	"strings"
	"sync"
	"sync/atomic"
	"time"

	fpgo "github.com/TeaEntityLab/fpGo/v2"
	"github.com/TeaEntityLab/fpGo/v2/worker"
)

var c09Points = map[string]string{
	"sched": "pool.schedule.afterClosedCheck", "wclosed": "pool.worker.afterClosedCheck", "afterjob": "pool.worker.afterJob",
	"exit": "pool.worker.exit.afterUnlock", "expiry": "pool.worker.expiry.decided", "closeflag": "pool.close.afterFlag",
	"tryspawn": "pool.tryspawn.afterRUnlock"}

const c09Wait = 3 * time.Second

var c09Debug = os.Getenv("C09_DEBUG") != ""

// c09Ctl parks the next `budget` arrivals at a point (any goroutine) and counts arrivals.
type c09Ctl struct {
	mu      sync.Mutex
	budget  map[string]int
	parked  map[string][]chan struct{}
	arrived map[string]int
	jitter  *rand.Rand
}

func newC09Ctl() *c09Ctl {
	c := &c09Ctl{budget: map[string]int{}, parked: map[string][]chan struct{}{}, arrived: map[string]int{}}
	fpgo.VerifSetController(c)
	return c
}

func (c *c09Ctl) Reach(gid int64, point string) {
	c.mu.Lock()
	c.arrived[point]++
	if c09Debug {
		fmt.Fprintf(os.Stderr, "%s g%d %s\n", time.Now().Format("05.000000"), gid, point)
	}
	var ch chan struct{}
	if c.budget[point] > 0 {
		c.budget[point]--
		ch = make(chan struct{})
		c.parked[point] = append(c.parked[point], ch)
	}
	d := time.Duration(0)
	if c.jitter != nil && strings.HasPrefix(point, "pool.") && c.jitter.Intn(4) == 0 {
		d = time.Duration(c.jitter.Intn(200)) * time.Microsecond
	}
	c.mu.Unlock()
	if ch != nil {
		<-ch
	}
	if d > 0 {
		time.Sleep(d)
	}
}
func (c *c09Ctl) park(pt string, n int) { c.mu.Lock(); c.budget[pt] = n; c.mu.Unlock() }
func (c *c09Ctl) parkedAt(pt string) int { c.mu.Lock(); defer c.mu.Unlock(); return len(c.parked[pt]) }
func (c *c09Ctl) arrivedAt(pt string) int { c.mu.Lock(); defer c.mu.Unlock(); return c.arrived[pt] }
func (c *c09Ctl) release(pt string) {
	c.mu.Lock()
	c.budget[pt] = 0
	for _, ch := range c.parked[pt] {
		close(ch)
	}
	c.parked[pt] = nil
	c.mu.Unlock()
}
func (c *c09Ctl) uninstall() {
	fpgo.VerifSetController(nil)
	c.mu.Lock()
	for pt, l := range c.parked {
		for _, ch := range l {
			close(ch)
		}
		c.parked[pt] = nil
		c.budget[pt] = 0
	}
	c.mu.Unlock()
}

func c09Cfg(toks []string, key string, dflt int) int {
	for _, t := range toks {
		if strings.HasPrefix(t, key+"=") {
			if v, err := strconv.Atoi(t[len(key)+1:]); err == nil {
				return v
			}
		}
	}
	return dflt
}
func c09List(toks []string, key string) map[int]bool {
	res := map[int]bool{}
	for _, t := range toks {
		if strings.HasPrefix(t, key+"=") {
			for _, p := range strings.Split(t[len(key)+1:], ",") {
				if v, err := strconv.Atoi(p); err == nil {
					res[v] = true
				}
			}
		}
	}
	return res
}

func c09Err(err error) string {
	switch err {
	case nil:
		return "ok"
	case worker.ErrWorkerPoolJobQueueIsFull:
		return "full"
	case worker.ErrWorkerPoolIsClosed:
		return "closed"
	case worker.ErrWorkerPoolScheduleTimeout:
		return "timeout"
	case fpgo.ErrQueueIsClosed:
		return "qclosed"
	}
	return "err-other"
}

// timeout of a `t` / `it` op: 30 ms, or the optional fourth field in nanoseconds (0, tiny and negative values:
// the call must still answer Timeout on a full queue and nil when there is room)
func c09Timeout(f []string) time.Duration {
	if len(f) > 3 {
		if ns, err := strconv.Atoi(f[3]); err == nil {
			return time.Duration(ns)
		}
	}
	return 30 * time.Millisecond
}

func c09Dur(ms int) time.Duration {
	if ms <= 0 {
		return time.Hour
	}
	return time.Duration(ms) * time.Millisecond
}

type c09Job struct {
	starts, fins int32
	gate         chan struct{}
	done         chan struct{} // closed when the job has finished once
	doneOnce     sync.Once
}

type c09Env struct {
	ctl    *c09Ctl
	q      *fpgo.BufferedChannelQueue[func()]
	pool   *worker.DefaultWorkerPool
	max    int
	jobs   []*c09Job // creation order
	byName map[int]*c09Job
	cur    int32
	peak   int32
	finTot int32
	hmu    sync.Mutex
	han    [][2]int
	foreign int32
	async  map[int]chan string
	aclose chan struct{}
	closed bool
	diverged bool
	toks   []string
	expMs  int
	slowMs int32
	dmu    sync.Mutex
	dones  map[int]chan struct{} // by job name; may be asked for before the job exists
	hwait  int32                 // -1, or the name of the job the panic handler waits for
	hcall  int32                 // 0, or the n of the PreAllocWorkerSize(n) the panic handler calls
	stuck  bool                  // VerifCounts did not return: the pool's lock is held for good
}

func (e *c09Env) doneOf(k int) chan struct{} {
	e.dmu.Lock()
	defer e.dmu.Unlock()
	ch := e.dones[k]
	if ch == nil {
		ch = make(chan struct{})
		e.dones[k] = ch
	}
	return ch
}

// counts is VerifCounts with a bound: a pool whose lock is never released answers -1/-1 instead of hanging the case
func (e *c09Env) counts() (int, int) {
	if e.stuck {
		return -1, -1
	}
	ch := make(chan [2]int, 1)
	go func() { a, b := e.pool.VerifCounts(); ch <- [2]int{a, b} }()
	select {
	case r := <-ch:
		return r[0], r[1]
	case <-time.After(2 * time.Second):
		e.stuck = true
		e.diverged = true
		return -1, -1
	}
}

func c09NewEnv(toks []string, expMs int) *c09Env {
	e := &c09Env{ctl: newC09Ctl(), max: c09Cfg(toks, "max", 1), async: map[int]chan string{}, byName: map[int]*c09Job{}, dones: map[int]chan struct{}{}, hwait: -1}
	e.q = fpgo.NewBufferedChannelQueue[func()](c09Cfg(toks, "c", 1), c09Cfg(toks, "b", 0), 16).
		SetLoadFromPoolDuration(time.Millisecond / 2)
	e.toks, e.expMs = toks, expMs
	// Start from the zero settings (workerSizeMaximum 0: nothing can be spawned) and set the maximum last, so
	// that the spawn loop never acts on a half-configured pool.
	e.pool = worker.NewDefaultWorkerPool(e.q, &worker.DefaultWorkerPoolSettings{})
	e.applySettings()
	e.pool.SetPanicHandler(e.recorder)
	e.raiseMaximum()
	return e
}

func (e *c09Env) recorder(p interface{}) {
	if ms := atomic.LoadInt32(&e.slowMs); ms > 0 {
		time.Sleep(time.Duration(ms) * time.Millisecond)
	}
	if k := atomic.LoadInt32(&e.hwait); k >= 0 {
		<-e.doneOf(int(k)) // a handler that reports only after another job has got through
	}
	if n := atomic.LoadInt32(&e.hcall); n > 0 {
		e.pool.VerifCounts() // a handler that looks at the pool and tops it up
		e.pool.PreAllocWorkerSize(int(n))
	}
	if v, ok := p.(int); ok {
		e.hmu.Lock()
		e.han = append(e.han, [2]int{v / 1000, v % 1000})
		e.hmu.Unlock()
	} else {
		atomic.AddInt32(&e.foreign, 1)
	}
}

// every setting except the maximum (which stays 0 until raiseMaximum: nothing can be spawned meanwhile)
func (e *c09Env) applySettings() {
	e.pool.SetSpawnWorkerDuration(time.Millisecond).
		SetWorkerExpiryDuration(c09Dur(e.expMs)).
		SetWorkerJamDuration(c09Dur(c09Cfg(e.toks, "jam", 0))).
		SetScheduleRetryInterval(2 * time.Millisecond).
		SetWorkerSizeStandBy(c09Cfg(e.toks, "sb", 1)).
		SetWorkerBatchSize(c09Cfg(e.toks, "batch", 0)).
		SetIsJobQueueClosedWhenClose(c09Cfg(e.toks, "cq", 1) == 1)
}

func (e *c09Env) raiseMaximum() {
	e.pool.SetWorkerSizeMaximum(e.max)
	want := c09Cfg(e.toks, "sb", 1)
	if e.max < want {
		want = e.max
	}
	c09Until(c09Wait, func() bool { wc, _ := e.pool.VerifCounts(); return wc >= want && c09SpawnIdle() })
}

// job k of the given kind; slowUs > 0 makes it sleep
func (e *c09Env) mkJob(k int, kind string, slowUs int) func() {
	j := &c09Job{gate: make(chan struct{})}
	if _, dup := e.byName[k]; !dup {
		j.done = e.doneOf(k)
	} else {
		j.done = make(chan struct{})
	}
	idx := len(e.jobs) // the model identifies a job with its creation index
	e.jobs = append(e.jobs, j)
	if _, dup := e.byName[k]; !dup {
		e.byName[k] = j
	}
	return func() {
		c := atomic.AddInt32(&e.cur, 1)
		for {
			p := atomic.LoadInt32(&e.peak)
			if c <= p || atomic.CompareAndSwapInt32(&e.peak, p, c) {
				break
			}
		}
		atomic.AddInt32(&j.starts, 1)
		defer func() {
			atomic.AddInt32(&e.cur, -1)
			atomic.AddInt32(&j.fins, 1)
			atomic.AddInt32(&e.finTot, 1)
			j.doneOnce.Do(func() { close(j.done) })
		}()
		if slowUs > 0 {
			time.Sleep(time.Duration(slowUs) * time.Microsecond)
		}
		switch kind[0] {
		case 'g':
			<-j.gate
		case 'p':
			<-j.gate
			v, _ := strconv.Atoi(kind[1:])
			panic(idx*1000 + v)
		case 'q':
			v, _ := strconv.Atoi(kind[1:])
			panic(idx*1000 + v)
		}
	}
}

func (e *c09Env) state() string {
	wc, wb := e.counts()
	var runs strings.Builder
	for _, j := range e.jobs {
		s := atomic.LoadInt32(&j.starts)
		if s > 9 {
			s = 9
		}
		runs.WriteString(strconv.Itoa(int(s)))
	}
	e.hmu.Lock()
	h := append([][2]int{}, e.han...)
	e.hmu.Unlock()
	sort.Slice(h, func(a, b int) bool { return h[a][0] < h[b][0] || (h[a][0] == h[b][0] && h[a][1] < h[b][1]) })
	hs := make([]string, len(h))
	for i, x := range h {
		hs[i] = fmt.Sprintf("%d:%d", x[0], x[1])
	}
	g := "ok"
	if p := atomic.LoadInt32(&e.peak); int(p) > e.max {
		g = "viol" + strconv.Itoa(int(p))
	}
	out := fmt.Sprintf("n=%d/%d run=%s fin=%d han=[%s] g=%s", wc, wb, runs.String(), atomic.LoadInt32(&e.finTot), strings.Join(hs, ","), g)
	if f := atomic.LoadInt32(&e.foreign); f > 0 {
		out += fmt.Sprintf(" viol-foreign-panic=%d", f)
	}
	return out
}

// c09SpawnIdle reports whether every spawn loop in the process is blocked waiting for a token (or held at a
// park point): then no token is buffered either, i.e. everything posted so far has been acted upon.
// goroutines of finished cases that never went away (a spawn loop waiting for a token for ever, a worker stuck on
// a lock that is never released): they say nothing about the pool of the current case
var c09Zombies = map[string]bool{}

func c09Dump() []string {
	buf := make([]byte, 1<<20)
	for {
		n := runtime.Stack(buf, true)
		if n < len(buf) {
			buf = buf[:n]
			break
		}
		buf = make([]byte, 2*len(buf))
	}
	return strings.Split(string(buf), "\n\n")
}

func c09IsPoolG(g string) bool {
	return strings.Contains(g, ").spawnLoop(") || strings.Contains(g, "fpGo/v2/worker.(*DefaultWorkerPool)") ||
		strings.Contains(g, "fpGo/v2.(*BufferedChannelQueue")
}

func c09Gid(g string) string {
	if i := strings.Index(g, " ["); i > 0 {
		return g[:i]
	}
	return g
}

func c09MarkZombies() {
	for _, g := range c09Dump() {
		if c09IsPoolG(g) {
			c09Zombies[c09Gid(g)] = true
		}
	}
}

func c09SpawnIdle() bool {
	for _, g := range c09Dump() {
		if c09Zombies[c09Gid(g)] {
			continue
		}
		head := g
		if i := strings.IndexByte(g, '\n'); i >= 0 {
			head = g[:i]
		}
		if strings.Contains(g, ").spawnLoop(") {
			if !strings.Contains(head, "[chan receive") {
				return false
			}
		} else if strings.Contains(g, "fpGo/v2/worker.(*DefaultWorkerPool)") || strings.Contains(g, "fpGo/v2.(*BufferedChannelQueue") {
			// a worker (in its select, inside a gated job, held at a park point), a caller held inside the pool,
			// the queue's loader / node recycler waiting for a wake-up — anything else is in motion
			if !strings.Contains(head, "[select") && !strings.Contains(head, "[chan receive") {
				return false
			}
		}
	}
	return true
}

// wait bounds: generous while the run follows the prediction, short once a wait has already timed out in this
// case (the run has left the predicted path; the remaining observations only document where it went)
func (e *c09Env) bound() time.Duration {
	if e.diverged {
		return 150 * time.Millisecond
	}
	return c09Wait
}
// until waits for cond.  It gives up early when nothing can change any more: every goroutine inside the pool or
// the queue is blocked (select / channel receive; a runnable or sleeping one does not count) and the counters
// have not moved for half a second — then the run has left the predicted path and waiting longer is pointless.
func (e *c09Env) until(cond func() bool) bool {
	deadline := time.Now().Add(e.bound())
	sig := func() string {
		wc, wb := e.counts()
		e.ctl.mu.Lock()
		a, p := 0, 0
		for _, n := range e.ctl.arrived {
			a += n
		}
		for _, l := range e.ctl.parked {
			p += len(l)
		}
		e.ctl.mu.Unlock()
		return fmt.Sprint(wc, wb, atomic.LoadInt32(&e.finTot), atomic.LoadInt32(&e.cur), a, p)
	}
	last, since := "", time.Now()
	for {
		if cond() {
			return true
		}
		now := time.Now()
		if now.After(deadline) {
			break
		}
		if c09SpawnIdle() {
			if s := sig(); s != last {
				last, since = s, now
			} else if now.Sub(since) > 500*time.Millisecond {
				break
			}
		} else {
			last = ""
		}
		time.Sleep(300 * time.Microsecond)
	}
	e.diverged = true
	return false
}

func (e *c09Env) settle() { e.until(c09SpawnIdle) }

func c09Until(d time.Duration, cond func() bool) bool {
	deadline := time.Now().Add(d)
	for {
		if cond() {
			return true
		}
		if time.Now().After(deadline) {
			return false
		}
		time.Sleep(200 * time.Microsecond)
	}
}

func (e *c09Env) cleanup() {
	for _, pt := range c09Points {
		e.ctl.release(pt)
	}
	for _, j := range e.jobs {
		select {
		case <-j.gate:
		default:
			close(j.gate)
		}
	}
	if e.aclose != nil {
		// a Close is already under way in its own goroutine: let it finish instead of racing a second one
		select {
		case <-e.aclose:
		case <-time.After(c09Wait):
		}
	} else {
		e.pool.Close()
	}
	if !e.q.IsClosed() {
		e.q.Close()
	}
	e.dmu.Lock()
	for k, ch := range e.dones { // a handler still waiting for a job is let go
		select {
		case <-ch:
		default:
			if j := e.byName[k]; j != nil {
				j.doneOnce.Do(func() { close(ch) })
			} else {
				close(ch)
			}
		}
	}
	e.dmu.Unlock()
	c09Until(time.Second, func() bool { wc, _ := e.counts(); return wc == 0 })
	e.ctl.uninstall()
	c09MarkZombies()
}

func (e *c09Env) op(tok string) string {
	f := strings.Split(tok, ":")
	num := func(i int) int {
		if i < len(f) {
			v, _ := strconv.Atoi(f[i])
			return v
		}
		return 0
	}
	pt := func(i int) string {
		if i < len(f) {
			if p, ok := c09Points[f[i]]; ok {
				return p
			}
		}
		return "?"
	}
	switch f[0] {
	case "s":
		r := c09Err(e.pool.Schedule(e.mkJob(num(1), f[2], 0)))
		e.settle()
		return fmt.Sprintf("s%d=%s", num(1), r)
	case "t":
		to := c09Timeout(f)
		t0 := time.Now()
		err := e.pool.ScheduleWithTimeout(e.mkJob(num(1), f[2], 0), to)
		r := c09Err(err)
		if err == worker.ErrWorkerPoolScheduleTimeout && time.Since(t0) < to {
			r = "viol-early-timeout"
		}
		e.settle()
		return fmt.Sprintf("t%d=%s", num(1), r)
	case "it":
		// InvokeWithTimeout: the error of ScheduleWithTimeout must come back to the caller
		job := e.mkJob(num(1), f[2], 0)
		to := c09Timeout(f)
		t0 := time.Now()
		err := worker.NewDefaultInvokable[int](e.pool, func(int) { job() }).InvokeWithTimeout(num(1), to)
		r := c09Err(err)
		if err == worker.ErrWorkerPoolScheduleTimeout && time.Since(t0) < to {
			r = "viol-early-timeout"
		}
		e.settle()
		return fmt.Sprintf("it%d=%s", num(1), r)
	case "i":
		job := e.mkJob(num(1), f[2], 0)
		worker.NewDefaultInvokable[int](e.pool, func(int) { job() }).Invoke(num(1))
		e.settle()
		return fmt.Sprintf("i%d", num(1))
	case "as":
		k := num(1)
		ch := make(chan string, 1)
		e.async[k] = ch
		job := e.mkJob(k, f[2], 0)
		before := e.ctl.parkedAt(c09Points["sched"])
		go func() { ch <- c09Err(e.pool.Schedule(job)) }()
		if e.until(func() bool { return e.ctl.parkedAt(c09Points["sched"]) > before }) {
			return fmt.Sprintf("as%d=parked", k)
		}
		return fmt.Sprintf("as%d=notparked", k)
	case "j":
		ch := e.async[num(1)]
		if ch == nil {
			return fmt.Sprintf("j%d=pending", num(1))
		}
		select {
		case r := <-ch:
			ch <- r
			e.settle()
			return fmt.Sprintf("j%d=%s", num(1), r)
		case <-time.After(e.bound()):
			e.diverged = true
			return fmt.Sprintf("j%d=pending", num(1))
		}
	case "r":
		if j := e.byName[num(1)]; j != nil {
			select {
			case <-j.gate:
			default:
				close(j.gate)
			}
		}
		return "r" + f[1]
	case "w":
		h := strings.Split(f[1], "/")
		hc, _ := strconv.Atoi(h[0])
		hb, _ := strconv.Atoi(h[1])
		hf, _ := strconv.Atoi(h[2])
		e.until(func() bool {
			wc, wb := e.counts()
			return wc == hc && wb == hb && int(atomic.LoadInt32(&e.finTot)) == hf && c09SpawnIdle()
		})
		time.Sleep(15 * time.Millisecond)
		e.settle()
		return e.state()
	case "park":
		e.ctl.park(pt(1), num(2))
		return "park"
	case "wp":
		e.until(func() bool { return e.ctl.parkedAt(pt(1)) >= num(2) })
		return fmt.Sprintf("wp=%d", e.ctl.parkedAt(pt(1)))
	case "rel":
		e.ctl.release(pt(1))
		time.Sleep(time.Millisecond)
		e.settle()
		return "rel"
	case "close":
		e.pool.Close()
		return "close"
	case "aclose":
		e.aclose = make(chan struct{})
		go func() { e.pool.Close(); close(e.aclose) }()
		if e.until(func() bool { return e.ctl.parkedAt(c09Points["closeflag"]) >= 1 }) {
			return "aclose=parked"
		}
		return "aclose=notparked"
	case "jclose":
		if e.aclose == nil {
			return "jclose=pending"
		}
		select {
		case <-e.aclose:
			return "jclose=done"
		case <-time.After(e.bound()):
			e.diverged = true
			return "jclose=pending"
		}
	case "pre":
		e.pool.PreAllocWorkerSize(num(1))
		e.settle()
		return "pre"
	case "hg":
		atomic.StoreInt32(&e.hwait, int32(num(1)))
		return "hg"
	case "hc":
		atomic.StoreInt32(&e.hcall, int32(num(1)))
		return "hc"
	case "sy":
		// let the pool come to rest (spawn loop waiting, workers in their select / gates / park points)
		time.Sleep(2 * time.Millisecond)
		e.settle()
		return "sy"
	case "jam":
		// set while every worker sits in a gated job: the jam rule then depends on nothing that is still moving
		e.pool.SetWorkerJamDuration(c09Dur(num(1)))
		e.settle()
		return "jam"
	case "nh":
		e.pool.SetPanicHandler(nil)
		return "nh"
	case "sh":
		e.pool.SetPanicHandler(e.recorder)
		return "sh"
	case "nhs":
		e.pool.SetDefaultWorkerPoolSettings(worker.DefaultWorkerPoolSettings{})
		e.applySettings()
		e.raiseMaximum()
		e.settle()
		return "nhs"
	case "hs":
		atomic.StoreInt32(&e.slowMs, int32(num(1)))
		return "hs"
	case "exp":
		e.expMs = num(1)
		e.pool.SetWorkerExpiryDuration(c09Dur(num(1)))
		e.settle()
		return "exp"
	case "sleep":
		time.Sleep(time.Duration(num(1)) * time.Millisecond)
		return "sleep"
	case "expire":
		e.until(func() bool { return e.ctl.arrivedAt(c09Points["expiry"]) >= num(1) })
		time.Sleep(15 * time.Millisecond)
		return fmt.Sprintf("expire=%d", e.ctl.arrivedAt(c09Points["expiry"]))
	}
	return "bad-op"
}

func c09RunSched(line string) string {
	head, body := line, ""
	if i := strings.Index(line, ": "); i >= 0 {
		head, body = line[:i], line[i+2:]
	}
	e := c09NewEnv(strings.Fields(head), 0)
	defer e.cleanup()
	var outs []string
	for _, t := range strings.Split(body, ";") {
		t = strings.TrimSpace(t)
		if t == "" {
			continue
		}
		outs = append(outs, e.op(t))
	}
	return strings.Join(outs, " | ")
}

// ---- stress

func c09RunStress(line string) string {
	toks := strings.Fields(line)
	n, subs := c09Cfg(toks, "n", 20), c09Cfg(toks, "sub", 1)
	mode := "s"
	for _, t := range toks {
		if strings.HasPrefix(t, "mode=") {
			mode = t[5:]
		}
	}
	tiny := c09Cfg(toks, "tiny", 0) == 1
	pans, slows := c09List(toks, "pan"), c09List(toks, "slow")
	slowAll := c09Cfg(toks, "slowall", 0) == 1
	burst, pause := c09Cfg(toks, "burst", 0), c09Cfg(toks, "pause", 0)
	seed := int64(c09Cfg(toks, "seed", 1))
	e := c09NewEnv(toks, c09Cfg(toks, "exp", 0))
	defer e.cleanup()
	atomic.StoreInt32(&e.slowMs, int32(c09Cfg(toks, "hs", 0)))
	if c09Cfg(toks, "jit", 0) == 1 {
		e.ctl.mu.Lock()
		e.ctl.jitter = rand.New(rand.NewSource(seed))
		e.ctl.mu.Unlock()
	}
	var viols []string
	var vmu sync.Mutex
	var notes []string
	viol := func(s string) { vmu.Lock(); if len(viols) < 4 { viols = append(viols, s) }; vmu.Unlock() }
	// bookkeeping anomalies that are not statements of the property (reported, judged `allowed`)
	note := func(s string) { vmu.Lock(); if len(notes) < 4 { notes = append(notes, s) }; vmu.Unlock() }
	fns := make([]func(), n)
	for k := 0; k < n; k++ {
		kind, slow := "f", 0
		if pans[k] {
			kind = "q" + strconv.Itoa(k%97+1)
		}
		if slows[k] || slowAll {
			slow = 300 + int(seed+int64(k)*7)%1500
		}
		fns[k] = e.mkJob(k, kind, slow)
	}
	accepted := make([]int32, n) // 1 accepted, 2 rejected, 0 unknown (Invoke)
	stop := make(chan struct{})
	var sampler sync.WaitGroup
	sampler.Add(1)
	go func() {
		defer sampler.Done()
		for {
			select {
			case <-stop:
				return
			default:
			}
			wc, wb := e.pool.VerifCounts()
			if wc > e.max {
				note(fmt.Sprintf("workerCount=%d>max", wc))
			}
			if wb > wc || wb < 0 || wc < 0 {
				note(fmt.Sprintf("counters=%d/%d", wc, wb))
			}
			time.Sleep(100 * time.Microsecond)
		}
	}()
	var wg sync.WaitGroup
	for g := 0; g < subs; g++ {
		wg.Add(1)
		go func(g int) {
			defer wg.Done()
			rng := rand.New(rand.NewSource(seed*131 + int64(g)))
			inv := worker.NewDefaultInvokable[int](e.pool, func(k int) { fns[k]() })
			for k := g; k < n; k += subs {
				var err error
				switch mode {
				case "t":
					err = e.pool.ScheduleWithTimeout(fns[k], 5*time.Millisecond)
				case "i":
					inv.Invoke(k)
					continue
				case "it":
					err = inv.InvokeWithTimeout(k, 5*time.Millisecond)
				default:
					err = e.pool.Schedule(fns[k])
				}
				if err == nil {
					atomic.StoreInt32(&accepted[k], 1)
				} else {
					atomic.StoreInt32(&accepted[k], 2)
					if err != worker.ErrWorkerPoolJobQueueIsFull && err != worker.ErrWorkerPoolScheduleTimeout {
						viol("answer-" + c09Err(err))
					}
					if err == worker.ErrWorkerPoolScheduleTimeout && mode == "s" {
						viol("timeout-from-Schedule")
					}
					if err == worker.ErrWorkerPoolJobQueueIsFull && mode != "s" {
						viol("full-from-ScheduleWithTimeout")
					}
				}
				if burst > 0 {
					if (k/subs+1)%burst == 0 {
						time.Sleep(time.Duration(pause)*time.Millisecond + time.Duration(rng.Intn(400))*time.Microsecond)
					}
				} else if rng.Intn(3) == 0 {
					time.Sleep(time.Duration(rng.Intn(300)) * time.Microsecond)
				}
			}
		}(g)
	}
	wg.Wait()
	allDone := func() bool {
		for k := 0; k < n; k++ {
			a := atomic.LoadInt32(&accepted[k])
			if (a == 1 || (a == 0 && !tiny)) && atomic.LoadInt32(&e.jobs[k].fins) < 1 {
				return false
			}
		}
		return true
	}
	if !c09Until(5*time.Second, allDone) {
		lost := 0
		for k := 0; k < n; k++ {
			if a := atomic.LoadInt32(&accepted[k]); a != 2 && atomic.LoadInt32(&e.jobs[k].fins) < 1 {
				lost++
			}
		}
		viol(fmt.Sprintf("accepted-not-run=%d", lost))
	}
	time.Sleep(10 * time.Millisecond)
	acc, ran, wantHan := 0, 0, map[[2]int]int{}
	for k := 0; k < n; k++ {
		a, s := atomic.LoadInt32(&accepted[k]), atomic.LoadInt32(&e.jobs[k].starts)
		if s > 1 {
			viol(fmt.Sprintf("job%d-ran-%d-times", k, s))
		}
		if a == 2 && s > 0 {
			viol(fmt.Sprintf("rejected-job%d-ran", k))
		}
		if a == 1 || (a == 0 && s > 0) || (a == 0 && !tiny) {
			acc++
		}
		if s > 0 {
			ran++
			if pans[k] {
				wantHan[[2]int{k, k%97 + 1}]++
			}
		}
	}
	// every panic is reported once (a dying worker calls the handler before it gives its slot back)
	c09Until(time.Second, func() bool { _, wb := e.pool.VerifCounts(); return wb == 0 })
	e.hmu.Lock()
	got := map[[2]int]int{}
	for _, h := range e.han {
		got[h]++
	}
	nh := len(e.han)
	e.hmu.Unlock()
	for h, c := range wantHan {
		if got[h] != c {
			viol(fmt.Sprintf("handler-calls-job%d=%d", h[0], got[h]))
		}
	}
	for h, c := range got {
		if wantHan[h] != c {
			viol(fmt.Sprintf("handler-extra-job%d=%d", h[0], c))
		}
	}
	if f := atomic.LoadInt32(&e.foreign); f > 0 {
		viol(fmt.Sprintf("foreign-panic=%d", f))
	}
	if p := int(atomic.LoadInt32(&e.peak)); p > e.max {
		viol(fmt.Sprintf("gauge=%d>max", p))
	}
	if _, wb := e.pool.VerifCounts(); wb != 0 {
		note(fmt.Sprintf("workerBusy=%d-at-rest", wb))
	}
	close(stop)
	sampler.Wait()
	// closed pool
	e.pool.Close()
	var late int32
	if err := e.pool.Schedule(func() { atomic.AddInt32(&late, 1) }); err != worker.ErrWorkerPoolIsClosed {
		viol("closed-answer-" + c09Err(err))
	}
	if err := e.pool.ScheduleWithTimeout(func() { atomic.AddInt32(&late, 1) }, 3*time.Millisecond); err != worker.ErrWorkerPoolIsClosed {
		viol("closed-answer-swt-" + c09Err(err))
	}
	time.Sleep(10 * time.Millisecond)
	if atomic.LoadInt32(&late) != 0 {
		viol("rejected-after-close-ran")
	}
	if len(viols) > 0 {
		return "viol " + strings.Join(viols, " ")
	}
	if len(notes) > 0 {
		return "note " + strings.Join(notes, " ")
	}
	if tiny {
		return "ok acc=* ran=acc han=pan closed=ok"
	}
	return fmt.Sprintf("ok acc=%d ran=%d han=%d closed=ok", acc, ran, nh)
}

// ---- two pools alive at once
//
// twopool mode=nil|shared maxA=<a> maxB=<b> n=<n>: pool A (a workers) and pool B (b workers) are built either with nil
// settings or from one shared settings struct and configured through their own setters, B after A.  Then A gets n
// gated jobs (at most a may run at once) and a panicking job (A's handler, not B's), B gets a panicking job, and a
// third pool built with nil settings and no setter must still have the documented defaults (5 standby workers).
func c09RunTwoPool(line string) string {
	toks := strings.Fields(line)
	maxA, maxB, n := c09Cfg(toks, "maxA", 2), c09Cfg(toks, "maxB", 6), c09Cfg(toks, "n", 6)
	shared := false
	for _, t := range toks {
		if t == "mode=shared" {
			shared = true
		}
	}
	ctl := newC09Ctl()
	defer func() { ctl.uninstall(); c09MarkZombies() }()
	var viols []string
	var st *worker.DefaultWorkerPoolSettings
	if shared {
		st = &worker.DefaultWorkerPoolSettings{}
	}
	var hanA, hanB, strayA, strayB int32
	mk := func(max int, own, other *int32, tag int) (*worker.DefaultWorkerPool, *fpgo.BufferedChannelQueue[func()]) {
		q := fpgo.NewBufferedChannelQueue[func()](16, 0, 16)
		p := worker.NewDefaultWorkerPool(q, st)
		// the maximum first: with nil settings the defaults (standby 5, maximum 1000) are in force until then
		p.SetWorkerSizeMaximum(max).SetWorkerSizeStandBy(max).SetWorkerBatchSize(0).
			SetSpawnWorkerDuration(time.Millisecond).SetWorkerJamDuration(time.Hour).SetWorkerExpiryDuration(time.Hour).
			SetIsJobQueueClosedWhenClose(true)
		p.SetPanicHandler(func(v interface{}) {
			if x, ok := v.(int); ok && x == tag {
				atomic.AddInt32(own, 1)
			} else {
				atomic.AddInt32(other, 1)
			}
		})
		return p, q
	}
	poolA, qA := mk(maxA, &hanA, &strayA, 1)
	c09Until(c09Wait, func() bool { wc, _ := poolA.VerifCounts(); return wc == maxA && c09SpawnIdle() })
	poolB, qB := mk(maxB, &hanB, &strayB, 2)
	c09Until(c09Wait, func() bool { wc, _ := poolB.VerifCounts(); return wc == maxB && c09SpawnIdle() })
	defer func() {
		poolA.Close()
		poolB.Close()
		for _, q := range []*fpgo.BufferedChannelQueue[func()]{qA, qB} {
			if !q.IsClosed() {
				q.Close()
			}
		}
		c09Until(time.Second, func() bool { a, _ := poolA.VerifCounts(); b, _ := poolB.VerifCounts(); return a+b == 0 })
	}()
	// A again: n gated jobs
	var cur, peak, fin int32
	gate := make(chan struct{})
	for k := 0; k < n; k++ {
		if err := poolA.Schedule(func() {
			c := atomic.AddInt32(&cur, 1)
			for {
				p := atomic.LoadInt32(&peak)
				if c <= p || atomic.CompareAndSwapInt32(&peak, p, c) {
					break
				}
			}
			<-gate
			atomic.AddInt32(&cur, -1)
			atomic.AddInt32(&fin, 1)
		}); err != nil {
			viols = append(viols, "A-answer-"+c09Err(err))
		}
	}
	want := n
	if maxA < want {
		want = maxA
	}
	c09Until(c09Wait, func() bool { return int(atomic.LoadInt32(&cur)) >= want && c09SpawnIdle() })
	time.Sleep(20 * time.Millisecond)
	gauge := int(atomic.LoadInt32(&peak))
	if wc, _ := poolA.VerifCounts(); wc > maxA {
		viols = append(viols, fmt.Sprintf("A-workerCount=%d>max=%d", wc, maxA))
	}
	close(gate)
	c09Until(c09Wait, func() bool { return int(atomic.LoadInt32(&fin)) == n })
	if g := int(atomic.LoadInt32(&peak)); g > gauge {
		gauge = g
	}
	if gauge > maxA {
		viols = append(viols, fmt.Sprintf("A-gauge=%d>max=%d", gauge, maxA))
	}
	poolA.Schedule(func() { atomic.AddInt32(&fin, 1); panic(1) })
	poolB.Schedule(func() { panic(2) })
	c09Until(c09Wait, func() bool {
		return atomic.LoadInt32(&hanA)+atomic.LoadInt32(&strayA)+atomic.LoadInt32(&hanB)+atomic.LoadInt32(&strayB) >= 2
	})
	time.Sleep(5 * time.Millisecond)
	if atomic.LoadInt32(&strayA) > 0 {
		viols = append(viols, "B-panic-reported-to-A-handler")
	}
	if atomic.LoadInt32(&strayB) > 0 {
		viols = append(viols, "A-panic-reported-to-B-handler")
	}
	// a third pool, untouched: the documented defaults
	qC := fpgo.NewBufferedChannelQueue[func()](16, 0, 16)
	poolC := worker.NewDefaultWorkerPool(qC, nil)
	var ranC int32
	poolC.Schedule(func() { atomic.AddInt32(&ranC, 1) })
	c09Until(c09Wait, func() bool { wc, _ := poolC.VerifCounts(); return atomic.LoadInt32(&ranC) == 1 && wc >= 5 && c09SpawnIdle() })
	time.Sleep(10 * time.Millisecond)
	countC, _ := poolC.VerifCounts()
	poolC.Close()
	c09Until(time.Second, func() bool { wc, _ := poolC.VerifCounts(); return wc == 0 })
	if countC != 5 {
		viols = append(viols, fmt.Sprintf("default-pool-workerCount=%d-want-5", countC))
	}
	if len(viols) > 0 {
		return "viol " + strings.Join(viols, " ")
	}
	return fmt.Sprintf("ok gaugeA=%d ranA=%d hanA=%d hanB=%d countC=%d", gauge, atomic.LoadInt32(&fin), atomic.LoadInt32(&hanA), atomic.LoadInt32(&hanB), countC)
}

// ---- default panic handler, panic values of every kind

type c09DerefErr struct{ msg string }

func (e *c09DerefErr) Error() string { return e.msg } // dereferences the receiver: panics on a typed nil

type c09SafeErr struct{ msg string }

func (e *c09SafeErr) Error() string {
	if e == nil {
		return "<nil c09SafeErr>"
	}
	return e.msg
}

type c09Custom struct {
	A int
	B []string
}

// defhandler kinds=<k>: nil settings, no SetPanicHandler.  Job 2i panics with the i-th kind of value, job 2i+1 is an
// ordinary job scheduled after it.  The process must survive and every job run once.
func c09RunDefHandler(line string) string {
	k := c09Cfg(strings.Fields(line), "kinds", 6)
	old := log.Writer()
	log.SetOutput(io.Discard)
	defer log.SetOutput(old)
	ctl := newC09Ctl()
	defer func() { ctl.uninstall(); c09MarkZombies() }()
	q := fpgo.NewBufferedChannelQueue[func()](64, 0, 16)
	pool := worker.NewDefaultWorkerPool(q, nil)
	pool.SetWorkerSizeMaximum(2).SetWorkerSizeStandBy(2).SetWorkerBatchSize(0).SetSpawnWorkerDuration(time.Millisecond).
		SetWorkerJamDuration(time.Hour).SetWorkerExpiryDuration(time.Hour)
	defer func() {
		pool.Close()
		c09Until(time.Second, func() bool { wc, _ := pool.VerifCounts(); return wc == 0 })
	}()
	var nilDeref *c09DerefErr
	var nilSafe *c09SafeErr
	values := []interface{}{"a string", 42, errors.New("an ordinary error"), error(nilDeref), error(nilSafe),
		c09Custom{7, []string{"x"}}, &c09Custom{8, nil}, fmt.Errorf("wrapped: %w", errors.New("inner"))}
	runs := make([]int32, 2*k)
	for i := 0; i < k; i++ {
		v, a, b := values[i%len(values)], 2*i, 2*i+1
		if err := pool.Schedule(func() { atomic.AddInt32(&runs[a], 1); panic(v) }); err != nil {
			return "viol answer-" + c09Err(err)
		}
		if err := pool.Schedule(func() { atomic.AddInt32(&runs[b], 1) }); err != nil {
			return "viol answer-" + c09Err(err)
		}
		c09Until(c09Wait, func() bool { return atomic.LoadInt32(&runs[b]) == 1 })
	}
	c09Until(c09Wait, func() bool { wc, wb := pool.VerifCounts(); return wc == 2 && wb == 0 })
	time.Sleep(5 * time.Millisecond)
	ran := 0
	for j, r := range runs {
		if r > 1 {
			return fmt.Sprintf("viol job%d-ran-%d-times", j, r)
		}
		if r == 0 {
			return fmt.Sprintf("viol accepted-job%d-not-run", j)
		}
		ran++
	}
	return fmt.Sprintf("ok ran=%d panics=%d survived", ran, k)
}

// ---- Invokable: the accepted job is (callee in force at Invoke, value)

// invoke k=<k> max=<m> [timeout=1]: m gated blockers, Invoke 0..k-1 with the old callee, SetCallee, Invoke k..2k-1,
// release.  Each value must reach, exactly once, the callee that was in force when it was invoked.
func c09RunInvoke(line string) string {
	toks := strings.Fields(line)
	k, mx, timed := c09Cfg(toks, "k", 3), c09Cfg(toks, "max", 2), c09Cfg(toks, "timeout", 0) == 1
	e := c09NewEnv([]string{fmt.Sprintf("max=%d", mx), fmt.Sprintf("sb=%d", mx), "batch=0", "c=64", "b=0"}, 0)
	defer e.cleanup()
	gate := make(chan struct{})
	var blocked int32
	for i := 0; i < mx; i++ {
		e.pool.Schedule(func() { atomic.AddInt32(&blocked, 1); <-gate })
	}
	c09Until(c09Wait, func() bool { return int(atomic.LoadInt32(&blocked)) == mx })
	var mu sync.Mutex
	oldGot, newGot := map[int]int{}, map[int]int{}
	inv := worker.NewDefaultInvokable[int](e.pool, func(v int) { mu.Lock(); oldGot[v]++; mu.Unlock() })
	call := func(v int) string {
		if timed {
			if err := inv.InvokeWithTimeout(v, 20*time.Millisecond); err != nil {
				return "viol answer-" + c09Err(err)
			}
			return ""
		}
		inv.Invoke(v)
		return ""
	}
	for v := 0; v < k; v++ {
		if r := call(v); r != "" {
			return r
		}
	}
	inv.SetCallee(func(v int) { mu.Lock(); newGot[v]++; mu.Unlock() })
	for v := k; v < 2*k; v++ {
		if r := call(v); r != "" {
			return r
		}
	}
	close(gate)
	c09Until(c09Wait, func() bool { mu.Lock(); defer mu.Unlock(); return len(oldGot)+len(newGot) >= 2*k })
	time.Sleep(10 * time.Millisecond)
	mu.Lock()
	defer mu.Unlock()
	var viols []string
	for v := 0; v < 2*k; v++ {
		want, other, wn, on := oldGot, newGot, "old", "new"
		if v >= k {
			want, other, wn, on = newGot, oldGot, "new", "old"
		}
		if want[v] != 1 {
			viols = append(viols, fmt.Sprintf("value%d-reached-%s-callee-%d-times", v, wn, want[v]))
		}
		if other[v] != 0 {
			viols = append(viols, fmt.Sprintf("value%d-reached-%s-callee-%d-times", v, on, other[v]))
		}
	}
	if len(viols) > 0 {
		if len(viols) > 4 {
			viols = viols[:4]
		}
		return "viol " + strings.Join(viols, " ")
	}
	return fmt.Sprintf("ok old=%d new=%d", len(oldGot), len(newGot))
}

func c09Run(line string) string {
	if strings.HasPrefix(line, "defhandler ") {
		return c09RunDefHandler(line[11:])
	}
	if strings.HasPrefix(line, "invoke ") {
		return c09RunInvoke(line[7:])
	}
	if strings.HasPrefix(line, "twopool ") {
		return c09RunTwoPool(line[8:])
	}
	if strings.HasPrefix(line, "sched ") {
		return c09RunSched(line[6:])
	}
	if strings.HasPrefix(line, "stress ") {
		return c09RunStress(line[7:])
	}
	return "bad-line"
}

// ---- generator

func c09Gen(tier string, rng *rand.Rand, emit func(string)) map[string]interface{} {
	nd, ns := 0, 0
	sched := func(cfg string, ops ...string) {
		emit("sched " + cfg + ": " + strings.Join(ops, " ; "))
		nd++
	}
	v := func() int { return 1 + rng.Intn(900) }
	thorough := tier == "thorough"

	// (1) panic / exit window (fix 347608c): the worker dies on a panicking job while another job is queued
	for _, c := range []int{1, 2, 3} {
		pv := v()
		sched(fmt.Sprintf("max=1 sb=1 batch=0 c=%d b=0", c), fmt.Sprintf("s:0:p%d", pv), "w:1/1/0", "s:1:f", "park:exit:1", "r:0",
			"wp:exit:1", "w:0/0/1", "rel:exit", "w:1/0/2")
		sched(fmt.Sprintf("max=1 sb=1 batch=0 c=%d b=1", c), fmt.Sprintf("s:0:p%d", pv), "w:1/1/0", "s:1:f", "r:0", "w:1/0/2")
		// a further Schedule while the dying worker sits between its decrement and the token
		sched(fmt.Sprintf("max=1 sb=1 batch=0 c=%d b=1", c), fmt.Sprintf("s:0:p%d", pv), "w:1/1/0", "s:1:f", "park:exit:1", "r:0",
			"wp:exit:1", "w:0/0/1", "s:2:f", "w:1/0/3", "rel:exit", "w:1/0/3")
	}
	// panics back to back: the pool must not starve after `max` panics
	for _, mx := range []int{1, 2} {
		ops := []string{}
		k := 0
		for ; k < mx+2; k++ {
			ops = append(ops, fmt.Sprintf("s:%d:q%d", k, v()))
		}
		ops = append(ops, fmt.Sprintf("s:%d:f", k), fmt.Sprintf("w:%d/0/%d", mx, k+1), fmt.Sprintf("s:%d:f", k+1), fmt.Sprintf("w:%d/0/%d", mx, k+2))
		sched(fmt.Sprintf("max=%d sb=%d batch=0 c=8 b=0", mx, mx), ops...)
	}
	// a panicking and a normal job side by side: the panic touches nobody else
	sched("max=2 sb=2 batch=0 c=2 b=0", "s:0:g", "s:1:p5", "w:2/2/0", "r:1", "w:2/1/1", "s:2:f", "w:2/1/2", "r:0", "w:2/0/3")

	// the handler is cleared after construction (SetPanicHandler(nil) / SetDefaultWorkerPoolSettings): a panicking job
	// must still kill neither the worker pool nor the process, later jobs run, no handler call
	sched("max=1 sb=1 batch=0 c=2 b=0", "nh", fmt.Sprintf("s:0:q%d", v()), "s:1:f", "w:1/0/2")
	sched("max=1 sb=1 batch=0 c=2 b=0", fmt.Sprintf("s:0:p%d", v()), "w:1/1/0", "nh", "s:1:f", "r:0", "w:1/0/2")
	sched("max=1 sb=1 batch=0 c=2 b=0", "nhs", fmt.Sprintf("s:0:q%d", v()), "s:1:f", "w:1/0/2")
	sched("max=1 sb=1 batch=0 c=2 b=0", "nh", "s:0:q3", "w:1/0/1", "sh", "s:1:q4", "s:2:f", "w:1/0/3")
	sched("max=2 sb=2 batch=0 c=2 b=0", "nh", "s:0:g", "s:1:p9", "w:2/2/0", "r:1", "w:2/1/1", "s:2:f", "w:2/1/2", "r:0", "w:2/0/3")
	// a slow panic handler: the dying worker must wake the spawn loop after it has given its slot back
	sched("max=1 sb=1 batch=0 c=2 b=0", "hs:40", fmt.Sprintf("s:0:p%d", v()), "w:1/1/0", "s:1:f", "r:0", "w:1/0/2")
	sched("max=2 sb=2 batch=0 c=4 b=0", "hs:40", "s:0:p7", "s:1:p8", "w:2/2/0", "s:2:f", "s:3:f", "r:0", "r:1", "w:2/0/4")
	sched("max=1 sb=1 batch=0 c=4 b=0", "hs:25", "s:0:q1", "s:1:q2", "s:2:f", "w:1/0/3")

	// on-demand pool (standby 0, batch 1): the only worker died on a panic; the next Schedule is held between its
	// closed check and the Offer while the spawn loop comes to rest — its wake-up must come after the Offer
	sched("max=4 sb=0 batch=1 c=4 b=0", fmt.Sprintf("s:0:q%d", v()), "w:0/0/1", "park:sched:1", "as:1:f", "sy", "rel:sched", "j:1", "w:1/0/2")
	sched("max=2 sb=0 batch=1 c=2 b=1", "s:0:q1", "w:0/0/1", "s:1:q2", "w:0/0/2", "park:sched:1", "as:2:g", "sy", "rel:sched", "j:2", "w:1/1/2", "r:2", "w:1/0/3")
	sched("max=4 sb=0 batch=2 c=4 b=0", "park:sched:1", "as:0:f", "sy", "rel:sched", "j:0", "w:1/0/1", "s:1:q7", "w:0/0/2", "park:sched:1", "as:2:f", "sy", "rel:sched", "j:2", "w:1/0/3")
	// a surplus worker that has retired (held at expiry.decided) must not serve a burst on its way out: with the
	// pool refilled to its maximum that would be max+1 jobs at once
	sched("max=2 sb=1 batch=1 c=4 b=0", "pre:2", "exp:30", "s:0:g", "s:1:g", "w:2/2/0", "park:expiry:1", "r:0", "r:1", "expire:1", "w:1/0/2",
		"exp:0", "s:2:g", "s:3:g", "s:4:g", "w:2/2/2", "rel:expiry", "sy", "w:2/2/2", "r:2", "r:3", "r:4", "w:2/0/5")
	sched("max=1 sb=0 batch=1 c=4 b=0", "s:0:g", "w:1/1/0", "exp:30", "park:expiry:1", "r:0", "expire:1", "w:0/0/1", "exp:0", "s:1:g", "w:1/1/1", "s:2:g",
		"rel:expiry", "sy", "w:1/1/1", "r:1", "r:2", "w:1/0/3")

	// a panic handler that blocks until a later job has got through, and one that calls back into the pool: the
	// handler runs outside every critical section, so neither may keep later accepted jobs from running
	sched("max=2 sb=2 batch=0 c=4 b=0", "hg:2", fmt.Sprintf("s:0:p%d", v()), "s:1:g", "w:2/2/0", "r:0", "sy", "s:2:f", "r:1", "w:2/0/3")
	sched("max=2 sb=2 batch=0 c=4 b=0", "hg:3", "s:0:g", "s:1:q4", "sy", "s:2:f", "s:3:f", "r:0", "w:2/0/4")
	sched("max=2 sb=1 batch=0 c=4 b=0", "hc:2", fmt.Sprintf("s:0:q%d", v()), "s:1:f", "w:1/0/2", "s:2:g", "w:1/1/2", "r:2", "w:1/0/3")
	sched("max=3 sb=3 batch=0 c=4 b=0", "hc:3", "s:0:g", "s:1:q6", "s:2:f", "w:3/1/2", "r:0", "w:3/0/3")

	// (2) expiry race: idle workers above standby expire together while a job is being accepted
	sched("max=2 sb=1 batch=0 c=2 b=0", "pre:2", "exp:30", "s:0:g", "s:1:g", "w:2/2/0", "park:expiry:1", "r:0", "r:1", "expire:1",
		"w:1/0/2", "s:2:f", "w:1/0/3", "rel:expiry", "w:1/0/3")
	sched("max=3 sb=1 batch=0 c=3 b=0", "pre:3", "exp:30", "s:0:g", "s:1:g", "s:2:g", "w:3/3/0", "park:expiry:2", "r:0", "r:1", "r:2",
		"expire:2", "w:1/0/3", "s:3:f", "w:1/0/4", "rel:expiry", "w:1/0/4")
	sched("max=3 sb=2 batch=0 c=3 b=0", "pre:3", "exp:30", "s:0:g", "s:1:g", "s:2:g", "w:3/3/0", "r:0", "r:1", "r:2",
		"expire:1", "w:2/0/3", "s:3:g", "s:4:g", "w:2/2/3", "r:3", "r:4", "w:2/0/5")
	// expiry with a busy worker: only the idle ones above standby leave
	sched("max=3 sb=1 batch=0 c=3 b=0", "pre:3", "exp:30", "s:0:g", "s:1:g", "s:2:g", "w:3/3/0", "r:1", "r:2", "expire:2", "w:1/1/2",
		"s:3:f", "r:0", "w:1/0/4")

	// (3) full queue, timeout, Invoke of a rejected job
	for _, c := range []int{1, 2} {
		for _, b := range []int{0, 1, 2} {
			ops := []string{"s:0:g", "w:1/1/0"}
			k := 1
			for ; k <= c+b; k++ {
				ops = append(ops, fmt.Sprintf("s:%d:f", k))
			}
			// zero, tiny and negative timeouts on the full queue (timeout/3 = 0: no retry interval), then with room again
			tiny := []int{0, 1, 2, -1000}[(c+2*b)%4]
			ops = append(ops, fmt.Sprintf("s:%d:f", k), fmt.Sprintf("t:%d:f", k+1), fmt.Sprintf("i:%d:f", k+2), fmt.Sprintf("it:%d:f", k+3),
				fmt.Sprintf("t:%d:f:%d", k+6, tiny), fmt.Sprintf("it:%d:f:%d", k+7, []int{-1, 0, 2}[b]), "w:1/1/0", "r:0",
				fmt.Sprintf("w:1/0/%d", c+b+1), fmt.Sprintf("t:%d:f", k+4), fmt.Sprintf("w:1/0/%d", c+b+2), fmt.Sprintf("it:%d:f", k+5), fmt.Sprintf("w:1/0/%d", c+b+3),
				fmt.Sprintf("t:%d:f:%d", k+8, tiny), fmt.Sprintf("w:1/0/%d", c+b+4))
			sched(fmt.Sprintf("max=1 sb=1 batch=0 c=%d b=%d", c, b), ops...)
		}
	}

	// (4) closing windows
	for _, cq := range []int{1, 0} {
		cfg := fmt.Sprintf("max=1 sb=1 batch=0 c=2 b=1 cq=%d", cq)
		sched(cfg, "park:sched:1", "as:0:f", "close", "rel:sched", "j:0", "w:0/0/0", "s:1:f", "t:2:f", "i:3:f", "w:0/0/0")
		sched(cfg, "park:wclosed:1", "s:0:f", "wp:wclosed:1", "close", "rel:wclosed", "w:0/0/1", "s:1:f", "w:0/0/1")
		sched(cfg, "park:wclosed:1", "s:0:f", "wp:wclosed:1", "s:1:f", "close", "rel:wclosed", "w:0/0/2")
		// a freshly spawned worker (its predecessor died on a panic) is held between its closed check and the select
		sched(cfg, "park:wclosed:1", "s:0:q5", "wp:wclosed:1", "s:1:f", "close", "rel:wclosed", "w:0/0/2", "s:2:f", "w:0/0/2")
		sched(cfg, "s:0:f", "w:1/0/1", "park:closeflag:1", "aclose", "s:1:f", "t:2:f", "rel:closeflag", "jclose", "w:0/0/1")
		sched(cfg, "s:0:g", "w:1/1/0", "s:1:f", "close", "s:2:f", "r:0", "w:0/0/1")
		sched(cfg, "s:0:p9", "w:1/1/0", "close", "r:0", "w:0/0/1")
	}

	// (5) the busy counter window
	sched("max=1 sb=1 batch=0 c=2 b=0", "park:afterjob:1", "s:0:f", "wp:afterjob:1", "w:1/1/1", "s:1:f", "rel:afterjob", "w:1/0/2")

	// (6) the maximum: PreAlloc beyond it, jam rule at it, spawn loop overtaken by PreAlloc
	sched("max=2 sb=1 batch=0 c=4 b=0", "pre:3", "w:2/0/0", "pre:5", "w:2/0/0", "s:0:g", "s:1:g", "s:2:g", "w:2/2/0", "r:0", "r:1", "r:2", "w:2/0/3")
	sched("max=1 sb=1 batch=0 c=4 b=0", "s:0:g", "w:1/1/0", "jam:5", "sleep:20", "s:1:f", "w:1/1/0", "sleep:20", "s:2:f", "w:1/1/0", "jam:0", "r:0", "w:1/0/3")
	sched("max=2 sb=1 batch=0 c=4 b=0", "s:0:g", "w:1/1/0", "jam:5", "sleep:20", "s:1:g", "w:2/2/0", "sleep:20", "s:2:f", "w:2/2/0", "jam:0", "r:0", "r:1", "w:2/0/3")
	sched("max=2 sb=2 batch=0 c=4 b=0", "park:tryspawn:1", "s:0:g", "wp:tryspawn:1", "pre:2", "w:2/1/0", "rel:tryspawn", "w:2/1/0", "r:0", "w:2/0/1")
	sched("max=3 sb=3 batch=0 c=4 b=0", "s:0:g", "s:1:g", "s:2:g", "w:3/3/0", "s:3:f", "r:1", "w:3/2/2", "r:0", "r:2", "w:3/0/4")

	// (7) standby 0 with batch >= 1 and no expiry; Invoke
	sched("max=2 sb=0 batch=1 c=2 b=0", "s:0:f", "w:1/0/1", "s:1:f", "w:1/0/2", "i:2:f", "w:1/0/3")
	sched("max=2 sb=0 batch=1 c=2 b=0", "s:0:q3", "w:0/0/1", "s:1:f", "w:1/0/2")
	sched("max=1 sb=1 batch=0 c=2 b=0", "i:0:f", "i:1:q4", "i:2:f", "w:1/0/3")

	// (8) seeded random sequential programs on a saturated pool (max = sb): jobs, gates, panics
	nprog := 6
	if thorough {
		nprog = 40
	}
	for p := 0; p < nprog; p++ {
		mx := 1 + rng.Intn(3)
		c := 2 + rng.Intn(3)
		ops := []string{}
		k, fin, busy := 0, 0, 0
		gated := []int{}
		queued := 0
		for step := 0; step < 6+rng.Intn(8); step++ {
			if busy < mx && rng.Intn(3) > 0 {
				if rng.Intn(4) == 0 {
					ops = append(ops, fmt.Sprintf("s:%d:p%d", k, v()))
				} else {
					ops = append(ops, fmt.Sprintf("s:%d:g", k))
				}
				gated = append(gated, k)
				busy++
				k++
				ops = append(ops, fmt.Sprintf("w:%d/%d/%d", mx, busy, fin))
			} else if busy < mx {
				if rng.Intn(4) == 0 {
					ops = append(ops, fmt.Sprintf("s:%d:q%d", k, v()))
				} else {
					ops = append(ops, fmt.Sprintf("s:%d:f", k))
				}
				k++
				fin++
				ops = append(ops, fmt.Sprintf("w:%d/%d/%d", mx, busy, fin))
			} else if queued < c && rng.Intn(2) == 0 {
				ops = append(ops, fmt.Sprintf("s:%d:f", k))
				k++
				queued++
			} else if len(gated) > 0 {
				i := rng.Intn(len(gated))
				ops = append(ops, fmt.Sprintf("r:%d", gated[i]))
				gated = append(gated[:i], gated[i+1:]...)
				busy--
				fin += 1 + queued
				queued = 0
				ops = append(ops, fmt.Sprintf("w:%d/%d/%d", mx, busy, fin))
			}
		}
		for _, g := range gated {
			ops = append(ops, fmt.Sprintf("r:%d", g))
		}
		ops = append(ops, fmt.Sprintf("w:%d/0/%d", mx, k))
		sched(fmt.Sprintf("max=%d sb=%d batch=0 c=%d b=0", mx, mx, c), ops...)
	}

	// two pools alive at once, configured through their own setters; a third pool left at the defaults
	emit("twopool mode=nil maxA=2 maxB=6 n=6")
	emit("twopool mode=shared maxA=2 maxB=5 n=5")
	emit("twopool mode=nil maxA=3 maxB=1 n=7")
	nd += 3
	// the default panic handler (nil settings, no SetPanicHandler) and panic values of every kind
	emit("defhandler kinds=8")
	emit("defhandler kinds=4")
	// Invokable: a job accepted by Invoke is (callee at that time, value), also across SetCallee
	emit("invoke k=3 max=2")
	emit("invoke k=5 max=1")
	emit("invoke k=4 max=3 timeout=1")
	nd += 5

	// (9) stress
	stress := func(format string, a ...interface{}) { emit("stress " + fmt.Sprintf(format, a...)); ns++ }
	pick := func(n, m int) string {
		seen := map[int]bool{}
		var l []string
		for len(l) < m {
			x := rng.Intn(n)
			if !seen[x] {
				seen[x] = true
				l = append(l, strconv.Itoa(x))
			}
		}
		return strings.Join(l, ",")
	}
	rounds := 1
	if thorough {
		rounds = 12
	}
	for r := 0; r < rounds; r++ {
		n := 40 + rng.Intn(60)
		stress("max=3 sb=1 batch=2 c=2 b=1000 exp=20 n=%d sub=4 pan=%s slow=%s mode=s jit=1 seed=%d", n, pick(n, 5), pick(n, 6), rng.Intn(1000))
		stress("max=1 sb=1 batch=1 c=1 b=1000 exp=0 n=%d sub=1 pan=%s slow=%s mode=s jit=0 seed=%d hs=3", n, pick(n, 8), pick(n, 3), rng.Intn(1000))
		stress("max=4 sb=2 batch=1 c=3 b=1000 exp=5 n=%d sub=8 pan=%s slow=%s mode=t jit=1 seed=%d", n, pick(n, 4), pick(n, 10), rng.Intn(1000))
		stress("max=2 sb=0 batch=1 c=2 b=1000 exp=0 n=%d sub=3 pan=%s slow=%s mode=i jit=1 seed=%d", n, pick(n, 4), pick(n, 5), rng.Intn(1000))
		stress("max=2 sb=2 batch=0 c=1 b=1000 exp=3 n=%d sub=2 pan=%s slow=%s mode=it jit=0 seed=%d", n, pick(n, 6), pick(n, 5), rng.Intn(1000))
		stress("max=2 sb=1 batch=1 c=4 b=1000 exp=2 n=%d sub=2 pan=%s slow= mode=s jit=1 seed=%d slowall=1 burst=4 pause=3", n, pick(n, 3), rng.Intn(1000))
		stress("max=2 sb=1 batch=1 c=1 b=0 exp=10 n=%d sub=4 pan=%s slow=%s mode=s jit=1 seed=%d tiny=1", n, pick(n, 5), pick(n, 10), rng.Intn(1000))
		stress("max=1 sb=1 batch=0 c=1 b=1 exp=0 n=%d sub=3 pan=%s slow=%s mode=t jit=0 seed=%d tiny=1", n, pick(n, 5), pick(n, 10), rng.Intn(1000))
		stress("max=2 sb=1 batch=1 c=1 b=0 exp=0 n=%d sub=3 pan=%s slow=%s mode=it jit=1 seed=%d tiny=1", n, pick(n, 4), pick(n, 12), rng.Intn(1000))
	}
	return map[string]interface{}{"directed_schedules": nd, "stress_cases": ns, "exhaustive": false,
		"windows": []string{"nil-handler", "slow-handler", "panic-exit", "expiry-race", "queue-full/timeout", "schedule-closed-check", "worker-closed-check", "close-afterFlag", "afterJob", "tryspawn/PreAlloc", "jam-at-maximum"}}
}

func init() {
	register("C09", &Prop{Gen: c09Gen, Run: c09Run, CaseTimeout: 60 * time.Second})
}
