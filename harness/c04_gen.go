package main

// C04 generator: programs over handles.
//   * bounded-exhaustive: for each setup (≤ 2 initial collections per kind, arrays with spare capacity and
//     overlapping sub-slices) ALL programs of length ≤ 2 over the full alphabet with every operand choice, and
//     all programs of length 3 over the operation *kinds* (operands/parameters drawn from the seeded PRNG);
//   * seeded random programs up to length 30 mixing streams, sets and stream sets;
//   * both families.

import (
	"math/rand"
	"strconv"
	"strings"
)

type c04Cand struct {
	op       string // operation name (the "kind" of the step)
	text     string // full token
	kind     byte   // kind of the created handle, 0 if none
	name     string // created handle name
	observer bool   // changes nothing (pointless unless last)
}

type c04G struct {
	iface  bool
	ptr    bool       // family P: generic streams of pointer elements (streams only)
	slists []string   // caller-owned operand lists of streams
	alists []string   // caller-owned operand lists of slices
	spread bool       // setup dedicated to spread calls: only those (and a few companions) are enumerated
	rng    *rand.Rand // nil: exhaustive parameter lists
	arrs   []string
	strs   []string
	sets   []string
	tsets  []string
	count  map[byte]int
}

func (g *c04G) clone() *c04G {
	n := &c04G{iface: g.iface, ptr: g.ptr, spread: g.spread, rng: g.rng, count: map[byte]int{}}
	n.slists = append([]string{}, g.slists...)
	n.alists = append([]string{}, g.alists...)
	n.arrs = append([]string{}, g.arrs...)
	n.strs = append([]string{}, g.strs...)
	n.sets = append([]string{}, g.sets...)
	n.tsets = append([]string{}, g.tsets...)
	for k, v := range g.count {
		n.count[k] = v
	}
	return n
}

func (g *c04G) fresh(kind byte) string { return string(kind) + strconv.Itoa(g.count[kind]) }

func (g *c04G) take(c c04Cand) {
	if c.kind == 0 {
		return
	}
	g.count[c.kind]++
	switch c.kind {
	case 'a':
		g.arrs = append(g.arrs, c.name)
	case 's':
		g.strs = append(g.strs, c.name)
	case 'm':
		g.sets = append(g.sets, c.name)
	case 't':
		g.tsets = append(g.tsets, c.name)
	case 'l':
		if strings.Contains(c.text, "=alist ") {
			g.alists = append(g.alists, c.name)
		} else {
			g.slists = append(g.slists, c.name)
		}
	}
}

// register the handles created by a setup prefix
func (g *c04G) absorb(prefix string) {
	for _, t := range strings.Split(prefix, ";") {
		t = strings.TrimSpace(t)
		if i := strings.Index(t, "="); i > 0 && !strings.Contains(t[:i], " ") {
			name := t[:i]
			if name[0] == 'l' {
				g.take(c04Cand{kind: 'l', name: name, text: t})
				continue
			}
			g.take(c04Cand{kind: name[0], name: name})
		}
	}
}

func (g *c04G) valLists() []string {
	if g.rng == nil {
		return []string{"1", "-", "7,2"}
	}
	n := g.rng.Intn(3)
	if n == 0 {
		return []string{"-"}
	}
	parts := make([]string, n)
	for i := range parts {
		parts[i] = strconv.Itoa(g.val())
	}
	return []string{strings.Join(parts, ",")}
}

func (g *c04G) val() int {
	if g.rng == nil {
		return 2
	}
	if g.iface && g.rng.Intn(5) == 0 {
		return []int{-2, -2, 50, 51}[g.rng.Intn(4)] // typed nil pointer / non-nil pointers inside the interface{}
	}
	return g.rng.Intn(7) - 1 // -1 (nil in the interface{} / pointer families) .. 5
}

func (g *c04G) indices() []int {
	if g.rng == nil {
		return []int{0, 1, 5, -1}
	}
	return []int{g.rng.Intn(8) - 2}
}

func (g *c04G) fns(n int, exhaustive ...int) []int {
	if g.rng == nil {
		return exhaustive
	}
	return []int{g.rng.Intn(n)}
}

func (g *c04G) pick(l []string) string { return l[g.rng.Intn(len(l))] }

// candidates lists every operation applicable to the live handles (exhaustive parameter lists without a PRNG,
// one random parameter choice per operand combination with one).
func (g *c04G) candidates(streams, sets, tsets bool) []c04Cand {
	var cs []c04Cand
	mk := func(op string, kind byte, args ...string) {
		name := g.fresh(kind)
		cs = append(cs, c04Cand{op: op, kind: kind, name: name, text: name + "=" + op + " " + strings.Join(args, " ")})
	}
	plain := func(op string, observer bool, args ...string) {
		cs = append(cs, c04Cand{op: op, observer: observer, text: op + " " + strings.Join(args, " ")})
	}
	itoa := strconv.Itoa
	strArgs := append(append([]string{}, g.strs...), "nil")
	if streams {
		// spread calls: the operand list is a caller-owned slice, observed afterwards and reusable
		for _, r := range g.strs {
			for _, a := range g.arrs {
				mk("appendv", 's', r, a)
				mk("rmitemv", 's', r, a)
			}
			for _, l := range g.slists {
				mk("extendv", 's', r, l)
			}
			for _, l := range g.alists {
				mk("concatv", 's', r, l)
			}
		}
		if g.rng != nil && len(g.strs) > 0 {
			ms := make([]string, 2+g.rng.Intn(3))
			for i := range ms {
				if g.rng.Intn(3) == 0 {
					ms[i] = "nil"
				} else {
					ms[i] = g.pick(g.strs)
				}
			}
			mk("slist", 'l', strings.Join(ms, ","))
			ma := make([]string, 2+g.rng.Intn(3))
			for i := range ma {
				if g.rng.Intn(3) == 0 {
					ma[i] = "nil"
				} else {
					ma[i] = g.pick(g.arrs)
				}
			}
			mk("alist", 'l', strings.Join(ma, ","))
		}
	}
	if streams && g.spread {
		for _, a := range g.arrs {
			plain("wr", false, a, "0", "8")
		}
		for _, r := range g.strs {
			mk("extend", 's', r, "nil", g.strs[len(g.strs)-1])
			mk("remove", 's', r, "0")
			mk("notnil", 's', r)
		}
	}
	if streams && !g.spread {
		for _, a := range g.arrs {
			if g.rng == nil {
				// every index (out-of-range ones are refused): a result that wrongly aliases the middle or the
				// tail of its receiver's storage (e.g. Remove(0) returning s[1:]) only shows at those indices
				for i := 0; i < 4; i++ {
					plain("wr", false, a, itoa(i), "8")
				}
			} else {
				plain("wr", false, a, itoa(g.rng.Intn(4)), itoa(g.val()))
			}
		}
		if g.rng != nil {
			for _, a := range g.arrs {
				mk("from", 's', a)
				mk("fromv", 's', a)
				mk("sub", 'a', a, itoa(g.rng.Intn(2)), itoa(1+g.rng.Intn(2)))
			}
		}
		for _, r := range g.strs {
			for _, f := range g.fns(5, 0, 2) {
				mk("map", 's', r, itoa(f))
			}
			for _, f := range g.fns(5, 0) {
				mk("filter", 's', r, itoa(f))
			}
			for _, f := range g.fns(5, 1) {
				mk("reject", 's', r, itoa(f))
			}
			mk("notnil", 's', r)
			mk("distinct", 's', r)
			mk("clone", 's', r)
			mk("reverse", 's', r)
			for _, f := range g.fns(4, 0, 2) {
				mk("sort", 's', r, itoa(f))
			}
			for _, f := range g.fns(4, 1, 2) {
				mk("sortidx", 's', r, itoa(f))
			}
			for _, v := range g.valLists() {
				mk("rmitem", 's', r, v)
			}
			for _, v := range g.valLists() {
				mk("append", 's', r, v)
			}
			for _, i := range g.indices() {
				mk("remove", 's', r, itoa(i))
			}
			mk("toarr", 'a', r)
			for _, x := range strArgs {
				mk("inter", 's', r, x)
				mk("minus", 's', r, x)
				mk("extend", 's', r, x)
				plain("subset", true, r, x)
				plain("superset", true, r, x)
			}
			mk("extend", 's', r)
			mk("extend", 's', r, "nil", g.strs[len(g.strs)-1])
			mk("concat", 's', r)
			for _, a := range g.arrs {
				mk("concat", 's', r, a)
			}
			mk("concat", 's', r, "nil", g.arrs[0])
			plain("len", true, r)
			for _, i := range g.indices() {
				plain("get", true, r, itoa(i))
			}
			plain("has", true, r, itoa(g.val()))
		}
	}
	if sets {
		setArgs := append(append([]string{}, g.sets...), "nil")
		if g.rng != nil {
			mk("setfrom", 'm', g.valLists()[0])
			if len(g.arrs) > 0 {
				mk("setfromarr", 'm', g.pick(g.arrs))
			}
			mk("setfrommap", 'm', itoa(g.val())+":"+itoa(g.val())+","+itoa(g.val())+":"+itoa(g.val()))
		} else if len(g.arrs) > 0 {
			mk("setfromarr", 'm', g.arrs[0])
			mk("setfromv", 'm', g.arrs[0])
		}
		if g.rng != nil && len(g.arrs) > 0 {
			mk("setfromv", 'm', g.pick(g.arrs))
		}
		for _, r := range g.sets {
			for _, f := range g.fns(3, 0) {
				mk("mapkey", 'm', r, itoa(f))
			}
			for _, f := range g.fns(3, 0, 1) {
				mk("mapval", 'm', r, itoa(f))
			}
			if g.rng == nil {
				mk("add", 'm', r, "2,9")
				mk("add", 'm', r, "-")
				mk("rmkeys", 'm', r, "2,9")
				mk("rmkeys", 'm', r, "-")
				mk("rmvals", 'm', r, "0,-1,7")
				mk("rmvals", 'm', r, "-")
			} else {
				mk("add", 'm', r, g.valLists()[0])
				mk("rmkeys", 'm', r, g.valLists()[0])
				mk("rmvals", 'm', r, g.valLists()[0])
			}
			mk("sclone", 'm', r)
			for _, a := range g.arrs {
				mk("addv", 'm', r, a)
				mk("rmkeysv", 'm', r, a)
				mk("rmvalsv", 'm', r, a)
			}
			for _, x := range setArgs {
				mk("union", 'm', r, x)
				mk("sinter", 'm', r, x)
				mk("sminus", 'm', r, x)
				if x != "nil" {
					plain("ssub", true, r, x)
					plain("ssuper", true, r, x)
				}
			}
			if g.rng == nil {
				plain("set", false, r, "2", "6")
				plain("set", false, r, "9", "1")
			} else {
				plain("set", false, r, itoa(g.val()), itoa(g.val()))
			}
			mk("keys", 'a', r)
			mk("vals", 'a', r)
			plain("haskey", true, r, itoa(g.val()))
			plain("hasval", true, r, itoa(g.val()))
			plain("size", true, r)
			plain("mget", true, r, itoa(g.val()))
			if g.rng == nil {
				plain("mget", true, r, "9")
			}
		}
	}
	if tsets {
		tArgs := append(append([]string{}, g.tsets...), "nil")
		if g.rng != nil {
			mk("tnew", 't')
			mk("tfrom", 't', g.valLists()[0])
			if len(g.strs) > 0 {
				mk("tfrommap", 't', itoa(g.val())+":"+g.pick(g.strs)+","+itoa(g.val())+":"+g.pick(g.strs))
			}
			if len(g.arrs) > 0 {
				mk("tfromarr", 't', g.pick(g.arrs))
				mk("tfromv", 't', g.pick(g.arrs))
			}
		}
		for _, r := range g.tsets {
			mk("sclone", 't', r)
			for _, a := range g.arrs {
				mk("addv", 'u', r, a)
				mk("rmkeysv", 'u', r, a)
			}
			for _, x := range tArgs {
				mk("union", 't', r, x)
				mk("sinter", 't', r, x)
				mk("minuss", 't', r, x)
				if g.iface {
					mk("sminus", 't', r, x)
				} else {
					mk("sminus", 'u', r, x)
				}
				if x != "nil" {
					plain("ssub", true, r, x)
					plain("ssuper", true, r, x)
				}
			}
			if g.rng == nil {
				mk("add", 'u', r, "2,9")
				mk("add", 'u', r, "-")
				mk("rmkeys", 'u', r, "1")
				mk("mapkey", 'u', r, "0")
				mk("tget", 's', r, "1")
				mk("tget", 's', r, "9")
				plain("tset", false, r, "5", "nil")
			} else {
				mk("add", 'u', r, g.valLists()[0])
				mk("rmkeys", 'u', r, g.valLists()[0])
				mk("mapkey", 'u', r, itoa(g.rng.Intn(3)))
				mk("tget", 's', r, itoa(g.val()))
				plain("tset", false, r, itoa(g.val()), "nil")
			}
			for _, s := range g.strs {
				if g.rng == nil {
					plain("tset", false, r, "1", s)
				} else {
					plain("tset", false, r, itoa(g.val()), s)
				}
			}
			mk("keys", 'a', r)
			plain("haskey", true, r, itoa(g.val()))
			plain("size", true, r)
		}
		if !streams {
			// the stream-level steps that matter for stream sets: mutators and the in-place sorter
			for _, a := range g.arrs {
				plain("wr", false, a, "0", "8")
			}
			for _, s := range g.strs {
				mk("remove", 's', s, "0")
				mk("sortidx", 's', s, "0")
				mk("append", 's', s, "4")
			}
		}
	}
	return cs
}

type c04Setup struct {
	name                 string
	prefix               string
	streams, sets, tsets bool
	ifaceOnly, genOnly   bool
	spread               bool // dedicated to spread calls (caller-owned operand lists)
}

var c04Setups = []c04Setup{
	{name: "spare", prefix: "a0=arr 3 1,2,1,9,9 ; s0=from a0 ; a1=arr 2 2,3 ; s1=fromv a1", streams: true},
	{name: "overlap", prefix: "a0=arr 4 3,1,2,1 ; s0=from a0 ; a1=sub a0 1 3 ; s1=from a1", streams: true},
	{name: "nil-empty", prefix: "a0=arr 3 -1,2,-1,5 ; s0=from a0 ; a1=arr 0 - ; s1=from a1", streams: true},
	{name: "typed-nil", prefix: "a0=arr 4 -2,2,-1,50,5 ; s0=from a0 ; a1=arr 2 -2,50 ; s1=from a1", streams: true, ifaceOnly: true},
	{name: "spread", prefix: "a0=arr 3 1,2,1,9,9 ; s0=from a0 ; a1=arr 2 2,3 ; s1=fromv a1 ; a2=arr 1 5 ; s2=from a2 ; l0=slist nil,s1,s2 ; l1=alist nil,a1,a2", streams: true, spread: true},
	{name: "sets", prefix: "a0=arr 2 3,4,4 ; m0=setfrom 1,2 ; set m0 1 5 ; m1=setfrommap 2:7,3:8", sets: true},
	{name: "sets-empty", prefix: "a0=arr 0 - ; m0=setfrom - ; m1=setfrom 2,2,3", sets: true},
	{name: "ssets", prefix: "a0=arr 3 1,2,1,9 ; s0=from a0 ; a1=arr 2 2,3 ; s1=from a1 ; t0=tfrommap 1:s0,2:s1 ; t1=tfrommap 1:s1,3:s0", tsets: true},
	{name: "ssets-nil", prefix: "a0=arr 2 4,2 ; s0=from a0 ; t0=tfrom 1,2 ; tset t0 1 s0 ; tset t0 3 nil ; t1=tnew", tsets: true},
	{name: "ssets-gnil", prefix: "a0=arr 2 4,2 ; s0=from a0 ; a1=arr 0 - ; s1=from a1 ; t0=tfrommap 1:s0,2:nil,3:s1 ; t1=tfrommap 1:s1,2:s0,3:nil", tsets: true, genOnly: true},
}

func c04Gen(tier string, rng *rand.Rand, emit func(string)) map[string]interface{} {
	nRandom, randLen, triplesPer := 400, 30, 1
	if tier == "thorough" {
		nRandom, randLen, triplesPer = 6000, 40, 4
	}
	opCount := map[string]int{}
	exh1, exh2, exh3 := 0, 0, 0
	for _, fam := range []string{"G", "I", "P"} {
		iface := fam == "I"
		ptr := fam == "P"
		for _, su := range c04Setups {
			if su.ifaceOnly && !iface || su.genOnly && iface || ptr && (!su.streams || su.name == "overlap") {
				continue
			}
			head := fam + ": " + su.prefix
			base := &c04G{iface: iface, ptr: ptr, spread: su.spread, count: map[byte]int{}}
			base.absorb(su.prefix)
			emit(head)
			// all programs of length 1 and 2
			for _, c1 := range base.candidates(su.streams, su.sets, su.tsets) {
				emit(head + " ; " + c1.text)
				exh1++
				if c1.observer {
					continue
				}
				g1 := base.clone()
				g1.take(c1)
				for _, c2 := range g1.candidates(su.streams, su.sets, su.tsets) {
					emit(head + " ; " + c1.text + " ; " + c2.text)
					exh2++
				}
			}
			// all triples of operation kinds, operands and parameters from the PRNG
			rbase := base.clone()
			rbase.rng = rng
			kinds := map[string]bool{}
			var kindList []string
			for _, c := range rbase.candidates(su.streams, su.sets, su.tsets) {
				if !kinds[c.op] {
					kinds[c.op] = true
					kindList = append(kindList, c.op)
				}
			}
			byKind := func(g *c04G) map[string][]c04Cand {
				m := map[string][]c04Cand{}
				for _, c := range g.candidates(su.streams, su.sets, su.tsets) {
					m[c.op] = append(m[c.op], c)
				}
				return m
			}
			pickKind := func(m map[string][]c04Cand, op string) (c04Cand, bool) {
				same := m[op]
				if len(same) == 0 {
					return c04Cand{}, false
				}
				return same[rng.Intn(len(same))], true
			}
			m0 := byKind(rbase)
			for _, k1 := range kindList {
				for rep := 0; rep < triplesPer; rep++ {
					c1, ok1 := pickKind(m0, k1)
					if !ok1 || c1.observer {
						continue
					}
					g1 := rbase.clone()
					g1.take(c1)
					m1 := byKind(g1)
					for _, k2 := range kindList {
						c2, ok2 := pickKind(m1, k2)
						if !ok2 || c2.observer {
							continue
						}
						g2 := g1.clone()
						g2.take(c2)
						m2 := byKind(g2)
						for _, k3 := range kindList {
							c3, ok3 := pickKind(m2, k3)
							if !ok3 {
								continue
							}
							emit(head + " ; " + c1.text + " ; " + c2.text + " ; " + c3.text)
							exh3++
						}
					}
				}
			}
		}
	}
	// random programs mixing all three collection kinds
	for i := 0; i < nRandom; i++ {
		famIdx := rng.Intn(5) // G, I twice as often as P
		iface := famIdx == 1 || famIdx == 3
		ptr := famIdx == 4
		fam := "G"
		if iface {
			fam = "I"
		} else if ptr {
			fam = "P"
		}
		g := &c04G{iface: iface, ptr: ptr, rng: rng, count: map[byte]int{}}
		var toks []string
		// one or two caller-made arrays, spare capacity likely
		for a := 0; a < 1+rng.Intn(2); a++ {
			total := rng.Intn(6)
			vals := make([]string, total)
			for j := range vals {
				vals[j] = strconv.Itoa(g.val())
			}
			l := total - rng.Intn(3) // spare capacity 0..2
			if l < 0 {
				l = 0
			}
			vs := "-"
			if total > 0 {
				vs = strings.Join(vals, ",")
			}
			c := c04Cand{kind: 'a', name: g.fresh('a')}
			toks = append(toks, c.name+"=arr "+strconv.Itoa(l)+" "+vs)
			g.take(c)
		}
		c := c04Cand{kind: 's', name: g.fresh('s')}
		toks = append(toks, c.name+"=from a0")
		g.take(c)
		n := 1 + rng.Intn(randLen)
		for j := 0; j < n; j++ {
			// bias towards the newest handles: drop older ones from the operand pools now and then
			gg := g
			if rng.Intn(3) == 0 {
				gg = g.clone()
				trim := func(l []string) []string {
					if len(l) > 3 {
						return l[len(l)-3:]
					}
					return l
				}
				gg.strs, gg.sets, gg.tsets = trim(g.strs), trim(g.sets), trim(g.tsets)
			}
			cs := gg.candidates(true, !ptr, !ptr)
			// pick the operation kind uniformly, then one of its operand combinations
			var kindList []string
			by := map[string][]c04Cand{}
			for _, c := range cs {
				if _, ok := by[c.op]; !ok {
					kindList = append(kindList, c.op)
				}
				by[c.op] = append(by[c.op], c)
			}
			same := by[kindList[rng.Intn(len(kindList))]]
			c := same[rng.Intn(len(same))]
			// name clashes cannot happen: names come from g's counters, which gg shares by value
			g.take(c)
			toks = append(toks, c.text)
			opCount[c.op]++
		}
		emit(fam + ": " + strings.Join(toks, " ; "))
	}
	httpExh, httpRandom := c04HGen(tier, rng, emit)
	return map[string]interface{}{
		"http_exhaustive_cases": httpExh, "http_random_cases": httpRandom,
		"exhaustive":              false,
		"exhaustive_prefix_scope": "per setup and family: all programs of length <= 2 over the full alphabet and operand choices; all length-3 sequences of operation kinds with seeded operands",
		"setups":                  len(c04Setups),
		"exhaustive_len1":         exh1, "exhaustive_len2": exh2, "kind_triples": exh3,
		"random_cases": nRandom, "random_max_len": randLen, "random_op_mix": opCount,
	}
}
