package main

// C16 — PMap is Map run in parallel.
//
// Case line:   n=<n> pool=<nil|int> mode=<o|r> ty=<i|s> hold=<0|1|2> seed=<k> [nest=<m>]
//         or   reuse pool=.. mode=.. ty=.. hold=.. seed=..: n=<n1> ; n=<n2> ; ...   (ONE PMapOption object for all calls; the line ends with
//              opt=ok when the object is unchanged afterwards)
//   nest=<m>: f itself calls PMap(3y+1, nil, x..x+m-1) and returns the sum
//   list[i] = (i*31 + seed*7 + (i*i)%5) % 97 (ints) / the same number as "s%03d" (strings); f x = 3x+1 / x+"!"
//   pool=nil: no FixedPool (ordered mode: option == nil; RandomOrder: PMapOption{RandomOrder: true})
//   hold=1: every call of f waits until as many calls are in progress as the statement allows workers
//           (min(FixedPool, n), n without pool size), then lingers a data-dependent moment: the maximal number of
//           concurrent applications is then exactly the number of workers, so one goroutine too many is seen
//           deterministically.  (The property bounds the number of goroutines from above only: fewer are permitted.)
//   hold=2 (only when the bound is n): the application to v waits until all applications to larger values have finished,
//           i.e. completion order is descending by value whatever the input order.
//   hold=3: f only counts (long lists)
//   hold=0: f sleeps a data-dependent time (completion order is a pseudo-random permutation of input order).
// Observation:  res=[…] once=ok maxc=<k|ok> after=ok      (res sorted in RandomOrder mode)
//   once   every value was passed to f exactly as often as it occurs in the list, nothing else was passed
//   maxc   "ok" iff the concurrency gauge never exceeded the bound, otherwise its maximum
//   after  at return no application was in progress, all n had finished, and none happened afterwards

import (
	"fmt"
	"math/rand"
	"runtime"
	"sort"
	"strconv"
	"strings"
	"sync"
	"sync/atomic"
	"time"

	fpgo "github.com/TeaEntityLab/fpGo/v2"
)

type c16Case struct {
	n      int
	pool   *int
	random bool
	str    bool
	hold   bool
	rev    bool
	plain  bool // hold=3: f only counts
	seed   int
	nest   int // > 0: f itself calls PMap on x, x+1, …, x+nest-1 and returns the sum
}

func c16Parse(line string) (*c16Case, bool) { return c16ParseToks(strings.Fields(line)) }

func c16ParseToks(fs []string) (*c16Case, bool) {
	c := &c16Case{}
	if len(fs) == 7 {
		kv := strings.SplitN(fs[6], "=", 2)
		x, err := strconv.Atoi(kv[len(kv)-1])
		if len(kv) != 2 || kv[0] != "nest" || err != nil || x < 0 {
			return nil, false
		}
		c.nest = x
		fs = fs[:6]
	}
	if len(fs) != 6 {
		return nil, false
	}
	for i, key := range []string{"n", "pool", "mode", "ty", "hold", "seed"} {
		kv := strings.SplitN(fs[i], "=", 2)
		if len(kv) != 2 || kv[0] != key {
			return nil, false
		}
		v := kv[1]
		switch key {
		case "n", "seed":
			x, err := strconv.Atoi(v)
			if err != nil || x < 0 {
				return nil, false
			}
			if key == "n" {
				c.n = x
			} else {
				c.seed = x
			}
		case "pool":
			if v != "nil" {
				x, err := strconv.Atoi(v)
				if err != nil {
					return nil, false
				}
				c.pool = &x
			}
		case "mode":
			c.random = v == "r"
		case "ty":
			c.str = v == "s"
		case "hold":
			c.hold = v == "1"
			c.rev = v == "2"
			c.plain = v == "3"
		}
	}
	return c, true
}

func c16Elem(seed, i int) int { return (i*31 + seed*7 + (i*i)%5) % 97 }

// the statement's bound: min(FixedPool, n) for a positive pool size, n otherwise
func c16Bound(c *c16Case) int {
	if c.pool != nil && *c.pool > 0 && *c.pool < c.n {
		return *c.pool
	}
	return c.n
}

// set once a gate had to give up: the code under test runs fewer goroutines than the bound (permitted by the property);
// later cases of this process then do not gate at all, so that the run stays fast
var c16GateBroken atomic.Bool

type c16Mon struct {
	mu       sync.Mutex
	inflight int
	maxc     int
	total    int
	counts   map[int]int
	hold     bool
	bound    int
	open     chan struct{}
	opened   bool
	rev      bool
	plain    bool
	pending  map[int]int
	giveUp   bool
	cond     *sync.Cond
}

func (m *c16Mon) pendingGreater(v int) int {
	k := 0
	for x, c := range m.pending {
		if x > v {
			k += c
		}
	}
	return k
}

// around one application of f to the element with numeric value v
func (m *c16Mon) apply(v int) {
	m.mu.Lock()
	m.inflight++
	if m.inflight > m.maxc {
		m.maxc = m.inflight
	}
	if m.hold && !m.opened && m.inflight >= m.bound {
		m.opened = true
		close(m.open)
	}
	if m.rev {
		// completion order = descending by value: wait until every application to a larger value has finished
		for m.pendingGreater(v) > 0 && !m.giveUp {
			m.cond.Wait()
		}
	}
	m.mu.Unlock()
	if m.hold {
		select {
		case <-m.open:
		case <-time.After(5 * time.Second):
			// fewer goroutines than the bound is allowed by the property: give up waiting — for this and every later
			// application (otherwise n applications on too few goroutines would each wait 5 s and the case would be
			// reported as a hang although PMap is merely slower than the gate expects)
			c16GateBroken.Store(true)
			m.mu.Lock()
			if !m.opened {
				m.opened = true
				close(m.open)
			}
			m.mu.Unlock()
		}
		time.Sleep(time.Duration(20+(v*13)%60) * time.Microsecond)
	} else if !m.plain {
		switch v % 3 {
		case 0:
			time.Sleep(time.Duration(v*4) * time.Microsecond)
		case 1:
			for k := 0; k < v; k++ {
				runtime.Gosched()
			}
		}
	}
	m.mu.Lock()
	m.counts[v]++
	m.total++
	m.inflight--
	if m.rev {
		m.pending[v]--
		m.cond.Broadcast()
	}
	m.mu.Unlock()
}

func c16Run(line string) string {
	if i := strings.Index(line, ": "); i >= 0 {
		// reuse <pool mode ty hold seed>: n=<n1> ; n=<n2> ; …   — ONE option object for all the calls
		head := strings.Fields(line[:i])
		if len(head) != 6 || head[0] != "reuse" {
			return "bad-case"
		}
		var option *fpgo.PMapOption
		var orig fpgo.PMapOption
		var outs []string
		for _, op := range strings.Split(line[i+2:], ";") {
			if op = strings.TrimSpace(op); op == "" {
				continue
			}
			c, ok := c16ParseToks(append([]string{op}, head[1:]...))
			if !ok {
				return "bad-case"
			}
			if option == nil {
				option = &fpgo.PMapOption{RandomOrder: c.random}
				if c.pool != nil {
					option.FixedPool = *c.pool
				}
				orig = *option
			}
			outs = append(outs, c16RunOne(c, option))
		}
		if option == nil || *option == orig {
			outs = append(outs, "opt=ok")
		} else {
			outs = append(outs, fmt.Sprintf("opt=%d,%v", option.FixedPool, option.RandomOrder))
		}
		return strings.Join(outs, " | ")
	}
	c, ok := c16Parse(line)
	if !ok {
		return "bad-case"
	}
	var option *fpgo.PMapOption
	if c.pool != nil || c.random {
		option = &fpgo.PMapOption{RandomOrder: c.random}
		if c.pool != nil {
			option.FixedPool = *c.pool
		}
	}
	return c16RunOne(c, option)
}

// one PMap call with the monitors inside f
func c16RunOne(c *c16Case, option *fpgo.PMapOption) string {
	mon := &c16Mon{counts: map[int]int{}, plain: c.plain, hold: c.hold, bound: c16Bound(c), open: make(chan struct{})}
	if c16GateBroken.Load() {
		mon.opened = true
		close(mon.open)
	}
	vals := make([]int, c.n)
	want := map[int]int{}
	for i := range vals {
		vals[i] = c16Elem(c.seed, i)
		want[vals[i]]++
	}
	if c.rev {
		mon.rev = true
		mon.cond = sync.NewCond(&mon.mu)
		mon.pending = map[int]int{}
		for v, k := range want {
			mon.pending[v] = k
		}
		// fewer goroutines than elements is allowed by the property: stop gating after a while instead of blocking forever
		t := time.AfterFunc(5*time.Second, func() { mon.mu.Lock(); mon.giveUp = true; mon.cond.Broadcast(); mon.mu.Unlock() })
		defer t.Stop()
	}
	var res []string
	if c.str {
		in := make([]string, c.n)
		for i, v := range vals {
			in[i] = fmt.Sprintf("s%03d", v)
		}
		out := fpgo.PMap(func(s string) string {
			v, err := strconv.Atoi(strings.TrimPrefix(s, "s"))
			if err != nil {
				v = -1
			}
			mon.apply(v)
			return s + "!"
		}, option, in...)
		res = append(res, out...)
		if c.random {
			sort.Strings(res)
		}
	} else {
		out := fpgo.PMap(func(x int) int {
			mon.apply(x)
			if c.nest > 0 {
				// f calls PMap itself (while its own worker goroutine is still alive): the sum of 3y+1 over x .. x+nest-1
				inner := make([]int, c.nest)
				for j := range inner {
					inner[j] = x + j
				}
				sum := 0
				for _, r := range fpgo.PMap(func(y int) int { return 3*y + 1 }, nil, inner...) {
					sum += r
				}
				return sum
			}
			return 3*x + 1
		}, option, vals...)
		if c.random {
			out = append([]int{}, out...)
			sort.Ints(out)
		}
		for _, x := range out {
			res = append(res, strconv.Itoa(x))
		}
	}
	// at return
	mon.mu.Lock()
	inflight, total := mon.inflight, mon.total
	mon.mu.Unlock()
	time.Sleep(150 * time.Microsecond)
	mon.mu.Lock()
	total2 := mon.total
	once := "ok"
	for v, k := range mon.counts {
		if want[v] != k {
			once = fmt.Sprintf("bad(%d:%d/%d)", v, k, want[v])
		}
	}
	for v, k := range want {
		if mon.counts[v] != k && once == "ok" {
			once = fmt.Sprintf("bad(%d:%d/%d)", v, mon.counts[v], k)
		}
	}
	if once != "ok" {
		once = "bad" // canonical: which element differs depends on map order
	}
	// the property demands "at most bound goroutines at a time": a smaller maximum is fine, a larger one is printed
	maxc := "ok"
	if mon.maxc > mon.bound {
		maxc = strconv.Itoa(mon.maxc)
	}
	mon.mu.Unlock()
	after := "ok"
	if inflight != 0 || total != c.n {
		after = "early"
	} else if total2 != c.n {
		after = "late"
	}
	return "res=[" + strings.Join(res, " ") + "] once=" + once + " maxc=" + maxc + " after=" + after
}

func c16Gen(tier string, rng *rand.Rand, emit func(string)) map[string]interface{} {
	maxN, seeds := 40, 1
	if tier == "thorough" {
		maxN, seeds = 64, 4
	}
	count := 0

	for sd := 0; sd < seeds; sd++ {
		seed := rng.Intn(1000)
		for n := 0; n <= maxN; n++ {
			cand := []string{"nil", "-1", "0", "1", "2", strconv.Itoa(n - 1), strconv.Itoa(n), strconv.Itoa(n + 3), "3", "5"}
			seen := map[string]bool{}
			for _, p := range cand {
				if seen[p] {
					continue
				}
				seen[p] = true

				for _, mode := range []string{"o", "r"} {
					holds := []string{"0", "1"}
					if pv, err := strconv.Atoi(p); p == "nil" || (err == nil && (pv <= 0 || pv >= n)) {
						holds = append(holds, "2") // all n applications can be in flight: force descending completion order
					}
					for _, hold := range holds {
						ty := "i"
						if (n+len(p)+count)%3 == 0 {
							ty = "s"
						}
						emit(fmt.Sprintf("n=%d pool=%s mode=%s ty=%s hold=%s seed=%d", n, p, mode, ty, hold, seed+n))
						count++
					}
				}
			}
		}
	}
	// both element types on a full grid of small sizes
	for n := 0; n <= 12; n++ {
		for _, p := range []string{"nil", "1", "2", "3", strconv.Itoa(n), strconv.Itoa(n + 1)} {
			for _, mode := range []string{"o", "r"} {
				for _, ty := range []string{"i", "s"} {
					emit(fmt.Sprintf("n=%d pool=%s mode=%s ty=%s hold=%d seed=%d", n, p, mode, ty, rng.Intn(2), rng.Intn(1000)))
					count++
				}
			}
		}
	}
	// a few long lists: anything that depends on the size of the list beyond the grid (a buffer or pool size with a fixed
	// ceiling, chunking) shows only there
	for _, n := range []int{97, 256, 1000} {
		for _, p := range []string{"nil", "1", "7", strconv.Itoa(n / 2), strconv.Itoa(n)} {
			for _, mode := range []string{"o", "r"} {
				hold := "0"
				if p != "1" && (n+len(p)+len(mode)+count)%2 == 0 {
					hold = "1"
				}
				emit(fmt.Sprintf("n=%d pool=%s mode=%s ty=%s hold=%s seed=%d", n, p, mode, []string{"i", "s"}[count%2], hold, rng.Intn(1000)))
				count++
			}
		}
	}
	// ONE option object passed to several PMap calls (PMap must only read it): empty list first, short list first, then long
	reuse := 0
	for _, p := range []string{"1", "2", "3", "7", "0", "-1", "50"} {
		for _, mode := range []string{"o", "r"} {
			for _, ns := range []string{"n=0 ; n=40", "n=2 ; n=40", "n=0 ; n=2 ; n=40 ; n=1 ; n=97", "n=40 ; n=0 ; n=40", "n=5 ; n=3 ; n=12"} {
				for _, hold := range []string{"1", "0"} {
					if hold == "0" && (reuse+len(p))%3 != 0 {
						continue
					}
					emit(fmt.Sprintf("reuse pool=%s mode=%s ty=%s hold=%s seed=%d: %s", p, mode, []string{"i", "s"}[reuse%2], hold, rng.Intn(1000), ns))
					reuse++
					count++
				}
			}
		}
	}
	// lists longer than 4096 / 8192 elements, f does nothing (anything with a fixed ceiling on a queue or a pool shows only there)
	long := 0
	for _, lc := range []string{"n=4097 pool=nil mode=o", "n=4097 pool=3 mode=r", "n=4200 pool=nil mode=r", "n=8193 pool=3 mode=o", "n=8193 pool=nil mode=r"} {
		emit(fmt.Sprintf("%s ty=i hold=3 seed=%d", lc, rng.Intn(1000)))
		long++
		count++
	}
	// nested: f calls PMap itself; with no pool size there are as many outer workers as elements, all of them inside f at once (hold=1)
	nested := 0
	for _, nc := range []string{"n=1 pool=nil", "n=5 pool=nil", "n=5 pool=2", "n=40 pool=nil", "n=40 pool=3", "n=200 pool=nil", "n=1100 pool=nil", "n=1300 pool=nil"} {
		for _, mode := range []string{"o", "r"} {
			if strings.HasPrefix(nc, "n=1300") && mode == "r" {
				continue
			}
			emit(fmt.Sprintf("%s mode=%s ty=i hold=1 seed=%d nest=%d", nc, mode, rng.Intn(1000), 2+nested%3))
			nested++
			count++
		}
	}
	return map[string]interface{}{"exhaustive": false, "reuse_cases": reuse, "long_list_cases": long, "nested_cases": nested, "scope": fmt.Sprintf("n in 0..%d x FixedPool in {nil,-1,0,1,2,3,5,n-1,n,n+3} x {ordered,RandomOrder} x {hold,free} x %d list seeds; + n<=12 grid over both element types + n in {97,256,1000} x 5 pool sizes x both modes", maxN, seeds),
		"cases": count, "max_n": maxN}
}

func init() { register("C16", &Prop{Gen: c16Gen, Run: c16Run, CaseTimeout: 20 * time.Second}) }
