// Command harness drives the real fpGo code (built from the current working tree of the repository
// with -tags verif) through the line protocol shared with the Lean driver.
//
//	harness gen  Cxx <tier> <seed> [corpus files...]   case lines on stdout, generator statistics as JSON on fd 3 (if open)
//	harness run  Cxx [skip]                     case lines on stdin -> one observation line per case on stdout
//
// Every property lives in its own file (cXX.go) and registers itself in init().
package main

import (
	"bufio"
	"encoding/json"
	"fmt"
	"math/rand"
	"os"
	"runtime/debug"
	"strconv"
	"time"
)

// Prop is what a property file registers.
type Prop struct {
	// Gen writes case lines (one per line, no tabs) for the tier ("quick"/"thorough") using only rng
	// for random choices, and returns generator statistics (sizes, op mix, ...).
	Gen func(tier string, rng *rand.Rand, emit func(line string)) map[string]interface{}
	// Run executes one case line on the real code and returns the canonical observation line.
	// Panics are recovered by the caller and printed as "panic: <msg>" unless Run handles them.
	Run func(line string) string
	// CaseTimeout overrides the default per-case deadline.
	CaseTimeout time.Duration
}

var props = map[string]*Prop{}

func register(id string, p *Prop) { props[id] = p }

func safeRun(p *Prop, line string) (out string) {
	defer func() {
		if r := recover(); r != nil {
			out = "panic"
			if os.Getenv("VERIF_DEBUG") != "" {
				fmt.Fprintf(os.Stderr, "panic in case %q: %v\n%s\n", line, r, debug.Stack())
			}
		}
	}()
	return p.Run(line)
}

func main() {
	if len(os.Args) < 3 {
		fmt.Fprintln(os.Stderr, "usage: harness gen|run Cxx ...")
		os.Exit(2)
	}
	p := props[os.Args[2]]
	if p == nil {
		fmt.Fprintln(os.Stderr, "harness: no such property:", os.Args[2])
		os.Exit(2)
	}
	switch os.Args[1] {
	case "gen":
		tier := "quick"
		seed := int64(1)
		if len(os.Args) > 3 {
			tier = os.Args[3]
		}
		if len(os.Args) > 4 {
			seed, _ = strconv.ParseInt(os.Args[4], 10, 64)
		}
		w := bufio.NewWriterSize(os.Stdout, 1<<20)
		n := 0
		stats := p.Gen(tier, rand.New(rand.NewSource(seed)), func(line string) {
			w.WriteString(line)
			w.WriteByte('\n')
			n++
		})
		w.Flush()
		if stats == nil {
			stats = map[string]interface{}{}
		}
		stats["generated"] = n
		if f := os.NewFile(3, "stats"); f != nil {
			json.NewEncoder(f).Encode(stats)
			f.Close()
		}
	case "run":
		skip := 0
		if len(os.Args) > 3 {
			skip, _ = strconv.Atoi(os.Args[3])
		}
		timeout := p.CaseTimeout
		if timeout == 0 {
			timeout = 10 * time.Second
		}
		sc := bufio.NewScanner(os.Stdin)
		sc.Buffer(make([]byte, 1<<20), 1<<26)
		w := bufio.NewWriterSize(os.Stdout, 1<<16)
		flushEach := os.Getenv("VERIF_FLUSH") != ""
		i := 0
		for sc.Scan() {
			i++
			if i <= skip {
				continue
			}
			line := sc.Text()
			done := make(chan string, 1)
			go func() { done <- safeRun(p, line) }()
			select {
			case out := <-done:
				w.WriteString(out)
				w.WriteByte('\n')
			case <-time.After(timeout):
				// a goroutine cannot be killed: report, flush and let the supervisor restart after this case
				w.WriteString("hang\n")
				w.Flush()
				os.Exit(3)
			}
			if flushEach || i%64 == 0 {
				w.Flush()
			}
		}
		w.Flush()
	default:
		fmt.Fprintln(os.Stderr, "usage: harness gen|run Cxx ...")
		os.Exit(2)
	}
}
