package main

// C14 — callers that continue with a SECOND target after the first one finished under them.
//
//   two mode=directed n2=K
//       Caller A is parked at cor.receive.beforeSend inside YieldFrom(T1, 7) (past T1's done-check, holding T1's
//       closedM); T1's effect returns and T1 is parked at cor.close.afterFlag (done flag set, channels still
//       open); A is released (its request goes into T1's opCh), then T1 (close() drains the request and answers
//       zero).  Afterwards A performs K YieldFrom calls on a healthy fixed-sequence target T2 (y_k = 100+k) and
//       must get exactly 101..100+K while T2 sees 1..K: nothing left over from T1 may show up.
//       Observation: "ok r0=0 ys=101,102,… xs=1,2,…"
//   two mode=stress callers=N n2=K late=<ms> seed=S
//       N callers ask a late-started T1 that serves one request and returns (5 buffered, one blocked in the send,
//       the rest behind it), then each talks to its own T2[i].  Three trials on one P (the blocked sender is then
//       scheduled after T1 has finished).  Observation: "ok callers=N n2=K"  or  "viol …".

import (
	"fmt"
	"math/rand"
	"runtime"
	"strconv"
	"strings"
	"sync"
	"time"

	fpgo "github.com/TeaEntityLab/fpGo/v2"
)

func c14JoinInts(l []int) string {
	var s []string
	for _, v := range l {
		s = append(s, strconv.Itoa(v))
	}
	return strings.Join(s, ",")
}

// c14T2 starts a fixed-sequence target with `spare` more YieldRefs than needed; xs receives what it saw.
func c14T2(n int, xs *[]int, mu *sync.Mutex) *fpgo.CorDef[int] {
	var t2 *fpgo.CorDef[int]
	t2 = fpgo.CorNewGenerics[int](func() {
		for k := 1; k <= n+3; k++ {
			x := t2.YieldRef(100 + k)
			mu.Lock()
			*xs = append(*xs, x)
			mu.Unlock()
		}
	})
	t2.Start()
	return t2
}

func c14TwoDirected(par map[string]string) string {
	n2, _ := strconv.Atoi(par["n2"])
	if n2 <= 0 {
		n2 = 3
	}
	ctl := NewCtl()
	defer ctl.Uninstall()
	ret := make(chan struct{})
	var gid int64
	gready := make(chan struct{})
	var t1 *fpgo.CorDef[int]
	t1 = fpgo.CorNewGenerics[int](func() {
		gid = ctl.c15Adopt("G")
		close(gready)
		<-ret
	})
	t1.Start()
	<-gready
	var mu sync.Mutex
	var xs []int
	t2 := c14T2(n2, &xs, &mu)
	me := fpgo.CorNewGenerics[int](func() {})
	r0 := make(chan int, 1)
	goAhead := make(chan struct{})
	var ys []int
	ctl.ParkAt("A", "cor.receive.beforeSend")
	ctl.ParkAt("G", "cor.close.afterFlag")
	a := ctl.Go("A", func() {
		r0 <- me.YieldFrom(t1, 7)
		<-goAhead
		for k := 1; k <= n2; k++ {
			ys = append(ys, me.YieldFrom(t2, k))
		}
	})
	if !ctl.WaitAt("A", "cor.receive.beforeSend", 4*time.Second) {
		return "viol setup: caller did not reach cor.receive.beforeSend"
	}
	close(ret) // T1's effect returns: close() sets the done flag and parks
	if !ctl.WaitAt("G", "cor.close.afterFlag", 4*time.Second) {
		return "viol setup: target did not reach cor.close.afterFlag"
	}
	ctl.Release("A", "cor.receive.beforeSend")
	// the request is in opCh now (or the caller gave up); give the caller a moment, then let close() finish
	var first int
	got := false
	select {
	case first = <-r0:
		got = true
	case <-time.After(150 * time.Millisecond):
	}
	ctl.Release("G", "cor.close.afterFlag")
	deadline := time.Now().Add(4 * time.Second)
	for c15GoroutineAlive(gid) && time.Now().Before(deadline) {
		time.Sleep(200 * time.Microsecond)
	}
	if !got {
		select {
		case first = <-r0:
		case <-time.After(4 * time.Second):
			return "viol hang caller stuck in YieldFrom on the finished target"
		}
	}
	close(goAhead)
	if a.Wait(6*time.Second) != "ok" {
		return "viol hang caller stuck on the second target: " + a.Wait(time.Millisecond)
	}
	mu.Lock()
	seen := append([]int{}, xs...)
	mu.Unlock()
	if len(seen) > n2 {
		seen = seen[:n2]
	}
	for k := 1; k <= n2; k++ {
		if ys[k-1] != 100+k {
			return fmt.Sprintf("viol stale-or-misrouted call=%d got=%d want=%d (r0=%d ys=%s)", k, ys[k-1], 100+k, first, c14JoinInts(ys))
		}
	}
	return fmt.Sprintf("ok r0=%d ys=%s xs=%s", first, c14JoinInts(ys), c14JoinInts(seen))
}

func c14TwoStress(par map[string]string) string {
	callers, _ := strconv.Atoi(par["callers"])
	n2, _ := strconv.Atoi(par["n2"])
	late, _ := strconv.Atoi(par["late"])
	seed, _ := strconv.ParseInt(par["seed"], 10, 64)
	rng := rand.New(rand.NewSource(seed))
	defer runtime.GOMAXPROCS(runtime.GOMAXPROCS(1))
	for trial := 0; trial < 3; trial++ {
		var mu sync.Mutex
		var bad []string
		report := func(f string, a ...interface{}) {
			mu.Lock()
			bad = append(bad, fmt.Sprintf(f, a...))
			mu.Unlock()
		}
		var t1 *fpgo.CorDef[int]
		t1 = fpgo.CorNewGenerics[int](func() { t1.YieldRef(1000) })
		var wg sync.WaitGroup
		pause := time.Duration(5+rng.Intn(25)) * time.Millisecond
		for i := 0; i < callers; i++ {
			i := i
			var xs []int
			var xmu sync.Mutex
			t2 := c14T2(n2, &xs, &xmu)
			wg.Add(1)
			var c *fpgo.CorDef[int]
			c = fpgo.CorNewGenerics[int](func() {
				defer wg.Done()
				r0 := c.YieldFrom(t1, 7)
				if r0 != 1000 && r0 != 0 {
					report("first-target caller=%d got=%d", i, r0)
				}
				time.Sleep(pause)
				for k := 1; k <= n2; k++ {
					if y := c.YieldFrom(t2, k); y != 100+k {
						report("stale-or-misrouted caller=%d call=%d got=%d want=%d", i, k, y, 100+k)
					}
				}
				xmu.Lock()
				for k := 1; k <= n2 && k <= len(xs); k++ {
					if xs[k-1] != k {
						report("second-target-saw caller=%d pos=%d x=%d", i, k, xs[k-1])
					}
				}
				xmu.Unlock()
			})
			c.Start()
		}
		time.Sleep(time.Duration(late) * time.Millisecond)
		t1.Start()
		done := make(chan struct{})
		go func() { wg.Wait(); close(done) }()
		select {
		case <-done:
		case <-time.After(10 * time.Second):
			return "viol hang callers stuck"
		}
		if len(bad) > 0 {
			return "viol " + bad[0]
		}
	}
	return fmt.Sprintf("ok callers=%d n2=%d", callers, n2)
}

func c14Two(par map[string]string) string {
	if par["mode"] == "stress" {
		return c14TwoStress(par)
	}
	return c14TwoDirected(par)
}
