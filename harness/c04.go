package main

// C04 — Stream / Set / StreamSet persistence: programs over handles, both families.
//
// Case line:    "G: op ; op ; ..."   (generic family: StreamDef[int], MapSetDef[int,int], StreamSetDef[int,int])
//               "I: op ; op ; ..."   (interface{} family; the int -1 stands for the nil interface)
// Creating operations are written "dst=name args"; the alphabet is that of lean/FpgoVerif/Model/C04Proto.lean
// (parseCreate / parsePlain).  After EVERY operation the contents of ALL live handles are printed (caller-made
// arrays up to their capacity), so a disturbance of any earlier collection is visible:
//     "<result> a0=[1,2|9] s0=[1,2] m0={1:0/2:5} t0={1:[1,2]/2:nil}"   joined by " | ".
// Contents are read directly from the Go values (slice/map conversions), never through library calls.

import (
	"sort"
	"strconv"
	"strings"
	"time"

	fpgo "github.com/TeaEntityLab/fpGo/v2"
)

type c04Obj struct {
	name string
	kind byte // 'a' array, 's' stream, 'm' set, 't' stream set, 'u' plain set of streams
	full bool // array made by the caller: dumped up to cap
	// generic family
	ga []int
	gs *fpgo.StreamDef[int]
	gm fpgo.SetDef[int, int]
	gt *fpgo.StreamSetDef[int, int]
	gu fpgo.SetDef[int, *fpgo.StreamDef[int]]
	// interface{} family
	ia []interface{}
	is *fpgo.StreamForInterfaceDef
	im *fpgo.SetForInterfaceDef // kinds 'm' and 'u'
	it *fpgo.StreamSetForInterfaceDef
	// the map the caller passed to StreamSetFromMap (an ARGUMENT: the stream set must hold a copy) and what it
	// held at that moment; the harness never writes it, so any difference was made by the library
	argMap, argSnap map[int]*fpgo.StreamDef[int]
	// kind 'l': a caller-owned operand list (spread into a variadic call); lkind 's' streams / 'a' slices
	lkind byte
	gsl   []*fpgo.StreamDef[int]
	gal   [][]int
	isl   []*fpgo.StreamForInterfaceDef
	ial   [][]interface{}
}

// names of the stream sets whose constructor argument map no longer holds what the caller put there
func (st *c04State) disturbedArgs() string {
	out := ""
	for _, o := range st.objs {
		if o.argMap == nil {
			continue
		}
		same := len(o.argMap) == len(o.argSnap)
		for k, v := range o.argSnap {
			if w, ok := o.argMap[k]; !ok || w != v {
				same = false
			}
		}
		if !same {
			out += "!arg-disturbed:" + o.name
		}
	}
	return out
}

type c04State struct {
	iface bool
	objs  []*c04Obj
}

// interface{} family encoding: -1 = the nil interface, -2 = a typed nil pointer (*int)(nil), 50.. = a non-nil
// pointer (one interned cell per code, so == on the pointers is == on the codes), anything else = the int itself
var c04Cells = map[int]*int{}

func c04Cell(code int) *int {
	if p, ok := c04Cells[code]; ok {
		return p
	}
	v := code
	c04Cells[code] = &v
	return &v
}

func c04Enc(v int) interface{} {
	switch {
	case v == -1:
		return nil
	case v == -2:
		return (*int)(nil)
	case v >= 50:
		return c04Cell(v)
	}
	return v
}

func c04Dec(v interface{}) int {
	if v == nil {
		return -1
	}
	if i, ok := v.(int); ok {
		return i
	}
	if p, ok := v.(*int); ok {
		if p == nil {
			return -2
		}
		return *p
	}
	return -777 // not an element: never produced by a correct library
}

func c04EncList(l []int) []interface{} {
	r := make([]interface{}, len(l))
	for i, v := range l {
		r[i] = c04Enc(v)
	}
	return r
}

func c04MapFn(k int, x int, i int) int {
	switch k {
	case 0:
		return x + 1
	case 1:
		return x * 2
	case 2:
		return x + i
	case 3:
		return -x
	}
	return 7
}

func c04PredFn(k int, x int, i int) bool {
	switch k {
	case 0:
		return x%2 == 0
	case 1:
		return x > 1
	case 2:
		return i%2 == 0
	case 3:
		return true
	}
	return false
}

func c04LessFn(k int, a, b int) bool {
	switch k {
	case 0:
		return a < b
	case 1:
		return a > b
	case 2:
		return a%3 < b%3
	}
	return false
}

func c04KeyFn(k int, x int) int {
	switch k {
	case 0:
		return x + 10
	case 1:
		return -x
	}
	return x * 2
}

func c04ValFn(k int, x int) int {
	switch k {
	case 0:
		return x + 1
	case 1:
		return 0
	}
	return x * 2
}

func (st *c04State) find(name string) *c04Obj {
	for _, o := range st.objs {
		if o.name == name {
			return o
		}
	}
	return nil
}

func c04Ints(l []int) string {
	parts := make([]string, len(l))
	for i, v := range l {
		parts[i] = strconv.Itoa(v)
	}
	return strings.Join(parts, ",")
}

func c04IfaceInts(l []interface{}) string {
	parts := make([]string, len(l))
	for i, v := range l {
		parts[i] = strconv.Itoa(c04Dec(v))
	}
	return strings.Join(parts, ",")
}

func (st *c04State) dumpObj(o *c04Obj) string {
	switch o.kind {
	case 'l':
		var parts []string
		switch {
		case o.lkind == 's' && st.iface:
			for _, m := range o.isl {
				if m == nil {
					parts = append(parts, "nil")
				} else {
					parts = append(parts, "["+c04IfaceInts([]interface{}(*m))+"]")
				}
			}
		case o.lkind == 's':
			for _, m := range o.gsl {
				if m == nil {
					parts = append(parts, "nil")
				} else {
					parts = append(parts, "["+c04Ints([]int(*m))+"]")
				}
			}
		case st.iface:
			for _, m := range o.ial {
				if m == nil {
					parts = append(parts, "nil")
				} else {
					parts = append(parts, "["+c04IfaceInts(m)+"]")
				}
			}
		default:
			for _, m := range o.gal {
				if m == nil {
					parts = append(parts, "nil")
				} else {
					parts = append(parts, "["+c04Ints(m)+"]")
				}
			}
		}
		return "(" + strings.Join(parts, "/") + ")"
	case 'a':
		if st.iface {
			s := "[" + c04IfaceInts(o.ia)
			if o.full && cap(o.ia) > len(o.ia) {
				s += "|" + c04IfaceInts(o.ia[len(o.ia):cap(o.ia)])
			}
			return s + "]"
		}
		s := "[" + c04Ints(o.ga)
		if o.full && cap(o.ga) > len(o.ga) {
			s += "|" + c04Ints(o.ga[len(o.ga):cap(o.ga)])
		}
		return s + "]"
	case 's':
		if st.iface {
			if o.is == nil {
				return "nil"
			}
			return "[" + c04IfaceInts([]interface{}(*o.is)) + "]"
		}
		if o.gs == nil {
			return "nil"
		}
		return "[" + c04Ints([]int(*o.gs)) + "]"
	}
	// set-like
	type entry struct {
		k int
		v string
	}
	var es []entry
	if st.iface {
		var m map[interface{}]interface{}
		if o.kind == 't' {
			m = map[interface{}]interface{}(o.it.SetForInterfaceDef)
		} else {
			m = map[interface{}]interface{}(*o.im)
		}
		for k, v := range m {
			if sp, ok := v.(*fpgo.StreamForInterfaceDef); ok {
				if sp == nil {
					es = append(es, entry{c04Dec(k), "nil"})
				} else {
					es = append(es, entry{c04Dec(k), "[" + c04IfaceInts([]interface{}(*sp)) + "]"})
				}
			} else {
				es = append(es, entry{c04Dec(k), strconv.Itoa(c04Dec(v))})
			}
		}
	} else {
		showS := func(sp *fpgo.StreamDef[int]) string {
			if sp == nil {
				return "nil"
			}
			return "[" + c04Ints([]int(*sp)) + "]"
		}
		switch o.kind {
		case 'm':
			for k, v := range map[int]int(*(o.gm.(*fpgo.MapSetDef[int, int]))) {
				es = append(es, entry{k, strconv.Itoa(v)})
			}
		case 't':
			for k, v := range map[int]*fpgo.StreamDef[int](o.gt.MapSetDef) {
				es = append(es, entry{k, showS(v)})
			}
		case 'u':
			for k, v := range map[int]*fpgo.StreamDef[int](*(o.gu.(*fpgo.MapSetDef[int, *fpgo.StreamDef[int]]))) {
				es = append(es, entry{k, showS(v)})
			}
		}
	}
	sort.Slice(es, func(i, j int) bool { return es[i].k < es[j].k })
	parts := make([]string, len(es))
	for i, e := range es {
		parts[i] = strconv.Itoa(e.k) + ":" + e.v
	}
	return "{" + strings.Join(parts, "/") + "}"
}

func (st *c04State) dump() string {
	parts := make([]string, len(st.objs))
	for i, o := range st.objs {
		parts[i] = o.name + "=" + st.dumpObj(o)
	}
	return strings.Join(parts, " ")
}

func c04ParseInts(s string) ([]int, bool) {
	if s == "-" {
		return nil, true
	}
	fs := strings.Split(s, ",")
	r := make([]int, len(fs))
	for i, f := range fs {
		v, err := strconv.Atoi(f)
		if err != nil {
			return nil, false
		}
		r[i] = v
	}
	return r, true
}

type c04Pair struct {
	k int
	v string
}

func c04ParsePairs(s string) ([]c04Pair, bool) {
	if s == "-" {
		return nil, true
	}
	var r []c04Pair
	for _, f := range strings.Split(s, ",") {
		kv := strings.Split(f, ":")
		if len(kv) != 2 {
			return nil, false
		}
		k, err := strconv.Atoi(kv[0])
		if err != nil {
			return nil, false
		}
		r = append(r, c04Pair{k, kv[1]})
	}
	return r, true
}

const (
	c04BadRef = "bad-ref"
	c04BadOp  = "bad-op"
)

// stream receiver (non-nil stream handle)
func (st *c04State) str(name string) *c04Obj {
	o := st.find(name)
	if o == nil || o.kind != 's' {
		return nil
	}
	if st.iface && o.is == nil || !st.iface && o.gs == nil {
		return nil
	}
	return o
}

// stream argument: "nil", a nil handle, or a stream; ok=false when the name is not a stream handle
func (st *c04State) strArg(name string) (o *c04Obj, ok bool) {
	if name == "nil" {
		return nil, true
	}
	o = st.find(name)
	if o == nil || o.kind != 's' {
		return nil, false
	}
	if st.iface && o.is == nil || !st.iface && o.gs == nil {
		return nil, true
	}
	return o, true
}

func (st *c04State) arr(name string) *c04Obj {
	o := st.find(name)
	if o == nil || o.kind != 'a' {
		return nil
	}
	return o
}

func (st *c04State) setLike(name string) *c04Obj {
	o := st.find(name)
	if o == nil || (o.kind != 'm' && o.kind != 't') {
		return nil
	}
	return o
}

// set-like argument of the receiver's kind, or "nil"
func (st *c04State) setArg(name string, kind byte) (o *c04Obj, ok bool) {
	if name == "nil" {
		return nil, true
	}
	o = st.find(name)
	if o == nil || o.kind != kind {
		return nil, false
	}
	return o, true
}

func (st *c04State) add(o *c04Obj) string {
	st.objs = append(st.objs, o)
	return "ok"
}

func c04Bool(b bool) string {
	if b {
		return "true"
	}
	return "false"
}

// one operation on the real code; a panic inside the library is reported as "panic" (no handle is created)
func (st *c04State) runOp(tok string) (out string) {
	defer func() {
		if r := recover(); r != nil {
			out = "panic"
		}
	}()
	ws := strings.Fields(tok)
	if len(ws) == 0 {
		return c04BadOp
	}
	if i := strings.Index(ws[0], "="); i >= 0 {
		dst, name := ws[0][:i], ws[0][i+1:]
		if dst == "" || name == "" || strings.Contains(name, "=") {
			return c04BadOp
		}
		return st.create(dst, name, ws[1:])
	}
	return st.plain(ws[0], ws[1:])
}

func (st *c04State) create(dst, name string, args []string) string {
	I := st.iface
	n := len(args)
	switch {
	case name == "arr" && n == 2:
		l, err := strconv.Atoi(args[0])
		vals, ok := c04ParseInts(args[1])
		if err != nil || !ok || l < 0 {
			return c04BadOp
		}
		if l > len(vals) {
			return c04BadOp
		}
		if I {
			store := c04EncList(vals)
			return st.add(&c04Obj{name: dst, kind: 'a', full: true, ia: store[:l]})
		}
		store := append(make([]int, 0, len(vals)), vals...)
		return st.add(&c04Obj{name: dst, kind: 'a', full: true, ga: store[:l]})
	case name == "sub" && n == 3:
		lo, e1 := strconv.Atoi(args[1])
		hi, e2 := strconv.Atoi(args[2])
		if e1 != nil || e2 != nil || lo < 0 || hi < 0 {
			return c04BadOp
		}
		a := st.arr(args[0])
		if a == nil {
			return c04BadRef
		}
		if I {
			if !(lo <= hi && hi <= cap(a.ia)) {
				return c04BadOp
			}
			return st.add(&c04Obj{name: dst, kind: 'a', full: a.full, ia: a.ia[lo:hi]})
		}
		if !(lo <= hi && hi <= cap(a.ga)) {
			return c04BadOp
		}
		return st.add(&c04Obj{name: dst, kind: 'a', full: a.full, ga: a.ga[lo:hi]})
	case (name == "from" || name == "fromv") && n == 1:
		a := st.arr(args[0])
		if a == nil {
			return c04BadRef
		}
		if I {
			if name == "from" {
				return st.add(&c04Obj{name: dst, kind: 's', is: fpgo.StreamForInterface.FromArray(a.ia)})
			}
			return st.add(&c04Obj{name: dst, kind: 's', is: fpgo.StreamForInterface.From(a.ia...)})
		}
		if name == "from" {
			return st.add(&c04Obj{name: dst, kind: 's', gs: fpgo.StreamFromArray(a.ga)})
		}
		return st.add(&c04Obj{name: dst, kind: 's', gs: fpgo.StreamFrom(a.ga...)})
	case name == "toarr" && n == 1:
		s := st.str(args[0])
		if s == nil {
			return c04BadRef
		}
		if I {
			return st.add(&c04Obj{name: dst, kind: 'a', ia: s.is.ToArray()})
		}
		return st.add(&c04Obj{name: dst, kind: 'a', ga: s.gs.ToArray()})
	case name == "inter" || name == "minus":
		if n != 2 {
			return c04BadOp
		}
		s := st.str(args[0])
		a, ok := st.strArg(args[1])
		if s == nil || !ok {
			return c04BadRef
		}
		if I {
			var arg *fpgo.StreamForInterfaceDef
			if a != nil {
				arg = a.is
			}
			if name == "inter" {
				return st.add(&c04Obj{name: dst, kind: 's', is: s.is.Intersection(arg)})
			}
			return st.add(&c04Obj{name: dst, kind: 's', is: s.is.Minus(arg)})
		}
		var arg *fpgo.StreamDef[int]
		if a != nil {
			arg = a.gs
		}
		if name == "inter" {
			return st.add(&c04Obj{name: dst, kind: 's', gs: s.gs.Intersection(arg)})
		}
		return st.add(&c04Obj{name: dst, kind: 's', gs: s.gs.Minus(arg)})
	case name == "extend" && n >= 1:
		s := st.str(args[0])
		if s == nil {
			return c04BadRef
		}
		if I {
			var list []*fpgo.StreamForInterfaceDef
			for _, an := range args[1:] {
				a, ok := st.strArg(an)
				if !ok {
					return c04BadRef
				}
				if a == nil {
					list = append(list, nil)
				} else {
					list = append(list, a.is)
				}
			}
			return st.add(&c04Obj{name: dst, kind: 's', is: s.is.Extend(list...)})
		}
		var list []*fpgo.StreamDef[int]
		for _, an := range args[1:] {
			a, ok := st.strArg(an)
			if !ok {
				return c04BadRef
			}
			if a == nil {
				list = append(list, nil)
			} else {
				list = append(list, a.gs)
			}
		}
		return st.add(&c04Obj{name: dst, kind: 's', gs: s.gs.Extend(list...)})
	case name == "concat" && n >= 1:
		s := st.str(args[0])
		if s == nil {
			return c04BadRef
		}
		if I {
			var list [][]interface{}
			for _, an := range args[1:] {
				if an == "nil" {
					list = append(list, nil)
					continue
				}
				a := st.arr(an)
				if a == nil {
					return c04BadRef
				}
				list = append(list, a.ia)
			}
			return st.add(&c04Obj{name: dst, kind: 's', is: s.is.Concat(list...)})
		}
		var list [][]int
		for _, an := range args[1:] {
			if an == "nil" {
				list = append(list, nil)
				continue
			}
			a := st.arr(an)
			if a == nil {
				return c04BadRef
			}
			list = append(list, a.ga)
		}
		return st.add(&c04Obj{name: dst, kind: 's', gs: s.gs.Concat(list...)})
	case name == "setfrom" && n == 1:
		vs, ok := c04ParseInts(args[0])
		if !ok {
			return c04BadOp
		}
		if I {
			return st.add(&c04Obj{name: dst, kind: 'm', im: fpgo.SetForInterfaceFrom(c04EncList(vs)...)})
		}
		return st.add(&c04Obj{name: dst, kind: 'm', gm: fpgo.SetFrom[int, int](vs...)})
	case name == "setfromarr" && n == 1:
		a := st.arr(args[0])
		if a == nil {
			return c04BadRef
		}
		if I {
			return st.add(&c04Obj{name: dst, kind: 'm', im: fpgo.SetForInterfaceFromArray(a.ia)})
		}
		return st.add(&c04Obj{name: dst, kind: 'm', gm: fpgo.SetFromArray[int, int](a.ga)})
	case name == "setfrommap" && n == 1:
		ps, ok := c04ParsePairs(args[0])
		if !ok {
			return c04BadOp
		}
		vals := make([]int, len(ps))
		for i, p := range ps {
			v, err := strconv.Atoi(p.v)
			if err != nil {
				return c04BadOp
			}
			vals[i] = v
		}
		if I {
			m := map[interface{}]interface{}{}
			for i, p := range ps {
				m[c04Enc(p.k)] = c04Enc(vals[i])
			}
			return st.add(&c04Obj{name: dst, kind: 'm', im: fpgo.SetForInterfaceFromMap(m)})
		}
		m := map[int]int{}
		for i, p := range ps {
			m[p.k] = vals[i]
		}
		return st.add(&c04Obj{name: dst, kind: 'm', gm: fpgo.SetFromMap(m)})
	case name == "tnew" && n == 0:
		if I {
			return st.add(&c04Obj{name: dst, kind: 't', it: fpgo.NewStreamSetForInterface()})
		}
		return st.add(&c04Obj{name: dst, kind: 't', gt: fpgo.NewStreamSet[int, int]()})
	case name == "tfrom" && n == 1:
		vs, ok := c04ParseInts(args[0])
		if !ok {
			return c04BadOp
		}
		if I {
			return st.add(&c04Obj{name: dst, kind: 't', it: fpgo.StreamSetForInterfaceFrom(c04EncList(vs)...)})
		}
		return st.add(&c04Obj{name: dst, kind: 't', gt: fpgo.StreamSetFrom[int, int](vs...)})
	case name == "tfromarr" && n == 1:
		a := st.arr(args[0])
		if a == nil {
			return c04BadRef
		}
		if I {
			return st.add(&c04Obj{name: dst, kind: 't', it: fpgo.StreamSetForInterfaceFromArray(a.ia)})
		}
		return st.add(&c04Obj{name: dst, kind: 't', gt: fpgo.StreamSetFromArray[int, int](a.ga)})
	case name == "tfrommap" && n == 1:
		ps, ok := c04ParsePairs(args[0])
		if !ok {
			return c04BadOp
		}
		objs := make([]*c04Obj, len(ps))
		for i, p := range ps {
			a, ok := st.strArg(p.v)
			if !ok {
				return c04BadRef
			}
			objs[i] = a
		}
		if I {
			m := map[interface{}]*fpgo.StreamForInterfaceDef{}
			for i, p := range ps {
				if objs[i] == nil {
					// a typed nil pointer inside an interface{} is outside the modelled universe
					return c04BadOp
				}
				m[c04Enc(p.k)] = objs[i].is
			}
			return st.add(&c04Obj{name: dst, kind: 't', it: fpgo.StreamSetForInterfaceFromMap(m)})
		}
		m := map[int]*fpgo.StreamDef[int]{}
		for i, p := range ps {
			if objs[i] == nil {
				m[p.k] = nil
			} else {
				m[p.k] = objs[i].gs
			}
		}
		snap := make(map[int]*fpgo.StreamDef[int], len(m))
		for k, v := range m {
			snap[k] = v
		}
		return st.add(&c04Obj{name: dst, kind: 't', gt: fpgo.StreamSetFromMap(m), argMap: m, argSnap: snap})
	case name == "tget" && n == 2:
		k, err := strconv.Atoi(args[1])
		if err != nil {
			return c04BadOp
		}
		t := st.find(args[0])
		if t == nil || t.kind != 't' {
			return c04BadRef
		}
		if I {
			v := t.it.Get(c04Enc(k))
			sp, _ := v.(*fpgo.StreamForInterfaceDef)
			return st.add(&c04Obj{name: dst, kind: 's', is: sp})
		}
		return st.add(&c04Obj{name: dst, kind: 's', gs: t.gt.Get(k)})
	case (name == "keys" || name == "vals") && n == 1:
		m := st.setLike(args[0])
		if m == nil || (name == "vals" && m.kind != 'm') {
			return c04BadRef
		}
		if I {
			var r []interface{}
			switch {
			case name == "vals":
				r = m.im.Values()
			case m.kind == 't':
				r = m.it.Keys()
			default:
				r = m.im.Keys()
			}
			sort.Slice(r, func(i, j int) bool { return c04Dec(r[i]) < c04Dec(r[j]) })
			return st.add(&c04Obj{name: dst, kind: 'a', ia: r})
		}
		var r []int
		switch {
		case name == "vals":
			r = m.gm.Values()
		case m.kind == 't':
			r = m.gt.Keys()
		default:
			r = m.gm.Keys()
		}
		sort.Ints(r)
		return st.add(&c04Obj{name: dst, kind: 'a', ga: r})
	}
	if r, ok := st.createSpread(dst, name, args); ok {
		return r
	}
	if r, ok := st.createS1(dst, name, args); ok {
		return r
	}
	if r, ok := st.createM(dst, name, args); ok {
		return r
	}
	return c04BadOp
}

// spread calls: the operand list of a variadic method is a caller-owned slice
func (st *c04State) createSpread(dst, name string, args []string) (string, bool) {
	I := st.iface
	switch name {
	case "slist", "alist":
		if len(args) != 1 {
			return c04BadOp, true
		}
		names := strings.Split(args[0], ",")
		o := &c04Obj{name: dst, kind: 'l', lkind: name[0]}
		for _, n := range names {
			if name == "slist" {
				a, ok := st.strArg(n)
				if !ok {
					return c04BadRef, true
				}
				switch {
				case I && a == nil:
					o.isl = append(o.isl, nil)
				case I:
					o.isl = append(o.isl, a.is)
				case a == nil:
					o.gsl = append(o.gsl, nil)
				default:
					o.gsl = append(o.gsl, a.gs)
				}
				continue
			}
			var a *c04Obj
			if n != "nil" {
				if a = st.arr(n); a == nil {
					return c04BadRef, true
				}
			}
			switch {
			case I && a == nil:
				o.ial = append(o.ial, nil)
			case I:
				o.ial = append(o.ial, a.ia)
			case a == nil:
				o.gal = append(o.gal, nil)
			default:
				o.gal = append(o.gal, a.ga)
			}
		}
		// exact capacity: the slice is the caller's, nothing to spare
		o.isl, o.gsl, o.ial, o.gal = o.isl[:len(o.isl):len(o.isl)], o.gsl[:len(o.gsl):len(o.gsl)], o.ial[:len(o.ial):len(o.ial)], o.gal[:len(o.gal):len(o.gal)]
		return st.add(o), true
	case "extendv", "concatv":
		if len(args) != 2 {
			return c04BadOp, true
		}
		s := st.str(args[0])
		l := st.find(args[1])
		if l == nil || l.kind != 'l' {
			return c04BadRef, true
		}
		// a list of slices is not a list of streams (the model resolves the members by name and refuses too)
		if s == nil || (name == "extendv") != (l.lkind == 's') {
			return c04BadRef, true
		}
		if name == "extendv" {
			if I {
				return st.add(&c04Obj{name: dst, kind: 's', is: s.is.Extend(l.isl...)}), true
			}
			return st.add(&c04Obj{name: dst, kind: 's', gs: s.gs.Extend(l.gsl...)}), true
		}
		if I {
			return st.add(&c04Obj{name: dst, kind: 's', is: s.is.Concat(l.ial...)}), true
		}
		return st.add(&c04Obj{name: dst, kind: 's', gs: s.gs.Concat(l.gal...)}), true
	case "appendv", "rmitemv":
		if len(args) != 2 {
			return c04BadOp, true
		}
		s := st.str(args[0])
		a := st.arr(args[1])
		if s == nil || a == nil {
			return c04BadRef, true
		}
		if I {
			if name == "appendv" {
				return st.add(&c04Obj{name: dst, kind: 's', is: s.is.Append(a.ia...)}), true
			}
			return st.add(&c04Obj{name: dst, kind: 's', is: s.is.RemoveItem(a.ia...)}), true
		}
		if name == "appendv" {
			return st.add(&c04Obj{name: dst, kind: 's', gs: s.gs.Append(a.ga...)}), true
		}
		return st.add(&c04Obj{name: dst, kind: 's', gs: s.gs.RemoveItem(a.ga...)}), true
	case "addv", "rmkeysv", "rmvalsv":
		if len(args) != 2 {
			return c04BadOp, true
		}
		m := st.setLike(args[0])
		a := st.arr(args[1])
		if m == nil || a == nil {
			return c04BadRef, true
		}
		streams := m.kind == 't'
		if streams && name == "rmvalsv" {
			return c04BadOp, true
		}
		switch {
		case I && streams && name == "addv":
			return st.add(&c04Obj{name: dst, kind: 'u', im: m.it.Add(a.ia...)}), true
		case I && streams:
			return st.add(&c04Obj{name: dst, kind: 'u', im: m.it.RemoveKeys(a.ia...)}), true
		case I && name == "addv":
			return st.add(&c04Obj{name: dst, kind: 'm', im: m.im.Add(a.ia...)}), true
		case I && name == "rmkeysv":
			return st.add(&c04Obj{name: dst, kind: 'm', im: m.im.RemoveKeys(a.ia...)}), true
		case I:
			return st.add(&c04Obj{name: dst, kind: 'm', im: m.im.RemoveValues(a.ia...)}), true
		case streams && name == "addv":
			return st.add(&c04Obj{name: dst, kind: 'u', gu: m.gt.Add(a.ga...)}), true
		case streams:
			return st.add(&c04Obj{name: dst, kind: 'u', gu: m.gt.RemoveKeys(a.ga...)}), true
		case name == "addv":
			return st.add(&c04Obj{name: dst, kind: 'm', gm: m.gm.Add(a.ga...)}), true
		case name == "rmkeysv":
			return st.add(&c04Obj{name: dst, kind: 'm', gm: m.gm.RemoveKeys(a.ga...)}), true
		}
		return st.add(&c04Obj{name: dst, kind: 'm', gm: m.gm.RemoveValues(a.ga...)}), true
	case "setfromv", "tfromv":
		if len(args) != 1 {
			return c04BadOp, true
		}
		a := st.arr(args[0])
		if a == nil {
			return c04BadRef, true
		}
		switch {
		case I && name == "setfromv":
			return st.add(&c04Obj{name: dst, kind: 'm', im: fpgo.SetForInterfaceFrom(a.ia...)}), true
		case I:
			return st.add(&c04Obj{name: dst, kind: 't', it: fpgo.StreamSetForInterfaceFrom(a.ia...)}), true
		case name == "setfromv":
			return st.add(&c04Obj{name: dst, kind: 'm', gm: fpgo.SetFrom[int, int](a.ga...)}), true
		}
		return st.add(&c04Obj{name: dst, kind: 't', gt: fpgo.StreamSetFrom[int, int](a.ga...)}), true
	}
	return "", false
}

// unary stream transformers
func (st *c04State) createS1(dst, name string, args []string) (string, bool) {
	known := map[string]int{"map": 2, "filter": 2, "reject": 2, "notnil": 1, "distinct": 1, "clone": 1, "reverse": 1,
		"sort": 2, "sortidx": 2, "rmitem": 2, "append": 2, "remove": 2}
	want, ok := known[name]
	if !ok || len(args) != want {
		return "", false
	}
	k := 0
	var vs []int
	if want == 2 {
		if name == "rmitem" || name == "append" {
			var ok bool
			vs, ok = c04ParseInts(args[1])
			if !ok {
				return c04BadOp, true
			}
		} else {
			var err error
			k, err = strconv.Atoi(args[1])
			if err != nil || (k < 0 && name != "remove") {
				return c04BadOp, true
			}
		}
	}
	s := st.str(args[0])
	if s == nil {
		return c04BadRef, true
	}
	if st.iface {
		r := s.is
		var res *fpgo.StreamForInterfaceDef
		switch name {
		case "map":
			res = r.Map(func(x interface{}, i int) interface{} { return c04Enc(c04MapFn(k, c04Dec(x), i)) })
		case "filter":
			res = r.Filter(func(x interface{}, i int) bool { return c04PredFn(k, c04Dec(x), i) })
		case "reject":
			res = r.Reject(func(x interface{}, i int) bool { return c04PredFn(k, c04Dec(x), i) })
		case "notnil":
			res = r.FilterNotNil()
		case "distinct":
			res = r.Distinct()
		case "clone":
			res = r.Clone()
		case "reverse":
			res = r.Reverse()
		case "sort":
			res = r.Sort(func(a, b interface{}) bool { return c04LessFn(k, c04Dec(a), c04Dec(b)) })
		case "sortidx":
			res = r.SortByIndex(func(a, b int) bool { return c04LessFn(k, c04Dec((*r)[a]), c04Dec((*r)[b])) })
		case "rmitem":
			res = r.RemoveItem(c04EncList(vs)...)
		case "append":
			res = r.Append(c04EncList(vs)...)
		case "remove":
			res = r.Remove(k)
		}
		return st.add(&c04Obj{name: dst, kind: 's', is: res}), true
	}
	r := s.gs
	var res *fpgo.StreamDef[int]
	switch name {
	case "map":
		res = r.Map(func(x int, i int) int { return c04MapFn(k, x, i) })
	case "filter":
		res = r.Filter(func(x int, i int) bool { return c04PredFn(k, x, i) })
	case "reject":
		res = r.Reject(func(x int, i int) bool { return c04PredFn(k, x, i) })
	case "notnil":
		res = r.FilterNotNil()
	case "distinct":
		res = r.Distinct()
	case "clone":
		res = r.Clone()
	case "reverse":
		res = r.Reverse()
	case "sort":
		res = r.Sort(func(a, b int) bool { return c04LessFn(k, a, b) })
	case "sortidx":
		res = r.SortByIndex(func(a, b int) bool { return c04LessFn(k, (*r)[a], (*r)[b]) })
	case "rmitem":
		res = r.RemoveItem(vs...)
	case "append":
		res = r.Append(vs...)
	case "remove":
		res = r.Remove(k)
	}
	return st.add(&c04Obj{name: dst, kind: 's', gs: res}), true
}

// set / stream-set transformers
func (st *c04State) createM(dst, name string, args []string) (string, bool) {
	unary := map[string]int{"mapkey": 2, "mapval": 2, "add": 2, "rmkeys": 2, "rmvals": 2, "sclone": 1}
	binary := map[string]bool{"union": true, "sinter": true, "sminus": true, "minuss": true}
	I := st.iface
	if want, ok := unary[name]; ok {
		if len(args) != want {
			return "", false
		}
		k := 0
		var vs []int
		if name == "mapkey" || name == "mapval" {
			var err error
			k, err = strconv.Atoi(args[1])
			if err != nil || k < 0 {
				return c04BadOp, true
			}
		} else if want == 2 {
			var ok bool
			vs, ok = c04ParseInts(args[1])
			if !ok {
				return c04BadOp, true
			}
		}
		m := st.setLike(args[0])
		if m == nil {
			return c04BadRef, true
		}
		streams := m.kind == 't'
		if streams && (name == "mapval" || name == "rmvals") {
			return c04BadOp, true
		}
		if I {
			keyFn := func(x interface{}) interface{} { return c04Enc(c04KeyFn(k, c04Dec(x))) }
			if streams {
				t := m.it
				switch name {
				case "sclone":
					return st.add(&c04Obj{name: dst, kind: 't', it: t.Clone()}), true
				case "mapkey":
					return st.add(&c04Obj{name: dst, kind: 'u', im: t.MapKey(keyFn)}), true
				case "add":
					return st.add(&c04Obj{name: dst, kind: 'u', im: t.Add(c04EncList(vs)...)}), true
				case "rmkeys":
					return st.add(&c04Obj{name: dst, kind: 'u', im: t.RemoveKeys(c04EncList(vs)...)}), true
				}
				return c04BadOp, true
			}
			r := m.im
			var res *fpgo.SetForInterfaceDef
			switch name {
			case "sclone":
				res = r.Clone()
			case "mapkey":
				res = r.MapKey(keyFn)
			case "mapval":
				res = r.MapValue(func(x interface{}) interface{} { return c04Enc(c04ValFn(k, c04Dec(x))) })
			case "add":
				res = r.Add(c04EncList(vs)...)
			case "rmkeys":
				res = r.RemoveKeys(c04EncList(vs)...)
			case "rmvals":
				res = r.RemoveValues(c04EncList(vs)...)
			}
			return st.add(&c04Obj{name: dst, kind: 'm', im: res}), true
		}
		keyFn := func(x int) int { return c04KeyFn(k, x) }
		if streams {
			t := m.gt
			switch name {
			case "sclone":
				return st.add(&c04Obj{name: dst, kind: 't', gt: t.Clone()}), true
			case "mapkey":
				return st.add(&c04Obj{name: dst, kind: 'u', gu: t.MapKey(keyFn)}), true
			case "add":
				return st.add(&c04Obj{name: dst, kind: 'u', gu: t.Add(vs...)}), true
			case "rmkeys":
				return st.add(&c04Obj{name: dst, kind: 'u', gu: t.RemoveKeys(vs...)}), true
			}
			return c04BadOp, true
		}
		r := m.gm
		var res fpgo.SetDef[int, int]
		switch name {
		case "sclone":
			res = r.Clone()
		case "mapkey":
			res = r.MapKey(keyFn)
		case "mapval":
			res = r.MapValue(func(x int) int { return c04ValFn(k, x) })
		case "add":
			res = r.Add(vs...)
		case "rmkeys":
			res = r.RemoveKeys(vs...)
		case "rmvals":
			res = r.RemoveValues(vs...)
		}
		return st.add(&c04Obj{name: dst, kind: 'm', gm: res}), true
	}
	if !binary[name] {
		return "", false
	}
	if len(args) != 2 {
		return c04BadOp, true
	}
	m := st.setLike(args[0])
	if m == nil {
		return c04BadRef, true
	}
	a, ok := st.setArg(args[1], m.kind)
	if !ok {
		return c04BadRef, true
	}
	streams := m.kind == 't'
	if name == "minuss" && !streams {
		return c04BadOp, true
	}
	if I {
		if streams {
			var arg *fpgo.StreamSetForInterfaceDef
			if a != nil {
				arg = a.it
			}
			var res *fpgo.StreamSetForInterfaceDef
			switch name {
			case "union":
				res = m.it.Union(arg)
			case "sinter":
				res = m.it.Intersection(arg)
			case "sminus":
				res = m.it.Minus(arg)
			case "minuss":
				res = m.it.MinusStreams(arg)
			}
			return st.add(&c04Obj{name: dst, kind: 't', it: res}), true
		}
		var arg *fpgo.SetForInterfaceDef
		if a != nil {
			arg = a.im
		}
		var res *fpgo.SetForInterfaceDef
		switch name {
		case "union":
			res = m.im.Union(arg)
		case "sinter":
			res = m.im.Intersection(arg)
		case "sminus":
			res = m.im.Minus(arg)
		}
		return st.add(&c04Obj{name: dst, kind: 'm', im: res}), true
	}
	if streams {
		var arg *fpgo.StreamSetDef[int, int]
		if a != nil {
			arg = a.gt
		}
		switch name {
		case "union":
			return st.add(&c04Obj{name: dst, kind: 't', gt: m.gt.Union(arg)}), true
		case "sinter":
			return st.add(&c04Obj{name: dst, kind: 't', gt: m.gt.Intersection(arg)}), true
		case "minuss":
			return st.add(&c04Obj{name: dst, kind: 't', gt: m.gt.MinusStreams(arg)}), true
		case "sminus":
			// promoted MapSetDef.Minus: takes and returns the plain set interface
			var parg fpgo.SetDef[int, *fpgo.StreamDef[int]]
			if a != nil {
				parg = &a.gt.MapSetDef
			}
			return st.add(&c04Obj{name: dst, kind: 'u', gu: m.gt.Minus(parg)}), true
		}
		return c04BadOp, true
	}
	var arg fpgo.SetDef[int, int]
	if a != nil {
		arg = a.gm
	}
	var res fpgo.SetDef[int, int]
	switch name {
	case "union":
		res = m.gm.Union(arg)
	case "sinter":
		res = m.gm.Intersection(arg)
	case "sminus":
		res = m.gm.Minus(arg)
	}
	return st.add(&c04Obj{name: dst, kind: 'm', gm: res}), true
}

func (st *c04State) plain(name string, args []string) string {
	I := st.iface
	n := len(args)
	atoi := func(s string) (int, bool) { v, err := strconv.Atoi(s); return v, err == nil }
	switch {
	case name == "wr" && n == 3:
		i, ok1 := atoi(args[1])
		v, ok2 := atoi(args[2])
		if !ok1 || !ok2 || i < 0 {
			return c04BadOp
		}
		a := st.arr(args[0])
		if a == nil {
			return c04BadRef
		}
		if I {
			if i >= len(a.ia) {
				return c04BadOp
			}
			a.ia[i] = c04Enc(v)
			return "ok"
		}
		if i >= len(a.ga) {
			return c04BadOp
		}
		a.ga[i] = v
		return "ok"
	case name == "len" && n == 1:
		s := st.str(args[0])
		if s == nil {
			return c04BadRef
		}
		if I {
			return "n " + strconv.Itoa(s.is.Len())
		}
		return "n " + strconv.Itoa(s.gs.Len())
	case name == "get" && n == 2:
		i, ok := atoi(args[1])
		if !ok {
			return c04BadOp
		}
		s := st.str(args[0])
		if s == nil {
			return c04BadRef
		}
		if I {
			return "v " + strconv.Itoa(c04Dec(s.is.Get(i)))
		}
		return "v " + strconv.Itoa(s.gs.Get(i))
	case name == "has" && n == 2:
		v, ok := atoi(args[1])
		if !ok {
			return c04BadOp
		}
		s := st.str(args[0])
		if s == nil {
			return c04BadRef
		}
		if I {
			return c04Bool(s.is.Contains(c04Enc(v)))
		}
		return c04Bool(s.gs.Contains(v))
	case (name == "subset" || name == "superset") && n == 2:
		s := st.str(args[0])
		a, ok := st.strArg(args[1])
		if s == nil || !ok {
			return c04BadRef
		}
		if I {
			var arg *fpgo.StreamForInterfaceDef
			if a != nil {
				arg = a.is
			}
			if name == "subset" {
				return c04Bool(s.is.IsSubset(arg))
			}
			return c04Bool(s.is.IsSuperset(arg))
		}
		var arg *fpgo.StreamDef[int]
		if a != nil {
			arg = a.gs
		}
		if name == "subset" {
			return c04Bool(s.gs.IsSubset(arg))
		}
		return c04Bool(s.gs.IsSuperset(arg))
	case name == "set" && n == 3:
		k, ok1 := atoi(args[1])
		v, ok2 := atoi(args[2])
		if !ok1 || !ok2 {
			return c04BadOp
		}
		m := st.find(args[0])
		if m == nil || m.kind != 'm' {
			return c04BadRef
		}
		if I {
			m.im.Set(c04Enc(k), c04Enc(v))
		} else {
			m.gm.Set(k, v)
		}
		return "ok"
	case name == "tset" && n == 3:
		k, ok1 := atoi(args[1])
		if !ok1 {
			return c04BadOp
		}
		t := st.find(args[0])
		a, ok := st.strArg(args[2])
		if t == nil || t.kind != 't' || !ok {
			return c04BadRef
		}
		if I {
			if a == nil {
				t.it.Set(c04Enc(k), nil)
			} else {
				t.it.Set(c04Enc(k), a.is)
			}
		} else {
			if a == nil {
				t.gt.Set(k, nil)
			} else {
				t.gt.Set(k, a.gs)
			}
		}
		return "ok"
	case (name == "haskey" || name == "size") && n >= 1:
		m := st.setLike(args[0])
		if name == "size" {
			if n != 1 {
				return c04BadOp
			}
			if m == nil {
				return c04BadRef
			}
			switch {
			case I && m.kind == 't':
				return "n " + strconv.Itoa(m.it.Size())
			case I:
				return "n " + strconv.Itoa(m.im.Size())
			case m.kind == 't':
				return "n " + strconv.Itoa(m.gt.Size())
			}
			return "n " + strconv.Itoa(m.gm.Size())
		}
		if n != 2 {
			return c04BadOp
		}
		k, ok := atoi(args[1])
		if !ok {
			return c04BadOp
		}
		if m == nil {
			return c04BadRef
		}
		switch {
		case I && m.kind == 't':
			return c04Bool(m.it.ContainsKey(c04Enc(k)))
		case I:
			return c04Bool(m.im.ContainsKey(c04Enc(k)))
		case m.kind == 't':
			return c04Bool(m.gt.ContainsKey(k))
		}
		return c04Bool(m.gm.ContainsKey(k))
	case (name == "hasval" || name == "mget") && n == 2:
		v, ok := atoi(args[1])
		if !ok {
			return c04BadOp
		}
		m := st.find(args[0])
		if m == nil || m.kind != 'm' {
			return c04BadRef
		}
		if name == "hasval" {
			if I {
				return c04Bool(m.im.ContainsValue(c04Enc(v)))
			}
			return c04Bool(m.gm.ContainsValue(v))
		}
		if I {
			return "v " + strconv.Itoa(c04Dec(m.im.Get(c04Enc(v))))
		}
		return "v " + strconv.Itoa(m.gm.Get(v))
	case (name == "ssub" || name == "ssuper") && n == 2:
		m := st.setLike(args[0])
		if m == nil {
			return c04BadRef
		}
		a, ok := st.setArg(args[1], m.kind)
		if !ok || a == nil {
			return c04BadRef
		}
		sub := name == "ssub"
		switch {
		case I && m.kind == 't':
			if sub {
				return c04Bool(m.it.IsSubsetByKey(a.it))
			}
			return c04Bool(m.it.IsSupersetByKey(a.it))
		case I:
			if sub {
				return c04Bool(m.im.IsSubsetByKey(a.im))
			}
			return c04Bool(m.im.IsSupersetByKey(a.im))
		case m.kind == 't':
			if sub {
				return c04Bool(m.gt.IsSubsetByKey(&a.gt.MapSetDef))
			}
			return c04Bool(m.gt.IsSupersetByKey(&a.gt.MapSetDef))
		}
		if sub {
			return c04Bool(m.gm.IsSubsetByKey(a.gm))
		}
		return c04Bool(m.gm.IsSupersetByKey(a.gm))
	}
	return c04BadOp
}

func c04Run(line string) string {
	st := &c04State{}
	body := line
	if strings.HasPrefix(line, "H: ") {
		return c04HRun(line[3:])
	}
	if strings.HasPrefix(line, "P: ") {
		return c04PRun(line[3:])
	}
	if strings.HasPrefix(line, "I: ") {
		st.iface = true
		body = line[3:]
	} else if strings.HasPrefix(line, "G: ") {
		body = line[3:]
	}
	var outs []string
	for _, t := range strings.Split(body, ";") {
		t = strings.TrimSpace(t)
		if t == "" {
			continue
		}
		o := st.runOp(t)
		outs = append(outs, o+st.disturbedArgs()+" "+st.dump())
	}
	return strings.Join(outs, " | ")
}

func init() { register("C04", &Prop{Gen: c04Gen, Run: c04Run, CaseTimeout: 5 * time.Second}) }
