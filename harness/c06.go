package main

// C06 — LinkedListQueue vs the pointer-level Lean model / ideal deque.
// Case line:   o:<v> ; u:<v> ; s ; p ; k ; c ; x ; n:<k> ; z     (Offer, Unshift, Shift, Pop, Peek, Count,
// Clear, KeepNodePoolCount(k), ClearNodePool).  Poll/Take/Shift and Offer/Put/Push are the same code path
// (one-line delegations), exercised by the aliases P (Poll), T (Take), O (Put), H (Push).
// Observation: one token per op joined by " | ":  nil | ok <v> | empty | n <count> | panic

import (
	"math/rand"
	"time"
	"strconv"
	"strings"

	fpgo "github.com/TeaEntityLab/fpGo/v2"
)

var c06Alphabet = []string{"o", "u", "s", "p", "k", "c", "x", "n:0", "n:1", "n:2", "z"}

func c06RunTok(q *fpgo.LinkedListQueue[int], tok string) (out string) {
	defer func() {
		if r := recover(); r != nil {
			out = "panic"
		}
	}()
	show := func(v int, err error) string {
		if err != nil {
			if err == fpgo.ErrQueueIsEmpty || err == fpgo.ErrStackIsEmpty {
				return "empty"
			}
			return "err-other"
		}
		return "ok " + strconv.Itoa(v)
	}
	arg := func() int { v, _ := strconv.Atoi(tok[2:]); return v }
	switch {
	case tok == "s":
		return show(q.Shift())
	case tok == "P":
		return show(q.Poll())
	case tok == "T":
		return show(q.Take())
	case tok == "p":
		return show(q.Pop())
	case tok == "k":
		return show(q.Peek())
	case tok == "c":
		return "n " + strconv.Itoa(q.Count())
	case tok == "x":
		q.Clear()
		return "nil"
	case tok == "z":
		q.ClearNodePool()
		return "nil"
	case strings.HasPrefix(tok, "n:"):
		q.KeepNodePoolCount(arg())
		return "nil"
	case strings.HasPrefix(tok, "o:"):
		if q.Offer(arg()) != nil {
			return "err-other"
		}
		return "nil"
	case strings.HasPrefix(tok, "O:"):
		if q.Put(arg()) != nil {
			return "err-other"
		}
		return "nil"
	case strings.HasPrefix(tok, "H:"):
		if q.Push(arg()) != nil {
			return "err-other"
		}
		return "nil"
	case strings.HasPrefix(tok, "u:"):
		if q.Unshift(arg()) != nil {
			return "err-other"
		}
		return "nil"
	}
	return "bad-op"
}

func c06Run(line string) string {
	q := fpgo.NewLinkedListQueue[int]()
	toks := strings.Split(line, ";")
	outs := make([]string, 0, len(toks))
	for _, t := range toks {
		t = strings.TrimSpace(t)
		if t == "" {
			continue
		}
		// aliases are normalised for the model by the generator, not here
		outs = append(outs, c06RunTok(q, t))
	}
	return strings.Join(outs, " | ")
}

func c06Concrete(prefix []string) string {
	toks := make([]string, len(prefix))
	v := 0
	for i, t := range prefix {
		if t == "o" || t == "u" {
			v++
			toks[i] = t + ":" + strconv.Itoa(v)
		} else {
			toks[i] = t
		}
	}
	return strings.Join(toks, " ; ")
}

func c06Gen(tier string, rng *rand.Rand, emit func(string)) map[string]interface{} {
	maxLen, nRandom, randLen := 5, 300, 200
	if tier == "thorough" {
		maxLen, nRandom, randLen = 6, 3000, 400
	}
	opCount := map[string]int{}
	exhaustive := 0
	var rec func(prefix []string)
	rec = func(prefix []string) {
		if len(prefix) > 0 {
			emit(c06Concrete(prefix))
			exhaustive++
		}
		if len(prefix) == maxLen {
			return
		}
		for _, a := range c06Alphabet {
			rec(append(append([]string{}, prefix...), a))
		}
	}
	rec(nil)
	// random long histories, biased to keep the queue non-empty and to mix head and tail removals
	for i := 0; i < nRandom; i++ {
		n := 1 + rng.Intn(randLen)
		ops := make([]string, n)
		for j := range ops {
			r := rng.Intn(100)
			switch {
			case r < 28:
				ops[j] = "o"
			case r < 45:
				ops[j] = "u"
			case r < 60:
				ops[j] = "s"
			case r < 75:
				ops[j] = "p"
			case r < 80:
				ops[j] = "k"
			case r < 86:
				ops[j] = "c"
			case r < 89:
				ops[j] = "x"
			case r < 96:
				ops[j] = "n:" + strconv.Itoa(rng.Intn(6))
			default:
				ops[j] = "z"
			}
			opCount[ops[j][:1]]++
		}
		emit(c06Concrete(ops))
	}
	return map[string]interface{}{
		"exhaustive": false, "exhaustive_prefix_scope": "all op sequences of length 1.." + strconv.Itoa(maxLen) + " over 11 ops",
		"exhaustive_cases": exhaustive, "random_cases": nRandom, "random_max_len": randLen, "random_op_mix": opCount,
	}
}

func init() { register("C06", &Prop{Gen: c06Gen, Run: c06Run, CaseTimeout: time.Second}) }
