package main

// C06 — LinkedListQueue vs the pointer-level Lean model / ideal deque.
// Case line:   o:<v> ; u:<v> ; s ; p ; k ; c ; x ; n:<k> ; z     (Offer, Unshift, Shift, Pop, Peek, Count,
// Clear, KeepNodePoolCount(k), ClearNodePool).  Poll/Take/Shift and Offer/Put/Push are the same code path
// (one-line delegations), exercised by the aliases P (Poll), T (Take), O (Put), H (Push).
// `N` reads the node-pool bookkeeping through the verif accessor: `pool <nodeCount> <length of the free list>`.
// Observation: one token per op joined by " | ":  nil | ok <v> | empty | n <count> | pool <c> <w> | panic

import (
	"math/rand"
	"time"
	"strconv"
	"strings"

	fpgo "github.com/TeaEntityLab/fpGo/v2"
)

var c06CoreAlphabet = []string{"o", "u", "s", "p", "x", "n:1", "z", "H"}

const c06WalkLimit = 1 << 20

var c06Alphabet = []string{"o", "u", "s", "p", "k", "c", "x", "n:0", "n:1", "n:2", "n:3", "z"}

func c06RunTok(q *fpgo.LinkedListQueue[int], tok string) (out string) {
	defer func() {
		if r := recover(); r != nil {
			out = "panic"
		}
	}()
	showE := func(v int, err error, want error) string {
		if err != nil {
			if err == want {
				return "empty"
			}
			return "err-other"
		}
		return "ok " + strconv.Itoa(v)
	}
	show := func(v int, err error) string { return showE(v, err, fpgo.ErrQueueIsEmpty) }
	arg := func() int { v, _ := strconv.Atoi(tok[2:]); return v }
	// the same object viewed through the two interfaces it implements
	var asQueue fpgo.Queue[int] = q
	var asStack fpgo.Stack[int] = q
	switch {
	case tok == "s":
		return show(q.Shift())
	case tok == "P":
		return show(asQueue.Poll())
	case tok == "T":
		return show(asQueue.Take())
	case tok == "p":
		v, err := asStack.Pop()
		return showE(v, err, fpgo.ErrStackIsEmpty)
	case tok == "k":
		return show(q.Peek())
	case tok == "N":
		c, w := q.VerifNodeCount(c06WalkLimit)
		if w >= c06WalkLimit {
			return "pool " + strconv.Itoa(c) + " cycle"
		}
		return "pool " + strconv.Itoa(c) + " " + strconv.Itoa(w)
	case tok == "c":
		return "n " + strconv.Itoa(q.Count())
	case tok == "x":
		q.Clear()
		return "nil"
	case tok == "z":
		q.ClearNodePool()
		return "nil"
	case strings.HasPrefix(tok, "n:"):
		q.KeepNodePoolCount(arg())
		return "nil"
	case strings.HasPrefix(tok, "o:"):
		if q.Offer(arg()) != nil {
			return "err-other"
		}
		return "nil"
	case strings.HasPrefix(tok, "O:"):
		if asQueue.Put(arg()) != nil {
			return "err-other"
		}
		return "nil"
	case strings.HasPrefix(tok, "H:"):
		if asStack.Push(arg()) != nil {
			return "err-other"
		}
		return "nil"
	case strings.HasPrefix(tok, "u:"):
		if q.Unshift(arg()) != nil {
			return "err-other"
		}
		return "nil"
	}
	return "bad-op"
}

func c06Run(line string) string {
	q := fpgo.NewLinkedListQueue[int]()
	toks := strings.Split(line, ";")
	outs := make([]string, 0, len(toks))
	for _, t := range toks {
		t = strings.TrimSpace(t)
		if t == "" {
			continue
		}
		for _, e := range c06Expand(t) {
			outs = append(outs, c06RunTok(q, e))
		}
	}
	return strings.Join(outs, " | ")
}

// c06Expand expands the repetition token `*<count> <op>`; repeated insertions insert consecutive values
// v, v+1, ... (the Lean side, `expandTok`, does the same).
func c06Expand(t string) []string {
	if !strings.HasPrefix(t, "*") {
		return []string{t}
	}
	parts := strings.Split(t, " ")
	if len(parts) != 2 {
		return []string{"?"}
	}
	n, err := strconv.Atoi(parts[0][1:])
	if err != nil || n < 0 {
		return []string{"?"}
	}
	op := parts[1]
	res := make([]string, n)
	for i := range res {
		res[i] = op
	}
	if len(op) > 2 && op[1] == ':' && strings.ContainsRune("oOHu", rune(op[0])) {
		v, err := strconv.Atoi(op[2:])
		if err != nil {
			return []string{"?"}
		}
		for i := range res {
			res[i] = op[:2] + strconv.Itoa(v+i)
		}
	}
	return res
}

// c06Long: long histories that cross plausible internal thresholds of the node pool / the lists (powers of two,
// +-1): burst-fill and drain, KeepNodePoolCount with a large argument while items are stored, Clear of a large
// queue, each followed by mixed head/tail traffic, a final drain and the bookkeeping probe.
func c06Long(sizes []int, lightFrom int, rng *rand.Rand, emit func(string)) int {
	n := 0
	it := strconv.Itoa
	tail := " ; N ; c ; k ; s ; k ; c ; N ; p ; c ; u:7001 ; o:7002 ; N ; s ; p ; k ; c ; *4 s ; *3 p ; N ; c ; o:7003 ; k ; p ; N"
	for _, t := range sizes {
		for d := -1; d <= 1; d++ {
			m := t + d
			if m < 1 {
				continue
			}
			keep := 2 + rng.Intn(3)
			rem := []string{"s", "p", "P", "T"}[rng.Intn(4)]
			// burst of m+keep items, drained to `keep` items from one end: m nodes pooled, `keep` items stored
			emit("*" + it(m+keep) + " o:1 ; *" + it(m) + " " + rem + tail)
			n++
			// KeepNodePoolCount(m) while items are stored, then traffic, then shrink / clear the pool
			emit("*" + it(keep) + " o:1 ; n:" + it(m) + tail + " ; *" + it(keep+2) + " o:50 ; n:" + it(m/2) + " ; N ; *3 s ; N ; z ; N ; *3 p ; c ; N")
			n++
			if t >= lightFrom && d != 0 {
				continue // the two quadratic-cost templates only at the threshold itself
			}
			// the same through Unshift / the other end, draining completely and refilling from the pool
			emit("*" + it(m+keep) + " u:1 ; *" + it(m-1) + " p ; N ; *2 s ; N ; c ; k ; *" + it(m+keep+3) + " p ; N ; *" + it(m+2) + " H:1 ; N ; c ; *3 T ; *3 p ; N")
			// Clear of a large queue (m nodes become the free list), then traffic and reuse of all pooled nodes
			emit("*" + it(m) + " o:1 ; x ; N ; *" + it(keep) + " o:1" + tail + " ; *" + it(m+2) + " u:100 ; N ; c ; *3 p ; k ; *3 s ; N ; x ; N ; c")
			n += 2
		}
	}
	return n
}

// c06Concrete turns op letters into tokens; the k-th insertion inserts k (so every stored value is distinct
// and a wrong/duplicated/lost element is visible).
func c06Concrete(prefix []string) string {
	toks := make([]string, len(prefix))
	v := 0
	for i, t := range prefix {
		switch t {
		case "o", "u", "O", "H":
			v++
			toks[i] = t + ":" + strconv.Itoa(v)
		default:
			toks[i] = t
		}
	}
	return strings.Join(toks, " ; ")
}

// drains appended to every bounded-exhaustive history: they read back the whole state the history left
// behind (bookkeeping, count, every element from both ends, reuse of recycled nodes).
var c06Drains = []string{
	"N ; c ; k ; s ; p ; s ; p ; s ; p ; N",
	"N ; c ; p ; s ; u:91 ; o:92 ; x ; N ; o:93 ; u:94 ; N ; p ; p ; s ; N",
}

var c06Directed = []string{
	// the two manifestations of the repaired defect (e2a196c)
	"o:1 ; o:2 ; s ; p ; s",
	"o:1 ; o:2 ; p ; u:3 ; x",
	"o:1 ; o:2 ; o:3 ; s ; p ; u:4 ; x ; N ; o:5 ; o:6 ; s ; s ; s",
	// empty-queue errors, both interfaces
	"s ; P ; T ; p ; k ; c ; N",
	// aliases
	"O:1 ; H:2 ; o:3 ; u:0 ; P ; T ; s ; p ; c",
	// pool maintenance with extreme arguments, interleaved with contents
	"o:1 ; o:2 ; n:-1 ; N ; n:0 ; N ; n:1 ; N ; n:5 ; N ; s ; N ; p ; N ; n:2 ; N ; z ; N ; o:7 ; k ; c",
	"n:-9223372036854775808 ; N ; n:3 ; N ; n:3 ; N ; n:2 ; N ; n:4 ; N ; o:1 ; N ; x ; N ; n:1 ; N",
	"o:1 ; o:2 ; o:3 ; x ; N ; n:2 ; N ; o:4 ; o:5 ; o:6 ; N ; s ; s ; s ; s ; N",
	"o:1 ; o:2 ; o:3 ; x ; z ; N ; o:4 ; o:5 ; n:7 ; N ; p ; p ; p ; N",
	// extreme and repeated values
	"o:0 ; o:0 ; u:-1 ; o:9223372036854775807 ; u:-9223372036854775808 ; s ; p ; s ; p ; s ; s",
}

func c06Gen(tier string, rng *rand.Rand, emit func(string)) map[string]interface{} {
	maxLen, nRandom, randLen := 5, 400, 300
	if tier == "thorough" {
		maxLen, nRandom, randLen = 6, 4000, 600
	}
	for _, d := range c06Directed {
		emit(d)
	}
	longSizes := []int{64, 128, 256, 512, 1024, 2048, 4096}
	if tier == "thorough" {
		longSizes = append(longSizes, 8192)
	}
	lightFrom := 4096
	if tier == "thorough" {
		lightFrom = 1 << 30
	}
	long := c06Long(longSizes, lightFrom, rng, emit)
	opCount := map[string]int{}
	exhaustive := 0
	var rec func(prefix []string)
	rec = func(prefix []string) {
		if len(prefix) > 0 {
			emit(c06Concrete(prefix) + " ; " + c06Drains[exhaustive%len(c06Drains)])
			exhaustive++
		}
		if len(prefix) == maxLen {
			return
		}
		for _, a := range c06Alphabet {
			rec(append(append([]string{}, prefix...), a))
		}
	}
	rec(nil)
	// one level deeper over the operations that change the shape of the lists
	deep := 0
	var rec2 func(prefix []string)
	rec2 = func(prefix []string) {
		if len(prefix) == maxLen+1 {
			emit(c06Concrete(prefix) + " ; " + c06Drains[deep%len(c06Drains)])
			deep++
			return
		}
		for _, a := range c06CoreAlphabet {
			rec2(append(append([]string{}, prefix...), a))
		}
	}
	rec2(nil)
	// random long histories, biased to keep the queue non-empty and to mix head and tail removals
	for i := 0; i < nRandom; i++ {
		n := 1 + rng.Intn(randLen)
		// each history has its own mix: insertion-heavy, removal-heavy, or maintenance-heavy
		ins, rem, maint := 45, 30, 10
		switch rng.Intn(4) {
		case 1:
			ins, rem = 32, 45
		case 2:
			ins, rem, maint = 35, 25, 30
		}
		distinct := rng.Intn(4) != 0
		ops := make([]string, n)
		v := 0
		val := func() string {
			v++
			if distinct {
				return strconv.Itoa(v)
			}
			switch rng.Intn(6) {
			case 0:
				return "0"
			case 1:
				return strconv.Itoa(-rng.Intn(5))
			case 2:
				return []string{"9223372036854775807", "-9223372036854775808"}[rng.Intn(2)]
			}
			return strconv.Itoa(rng.Intn(7))
		}
		for j := range ops {
			r := rng.Intn(100)
			switch {
			case r < ins:
				ops[j] = []string{"o", "o", "o", "u", "u", "O", "H"}[rng.Intn(7)] + ":" + val()
			case r < ins+rem:
				ops[j] = []string{"s", "s", "p", "p", "p", "P", "T"}[rng.Intn(7)]
			case r < ins+rem+maint:
				switch rng.Intn(8) {
				case 0:
					ops[j] = "z"
				case 1:
					ops[j] = "x"
				case 2:
					ops[j] = "n:" + strconv.Itoa(-rng.Intn(3))
				case 3:
					ops[j] = "n:" + strconv.Itoa(rng.Intn(40))
				default:
					ops[j] = "n:" + strconv.Itoa(rng.Intn(6))
				}
			default:
				ops[j] = []string{"k", "c", "N", "N"}[rng.Intn(4)]
			}
			opCount[ops[j][:1]]++
		}
		emit(strings.Join(ops, " ; ") + " ; N ; c")
	}
	// random histories built from bursts whose sizes sit around powers of two
	nBurst := 16
	if tier == "thorough" {
		nBurst = 120
	}
	for i := 0; i < nBurst; i++ {
		size := func() int {
			base := []int{64, 128, 256, 512, 1024, 1024, 1024, 2048}[rng.Intn(8)]
			return base + rng.Intn(5) - 2
		}
		k := 5 + rng.Intn(9)
		ops := make([]string, 0, k+8)
		for j := 0; j < k; j++ {
			switch r := rng.Intn(100); {
			case r < 30:
				ops = append(ops, "*"+strconv.Itoa(size())+" "+[]string{"o", "o", "u", "H"}[rng.Intn(4)]+":"+strconv.Itoa(1+rng.Intn(1000)))
			case r < 55:
				ops = append(ops, "*"+strconv.Itoa(size())+" "+[]string{"s", "p", "P", "T"}[rng.Intn(4)])
			case r < 65:
				ops = append(ops, "n:"+strconv.Itoa(size()))
			case r < 70:
				ops = append(ops, "x")
			case r < 73:
				ops = append(ops, "z")
			case r < 85:
				ops = append(ops, "*"+strconv.Itoa(2+rng.Intn(3))+" "+[]string{"o:1", "u:1", "s", "p"}[rng.Intn(4)])
			default:
				ops = append(ops, []string{"N", "c", "k"}[rng.Intn(3)])
			}
		}
		emit(strings.Join(ops, " ; ") + " ; N ; c ; k ; *3 s ; *3 p ; N ; c")
	}
	return map[string]interface{}{
		"random_burst_cases": nBurst,
		"exhaustive": false, "exhaustive_prefix_scope": "all op sequences of length 1.." + strconv.Itoa(maxLen) + " over 12 ops, each followed by a state-reading drain",
		"exhaustive_cases": exhaustive, "deeper_scope": "all op sequences of length " + strconv.Itoa(maxLen+1) + " over the 8 shape-changing ops " + strings.Join(c06CoreAlphabet, ","),
		"deeper_cases": deep, "directed_cases": len(c06Directed), "long_threshold_cases": long, "long_threshold_sizes": longSizes, "random_cases": nRandom, "random_max_len": randLen, "random_op_mix": opCount,
	}
}

func init() { register("C06", &Prop{Gen: c06Gen, Run: c06Run, CaseTimeout: 6 * time.Second}) }
