package main

import "fmt"

// c15Directed emits the directed schedules: the Close (or the finishing coroutine) is placed between every
// operation's closed-check and its channel send (the park points), inside every Close, and under senders that
// are already blocked in the send.
func c15Directed(e func(string)) {
	// ---- Handler / Actor
	for _, comp := range []string{"handler", "actor"} {
		chk := "handler.post.afterClosedCheck"
		if comp == "actor" {
			chk = "actor.send.afterClosedCheck"
		}
		for _, cap := range []int{0, 1, 3} {
			h := fmt.Sprintf("%s cap=%d: ", comp, cap)
			// Close between the closed-check and the send
			e(h + "A=post:1@" + chk + " ; C=close ; A>")
			// two senders in the window
			e(h + "A=post:1@" + chk + " ; B=post:2@" + chk + " ; C=close ; A> ; B>")
			// Close parked between flag and close(ch); a Post in between is dropped by the flag
			e(h + "C=close@" + comp + ".close.afterFlag ; A=post:1 ; C> ; A=post:2")
			// sender past the check while Close is between flag and close(ch)
			// (the channel is still open: the send goes through — no `!`, the step waits the long timeout)
			e(h + "A=post:1@" + chk + " ; C=close@" + comp + ".close.afterFlag ; A> ; C> ; A>")
			// after the close returned
			e(h + "A=post:1 ; C=close ; A=post:2 ; B=post:3")
			// senders already blocked in the send when Close closes the channel (consumer busy in a callback)
			s := h + "A=post:100"
			for k := 0; k < cap; k++ {
				s += fmt.Sprintf(" ; A=post:%d", k+2)
			}
			e(s + " ; B=post:50! ; D=post:51! ; C=close ; B> ; D> ; gate ; A=post:60")
			// Close() from inside a callback running on the handler/actor itself (ids 300-399): it must return
			e(h + "A=post:300 ; W=waitclosed ; A=post:5 ; B=post:6")
			e(h + "A=post:1 ; A=post:301 ; W=waitclosed ; A=post:7")
			// ... with the loop goroutine parked inside that Close, and posters in the check/send window
			e(h + "I+" + comp + ".close.afterFlag ; A=post:300 ; I?" + comp + ".close.afterFlag ; B=post:6 ; I>" + comp + ".close.afterFlag ; W=waitclosed ; B=post:8")
			e(h + "D=post:9@" + chk + " ; A=post:300 ; W=waitclosed ; D> ; A=post:5")
			// a running callback waits for what the closer does right after Close() returned (ids 400-499)
			e(h + "A=post:400 ; C=close ; W=waitclosed ; A=post:5")
			e(h + "A=post:400 ; B=post:50@" + chk + " ; C=close ; B> ; W=waitclosed")
		}
	}
	// ---- BufferedChannelQueue
	for _, cb := range [][2]int{{0, 2}, {1, 2}, {2, 0}} {
		h := fmt.Sprintf("bcq c=%d b=%d: ", cb[0], cb[1])
		for _, op := range [][2]string{{"take", "bcq.take.afterClosedCheck"}, {"poll", "bcq.poll.afterClosedCheck"}, {"twt", "bcq.takewithtimeout.afterClosedCheck"}} {
			// Close between the closed-check and the wake-up send
			e(h + "A=" + op[0] + "@" + op[1] + " ; C=close ; A>")
			// ... with Close itself parked after the flag / after closing the loader channel
			e(h + "A=" + op[0] + "@" + op[1] + " ; C=close@bcq.close.afterFlag ; A>! ; C> ; A>")
			e(h + "A=" + op[0] + "@" + op[1] + " ; C=close@bcq.close.afterLoadCh ; A>! ; C> ; A>")
			// parked inside notifyWorkers (read lock held, before the send): Close has to wait
			// (`!` only where the released consumer is expected to block: Take; Poll answers empty and
			// TakeWithTimeout its timeout — those wait the long timeout so that a loaded machine cannot turn
			// a slow answer into `A!`)
			rel := " ; A>"
			if op[0] == "take" {
				rel = " ; A>!"
			}
			e(h + "A=" + op[0] + "@bcq.notify.beforeSend ; C=close@bcq.close.afterFlag!" + rel + " ; C> ; A>")
		}
		e(h + "A=getch@bcq.notify.beforeSend ; C=close! ; A> ; C> ; A=getch")
		// two readers inside notifyWorkers: Close has to wait for both
		e(h + "A=take@bcq.notify.beforeSend ; B=getch@bcq.notify.beforeSend ; C=close! ; A>! ; C>! ; B> ; C> ; A>")
		e(h + "C=close@bcq.close.afterFlag ; A=getch! ; B=count ; D=offer:5! ; C> ; A> ; D>")
		e(h + "C=close@bcq.close.afterLoadCh ; A=getch! ; B=take ; D=put:5! ; C> ; A> ; D>")
		// consumers blocked in the receive when Close closes the channel
		e(h + "A=take! ; B=take! ; C=close ; A> ; B>")
		// Offer parked under the lock; Close waits; then everything reports closed
		e(h + "A=offer:1@bcq.offer.locked ; C=close! ; A> ; C> ; A=offer:2 ; A=poll")
		// after the close returned
		e(h + "A=offer:1 ; C=close ; A=take ; A=poll ; A=twt ; A=offer:2 ; A=put:3 ; A=count ; A=getch ; A=isclosed")
	}
	// loader windows (c=1: the second item goes to the pool and wakes the loader); afterwards calls that need the
	// queue's lock (Offer/Put: write lock, GetChannel: read lock) — the loader must not leave with the lock held
	e("bcq c=1 b=3: I+bcq.loader.afterClosedCheck ; A=offer:1 ; A=offer:2 ; I?bcq.loader.afterClosedCheck ; C=close ; I>bcq.loader.afterClosedCheck ; A=take ; A=offer:9 ; A=getch")
	e("bcq c=1 b=3: I+bcq.loader.polled ; A=offer:1 ; A=offer:2 ; I?bcq.loader.polled ; C=close! ; I>bcq.loader.polled ; C> ; A=poll ; A=offer:9 ; A=getch")
	e("bcq c=1 b=3: I+bcq.loader.polled ; A=offer:1 ; A=offer:2 ; I?bcq.loader.polled ; B=take! ; C=close! ; I>bcq.loader.polled ; C> ; A=take ; A=put:9 ; A=getch")
	e("bcq c=0 b=3: I+bcq.loader.afterClosedCheck ; A=offer:1 ; I?bcq.loader.afterClosedCheck ; B=take! ; C=close ; I>bcq.loader.afterClosedCheck ; B> ; A=offer:9 ; A=getch")
	// ---- coroutines (the target G finishes = `ret`)
	e("cor: A=yf:5@cor.closesafe.beforeLock ; G=ret ; A> ; A=isdone")
	e("cor: G=ret@cor.close.afterFlag ; A=yf:5 ; A=isdone ; G> ; B=yf:6")
	e("cor: A=yf:5@cor.yieldfrom.beforeResult ; G=yr:9@cor.yieldref.afterRecv ; G> ; A> ; G=ret ; A=yf:6 ; A=isdone")
	e("cor: A=yf:5@cor.yieldfrom.beforeResult ; B=yf:6@cor.yieldfrom.beforeResult ; G=yr:9 ; G=yr:8 ; A> ; B> ; G=ret ; A=yf:7")
	e("cor: A=yf:5@cor.closesafe.beforeLock ; B=yf:6@cor.closesafe.beforeLock ; G=ret@cor.close.afterFlag ; A> ; G> ; B>")
	// the window of the property: a caller past the done-check, parked before the send and holding the target's
	// closedM, while the target finishes.  The caller's select has two ready cases (room in opCh / doneCh closed) and
	// Go picks one at random, so the schedule is repeated: a close() that closes opCh outside the lock is hit with
	// probability 1/2 per line.
	for x := 1; x <= 6; x++ {
		e(fmt.Sprintf("cor: A=yf:%d@cor.receive.beforeSend ; G=ret@cor.close.afterFlag ; G>! ; A> ; G>", x))
	}
	// accepted-but-unserved request when the target finishes; a served one in between
	e("cor: A=yf:5@cor.yieldfrom.beforeResult ; G=ret ; A> ; B=yf:6 ; B=isdone")
	e("cor: A=yf:5@cor.yieldfrom.beforeResult ; B=yf:6@cor.yieldfrom.beforeResult ; G=yr:9 ; G=ret ; A> ; B>")
	// opCh (capacity 5) full: the sixth caller blocks in the send holding closedM; the finishing target must get it out
	e("cor: A=yf:1@cor.yieldfrom.beforeResult ; B=yf:2@cor.yieldfrom.beforeResult ; D=yf:3@cor.yieldfrom.beforeResult ; E=yf:4@cor.yieldfrom.beforeResult ; F=yf:5@cor.yieldfrom.beforeResult ; H=yf:6! ; J=yf:7! ; G=ret ; H> ; J> ; A> ; B> ; D> ; E> ; F> ; K=yf:8 ; K=isdone")
	// ---- worker pool
	for _, qc := range []int{1, 0} {
		h := fmt.Sprintf("pool c=4 b=4 max=1 qclose=%d: ", qc)
		e(h + "A=sched:1@pool.schedule.afterClosedCheck ; C=close ; A> ; A=sched:2 ; A=isclosed")
		e(h + "C=close@pool.close.afterFlag ; A=sched:1 ; C> ; A=sched:2")
		e(h + "I+pool.worker.afterClosedCheck ; I?pool.worker.afterClosedCheck ; C=close ; I>pool.worker.afterClosedCheck ; A=sched:1")
		e(h + "A=sched:1 ; A=sched:201 ; A=sched:2 ; C=close ; A=sched:3")
		// Close while the worker is inside a job (released by `gate` afterwards), one more job queued
		e(h + "A=sched:100 ; A=sched:2 ; C=close ; A=sched:3 ; A=isclosed ; gate")
	}
	// the worker parked inside GetChannel()'s notifyWorkers (read lock held, before the wake-up send): the queue's
	// Close has to wait for it
	// Invoke / InvokeWithTimeout (DefaultInvokable on the pool): after the Close returned nothing may run
	for _, qc := range []int{1, 0} {
		h := fmt.Sprintf("pool c=4 b=4 max=1 qclose=%d: ", qc)
		e(h + "A=invoke:50 ; A=sched:1 ; C=close ; A=invoke:51 ; A=invoket:3 ; B=invoke:52 ; A=sched:4 ; A=isclosed")
		e(h + "A=invoke:53@pool.schedule.afterClosedCheck ; C=close ; A> ; A=invoke:54")
		e(h + "C=close@pool.close.afterFlag ; A=invoke:55 ; A=invoket:5 ; C> ; A=invoke:56")
	}
	// the finishing coroutine is the caller side of an in-flight request issued by another goroutine
	e("corcaller mode=after")
	e("corcaller mode=parked")
	e("pool c=4 b=4 max=1 qclose=1: I+bcq.notify.beforeSend ; I?bcq.notify.beforeSend ; C=close! ; I>bcq.notify.beforeSend ; C> ; A=sched:1")
	e("pool c=4 b=4 max=1 qclose=1: I+pool.worker.afterClosedCheck ; I?pool.worker.afterClosedCheck ; C=close@bcq.close.afterFlag ; I>pool.worker.afterClosedCheck ; A=sched:1 ; C>")
	e("pool c=4 b=4 max=1 qclose=1: I+pool.worker.afterClosedCheck ; I?pool.worker.afterClosedCheck ; C=close@bcq.close.afterLoadCh ; I>pool.worker.afterClosedCheck ; C>")
	e("pool c=4 b=4 max=1 qclose=1: A=sched:1@pool.schedule.afterClosedCheck ; C=close@bcq.close.afterFlag ; A>! ; C> ; A>")
	e("pool c=4 b=4 max=1 qclose=1: A=sched:1@bcq.offer.locked ; C=close@pool.close.afterFlag ; C>! ; A> ; C>")
}
