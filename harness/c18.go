package main

// C18 — Interceptors run once each, in order, before the transport; an error aborts.
//
// Case line (see lean/FpgoVerif/Model/C18.lean):
//
//	clients=<n|d|s<k>>,… fail=<ids|-> new=c<k>:<ids|->: op ; op ; …
//	ops: add i,j | rem i,j | rem - | clear | set c<k> | req <GET|HEAD|OPTIONS|DELETE|POST|PUT|PATCH|DO|API|CLIENT>
//
// clients: the *http.Client pool (Transport nil / http.DefaultTransport / stub k; the same stub name = the same
// RoundTripper object); http.DefaultTransport is replaced by a stub for the duration of the case (no network).
// Interceptor i logs "i<i>:<X-Trace values it sees>", adds "X-Trace: <i>", and fails iff i is in fail=.
// Observation of req: the shared call log of that request + "->ok" | "->err<i>" | "->errother" | "->panic"; other ops: nil.

import (
	"errors"
	"fmt"
	"math/rand"
	"net/http"
	"runtime/debug"
	"strconv"
	"strings"
	"time"

	"github.com/TeaEntityLab/fpGo/v2/network"
)

type c18TempErr struct{ msg string }

func (e *c18TempErr) Error() string   { return e.msg }
func (e *c18TempErr) Temporary() bool { return true }
func (e *c18TempErr) Timeout() bool   { return false }

type c18Stub struct {
	name string
	log  *[]string
}

func (s *c18Stub) RoundTrip(r *http.Request) (*http.Response, error) {
	*s.log = append(*s.log, "T"+s.name+":"+strings.Join(r.Header["X-Trace"], "."))
	return &http.Response{StatusCode: 200, Status: "200 OK", Proto: "HTTP/1.1", ProtoMajor: 1, ProtoMinor: 1,
		Header: http.Header{}, Body: http.NoBody, Request: r}, nil
}

func c18Ids(s string) []int {
	if s == "-" || s == "" {
		return nil
	}
	var out []int
	for _, t := range strings.Split(s, ",") {
		if n, err := strconv.Atoi(t); err == nil {
			out = append(out, n)
		}
	}
	return out
}

func c18Run(line string) string {
	head, rest, ok := strings.Cut(line, ": ")
	if !ok {
		return "bad-case"
	}
	cfg := map[string]string{}
	for _, t := range strings.Fields(head) {
		k, v, _ := strings.Cut(t, "=")
		cfg[k] = v
	}
	var log []string
	// a chain that re-enters itself recurses without bound: keep Go's fatal stack overflow quick
	defer debug.SetMaxStack(debug.SetMaxStack(32 << 20))
	saved := http.DefaultTransport
	http.DefaultTransport = &c18Stub{"d", &log}
	defer func() { http.DefaultTransport = saved }()

	stubs := map[string]*c18Stub{}
	var clients []*http.Client
	for _, t := range strings.Split(cfg["clients"], ",") {
		switch {
		case t == "n":
			clients = append(clients, &http.Client{})
		case t == "d":
			clients = append(clients, &http.Client{Transport: http.DefaultTransport})
		default:
			if stubs[t] == nil {
				stubs[t] = &c18Stub{t, &log}
			}
			clients = append(clients, &http.Client{Transport: stubs[t]})
		}
	}
	client := func(s string) *http.Client {
		k, _ := strconv.Atoi(strings.TrimPrefix(s, "c"))
		if k < 0 || k >= len(clients) {
			k = 0
		}
		return clients[k]
	}
	failing := map[int]bool{}
	for _, i := range c18Ids(cfg["fail"]) {
		failing[i] = true
	}
	const nIcpt = 8
	icpts := make([]*network.Interceptor, nIcpt)
	errs := make([]error, nIcpt)
	for i := 0; i < nIcpt; i++ {
		i := i
		errs[i] = fmt.Errorf("interceptor %d failed", i)
		if i%2 == 1 {
			// odd interceptors fail with an error that calls itself temporary: "an error aborts" holds for it as for any other
			// (no second attempt may run the chain again)
			errs[i] = &c18TempErr{fmt.Sprintf("interceptor %d failed (temporary)", i)}
		}
		f := network.Interceptor(func(r *http.Request) error {
			log = append(log, "i"+strconv.Itoa(i)+":"+strings.Join(r.Header["X-Trace"], "."))
			r.Header.Add("X-Trace", strconv.Itoa(i))
			if failing[i] {
				return errs[i]
			}
			return nil
		})
		icpts[i] = &f
	}
	ptrs := func(s string) []*network.Interceptor {
		var out []*network.Interceptor
		for _, i := range c18Ids(s) {
			out = append(out, icpts[i%nIcpt])
		}
		return out
	}
	nc, nis, _ := strings.Cut(cfg["new"], ":")
	sh := network.NewSimpleHTTPWithClientAndInterceptors(client(nc), ptrs(nis)...)
	const url = "http://stub.test/x"

	runOp := func(op string) (out string) {
		f := strings.Fields(op)
		switch {
		case len(f) == 2 && f[0] == "add":
			sh.AddInterceptor(ptrs(f[1])...)
			return "nil"
		case len(f) == 2 && f[0] == "rem":
			sh.RemoveInterceptor(ptrs(f[1])...)
			return "nil"
		case len(f) == 1 && f[0] == "clear":
			sh.ClearInterceptor()
			return "nil"
		case len(f) == 2 && f[0] == "set":
			sh.SetHTTPClient(client(f[1]))
			return "nil"
		case len(f) == 2 && f[0] == "req":
			log = log[:0]
			defer func() {
				if r := recover(); r != nil {
					out = strings.Join(append(append([]string{}, log...), "->panic"), " ")
				}
			}()
			var err error
			var resp *http.Response
			take := func(r *network.ResponseWithError) { resp, err = r.Response, r.Err }
			switch f[1] {
			case "GET":
				take(sh.Get(url))
			case "HEAD":
				take(sh.Head(url))
			case "OPTIONS":
				take(sh.Options(url))
			case "DELETE":
				take(sh.Delete(url))
			case "POST":
				take(sh.Post(url, "text/plain", strings.NewReader("b")))
			case "PUT":
				take(sh.Put(url, "text/plain", strings.NewReader("b")))
			case "PATCH":
				take(sh.Patch(url, "", strings.NewReader("b")))
			case "DO":
				ctx, cancel := sh.GetContextTimeout()
				take(sh.DoNewRequest(ctx, http.Header{"X-Other": {"1"}}, "PURGE", url))
				cancel()
			case "API":
				api := network.NewSimpleAPIWithSimpleHTTP("http://stub.test", sh)
				api.ResponseDeserializer = func(b []byte, t interface{}) (interface{}, error) { return t, nil }
				var t c17Target
				r := network.APIMakeGet[c17Target](api, "x")(nil, &t).Eval()
				resp, err = r.Response, r.Err
			case "CLIENT":
				rq, _ := http.NewRequest("GET", url, nil)
				resp, err = sh.GetHTTPClient().Do(rq)
			default:
				return "bad-op"
			}
			res := "->errother"
			if err == nil && resp != nil && resp.StatusCode == 200 {
				res = "->ok"
			} else if err != nil {
				for i, e := range errs {
					if errors.Is(err, e) {
						res = "->err" + strconv.Itoa(i)
					}
				}
			}
			return strings.Join(append(append([]string{}, log...), res), " ")
		}
		return "bad-op"
	}
	var outs []string
	for _, op := range strings.Split(rest, ";") {
		op = strings.TrimSpace(op)
		if op == "" {
			continue
		}
		outs = append(outs, runOp(op))
	}
	return strings.Join(outs, " | ")
}

var c18Verbs = []string{"GET", "HEAD", "OPTIONS", "DELETE", "POST", "PUT", "PATCH", "DO", "API", "CLIENT"}

func c18Gen(tier string, rng *rand.Rand, emit func(string)) map[string]interface{} {
	maxLen, nRandom := 3, 8000
	if tier == "thorough" {
		maxLen, nRandom = 4, 100000
	}
	// 1. bounded-exhaustive: every history over a 16-op alphabet up to maxLen, then a request
	alphabet := []string{"add 0", "add 1", "add 2", "add 0,1", "add 1,1", "add 2,0,2", "rem 0", "rem 1", "rem 2", "rem 0,1", "rem -", "clear",
		"set c0", "set c1", "set c2", "req GET"}
	exhaustive := 0
	heads := []string{}
	for _, fail := range []string{"-", "0", "1"} {
		for _, nw := range []string{"c0:-", "c1:0,1", "c2:1,0,1"} {
			heads = append(heads, "clients=s0,n,s2 fail="+fail+" new="+nw+": ")
		}
	}
	if tier != "thorough" {
		heads = []string{heads[0], heads[4], heads[8], heads[1], heads[5]}
	}
	var rec func(prefix []string)
	rec = func(prefix []string) {
		if len(prefix) > 0 {
			for _, h := range heads {
				emit(h + strings.Join(prefix, " ; ") + " ; req " + c18Verbs[(exhaustive+len(prefix))%len(c18Verbs)])
				exhaustive++
			}
		}
		if len(prefix) == maxLen {
			return
		}
		for _, a := range alphabet {
			rec(append(append([]string{}, prefix...), a))
		}
	}
	rec(nil)
	// 2. directed: every verb x failing position over a 4-interceptor chain; SetHTTPClient 0..3 times with the same / fresh clients
	for _, v := range c18Verbs {
		for fail := -1; fail < 4; fail++ {
			f := "-"
			if fail >= 0 {
				f = strconv.Itoa(fail)
			}
			for _, sets := range []string{"", "set c0 ; ", "set c0 ; set c0 ; ", "set c1 ; set c0 ; set c1 ; ", "set c2 ; set c3 ; set c2 ; ", "set c3 ; set c3 ; set c0 ; "} {
				emit("clients=s0,n,d,s0 fail=" + f + " new=c0:0,1,2,3: " + sets + "req " + v + " ; req " + v)
			}
		}
	}
	// 3. random histories: <= 6 bookkeeping ops, 0..6 interceptors (duplicates), 0..3 SetHTTPClient, requests interleaved
	stats := map[string]int{}
	for i := 0; i < nRandom; i++ {
		nClients := 1 + rng.Intn(4)
		cl := make([]string, nClients)
		for k := range cl {
			cl[k] = []string{"n", "d", "s0", "s1", "s" + strconv.Itoa(k)}[rng.Intn(5)]
		}
		ids := func(max int) string {
			n := rng.Intn(max + 1)
			if n == 0 {
				return "-"
			}
			p := make([]string, n)
			for k := range p {
				p[k] = strconv.Itoa(rng.Intn(6))
			}
			return strings.Join(p, ",")
		}
		fail := "-"
		if rng.Intn(3) > 0 {
			fail = ids(2)
		}
		head := "clients=" + strings.Join(cl, ",") + " fail=" + fail + " new=c" + strconv.Itoa(rng.Intn(nClients)) + ":" + ids(6) + ": "
		var ops []string
		book, sets := 0, 0
		for n := 1 + rng.Intn(12); n > 0; n-- {
			r := rng.Intn(100)
			switch {
			case r < 25 && book < 6:
				ops = append(ops, "add "+ids(3))
				book++
				stats["add"]++
			case r < 42 && book < 6:
				ops = append(ops, "rem "+ids(2))
				book++
				stats["rem"]++
			case r < 47 && book < 6:
				ops = append(ops, "clear")
				book++
				stats["clear"]++
			case r < 60 && sets < 3:
				ops = append(ops, "set c"+strconv.Itoa(rng.Intn(nClients)))
				sets++
				stats["set"]++
			default:
				v := c18Verbs[rng.Intn(len(c18Verbs))]
				ops = append(ops, "req "+v)
				stats["req."+v]++
			}
		}
		ops = append(ops, "req "+c18Verbs[rng.Intn(len(c18Verbs))])
		emit(head + strings.Join(ops, " ; "))
	}
	return map[string]interface{}{"exhaustive": false,
		"exhaustive_scope": fmt.Sprintf("all histories of length 1..%d over %d ops (add/rem with duplicates, clear, set, req) x %d initial configurations, each followed by a request", maxLen, len(alphabet), len(heads)),
		"exhaustive_cases": exhaustive, "directed_cases": len(c18Verbs) * 5 * 6, "random_cases": nRandom, "random_op_mix": stats}
}

func init() { register("C18", &Prop{Gen: c18Gen, Run: c18Run, CaseTimeout: 5 * time.Second}) }
