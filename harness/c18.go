package main

// C18 — Interceptors run once each, in order, before the transport; an error aborts.
//
// Case line (see lean/FpgoVerif/Model/C18.lean):
//
//	clients=<n|d|s<k>>,… fail=<ids|-> new=c<k>:<ids|->: op ; op ; …
//	ops: add i,j | rem i,j | rem - | clear | set c<k> | req <GET|HEAD|OPTIONS|DELETE|POST|PUT|PATCH|DO|API|CLIENT>
//
// clients: the *http.Client pool (Transport nil / http.DefaultTransport / stub k; the same stub name = the same
// RoundTripper object); http.DefaultTransport is replaced by a stub for the duration of the case (no network).
// Interceptor i logs "i<i>:<X-Trace values it sees>", adds "X-Trace: <i>", and fails iff i is in fail=.
// Observation of req: the shared call log of that request + "->ok" | "->err<i>" | "->errother" | "->panic"; other ops: nil.

import (
	"context"
	"errors"
	"fmt"
	"io"
	"math/rand"
	"net/http"
	"runtime/debug"
	"strconv"
	"strings"
	"time"

	"github.com/TeaEntityLab/fpGo/v2/network"
)

type c18TempErr struct{ msg string }

func (e *c18TempErr) Error() string   { return e.msg }
func (e *c18TempErr) Temporary() bool { return true }
func (e *c18TempErr) Timeout() bool   { return false }

type c18Stub struct {
	name   string
	log    *[]string
	err    error // non-nil: this transport fails (after logging that it saw the request)
	status int
}

func (s *c18Stub) RoundTrip(r *http.Request) (*http.Response, error) {
	*s.log = append(*s.log, "T"+s.name+":"+strings.Join(r.Header["X-Trace"], "."))
	if s.err != nil {
		return nil, s.err
	}
	hdr := http.Header{}
	if s.status != 200 {
		hdr.Set("Retry-After", "0")
		hdr.Set("Www-Authenticate", "Basic realm=x")
	}
	return &http.Response{StatusCode: s.status, Status: strconv.Itoa(s.status) + " " + http.StatusText(s.status), Proto: "HTTP/1.1", ProtoMajor: 1, ProtoMinor: 1,
		Header: hdr, Body: io.NopCloser(strings.NewReader("{}")), Request: r}, nil
}

func c18Ids(s string) []int {
	if s == "-" || s == "" {
		return nil
	}
	var out []int
	for _, t := range strings.Split(s, ",") {
		if n, err := strconv.Atoi(t); err == nil {
			out = append(out, n)
		}
	}
	return out
}

func c18Run(line string) string {
	head, rest, ok := strings.Cut(line, ": ")
	if !ok {
		return "bad-case"
	}
	cfg := map[string]string{}
	for _, t := range strings.Fields(head) {
		k, v, _ := strings.Cut(t, "=")
		cfg[k] = v
	}
	var log []string
	kind := cfg["kind"]
	status := 200
	if n, err := strconv.Atoi(cfg["st"]); err == nil {
		status = n
	}
	tfail := map[string]bool{}
	if cfg["tfail"] != "-" && cfg["tfail"] != "" {
		for _, n := range strings.Split(cfg["tfail"], ",") {
			tfail[n] = true
		}
	}
	var terrs []error
	mkStub := func(name string) *c18Stub {
		st := &c18Stub{name: name, log: &log, status: status}
		if tfail[name] {
			st.err = c17MakeErr(kind, "transport "+name)
			terrs = append(terrs, st.err)
		}
		return st
	}
	// a chain that re-enters itself recurses without bound: keep Go's fatal stack overflow quick
	defer debug.SetMaxStack(debug.SetMaxStack(32 << 20))
	saved := http.DefaultTransport
	http.DefaultTransport = mkStub("d")
	defer func() { http.DefaultTransport = saved }()

	stubs := map[string]*c18Stub{}
	var clients []*http.Client
	for _, t := range strings.Split(cfg["clients"], ",") {
		switch {
		case t == "n":
			clients = append(clients, &http.Client{})
		case t == "d":
			clients = append(clients, &http.Client{Transport: http.DefaultTransport})
		default:
			if stubs[t] == nil {
				stubs[t] = mkStub(t)
			}
			clients = append(clients, &http.Client{Transport: stubs[t]})
		}
	}
	client := func(s string) *http.Client {
		k, _ := strconv.Atoi(strings.TrimPrefix(s, "c"))
		if k < 0 || k >= len(clients) {
			k = 0
		}
		return clients[k]
	}
	failing := map[int]bool{}
	for _, i := range c18Ids(cfg["fail"]) {
		failing[i] = true
	}
	nestID := -1
	if n, err := strconv.Atoi(cfg["nest"]); err == nil {
		nestID = n
	}
	var current *network.SimpleHTTPDef // the instance the request being issued goes through
	const nIcpt = 8
	icpts := make([]*network.Interceptor, nIcpt)
	errs := make([]error, nIcpt)
	for i := 0; i < nIcpt; i++ {
		i := i
		errs[i] = c17MakeErr(kind, "interceptor "+strconv.Itoa(i))
		if kind == "" && i%2 == 1 {
			// (review R2) without an explicit kind= odd interceptors fail with an error that calls itself temporary: "an error
			// aborts" holds for it as for any other (no second attempt may run the chain again)
			errs[i] = &c18TempErr{fmt.Sprintf("interceptor %d failed (temporary)", i)}
		}
		f := network.Interceptor(func(r *http.Request) error {
			log = append(log, "i"+strconv.Itoa(i)+":"+strings.Join(r.Header["X-Trace"], "."))
			r.Header.Add("X-Trace", strconv.Itoa(i))
			if i == nestID && current != nil && r.URL.Path != "/nested" {
				// (nest=<i>) a request of its own through the SAME SimpleHTTP while the outer one is in flight (a token refresh, say)
				current.Get("http://stub.test/nested")
			}
			if failing[i] {
				return errs[i]
			}
			return nil
		})
		icpts[i] = &f
	}
	ptrs := func(s string) []*network.Interceptor {
		var out []*network.Interceptor
		for _, i := range c18Ids(s) {
			out = append(out, icpts[i%nIcpt])
		}
		return out
	}
	// the caller-owned slice `defaults` (defs=<ids>+<spare capacity>): "D" passes it itself (`defaults...`), so the library sees
	// the caller's backing array
	dids, spareStr, _ := strings.Cut(cfg["defs"], "+")
	spare, _ := strconv.Atoi(spareStr)
	dptrs := ptrs(dids)
	defaults := make([]*network.Interceptor, len(dptrs), len(dptrs)+spare)
	copy(defaults, dptrs)
	type instT struct {
		sh  *network.SimpleHTTPDef
		api *network.SimpleAPIDef
	}
	var insts []*instT
	newInst := func(c, is string) {
		if is == "D" {
			insts = append(insts, &instT{sh: network.NewSimpleHTTPWithClientAndInterceptors(client(c), defaults...)})
		} else {
			insts = append(insts, &instT{sh: network.NewSimpleHTTPWithClientAndInterceptors(client(c), ptrs(is)...)})
		}
	}
	apiFor := func(in *instT) *network.SimpleAPIDef {
		api := in.api
		if api == nil {
			api = network.NewSimpleAPIWithSimpleHTTP("http://stub.test", in.sh)
		}
		api.ResponseDeserializer = func(b []byte, t interface{}) (interface{}, error) { return t, nil }
		return api
	}
	nc, nis, _ := strings.Cut(cfg["new"], ":")
	newInst(nc, nis)
	const url = "http://stub.test/x"

	runOp := func(op string) (out string) {
		defer func() {
			if r := recover(); r != nil && out == "" {
				out = "panic"
			}
		}()
		f := strings.Fields(op)
		switch {
		case len(f) == 3 && f[0] == "inst":
			newInst(f[1], f[2])
			return "nil"
		case len(f) == 1 && f[0] == "instd":
			insts = append(insts, &instT{sh: network.NewSimpleHTTP()}) // its fresh client's nil transport becomes the stubbed http.DefaultTransport
			return "nil"
		case len(f) == 1 && f[0] == "insta":
			api := network.NewSimpleAPI("http://stub.test")
			insts = append(insts, &instT{sh: api.GetSimpleHTTP(), api: api})
			return "nil"
		}
		j := 0
		if len(f) > 0 && strings.HasPrefix(f[0], "@") {
			j, _ = strconv.Atoi(f[0][1:])
			f = f[1:]
		}
		if j < 0 || j >= len(insts) {
			return "noinst"
		}
		in := insts[j]
		sh := in.sh
		switch {
		case len(f) == 1 && f[0] == "addd":
			sh.AddInterceptor(defaults...)
			return "nil"
		case len(f) == 1 && f[0] == "remd":
			sh.RemoveInterceptor(defaults...)
			return "nil"
		case len(f) == 2 && f[0] == "add":
			sh.AddInterceptor(ptrs(f[1])...)
			return "nil"
		case len(f) == 2 && f[0] == "rem":
			sh.RemoveInterceptor(ptrs(f[1])...)
			return "nil"
		case len(f) == 1 && f[0] == "clear":
			sh.ClearInterceptor()
			return "nil"
		case len(f) == 2 && f[0] == "set":
			sh.SetHTTPClient(client(f[1]))
			return "nil"
		case len(f) == 2 && f[0] == "retr":
			// the usual way to change the underlying transport: take the instance's OWN client, replace its Transport, hand it back
			c := sh.GetHTTPClient()
			switch f[1] {
			case "n":
				c.Transport = nil
			case "d":
				c.Transport = http.DefaultTransport
			default:
				if stubs[f[1]] == nil {
					stubs[f[1]] = mkStub(f[1])
				}
				c.Transport = stubs[f[1]]
			}
			sh.SetHTTPClient(c)
			return "nil"
		case len(f) == 2 && f[0] == "req":
			log = log[:0]
			current = sh
			defer func() { current = nil }()
			defer func() {
				if r := recover(); r != nil {
					out = strings.Join(append(append([]string{}, log...), "->panic"), " ")
				}
			}()
			var err error
			var resp *http.Response
			take := func(r *network.ResponseWithError) { resp, err = r.Response, r.Err }
			switch f[1] {
			case "GET":
				take(sh.Get(url))
			case "HEAD":
				take(sh.Head(url))
			case "OPTIONS":
				take(sh.Options(url))
			case "DELETE":
				take(sh.Delete(url))
			case "POST":
				take(sh.Post(url, "text/plain", strings.NewReader("b")))
			case "PUT":
				take(sh.Put(url, "text/plain", strings.NewReader("b")))
			case "PATCH":
				take(sh.Patch(url, "", strings.NewReader("b")))
			case "DO":
				ctx, cancel := sh.GetContextTimeout()
				take(sh.DoNewRequest(ctx, http.Header{"X-Other": {"1"}}, "PURGE", url))
				cancel()
			case "API":
				api := apiFor(in)
				var t c17Target
				r := network.APIMakeGet[c17Target](api, "x")(nil, &t).Eval()
				resp, err = r.Response, r.Err
			case "APIDEL":
				api := apiFor(in)
				var t c17Target
				r := network.APIMakeDelete[c17Target](api, "x/{id}")(network.PathParam{"id": 1}, &t).Eval()
				resp, err = r.Response, r.Err
			case "APIPOST":
				api := apiFor(in)
				var t c17Target
				r := network.APIMakePostJSONBody[*c17Body, c17Target](api, "x")(nil, &c17Body{A: "a"}, &t).Eval()
				resp, err = r.Response, r.Err
			case "CANCELLED":
				// a request whose context is done already: net/http still hands it to the RoundTripper, the chain runs as for any request
				ctx, cancel := context.WithCancel(context.Background())
				cancel()
				take(sh.DoNewRequest(ctx, nil, "GET", url))
			case "EXPIRED":
				saved := sh.TimeoutMillisecond
				sh.TimeoutMillisecond = 1 // (used as nanoseconds by GetContextTimeout: expires at once)
				time.Sleep(20 * time.Microsecond)
				take(sh.Get(url))
				sh.TimeoutMillisecond = saved
			case "CLIENT":
				rq, _ := http.NewRequest("GET", url, nil)
				resp, err = sh.GetHTTPClient().Do(rq)
			default:
				return "bad-op"
			}
			res := "->errother"
			if err == nil && resp != nil && resp.StatusCode == status {
				res = "->ok"
			} else if err != nil {
				for _, e := range terrs {
					if errors.Is(err, e) {
						res = "->terr"
					}
				}
				for i, e := range errs {
					if errors.Is(err, e) {
						res = "->err" + strconv.Itoa(i)
					}
				}
			}
			return strings.Join(append(append([]string{}, log...), res), " ")
		}
		return "bad-op"
	}
	var outs []string
	for _, op := range strings.Split(rest, ";") {
		op = strings.TrimSpace(op)
		if op == "" {
			continue
		}
		outs = append(outs, runOp(op))
	}
	return strings.Join(outs, " | ")
}

var c18Verbs = []string{"GET", "HEAD", "OPTIONS", "DELETE", "POST", "PUT", "PATCH", "DO", "API", "CLIENT", "APIDEL", "APIPOST", "CANCELLED", "EXPIRED"}
var c18Statuses = []string{"200", "200", "201", "204", "304", "401", "404", "429", "500", "503"}

func c18Gen(tier string, rng *rand.Rand, emit func(string)) map[string]interface{} {
	maxLen, nRandom := 3, 8000
	if tier == "thorough" {
		maxLen, nRandom = 4, 100000
	}
	// 1. bounded-exhaustive: every history over a 16-op alphabet up to maxLen, then a request
	alphabet := []string{"add 0", "add 1", "add 2", "add 0,1", "add 1,1", "add 2,0,2", "rem 0", "rem 1", "rem 2", "rem 0,1", "rem -", "clear",
		"set c0", "set c1", "set c2", "req GET", "retr s1", "retr n"}
	exhaustive := 0
	heads := []string{}
	for _, fail := range []string{"-", "0", "1"} {
		for _, nw := range []string{"c0:-", "c1:0,1", "c2:1,0,1"} {
			heads = append(heads, "clients=s0,n,s2 fail="+fail+" new="+nw+": ")
		}
	}
	if tier != "thorough" {
		heads = []string{heads[0], heads[4], heads[8], heads[1], heads[5]}
	}
	var rec func(prefix []string)
	rec = func(prefix []string) {
		if len(prefix) > 0 {
			for _, h := range heads {
				extra := "kind=" + c17ErrKinds[(exhaustive/3)%len(c17ErrKinds)] + " st=" + c18Statuses[(exhaustive/7)%len(c18Statuses)] + " tfail=- "
				emit(extra + h + strings.Join(prefix, " ; ") + " ; req " + c18Verbs[(exhaustive+len(prefix))%len(c18Verbs)])
				exhaustive++
			}
		}
		if len(prefix) == maxLen {
			return
		}
		for _, a := range alphabet {
			rec(append(append([]string{}, prefix...), a))
		}
	}
	rec(nil)
	// 2. directed: every verb (body-less and body-carrying, direct and through SimpleAPI) x failing position over a 4-interceptor chain
	// (none / interceptor 0..3 / the transport itself) x every error KIND (plain, net.Error Temporary/Timeout, wrapped,
	// context.DeadlineExceeded, ECONNRESET / ETIMEDOUT in *net.OpError, *url.Error) x SetHTTPClient 0..3 times; each request twice
	directed := 0
	for _, v := range c18Verbs {
		for fail := -1; fail < 5; fail++ {
			f, tf := "-", "-"
			if fail >= 0 && fail < 4 {
				f = strconv.Itoa(fail)
			} else if fail == 4 {
				tf = "s0,d"
			}
			for ki, kind := range c17ErrKinds {
				if fail < 0 && ki > 0 {
					continue
				}
				for si, sets := range []string{"", "set c0 ; ", "set c0 ; set c0 ; ", "set c1 ; set c0 ; set c1 ; ", "set c2 ; set c3 ; set c2 ; ", "set c3 ; set c3 ; set c0 ; ",
					"retr s5 ; ", "retr s5 ; retr s5 ; retr d ; ", "set c1 ; retr n ; set c1 ; retr s0 ; "} {
					if ki > 0 && si != ki%9 && si != 0 {
						continue
					}
					emit("clients=s0,n,d,s0 fail=" + f + " kind=" + kind + " tfail=" + tf + " st=" + c18Statuses[(directed)%len(c18Statuses)] + " new=c0:0,1,2,3: " + sets + "req " + v + " ; req " + v)
					directed++
					if si == 0 {
						// the same with interceptor 0 / 2 / 3 issuing a request of its own through the same instance (overlapping requests)
						emit("clients=s0,n,d,s0 nest=" + strconv.Itoa([]int{0, 2, 3}[directed%3]) + " fail=" + f + " kind=" + kind + " tfail=" + tf + " st=200 new=c0:0,1,2,3: req " + v + " ; rem 1 ; req " + v)
						directed++
					}
				}
			}
		}
	}
	// 2b. the caller's slice: instance 0 is built from `defaults...` (1 or 2 interceptors, 0 / 2 / 5 spare capacity); every history of
	// length <= 3 over 10 ops, then: request, re-register `defaults`, request, build a SECOND instance from `defaults`, request through
	// it, re-register there, request again.  No operation may change what the caller's slice holds.
	dAlphabet := []string{"clear", "add 3", "add 0,3", "add 3,3,3", "rem 1", "rem 2", "addd", "remd", "req GET", "set c0"}
	dSuffix := " ; req GET ; addd ; req POST ; inst c1 D ; @1 req GET ; @1 addd ; @1 req API ; req HEAD"
	nDefaults := 0
	dMax := 3
	if tier != "thorough" {
		dMax = 2
	}
	var drec func(prefix []string)
	drec = func(prefix []string) {
		if len(prefix) > 0 {
			for _, defs := range []string{"1,2+0", "1,2+2", "1+5", "1,2,1+1"} {
				emit("clients=s0,s1 fail=- kind=plain tfail=- st=200 defs=" + defs + " new=c0:D: " + strings.Join(prefix, " ; ") + dSuffix)
				nDefaults++
			}
		}
		if len(prefix) == dMax {
			return
		}
		for _, a := range dAlphabet {
			drec(append(append([]string{}, prefix...), a))
		}
	}
	drec(nil)
	// directed three-step histories that matter most (Clear then Add reuses storage; Remove then Add; Add beyond the spare capacity)
	for _, h := range []string{"clear ; add 3", "clear ; add 3,4 ; add 5", "rem 1 ; add 3", "rem 2 ; add 3 ; add 4", "add 3 ; clear ; add 4,5,6",
		"clear ; addd ; add 7", "remd ; add 3,4", "add 3 ; add 4 ; add 5 ; clear ; add 6"} {
		for _, defs := range []string{"1,2+0", "1,2+2", "1,2,4+3"} {
			emit("clients=s0,s1,s2 fail=- kind=plain tfail=- st=200 defs=" + defs + " new=c0:D: " + h + dSuffix + " ; inst c2 D ; @2 req GET")
			nDefaults++
		}
	}
	// 2c. several live instances, created with NewSimpleHTTP() / NewSimpleAPI(url) (each has its own fresh http.Client) or with the
	// WithClient constructor on distinct clients, each holding its own interceptors: a request through one of them runs only its own.
	nMulti := 0
	ctorsM := []string{"instd", "insta", "inst c1 5"}
	for _, a := range ctorsM {
		for _, b := range ctorsM {
			for _, c := range []string{"", "instd", "insta"} {
				for vi, v := range c18Verbs {
					if (nMulti+vi)%3 != 0 && tier != "thorough" {
						continue
					}
					b2 := b
					if a == "inst c1 5" && b == "inst c1 5" {
						b2 = "inst c2 6"
					} else if b == "inst c1 5" {
						b2 = "inst c2 5"
					}
					ops := []string{a, b2}
					if c != "" {
						ops = append(ops, c)
					}
					ops = append(ops, "@1 add 1", "@2 add 2,3", "add 0", "req "+v, "@1 req "+v, "@2 req "+v)
					if c != "" {
						ops = append(ops, "@3 add 4", "@3 req "+v, "@1 req "+v)
					}
					ops = append(ops, "@1 clear", "@2 rem 2", "@1 req "+v, "@2 req "+v, "req "+v)
					for _, fail := range []string{"-", "2", "1,0"} {
						emit("clients=s0,s1,s2 fail=" + fail + " kind=" + c17ErrKinds[nMulti%len(c17ErrKinds)] + " tfail=- st=200 defs=-+0 new=c0:-: " + strings.Join(ops, " ; "))
						nMulti++
					}
				}
			}
		}
	}
	// 2d. two and three instances built with the WithClient constructor on the SAME client object: each joins the chain in front of the
	// earlier ones (share=1: the model chains them); own interceptors per instance, bookkeeping on each, requests through each
	nShare := 0
	for _, cl := range []string{"s0", "n", "d"} {
		for _, third := range []string{"", "inst c0 4,5"} {
			for _, fail := range []string{"-", "0", "2", "5", "3,1"} {
				for vi, v := range c18Verbs {
					if (nShare+vi)%2 != 0 && tier != "thorough" {
						continue
					}
					ops := []string{"req " + v, "inst c0 2,3", "@1 req " + v, "req " + v}
					last := 1
					if third != "" {
						ops = append(ops, third, "@2 req "+v)
						last = 2
					}
					ops = append(ops, "@1 add 6", "rem 1", "@"+strconv.Itoa(last)+" req "+v, "@1 clear", "@1 req "+v, "req "+v, "@"+strconv.Itoa(last)+" clear", "clear", "@1 req "+v)
					emit("share=1 clients=" + cl + " fail=" + fail + " kind=" + c17ErrKinds[nShare%len(c17ErrKinds)] + " tfail=- st=200 defs=-+0 new=c0:0,1: " + strings.Join(ops, " ; "))
					nShare++
				}
			}
		}
	}
	// 3. random histories: <= 6 bookkeeping ops, 0..6 interceptors (duplicates), 0..3 SetHTTPClient, requests interleaved
	stats := map[string]int{}
	for i := 0; i < nRandom; i++ {
		nClients := 1 + rng.Intn(4)
		cl := make([]string, nClients)
		for k := range cl {
			cl[k] = []string{"n", "d", "s0", "s1", "s" + strconv.Itoa(k)}[rng.Intn(5)]
		}
		ids := func(max int) string {
			n := rng.Intn(max + 1)
			if n == 0 {
				return "-"
			}
			p := make([]string, n)
			for k := range p {
				p[k] = strconv.Itoa(rng.Intn(6))
			}
			return strings.Join(p, ",")
		}
		fail := "-"
		if rng.Intn(3) > 0 {
			fail = ids(2)
		}
		tf := "-"
		if rng.Intn(3) == 0 {
			tf = []string{"d", "s0", "s1", "d,s0,s1,s2,s3", "s0,s1"}[rng.Intn(5)]
		}
		multi := rng.Intn(3) == 0
		defs := ids(3) + "+" + strconv.Itoa(rng.Intn(4))
		newSpec := "c" + strconv.Itoa(rng.Intn(nClients)) + ":" + ids(6)
		if multi {
			newSpec = "c0:" + ids(4)
		}
		if rng.Intn(4) == 0 {
			newSpec = newSpec[:strings.Index(newSpec, ":")+1] + "D"
		}
		nInst := 1
		instClient := []int{0} // the pool client an instance owns (-1: its own fresh client)
		nestTok := ""
		if rng.Intn(5) == 0 {
			nestTok = " nest=" + strconv.Itoa(rng.Intn(6))
		}
		head := "clients=" + strings.Join(cl, ",") + nestTok + " fail=" + fail + " defs=" + defs + " kind=" + c17ErrKinds[rng.Intn(len(c17ErrKinds))] + " tfail=" + tf +
			" st=" + c18Statuses[rng.Intn(len(c18Statuses))] + " new=" + newSpec + ": "
		var ops []string
		book, sets := 0, 0
		for n := 1 + rng.Intn(12); n > 0; n-- {
			r := rng.Intn(100)
			at := ""
			j := 0
			if multi {
				if nInst < 3 && rng.Intn(4) == 0 {
					switch k := rng.Intn(3); {
					case k == 0 && nInst < nClients:
						is := ids(3)
						if rng.Intn(3) == 0 {
							is = "D"
						}
						ops = append(ops, "inst c"+strconv.Itoa(nInst)+" "+is)
						instClient = append(instClient, nInst)
					case k == 1:
						ops = append(ops, "instd")
						instClient = append(instClient, -1)
					default:
						ops = append(ops, "insta")
						instClient = append(instClient, -1)
					}
					nInst = len(instClient)
					stats["inst"]++
					continue
				}
				j = rng.Intn(nInst)
				if j > 0 {
					at = "@" + strconv.Itoa(j) + " "
				}
			}
			switch {
			case r >= 96 && sets < 3:
				ops = append(ops, at+"retr "+[]string{"n", "d", "s0", "s1", "s9"}[rng.Intn(5)])
				sets++
				stats["retr"]++
			case r < 8 && book < 6:
				ops = append(ops, at+[]string{"addd", "remd"}[rng.Intn(2)])
				book++
				stats["addd/remd"]++
			case multi && r >= 47 && r < 60:
				if instClient[j] >= 0 && sets < 3 {
					ops = append(ops, at+"set c"+strconv.Itoa(instClient[j]))
					sets++
					stats["set"]++
				}
			case r < 25 && book < 6:
				ops = append(ops, at+"add "+ids(3))
				book++
				stats["add"]++
			case r < 42 && book < 6:
				ops = append(ops, at+"rem "+ids(2))
				book++
				stats["rem"]++
			case r < 47 && book < 6:
				ops = append(ops, at+"clear")
				book++
				stats["clear"]++
			case r < 60 && sets < 3 && !multi:
				ops = append(ops, "set c"+strconv.Itoa(rng.Intn(nClients)))
				sets++
				stats["set"]++
			default:
				v := c18Verbs[rng.Intn(len(c18Verbs))]
				ops = append(ops, at+"req "+v)
				stats["req."+v]++
			}
		}
		ops = append(ops, "req "+c18Verbs[rng.Intn(len(c18Verbs))])
		emit(head + strings.Join(ops, " ; "))
	}
	return map[string]interface{}{"exhaustive": false,
		"exhaustive_scope": fmt.Sprintf("all histories of length 1..%d over %d ops (add/rem with duplicates, clear, set, req) x %d initial configurations, each followed by a request", maxLen, len(alphabet), len(heads)),
		"exhaustive_cases": exhaustive, "directed_cases": directed, "caller_slice_cases": nDefaults, "multi_instance_cases": nMulti, "shared_client_cases": nShare, "error_kinds": c17ErrKinds, "status_codes": c18Statuses, "random_cases": nRandom, "random_op_mix": stats}
}

func init() { register("C18", &Prop{Gen: c18Gen, Run: c18Run, CaseTimeout: 5 * time.Second}) }
