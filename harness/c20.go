package main

// C20 — combinators (Compose/Pipe, CurryParam*/MakeVariadic*, Trampoline, CurryDef) and pattern matching
// (MatchFor/Either, the five pattern kinds, Sum/Product/Nil types, NewCompData) of fp.go against the Lean
// model lean/FpgoVerif/Model/C20*.lean.  Case grammar (identical on the Lean side, Model/C20.lean):
//
//	cp <C|CI|P|PI> <ints>: f ; f ; …            Compose / ComposeInterface / Pipe / PipeInterface
//	cg <C|P> <k> <ints>: f ; f ; …              regrouped at k: X(X(fs[:k]...), X(fs[k:]...))
//	ru <steps> <ints>: f ; f ; …                ONE slice fs reused by the steps C P I J g<k> h<k> x (comma separated)
//	rr <steps> <ints A> <ints B>: f ; f ; …     every built function: run on A, keep the result, run on B, re-read result A, …
//	ad <adapter> <bound ints>: <ints>           one adapter call
//	tr <kd> <ke> <mode>: <ints>                 Trampoline with the step family
//	cu <G|I> <n>: c:<ints> ; d ; r ; i ; …      CurryDef script (Call / MarkDone / Result / IsDone)
//	cw <G|I> <n>: b:<cap>:<ints> ; A ; B:<ints> ; w:<i>:<v> ; v ; rA ; …   two CurryDefs, ONE caller buffer spread into Calls
//	cs <g> <m> <a> <n> <y>                      concurrent Call stress, checked by a monitor
//	m <probe>: pat ; pat ; …   e <probe>: …     MatchFor / Either
//	nd <ct> <objs>   tm <ct> <objs>   mc <ct> <ct> <objs>
//
// ints: comma separated, "-" = none.  Functions: a<m>.<i> (x -> m*x+i elementwise), r (reverse), t (tail),
// nl (nil slice), em (empty slice), fg<k> (filter > k, nil if none), ct (count), cn<c> (constant),
// p<k> (prepend k), s (sum), d (duplicate), v1 v2 v3 (MakeVariadicParamN), w2 (MakeVariadicReturn2),
// c1.<k> (CurryParam1), n<k> (MakeNumericReturnForVariadicParamReturnBool1).
// Values: nil b:0|1 i:<kind>:<v> f:<kind>:h<n>|nan|nz s:<txt> ns:<txt> np:<ty> st:<ty>:<p> p:<ty>:<addr>
// sl:n|sl:<a+b+…> mp:n|mp:e  c/<ct>/<objs>  cp:<addr>/<ct>/<objs>.   Types (Polish, "."): N  P.<n>.<kind>…  S.<n>.<t>…
// Patterns: K:<kind> E:<value> R:<lit:x|pre:x|suf:x|full:x|dig|any|bad> T:<ct> O.

import (
	"fmt"
	"math"
	"reflect"
	"runtime"
	"sort"
	"strconv"
	"strings"
	"sync"
	"sync/atomic"
	"time"
	"unsafe"

	fpgo "github.com/TeaEntityLab/fpGo/v2"
)

// ---------------------------------------------------------------------------------------------
// helpers

func c20ParseInts(s string) []int {
	s = strings.TrimSpace(s)
	if s == "-" || s == "" {
		return []int{}
	}
	parts := strings.Split(s, ",")
	out := make([]int, len(parts))
	for i, p := range parts {
		out[i], _ = strconv.Atoi(p)
	}
	return out
}

func c20ShowInts(l []int) string {
	if len(l) == 0 {
		return "-"
	}
	parts := make([]string, len(l))
	for i, v := range l {
		parts[i] = strconv.Itoa(v)
	}
	return strings.Join(parts, ",")
}

func c20Toks(body string) []string {
	var out []string
	for _, t := range strings.Split(body, " ; ") {
		t = strings.TrimSpace(t)
		if t != "" && t != "-" {
			out = append(out, t)
		}
	}
	return out
}

func c20SplitCase(line string) ([]string, string) {
	i := strings.Index(line, ": ")
	if i < 0 {
		return strings.Fields(line), ""
	}
	return strings.Fields(line[:i]), line[i+2:]
}

func c20Atoi(s string, def int) int {
	v, err := strconv.Atoi(s)
	if err != nil {
		return def
	}
	return v
}

// ---------------------------------------------------------------------------------------------
// function family

func c20Sum(s []int) int {
	t := 0
	for _, v := range s {
		t += v
	}
	return t
}

func c20Fn(tok string) func(...int) []int {
	switch {
	// stages that yield nothing: a nil slice, an empty non-nil slice, a filter written with `var out []int` that is
	// nil when nothing matches; and stages that produce a value from zero arguments (count, constant)
	case tok == "nl":
		return func(s ...int) []int { return nil }
	case tok == "em":
		return func(s ...int) []int { return []int{} }
	case tok == "ct":
		return func(s ...int) []int { return []int{len(s)} }
	case strings.HasPrefix(tok, "cn"):
		c := c20Atoi(tok[2:], 0)
		return func(s ...int) []int { return []int{c} }
	case strings.HasPrefix(tok, "fg"):
		k := c20Atoi(tok[2:], 0)
		return func(s ...int) []int {
			var out []int
			for _, x := range s {
				if x > k {
					out = append(out, x)
				}
			}
			return out
		}
	// pass-through stages: they hand back the very slice they were given (sorted in place) or a view of it
	case tok == "id":
		return func(s ...int) []int { return s }
	case tok == "so":
		return func(s ...int) []int { sort.Ints(s); return s }
	case tok == "sd":
		return func(s ...int) []int { sort.Sort(sort.Reverse(sort.IntSlice(s))); return s }
	case strings.HasPrefix(tok, "tk"):
		k := c20Atoi(tok[2:], 0)
		return func(s ...int) []int {
			if k > len(s) {
				return s
			}
			return s[:k]
		}
	case strings.HasPrefix(tok, "dk"):
		k := c20Atoi(tok[2:], 0)
		return func(s ...int) []int {
			if k > len(s) {
				return s[len(s):]
			}
			return s[k:]
		}
	case tok == "r":
		return func(s ...int) []int {
			out := make([]int, len(s))
			for i, v := range s {
				out[len(s)-1-i] = v
			}
			return out
		}
	case tok == "t":
		return func(s ...int) []int {
			if len(s) == 0 {
				return []int{}
			}
			return append([]int{}, s[1:]...)
		}
	case tok == "s":
		return func(s ...int) []int { return []int{c20Sum(s)} }
	case tok == "d":
		return func(s ...int) []int { return append(append([]int{}, s...), s...) }
	case tok == "v1":
		return fpgo.MakeVariadicParam1(func(a int) []int { return []int{3*a + 1} })
	case tok == "v2":
		return fpgo.MakeVariadicParam2(func(a, b int) []int { return []int{a - b, 2*a + b} })
	case tok == "v3":
		return fpgo.MakeVariadicParam3(func(a, b, c int) []int { return []int{c, a, b} })
	case tok == "w2":
		return fpgo.MakeVariadicReturn2(func(s ...int) (int, int) { return c20Sum(s), len(s) })
	case strings.HasPrefix(tok, "a"):
		parts := strings.Split(tok[1:], ".")
		if len(parts) != 2 {
			break
		}
		m, i := c20Atoi(parts[0], 1), c20Atoi(parts[1], 0)
		return func(s ...int) []int {
			out := make([]int, len(s))
			for j, x := range s {
				out[j] = m*x + i
			}
			return out
		}
	case strings.HasPrefix(tok, "p"):
		k := c20Atoi(tok[1:], 0)
		return func(s ...int) []int { return append([]int{k}, s...) }
	case strings.HasPrefix(tok, "c1."):
		k := c20Atoi(tok[3:], 0)
		return fpgo.CurryParam1(func(a int, rest ...int) []int {
			out := make([]int, 0, len(rest)+1)
			for _, x := range rest {
				out = append(out, x+a)
			}
			return append(out, a)
		}, k)
	case strings.HasPrefix(tok, "n"):
		k := c20Atoi(tok[1:], 0)
		return fpgo.MakeNumericReturnForVariadicParamReturnBool1[int, int](func(s ...int) bool { return c20Sum(s) > k })
	}
	return func(...int) []int { panic("bad function token") }
}

func c20Box(f func(...int) []int) func(...interface{}) []interface{} {
	return func(args ...interface{}) []interface{} {
		in := make([]int, len(args))
		for i, a := range args {
			in[i] = a.(int)
		}
		out := f(in...)
		if out == nil {
			return nil // a stage that yields a nil slice yields a nil slice in its boxed form too
		}
		res := make([]interface{}, len(out))
		for i, v := range out {
			res[i] = v
		}
		return res
	}
}

// c20FnBoxed: the interface{} twin of c20Fn; the pass-through stages work on the []interface{} they are given
func c20FnBoxed(tok string) func(...interface{}) []interface{} {
	less := func(s []interface{}, desc bool) func(i, j int) bool {
		return func(i, j int) bool {
			if desc {
				return s[i].(int) > s[j].(int)
			}
			return s[i].(int) < s[j].(int)
		}
	}
	switch {
	case tok == "id":
		return func(s ...interface{}) []interface{} { return s }
	case tok == "so":
		return func(s ...interface{}) []interface{} { sort.SliceStable(s, less(s, false)); return s }
	case tok == "sd":
		return func(s ...interface{}) []interface{} { sort.SliceStable(s, less(s, true)); return s }
	case strings.HasPrefix(tok, "tk"):
		k := c20Atoi(tok[2:], 0)
		return func(s ...interface{}) []interface{} {
			if k > len(s) {
				return s
			}
			return s[:k]
		}
	case strings.HasPrefix(tok, "dk"):
		k := c20Atoi(tok[2:], 0)
		return func(s ...interface{}) []interface{} {
			if k > len(s) {
				return s[len(s):]
			}
			return s[k:]
		}
	}
	return c20Box(c20Fn(tok))
}

// c20RunRR: every built function (steps as in `ru`) is invoked on a fresh copy of input A, the RESULT SLICE is kept,
// then on a fresh copy of B; result A is read again, the function is invoked a third time (on A) and result B is read
// again.  The stages may hand back the slice they were given, so a composed function that recycles an internal
// argument/result buffer between invocations rewrites the kept results.
func c20RunRR(script string, inA, inB []int, toks []string) string {
	fs := make([]func(...int) []int, len(toks))
	bs := make([]func(...interface{}) []interface{}, len(toks))
	for i, t := range toks {
		fs[i] = c20Fn(t)
		bs[i] = c20FnBoxed(t)
	}
	type inv struct {
		run  func(in []int) // invokes and keeps the result slice
		read func() string  // renders the kept result slice as it is now
	}
	mkInt := func(f func(...int) []int) func() inv {
		return func() inv {
			var kept []int
			panicked := false
			return inv{run: func(in []int) {
				defer func() {
					if r := recover(); r != nil {
						panicked = true
					}
				}()
				kept = f(append([]int{}, in...)...)
			}, read: func() string {
				if panicked {
					return "panic"
				}
				return "ok " + c20ShowInts(kept)
			}}
		}
	}
	mkBoxed := func(f func(...interface{}) []interface{}) func() inv {
		return func() inv {
			var kept []interface{}
			panicked := false
			return inv{run: func(in []int) {
				defer func() {
					if r := recover(); r != nil {
						panicked = true
					}
				}()
				arg := make([]interface{}, len(in))
				for i, v := range in {
					arg[i] = v
				}
				kept = f(arg...)
			}, read: func() string {
				if panicked {
					return "panic"
				}
				out := make([]int, len(kept))
				for i, v := range kept {
					out[i], _ = v.(int)
				}
				return "ok " + c20ShowInts(out)
			}}
		}
	}
	var outs []string
	for _, tok := range strings.Split(script, ",") {
		var mk func() inv
		switch {
		case tok == "C":
			mk = mkInt(fpgo.Compose(fs...))
		case tok == "P":
			mk = mkInt(fpgo.Pipe(fs...))
		case tok == "I":
			mk = mkBoxed(fpgo.ComposeInterface(bs...))
		case tok == "J":
			mk = mkBoxed(fpgo.PipeInterface(bs...))
		case strings.HasPrefix(tok, "g"), strings.HasPrefix(tok, "h"):
			k := c20Atoi(tok[1:], 0)
			comb := fpgo.Compose[int]
			if tok[0] == 'h' {
				comb = fpgo.Pipe[int]
			}
			if 0 < k && k < len(fs) {
				mk = mkInt(comb(comb(fs[:k]...), comb(fs[k:]...)))
			} else {
				mk = mkInt(comb(fs...))
			}
		default:
			continue
		}
		first, second, third := mk(), mk(), mk()
		first.run(inA)
		ra := first.read()
		second.run(inB)
		rb := second.read()
		ra2 := first.read() // result A after the invocation on B
		third.run(inA)
		rb2 := second.read() // result B after a third invocation
		outs = append(outs, strings.Join([]string{ra, rb, ra2, rb2}, " > "))
	}
	return strings.Join(outs, " | ")
}

func c20BoxAll(fs []func(...int) []int) []func(...interface{}) []interface{} {
	out := make([]func(...interface{}) []interface{}, len(fs))
	for i, f := range fs {
		out[i] = c20Box(f)
	}
	return out
}

func c20CallBoxed(f func(...interface{}) []interface{}, input []int) []int {
	in := make([]interface{}, len(input))
	for i, v := range input {
		in[i] = v
	}
	res := f(in...)
	out := make([]int, len(res))
	for i, v := range res {
		out[i] = v.(int)
	}
	return out
}

func c20SameInts(a, b []int) bool {
	if len(a) != len(b) {
		return false
	}
	for i := range a {
		if a[i] != b[i] {
			return false
		}
	}
	return true
}

// The function list is held in ONE slice that is spread into the combinator (`X(fs...)`), as a caller would do.  The
// composition is built and run, then built a second time from the same slice and run, then the first composition is run
// again: the three results must agree (the functions are pure) — a combinator that reorders, truncates or otherwise
// edits its caller's slice is right the first time only.  Deviations are appended to the observation
// (`again=… rerun=…`), which the model never prints.
func c20RunCP(variant string, input []int, fs []func(...int) []int) string {
	var build func() func(...int) []int
	switch variant {
	case "C":
		build = func() func(...int) []int { return fpgo.Compose(fs...) }
	case "P":
		build = func() func(...int) []int { return fpgo.Pipe(fs...) }
	case "CI", "PI":
		bfs := c20BoxAll(fs)
		build = func() func(...int) []int {
			var f func(...interface{}) []interface{}
			if variant == "CI" {
				f = fpgo.ComposeInterface(bfs...)
			} else {
				f = fpgo.PipeInterface(bfs...)
			}
			return func(in ...int) []int { return c20CallBoxed(f, in) }
		}
	default:
		return "bad-case"
	}
	first := build()
	out := first(input...)
	res := "ok " + c20ShowInts(out)
	again := build()(input...)
	rerun := first(input...)
	if !c20SameInts(again, out) || !c20SameInts(rerun, out) {
		res += " again=" + c20ShowInts(again) + " rerun=" + c20ShowInts(rerun)
	}
	// the other direction built from the same slice afterwards: Compose(fs) = Pipe(reverse(fs)) on a private reversed copy
	if variant == "C" || variant == "P" {
		rev := make([]func(...int) []int, len(fs))
		for i, f := range fs {
			rev[len(fs)-1-i] = f
		}
		var other, otherRev []int
		if variant == "C" {
			other, otherRev = fpgo.Pipe(rev...)(input...), fpgo.Compose(fs...)(input...)
		} else {
			other, otherRev = fpgo.Compose(rev...)(input...), fpgo.Pipe(fs...)(input...)
		}
		if !c20SameInts(other, out) || !c20SameInts(otherRev, out) {
			res += " reversed=" + c20ShowInts(other) + " third=" + c20ShowInts(otherRev)
		}
	}
	return res
}

func c20RunCG(variant string, k int, input []int, fs []func(...int) []int) string {
	if !(0 < k && k < len(fs)) {
		return c20RunCP(variant, input, fs)
	}
	a, b := fs[:k], fs[k:]
	build := func() func(...int) []int {
		if variant == "C" {
			return fpgo.Compose(fpgo.Compose(a...), fpgo.Compose(b...))
		}
		return fpgo.Pipe(fpgo.Pipe(a...), fpgo.Pipe(b...))
	}
	if variant != "C" && variant != "P" {
		return "bad-case"
	}
	first := build()
	out := first(input...)
	res := "ok " + c20ShowInts(out)
	// the regrouping and the flat composition, both built again from the same slice (sub-slices share its array)
	again := build()(input...)
	var flat []int
	if variant == "C" {
		flat = fpgo.Compose(fs...)(input...)
	} else {
		flat = fpgo.Pipe(fs...)(input...)
	}
	rerun := first(input...)
	if !c20SameInts(again, out) || !c20SameInts(flat, out) || !c20SameInts(rerun, out) {
		res += " again=" + c20ShowInts(again) + " flat=" + c20ShowInts(flat) + " rerun=" + c20ShowInts(rerun)
	}
	return res
}

// c20RunRU: one caller-owned slice fs (and its boxed twin bs), built once, spread into several combinator
// calls (steps C P I J, g<k>/h<k> = regrouped over the sub-slices fs[:k], fs[k:], x = run everything built so
// far); at the end every built function is run twice, then every element of fs and of bs is applied alone, so
// a combinator that rearranges or overwrites the caller's slice is visible.
func c20RunRU(script string, input []int, fs []func(...int) []int) string {
	bs := c20BoxAll(fs)
	var built []func() string
	runOne := func(f func() []int) func() string {
		return func() (out string) {
			defer func() {
				if r := recover(); r != nil {
					out = "panic"
				}
			}()
			return "ok " + c20ShowInts(f())
		}
	}
	seg := func(fns []func() string) string {
		parts := make([]string, len(fns))
		for i, f := range fns {
			parts[i] = f()
		}
		return strings.Join(parts, " | ")
	}
	var segs []string
	for _, tok := range strings.Split(script, ",") {
		switch {
		case tok == "C":
			f := fpgo.Compose(fs...)
			built = append(built, runOne(func() []int { return f(input...) }))
		case tok == "P":
			f := fpgo.Pipe(fs...)
			built = append(built, runOne(func() []int { return f(input...) }))
		case tok == "I":
			f := fpgo.ComposeInterface(bs...)
			built = append(built, runOne(func() []int { return c20CallBoxed(f, input) }))
		case tok == "J":
			f := fpgo.PipeInterface(bs...)
			built = append(built, runOne(func() []int { return c20CallBoxed(f, input) }))
		case strings.HasPrefix(tok, "g"), strings.HasPrefix(tok, "h"):
			k := c20Atoi(tok[1:], 0)
			comb := fpgo.Compose[int]
			if tok[0] == 'h' {
				comb = fpgo.Pipe[int]
			}
			var f func(...int) []int
			if 0 < k && k < len(fs) {
				f = comb(comb(fs[:k]...), comb(fs[k:]...))
			} else {
				f = comb(fs...)
			}
			built = append(built, runOne(func() []int { return f(input...) }))
		case tok == "x":
			segs = append(segs, seg(built))
		}
	}
	segs = append(segs, seg(built), seg(built))
	own := make([]func() string, len(fs))
	for i := range fs {
		i := i
		own[i] = runOne(func() []int { return fs[i](input...) })
	}
	segs = append(segs, seg(own))
	ownB := make([]func() string, len(bs))
	for i := range bs {
		i := i
		ownB[i] = runOne(func() []int { return c20CallBoxed(bs[i], input) })
	}
	segs = append(segs, seg(ownB))
	return strings.Join(segs, " # ")
}

// ---------------------------------------------------------------------------------------------
// adapters

func c20Wsum(args []int) int {
	t := 0
	for i, x := range args {
		t += (i + 1) * x
	}
	return t
}

func c20Rj(j int, args []int) int { return 1000*j + c20Wsum(args) }

func c20RunAdapter(name string, b []int, args []int) string {
	g := func(i int) int {
		if i < len(b) {
			return b[i]
		}
		return 0
	}
	rec := func(bound []int, rest []int) []int {
		return append(append(append([]int{}, bound...), -1), rest...)
	}
	var out []int
	switch name {
	case "vp1":
		out = fpgo.MakeVariadicParam1(func(a0 int) []int { return []int{a0} })(args...)
	case "vp2":
		out = fpgo.MakeVariadicParam2(func(a0, a1 int) []int { return []int{a0, a1} })(args...)
	case "vp3":
		out = fpgo.MakeVariadicParam3(func(a0, a1, a2 int) []int { return []int{a0, a1, a2} })(args...)
	case "vp4":
		out = fpgo.MakeVariadicParam4(func(a0, a1, a2, a3 int) []int { return []int{a0, a1, a2, a3} })(args...)
	case "vp5":
		out = fpgo.MakeVariadicParam5(func(a0, a1, a2, a3, a4 int) []int { return []int{a0, a1, a2, a3, a4} })(args...)
	case "vp6":
		out = fpgo.MakeVariadicParam6(func(a0, a1, a2, a3, a4, a5 int) []int { return []int{a0, a1, a2, a3, a4, a5} })(args...)
	case "vr1":
		out = fpgo.MakeVariadicReturn1(func(s ...int) int { return c20Rj(1, s) })(args...)
	case "vr2":
		out = fpgo.MakeVariadicReturn2(func(s ...int) (int, int) { return c20Rj(1, s), c20Rj(2, s) })(args...)
	case "vr3":
		out = fpgo.MakeVariadicReturn3(func(s ...int) (int, int, int) { return c20Rj(1, s), c20Rj(2, s), c20Rj(3, s) })(args...)
	case "vr4":
		out = fpgo.MakeVariadicReturn4(func(s ...int) (int, int, int, int) {
			return c20Rj(1, s), c20Rj(2, s), c20Rj(3, s), c20Rj(4, s)
		})(args...)
	case "vr5":
		out = fpgo.MakeVariadicReturn5(func(s ...int) (int, int, int, int, int) {
			return c20Rj(1, s), c20Rj(2, s), c20Rj(3, s), c20Rj(4, s), c20Rj(5, s)
		})(args...)
	case "vr6":
		out = fpgo.MakeVariadicReturn6(func(s ...int) (int, int, int, int, int, int) {
			return c20Rj(1, s), c20Rj(2, s), c20Rj(3, s), c20Rj(4, s), c20Rj(5, s), c20Rj(6, s)
		})(args...)
	case "cs1":
		out = fpgo.CurryParam1ForSlice1(func(a int, rest []int) []int { return rec([]int{a}, rest) }, g(0))(args...)
	case "cp1":
		out = fpgo.CurryParam1(func(a int, rest ...int) []int { return rec([]int{a}, rest) }, g(0))(args...)
	case "cp2":
		out = fpgo.CurryParam2(func(a, b int, rest ...int) []int { return rec([]int{a, b}, rest) }, g(0), g(1))(args...)
	case "cp3":
		out = fpgo.CurryParam3(func(a, b, c int, rest ...int) []int { return rec([]int{a, b, c}, rest) }, g(0), g(1), g(2))(args...)
	case "cp4":
		out = fpgo.CurryParam4(func(a, b, c, d int, rest ...int) []int { return rec([]int{a, b, c, d}, rest) },
			g(0), g(1), g(2), g(3))(args...)
	case "cp5":
		out = fpgo.CurryParam5(func(a, b, c, d, e int, rest ...int) []int { return rec([]int{a, b, c, d, e}, rest) },
			g(0), g(1), g(2), g(3), g(4))(args...)
	case "cp6":
		out = fpgo.CurryParam6(func(a, b, c, d, e, f int, rest ...int) []int { return rec([]int{a, b, c, d, e, f}, rest) },
			g(0), g(1), g(2), g(3), g(4), g(5))(args...)
	case "nv":
		out = fpgo.MakeNumericReturnForVariadicParamReturnBool1[int, int](func(s ...int) bool { return c20Sum(s) > g(0) })(args...)
	case "ns":
		out = fpgo.MakeNumericReturnForSliceParamReturnBool1[int, int](func(s []int) bool { return c20Sum(s) > g(0) })(args...)
	case "np":
		out = fpgo.MakeNumericReturnForParam1ReturnBool1[int, int](func(a int) bool { return a > g(0) })(args...)
	default:
		return "bad-case"
	}
	return "ok " + c20ShowInts(out)
}

// ---------------------------------------------------------------------------------------------
// Trampoline

type c20Err struct{ code int }

func (e c20Err) Error() string { return "e" + strconv.Itoa(e.code) }

func c20RunTrampoline(kd, ke, mode int, input []int) string {
	step := func(s ...int) ([]int, bool, error) {
		c := 0
		if len(s) > 0 {
			c = s[0]
		}
		isErr := c == ke
		res := make([]int, 0, len(s)+1)
		res = append(res, c+1)
		for i := 1; i < len(s); i++ {
			res = append(res, (3*s[i]+c)%1009)
		}
		done := c+1 >= kd || (mode == 1 && isErr)
		if isErr {
			code := c
			if code < 0 {
				code = 0
			}
			return res, done, c20Err{code}
		}
		return res, done, nil
	}
	out, err := fpgo.Trampoline(step, input...)
	if err != nil {
		if e, ok := err.(c20Err); ok {
			return "err " + strconv.Itoa(e.code)
		}
		return "err-other"
	}
	return "ok " + c20ShowInts(out)
}

// ---------------------------------------------------------------------------------------------
// CurryDef

func c20Hash(args []int) int { return 1000*len(args) + c20Wsum(args) }

func c20RunCurry(variant string, n int, ops []string) string {
	var invoked [][]int
	var callG func(a []int) bool
	var markDone func()
	var isDone func() bool
	var result func() int
	switch variant {
	case "G":
		c := fpgo.CurryNewGenerics(func(c *fpgo.CurryDef[int, int], args ...int) int {
			invoked = append(invoked, append([]int{}, args...))
			if n >= 0 && len(args) >= n {
				c.MarkDone()
			}
			return c20Hash(args)
		})
		callG = func(a []int) bool {
			// the caller's slice is spread into Call, has spare capacity, and is overwritten after the Call returned — as a
			// caller re-using its buffer would do; the accumulated arguments must not live in it
			buf := make([]int, len(a), len(a)+8)
			copy(buf, a)
			same := c.Call(buf...) == c
			for i := range buf[:cap(buf)] {
				buf[:cap(buf)][i] = -7777
			}
			return same
		}
		markDone, isDone, result = c.MarkDone, c.IsDone, c.Result
	case "I":
		c := fpgo.CurryNew(func(c *fpgo.CurryDef[interface{}, interface{}], args ...interface{}) interface{} {
			in := make([]int, len(args))
			for i, a := range args {
				in[i] = a.(int)
			}
			invoked = append(invoked, in)
			if n >= 0 && len(args) >= n {
				c.MarkDone()
			}
			return c20Hash(in)
		})
		callG = func(a []int) bool {
			in := make([]interface{}, len(a), len(a)+8)
			for i, v := range a {
				in[i] = v
			}
			same := c.Call(in...) == c
			for i := range in[:cap(in)] {
				in[:cap(in)][i] = -7777
			}
			return same
		}
		markDone, isDone = c.MarkDone, c.IsDone
		result = func() int {
			r := c.Result()
			if r == nil {
				return 0
			}
			return r.(int)
		}
	default:
		return "bad-case"
	}
	outs := make([]string, 0, len(ops))
	for _, op := range ops {
		func() {
			defer func() {
				if r := recover(); r != nil {
					outs = append(outs, "panic")
				}
			}()
			switch {
			case strings.HasPrefix(op, "c:"):
				before := len(invoked)
				same := callG(c20ParseInts(op[2:]))
				o := "skip"
				if len(invoked) > before {
					o = "f " + c20ShowInts(invoked[len(invoked)-1])
					if len(invoked) > before+1 {
						o += " x" + strconv.Itoa(len(invoked)-before)
					}
				}
				if !same {
					o += " badret"
				}
				outs = append(outs, o)
			case op == "d":
				markDone()
				outs = append(outs, "nil")
			case op == "r":
				outs = append(outs, strconv.Itoa(result()))
			case op == "i":
				outs = append(outs, strconv.FormatBool(isDone()))
			default:
				outs = append(outs, "bad-op")
			}
		}()
	}
	return strings.Join(outs, " | ")
}

// c20RunCW: two CurryDefs A and B and ONE caller-owned buffer xs with spare capacity.  Ops: b:<cap>:<ints>
// (xs = append(make([]int,0,cap), ints...)), A / B (Call(xs...): the buffer itself is spread), A:<ints> / B:<ints>
// (Call with fresh arguments), w:<i>:<v> (the caller overwrites xs[i]), v (print xs[:cap]: nobody may have written
// into the caller's buffer), rA / rB (Result).  Every Call prints the argument list fn saw.
func c20RunCW(variant string, n int, ops []string) string {
	type cur struct {
		call   func(a []int) // spreads exactly the slice it is given
		result func() int
	}
	var seen []int
	invoked := 0
	mk := func() cur {
		if variant == "I" {
			c := fpgo.CurryNew(func(c *fpgo.CurryDef[interface{}, interface{}], args ...interface{}) interface{} {
				in := make([]int, len(args))
				for i, a := range args {
					in[i] = a.(int)
				}
				seen, invoked = in, invoked+1
				if n >= 0 && len(args) >= n {
					c.MarkDone()
				}
				return c20Hash(in)
			})
			var ys []interface{} // the caller's boxed buffer is rebuilt per call: aliasing is exercised by the G variant
			return cur{call: func(a []int) {
				ys = make([]interface{}, len(a), len(a)+4)
				for i, v := range a {
					ys[i] = v
				}
				c.Call(ys...)
			}, result: func() int {
				if r := c.Result(); r != nil {
					return r.(int)
				}
				return 0
			}}
		}
		c := fpgo.CurryNewGenerics(func(c *fpgo.CurryDef[int, int], args ...int) int {
			seen, invoked = append([]int{}, args...), invoked+1
			if n >= 0 && len(args) >= n {
				c.MarkDone()
			}
			return c20Hash(args)
		})
		return cur{call: func(a []int) { c.Call(a...) }, result: c.Result}
	}
	a, b := mk(), mk()
	xs := []int{}
	capXs := 0
	doCall := func(c cur, args []int) string {
		before := invoked
		c.call(args)
		if invoked == before {
			return "skip"
		}
		o := "f " + c20ShowInts(seen)
		if invoked > before+1 {
			o += " x" + strconv.Itoa(invoked-before)
		}
		return o
	}
	outs := make([]string, 0, len(ops))
	for _, op := range ops {
		func() {
			defer func() {
				if r := recover(); r != nil {
					outs = append(outs, "panic")
				}
			}()
			parts := strings.Split(op, ":")
			switch {
			case parts[0] == "b" && len(parts) == 3:
				l := c20ParseInts(parts[2])
				capXs = c20Atoi(parts[1], 0)
				if capXs < len(l) {
					capXs = len(l)
				}
				xs = append(make([]int, 0, capXs), l...)
				outs = append(outs, "nil")
			case op == "A":
				outs = append(outs, doCall(a, xs))
			case op == "B":
				outs = append(outs, doCall(b, xs))
			case parts[0] == "A" && len(parts) == 2:
				outs = append(outs, doCall(a, c20ParseInts(parts[1])))
			case parts[0] == "B" && len(parts) == 2:
				outs = append(outs, doCall(b, c20ParseInts(parts[1])))
			case parts[0] == "w" && len(parts) == 3:
				if i := c20Atoi(parts[1], 0); i >= 0 && i < len(xs) {
					xs[i] = c20Atoi(parts[2], 0)
				}
				outs = append(outs, "nil")
			case op == "v":
				outs = append(outs, "buf "+c20ShowInts(xs[:capXs]))
			case op == "rA":
				outs = append(outs, strconv.Itoa(a.result()))
			case op == "rB":
				outs = append(outs, strconv.Itoa(b.result()))
			default:
				outs = append(outs, "bad-op")
			}
		}()
	}
	return strings.Join(outs, " | ")
}

// c20RunStress: g goroutines make m Calls of a arguments each (argument = ((t*10000+j)*10+pos)); the user
// function logs every invocation and marks done once n arguments have accumulated (n = -1: never; n = -2: an
// extra goroutine calls MarkDone at some moment).  y = scheduling noise inside the function (0 none, 1 Gosched, 2 rare
// sleeps, 3 the first invocation lingers until another one finished or 50 ms passed).  The monitor checks the clauses
// of the property on the log.
func c20RunStress(g, m, a, n, y int) string {
	// The monitor runs inside the user function, under logMu, against the previously logged invocation only: memory stays
	// linear in the number of arguments (keeping a copy of every invocation's argument list is quadratic — 4.4 GB for
	// `cs 32 600 3 -1 0` — and made the case miss its deadline on a busy machine).
	var logMu sync.Mutex
	var prev []int            // arguments of the last logged invocation
	count := 0                // invocations logged so far
	lastHash := 0             // the value the last logged invocation returns
	bad := ""                 // first deviation seen
	seenLast := map[int]int{} // goroutine -> last accepted call index
	var finished int32
	check := func(i int, cur []int) string {
		if len(cur) != len(prev)+a {
			return fmt.Sprintf("bad invocation %d saw %d arguments after %d (one Call adds %d)", i, len(cur), len(prev), a)
		}
		for k := range prev {
			if cur[k] != prev[k] {
				return fmt.Sprintf("bad invocation %d does not extend the previous arguments", i)
			}
		}
		if a > 0 {
			blk := cur[len(prev):]
			id := blk[0] / 10
			for p, v := range blk {
				if v != id*10+p {
					return fmt.Sprintf("bad invocation %d: arguments of one Call are not contiguous/in order", i)
				}
			}
			t, j := id/10000, id%10000
			if last, ok := seenLast[t]; ok && j <= last {
				return fmt.Sprintf("bad goroutine %d: call %d accepted after call %d", t, j, last)
			}
			seenLast[t] = j
		}
		return ""
	}
	c := fpgo.CurryNewGenerics(func(c *fpgo.CurryDef[int, int], args ...int) int {
		cp := append([]int{}, args...)
		h := c20Hash(cp)
		logMu.Lock()
		if bad == "" {
			bad = check(count, cp)
		}
		prev = cp
		count++
		lastHash = h
		logMu.Unlock()
		if y == 1 {
			runtime.Gosched()
		} else if y == 2 && len(cp)%7 == 0 {
			time.Sleep(time.Microsecond)
		} else if y == 3 && len(cp) == a {
			// inversion probe: the invocation of the FIRST accepted Call lingers until some other invocation has
			// finished, at most 50 ms.  Calls are serialised by the property ("once per Call with all arguments so
			// far", Result = the last invocation's value), so no other invocation can even start meanwhile and this
			// one simply waits the 50 ms out; if invocations overlap, a later Call overtakes it here and its own
			// result arrives last.  Nothing in the observation depends on how long the wait really took.
			deadline := time.Now().Add(50 * time.Millisecond)
			for atomic.LoadInt32(&finished) == 0 && time.Now().Before(deadline) {
				time.Sleep(100 * time.Microsecond)
			}
		}
		if n >= 0 && len(cp) >= n {
			c.MarkDone()
		}
		atomic.AddInt32(&finished, 1)
		return h
	})
	var wg sync.WaitGroup
	start := make(chan struct{})
	for t := 0; t < g; t++ {
		wg.Add(1)
		go func(t int) {
			defer wg.Done()
			<-start
			for j := 0; j < m; j++ {
				args := make([]int, a)
				for p := range args {
					args[p] = ((t*10000+j)*10 + p)
				}
				c.Call(args...)
				if y == 1 {
					runtime.Gosched()
				}
			}
		}(t)
	}
	logAtMark := -1
	if n == -2 {
		wg.Add(1)
		go func() {
			defer wg.Done()
			<-start
			for i := 0; i < g*m/3; i++ {
				runtime.Gosched()
			}
			c.MarkDone()
			logMu.Lock()
			logAtMark = count
			logMu.Unlock()
		}()
	}
	close(start)
	wg.Wait()
	// ---- verdict
	logMu.Lock()
	defer logMu.Unlock()
	if bad != "" {
		return bad
	}
	total := g * m
	accepted := count
	if accepted > total {
		return "bad more invocations than Calls"
	}
	if n == -2 {
		if !c.IsDone() {
			return "bad not done after MarkDone"
		}
		if accepted > logAtMark+1 {
			return fmt.Sprintf("bad %d invocations after MarkDone returned", accepted-logAtMark)
		}
		if accepted > 0 && c.Result() != lastHash {
			return "bad Result is not the last invocation's result"
		}
		return "ok"
	}
	if accepted > 0 && c.Result() != lastHash {
		return "bad Result is not the last invocation's result"
	}
	wantDone := n >= 0 && accepted > 0 && accepted*a >= n
	if c.IsDone() != wantDone {
		return fmt.Sprintf("bad IsDone=%v", c.IsDone())
	}
	return fmt.Sprintf("ok calls=%d len=%d", accepted, len(prev))
}

// ---------------------------------------------------------------------------------------------
// values, types, patterns

type c20S0 struct{ A int }
type c20S1 struct{ A int }
type c20Str string

type c20Heap struct {
	p0 map[int]*c20S0
	p1 map[int]*c20S1
	cp map[int]*fpgo.CompData
}

func c20NewHeap() *c20Heap {
	return &c20Heap{p0: map[int]*c20S0{}, p1: map[int]*c20S1{}, cp: map[int]*fpgo.CompData{}}
}

func c20Float(tag string) float64 {
	switch {
	case tag == "nan":
		return math.NaN()
	case tag == "nz":
		return math.Copysign(0, -1)
	case strings.HasPrefix(tag, "h"):
		return float64(c20Atoi(tag[1:], 0)) / 2
	}
	return 0
}

func c20ShowFloat(f float64) string {
	switch {
	case math.IsNaN(f):
		return "nan"
	case f == 0 && math.Signbit(f):
		return "nz"
	}
	return "h" + strconv.Itoa(int(f*2))
}

func (h *c20Heap) atom(s string) interface{} {
	parts := strings.Split(s, ":")
	switch {
	case s == "nil":
		return nil
	case parts[0] == "b" && len(parts) == 2:
		return parts[1] == "1"
	case parts[0] == "i" && len(parts) == 3:
		v := c20Atoi(parts[2], 0)
		switch c20Atoi(parts[1], 2) {
		case 2:
			return int(v)
		case 3:
			return int8(v)
		case 4:
			return int16(v)
		case 5:
			return int32(v)
		case 6:
			return int64(v)
		case 7:
			return uint(v)
		case 8:
			return uint8(v)
		case 9:
			return uint16(v)
		case 10:
			return uint32(v)
		case 11:
			return uint64(v)
		case 12:
			return uintptr(v)
		}
	case parts[0] == "f" && len(parts) == 3:
		if parts[1] == "13" {
			return float32(c20Float(parts[2]))
		}
		return c20Float(parts[2])
	case parts[0] == "s" && len(parts) == 2:
		return parts[1]
	case parts[0] == "ns" && len(parts) == 2:
		return c20Str(parts[1])
	case parts[0] == "np" && len(parts) == 2:
		switch parts[1] {
		case "0":
			return (*c20S0)(nil)
		case "1":
			return (*c20S1)(nil)
		case "2":
			return (*fpgo.CompData)(nil)
		}
	case parts[0] == "st" && len(parts) == 3:
		if parts[1] == "0" {
			return c20S0{c20Atoi(parts[2], 0)}
		}
		return c20S1{c20Atoi(parts[2], 0)}
	case parts[0] == "p" && len(parts) == 3:
		addr := c20Atoi(parts[2], 0)
		if parts[1] == "0" {
			if p, ok := h.p0[addr]; ok {
				return p
			}
			p := &c20S0{addr / 10}
			h.p0[addr] = p
			return p
		}
		if p, ok := h.p1[addr]; ok {
			return p
		}
		p := &c20S1{addr / 10}
		h.p1[addr] = p
		return p
	case parts[0] == "sl" && len(parts) == 2:
		if parts[1] == "n" {
			return []int(nil)
		}
		out := []int{}
		if parts[1] != "" {
			for _, e := range strings.Split(parts[1], "+") {
				out = append(out, c20Atoi(e, 0))
			}
		}
		return out
	case parts[0] == "mp" && len(parts) == 2:
		if parts[1] == "n" {
			return map[string]int(nil)
		}
		return map[string]int{}
	}
	panic("bad atom " + s)
}

func (h *c20Heap) objs(s string) []interface{} {
	if s == "-" || s == "" {
		return []interface{}{}
	}
	parts := strings.Split(s, ",")
	out := make([]interface{}, len(parts))
	for i, p := range parts {
		out[i] = h.atom(p)
	}
	return out
}

func c20ParseCT(ts []string) (fpgo.CompType, []string) {
	if len(ts) == 0 {
		return fpgo.DefSum(), ts
	}
	switch ts[0] {
	case "N":
		return fpgo.NilType, ts[1:]
	case "P":
		n := c20Atoi(ts[1], 0)
		rest := ts[2:]
		if n > len(rest) {
			n = len(rest)
		}
		kinds := make([]reflect.Kind, n)
		for i := 0; i < n; i++ {
			kinds[i] = reflect.Kind(c20Atoi(rest[i], 0))
		}
		return fpgo.DefProduct(kinds...), rest[n:]
	case "S":
		n := c20Atoi(ts[1], 0)
		rest := ts[2:]
		subs := make([]fpgo.CompType, 0, n)
		for i := 0; i < n; i++ {
			var t fpgo.CompType
			t, rest = c20ParseCT(rest)
			subs = append(subs, t)
		}
		return fpgo.DefSum(subs...), rest
	}
	return fpgo.DefSum(), ts
}

func c20CompType(s string) fpgo.CompType {
	t, _ := c20ParseCT(strings.Split(s, "."))
	return t
}

func (h *c20Heap) value(s string) interface{} {
	parts := strings.Split(s, "/")
	if len(parts) != 3 {
		return h.atom(s)
	}
	t := c20CompType(parts[1])
	if parts[0] == "c" {
		cd := fpgo.NewCompData(t, h.objs(parts[2])...)
		if cd == nil {
			return fpgo.CompData{}
		}
		return *cd
	}
	addr := c20Atoi(strings.TrimPrefix(parts[0], "cp:"), 0)
	if p, ok := h.cp[addr]; ok {
		return p
	}
	cd := fpgo.NewCompData(t, h.objs(parts[2])...)
	if cd == nil {
		return (*fpgo.CompData)(nil)
	}
	h.cp[addr] = cd
	return cd
}

func c20Objects(cd fpgo.CompData) []interface{} {
	rv := reflect.New(reflect.TypeOf(cd)).Elem()
	rv.Set(reflect.ValueOf(cd))
	// the field holding the composite values, found by its type (not by its unexported name)
	want := reflect.TypeOf([]interface{}(nil))
	for i := 0; i < rv.NumField(); i++ {
		if f := rv.Field(i); f.Type() == want {
			return *(*[]interface{})(unsafe.Pointer(f.UnsafeAddr()))
		}
	}
	return nil
}

func (h *c20Heap) showObjs(objs []interface{}) string {
	parts := make([]string, len(objs))
	for i, o := range objs {
		parts[i] = h.show(o)
	}
	return "[" + strings.Join(parts, ",") + "]"
}

func (h *c20Heap) show(v interface{}) string {
	switch x := v.(type) {
	case nil:
		return "nil"
	case bool:
		if x {
			return "b:1"
		}
		return "b:0"
	case int:
		return "i:2:" + strconv.FormatInt(int64(x), 10)
	case int8:
		return "i:3:" + strconv.FormatInt(int64(x), 10)
	case int16:
		return "i:4:" + strconv.FormatInt(int64(x), 10)
	case int32:
		return "i:5:" + strconv.FormatInt(int64(x), 10)
	case int64:
		return "i:6:" + strconv.FormatInt(x, 10)
	case uint:
		return "i:7:" + strconv.FormatUint(uint64(x), 10)
	case uint8:
		return "i:8:" + strconv.FormatUint(uint64(x), 10)
	case uint16:
		return "i:9:" + strconv.FormatUint(uint64(x), 10)
	case uint32:
		return "i:10:" + strconv.FormatUint(uint64(x), 10)
	case uint64:
		return "i:11:" + strconv.FormatUint(x, 10)
	case uintptr:
		return "i:12:" + strconv.FormatUint(uint64(x), 10)
	case float32:
		return "f:13:" + c20ShowFloat(float64(x))
	case float64:
		return "f:14:" + c20ShowFloat(x)
	case string:
		return "s:" + x
	case c20Str:
		return "ns:" + string(x)
	case *c20S0:
		if x == nil {
			return "np:0"
		}
		for a, p := range h.p0 {
			if p == x {
				return "p:0:" + strconv.Itoa(a)
			}
		}
		return "p:0:?"
	case *c20S1:
		if x == nil {
			return "np:1"
		}
		for a, p := range h.p1 {
			if p == x {
				return "p:1:" + strconv.Itoa(a)
			}
		}
		return "p:1:?"
	case c20S0:
		return "st:0:" + strconv.Itoa(x.A)
	case c20S1:
		return "st:1:" + strconv.Itoa(x.A)
	case []int:
		if x == nil {
			return "sl:n"
		}
		parts := make([]string, len(x))
		for i, e := range x {
			parts[i] = strconv.Itoa(e)
		}
		return "sl:" + strings.Join(parts, "+")
	case map[string]int:
		if x == nil {
			return "mp:n"
		}
		return "mp:e"
	case fpgo.CompData:
		return "c" + h.showObjs(c20Objects(x))
	case *fpgo.CompData:
		if x == nil {
			return "np:2"
		}
		for a, p := range h.cp {
			if p == x {
				return "cp:" + strconv.Itoa(a) + h.showObjs(c20Objects(*x))
			}
		}
		return "cp:?" + h.showObjs(c20Objects(*x))
	}
	return fmt.Sprintf("unknown(%T)", v)
}

func c20Regex(id string) string {
	parts := strings.SplitN(id, ":", 2)
	arg := ""
	if len(parts) == 2 {
		arg = parts[1]
	}
	switch parts[0] {
	case "lit":
		return arg
	case "pre":
		return "^" + arg
	case "suf":
		return arg + "$"
	case "full":
		return "^" + arg + "$"
	case "dig":
		return "^[0-9]+$"
	case "any":
		return ""
	}
	return "(" // does not compile: MatchString returns an error, the pattern never matches
}

func c20RunMatch(mode string, probe string, pats []string) string {
	h := c20NewHeap()
	calls := 0
	patterns := make([]fpgo.Pattern, len(pats))
	for i, p := range pats {
		i := i
		eff := func(x interface{}) interface{} {
			calls++
			return "e" + strconv.Itoa(i) + " " + h.show(x)
		}
		switch {
		case p == "O":
			patterns[i] = fpgo.Otherwise(eff)
		case strings.HasPrefix(p, "K:"):
			patterns[i] = fpgo.InCaseOfKind(reflect.Kind(c20Atoi(p[2:], 0)), eff)
		case strings.HasPrefix(p, "E:"):
			patterns[i] = fpgo.InCaseOfEqual(h.value(p[2:]), eff)
		case strings.HasPrefix(p, "R:"):
			patterns[i] = fpgo.InCaseOfRegex(c20Regex(p[2:]), eff)
		case strings.HasPrefix(p, "T:"):
			patterns[i] = fpgo.InCaseOfSumType(c20CompType(p[2:]), eff)
		default:
			patterns[i] = fpgo.Otherwise(eff)
		}
	}
	v := h.value(probe)
	var res interface{}
	if mode == "m" {
		res = fpgo.DefPattern(patterns...).MatchFor(v)
	} else {
		res = fpgo.Either(v, patterns...)
	}
	s, ok := res.(string)
	if !ok {
		return "badret"
	}
	if calls != 1 {
		s += " calls=" + strconv.Itoa(calls)
	}
	// "first pattern in list order" is the order of the caller's list: matching must leave that list as it was
	// (a self-reorganising list — move-to-front, drop-after-use — answers a LATER match by a pattern that is not the
	// first accepting one).  Every pattern's effect knows its index, so the order can be read back through Apply.
	for i, p := range patterns {
		if r, _ := p.Apply(nil).(string); !strings.HasPrefix(r, "e"+strconv.Itoa(i)+" ") {
			s += " patterns-reordered"
			break
		}
	}
	// and the same match once more, from the same list, gives the same answer
	var res2 interface{}
	if mode == "m" {
		res2 = fpgo.DefPattern(patterns...).MatchFor(v)
	} else {
		res2 = fpgo.Either(v, patterns...)
	}
	if s2, _ := res2.(string); s2 != res {
		s += " again=" + s2
	}
	return s
}

func c20RunND(words []string) string {
	h := c20NewHeap()
	switch words[0] {
	case "nd":
		t := c20CompType(words[1])
		cd := fpgo.NewCompData(t, h.objs(words[2])...)
		if cd == nil {
			return "nil"
		}
		return fmt.Sprintf("cd %s %v %v", h.showObjs(c20Objects(*cd)), fpgo.MatchCompTypeRef(t, cd), fpgo.MatchCompType(t, *cd))
	case "tm":
		return strconv.FormatBool(c20CompType(words[1]).Matches(h.objs(words[2])...))
	case "mc":
		cd := fpgo.NewCompData(c20CompType(words[2]), h.objs(words[3])...)
		if cd == nil {
			return "nil"
		}
		return strconv.FormatBool(fpgo.MatchCompType(c20CompType(words[1]), *cd))
	}
	return "bad-case"
}

// ---------------------------------------------------------------------------------------------
// runner

func c20Run(line string) string {
	head, body := c20SplitCase(line)
	if len(head) == 0 {
		return "bad-case"
	}
	fns := func() []func(...int) []int {
		ts := c20Toks(body)
		out := make([]func(...int) []int, len(ts))
		for i, t := range ts {
			out[i] = c20Fn(t)
		}
		return out
	}
	switch {
	case head[0] == "cp" && len(head) == 3:
		return c20RunCP(head[1], c20ParseInts(head[2]), fns())
	case head[0] == "cg" && len(head) == 4:
		return c20RunCG(head[1], c20Atoi(head[2], 0), c20ParseInts(head[3]), fns())
	case head[0] == "ru" && len(head) == 3:
		return c20RunRU(head[1], c20ParseInts(head[2]), fns())
	case head[0] == "rr" && len(head) == 4:
		return c20RunRR(head[1], c20ParseInts(head[2]), c20ParseInts(head[3]), c20Toks(body))
	case head[0] == "ad" && len(head) == 3:
		return c20RunAdapter(head[1], c20ParseInts(head[2]), c20ParseInts(body))
	case head[0] == "tr" && len(head) == 4:
		return c20RunTrampoline(c20Atoi(head[1], 1), c20Atoi(head[2], -1), c20Atoi(head[3], 0), c20ParseInts(body))
	case head[0] == "cu" && len(head) == 3:
		return c20RunCurry(head[1], c20Atoi(head[2], -1), c20Toks(body))
	case head[0] == "cw" && len(head) == 3:
		return c20RunCW(head[1], c20Atoi(head[2], -1), c20Toks(body))
	case head[0] == "cs" && len(head) == 6:
		return c20RunStress(c20Atoi(head[1], 1), c20Atoi(head[2], 1), c20Atoi(head[3], 1), c20Atoi(head[4], -1), c20Atoi(head[5], 0))
	case (head[0] == "m" || head[0] == "e") && len(head) == 2:
		return c20RunMatch(head[0], head[1], c20Toks(body))
	case head[0] == "nd" && len(head) == 3, head[0] == "tm" && len(head) == 3, head[0] == "mc" && len(head) == 4:
		return c20RunND(head)
	}
	return "bad-case"
}

func init() { register("C20", &Prop{Gen: c20Gen, Run: c20Run, CaseTimeout: 20 * time.Second}) }
