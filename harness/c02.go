package main

// C02 — Maybe numeric conversions vs the Lean evaluator of the extracted conversion table.
//
// Case line:    <Method> <value> [g]        e.g.  ToInt32 f64:x41e65a0bc0000000     ToByte i8:-1 g
//   value  ::= i:<dec> | i8: | i16: | i32: | i64: | u: | u8: | u16: | u32: | u64: | up:<dec>   (exact decimal)
//            | f32:x<8 hex> | f64:x<16 hex> (IEEE bit patterns) | b:0|1 | s:<hex bytes> | nil | nil:ptr | unsup:<kind>
//   g       = wrap with JustGenerics[T] (T the concrete type) instead of Maybe.Just
// Observation:  ok <value of the method's result type>   |   err nil|unsupported|overflow|other   |   panic
// (NaN results are printed as f32:nan / f64:nan: payloads are not compared.)

import (
	"encoding/hex"
	"fmt"
	"math"
	"math/big"
	"math/rand"
	"strconv"
	"strings"
	"time"

	fpgo "github.com/TeaEntityLab/fpGo/v2"
)

type c02Conv interface {
	ToInt() (int, error)
	ToInt8() (int8, error)
	ToInt16() (int16, error)
	ToInt32() (int32, error)
	ToInt64() (int64, error)
	ToByte() (byte, error)
	ToUint() (uint, error)
	ToUint8() (uint8, error)
	ToUint16() (uint16, error)
	ToUint32() (uint32, error)
	ToUint64() (uint64, error)
	ToUintptr() (uintptr, error)
	ToFloat32() (float32, error)
	ToFloat64() (float64, error)
	ToBool() (bool, error)
}

var c02Methods = []string{"ToInt", "ToInt8", "ToInt16", "ToInt32", "ToInt64", "ToByte", "ToUint", "ToUint8", "ToUint16", "ToUint32",
	"ToUint64", "ToUintptr", "ToFloat32", "ToFloat64", "ToBool"}

func c02Err(err error) string {
	switch err {
	case fpgo.ErrConversionNil:
		return "err nil"
	case fpgo.ErrConversionUnsupported:
		return "err unsupported"
	case fpgo.ErrConversionSizeOverflow:
		return "err overflow"
	}
	return "err other"
}

func c02F32(v float32) string {
	if v != v {
		return "f32:nan"
	}
	return fmt.Sprintf("f32:x%08x", math.Float32bits(v))
}
func c02F64(v float64) string {
	if v != v {
		return "f64:nan"
	}
	return fmt.Sprintf("f64:x%016x", math.Float64bits(v))
}

func c02Call(m c02Conv, method string) string {
	var tok string
	var err error
	switch method {
	case "ToInt":
		v, e := m.ToInt()
		tok, err = "i:"+strconv.FormatInt(int64(v), 10), e
	case "ToInt8":
		v, e := m.ToInt8()
		tok, err = "i8:"+strconv.FormatInt(int64(v), 10), e
	case "ToInt16":
		v, e := m.ToInt16()
		tok, err = "i16:"+strconv.FormatInt(int64(v), 10), e
	case "ToInt32":
		v, e := m.ToInt32()
		tok, err = "i32:"+strconv.FormatInt(int64(v), 10), e
	case "ToInt64":
		v, e := m.ToInt64()
		tok, err = "i64:"+strconv.FormatInt(v, 10), e
	case "ToByte":
		v, e := m.ToByte()
		tok, err = "u8:"+strconv.FormatUint(uint64(v), 10), e
	case "ToUint8":
		v, e := m.ToUint8()
		tok, err = "u8:"+strconv.FormatUint(uint64(v), 10), e
	case "ToUint":
		v, e := m.ToUint()
		tok, err = "u:"+strconv.FormatUint(uint64(v), 10), e
	case "ToUint16":
		v, e := m.ToUint16()
		tok, err = "u16:"+strconv.FormatUint(uint64(v), 10), e
	case "ToUint32":
		v, e := m.ToUint32()
		tok, err = "u32:"+strconv.FormatUint(uint64(v), 10), e
	case "ToUint64":
		v, e := m.ToUint64()
		tok, err = "u64:"+strconv.FormatUint(v, 10), e
	case "ToUintptr":
		v, e := m.ToUintptr()
		tok, err = "up:"+strconv.FormatUint(uint64(v), 10), e
	case "ToFloat32":
		v, e := m.ToFloat32()
		tok, err = c02F32(v), e
	case "ToFloat64":
		v, e := m.ToFloat64()
		tok, err = c02F64(v), e
	case "ToBool":
		v, e := m.ToBool()
		if v {
			tok = "b:1"
		} else {
			tok = "b:0"
		}
		err = e
	default:
		return "bad-method"
	}
	if err != nil {
		return c02Err(err)
	}
	return "ok " + tok
}

func c02Wrap[T any](v T, generic bool) (c02Conv, bool) {
	if generic {
		m, ok := fpgo.JustGenerics[T](v).(c02Conv)
		return m, ok
	}
	m, ok := fpgo.Maybe.Just(v).(c02Conv)
	return m, ok
}

type c02Struct struct{ A int }

func c02Value(tok string, generic bool) (c02Conv, bool) {
	if tok == "nil" {
		if generic {
			return c02Wrap[interface{}](nil, true)
		}
		m, ok := fpgo.Maybe.Just(nil).(c02Conv)
		return m, ok
	}
	i := strings.IndexByte(tok, ':')
	if i < 0 {
		return nil, false
	}
	k, p := tok[:i], tok[i+1:]
	sint := func(bits int) (int64, bool) { v, err := strconv.ParseInt(p, 10, bits); return v, err == nil }
	uint_ := func(bits int) (uint64, bool) { v, err := strconv.ParseUint(p, 10, bits); return v, err == nil }
	switch k {
	case "nil":
		return c02Wrap[*int](nil, generic)
	case "unsup":
		switch p {
		case "struct":
			return c02Wrap(c02Struct{3}, generic)
		case "slice":
			return c02Wrap([]int{1}, generic)
		case "map":
			return c02Wrap(map[string]int{"a": 1}, generic)
		case "ptr":
			x := 5
			return c02Wrap(&x, generic)
		case "c128":
			return c02Wrap(complex(1, 0), generic)
		case "c64":
			return c02Wrap(complex64(complex(1, 0)), generic)
		case "func":
			return c02Wrap(func() {}, generic)
		case "chan":
			return c02Wrap(make(chan int), generic)
		case "array":
			return c02Wrap([2]int{1, 2}, generic)
		case "rune-slice":
			return c02Wrap([]rune("12"), generic)
		case "bytes":
			return c02Wrap([]byte("12"), generic)
		case "error":
			return c02Wrap(fmt.Errorf("1"), generic)
		}
		return nil, false
	case "i":
		v, ok := sint(64)
		if !ok {
			return nil, false
		}
		return c02Wrap(int(v), generic)
	case "i8":
		v, ok := sint(8)
		if !ok {
			return nil, false
		}
		return c02Wrap(int8(v), generic)
	case "i16":
		v, ok := sint(16)
		if !ok {
			return nil, false
		}
		return c02Wrap(int16(v), generic)
	case "i32":
		v, ok := sint(32)
		if !ok {
			return nil, false
		}
		return c02Wrap(int32(v), generic)
	case "i64":
		v, ok := sint(64)
		if !ok {
			return nil, false
		}
		return c02Wrap(v, generic)
	case "u":
		v, ok := uint_(64)
		if !ok {
			return nil, false
		}
		return c02Wrap(uint(v), generic)
	case "u8":
		v, ok := uint_(8)
		if !ok {
			return nil, false
		}
		return c02Wrap(uint8(v), generic)
	case "u16":
		v, ok := uint_(16)
		if !ok {
			return nil, false
		}
		return c02Wrap(uint16(v), generic)
	case "u32":
		v, ok := uint_(32)
		if !ok {
			return nil, false
		}
		return c02Wrap(uint32(v), generic)
	case "u64":
		v, ok := uint_(64)
		if !ok {
			return nil, false
		}
		return c02Wrap(v, generic)
	case "up":
		v, ok := uint_(64)
		if !ok {
			return nil, false
		}
		return c02Wrap(uintptr(v), generic)
	case "f32":
		if p == "nan" {
			return c02Wrap(float32(math.NaN()), generic)
		}
		if len(p) != 9 || p[0] != 'x' {
			return nil, false
		}
		b, err := strconv.ParseUint(p[1:], 16, 32)
		if err != nil {
			return nil, false
		}
		return c02Wrap(math.Float32frombits(uint32(b)), generic)
	case "f64":
		if p == "nan" {
			return c02Wrap(math.NaN(), generic)
		}
		if len(p) != 17 || p[0] != 'x' {
			return nil, false
		}
		b, err := strconv.ParseUint(p[1:], 16, 64)
		if err != nil {
			return nil, false
		}
		return c02Wrap(math.Float64frombits(b), generic)
	case "b":
		return c02Wrap(p == "1", generic)
	case "s":
		b, err := hex.DecodeString(p)
		if err != nil {
			return nil, false
		}
		return c02Wrap(string(b), generic)
	}
	return nil, false
}

func c02Run(line string) string {
	f := strings.Fields(line)
	if len(f) < 2 {
		return "bad-case"
	}
	generic := len(f) > 2 && f[2] == "g"
	m, ok := c02Value(f[1], generic)
	if !ok || m == nil {
		return "bad-case"
	}
	return c02Call(m, f[0])
}

// ---------------------------------------------------------------------------------------------- generators

type c02IntTy struct {
	tok    string
	lo, hi *big.Int
}

func c02Pow(b uint) *big.Int { return new(big.Int).Lsh(big.NewInt(1), b) }

var c02IntTys = func() []c02IntTy {
	s := func(tok string, bits uint) c02IntTy {
		return c02IntTy{tok, new(big.Int).Neg(c02Pow(bits - 1)), new(big.Int).Sub(c02Pow(bits-1), big.NewInt(1))}
	}
	u := func(tok string, bits uint) c02IntTy {
		return c02IntTy{tok, big.NewInt(0), new(big.Int).Sub(c02Pow(bits), big.NewInt(1))}
	}
	return []c02IntTy{s("i", 64), s("i8", 8), s("i16", 16), s("i32", 32), s("i64", 64), u("u", 64), u("u8", 8), u("u16", 16), u("u32", 32), u("u64", 64), u("up", 64)}
}()

// the integer boundary grid: 0, ±1, ±2, around every ±2^b for the widths that matter (type bounds, float precisions),
// plus halfway points of the int->float roundings
func c02IntGrid() []*big.Int {
	seen := map[string]bool{}
	var out []*big.Int
	add := func(z *big.Int) {
		if !seen[z.String()] {
			seen[z.String()] = true
			out = append(out, new(big.Int).Set(z))
		}
	}
	for d := int64(-3); d <= 3; d++ {
		add(big.NewInt(d))
	}
	for _, b := range []uint{7, 8, 15, 16, 23, 24, 25, 31, 32, 33, 52, 53, 54, 62, 63, 64, 65} {
		for d := int64(-3); d <= 3; d++ {
			p := new(big.Int).Add(c02Pow(b), big.NewInt(d))
			add(p)
			add(new(big.Int).Neg(p))
		}
	}
	// ties and near-ties of integer -> float32 / float64 rounding
	for _, s := range []string{"16777217", "16777219", "33554434", "33554438", "33554437", "9007199254740993", "9007199254740995", "18014398509481986",
		"18014398509481990", "9223372036854775295", "9223372036854775296", "9223372036854775297", "9223372036854774784", "9223371487098961920",
		"9223371761976868864", "9223371761976868863", "9223371761976868865", "18446744073709550591", "18446744073709550592", "18446744073709550593",
		"18446742974197923840", "18446743523953737728", "18446743523953737727", "18446743523953737729", "2147483520", "2147483584", "2147483583", "2147483585",
		"4294967040", "4294967168", "4294967167", "4294967169", "123456789", "1000000", "100", "200", "40000", "3000000000", "-3000000000"} {
		z, _ := new(big.Int).SetString(s, 10)
		add(z)
		add(new(big.Int).Neg(z))
	}
	return out
}

func c02Between(z, lo, hi *big.Int) bool { return z.Cmp(lo) >= 0 && z.Cmp(hi) <= 0 }

func c02F64Tok(v float64) string { return fmt.Sprintf("f64:x%016x", math.Float64bits(v)) }
func c02F32Tok(v float32) string { return fmt.Sprintf("f32:x%08x", math.Float32bits(v)) }

// float64 boundary grid
func c02F64Grid() []float64 {
	var out []float64
	seen := map[uint64]bool{}
	add := func(v float64) {
		b := math.Float64bits(v)
		if !seen[b] {
			seen[b] = true
			out = append(out, v)
		}
	}
	around := func(v float64) {
		add(v)
		up, dn := v, v
		for i := 0; i < 3; i++ {
			up = math.Nextafter(up, math.Inf(1))
			dn = math.Nextafter(dn, math.Inf(-1))
			add(up)
			add(dn)
		}
	}
	bounds := []float64{0, 1, -1, 127, 128, -128, -129, 255, 256, 32767, 32768, -32768, -32769, 65535, 65536, 2147483647, 2147483648, -2147483648, -2147483649,
		4294967295, 4294967296, 16777216, 16777217, 9007199254740992, 9223372036854775807, -9223372036854775808, 18446744073709551615,
		math.Ldexp(1, 62), math.Ldexp(1, 65), -math.Ldexp(1, 64), -math.Ldexp(1, 31) - 1, -math.Ldexp(1, 32)}
	for _, b := range bounds {
		around(b)
		around(-b)
		for _, d := range []float64{0.5, 0.25, 0.75, 0.49999999, 0.50000001, 0.4, 0.6} {
			add(b + d)
			add(b - d)
			around(b + 0.5)
			around(b - 0.5)
		}
	}
	for k := -4.0; k <= 4; k++ {
		add(k + 0.5)
	}
	add(math.Copysign(0, -1))
	add(math.NaN())
	add(math.Inf(1))
	add(math.Inf(-1))
	// denormals, extremes
	around(math.SmallestNonzeroFloat64)
	around(-math.SmallestNonzeroFloat64)
	around(math.Float64frombits(0x000fffffffffffff))
	around(math.Float64frombits(0x0010000000000000))
	around(math.MaxFloat64)
	around(-math.MaxFloat64)
	add(1e300)
	add(-1e300)
	add(3e9)
	add(-3e9)
	add(1e19)
	add(1e20)
	// float64 -> float32 rounding: MaxFloat32, the overflow threshold MaxFloat32 + half ulp (a tie that rounds to 2^128 = Inf)
	mf := float64(math.MaxFloat32)
	around(mf)
	around(-mf)
	around(mf + math.Ldexp(1, 103))
	around(-(mf + math.Ldexp(1, 103)))
	around(math.Ldexp(1, 128))
	around(-math.Ldexp(1, 128))
	// ties between adjacent float32 values, float32 denormal range
	for _, v := range []float64{1 + math.Ldexp(1, -24), 1 + 3*math.Ldexp(1, -24), 1 + math.Ldexp(1, -23), 2 - math.Ldexp(1, -24), 16777217, 16777219, 0.1, 0.3, 1.1, 1.2,
		math.Ldexp(1, -149), math.Ldexp(1, -150), 3 * math.Ldexp(1, -150), math.Ldexp(1, -151), math.Ldexp(1, -126), math.Ldexp(1, -126) - math.Ldexp(1, -150),
		math.Ldexp(1, -127), 5 * math.Ldexp(1, -151), math.Ldexp(1, -126) - math.Ldexp(1, -149)} {
		around(v)
		around(-v)
	}
	return out
}

func c02F32Grid() []float32 {
	var out []float32
	seen := map[uint32]bool{}
	add := func(v float32) {
		b := math.Float32bits(v)
		if !seen[b] {
			seen[b] = true
			out = append(out, v)
		}
	}
	around := func(v float32) {
		add(v)
		up, dn := v, v
		for i := 0; i < 3; i++ {
			up = math.Nextafter32(up, float32(math.Inf(1)))
			dn = math.Nextafter32(dn, float32(math.Inf(-1)))
			add(up)
			add(dn)
		}
	}
	for _, b := range []float64{0, 1, 127, 128, 129, 255, 256, 32767, 32768, 32769, 65535, 65536, 2147483648, 4294967296, 16777216, 8388608, 4194304,
		math.Ldexp(1, 62), math.Ldexp(1, 63), math.Ldexp(1, 64), math.Ldexp(1, 65), 3e9, 1e19, 1e20} {
		around(float32(b))
		around(float32(-b))
		for _, d := range []float64{0.5, 0.25, 0.75, 0.4, 0.6} {
			around(float32(b + d))
			around(float32(b - d))
			around(float32(-b + d))
			around(float32(-b - d))
		}
	}
	for k := -4.0; k <= 4; k++ {
		add(float32(k + 0.5))
	}
	add(float32(math.Copysign(0, -1)))
	add(float32(math.NaN()))
	add(float32(math.Inf(1)))
	add(float32(math.Inf(-1)))
	around(math.SmallestNonzeroFloat32)
	around(-math.SmallestNonzeroFloat32)
	around(math.Float32frombits(0x007fffff))
	around(math.Float32frombits(0x00800000))
	around(math.MaxFloat32)
	around(-math.MaxFloat32)
	add(1.1)
	add(1.2)
	add(0.1)
	return out
}

var c02Strings = []string{"", " ", "abc", " 1", "1 ", "--1", "+", "-", "0x10", "0X1F", "1e", "e5", ".", "1.", ".5", "-.5", "+.5e1", "inf", "-Inf", "+INF", "nan", "NaN",
	"Infinity", "-infinity", "+nan", "-nan", "infin", "infinityx", "nanx", "1.5", "-1.5", "2.5", "0.5", "-0.5", "1e2", "1E2", "1e+2", "1e-2", "100e-2", "1.0", "-0", "+0", "+5", "+127", "+255", "-0.0", "007", "-007", "00",
	"true", "false", "1", "0", "t", "T", "f", "F", "TRUE", "FALSE", "True", "False", "yes", "tRUE",
	"3.4028234663852886e38", "3.4028235677973366e38", "3.4028235677973362e38", "3.4028235677973370e38", "3.4028236e38", "-3.4028235677973366e38", "3.5e38", "1e39",
	"1.7976931348623157e308", "1.7976931348623158e308", "1.7976931348623159e308", "-1.7976931348623159e308", "1.797693134862315807e308", "1e308", "1e309", "-1e309", "1e400", "1e-400", "1e-320",
	"4.9e-324", "2.5e-324", "2.4e-324", "2.4703282292062327e-324", "2.4703282292062328e-324", "1.401298464324817e-45", "7.006492321624085e-46", "7.0064923216240854e-46", "7e-46", "1e-45", "1e-46",
	"0.1", "0.2", "0.30000000000000004", "1.1", "1.2", "16777217", "16777217.0", "9007199254740993", "9007199254740993.0", "123456789012345678901234567890", "-123456789012345678901234567890",
	"1.00000005960464477539062500", "1.00000005960464477539062501", "1.0000001788139343", "179769313486231570000000000000000000000000000000000000000000000000000000000000000000000000000000000000000000000000000000000000000000000000000000000000000000000000000000000000000000000000000000000000000000000000000000000000000000000000000000000000000000000000000000000000000000000000000000000",
	"0.000000000000000000000000000000000000000000001", "1e5000", "1e-5000", "12345678901234567890e-10", "1.e3", "1e0", "5e-1", "15e-1", "25e-1"}

func c02Hex(s string) string { return "s:" + hex.EncodeToString([]byte(s)) }

func c02Gen(tier string, rng *rand.Rand, emit func(string)) map[string]interface{} {
	nRand := 250
	if tier == "thorough" {
		nRand = 4000
	}
	grid := c02IntGrid()
	f64g := c02F64Grid()
	f32g := c02F32Grid()
	perKind := map[string]int{}
	cells := map[string]bool{}
	n := 0
	out := func(m, tok string) {
		k := tok
		if i := strings.IndexByte(tok, ':'); i >= 0 {
			k = tok[:i]
		}
		perKind[k]++
		cells[m+"<-"+k] = true
		n++
		if n%7 == 3 {
			emit(m + " " + tok + " g")
		} else {
			emit(m + " " + tok)
		}
	}
	// decimal renderings of the integer grid, as string sources
	var numStrings []string
	for _, z := range grid {
		numStrings = append(numStrings, z.String())
	}
	for _, m := range c02Methods {
		// nil and unsupported kinds
		out(m, "nil")
		out(m, "nil:ptr")
		for _, k := range []string{"struct", "slice", "map", "ptr", "c128", "c64", "func", "chan", "array", "rune-slice", "bytes", "error"} {
			out(m, "unsup:"+k)
		}
		out(m, "b:0")
		out(m, "b:1")
		// integer sources: the grid clipped to the type, the type's own bounds, random values
		for _, t := range c02IntTys {
			out(m, t.tok+":"+t.lo.String())
			out(m, t.tok+":"+t.hi.String())
			for _, z := range grid {
				if c02Between(z, t.lo, t.hi) {
					out(m, t.tok+":"+z.String())
				}
			}
			width := new(big.Int).Add(new(big.Int).Sub(t.hi, t.lo), big.NewInt(1))
			for i := 0; i < nRand; i++ {
				var z *big.Int
				if i%2 == 0 {
					z = new(big.Int).Add(new(big.Int).Rand(rng, width), t.lo)
				} else {
					// random magnitude: uniform in the bit length, random sign
					b := uint(rng.Intn(65))
					z = new(big.Int).Rand(rng, c02Pow(b))
					if rng.Intn(2) == 0 {
						z.Neg(z)
					}
					if !c02Between(z, t.lo, t.hi) {
						continue
					}
				}
				out(m, t.tok+":"+z.String())
			}
		}
		// float sources
		for _, v := range f64g {
			out(m, c02F64Tok(v))
		}
		for _, v := range f32g {
			out(m, c02F32Tok(v))
		}
		for i := 0; i < 2*nRand; i++ {
			switch i % 4 {
			case 0: // random bit pattern
				out(m, c02F64Tok(math.Float64frombits(rng.Uint64())))
				out(m, c02F32Tok(math.Float32frombits(rng.Uint32())))
			case 1: // random magnitude in the integer range, random fraction
				e := rng.Intn(70) - 3
				v := math.Ldexp(rng.Float64()+0.5, e)
				if rng.Intn(2) == 0 {
					v = -v
				}
				out(m, c02F64Tok(v))
				out(m, c02F32Tok(float32(v)))
			case 2: // k + 0.5
				k := float64(rng.Int63n(1<<uint(1+rng.Intn(40)))) + 0.5
				if rng.Intn(2) == 0 {
					k = -k
				}
				out(m, c02F64Tok(k))
				out(m, c02F32Tok(float32(k)))
			case 3: // near the float32 range / denormals
				e := []int{127, 128, 126, -126, -127, -140, -149, -150, -1022, -1060, 1023, 300}[rng.Intn(12)]
				v := math.Ldexp(rng.Float64()+1, e)
				if rng.Intn(2) == 0 {
					v = -v
				}
				out(m, c02F64Tok(v))
				if f := float32(v); !math.IsInf(float64(f), 0) {
					out(m, c02F32Tok(f))
				}
			}
		}
		// string sources
		for _, s := range numStrings {
			out(m, c02Hex(s))
		}
		for _, s := range c02Strings {
			out(m, c02Hex(s))
		}
		for i := 0; i < nRand; i++ {
			switch i % 3 {
			case 0:
				z := new(big.Int).Rand(rng, c02Pow(uint(rng.Intn(70))))
				if rng.Intn(2) == 0 {
					z.Neg(z)
				}
				out(m, c02Hex(z.String()))
			case 1:
				v := math.Float64frombits(rng.Uint64())
				if v == v && !math.IsInf(v, 0) {
					out(m, c02Hex(strconv.FormatFloat(v, 'g', -1, 64)))
					out(m, c02Hex(strconv.FormatFloat(v, 'e', 3+rng.Intn(20), 64)))
				}
			case 2:
				v := math.Float32frombits(rng.Uint32())
				if v == v && !math.IsInf(float64(v), 0) {
					out(m, c02Hex(strconv.FormatFloat(float64(v), 'g', -1, 32)))
					out(m, c02Hex(strconv.FormatFloat(float64(v), 'f', rng.Intn(12), 64)))
				}
			}
		}
	}
	return map[string]interface{}{
		"exhaustive": false, "methods": len(c02Methods), "cells_method_x_sourcekind": len(cells), "cases_per_source_kind": perKind,
		"int_grid": len(grid), "f64_grid": len(f64g), "f32_grid": len(f32g), "string_grid": len(numStrings) + len(c02Strings),
		"random_per_cell": nRand,
		"scope": "every method x every source kind: boundary grid (type bounds, every target bound +-3, +-ulp neighbours, halves, ties, denormals, NaN, +-Inf, +-0) + seeded random",
	}
}

func init() { register("C02", &Prop{Gen: c02Gen, Run: c02Run, CaseTimeout: 5 * time.Second}) }
