package main

// C05 — set algebra of both API families (generic and interface{}) vs the Lean models / set laws.
//
// Case line:   <kind> <operand>* : <op> ; <op> ; …
//   kind L  element lists     nil | [] | [0.1.2]          (fp.go slice functions and Stream methods)
//   kind M  key→value maps    nil | nilmap | {} | {0:10,1:11}   (MapSet / SetForInterface, map functions)
//   kind S  key→stream maps   nil | {} | {0:[0.1],1:[]}    (StreamSet / StreamSetForInterface)
// `nil` = nil slice for function operands, nil pointer / nil interface for method arguments; a
// receiver written `nil` is a non-nil pointer to a nil slice / nil map.
// Observation: per op `g=<generic result> i=<interface{} twin result>` (or `g=<…>` when the function
// has no twin), joined by " | ".  Everything that comes out of a Go map is sorted.  Each twin is run
// on its own freshly built operands with its own recover (`panic`).

import (
	"fmt"
	"math/rand"
	"sort"
	"strconv"
	"strings"
	"time"

	fpgo "github.com/TeaEntityLab/fpGo/v2"
)

// ---------------------------------------------------------------------------------- operands

type c05List struct {
	isNil bool
	v     []int
}

func c05ParseInts(s string) ([]int, bool) {
	if !strings.HasPrefix(s, "[") || !strings.HasSuffix(s, "]") {
		return nil, false
	}
	body := s[1 : len(s)-1]
	res := []int{}
	if body == "" {
		return res, true
	}
	for _, t := range strings.Split(body, ".") {
		n, err := strconv.Atoi(t)
		if err != nil || n < 0 {
			return nil, false
		}
		res = append(res, n)
	}
	return res, true
}

func c05ParseList(s string) (c05List, bool) {
	if s == "nil" {
		return c05List{isNil: true}, true
	}
	v, ok := c05ParseInts(s)
	return c05List{v: v}, ok
}

func (l c05List) g() []int {
	if l.isNil {
		return nil
	}
	return append([]int{}, l.v...)
}

func (l c05List) i() []interface{} {
	if l.isNil {
		return nil
	}
	r := make([]interface{}, len(l.v))
	for k, x := range l.v {
		r[k] = x
	}
	return r
}

func (l c05List) gRecv() *fpgo.StreamDef[int]         { return fpgo.StreamFromArray(l.g()) }
func (l c05List) iRecv() *fpgo.StreamForInterfaceDef { return fpgo.StreamForInterface.FromArray(l.i()) }
func (l c05List) gArg() *fpgo.StreamDef[int] {
	if l.isNil {
		return nil
	}
	return fpgo.StreamFromArray(l.g())
}
func (l c05List) iArg() *fpgo.StreamForInterfaceDef {
	if l.isNil {
		return nil
	}
	return fpgo.StreamForInterface.FromArray(l.i())
}

type c05KV struct{ k, v int }
type c05Map struct {
	isNil, nilMap bool
	kv            []c05KV
}

func c05ParseMap(s string) (c05Map, bool) {
	if s == "nil" {
		return c05Map{isNil: true}, true
	}
	if s == "nilmap" {
		return c05Map{nilMap: true}, true
	}
	if !strings.HasPrefix(s, "{") || !strings.HasSuffix(s, "}") {
		return c05Map{}, false
	}
	body := s[1 : len(s)-1]
	m := c05Map{}
	if body == "" {
		return m, true
	}
	for _, e := range strings.Split(body, ",") {
		p := strings.Split(e, ":")
		if len(p) != 2 {
			return m, false
		}
		k, e1 := strconv.Atoi(p[0])
		v, e2 := strconv.Atoi(p[1])
		if e1 != nil || e2 != nil {
			return m, false
		}
		m.kv = append(m.kv, c05KV{k, v})
	}
	return m, true
}

func (m c05Map) g() map[int]int {
	if m.isNil || m.nilMap {
		return nil
	}
	r := map[int]int{}
	for _, e := range m.kv {
		r[e.k] = e.v
	}
	return r
}

func (m c05Map) i() map[interface{}]interface{} {
	if m.isNil || m.nilMap {
		return nil
	}
	r := map[interface{}]interface{}{}
	for _, e := range m.kv {
		r[e.k] = e.v
	}
	return r
}

func (m c05Map) gRecv() *fpgo.MapSetDef[int, int]  { return fpgo.SetFromMap[int, int](m.g()) }
func (m c05Map) iRecv() *fpgo.SetForInterfaceDef { return fpgo.SetForInterfaceFromMap(m.i()) }
func (m c05Map) gArg() fpgo.SetDef[int, int] {
	if m.isNil {
		return nil
	}
	return fpgo.SetFromMap[int, int](m.g())
}
func (m c05Map) iArg() *fpgo.SetForInterfaceDef {
	if m.isNil {
		return nil
	}
	return fpgo.SetForInterfaceFromMap(m.i())
}

type c05KS struct {
	k int
	s []int
}
type c05SS struct {
	isNil bool
	ks    []c05KS
}

func c05ParseSS(s string) (c05SS, bool) {
	if s == "nil" {
		return c05SS{isNil: true}, true
	}
	if !strings.HasPrefix(s, "{") || !strings.HasSuffix(s, "}") {
		return c05SS{}, false
	}
	body := s[1 : len(s)-1]
	m := c05SS{}
	if body == "" {
		return m, true
	}
	for _, e := range strings.Split(body, ",") {
		p := strings.Split(e, ":")
		if len(p) != 2 {
			return m, false
		}
		k, e1 := strconv.Atoi(p[0])
		v, ok := c05ParseInts(p[1])
		if e1 != nil || !ok {
			return m, false
		}
		m.ks = append(m.ks, c05KS{k, v})
	}
	return m, true
}

func (m c05SS) gRecv() *fpgo.StreamSetDef[int, int] {
	var src map[int]*fpgo.StreamDef[int]
	if !m.isNil {
		src = map[int]*fpgo.StreamDef[int]{}
		for _, e := range m.ks {
			src[e.k] = fpgo.StreamFromArray(append([]int{}, e.s...))
		}
	}
	return fpgo.StreamSetFromMap(src)
}

func (m c05SS) iRecv() *fpgo.StreamSetForInterfaceDef {
	var src map[interface{}]*fpgo.StreamForInterfaceDef
	if !m.isNil {
		src = map[interface{}]*fpgo.StreamForInterfaceDef{}
		for _, e := range m.ks {
			src[e.k] = fpgo.StreamForInterface.FromArray(c05List{v: e.s}.i())
		}
	}
	return fpgo.StreamSetForInterfaceFromMap(src)
}

func (m c05SS) gArg() *fpgo.StreamSetDef[int, int] {
	if m.isNil {
		return nil
	}
	return m.gRecv()
}

// argument of the promoted MapSetDef methods (Minus, IsSubsetByKey, IsSupersetByKey)
func (m c05SS) gArgSet() fpgo.SetDef[int, *fpgo.StreamDef[int]] {
	if m.isNil {
		return nil
	}
	return m.gRecv().AsMapSet()
}

func (m c05SS) iArg() *fpgo.StreamSetForInterfaceDef {
	if m.isNil {
		return nil
	}
	return m.iRecv()
}

// ---------------------------------------------------------------------------------- printing

func c05ShowInts(l []int) string {
	p := make([]string, len(l))
	for k, x := range l {
		p[k] = strconv.Itoa(x)
	}
	return "[" + strings.Join(p, ".") + "]"
}

func c05ShowSorted(l []int) string {
	c := append([]int{}, l...)
	sort.Ints(c)
	return c05ShowInts(c)
}

// interface{} element / key: must be an int (anything else is printed verbatim and will mismatch)
func c05Elem(v interface{}) string {
	switch x := v.(type) {
	case int:
		return strconv.Itoa(x)
	case nil:
		return "nil"
	}
	return fmt.Sprintf("?%v", v)
}

// interface{} map value: the zero value of the value type (nil interface) is the twin of int 0
func c05Val(v interface{}) string {
	switch x := v.(type) {
	case nil:
		return "0"
	case int:
		return strconv.Itoa(x)
	}
	return fmt.Sprintf("%v", v)
}

func c05ShowIfaces(l []interface{}) string {
	p := make([]string, len(l))
	for k, x := range l {
		p[k] = c05Elem(x)
	}
	return "[" + strings.Join(p, ".") + "]"
}

func c05ShowIfacesSorted(l []interface{}) string {
	ints := make([]int, 0, len(l))
	for _, x := range l {
		n, ok := x.(int)
		if !ok {
			return "?" + c05ShowIfaces(l)
		}
		ints = append(ints, n)
	}
	return c05ShowSorted(ints)
}

func c05ShowBool(b bool) string {
	if b {
		return "true"
	}
	return "false"
}

type c05Entry struct {
	k int
	s string
}

func c05ShowEntries(es []c05Entry) string {
	sort.Slice(es, func(a, b int) bool { return es[a].k < es[b].k })
	p := make([]string, len(es))
	for k, e := range es {
		p[k] = strconv.Itoa(e.k) + ":" + e.s
	}
	return "{" + strings.Join(p, ",") + "}"
}

func c05ShowMapG(m map[int]int) string {
	es := []c05Entry{}
	for k, v := range m {
		es = append(es, c05Entry{k, strconv.Itoa(v)})
	}
	return c05ShowEntries(es)
}

func c05ShowMapI(m map[interface{}]interface{}) string {
	es := []c05Entry{}
	for k, v := range m {
		n, ok := k.(int)
		if !ok {
			return fmt.Sprintf("?%v", m)
		}
		es = append(es, c05Entry{n, c05Val(v)})
	}
	return c05ShowEntries(es)
}

func c05ShowSSG(m map[int]*fpgo.StreamDef[int]) string {
	es := []c05Entry{}
	for k, v := range m {
		if v == nil {
			es = append(es, c05Entry{k, "nil"})
		} else {
			es = append(es, c05Entry{k, c05ShowInts(*v)})
		}
	}
	return c05ShowEntries(es)
}

func c05ShowSSI(m map[interface{}]interface{}) string {
	es := []c05Entry{}
	for k, v := range m {
		n, ok := k.(int)
		if !ok {
			return fmt.Sprintf("?%v", m)
		}
		s, ok := v.(*fpgo.StreamForInterfaceDef)
		if !ok {
			return fmt.Sprintf("?%v", m)
		}
		if s == nil {
			es = append(es, c05Entry{n, "nil"})
		} else {
			es = append(es, c05Entry{n, c05ShowIfaces(*s)})
		}
	}
	return c05ShowEntries(es)
}

func c05Try(f func() string) (out string) {
	defer func() {
		if r := recover(); r != nil {
			out = "panic"
		}
	}()
	return f()
}

func c05Both(g, i func() string) string { return "g=" + c05Try(g) + " i=" + c05Try(i) }
func c05Only(g func() string) string    { return "g=" + c05Try(g) }

func c05OpArg(op string) (string, string) {
	k := strings.Index(op, ":")
	if k < 0 {
		return op, ""
	}
	return op[:k], op[k+1:]
}

// ---------------------------------------------------------------------------------- kind L

func c05RunL(o []c05List, op string) string {
	name, arg := c05OpArg(op)
	gs := func() [][]int {
		if len(o) == 0 {
			return nil
		}
		r := make([][]int, len(o))
		for k := range o {
			r[k] = o[k].g()
		}
		return r
	}
	is := func() [][]interface{} {
		if len(o) == 0 {
			return nil
		}
		r := make([][]interface{}, len(o))
		for k := range o {
			r[k] = o[k].i()
		}
		return r
	}
	need := func(n int) bool { return len(o) >= n }
	switch name {
	case "union":
		return c05Only(func() string { return c05ShowSorted(fpgo.Union(gs()...)) })
	case "inter":
		return c05Both(func() string { return c05ShowInts(fpgo.Intersection(gs()...)) },
			func() string { return c05ShowIfaces(fpgo.IntersectionForInterface(is()...)) })
	case "diff":
		return c05Only(func() string { return c05ShowInts(fpgo.Difference(gs()...)) })
	case "inter0":
		return c05Both(func() string { return c05ShowInts(fpgo.Intersection([][]int{}...)) },
			func() string { return c05ShowIfaces(fpgo.IntersectionForInterface([][]interface{}{}...)) })
	case "diff0":
		return c05Only(func() string { return c05ShowInts(fpgo.Difference([][]int{}...)) })
	}
	if !need(1) {
		return "bad-op"
	}
	a := o[0]
	switch name {
	case "distinct":
		return c05Both(func() string { return c05ShowInts(fpgo.Distinct(a.g()...)) },
			func() string { return c05ShowIfaces(fpgo.DistinctForInterface(a.i()...)) })
	case "s.distinct":
		return c05Both(func() string { return c05ShowInts(*a.gRecv().Distinct()) },
			func() string { return c05ShowIfaces(*a.iRecv().Distinct()) })
	case "s.clone":
		return c05Both(func() string { return c05ShowInts(*a.gRecv().Clone()) },
			func() string { return c05ShowIfaces(*a.iRecv().Clone()) })
	case "s.reverse":
		return c05Both(func() string { return c05ShowInts(*a.gRecv().Reverse()) },
			func() string { return c05ShowIfaces(*a.iRecv().Reverse()) })
	case "has", "s.has":
		x, err := strconv.Atoi(arg)
		if err != nil {
			return "bad-op"
		}
		if name == "has" {
			return c05Both(func() string { return c05ShowBool(fpgo.Exists(x, a.g()...)) },
				func() string { return c05ShowBool(fpgo.ExistsForInterface(x, a.i()...)) })
		}
		return c05Both(func() string { return c05ShowBool(a.gRecv().Contains(x)) },
			func() string { return c05ShowBool(a.iRecv().Contains(x)) })
	case "s.remove":
		x, err := strconv.Atoi(arg)
		if err != nil {
			return "bad-op"
		}
		return c05Both(func() string { return c05ShowInts(*a.gRecv().Remove(x)) },
			func() string { return c05ShowIfaces(*a.iRecv().Remove(x)) })
	case "s.concat":
		return c05Both(func() string {
			var sl [][]int
			for _, b := range o[1:] {
				sl = append(sl, b.g())
			}
			return c05ShowInts(*a.gRecv().Concat(sl...))
		}, func() string {
			var sl [][]interface{}
			for _, b := range o[1:] {
				sl = append(sl, b.i())
			}
			return c05ShowIfaces(*a.iRecv().Concat(sl...))
		})
	case "s.extend":
		return c05Both(func() string {
			var sl []*fpgo.StreamDef[int]
			for _, b := range o[1:] {
				sl = append(sl, b.gArg())
			}
			return c05ShowInts(*a.gRecv().Extend(sl...))
		}, func() string {
			var sl []*fpgo.StreamForInterfaceDef
			for _, b := range o[1:] {
				sl = append(sl, b.iArg())
			}
			return c05ShowIfaces(*a.iRecv().Extend(sl...))
		})
	}
	if !need(2) {
		return "bad-op"
	}
	b := o[1]
	switch name {
	case "minus":
		return c05Both(func() string { return c05ShowInts(fpgo.Minus(a.g(), b.g())) },
			func() string { return c05ShowIfaces(fpgo.MinusForInterface(a.i(), b.i())) })
	case "subset":
		return c05Both(func() string { return c05ShowBool(fpgo.IsSubset(a.g(), b.g())) },
			func() string { return c05ShowBool(fpgo.IsSubsetForInterface(a.i(), b.i())) })
	case "superset":
		return c05Both(func() string { return c05ShowBool(fpgo.IsSuperset(a.g(), b.g())) },
			func() string { return c05ShowBool(fpgo.IsSupersetForInterface(a.i(), b.i())) })
	case "s.inter":
		return c05Both(func() string { return c05ShowInts(*a.gRecv().Intersection(b.gArg())) },
			func() string { return c05ShowIfaces(*a.iRecv().Intersection(b.iArg())) })
	case "s.minus":
		return c05Both(func() string { return c05ShowInts(*a.gRecv().Minus(b.gArg())) },
			func() string { return c05ShowIfaces(*a.iRecv().Minus(b.iArg())) })
	case "s.subset":
		return c05Both(func() string { return c05ShowBool(a.gRecv().IsSubset(b.gArg())) },
			func() string { return c05ShowBool(a.iRecv().IsSubset(b.iArg())) })
	case "s.superset":
		return c05Both(func() string { return c05ShowBool(a.gRecv().IsSuperset(b.gArg())) },
			func() string { return c05ShowBool(a.iRecv().IsSuperset(b.iArg())) })
	case "s.rmitem":
		return c05Both(func() string { return c05ShowInts(*a.gRecv().RemoveItem(b.g()...)) },
			func() string { return c05ShowIfaces(*a.iRecv().RemoveItem(b.i()...)) })
	case "s.append":
		return c05Both(func() string { return c05ShowInts(*a.gRecv().Append(b.g()...)) },
			func() string { return c05ShowIfaces(*a.iRecv().Append(b.i()...)) })
	}
	return "bad-op"
}

// ---------------------------------------------------------------------------------- kind M

func c05RunM(o []c05Map, op string) string {
	name, arg := c05OpArg(op)
	switch name {
	case "intermap":
		return c05Both(func() string {
			var ms []map[int]int
			for _, m := range o {
				ms = append(ms, m.g())
			}
			return c05ShowMapG(fpgo.IntersectionMapByKey(ms...))
		}, func() string {
			var ms []map[interface{}]interface{}
			for _, m := range o {
				ms = append(ms, m.i())
			}
			return c05ShowMapI(fpgo.IntersectionMapByKeyForInterface(ms...))
		})
	case "m.fromarray":
		l, ok := c05ParseInts(arg)
		if !ok {
			return "bad-op"
		}
		return c05Both(func() string { return c05ShowMapG(*fpgo.SetFromArray[int, int](l)) },
			func() string { return c05ShowMapI(*fpgo.SetForInterfaceFromArray(c05List{v: l}.i())) })
	}
	if len(o) < 1 {
		return "bad-op"
	}
	a := o[0]
	switch name {
	case "m.add", "m.rmkeys":
		l, ok := c05ParseInts(arg)
		if !ok {
			return "bad-op"
		}
		if name == "m.add" {
			return c05Both(func() string { return c05ShowMapG(a.gRecv().Add(l...).AsMap()) },
				func() string { return c05ShowMapI(*a.iRecv().Add(c05List{v: l}.i()...)) })
		}
		return c05Both(func() string { return c05ShowMapG(a.gRecv().RemoveKeys(l...).AsMap()) },
			func() string { return c05ShowMapI(*a.iRecv().RemoveKeys(c05List{v: l}.i()...)) })
	case "m.has":
		x, err := strconv.Atoi(arg)
		if err != nil {
			return "bad-op"
		}
		return c05Both(func() string { return c05ShowBool(a.gRecv().ContainsKey(x)) },
			func() string { return c05ShowBool(a.iRecv().ContainsKey(x)) })
	case "m.keys":
		return c05Both(func() string { return c05ShowSorted(a.gRecv().Keys()) },
			func() string { return c05ShowIfacesSorted(a.iRecv().Keys()) })
	case "m.size":
		return c05Both(func() string { return strconv.Itoa(a.gRecv().Size()) },
			func() string { return strconv.Itoa(a.iRecv().Size()) })
	case "m.clone":
		return c05Both(func() string { return c05ShowMapG(a.gRecv().Clone().AsMap()) },
			func() string { return c05ShowMapI(*a.iRecv().Clone()) })
	}
	if len(o) < 2 {
		return "bad-op"
	}
	b := o[1]
	switch name {
	case "m.union":
		return c05Both(func() string { return c05ShowMapG(a.gRecv().Union(b.gArg()).AsMap()) },
			func() string { return c05ShowMapI(*a.iRecv().Union(b.iArg())) })
	case "m.inter":
		return c05Both(func() string { return c05ShowMapG(a.gRecv().Intersection(b.gArg()).AsMap()) },
			func() string { return c05ShowMapI(*a.iRecv().Intersection(b.iArg())) })
	case "m.minus":
		return c05Both(func() string { return c05ShowMapG(a.gRecv().Minus(b.gArg()).AsMap()) },
			func() string { return c05ShowMapI(*a.iRecv().Minus(b.iArg())) })
	case "m.subset":
		return c05Both(func() string { return c05ShowBool(a.gRecv().IsSubsetByKey(b.gArg())) },
			func() string { return c05ShowBool(a.iRecv().IsSubsetByKey(b.iArg())) })
	case "m.superset":
		return c05Both(func() string { return c05ShowBool(a.gRecv().IsSupersetByKey(b.gArg())) },
			func() string { return c05ShowBool(a.iRecv().IsSupersetByKey(b.iArg())) })
	case "merge":
		return c05Both(func() string { return c05ShowMapG(fpgo.Merge(a.g(), b.g())) },
			func() string { return c05ShowMapI(fpgo.MergeForInterface(a.i(), b.i())) })
	case "minusmap":
		return c05Only(func() string { return c05ShowMapG(fpgo.MinusMapByKey(a.g(), b.g())) })
	case "subsetmap":
		return c05Both(func() string { return c05ShowBool(fpgo.IsSubsetMapByKey(a.g(), b.g())) },
			func() string { return c05ShowBool(fpgo.IsSubsetMapByKeyForInterface(a.i(), b.i())) })
	case "supersetmap":
		return c05Both(func() string { return c05ShowBool(fpgo.IsSupersetMapByKey(a.g(), b.g())) },
			func() string { return c05ShowBool(fpgo.IsSupersetMapByKeyForInterface(a.i(), b.i())) })
	}
	return "bad-op"
}

// ---------------------------------------------------------------------------------- kind S

func c05RunS(o []c05SS, op string) string {
	if len(o) < 1 {
		return "bad-op"
	}
	a := o[0]
	switch op {
	case "ss.clone":
		return c05Both(func() string { return c05ShowSSG(a.gRecv().Clone().MapSetDef) },
			func() string { return c05ShowSSI(a.iRecv().Clone().SetForInterfaceDef) })
	case "ss.frommap":
		return c05Both(func() string { return c05ShowSSG(a.gRecv().MapSetDef) },
			func() string { return c05ShowSSI(a.iRecv().SetForInterfaceDef) })
	}
	if len(o) < 2 {
		return "bad-op"
	}
	b := o[1]
	switch op {
	case "ss.union":
		return c05Both(func() string { return c05ShowSSG(a.gRecv().Union(b.gArg()).MapSetDef) },
			func() string { return c05ShowSSI(a.iRecv().Union(b.iArg()).SetForInterfaceDef) })
	case "ss.inter":
		return c05Both(func() string { return c05ShowSSG(a.gRecv().Intersection(b.gArg()).MapSetDef) },
			func() string { return c05ShowSSI(a.iRecv().Intersection(b.iArg()).SetForInterfaceDef) })
	case "ss.minusstreams":
		return c05Both(func() string { return c05ShowSSG(a.gRecv().MinusStreams(b.gArg()).MapSetDef) },
			func() string { return c05ShowSSI(a.iRecv().MinusStreams(b.iArg()).SetForInterfaceDef) })
	case "ss.minus":
		return c05Both(func() string { return c05ShowSSG(a.gRecv().Minus(b.gArgSet()).AsMap()) },
			func() string { return c05ShowSSI(a.iRecv().Minus(b.iArg()).SetForInterfaceDef) })
	case "ss.subset":
		return c05Both(func() string { return c05ShowBool(a.gRecv().IsSubsetByKey(b.gArgSet())) },
			func() string { return c05ShowBool(a.iRecv().IsSubsetByKey(b.iArg())) })
	case "ss.superset":
		return c05Both(func() string { return c05ShowBool(a.gRecv().IsSupersetByKey(b.gArgSet())) },
			func() string { return c05ShowBool(a.iRecv().IsSupersetByKey(b.iArg())) })
	}
	return "bad-op"
}

// ---------------------------------------------------------------------------------- runner

func c05Run(line string) string {
	head, body := line, ""
	if k := strings.Index(line, ": "); k >= 0 {
		head, body = line[:k], line[k+2:]
	} else if strings.HasSuffix(line, ":") {
		head = line[:len(line)-1]
	}
	hs := strings.Fields(head)
	if len(hs) == 0 {
		return ""
	}
	kind, opds := hs[0], hs[1:]
	var ops []string
	for _, t := range strings.Split(body, ";") {
		t = strings.TrimSpace(t)
		if t != "" {
			ops = append(ops, t)
		}
	}
	outs := make([]string, 0, len(ops))
	switch kind {
	case "L":
		o := make([]c05List, len(opds))
		okAll := true
		for k, s := range opds {
			var ok bool
			o[k], ok = c05ParseList(s)
			okAll = okAll && ok
		}
		for _, op := range ops {
			if !okAll {
				outs = append(outs, "g=bad-op")
				continue
			}
			outs = append(outs, c05Fix(c05RunL(o, op)))
		}
	case "M":
		o := make([]c05Map, len(opds))
		okAll := true
		for k, s := range opds {
			var ok bool
			o[k], ok = c05ParseMap(s)
			okAll = okAll && ok
		}
		for _, op := range ops {
			if !okAll {
				outs = append(outs, "g=bad-op")
				continue
			}
			outs = append(outs, c05Fix(c05RunM(o, op)))
		}
	case "S":
		o := make([]c05SS, len(opds))
		okAll := true
		for k, s := range opds {
			var ok bool
			o[k], ok = c05ParseSS(s)
			okAll = okAll && ok
		}
		for _, op := range ops {
			if !okAll {
				outs = append(outs, "g=bad-op")
				continue
			}
			outs = append(outs, c05Fix(c05RunS(o, op)))
		}
	default:
		for range ops {
			outs = append(outs, "g=bad-op")
		}
	}
	return strings.Join(outs, " | ")
}

func c05Fix(s string) string {
	if s == "bad-op" {
		return "g=bad-op"
	}
	return s
}

// ---------------------------------------------------------------------------------- generators

func c05Lists(alpha, maxLen int, withNil bool) []string {
	var res []string
	if withNil {
		res = append(res, "nil")
	}
	var rec func(prefix []int)
	rec = func(prefix []int) {
		res = append(res, c05ShowInts(prefix))
		if len(prefix) == maxLen {
			return
		}
		for x := 0; x < alpha; x++ {
			rec(append(append([]int{}, prefix...), x))
		}
	}
	rec(nil)
	return res
}

func c05RandList(rng *rand.Rand, alpha, maxLen int) string {
	if rng.Intn(12) == 0 {
		return "nil"
	}
	n := rng.Intn(maxLen + 1)
	l := make([]int, n)
	for k := range l {
		l[k] = rng.Intn(alpha)
	}
	return c05ShowInts(l)
}

const (
	c05Ops0  = "union ; inter ; diff ; inter0 ; diff0"
	c05Ops1  = "union ; inter ; diff ; distinct ; s.distinct ; s.clone ; s.reverse ; s.concat ; s.extend ; has:0 ; has:3 ; s.has:1 ; s.has:2 ; s.remove:-1 ; s.remove:0 ; s.remove:1 ; s.remove:2 ; s.remove:3"
	c05Ops2  = "union ; inter ; diff ; minus ; subset ; superset ; s.inter ; s.minus ; s.subset ; s.superset ; s.rmitem ; s.append ; s.concat ; s.extend"
	c05Ops3  = "union ; inter ; diff ; s.concat ; s.extend"
	c05OpsM1 = "m.keys ; m.size ; m.clone ; m.has:0 ; m.has:2 ; m.add:[] ; m.add:[0] ; m.add:[3.1.3] ; m.rmkeys:[] ; m.rmkeys:[1] ; m.rmkeys:[0.2.0] ; intermap"
	c05OpsM2 = "m.union ; m.inter ; m.minus ; m.subset ; m.superset ; merge ; intermap ; minusmap ; subsetmap ; supersetmap"
	c05OpsM3 = "intermap"
	c05OpsS1 = "ss.clone ; ss.frommap"
	c05OpsS2 = "ss.union ; ss.inter ; ss.minusstreams ; ss.minus ; ss.subset ; ss.superset"
)

// all maps over the keys 0..nKeys-1 with at most maxKeys keys; values base+k
func c05Maps(nKeys, base int) []string {
	res := []string{"nil", "nilmap"}
	for mask := 0; mask < 1<<nKeys; mask++ {
		var p []string
		for k := 0; k < nKeys; k++ {
			if mask&(1<<k) != 0 {
				p = append(p, fmt.Sprintf("%d:%d", k, base+k))
			}
		}
		res = append(res, "{"+strings.Join(p, ",")+"}")
	}
	return res
}

// all key→stream maps with at most 2 of the keys 0..nKeys-1, streams from `streams`
func c05SSMaps(nKeys int, streams []string) []string {
	res := []string{"nil", "{}"}
	for k := 0; k < nKeys; k++ {
		for _, s := range streams {
			res = append(res, fmt.Sprintf("{%d:%s}", k, s))
		}
	}
	for k1 := 0; k1 < nKeys; k1++ {
		for k2 := k1 + 1; k2 < nKeys; k2++ {
			for _, s1 := range streams {
				for _, s2 := range streams {
					res = append(res, fmt.Sprintf("{%d:%s,%d:%s}", k1, s1, k2, s2))
				}
			}
		}
	}
	return res
}

func c05Gen(tier string, rng *rand.Rand, emit func(string)) map[string]interface{} {
	thorough := tier == "thorough"
	counts := map[string]int{}
	out := func(kind string, line string) { counts[kind]++; emit(line) }

	// ---- kind L, bounded-exhaustive
	out("L0", "L: "+c05Ops0)
	full := c05Lists(4, 3, true) // 86 operands: nil + all lists of length <= 3 over 4 letters
	for _, a := range full {
		out("L1", "L "+a+": "+c05Ops1)
	}
	for _, a := range full {
		for _, b := range full {
			out("L2", "L "+a+" "+b+": "+c05Ops2)
		}
	}
	tripleLists := c05Lists(4, 2, true) // quick: 22^3 triples
	if thorough {
		tripleLists = full // thorough: all 86^3 triples
	}
	for _, a := range tripleLists {
		for _, b := range tripleLists {
			for _, c := range tripleLists {
				out("L3", "L "+a+" "+b+" "+c+": "+c05Ops3)
			}
		}
	}
	// first operand up to length 3 over 4 letters against short second/third operands
	short := c05Lists(4, 1, true)
	for _, a := range full {
		for _, b := range short {
			for _, c := range short {
				out("L3", "L "+a+" "+b+" "+c+": "+c05Ops3)
			}
		}
	}
	// ---- kind L, random: longer lists, larger alphabet, arities 1..5
	nRand := 1500
	if thorough {
		nRand = 20000
	}
	for n := 0; n < nRand; n++ {
		ar := 1 + rng.Intn(5)
		alpha := 2 + rng.Intn(6)
		opds := make([]string, ar)
		for k := range opds {
			opds[k] = c05RandList(rng, alpha, 8)
		}
		ops := c05Ops3
		if ar == 1 {
			ops = c05Ops1
		} else if ar == 2 {
			ops = c05Ops2
		}
		ops += fmt.Sprintf(" ; s.remove:%d ; has:%d", rng.Intn(11)-1, rng.Intn(alpha))
		out("Lrand", "L "+strings.Join(opds, " ")+": "+ops)
	}

	// ---- kind M
	out("M0", "M: intermap ; m.fromarray:[] ; m.fromarray:[1] ; m.fromarray:[2.0.2.1]")
	for _, a := range c05Maps(3, 10) {
		out("M1", "M "+a+": "+c05OpsM1)
		for _, b := range c05Maps(3, 20) {
			out("M2", "M "+a+" "+b+": "+c05OpsM2)
			for _, c := range c05Maps(3, 30) {
				out("M3", "M "+a+" "+b+" "+c+": "+c05OpsM3)
			}
		}
	}
	nRandM := 400
	if thorough {
		nRandM = 5000
	}
	randMap := func() string {
		switch rng.Intn(14) {
		case 0:
			return "nil"
		case 1:
			return "nilmap"
		}
		var p []string
		for k := 0; k < 6; k++ {
			if rng.Intn(2) == 0 {
				p = append(p, fmt.Sprintf("%d:%d", k, rng.Intn(4)))
			}
		}
		return "{" + strings.Join(p, ",") + "}"
	}
	for n := 0; n < nRandM; n++ {
		ar := 1 + rng.Intn(4)
		opds := make([]string, ar)
		for k := range opds {
			opds[k] = randMap()
		}
		ops := c05OpsM3
		if ar == 1 {
			ops = c05OpsM1
		} else if ar == 2 {
			ops = c05OpsM2
		}
		ops += " ; m.add:" + c05RandList(rng, 7, 4) + " ; m.rmkeys:" + c05RandList(rng, 7, 4)
		ops = strings.ReplaceAll(ops, ":nil", ":[]")
		out("Mrand", "M "+strings.Join(opds, " ")+": "+ops)
	}

	// ---- kind S: all maps with <= 2 of 3 keys, streams over 2 letters up to length 2 (incl. empty)
	streams := c05Lists(2, 2, false)
	ss := c05SSMaps(3, streams)
	for _, a := range ss {
		out("S1", "S "+a+": "+c05OpsS1)
		for _, b := range ss {
			out("S2", "S "+a+" "+b+": "+c05OpsS2)
		}
	}
	nRandS := 800
	if thorough {
		nRandS = 10000
	}
	randSS := func() string {
		if rng.Intn(14) == 0 {
			return "nil"
		}
		var p []string
		for k := 0; k < 4; k++ {
			if rng.Intn(2) == 0 {
				s := c05RandList(rng, 4, 5)
				if s == "nil" {
					s = "[]"
				}
				p = append(p, fmt.Sprintf("%d:%s", k, s))
			}
		}
		return "{" + strings.Join(p, ",") + "}"
	}
	for n := 0; n < nRandS; n++ {
		out("Srand", "S "+randSS()+" "+randSS()+": "+c05OpsS2+" ; "+c05OpsS1)
	}
	return map[string]interface{}{
		"exhaustive": false,
		"scope": "L: arity 0; all 86 operands (nil + lists of length <= 3 over 4 letters) for arity 1 and all 86^2 pairs; " +
			"triples: quick 22^3 (length <= 2 over 4 letters) + 86x6x6, thorough all 86^3; random arity 1..5, length <= 8, alphabet <= 7. " +
			"M: all maps over 3 keys + nil + nil map, pairs and triples; random 6-key maps. " +
			"S: all key->stream maps with <= 2 of 3 keys, streams of length <= 2 over 2 letters (incl. empty) + nil, all pairs; random 4-key maps, streams length <= 5 over 4 letters",
		"cases_by_kind": counts,
	}
}

func init() { register("C05", &Prop{Gen: c05Gen, Run: c05Run, CaseTimeout: 5 * time.Second}) }
