package main

// C05 — set algebra of both API families (generic and interface{}) vs the Lean models / set laws.
//
// Case line:   <kind> <operand>* : <op> ; <op> ; …
//   kind L  element lists     nil | [] | [0.1.2]          (fp.go slice functions and Stream methods)
//   kind M  key→value maps    nil | nilmap | {} | {0:10,1:11}   (MapSet / SetForInterface, map functions)
//   kind S  key→stream maps   nil | {} | {0:[0.1],1:[]}    (StreamSet / StreamSetForInterface)
//   kind Q  like S, but the operands are built ONCE and the ops (`union:r:a`, `inter:r:a`, `minusstreams:r:a`,
//           `minus:r:a`, `clone:r`; a = `n` is a nil argument) form a history on the same objects: every result is
//           appended as a new object and after every op ALL objects are printed `<o0>|<o1>|…|<result>`.  A stream
//           written `[0.1+2]` is built with two spare slots of capacity behind its two items.
// Long operands are written compactly: `[0.1.2*140]` = the pattern cycled to 140 items; a map entry `0-63:5` /
// `0-63:[0.1*70]` = the keys 0..63 each with that value / stream.
// Function arguments (`s.map:k`, `s.filter:k`, `s.sort:k`, `m.mapkey:k`, …) index the family shared with C04
// (c04MapFn, c04PredFn, c04LessFn, c04KeyFn, c04ValFn).
// `nil` = nil slice for function operands, nil pointer / nil interface for method arguments; a
// receiver written `nil` is a non-nil pointer to a nil slice / nil map.
// Observation: per op `g=<generic result> i=<interface{} twin result>` (or `g=<…>` when the function
// has no twin), joined by " | ".  Everything that comes out of a Go map is sorted.  Each twin is run
// on its own freshly built operands with its own recover (`panic`).

import (
	"fmt"
	"math/rand"
	"sort"
	"strconv"
	"strings"
	"time"

	fpgo "github.com/TeaEntityLab/fpGo/v2"
)

// ---------------------------------------------------------------------------------- operands

type c05List struct {
	isNil bool
	v     []int
	spare int // extra capacity behind the items (only used by the history kinds)
}

func c05ParseInts(s string) ([]int, bool) {
	v, _, ok := c05ParseIntsSpare(s)
	return v, ok
}

// `[0.1+2]`: items 0,1 and 2 spare slots of capacity
func c05ParseIntsSpare(s string) ([]int, int, bool) {
	if !strings.HasPrefix(s, "[") || !strings.HasSuffix(s, "]") {
		return nil, 0, false
	}
	body := s[1 : len(s)-1]
	spare := 0
	if k := strings.Index(body, "+"); k >= 0 {
		n, err := strconv.Atoi(body[k+1:])
		if err != nil || n < 0 {
			return nil, 0, false
		}
		spare, body = n, body[:k]
	}
	// `0.1.2*140` = the pattern cycled to 140 items
	if k := strings.Index(body, "*"); k >= 0 {
		n, err := strconv.Atoi(body[k+1:])
		pat, ok := c05ParseIntsBody(body[:k])
		if err != nil || n < 0 || !ok || (n > 0 && len(pat) == 0) {
			return nil, 0, false
		}
		v := make([]int, n)
		for i := range v {
			v[i] = pat[i%len(pat)]
		}
		return v, spare, true
	}
	v, ok := c05ParseIntsBody(body)
	return v, spare, ok
}

// key part of a map entry: `7` or the range `0-63`
func c05ParseKeys(s string) ([]int, bool) {
	if k := strings.Index(s, "-"); k > 0 {
		a, e1 := strconv.Atoi(s[:k])
		b, e2 := strconv.Atoi(s[k+1:])
		if e1 != nil || e2 != nil || a < 0 || a > b {
			return nil, false
		}
		r := make([]int, 0, b-a+1)
		for x := a; x <= b; x++ {
			r = append(r, x)
		}
		return r, true
	}
	a, err := strconv.Atoi(s)
	if err != nil {
		return nil, false
	}
	return []int{a}, true
}

func c05ParseIntsBody(body string) ([]int, bool) {
	res := []int{}
	if body == "" {
		return res, true
	}
	for _, t := range strings.Split(body, ".") {
		n, err := strconv.Atoi(t)
		if err != nil || n < 0 {
			return nil, false
		}
		res = append(res, n)
	}
	return res, true
}

func c05ParseList(s string) (c05List, bool) {
	if s == "nil" {
		return c05List{isNil: true}, true
	}
	v, spare, ok := c05ParseIntsSpare(s)
	return c05List{v: v, spare: spare}, ok
}

func (l c05List) g() []int {
	if l.isNil {
		return nil
	}
	return append([]int{}, l.v...)
}

func (l c05List) i() []interface{} {
	if l.isNil {
		return nil
	}
	r := make([]interface{}, len(l.v))
	for k, x := range l.v {
		r[k] = x
	}
	return r
}

func (l c05List) gRecv() *fpgo.StreamDef[int]         { return fpgo.StreamFromArray(l.g()) }
func (l c05List) iRecv() *fpgo.StreamForInterfaceDef { return fpgo.StreamForInterface.FromArray(l.i()) }
func (l c05List) gArg() *fpgo.StreamDef[int] {
	if l.isNil {
		return nil
	}
	return fpgo.StreamFromArray(l.g())
}
func (l c05List) iArg() *fpgo.StreamForInterfaceDef {
	if l.isNil {
		return nil
	}
	return fpgo.StreamForInterface.FromArray(l.i())
}

type c05KV struct{ k, v int }
type c05Map struct {
	isNil, nilMap bool
	kv            []c05KV
}

func c05ParseMap(s string) (c05Map, bool) {
	if s == "nil" {
		return c05Map{isNil: true}, true
	}
	if s == "nilmap" {
		return c05Map{nilMap: true}, true
	}
	if !strings.HasPrefix(s, "{") || !strings.HasSuffix(s, "}") {
		return c05Map{}, false
	}
	body := s[1 : len(s)-1]
	m := c05Map{}
	if body == "" {
		return m, true
	}
	for _, e := range strings.Split(body, ",") {
		p := strings.Split(e, ":")
		if len(p) != 2 {
			return m, false
		}
		ks, ok := c05ParseKeys(p[0])
		v, e2 := strconv.Atoi(p[1])
		if !ok || e2 != nil {
			return m, false
		}
		for _, k := range ks {
			m.kv = append(m.kv, c05KV{k, v})
		}
	}
	return m, true
}

func (m c05Map) g() map[int]int {
	if m.isNil || m.nilMap {
		return nil
	}
	r := map[int]int{}
	for _, e := range m.kv {
		r[e.k] = e.v
	}
	return r
}

func (m c05Map) i() map[interface{}]interface{} {
	if m.isNil || m.nilMap {
		return nil
	}
	r := map[interface{}]interface{}{}
	for _, e := range m.kv {
		r[e.k] = e.v
	}
	return r
}

func (m c05Map) gRecv() *fpgo.MapSetDef[int, int]  { return fpgo.SetFromMap[int, int](m.g()) }
func (m c05Map) iRecv() *fpgo.SetForInterfaceDef { return fpgo.SetForInterfaceFromMap(m.i()) }
func (m c05Map) gArg() fpgo.SetDef[int, int] {
	if m.isNil {
		return nil
	}
	return fpgo.SetFromMap[int, int](m.g())
}
func (m c05Map) iArg() *fpgo.SetForInterfaceDef {
	if m.isNil {
		return nil
	}
	return fpgo.SetForInterfaceFromMap(m.i())
}

type c05KS struct {
	k     int
	s     []int
	spare int
}

func (e c05KS) gStream() *fpgo.StreamDef[int] {
	buf := make([]int, len(e.s), len(e.s)+e.spare)
	copy(buf, e.s)
	return fpgo.StreamFromArray(buf)
}

func (e c05KS) iStream() *fpgo.StreamForInterfaceDef {
	buf := make([]interface{}, len(e.s), len(e.s)+e.spare)
	for k, x := range e.s {
		buf[k] = x
	}
	return fpgo.StreamForInterface.FromArray(buf)
}
type c05SS struct {
	isNil bool
	ks    []c05KS
}

func c05ParseSS(s string) (c05SS, bool) {
	if s == "nil" {
		return c05SS{isNil: true}, true
	}
	if !strings.HasPrefix(s, "{") || !strings.HasSuffix(s, "}") {
		return c05SS{}, false
	}
	body := s[1 : len(s)-1]
	m := c05SS{}
	if body == "" {
		return m, true
	}
	for _, e := range strings.Split(body, ",") {
		p := strings.Split(e, ":")
		if len(p) != 2 {
			return m, false
		}
		ks, okk := c05ParseKeys(p[0])
		v, spare, ok := c05ParseIntsSpare(p[1])
		if !okk || !ok {
			return m, false
		}
		for _, k := range ks {
			m.ks = append(m.ks, c05KS{k, v, spare})
		}
	}
	return m, true
}

func (m c05SS) gRecv() *fpgo.StreamSetDef[int, int] {
	var src map[int]*fpgo.StreamDef[int]
	if !m.isNil {
		src = map[int]*fpgo.StreamDef[int]{}
		for _, e := range m.ks {
			src[e.k] = e.gStream()
		}
	}
	return fpgo.StreamSetFromMap(src)
}

func (m c05SS) iRecv() *fpgo.StreamSetForInterfaceDef {
	var src map[interface{}]*fpgo.StreamForInterfaceDef
	if !m.isNil {
		src = map[interface{}]*fpgo.StreamForInterfaceDef{}
		for _, e := range m.ks {
			src[e.k] = e.iStream()
		}
	}
	return fpgo.StreamSetForInterfaceFromMap(src)
}

func (m c05SS) gArg() *fpgo.StreamSetDef[int, int] {
	if m.isNil {
		return nil
	}
	return m.gRecv()
}

// argument of the promoted MapSetDef methods (Minus, IsSubsetByKey, IsSupersetByKey)
func (m c05SS) gArgSet() fpgo.SetDef[int, *fpgo.StreamDef[int]] {
	if m.isNil {
		return nil
	}
	return m.gRecv().AsMapSet()
}

func (m c05SS) iArg() *fpgo.StreamSetForInterfaceDef {
	if m.isNil {
		return nil
	}
	return m.iRecv()
}

// ---------------------------------------------------------------------------------- printing

func c05ShowInts(l []int) string {
	p := make([]string, len(l))
	for k, x := range l {
		p[k] = strconv.Itoa(x)
	}
	return "[" + strings.Join(p, ".") + "]"
}

func c05ShowSorted(l []int) string {
	c := append([]int{}, l...)
	sort.Ints(c)
	return c05ShowInts(c)
}

// interface{} element / key: must be an int (anything else is printed verbatim and will mismatch)
func c05Elem(v interface{}) string {
	switch x := v.(type) {
	case int:
		return strconv.Itoa(x)
	case nil:
		return "nil"
	}
	return fmt.Sprintf("?%v", v)
}

// interface{} map value: the zero value of the value type (nil interface) is the twin of int 0
func c05Val(v interface{}) string {
	switch x := v.(type) {
	case nil:
		return "0"
	case int:
		return strconv.Itoa(x)
	}
	return fmt.Sprintf("%v", v)
}

func c05ShowIfaces(l []interface{}) string {
	p := make([]string, len(l))
	for k, x := range l {
		p[k] = c05Elem(x)
	}
	return "[" + strings.Join(p, ".") + "]"
}

func c05ShowIfacesSorted(l []interface{}) string {
	ints := make([]int, 0, len(l))
	for _, x := range l {
		n, ok := x.(int)
		if !ok {
			return "?" + c05ShowIfaces(l)
		}
		ints = append(ints, n)
	}
	return c05ShowSorted(ints)
}

func c05ShowBool(b bool) string {
	if b {
		return "true"
	}
	return "false"
}

type c05Entry struct {
	k int
	s string
}

func c05ShowEntries(es []c05Entry) string {
	sort.Slice(es, func(a, b int) bool { return es[a].k < es[b].k })
	p := make([]string, len(es))
	for k, e := range es {
		p[k] = strconv.Itoa(e.k) + ":" + e.s
	}
	return "{" + strings.Join(p, ",") + "}"
}

func c05ShowMapG(m map[int]int) string {
	es := []c05Entry{}
	for k, v := range m {
		es = append(es, c05Entry{k, strconv.Itoa(v)})
	}
	return c05ShowEntries(es)
}

func c05ShowMapI(m map[interface{}]interface{}) string {
	es := []c05Entry{}
	for k, v := range m {
		n, ok := k.(int)
		if !ok {
			return fmt.Sprintf("?%v", m)
		}
		es = append(es, c05Entry{n, c05Val(v)})
	}
	return c05ShowEntries(es)
}

func c05ShowSSG(m map[int]*fpgo.StreamDef[int]) string {
	es := []c05Entry{}
	for k, v := range m {
		if v == nil {
			es = append(es, c05Entry{k, "nil"})
		} else {
			es = append(es, c05Entry{k, c05ShowInts(*v)})
		}
	}
	return c05ShowEntries(es)
}

func c05ShowSSI(m map[interface{}]interface{}) string {
	es := []c05Entry{}
	for k, v := range m {
		n, ok := k.(int)
		if !ok {
			return fmt.Sprintf("?%v", m)
		}
		if v == nil {
			es = append(es, c05Entry{n, "nil"})
			continue
		}
		s, ok := v.(*fpgo.StreamForInterfaceDef)
		if !ok {
			return fmt.Sprintf("?%v", m)
		}
		if s == nil {
			es = append(es, c05Entry{n, "nil"})
		} else {
			es = append(es, c05Entry{n, c05ShowIfaces(*s)})
		}
	}
	return c05ShowEntries(es)
}

func c05Try(f func() string) (out string) {
	defer func() {
		if r := recover(); r != nil {
			out = "panic"
		}
	}()
	return f()
}

func c05Both(g, i func() string) string { return "g=" + c05Try(g) + " i=" + c05Try(i) }
func c05Only(g func() string) string    { return "g=" + c05Try(g) }

func c05OpArg(op string) (string, string) {
	k := strings.Index(op, ":")
	if k < 0 {
		return op, ""
	}
	return op[:k], op[k+1:]
}

// ---------------------------------------------------------------------------------- kind L

func c05RunL(o []c05List, op string) string {
	name, arg := c05OpArg(op)
	gs := func() [][]int {
		if len(o) == 0 {
			return nil
		}
		r := make([][]int, len(o))
		for k := range o {
			r[k] = o[k].g()
		}
		return r
	}
	is := func() [][]interface{} {
		if len(o) == 0 {
			return nil
		}
		r := make([][]interface{}, len(o))
		for k := range o {
			r[k] = o[k].i()
		}
		return r
	}
	need := func(n int) bool { return len(o) >= n }
	switch name {
	case "union":
		return c05Only(func() string { return c05ShowSorted(fpgo.Union(gs()...)) })
	case "inter":
		return c05Both(func() string { return c05ShowInts(fpgo.Intersection(gs()...)) },
			func() string { return c05ShowIfaces(fpgo.IntersectionForInterface(is()...)) })
	case "diff":
		return c05Only(func() string { return c05ShowInts(fpgo.Difference(gs()...)) })
	case "inter0":
		return c05Both(func() string { return c05ShowInts(fpgo.Intersection([][]int{}...)) },
			func() string { return c05ShowIfaces(fpgo.IntersectionForInterface([][]interface{}{}...)) })
	case "diff0":
		return c05Only(func() string { return c05ShowInts(fpgo.Difference([][]int{}...)) })
	}
	if !need(1) {
		return "bad-op"
	}
	a := o[0]
	switch name {
	case "distinct":
		return c05Both(func() string { return c05ShowInts(fpgo.Distinct(a.g()...)) },
			func() string { return c05ShowIfaces(fpgo.DistinctForInterface(a.i()...)) })
	case "s.distinct":
		return c05Both(func() string { return c05ShowInts(*a.gRecv().Distinct()) },
			func() string { return c05ShowIfaces(*a.iRecv().Distinct()) })
	case "s.clone":
		return c05Both(func() string { return c05ShowInts(*a.gRecv().Clone()) },
			func() string { return c05ShowIfaces(*a.iRecv().Clone()) })
	case "s.reverse":
		return c05Both(func() string { return c05ShowInts(*a.gRecv().Reverse()) },
			func() string { return c05ShowIfaces(*a.iRecv().Reverse()) })
	case "has", "s.has":
		x, err := strconv.Atoi(arg)
		if err != nil {
			return "bad-op"
		}
		if name == "has" {
			return c05Both(func() string { return c05ShowBool(fpgo.Exists(x, a.g()...)) },
				func() string { return c05ShowBool(fpgo.ExistsForInterface(x, a.i()...)) })
		}
		return c05Both(func() string { return c05ShowBool(a.gRecv().Contains(x)) },
			func() string { return c05ShowBool(a.iRecv().Contains(x)) })
	case "s.map", "s.filter", "s.reject", "s.sort", "s.sortidx", "s.get":
		k, err := strconv.Atoi(arg)
		if err != nil || (k < 0 && name != "s.get") {
			return "bad-op"
		}
		switch name {
		case "s.map":
			return c05Both(func() string {
				return c05ShowInts(*a.gRecv().Map(func(x int, i int) int { return c04MapFn(k, x, i) }))
			}, func() string {
				return c05ShowIfaces(*a.iRecv().Map(func(x interface{}, i int) interface{} { return c04MapFn(k, x.(int), i) }))
			})
		case "s.filter":
			return c05Both(func() string {
				return c05ShowInts(*a.gRecv().Filter(func(x int, i int) bool { return c04PredFn(k, x, i) }))
			}, func() string {
				return c05ShowIfaces(*a.iRecv().Filter(func(x interface{}, i int) bool { return c04PredFn(k, x.(int), i) }))
			})
		case "s.reject":
			return c05Both(func() string {
				return c05ShowInts(*a.gRecv().Reject(func(x int, i int) bool { return c04PredFn(k, x, i) }))
			}, func() string {
				return c05ShowIfaces(*a.iRecv().Reject(func(x interface{}, i int) bool { return c04PredFn(k, x.(int), i) }))
			})
		case "s.sort":
			return c05Both(func() string {
				return c05ShowInts(*a.gRecv().Sort(func(x, y int) bool { return c04LessFn(k, x, y) }))
			}, func() string {
				return c05ShowIfaces(*a.iRecv().Sort(func(x, y interface{}) bool { return c04LessFn(k, x.(int), y.(int)) }))
			})
		case "s.sortidx":
			return c05Both(func() string {
				r := a.gRecv()
				return c05ShowInts(*r.SortByIndex(func(i, j int) bool { return c04LessFn(k, (*r)[i], (*r)[j]) }))
			}, func() string {
				r := a.iRecv()
				return c05ShowIfaces(*r.SortByIndex(func(i, j int) bool { return c04LessFn(k, (*r)[i].(int), (*r)[j].(int)) }))
			})
		}
		return c05Both(func() string { return strconv.Itoa(a.gRecv().Get(k)) },
			func() string { return c05Elem(a.iRecv().Get(k)) })
	case "s.filternotnil":
		return c05Both(func() string { return c05ShowInts(*a.gRecv().FilterNotNil()) },
			func() string { return c05ShowIfaces(*a.iRecv().FilterNotNil()) })
	case "s.from":
		return c05Both(func() string { return c05ShowInts(*fpgo.StreamFrom(a.g()...)) },
			func() string { return c05ShowIfaces(*fpgo.StreamForInterface.From(a.i()...)) })
	case "s.len":
		return c05Both(func() string { return strconv.Itoa(a.gRecv().Len()) },
			func() string { return strconv.Itoa(a.iRecv().Len()) })
	case "s.toarray":
		return c05Both(func() string { return c05ShowInts(a.gRecv().ToArray()) },
			func() string { return c05ShowIfaces(a.iRecv().ToArray()) })
	case "s.remove":
		x, err := strconv.Atoi(arg)
		if err != nil {
			return "bad-op"
		}
		return c05Both(func() string { return c05ShowInts(*a.gRecv().Remove(x)) },
			func() string { return c05ShowIfaces(*a.iRecv().Remove(x)) })
	case "s.concat":
		return c05Both(func() string {
			var sl [][]int
			for _, b := range o[1:] {
				sl = append(sl, b.g())
			}
			return c05ShowInts(*a.gRecv().Concat(sl...))
		}, func() string {
			var sl [][]interface{}
			for _, b := range o[1:] {
				sl = append(sl, b.i())
			}
			return c05ShowIfaces(*a.iRecv().Concat(sl...))
		})
	case "s.extend":
		return c05Both(func() string {
			var sl []*fpgo.StreamDef[int]
			for _, b := range o[1:] {
				sl = append(sl, b.gArg())
			}
			return c05ShowInts(*a.gRecv().Extend(sl...))
		}, func() string {
			var sl []*fpgo.StreamForInterfaceDef
			for _, b := range o[1:] {
				sl = append(sl, b.iArg())
			}
			return c05ShowIfaces(*a.iRecv().Extend(sl...))
		})
	}
	if !need(2) {
		return "bad-op"
	}
	b := o[1]
	switch name {
	case "minus":
		return c05Both(func() string { return c05ShowInts(fpgo.Minus(a.g(), b.g())) },
			func() string { return c05ShowIfaces(fpgo.MinusForInterface(a.i(), b.i())) })
	case "subset":
		return c05Both(func() string { return c05ShowBool(fpgo.IsSubset(a.g(), b.g())) },
			func() string { return c05ShowBool(fpgo.IsSubsetForInterface(a.i(), b.i())) })
	case "superset":
		return c05Both(func() string { return c05ShowBool(fpgo.IsSuperset(a.g(), b.g())) },
			func() string { return c05ShowBool(fpgo.IsSupersetForInterface(a.i(), b.i())) })
	case "s.inter":
		return c05Both(func() string { return c05ShowInts(*a.gRecv().Intersection(b.gArg())) },
			func() string { return c05ShowIfaces(*a.iRecv().Intersection(b.iArg())) })
	case "s.minus":
		return c05Both(func() string { return c05ShowInts(*a.gRecv().Minus(b.gArg())) },
			func() string { return c05ShowIfaces(*a.iRecv().Minus(b.iArg())) })
	case "s.subset":
		return c05Both(func() string { return c05ShowBool(a.gRecv().IsSubset(b.gArg())) },
			func() string { return c05ShowBool(a.iRecv().IsSubset(b.iArg())) })
	case "s.superset":
		return c05Both(func() string { return c05ShowBool(a.gRecv().IsSuperset(b.gArg())) },
			func() string { return c05ShowBool(a.iRecv().IsSuperset(b.iArg())) })
	case "s.rmitem":
		return c05Both(func() string { return c05ShowInts(*a.gRecv().RemoveItem(b.g()...)) },
			func() string { return c05ShowIfaces(*a.iRecv().RemoveItem(b.i()...)) })
	case "s.append":
		return c05Both(func() string { return c05ShowInts(*a.gRecv().Append(b.g()...)) },
			func() string { return c05ShowIfaces(*a.iRecv().Append(b.i()...)) })
	}
	return "bad-op"
}

// ---------------------------------------------------------------------------------- kind M

func c05RunM(o []c05Map, op string) string {
	name, arg := c05OpArg(op)
	switch name {
	case "intermap":
		return c05Both(func() string {
			var ms []map[int]int
			for _, m := range o {
				ms = append(ms, m.g())
			}
			return c05ShowMapG(fpgo.IntersectionMapByKey(ms...))
		}, func() string {
			var ms []map[interface{}]interface{}
			for _, m := range o {
				ms = append(ms, m.i())
			}
			return c05ShowMapI(fpgo.IntersectionMapByKeyForInterface(ms...))
		})
	case "m.from":
		l, ok := c05ParseInts(arg)
		if !ok {
			return "bad-op"
		}
		return c05Both(func() string { return c05ShowMapG(*fpgo.SetFrom[int, int](l...)) },
			func() string { return c05ShowMapI(*fpgo.SetForInterfaceFrom(c05List{v: l}.i()...)) })
	case "m.fromarray":
		l, ok := c05ParseInts(arg)
		if !ok {
			return "bad-op"
		}
		return c05Both(func() string { return c05ShowMapG(*fpgo.SetFromArray[int, int](l)) },
			func() string { return c05ShowMapI(*fpgo.SetForInterfaceFromArray(c05List{v: l}.i())) })
	}
	if len(o) < 1 {
		return "bad-op"
	}
	a := o[0]
	switch name {
	case "m.add", "m.rmkeys":
		l, ok := c05ParseInts(arg)
		if !ok {
			return "bad-op"
		}
		if name == "m.add" {
			return c05Both(func() string { return c05ShowMapG(a.gRecv().Add(l...).AsMap()) },
				func() string { return c05ShowMapI(*a.iRecv().Add(c05List{v: l}.i()...)) })
		}
		return c05Both(func() string { return c05ShowMapG(a.gRecv().RemoveKeys(l...).AsMap()) },
			func() string { return c05ShowMapI(*a.iRecv().RemoveKeys(c05List{v: l}.i()...)) })
	case "m.values":
		return c05Both(func() string { return c05ShowSorted(a.gRecv().Values()) },
			func() string {
				var vs []int
				for _, v := range a.iRecv().Values() {
					n, err := strconv.Atoi(c05Val(v))
					if err != nil {
						return "?" + c05Val(v)
					}
					vs = append(vs, n)
				}
				return c05ShowSorted(vs)
			})
	case "m.get", "m.hasval", "m.mapkey", "m.mapval":
		x, err := strconv.Atoi(arg)
		if err != nil || x < 0 {
			return "bad-op"
		}
		switch name {
		case "m.get":
			return c05Both(func() string { return strconv.Itoa(a.gRecv().Get(x)) },
				func() string { return c05Val(a.iRecv().Get(x)) })
		case "m.hasval":
			return c05Both(func() string { return c05ShowBool(a.gRecv().ContainsValue(x)) },
				func() string { return c05ShowBool(a.iRecv().ContainsValue(x)) })
		case "m.mapkey":
			return c05Both(func() string {
				return c05ShowMapG(a.gRecv().MapKey(func(k int) int { return c04KeyFn(x, k) }).AsMap())
			}, func() string {
				return c05ShowMapI(*a.iRecv().MapKey(func(k interface{}) interface{} { return c04KeyFn(x, k.(int)) }))
			})
		}
		return c05Both(func() string {
			return c05ShowMapG(a.gRecv().MapValue(func(v int) int { return c04ValFn(x, v) }).AsMap())
		}, func() string {
			return c05ShowMapI(*a.iRecv().MapValue(func(v interface{}) interface{} { return c04ValFn(x, v.(int)) }))
		})
	case "m.rmvals":
		l, ok := c05ParseInts(arg)
		if !ok {
			return "bad-op"
		}
		return c05Both(func() string { return c05ShowMapG(a.gRecv().RemoveValues(l...).AsMap()) },
			func() string { return c05ShowMapI(*a.iRecv().RemoveValues(c05List{v: l}.i()...)) })
	case "m.set":
		kv := strings.Split(arg, ":")
		if len(kv) != 2 {
			return "bad-op"
		}
		k, e1 := strconv.Atoi(kv[0])
		v, e2 := strconv.Atoi(kv[1])
		if e1 != nil || e2 != nil {
			return "bad-op"
		}
		return c05Both(func() string { r := a.gRecv(); r.Set(k, v); return c05ShowMapG(*r) },
			func() string { r := a.iRecv(); r.Set(k, v); return c05ShowMapI(*r) })
	case "m.has":
		x, err := strconv.Atoi(arg)
		if err != nil {
			return "bad-op"
		}
		return c05Both(func() string { return c05ShowBool(a.gRecv().ContainsKey(x)) },
			func() string { return c05ShowBool(a.iRecv().ContainsKey(x)) })
	case "m.keys":
		return c05Both(func() string { return c05ShowSorted(a.gRecv().Keys()) },
			func() string { return c05ShowIfacesSorted(a.iRecv().Keys()) })
	case "m.size":
		return c05Both(func() string { return strconv.Itoa(a.gRecv().Size()) },
			func() string { return strconv.Itoa(a.iRecv().Size()) })
	case "m.clone":
		return c05Both(func() string { return c05ShowMapG(a.gRecv().Clone().AsMap()) },
			func() string { return c05ShowMapI(*a.iRecv().Clone()) })
	}
	if len(o) < 2 {
		return "bad-op"
	}
	b := o[1]
	switch name {
	case "m.union":
		return c05Both(func() string { return c05ShowMapG(a.gRecv().Union(b.gArg()).AsMap()) },
			func() string { return c05ShowMapI(*a.iRecv().Union(b.iArg())) })
	case "m.inter":
		return c05Both(func() string { return c05ShowMapG(a.gRecv().Intersection(b.gArg()).AsMap()) },
			func() string { return c05ShowMapI(*a.iRecv().Intersection(b.iArg())) })
	case "m.minus":
		return c05Both(func() string { return c05ShowMapG(a.gRecv().Minus(b.gArg()).AsMap()) },
			func() string { return c05ShowMapI(*a.iRecv().Minus(b.iArg())) })
	case "m.subset":
		return c05Both(func() string { return c05ShowBool(a.gRecv().IsSubsetByKey(b.gArg())) },
			func() string { return c05ShowBool(a.iRecv().IsSubsetByKey(b.iArg())) })
	case "m.superset":
		return c05Both(func() string { return c05ShowBool(a.gRecv().IsSupersetByKey(b.gArg())) },
			func() string { return c05ShowBool(a.iRecv().IsSupersetByKey(b.iArg())) })
	case "merge":
		return c05Both(func() string { return c05ShowMapG(fpgo.Merge(a.g(), b.g())) },
			func() string { return c05ShowMapI(fpgo.MergeForInterface(a.i(), b.i())) })
	case "minusmap":
		return c05Only(func() string { return c05ShowMapG(fpgo.MinusMapByKey(a.g(), b.g())) })
	case "subsetmap":
		return c05Both(func() string { return c05ShowBool(fpgo.IsSubsetMapByKey(a.g(), b.g())) },
			func() string { return c05ShowBool(fpgo.IsSubsetMapByKeyForInterface(a.i(), b.i())) })
	case "supersetmap":
		return c05Both(func() string { return c05ShowBool(fpgo.IsSupersetMapByKey(a.g(), b.g())) },
			func() string { return c05ShowBool(fpgo.IsSupersetMapByKeyForInterface(a.i(), b.i())) })
	}
	return "bad-op"
}

// ---------------------------------------------------------------------------------- kind S

func c05ShowStrs(l []string) string {
	sort.Strings(l)
	return "(" + strings.Join(l, "/") + ")"
}

// the methods both StreamSet types only have by promotion from the embedded set
func c05RunSPromoted(a c05SS, name, arg string) string {
	gStr := func(p *fpgo.StreamDef[int]) string {
		if p == nil {
			return "nil"
		}
		return c05ShowInts(*p)
	}
	iStr := func(v interface{}) string {
		if v == nil {
			return "nil"
		}
		p, ok := v.(*fpgo.StreamForInterfaceDef)
		if !ok {
			return fmt.Sprintf("?%v", v)
		}
		if p == nil {
			return "nil"
		}
		return c05ShowIfaces(*p)
	}
	switch name {
	case "ss.size":
		return c05Both(func() string { return strconv.Itoa(a.gRecv().Size()) },
			func() string { return strconv.Itoa(a.iRecv().Size()) })
	case "ss.keys":
		return c05Both(func() string { return c05ShowSorted(a.gRecv().Keys()) },
			func() string { return c05ShowIfacesSorted(a.iRecv().Keys()) })
	case "ss.values":
		return c05Both(func() string {
			var l []string
			for _, v := range a.gRecv().Values() {
				l = append(l, gStr(v))
			}
			return c05ShowStrs(l)
		}, func() string {
			var l []string
			for _, v := range a.iRecv().Values() {
				l = append(l, iStr(v))
			}
			return c05ShowStrs(l)
		})
	case "ss.has", "ss.get", "ss.mapkey":
		x, err := strconv.Atoi(arg)
		if err != nil || x < 0 {
			return "bad-op"
		}
		switch name {
		case "ss.has":
			return c05Both(func() string { return c05ShowBool(a.gRecv().ContainsKey(x)) },
				func() string { return c05ShowBool(a.iRecv().ContainsKey(x)) })
		case "ss.get":
			return c05Both(func() string { return gStr(a.gRecv().Get(x)) },
				func() string { return iStr(a.iRecv().Get(x)) })
		}
		return c05Both(func() string {
			return c05ShowSSG(a.gRecv().MapKey(func(k int) int { return c04KeyFn(x, k) }).AsMap())
		}, func() string {
			return c05ShowSSI(*a.iRecv().MapKey(func(k interface{}) interface{} { return c04KeyFn(x, k.(int)) }))
		})
	case "ss.rmkeys", "ss.add":
		l, ok := c05ParseInts(arg)
		if !ok {
			return "bad-op"
		}
		if name == "ss.rmkeys" {
			return c05Both(func() string { return c05ShowSSG(a.gRecv().RemoveKeys(l...).AsMap()) },
				func() string { return c05ShowSSI(*a.iRecv().RemoveKeys(c05List{v: l}.i()...)) })
		}
		return c05Both(func() string { return c05ShowSSG(a.gRecv().Add(l...).AsMap()) },
			func() string { return c05ShowSSI(*a.iRecv().Add(c05List{v: l}.i()...)) })
	case "ss.set":
		kv := strings.SplitN(arg, ":", 2)
		if len(kv) != 2 {
			return "bad-op"
		}
		k, e1 := strconv.Atoi(kv[0])
		v, spare, ok := c05ParseIntsSpare(kv[1])
		if e1 != nil || !ok {
			return "bad-op"
		}
		e := c05KS{k, v, spare}
		return c05Both(func() string { r := a.gRecv(); r.Set(k, e.gStream()); return c05ShowSSG(r.MapSetDef) },
			func() string { r := a.iRecv(); r.Set(k, e.iStream()); return c05ShowSSI(r.SetForInterfaceDef) })
	}
	return "bad-op"
}

// ---------------------------------------------------------------------------------- kinds P, R, Q (histories)

// kind P: Stream histories.  Objects of both families, built once; results appended; everything re-read.
func c05RunP(o []c05List, ops []string) []string {
	gobjs := make([]*fpgo.StreamDef[int], len(o))
	iobjs := make([]*fpgo.StreamForInterfaceDef, len(o))
	for k := range o {
		e := c05KS{0, o[k].v, o[k].spare}
		if o[k].isNil {
			gobjs[k], iobjs[k] = fpgo.StreamFromArray[int](nil), fpgo.StreamForInterface.FromArray(nil)
		} else {
			gobjs[k], iobjs[k] = e.gStream(), e.iStream()
		}
	}
	dumpG := func() string {
		p := make([]string, len(gobjs))
		for k, x := range gobjs {
			p[k] = c05ShowInts(*x)
		}
		return strings.Join(p, "|")
	}
	dumpI := func() string {
		p := make([]string, len(iobjs))
		for k, x := range iobjs {
			p[k] = c05ShowIfaces(*x)
		}
		return strings.Join(p, "|")
	}
	outs := make([]string, 0, len(ops))
	for _, op := range ops {
		f := strings.Split(op, ":")
		idx := func(s string) int {
			n, err := strconv.Atoi(s)
			if err != nil || n < 0 || n >= len(gobjs) {
				return -1
			}
			return n
		}
		ok := false
		fam := -1
		switch {
		case len(f) == 2 && (f[0] == "distinct" || f[0] == "reverse" || f[0] == "clone"):
			ok = idx(f[1]) >= 0
		case len(f) == 3 && (f[0] == "sort" || f[0] == "filter" || f[0] == "map"):
			n, err := strconv.Atoi(f[2])
			fam = n
			ok = idx(f[1]) >= 0 && err == nil && n >= 0
		case len(f) == 3 && (f[0] == "extend" || f[0] == "minus" || f[0] == "inter"):
			ok = idx(f[1]) >= 0 && (f[2] == "n" || idx(f[2]) >= 0)
		case len(f) == 3 && (f[0] == "concat" || f[0] == "append" || f[0] == "rmitem"):
			ok = idx(f[1]) >= 0 && idx(f[2]) >= 0
		}
		if !ok {
			outs = append(outs, "g=bad-op")
			continue
		}
		r := idx(f[1])
		var gres *fpgo.StreamDef[int]
		var ires *fpgo.StreamForInterfaceDef
		g := c05Try(func() string {
			var ga *fpgo.StreamDef[int]
			if len(f) == 3 && fam < 0 && f[2] != "n" {
				ga = gobjs[idx(f[2])]
			}
			s := gobjs[r]
			switch f[0] {
			case "distinct":
				gres = s.Distinct()
			case "reverse":
				gres = s.Reverse()
			case "clone":
				gres = s.Clone()
			case "sort":
				gres = s.Sort(func(x, y int) bool { return c04LessFn(fam, x, y) })
			case "filter":
				gres = s.Filter(func(x int, i int) bool { return c04PredFn(fam, x, i) })
			case "map":
				gres = s.Map(func(x int, i int) int { return c04MapFn(fam, x, i) })
			case "extend":
				gres = s.Extend(ga)
			case "minus":
				gres = s.Minus(ga)
			case "inter":
				gres = s.Intersection(ga)
			case "concat":
				gres = s.Concat(*ga)
			case "append":
				gres = s.Append(*ga...)
			case "rmitem":
				gres = s.RemoveItem(*ga...)
			}
			return ""
		})
		i := c05Try(func() string {
			var ia *fpgo.StreamForInterfaceDef
			if len(f) == 3 && fam < 0 && f[2] != "n" {
				ia = iobjs[idx(f[2])]
			}
			s := iobjs[r]
			switch f[0] {
			case "distinct":
				ires = s.Distinct()
			case "reverse":
				ires = s.Reverse()
			case "clone":
				ires = s.Clone()
			case "sort":
				ires = s.Sort(func(x, y interface{}) bool { return c04LessFn(fam, x.(int), y.(int)) })
			case "filter":
				ires = s.Filter(func(x interface{}, i int) bool { return c04PredFn(fam, x.(int), i) })
			case "map":
				ires = s.Map(func(x interface{}, i int) interface{} { return c04MapFn(fam, x.(int), i) })
			case "extend":
				ires = s.Extend(ia)
			case "minus":
				ires = s.Minus(ia)
			case "inter":
				ires = s.Intersection(ia)
			case "concat":
				ires = s.Concat(*ia)
			case "append":
				ires = s.Append(*ia...)
			case "rmitem":
				ires = s.RemoveItem(*ia...)
			}
			return ""
		})
		if gres == nil {
			gres = new(fpgo.StreamDef[int])
		}
		if ires == nil {
			ires = new(fpgo.StreamForInterfaceDef)
		}
		gobjs, iobjs = append(gobjs, gres), append(iobjs, ires)
		if g == "" {
			g = c05Try(dumpG)
		}
		if i == "" {
			i = c05Try(dumpI)
		}
		outs = append(outs, "g="+g+" i="+i)
	}
	return outs
}

// kind R: MapSet histories
func c05RunR(o []c05Map, ops []string) []string {
	gobjs := make([]fpgo.SetDef[int, int], len(o))
	iobjs := make([]*fpgo.SetForInterfaceDef, len(o))
	for k := range o {
		gobjs[k], iobjs[k] = o[k].gRecv(), o[k].iRecv()
	}
	dumpG := func() string {
		p := make([]string, len(gobjs))
		for k, x := range gobjs {
			p[k] = c05ShowMapG(x.AsMap())
		}
		return strings.Join(p, "|")
	}
	dumpI := func() string {
		p := make([]string, len(iobjs))
		for k, x := range iobjs {
			p[k] = c05ShowMapI(*x)
		}
		return strings.Join(p, "|")
	}
	outs := make([]string, 0, len(ops))
	for _, op := range ops {
		f := strings.Split(op, ":")
		idx := func(s string) int {
			n, err := strconv.Atoi(s)
			if err != nil || n < 0 || n >= len(gobjs) {
				return -1
			}
			return n
		}
		ok := false
		var l []int
		fam := 0
		switch {
		case len(f) == 2 && f[0] == "clone":
			ok = idx(f[1]) >= 0
		case len(f) == 3 && (f[0] == "add" || f[0] == "rmkeys" || f[0] == "rmvals"):
			var okl bool
			l, okl = c05ParseInts(f[2])
			ok = idx(f[1]) >= 0 && okl
		case len(f) == 3 && f[0] == "mapval":
			n, err := strconv.Atoi(f[2])
			fam = n
			ok = idx(f[1]) >= 0 && err == nil && n >= 0
		case len(f) == 3 && (f[0] == "union" || f[0] == "inter" || f[0] == "minus"):
			ok = idx(f[1]) >= 0 && (f[2] == "n" || idx(f[2]) >= 0)
		}
		if !ok {
			outs = append(outs, "g=bad-op")
			continue
		}
		r := idx(f[1])
		var gres fpgo.SetDef[int, int]
		var ires *fpgo.SetForInterfaceDef
		binary := f[0] == "union" || f[0] == "inter" || f[0] == "minus"
		g := c05Try(func() string {
			var ga fpgo.SetDef[int, int]
			if binary && f[2] != "n" {
				ga = gobjs[idx(f[2])]
			}
			s := gobjs[r]
			switch f[0] {
			case "clone":
				gres = s.Clone()
			case "add":
				gres = s.Add(l...)
			case "rmkeys":
				gres = s.RemoveKeys(l...)
			case "rmvals":
				gres = s.RemoveValues(l...)
			case "mapval":
				gres = s.MapValue(func(v int) int { return c04ValFn(fam, v) })
			case "union":
				gres = s.Union(ga)
			case "inter":
				gres = s.Intersection(ga)
			case "minus":
				gres = s.Minus(ga)
			}
			return ""
		})
		i := c05Try(func() string {
			var ia *fpgo.SetForInterfaceDef
			if binary && f[2] != "n" {
				ia = iobjs[idx(f[2])]
			}
			s := iobjs[r]
			switch f[0] {
			case "clone":
				ires = s.Clone()
			case "add":
				ires = s.Add(c05List{v: l}.i()...)
			case "rmkeys":
				ires = s.RemoveKeys(c05List{v: l}.i()...)
			case "rmvals":
				ires = s.RemoveValues(c05List{v: l}.i()...)
			case "mapval":
				ires = s.MapValue(func(v interface{}) interface{} {
					if v == nil { // the zero value stored by Add
						return c04ValFn(fam, 0)
					}
					return c04ValFn(fam, v.(int))
				})
			case "union":
				ires = s.Union(ia)
			case "inter":
				ires = s.Intersection(ia)
			case "minus":
				ires = s.Minus(ia)
			}
			return ""
		})
		if gres == nil {
			gres = fpgo.SetFrom[int, int]()
		}
		if ires == nil {
			ires = fpgo.SetForInterfaceFrom()
		}
		gobjs, iobjs = append(gobjs, gres), append(iobjs, ires)
		if g == "" {
			g = c05Try(dumpG)
		}
		if i == "" {
			i = c05Try(dumpI)
		}
		outs = append(outs, "g="+g+" i="+i)
	}
	return outs
}

// kind Q: StreamSet histories

func c05RunQ(o []c05SS, ops []string) []string {
	gobjs := make([]*fpgo.StreamSetDef[int, int], len(o))
	iobjs := make([]*fpgo.StreamSetForInterfaceDef, len(o))
	for k := range o {
		gobjs[k], iobjs[k] = o[k].gRecv(), o[k].iRecv()
	}
	dumpG := func() string {
		p := make([]string, len(gobjs))
		for k, x := range gobjs {
			p[k] = c05ShowSSG(x.MapSetDef)
		}
		return strings.Join(p, "|")
	}
	dumpI := func() string {
		p := make([]string, len(iobjs))
		for k, x := range iobjs {
			p[k] = c05ShowSSI(x.SetForInterfaceDef)
		}
		return strings.Join(p, "|")
	}
	outs := make([]string, 0, len(ops))
	for _, op := range ops {
		f := strings.Split(op, ":")
		idx := func(s string) int {
			n, err := strconv.Atoi(s)
			if err != nil || n < 0 || n >= len(gobjs) {
				return -1
			}
			return n
		}
		okOp := (len(f) == 3 && (f[0] == "union" || f[0] == "inter" || f[0] == "minusstreams" || f[0] == "minus") &&
			idx(f[1]) >= 0 && (f[2] == "n" || idx(f[2]) >= 0)) || (len(f) == 2 && f[0] == "clone" && idx(f[1]) >= 0)
		if !okOp {
			outs = append(outs, "g=bad-op")
			continue
		}
		r := idx(f[1])
		var gres *fpgo.StreamSetDef[int, int]
		var ires *fpgo.StreamSetForInterfaceDef
		g := c05Try(func() string {
			var ga *fpgo.StreamSetDef[int, int]
			if len(f) == 3 && f[2] != "n" {
				ga = gobjs[idx(f[2])]
			}
			switch f[0] {
			case "union":
				gres = gobjs[r].Union(ga)
			case "inter":
				gres = gobjs[r].Intersection(ga)
			case "minusstreams":
				gres = gobjs[r].MinusStreams(ga)
			case "minus":
				var set fpgo.SetDef[int, *fpgo.StreamDef[int]]
				if ga != nil {
					set = ga.AsMapSet()
				}
				gres = &fpgo.StreamSetDef[int, int]{MapSetDef: *gobjs[r].Minus(set).AsMapSet()}
			case "clone":
				gres = gobjs[r].Clone()
			}
			return ""
		})
		i := c05Try(func() string {
			var ia *fpgo.StreamSetForInterfaceDef
			if len(f) == 3 && f[2] != "n" {
				ia = iobjs[idx(f[2])]
			}
			switch f[0] {
			case "union":
				ires = iobjs[r].Union(ia)
			case "inter":
				ires = iobjs[r].Intersection(ia)
			case "minusstreams":
				ires = iobjs[r].MinusStreams(ia)
			case "minus":
				ires = iobjs[r].Minus(ia)
			case "clone":
				ires = iobjs[r].Clone()
			}
			return ""
		})
		if gres == nil {
			gres = fpgo.NewStreamSet[int, int]()
		}
		if ires == nil {
			ires = fpgo.NewStreamSetForInterface()
		}
		gobjs, iobjs = append(gobjs, gres), append(iobjs, ires)
		if g == "" {
			g = c05Try(dumpG)
		}
		if i == "" {
			i = c05Try(dumpI)
		}
		outs = append(outs, "g="+g+" i="+i)
	}
	return outs
}

func c05RunS(o []c05SS, op string) string {
	if name, arg := c05OpArg(op); name == "ss.fromarray" || name == "ss.from" {
		l, ok := c05ParseInts(arg)
		if !ok {
			return "bad-op"
		}
		if name == "ss.from" {
			return c05Both(func() string { return c05ShowSSG(fpgo.StreamSetFrom[int, int](l...).MapSetDef) },
				func() string { return c05ShowSSI(fpgo.StreamSetForInterfaceFrom(c05List{v: l}.i()...).SetForInterfaceDef) })
		}
		return c05Both(func() string { return c05ShowSSG(fpgo.StreamSetFromArray[int, int](l).MapSetDef) },
			func() string { return c05ShowSSI(fpgo.StreamSetForInterfaceFromArray(c05List{v: l}.i()).SetForInterfaceDef) })
	}
	if len(o) < 1 {
		return "bad-op"
	}
	a := o[0]
	if name, arg := c05OpArg(op); name != op || name == "ss.size" || name == "ss.keys" || name == "ss.values" {
		return c05RunSPromoted(a, name, arg)
	}
	switch op {
	case "ss.clone":
		return c05Both(func() string { return c05ShowSSG(a.gRecv().Clone().MapSetDef) },
			func() string { return c05ShowSSI(a.iRecv().Clone().SetForInterfaceDef) })
	case "ss.frommap":
		return c05Both(func() string { return c05ShowSSG(a.gRecv().MapSetDef) },
			func() string { return c05ShowSSI(a.iRecv().SetForInterfaceDef) })
	}
	if len(o) < 2 {
		return "bad-op"
	}
	b := o[1]
	switch op {
	case "ss.union":
		return c05Both(func() string { return c05ShowSSG(a.gRecv().Union(b.gArg()).MapSetDef) },
			func() string { return c05ShowSSI(a.iRecv().Union(b.iArg()).SetForInterfaceDef) })
	case "ss.inter":
		return c05Both(func() string { return c05ShowSSG(a.gRecv().Intersection(b.gArg()).MapSetDef) },
			func() string { return c05ShowSSI(a.iRecv().Intersection(b.iArg()).SetForInterfaceDef) })
	case "ss.minusstreams":
		return c05Both(func() string { return c05ShowSSG(a.gRecv().MinusStreams(b.gArg()).MapSetDef) },
			func() string { return c05ShowSSI(a.iRecv().MinusStreams(b.iArg()).SetForInterfaceDef) })
	case "ss.minus":
		return c05Both(func() string { return c05ShowSSG(a.gRecv().Minus(b.gArgSet()).AsMap()) },
			func() string { return c05ShowSSI(a.iRecv().Minus(b.iArg()).SetForInterfaceDef) })
	case "ss.subset":
		return c05Both(func() string { return c05ShowBool(a.gRecv().IsSubsetByKey(b.gArgSet())) },
			func() string { return c05ShowBool(a.iRecv().IsSubsetByKey(b.iArg())) })
	case "ss.superset":
		return c05Both(func() string { return c05ShowBool(a.gRecv().IsSupersetByKey(b.gArgSet())) },
			func() string { return c05ShowBool(a.iRecv().IsSupersetByKey(b.iArg())) })
	}
	return "bad-op"
}

// ---------------------------------------------------------------------------------- runner

func c05Run(line string) string {
	head, body := line, ""
	if k := strings.Index(line, ": "); k >= 0 {
		head, body = line[:k], line[k+2:]
	} else if strings.HasSuffix(line, ":") {
		head = line[:len(line)-1]
	}
	hs := strings.Fields(head)
	if len(hs) == 0 {
		return ""
	}
	kind, opds := hs[0], hs[1:]
	var ops []string
	for _, t := range strings.Split(body, ";") {
		t = strings.TrimSpace(t)
		if t != "" {
			ops = append(ops, t)
		}
	}
	outs := make([]string, 0, len(ops))
	switch kind {
	case "L", "P":
		o := make([]c05List, len(opds))
		okAll := true
		for k, s := range opds {
			var ok bool
			o[k], ok = c05ParseList(s)
			okAll = okAll && ok
		}
		if kind == "P" && okAll {
			outs = c05RunP(o, ops)
			break
		}
		for _, op := range ops {
			if !okAll {
				outs = append(outs, "g=bad-op")
				continue
			}
			outs = append(outs, c05Fix(c05RunL(o, op)))
		}
	case "M", "R":
		o := make([]c05Map, len(opds))
		okAll := true
		for k, s := range opds {
			var ok bool
			o[k], ok = c05ParseMap(s)
			okAll = okAll && ok
		}
		if kind == "R" && okAll {
			outs = c05RunR(o, ops)
			break
		}
		for _, op := range ops {
			if !okAll {
				outs = append(outs, "g=bad-op")
				continue
			}
			outs = append(outs, c05Fix(c05RunM(o, op)))
		}
	case "S", "Q":
		o := make([]c05SS, len(opds))
		okAll := true
		for k, s := range opds {
			var ok bool
			o[k], ok = c05ParseSS(s)
			okAll = okAll && ok
		}
		if kind == "Q" && okAll {
			outs = c05RunQ(o, ops)
			break
		}
		for _, op := range ops {
			if !okAll {
				outs = append(outs, "g=bad-op")
				continue
			}
			outs = append(outs, c05Fix(c05RunS(o, op)))
		}
	default:
		for range ops {
			outs = append(outs, "g=bad-op")
		}
	}
	return strings.Join(outs, " | ")
}

func c05Fix(s string) string {
	if s == "bad-op" {
		return "g=bad-op"
	}
	return s
}

// ---------------------------------------------------------------------------------- generators

func c05Lists(alpha, maxLen int, withNil bool) []string {
	var res []string
	if withNil {
		res = append(res, "nil")
	}
	var rec func(prefix []int)
	rec = func(prefix []int) {
		res = append(res, c05ShowInts(prefix))
		if len(prefix) == maxLen {
			return
		}
		for x := 0; x < alpha; x++ {
			rec(append(append([]int{}, prefix...), x))
		}
	}
	rec(nil)
	return res
}

func c05RandList(rng *rand.Rand, alpha, maxLen int) string {
	if rng.Intn(12) == 0 {
		return "nil"
	}
	n := rng.Intn(maxLen + 1)
	l := make([]int, n)
	for k := range l {
		l[k] = rng.Intn(alpha)
	}
	return c05ShowInts(l)
}

const (
	c05Ops0  = "union ; inter ; diff ; inter0 ; diff0"
	c05Ops1  = "union ; inter ; diff ; distinct ; s.distinct ; s.clone ; s.reverse ; s.concat ; s.extend ; has:0 ; has:3 ; s.has:1 ; s.has:2 ; s.remove:-1 ; s.remove:0 ; s.remove:1 ; s.remove:2 ; s.remove:3"
	c05Ops1b = "s.map:0 ; s.map:1 ; s.map:2 ; s.map:4 ; s.filter:0 ; s.filter:1 ; s.filter:2 ; s.filter:3 ; s.filter:4 ; s.reject:0 ; s.reject:1 ; s.reject:2 ; s.filternotnil ; s.sort:0 ; s.sort:1 ; s.sort:2 ; s.sort:3 ; s.sortidx:0 ; s.sortidx:1 ; s.sortidx:2 ; s.get:-1 ; s.get:0 ; s.get:2 ; s.get:3 ; s.len ; s.toarray ; s.from"
	c05Ops2  = "union ; inter ; diff ; minus ; subset ; superset ; s.inter ; s.minus ; s.subset ; s.superset ; s.rmitem ; s.append ; s.concat ; s.extend"
	c05Ops3  = "union ; inter ; diff ; s.concat ; s.extend"
	c05OpsM1 = "m.keys ; m.size ; m.clone ; m.has:0 ; m.has:2 ; m.add:[] ; m.add:[0] ; m.add:[3.1.3] ; m.rmkeys:[] ; m.rmkeys:[1] ; m.rmkeys:[0.2.0] ; intermap"
	c05OpsM1b = "m.values ; m.get:0 ; m.get:5 ; m.hasval:10 ; m.hasval:12 ; m.hasval:0 ; m.rmvals:[] ; m.rmvals:[10.12.10] ; m.rmvals:[3] ; m.mapkey:0 ; m.mapkey:2 ; m.mapval:0 ; m.mapval:1 ; m.mapval:2 ; m.set:1:5 ; m.set:7:1"
	c05OpsM2 = "m.union ; m.inter ; m.minus ; m.subset ; m.superset ; merge ; intermap ; minusmap ; subsetmap ; supersetmap"
	c05OpsM3 = "intermap"
	c05OpsS1 = "ss.clone ; ss.frommap"
	c05OpsS1b = "ss.size ; ss.keys ; ss.values ; ss.has:0 ; ss.has:2 ; ss.get:0 ; ss.get:1 ; ss.rmkeys:[] ; ss.rmkeys:[0.1.0] ; ss.add:[] ; ss.add:[1.3.1] ; ss.set:1:[0.0] ; ss.set:5:[] ; ss.mapkey:0 ; ss.mapkey:2"
	c05OpsS2 = "ss.union ; ss.inter ; ss.minusstreams ; ss.minus ; ss.subset ; ss.superset"
)

// all maps over the keys 0..nKeys-1 with at most maxKeys keys; values base+k
func c05Maps(nKeys, base int) []string {
	res := []string{"nil", "nilmap"}
	for mask := 0; mask < 1<<nKeys; mask++ {
		var p []string
		for k := 0; k < nKeys; k++ {
			if mask&(1<<k) != 0 {
				p = append(p, fmt.Sprintf("%d:%d", k, base+k))
			}
		}
		res = append(res, "{"+strings.Join(p, ",")+"}")
	}
	return res
}

// all key→stream maps with at most 2 of the keys 0..nKeys-1, streams from `streams`
func c05SSMaps(nKeys int, streams []string) []string {
	res := []string{"nil", "{}"}
	for k := 0; k < nKeys; k++ {
		for _, s := range streams {
			res = append(res, fmt.Sprintf("{%d:%s}", k, s))
		}
	}
	for k1 := 0; k1 < nKeys; k1++ {
		for k2 := k1 + 1; k2 < nKeys; k2++ {
			for _, s1 := range streams {
				for _, s2 := range streams {
					res = append(res, fmt.Sprintf("{%d:%s,%d:%s}", k1, s1, k2, s2))
				}
			}
		}
	}
	return res
}

func c05Gen(tier string, rng *rand.Rand, emit func(string)) map[string]interface{} {
	thorough := tier == "thorough"
	counts := map[string]int{}
	out := func(kind string, line string) { counts[kind]++; emit(line) }

	// ---- kind L, bounded-exhaustive
	out("L0", "L: "+c05Ops0)
	full := c05Lists(4, 3, true) // 86 operands: nil + all lists of length <= 3 over 4 letters
	for _, a := range full {
		out("L1", "L "+a+": "+c05Ops1)
		out("L1", "L "+a+": "+c05Ops1b)
	}
	for _, a := range full {
		for _, b := range full {
			out("L2", "L "+a+" "+b+": "+c05Ops2)
		}
	}
	tripleLists := c05Lists(4, 2, true) // quick: 22^3 triples
	if thorough {
		tripleLists = full // thorough: all 86^3 triples
	}
	for _, a := range tripleLists {
		for _, b := range tripleLists {
			for _, c := range tripleLists {
				out("L3", "L "+a+" "+b+" "+c+": "+c05Ops3)
			}
		}
	}
	// first operand up to length 3 over 4 letters against short second/third operands
	short := c05Lists(4, 1, true)
	for _, a := range full {
		for _, b := range short {
			for _, c := range short {
				out("L3", "L "+a+" "+b+" "+c+": "+c05Ops3)
			}
		}
	}
	// ---- kind L, random: longer lists, larger alphabet, arities 1..5
	nRand := 1500
	if thorough {
		nRand = 20000
	}
	for n := 0; n < nRand; n++ {
		ar := 1 + rng.Intn(5)
		alpha := 2 + rng.Intn(6)
		opds := make([]string, ar)
		for k := range opds {
			opds[k] = c05RandList(rng, alpha, 8)
		}
		ops := c05Ops3
		if ar == 1 {
			ops = c05Ops1
		} else if ar == 2 {
			ops = c05Ops2
		}
		ops += fmt.Sprintf(" ; s.remove:%d ; has:%d", rng.Intn(11)-1, rng.Intn(alpha))
		out("Lrand", "L "+strings.Join(opds, " ")+": "+ops)
		if ar == 1 {
			out("Lrand", "L "+opds[0]+": "+c05Ops1b+fmt.Sprintf(" ; s.get:%d ; s.get:%d", rng.Intn(10)-1, rng.Intn(10)-1))
		}
	}

	// ---- kind M
	out("M0", "M: intermap ; m.fromarray:[] ; m.fromarray:[1] ; m.fromarray:[2.0.2.1] ; m.from:[] ; m.from:[1.1.0]")
	out("S0", "S: ss.fromarray:[] ; ss.fromarray:[2.0.2] ; ss.from:[] ; ss.from:[1.1.0]")
	for _, a := range c05Maps(3, 10) {
		out("M1", "M "+a+": "+c05OpsM1)
		out("M1", "M "+a+": "+c05OpsM1b)
		for _, b := range c05Maps(3, 20) {
			out("M2", "M "+a+" "+b+": "+c05OpsM2)
			for _, c := range c05Maps(3, 30) {
				out("M3", "M "+a+" "+b+" "+c+": "+c05OpsM3)
			}
		}
	}
	nRandM := 400
	if thorough {
		nRandM = 5000
	}
	randMap := func() string {
		switch rng.Intn(14) {
		case 0:
			return "nil"
		case 1:
			return "nilmap"
		}
		var p []string
		for k := 0; k < 6; k++ {
			if rng.Intn(2) == 0 {
				p = append(p, fmt.Sprintf("%d:%d", k, rng.Intn(4)))
			}
		}
		return "{" + strings.Join(p, ",") + "}"
	}
	for n := 0; n < nRandM; n++ {
		ar := 1 + rng.Intn(4)
		opds := make([]string, ar)
		for k := range opds {
			opds[k] = randMap()
		}
		ops := c05OpsM3
		if ar == 1 {
			ops = c05OpsM1
		} else if ar == 2 {
			ops = c05OpsM2
		}
		ops += " ; m.add:" + c05RandList(rng, 7, 4) + " ; m.rmkeys:" + c05RandList(rng, 7, 4)
		if ar == 1 {
			ops += fmt.Sprintf(" ; m.values ; m.get:%d ; m.hasval:%d ; m.hasval:%d ; m.rmvals:%s ; m.mapkey:%d ; m.mapval:%d ; m.set:%d:%d",
				rng.Intn(7), rng.Intn(4), rng.Intn(4), c05RandList(rng, 4, 3), 2*rng.Intn(2), rng.Intn(3), rng.Intn(7), rng.Intn(4))
		}
		ops = strings.ReplaceAll(ops, ":nil", ":[]")
		out("Mrand", "M "+strings.Join(opds, " ")+": "+ops)
	}

	// ---- kind S: all maps with <= 2 of 3 keys, streams over 2 letters up to length 2 (incl. empty)
	streams := c05Lists(2, 2, false)
	ss := c05SSMaps(3, streams)
	for _, a := range ss {
		out("S1", "S "+a+": "+c05OpsS1+" ; "+c05OpsS1b)
		for _, b := range ss {
			out("S2", "S "+a+" "+b+": "+c05OpsS2)
		}
	}
	nRandS := 800
	if thorough {
		nRandS = 10000
	}
	randSS := func() string {
		if rng.Intn(14) == 0 {
			return "nil"
		}
		var p []string
		for k := 0; k < 4; k++ {
			if rng.Intn(2) == 0 {
				s := c05RandList(rng, 4, 5)
				if s == "nil" {
					s = "[]"
				}
				p = append(p, fmt.Sprintf("%d:%s", k, s))
			}
		}
		return "{" + strings.Join(p, ",") + "}"
	}
	for n := 0; n < nRandS; n++ {
		out("Srand", "S "+randSS()+" "+randSS()+": "+c05OpsS2+" ; "+c05OpsS1)
	}
	// ---- kind Q: histories on the same objects; streams with spare capacity
	qBinary := []string{"union", "inter", "minusstreams", "minus"}
	qOps := func(n int) []string { // every op applicable when n objects exist
		var res []string
		for _, name := range qBinary {
			for r := 0; r < n; r++ {
				for a := 0; a < n; a++ {
					res = append(res, fmt.Sprintf("%s:%d:%d", name, r, a))
				}
			}
		}
		for r := 0; r < n; r++ {
			res = append(res, fmt.Sprintf("clone:%d", r))
		}
		return res
	}
	qTriples := [][]string{
		{"{0:[0.1+2]}", "{0:[3]}", "{0:[4]}"},
		{"{0:[0.1+3],1:[2+1]}", "{0:[1],1:[5]}", "{0:[0.6],2:[7]}"},
		{"{0:[0.1.2],1:[3.4]}", "{0:[1],1:[3.4]}", "{0:[1.2.5],1:[4.6]}"},
		{"{0:[0.1+2],1:[2]}", "{1:[2+2]}", "{0:[]}"},
		{"{0:[+2],1:[1+1]}", "{0:[1],1:[1]}", "{}"},
		{"{0:[0.0.1+1]}", "{0:[0+4],1:[2]}", "{0:[1+4],1:[3]}"},
	}
	for _, t := range qTriples {
		head := "Q " + strings.Join(t, " ") + ": "
		for _, o1 := range qOps(3) {
			for _, o2 := range qOps(4) {
				out("Q2", head+o1+" ; "+o2)
			}
		}
	}
	nRandQ := 2500
	if thorough {
		nRandQ = 40000
	}
	randStream := func() string {
		n := rng.Intn(4)
		l := make([]string, n)
		for k := range l {
			l[k] = strconv.Itoa(rng.Intn(5))
		}
		sp := ""
		if rng.Intn(2) == 0 {
			sp = "+" + strconv.Itoa(1+rng.Intn(3))
		}
		return "[" + strings.Join(l, ".") + sp + "]"
	}
	randQSet := func() string {
		var p []string
		for k := 0; k < 3; k++ {
			if rng.Intn(3) > 0 {
				p = append(p, fmt.Sprintf("%d:%s", k, randStream()))
			}
		}
		return "{" + strings.Join(p, ",") + "}"
	}
	for n := 0; n < nRandQ; n++ {
		no := 2 + rng.Intn(2)
		opds := make([]string, no)
		for k := range opds {
			opds[k] = randQSet()
		}
		nops := 2 + rng.Intn(3)
		ops := make([]string, nops)
		for k := range ops {
			cur := no + k
			if rng.Intn(8) == 0 {
				ops[k] = fmt.Sprintf("clone:%d", rng.Intn(cur))
				continue
			}
			// prefer the original operands as receivers, so that the same receiver is used repeatedly
			r := rng.Intn(cur)
			if rng.Intn(2) == 0 {
				r = rng.Intn(no)
			}
			a := strconv.Itoa(rng.Intn(cur))
			if rng.Intn(15) == 0 {
				a = "n"
			}
			ops[k] = fmt.Sprintf("%s:%d:%s", qBinary[rng.Intn(4)], r, a)
		}
		out("Qrand", "Q "+strings.Join(opds, " ")+": "+strings.Join(ops, " ; "))
	}
	// ---- long operands: sizes crossing plausible fast-path thresholds (64/65, 128, 257, 1024, 4097; products of the
	// two lengths around 4096 and 65536), with repeated values in every operand
	pat50 := make([]string, 50)
	for k := range pat50 {
		pat50[k] = strconv.Itoa(k)
	}
	patPairs := [][2]string{
		{"0.1.2.3.4.5.6", "3.7.0.8"},
		{"0.0.1", "1.2"},
		{strings.Join(pat50, "."), "40.41.45.49.50.51.60.40"},
		{"5.9.5.2", "9.9.5.3.3.1.0.2.6"},
	}
	sizePairs := [][2]int{{64, 64}, {65, 64}, {64, 65}, {128, 32}, {128, 33}, {140, 35}, {35, 140}, {257, 16}, {256, 256}, {257, 256},
		{1024, 5}, {1024, 64}, {1025, 65}}
	bigPairs := [][2]int{{4097, 2}, {2, 4097}, {4097, 17}, {4097, 4097}}
	if thorough {
		sizePairs = append(sizePairs, [2]int{300, 300}, [2]int{2048, 33}, [2]int{33, 2048}, [2]int{65537, 2}, [2]int{2, 65537})
	}
	long := func(pat string, n int) string { return fmt.Sprintf("[%s*%d]", pat, n) }
	for pi, pp := range patPairs {
		sp := sizePairs
		if pi < 2 {
			sp = append(append([][2]int{}, sizePairs...), bigPairs...)
		}
		for _, sz := range sp {
			a, b := long(pp[0], sz[0]), long(pp[1], sz[1])
			out("Llong", "L "+a+" "+b+": "+c05Ops2)
			out("Slong", fmt.Sprintf("S {0:%s,1:%s} {0:%s,2:%s}: %s", a, long(pp[1], 3), b, a, c05OpsS2))
		}
		for _, n := range []int{64, 65, 128, 257, 1024, 4097} {
			out("Llong", "L "+long(pp[0], n)+": union ; inter ; diff ; distinct ; s.distinct")
			out("Llong", "L "+long(pp[0], n)+" "+long(pp[1], 70)+" "+long(pp[0], 9)+": "+c05Ops3)
		}
	}
	for _, r := range [][4]int{{0, 63, 32, 95}, {0, 64, 64, 128}, {0, 127, 100, 356}, {0, 256, 5, 9}, {0, 1023, 1000, 1100}, {0, 4096, 4000, 4200}, {10, 20, 0, 4096}} {
		a := fmt.Sprintf("{%d-%d:1}", r[0], r[1])
		b := fmt.Sprintf("{%d-%d:2,5000:3}", r[2], r[3])
		out("Mlong", "M "+a+" "+b+": "+c05OpsM2)
		out("Mlong", "M "+a+" "+b+" {0-4100:3}: "+c05OpsM3)
		out("Slong", fmt.Sprintf("S {%d-%d:[0.1.1*3]} {%d-%d:[1.2*2]}: %s", r[0], r[1], r[2], r[3], c05OpsS2))
	}
	out("Qlong", "Q {0:[0.1.2.3.4.5.6*140+8],1:[1*65]} {0:[3.7.0.8*35]} {0:[6.6.9*64],1:[1.2*70]}: inter:0:1 ; union:0:2 ; minusstreams:0:1 ; inter:0:2")
	out("Plong", "P [0.1.2.3.4.5.6*140+8] [3.7.0.8*35] [6.6.9*64]: inter:0:1 ; minus:0:2 ; extend:0:1 ; inter:0:2 ; distinct:0 ; rmitem:0:2")

	// ---- kind P: Stream histories (spare capacity in the operands), all histories of 2 ops on 3 operand triples
	pOps := func(n int) []string {
		var res []string
		for _, name := range []string{"extend", "minus", "inter", "concat", "append", "rmitem"} {
			for r := 0; r < n; r++ {
				for a := 0; a < n; a++ {
					res = append(res, fmt.Sprintf("%s:%d:%d", name, r, a))
				}
			}
		}
		for r := 0; r < n; r++ {
			res = append(res, fmt.Sprintf("distinct:%d", r), fmt.Sprintf("reverse:%d", r), fmt.Sprintf("clone:%d", r),
				fmt.Sprintf("sort:%d:1", r), fmt.Sprintf("filter:%d:0", r), fmt.Sprintf("map:%d:0", r))
		}
		return res
	}
	for _, t := range [][]string{{"[0.1+2]", "[3]", "[4]"}, {"[0.1.0+1]", "[1.2+2]", "[]"}, {"[+3]", "[2.0+1]", "nil"}} {
		head := "P " + strings.Join(t, " ") + ": "
		for _, o1 := range pOps(3) {
			for _, o2 := range pOps(4) {
				out("P2", head+o1+" ; "+o2)
			}
		}
	}
	nRandP := 1500
	if thorough {
		nRandP = 20000
	}
	for n := 0; n < nRandP; n++ {
		no := 2 + rng.Intn(2)
		opds := make([]string, no)
		for k := range opds {
			opds[k] = randStream()
		}
		nops := 2 + rng.Intn(3)
		ops := make([]string, nops)
		for k := range ops {
			all := pOps(no + k)
			ops[k] = all[rng.Intn(len(all))]
			if rng.Intn(20) == 0 {
				ops[k] = fmt.Sprintf("%s:%d:n", []string{"extend", "minus", "inter"}[rng.Intn(3)], rng.Intn(no+k))
			}
		}
		out("Prand", "P "+strings.Join(opds, " ")+": "+strings.Join(ops, " ; "))
	}
	// ---- kind R: MapSet histories
	rOps := func(n int) []string {
		var res []string
		for _, name := range []string{"union", "inter", "minus"} {
			for r := 0; r < n; r++ {
				for a := 0; a < n; a++ {
					res = append(res, fmt.Sprintf("%s:%d:%d", name, r, a))
				}
			}
		}
		for r := 0; r < n; r++ {
			res = append(res, fmt.Sprintf("clone:%d", r), fmt.Sprintf("add:%d:[1.7]", r), fmt.Sprintf("rmkeys:%d:[1.2]", r),
				fmt.Sprintf("rmvals:%d:[11.21]", r), fmt.Sprintf("mapval:%d:0", r))
		}
		return res
	}
	for _, t := range [][]string{{"{0:10,1:11}", "{1:21,2:22}"}, {"{0:10,1:11,2:12}", "{1:21}"}, {"{1:11}", "{0:20,1:21}"},
		{"{0:10}", "{}"}, {"nilmap", "{1:21}"}, {"{0:10,1:11}", "{0:20,1:21}"}} {
		head := "R " + strings.Join(t, " ") + ": "
		for _, o1 := range rOps(2) {
			for _, o2 := range rOps(3) {
				out("R2", head+o1+" ; "+o2)
			}
		}
	}
	nRandR := 1000
	if thorough {
		nRandR = 15000
	}
	for n := 0; n < nRandR; n++ {
		no := 2 + rng.Intn(2)
		opds := make([]string, no)
		for k := range opds {
			var p []string
			for key := 0; key < 4; key++ {
				if rng.Intn(2) == 0 {
					p = append(p, fmt.Sprintf("%d:%d", key, 1+rng.Intn(4)))
				}
			}
			opds[k] = "{" + strings.Join(p, ",") + "}"
		}
		nops := 2 + rng.Intn(3)
		ops := make([]string, nops)
		for k := range ops {
			cur := no + k
			switch rng.Intn(8) {
			case 0:
				ops[k] = fmt.Sprintf("add:%d:[%d.%d]", rng.Intn(cur), rng.Intn(6), rng.Intn(6))
			case 1:
				ops[k] = fmt.Sprintf("rmkeys:%d:[%d]", rng.Intn(cur), rng.Intn(6))
			case 2:
				ops[k] = fmt.Sprintf("rmvals:%d:[%d.%d]", rng.Intn(cur), 1+rng.Intn(4), 1+rng.Intn(4)) // never 0: Add's zero value is nil in the interface{} family
			default:
				a := strconv.Itoa(rng.Intn(cur))
				if rng.Intn(15) == 0 {
					a = "n"
				}
				ops[k] = fmt.Sprintf("%s:%d:%s", []string{"union", "inter", "minus"}[rng.Intn(3)], rng.Intn(cur), a)
			}
		}
		out("Rrand", "R "+strings.Join(opds, " ")+": "+strings.Join(ops, " ; "))
	}
	return map[string]interface{}{
		"exhaustive": false,
		"scope": "L: arity 0; all 86 operands (nil + lists of length <= 3 over 4 letters) for arity 1 and all 86^2 pairs; " +
			"triples: quick 22^3 (length <= 2 over 4 letters) + 86x6x6, thorough all 86^3; random arity 1..5, length <= 8, alphabet <= 7. " +
			"M: all maps over 3 keys + nil + nil map, pairs and triples; random 6-key maps. " +
			"S: all key->stream maps with <= 2 of 3 keys, streams of length <= 2 over 2 letters (incl. empty) + nil, all pairs; random 4-key maps, streams length <= 5 over 4 letters. " +
			"long operands (written [pattern*n] / {a-b:v}): every binary set operation of the four levels on operand sizes 64/65/128/140/257/1024/1025/4097 (products of the lengths around 4096 and 65536) with repeated values, 4 pattern pairs. " +
			"P / R: Stream (3 operand triples, spare capacity) and MapSet (6 operand pairs) histories: ALL histories of 2 ops, every object re-read after every op, + random histories of 2..4 ops. " +
			"Q: 6 operand triples (streams with spare capacity) x ALL histories of 2 ops (39 x 68) with every object re-read after every op; random histories of 2..4 ops on 2..3 random operands",
		"cases_by_kind": counts,
	}
}

func init() { register("C05", &Prop{Gen: c05Gen, Run: c05Run, CaseTimeout: 5 * time.Second}) }
