package main

// Park-point controller shared by the schedule-quantified properties (C07-C10, C12-C16).
//
// The repository, built with -tags verif, calls verifPoint("<name>") at the program points listed in
// DESIGN.md section 8.  A Ctl installed with fpgo.VerifSetController decides what a goroutine reaching a
// point does:
//   - directed replay: goroutines started with Ctl.Go(name, f) are *logical threads*; a rule
//     ParkAt(thread, point) makes that thread block at the point until Release(thread, point); the
//     driver of a schedule uses WaitAt to know the thread has arrived.  Thread "*" matches every goroutine,
//     including the library's internal ones (loader, spawn loop, workers).
//   - stress: SetDelay installs a function giving a (seeded) delay for every point reached, which widens
//     the race windows without fixing a schedule.
// Only one controller is active at a time (the harness runs cases sequentially).

import (
	"fmt"
	"sync"
	"time"

	fpgo "github.com/TeaEntityLab/fpGo/v2"
)

type Ctl struct {
	mu      sync.Mutex
	names   map[int64]string         // goroutine id -> logical thread name
	rules   map[string]bool          // "thread@point" (thread may be "*") -> park
	parked  map[string]chan struct{} // "thread@point" -> release channel
	arrived map[string]int           // how many times each key was reached (parked or not)
	cond    *sync.Cond
	delay   func(thread, point string) time.Duration
	trace   []string
	tracing bool
}

func NewCtl() *Ctl {
	c := &Ctl{names: map[int64]string{}, rules: map[string]bool{}, parked: map[string]chan struct{}{}, arrived: map[string]int{}}
	c.cond = sync.NewCond(&c.mu)
	fpgo.VerifSetController(c)
	return c
}

// Uninstall removes the controller and releases everything still parked.
func (c *Ctl) Uninstall() {
	fpgo.VerifSetController(nil)
	c.mu.Lock()
	for k, ch := range c.parked {
		close(ch)
		delete(c.parked, k)
	}
	c.rules = map[string]bool{}
	c.mu.Unlock()
}

func (c *Ctl) SetDelay(f func(thread, point string) time.Duration) { c.mu.Lock(); c.delay = f; c.mu.Unlock() }
func (c *Ctl) Trace(on bool)                                      { c.mu.Lock(); c.tracing = on; c.mu.Unlock() }
func (c *Ctl) TraceLog() []string {
	c.mu.Lock()
	defer c.mu.Unlock()
	return append([]string{}, c.trace...)
}

// Reach implements fpgo.VerifController.
func (c *Ctl) Reach(gid int64, point string) {
	c.mu.Lock()
	name, ok := c.names[gid]
	if !ok {
		name = "internal"
	}
	key := name + "@" + point
	c.arrived[key]++
	c.arrived["*@"+point]++
	if c.tracing {
		c.trace = append(c.trace, key)
	}
	var ch chan struct{}
	if c.rules[key] || c.rules["*@"+point] {
		pk := key
		if !c.rules[key] {
			pk = "*@" + point
		}
		if _, busy := c.parked[pk]; !busy {
			ch = make(chan struct{})
			c.parked[pk] = ch
		}
	}
	d := time.Duration(0)
	if c.delay != nil {
		d = c.delay(name, point)
	}
	c.cond.Broadcast()
	c.mu.Unlock()
	if ch != nil {
		<-ch
	}
	if d > 0 {
		time.Sleep(d)
	}
}

// Thread is a logical thread started by Go.
type Thread struct {
	Name string
	done chan string
}

// Go starts f as logical thread `name`.  Its outcome ("ok" or "panic: <msg>") is available from Wait.
func (c *Ctl) Go(name string, f func()) *Thread {
	t := &Thread{Name: name, done: make(chan string, 1)}
	ready := make(chan struct{})
	go func() {
		c.mu.Lock()
		c.names[fpgo.VerifGoID()] = name
		c.mu.Unlock()
		close(ready)
		defer func() {
			if r := recover(); r != nil {
				t.done <- fmt.Sprint("panic: ", r)
				return
			}
			t.done <- "ok"
		}()
		f()
	}()
	<-ready
	return t
}

// Wait returns the thread's outcome, or "blocked" if it has not finished within d.
func (t *Thread) Wait(d time.Duration) string {
	select {
	case r := <-t.done:
		t.done <- r
		return r
	case <-time.After(d):
		return "blocked"
	}
}

// ParkAt makes `thread` (or every goroutine, for "*") block when it reaches `point`.
func (c *Ctl) ParkAt(thread, point string) { c.mu.Lock(); c.rules[thread+"@"+point] = true; c.mu.Unlock() }

// Unpark removes the rule (does not release a goroutine already parked).
func (c *Ctl) Unpark(thread, point string) {
	c.mu.Lock()
	delete(c.rules, thread+"@"+point)
	c.mu.Unlock()
}

// WaitAt waits until a goroutine is parked at thread@point.
func (c *Ctl) WaitAt(thread, point string, d time.Duration) bool {
	key := thread + "@" + point
	deadline := time.Now().Add(d)
	c.mu.Lock()
	defer c.mu.Unlock()
	for {
		if _, ok := c.parked[key]; ok {
			return true
		}
		if time.Now().After(deadline) {
			return false
		}
		// cond has no timed wait: poll with a short sleep outside the lock
		c.mu.Unlock()
		time.Sleep(200 * time.Microsecond)
		c.mu.Lock()
	}
}

// Release lets the goroutine parked at thread@point continue (and removes the rule).
func (c *Ctl) Release(thread, point string) bool {
	key := thread + "@" + point
	c.mu.Lock()
	ch, ok := c.parked[key]
	delete(c.parked, key)
	delete(c.rules, key)
	c.mu.Unlock()
	if ok {
		close(ch)
	}
	return ok
}

// Reached reports how often thread@point was reached so far.
func (c *Ctl) Reached(thread, point string) int {
	c.mu.Lock()
	defer c.mu.Unlock()
	return c.arrived[thread+"@"+point]
}
