package main

// C14 — coroutines pair every YieldFrom with the matching YieldRef, in order, per caller.
//
// Case lines:
//   pair shape=<fixed|echo|acc> reqs=a,b,c startval=V seed=S jitter=J park=P
//       one target, callers 0..n-1; caller i issues reqs[i] sequential YieldFrom(target, i*1000+s) (s = 1..);
//       the target performs (startval>0 ? 1 : 0) + sum(reqs) YieldRefs.  y_k is decided by the shape from what the
//       target has received so far.  park=1 holds the target at cor.yieldref.afterRecv for every op until at
//       least two further requests are queued (or no more can come), which forces opCh to fill beyond 5.
//       Monitors (schedule independent): per caller the target saw exactly its x's in order; each caller got
//       exactly the y's of its own requests in order; y_k is the shape's value; StartWithVal's value reached the
//       first YieldRef.  Observation: "ok total=<T> first=<V>"  or  "viol <kind> ...".
//   donot v=V     DoNotation returns the effect's result          -> "ok <V>"
//   yfio v=V      YieldFromIO returns the IO's value              -> "ok <V>"
//   flags         IsStarted/IsDone before Start, while running, after the effect returned -> "b0 b0 b1 b0 b1 b1"

import (
	"fmt"
	"math/rand"
	"strconv"
	"strings"
	"sync"
	"time"

	fpgo "github.com/TeaEntityLab/fpGo/v2"
)

func c14Shape(shape string, k int, seenX []int) int {
	switch shape {
	case "fixed":
		return 7*k + 3
	case "echo":
		if len(seenX) == 0 {
			return 1
		}
		return seenX[len(seenX)-1] + 1
	default: // acc
		s := 0
		for _, x := range seenX {
			s += x
		}
		return s%100003 + 2
	}
}

func c14Pair(par map[string]string) string {
	shape := par["shape"]
	var reqs []int
	for _, f := range strings.Split(par["reqs"], ",") {
		n, _ := strconv.Atoi(f)
		reqs = append(reqs, n)
	}
	startval, _ := strconv.Atoi(par["startval"])
	seed, _ := strconv.ParseInt(par["seed"], 10, 64)
	jitter, _ := strconv.Atoi(par["jitter"])
	total := 0
	for _, n := range reqs {
		total += n
	}
	var ctl *Ctl
	if jitter > 0 {
		ctl = NewCtl()
		defer ctl.Uninstall()
		var mu sync.Mutex
		jr := rand.New(rand.NewSource(seed))
		ctl.SetDelay(func(_, _ string) time.Duration {
			mu.Lock()
			defer mu.Unlock()
			if jr.Intn(3) == 0 {
				return time.Duration(jr.Intn(jitter*40)+1) * time.Microsecond
			}
			return 0
		})
	}
	type rec struct{ x, y int }
	var log []rec // written by the target goroutine only, read after it finished
	first := -1
	var tg *fpgo.CorDef[int]
	tdone := make(chan struct{})
	slow := par["park"] == "1"
	tg = fpgo.CorNewGenerics[int](func() {
		defer close(tdone)
		var seen []int
		if startval > 0 {
			first = tg.YieldRef(0)
		}
		for k := 0; k < total; k++ {
			if slow && k%3 == 0 {
				time.Sleep(300 * time.Microsecond) // let requests pile up beyond the buffer of 5
			}
			y := c14Shape(shape, k, seen)
			x := tg.YieldRef(y)
			seen = append(seen, x)
			log = append(log, rec{x, y})
		}
	})
	if startval > 0 {
		tg.StartWithVal(startval)
	} else {
		tg.Start()
	}
	answers := make([][]int, len(reqs))
	var wg sync.WaitGroup
	for i, n := range reqs {
		wg.Add(1)
		go func(i, n int) {
			defer wg.Done()
			me := fpgo.CorNewGenerics[int](func() {})
			for s := 1; s <= n; s++ {
				answers[i] = append(answers[i], me.YieldFrom(tg, i*1000+s))
			}
		}(i, n)
	}
	fin := make(chan struct{})
	go func() { wg.Wait(); <-tdone; close(fin) }()
	select {
	case <-fin:
	case <-time.After(5 * time.Second):
		return "viol hang"
	}
	if len(log) != total {
		return fmt.Sprintf("viol count target-took=%d want=%d", len(log), total)
	}
	// y_k is the shape's value of what was received before
	var seen []int
	for k, r := range log {
		if r.y != c14Shape(shape, k, seen) {
			return fmt.Sprintf("viol gen k=%d", k)
		}
		seen = append(seen, r.x)
	}
	for i, n := range reqs {
		var xs, ys []int
		for _, r := range log {
			if r.x/1000 == i {
				xs = append(xs, r.x)
				ys = append(ys, r.y)
			}
		}
		if len(xs) != n {
			return fmt.Sprintf("viol lost-or-dup caller=%d target-saw=%d want=%d", i, len(xs), n)
		}
		for s := 1; s <= n; s++ {
			if xs[s-1] != i*1000+s {
				return fmt.Sprintf("viol order caller=%d pos=%d saw=%d", i, s, xs[s-1])
			}
		}
		if len(answers[i]) != n {
			return fmt.Sprintf("viol answers caller=%d got=%d want=%d", i, len(answers[i]), n)
		}
		for s := 0; s < n; s++ {
			if answers[i][s] != ys[s] {
				return fmt.Sprintf("viol misrouted caller=%d pos=%d got=%d want=%d", i, s+1, answers[i][s], ys[s])
			}
		}
	}
	if startval > 0 && first != startval {
		return fmt.Sprintf("viol startval first=%d want=%d", first, startval)
	}
	if !tg.IsDone() || !tg.IsStarted() {
		return "viol flags"
	}
	fv := 0
	if startval > 0 {
		fv = first
	}
	return fmt.Sprintf("ok total=%d first=%d", total, fv)
}

func c14Bool(b bool) string {
	if b {
		return "b1"
	}
	return "b0"
}

func c14Run(line string) string {
	fields := strings.Fields(line)
	if len(fields) == 0 {
		return "bad-line"
	}
	par := map[string]string{}
	for _, f := range fields[1:] {
		if i := strings.Index(f, "="); i > 0 {
			par[f[:i]] = f[i+1:]
		}
	}
	switch fields[0] {
	case "pair":
		return c14Pair(par)
	case "donot":
		v, _ := strconv.Atoi(par["v"])
		var c fpgo.CorDef[int]
		r := c.DoNotation(func(self *fpgo.CorDef[int]) int { return v })
		return "ok " + strconv.Itoa(r)
	case "yfio":
		v, _ := strconv.Atoi(par["v"])
		var c fpgo.CorDef[int]
		evals := 0
		r := c.DoNotation(func(self *fpgo.CorDef[int]) int {
			return self.YieldFromIO(fpgo.MonadIONewGenerics(func() int { evals++; return v }))
		})
		if evals != 1 {
			return "viol io-evaluated " + strconv.Itoa(evals)
		}
		return "ok " + strconv.Itoa(r)
	case "flags":
		gate := make(chan struct{})
		inside := make(chan struct{})
		c := fpgo.CorNewGenerics[int](func() { close(inside); <-gate })
		out := []string{c14Bool(c.IsStarted()), c14Bool(c.IsDone())}
		c.Start()
		<-inside
		out = append(out, c14Bool(c.IsStarted()), c14Bool(c.IsDone()))
		close(gate)
		deadline := time.Now().Add(3 * time.Second)
		for !c.IsDone() && time.Now().Before(deadline) {
			time.Sleep(100 * time.Microsecond)
		}
		out = append(out, c14Bool(c.IsStarted()), c14Bool(c.IsDone()))
		return strings.Join(out, " ")
	}
	return "bad-line"
}

func c14Gen(tier string, rng *rand.Rand, emit func(string)) map[string]interface{} {
	n := 0
	e := func(s string) { emit(s); n++ }
	shapes := []string{"fixed", "echo", "acc"}
	// directed: one caller with n requests (incl. more than the buffer of 5), then 2..8 callers
	for _, sh := range shapes {
		for _, sv := range []int{0, 9} {
			e(fmt.Sprintf("pair shape=%s reqs=1 startval=%d seed=1 jitter=0 park=0", sh, sv))
			e(fmt.Sprintf("pair shape=%s reqs=12 startval=%d seed=1 jitter=0 park=1", sh, sv))
			e(fmt.Sprintf("pair shape=%s reqs=3,3 startval=%d seed=2 jitter=1 park=0", sh, sv))
			e(fmt.Sprintf("pair shape=%s reqs=2,2,2,2,2,2,2,2 startval=%d seed=3 jitter=1 park=1", sh, sv))
		}
	}
	e("donot v=0")
	e("donot v=41")
	e("yfio v=7")
	e("yfio v=0")
	e("flags")
	rounds := 30
	if tier == "thorough" {
		rounds = 600
	}
	for k := 0; k < rounds; k++ {
		callers := 1 + rng.Intn(8)
		var rs []string
		for i := 0; i < callers; i++ {
			rs = append(rs, strconv.Itoa(rng.Intn(10)))
		}
		sv := 0
		if rng.Intn(2) == 0 {
			sv = 1 + rng.Intn(50)
		}
		e(fmt.Sprintf("pair shape=%s reqs=%s startval=%d seed=%d jitter=%d park=%d", shapes[rng.Intn(3)], strings.Join(rs, ","), sv, rng.Intn(1<<30), rng.Intn(3), rng.Intn(2)))
	}
	return map[string]interface{}{"cases": n}
}

func init() {
	register("C14", &Prop{Gen: c14Gen, Run: c14Run, CaseTimeout: 30 * time.Second})
}
