package main

// C14 — coroutines pair every YieldFrom with the matching YieldRef, in order, per caller.
//
// Case lines:
//   pair shape=<fixed|echo|acc> reqs=a,b,c startval=V seed=S jitter=J park=P
//       one target, callers 0..n-1; caller i issues reqs[i] sequential YieldFrom(target, i*1000+s) (s = 1..);
//       the target performs (startval>0 ? 1 : 0) + sum(reqs) YieldRefs.  y_k is decided by the shape from what the
//       target has received so far.  park=1 makes the target pause 300 µs before every third YieldRef so that
//       requests pile up in opCh (beyond its buffer of 5 with enough callers).
//       ty=int|any|ptr element type (interface{} / *int have a nil value); startval=nil: StartWithVal(zero of T);
//       late=<ms> / slow=<ms>: the target starts serving late / sleeps before every YieldRef.
//       Monitors (schedule independent): per caller the target saw exactly its x's in order; each caller got
//       exactly the y's of its own requests in order; y_k is the shape's value; StartWithVal's value reached the
//       first YieldRef.  Observation: "ok total=<T> first=<V|nil|none>"  or  "viol <kind> ...".
//   zero ty=T     one caller asks [zero,5,zero,6], the target yields [3,zero,4,zero] (zero of T: 0 / nil) -> "ok zero"
//   donot v=V     DoNotation returns the effect's result          -> "ok <V>"
//   donotyf v=V   the effect of DoNotation uses the coroutine it is given: self.YieldFrom(target, V), the target yields
//                 V+100                                            -> "ok <V+100> saw=<V>"
//   yfio v=V [on=1] [flat=1] [slow=ms]  YieldFromIO returns the IO's value (sync / observed on a Handler / FlatMap
//                 chain v->v+1 / slow IO), evaluated exactly once  -> "ok <V>" ("ok <V+1>" for flat=1)
//   flags         IsStarted/IsDone before Start, while running, after the effect returned -> "b0 b0 b1 b0 b1 b1"

import (
	"fmt"
	"math/rand"
	"strconv"
	"strings"
	"sync"
	"sync/atomic"
	"time"

	fpgo "github.com/TeaEntityLab/fpGo/v2"
)

func c14Shape(shape string, k int, seenX []int) int {
	switch shape {
	case "fixed":
		return 7*k + 3
	case "echo":
		if len(seenX) == 0 {
			return 1
		}
		return seenX[len(seenX)-1] + 1
	default: // acc
		s := 0
		for _, x := range seenX {
			s += x
		}
		return s%100003 + 2
	}
}

func c14Pair(par map[string]string) string {
	switch par["ty"] {
	case "any":
		return c14PairG[interface{}](par, func(i int) interface{} { return i }, func(v interface{}) (int, bool) { i, ok := v.(int); return i, ok })
	case "ptr":
		return c14PairG[*int](par, func(i int) *int { return &i }, func(v *int) (int, bool) {
			if v == nil {
				return 0, false
			}
			return *v, true
		})
	}
	return c14PairG[int](par, func(i int) int { return i }, func(v int) (int, bool) { return v, true })
}

// c14PairG runs one `pair` case for element type T.  late=<ms>: the target's effect sleeps before its first
// YieldRef after the start value (requests pile up: 5 buffered, one sender blocked holding closedM, the rest waiting
// for the lock); slow=<ms>: it sleeps that long before every YieldRef.  startval=nil: StartWithVal(zero value of T).
func c14PairG[T any](par map[string]string, box func(int) T, unbox func(T) (int, bool)) string {
	shape := par["shape"]
	var reqs []int
	for _, f := range strings.Split(par["reqs"], ",") {
		n, _ := strconv.Atoi(f)
		reqs = append(reqs, n)
	}
	startNil := par["startval"] == "nil"
	startval, _ := strconv.Atoi(par["startval"])
	hasStart := startNil || startval > 0
	seed, _ := strconv.ParseInt(par["seed"], 10, 64)
	jitter, _ := strconv.Atoi(par["jitter"])
	late, _ := strconv.Atoi(par["late"])
	slowMs, _ := strconv.Atoi(par["slow"])
	total := 0
	for _, n := range reqs {
		total += n
	}
	var ctl *Ctl
	if jitter > 0 {
		ctl = NewCtl()
		defer ctl.Uninstall()
		var mu sync.Mutex
		jr := rand.New(rand.NewSource(seed))
		ctl.SetDelay(func(_, _ string) time.Duration {
			mu.Lock()
			defer mu.Unlock()
			if jr.Intn(3) == 0 {
				return time.Duration(jr.Intn(jitter*40)+1) * time.Microsecond
			}
			return 0
		})
	}
	type rec struct {
		x, y int
		xok  bool
	}
	var log []rec // written by the target goroutine only, read after it finished
	firstStr := "none"
	var tg *fpgo.CorDef[T]
	tdone := make(chan struct{})
	park := par["park"] == "1"
	tgReady := make(chan struct{})
	effect := func() {
		defer close(tdone)
		<-tgReady
		var seen []int
		if hasStart {
			var zero T
			f := tg.YieldRef(zero)
			if v, ok := unbox(f); ok {
				firstStr = strconv.Itoa(v)
			} else {
				firstStr = "nil"
			}
		}
		if late > 0 {
			time.Sleep(time.Duration(late) * time.Millisecond)
		}
		for k := 0; k < total; k++ {
			if slowMs > 0 {
				time.Sleep(time.Duration(slowMs) * time.Millisecond)
			} else if park && k%3 == 0 {
				time.Sleep(300 * time.Microsecond) // let requests pile up beyond the buffer of 5
			}
			y := c14Shape(shape, k, seen)
			xv, ok := unbox(tg.YieldRef(box(y)))
			seen = append(seen, xv)
			log = append(log, rec{xv, y, ok})
		}
	}
	if par["new"] == "1" {
		// NewAndStart: the effect starts before the assignment to tg below is visible; it waits for tgReady
		tg = (&fpgo.CorDef[T]{}).NewAndStart(effect)
		close(tgReady)
	} else {
		tg = fpgo.CorNewGenerics[T](effect)
		close(tgReady)
		if startNil {
			var zero T
			tg.StartWithVal(zero)
		} else if startval > 0 {
			tg.StartWithVal(box(startval))
		} else {
			tg.Start()
		}
	}
	// again=sv:<v> / again=s: the start API is used a second time on the already started coroutine — it must be a
	// no-op (in particular no second start value may be queued); againat=<ms> delays it into the running traffic
	again := func() {
		if ms, _ := strconv.Atoi(par["againat"]); ms > 0 {
			time.Sleep(time.Duration(ms) * time.Millisecond)
		}
		switch a := par["again"]; {
		case a == "s":
			tg.Start()
		case strings.HasPrefix(a, "sv:"):
			v, _ := strconv.Atoi(a[3:])
			tg.StartWithVal(box(v))
		}
	}
	if par["againat"] == "" || par["againat"] == "0" {
		again()
	} else {
		go again()
	}
	answers := make([][]int, len(reqs))
	nilAnswers := make([]int, len(reqs))
	var wg sync.WaitGroup
	for i, n := range reqs {
		wg.Add(1)
		go func(i, n int) {
			defer wg.Done()
			me := fpgo.CorNewGenerics[T](func() {})
			for s := 1; s <= n; s++ {
				v, ok := unbox(me.YieldFrom(tg, box(i*1000+s)))
				if !ok {
					nilAnswers[i]++
				}
				answers[i] = append(answers[i], v)
			}
		}(i, n)
	}
	fin := make(chan struct{})
	callersDone := make(chan struct{})
	go func() { wg.Wait(); close(callersDone); <-tdone; close(fin) }()
	select {
	case <-fin:
	case <-time.After(time.Duration(5000+late+slowMs*total) * time.Millisecond):
		select {
		case <-callersDone:
			// every YieldFrom returned but the target still waits for requests: some were dropped on the way
			return "viol hang target-still-waiting-for-requests all-callers-returned"
		default:
			return "viol hang callers-blocked"
		}
	}
	if len(log) != total {
		return fmt.Sprintf("viol count target-took=%d want=%d", len(log), total)
	}
	// y_k is the shape's value of what was received before
	var seen []int
	for k, r := range log {
		if !r.xok {
			return fmt.Sprintf("viol nil-request k=%d", k)
		}
		if r.y != c14Shape(shape, k, seen) {
			return fmt.Sprintf("viol gen k=%d", k)
		}
		seen = append(seen, r.x)
	}
	for i, n := range reqs {
		var xs, ys []int
		for _, r := range log {
			if r.x/1000 == i {
				xs = append(xs, r.x)
				ys = append(ys, r.y)
			}
		}
		if len(xs) != n {
			return fmt.Sprintf("viol lost-or-dup caller=%d target-saw=%d want=%d", i, len(xs), n)
		}
		for s := 1; s <= n; s++ {
			if xs[s-1] != i*1000+s {
				return fmt.Sprintf("viol order caller=%d pos=%d saw=%d", i, s, xs[s-1])
			}
		}
		if len(answers[i]) != n {
			return fmt.Sprintf("viol answers caller=%d got=%d want=%d", i, len(answers[i]), n)
		}
		if nilAnswers[i] > 0 {
			return fmt.Sprintf("viol nil-answer caller=%d", i)
		}
		for s := 0; s < n; s++ {
			if answers[i][s] != ys[s] {
				return fmt.Sprintf("viol misrouted caller=%d pos=%d got=%d want=%d", i, s+1, answers[i][s], ys[s])
			}
		}
	}
	wantFirst := "none"
	if startNil {
		var zero T
		if v, ok := unbox(zero); ok {
			wantFirst = strconv.Itoa(v)
		} else {
			wantFirst = "nil"
		}
	} else if startval > 0 {
		wantFirst = strconv.Itoa(startval)
	}
	if firstStr != wantFirst {
		return fmt.Sprintf("viol startval first=%s want=%s", firstStr, wantFirst)
	}
	// close() sets isClosed right AFTER the effect returned (tdone is closed by the effect's own defer): give the
	// target goroutine time to get there — on a loaded machine it may be descheduled in between
	flagDeadline := time.Now().Add(3 * time.Second)
	for !tg.IsDone() && time.Now().Before(flagDeadline) {
		time.Sleep(100 * time.Microsecond)
	}
	if !tg.IsDone() || !tg.IsStarted() {
		return "viol flags"
	}
	return fmt.Sprintf("ok total=%d first=%s", total, firstStr)
}

// c14Zero: requests and yielded values that are the zero value of T (nil for interface{} / pointers) are values
// like any other: one caller asks [zero, 5, zero, 6], the target yields [3, zero, 4, zero]; the target must see
// exactly those requests and the caller exactly those answers.
func c14Zero(par map[string]string) string {
	switch par["ty"] {
	case "any":
		return c14ZeroG[interface{}](func(i int) interface{} { return i }, func(v interface{}) string {
			if v == nil {
				return "z"
			}
			return strconv.Itoa(v.(int))
		})
	case "ptr":
		return c14ZeroG[*int](func(i int) *int { return &i }, func(v *int) string {
			if v == nil {
				return "z"
			}
			return strconv.Itoa(*v)
		})
	}
	return c14ZeroG[int](func(i int) int { return i }, func(v int) string {
		if v == 0 {
			return "z"
		}
		return strconv.Itoa(v)
	})
}

func c14ZeroG[T any](box func(int) T, show func(T) string) string {
	var zero T
	xs := []T{zero, box(5), zero, box(6)}
	ys := []T{box(3), zero, box(4), zero}
	var saw, got []string
	var tg *fpgo.CorDef[T]
	tdone := make(chan struct{})
	tg = fpgo.CorNewGenerics[T](func() {
		defer close(tdone)
		for _, y := range ys {
			saw = append(saw, show(tg.YieldRef(y)))
		}
	})
	tg.Start()
	cdone := make(chan struct{})
	go func() {
		defer close(cdone)
		me := fpgo.CorNewGenerics[T](func() {})
		for _, x := range xs {
			got = append(got, show(me.YieldFrom(tg, x)))
		}
	}()
	deadline := time.After(5 * time.Second)
	for _, ch := range []chan struct{}{cdone, tdone} {
		select {
		case <-ch:
		case <-deadline:
			select {
			case <-cdone:
				return "viol hang target-still-waiting-for-requests caller-returned"
			default:
				return "viol hang caller-blocked"
			}
		}
	}
	if strings.Join(saw, ",") != "z,5,z,6" {
		return "viol zero-request target-saw=" + strings.Join(saw, ",")
	}
	if strings.Join(got, ",") != "3,z,4,z" {
		return "viol zero-answer caller-got=" + strings.Join(got, ",")
	}
	return "ok zero"
}

func c14Bool(b bool) string {
	if b {
		return "b1"
	}
	return "b0"
}

func c14Run(line string) string {
	fields := strings.Fields(line)
	if len(fields) == 0 {
		return "bad-line"
	}
	par := map[string]string{}
	for _, f := range fields[1:] {
		if i := strings.Index(f, "="); i > 0 {
			par[f[:i]] = f[i+1:]
		}
	}
	switch fields[0] {
	case "pair":
		return c14Pair(par)
	case "zero":
		return c14Zero(par)
	case "two":
		return c14Two(par)
	case "donot":
		v, _ := strconv.Atoi(par["v"])
		var c fpgo.CorDef[int]
		r := c.DoNotation(func(self *fpgo.CorDef[int]) int { return v })
		return "ok " + strconv.Itoa(r)
	case "donotyf":
		// the coroutine DoNotation hands to the effect is a working caller: the effect asks another coroutine
		v, _ := strconv.Atoi(par["v"])
		saw := -1
		var tg *fpgo.CorDef[int]
		tg = fpgo.CorNewGenerics[int](func() { saw = tg.YieldRef(v + 100) })
		tg.Start()
		res := make(chan int, 1)
		go func() {
			var c fpgo.CorDef[int]
			res <- c.DoNotation(func(self *fpgo.CorDef[int]) int { return self.YieldFrom(tg, v) })
		}()
		select {
		case r := <-res:
			deadline := time.Now().Add(3 * time.Second)
			for !tg.IsDone() && time.Now().Before(deadline) {
				time.Sleep(100 * time.Microsecond)
			}
			if !tg.IsDone() {
				return "viol hang target-never-finished"
			}
			return fmt.Sprintf("ok %d saw=%d", r, saw)
		case <-time.After(5 * time.Second):
			return "viol hang DoNotation-never-returned"
		}
	case "donottarget":
		// the coroutine DoNotation hands to its effect is the TARGET of another goroutine's YieldFrom: the effect
		// serves it with YieldRef; IsStarted() is observed inside the running effect
		v, _ := strconv.Atoi(par["v"])
		selfCh := make(chan *fpgo.CorDef[int], 1)
		started := false
		res := make(chan int, 1)
		go func() {
			var c fpgo.CorDef[int]
			res <- c.DoNotation(func(self *fpgo.CorDef[int]) int {
				started = self.IsStarted()
				selfCh <- self
				return self.YieldRef(v + 100)
			})
		}()
		yres := make(chan int, 1)
		go func() {
			tg := <-selfCh
			me := fpgo.CorNewGenerics[int](func() {})
			yres <- me.YieldFrom(tg, v)
		}()
		var r, y int
		for k := 0; k < 2; k++ {
			select {
			case r = <-res:
				res = nil
			case y = <-yres:
				yres = nil
			case <-time.After(5 * time.Second):
				return "viol hang DoNotation-as-target"
			}
		}
		return fmt.Sprintf("ok ret=%d y=%d started=%s", r, y, c14Bool(started))
	case "yfio":
		// self=util|done|fresh: YieldFromIO called on the utils instance fpgo.Cor / a finished / a never started
		// coroutine instead of inside a DoNotation effect.  on=1: the IO is observed on a Handler (its effect runs on the handler's goroutine, YieldFromIO has to wait
		// for it); flat=1: the IO is a FlatMap chain (v -> v+1); slow=<ms>: the IO takes that long
		v, _ := strconv.Atoi(par["v"])
		slow, _ := strconv.Atoi(par["slow"])
		var evals int32
		io := fpgo.MonadIONewGenerics(func() int {
			atomic.AddInt32(&evals, 1)
			if slow > 0 {
				time.Sleep(time.Duration(slow) * time.Millisecond)
			}
			return v
		})
		if par["flat"] == "1" {
			io = io.FlatMap(func(x int) *fpgo.MonadIODef[int] { return fpgo.MonadIOJustGenerics(x + 1) })
		}
		var h *fpgo.HandlerDef
		if par["on"] == "1" {
			h = fpgo.Handler.New()
			defer h.Close()
			io = io.ObserveOn(h)
		}
		res := make(chan int, 1)
		go func() {
			switch par["self"] {
			case "util":
				// the package-level utils instance fpgo.Cor (a zero-value CorDef: no channels, never started)
				uio := fpgo.MonadIONewGenerics(func() interface{} { return io.Eval() })
				r, _ := fpgo.Cor.YieldFromIO(uio).(int)
				res <- r
			case "done":
				// a coroutine whose effect has returned long ago
				c := fpgo.CorNewGenerics[int](func() {})
				c.Start()
				for dl := time.Now().Add(3 * time.Second); !c.IsDone() && time.Now().Before(dl); {
					time.Sleep(100 * time.Microsecond)
				}
				time.Sleep(2 * time.Millisecond)
				res <- c.YieldFromIO(io)
			case "fresh":
				// a coroutine that was never started
				res <- fpgo.CorNewGenerics[int](func() {}).YieldFromIO(io)
			default:
				var c fpgo.CorDef[int]
				res <- c.DoNotation(func(self *fpgo.CorDef[int]) int { return self.YieldFromIO(io) })
			}
		}()
		select {
		case r := <-res:
			if n := atomic.LoadInt32(&evals); n != 1 {
				return "viol io-evaluated " + strconv.Itoa(int(n))
			}
			return "ok " + strconv.Itoa(r)
		case <-time.After(5*time.Second + time.Duration(slow)*time.Millisecond):
			return "viol hang YieldFromIO-never-returned"
		}
	case "flags":
		gate := make(chan struct{})
		inside := make(chan struct{})
		c := fpgo.CorNewGenerics[int](func() { close(inside); <-gate })
		out := []string{c14Bool(c.IsStarted()), c14Bool(c.IsDone())}
		c.Start()
		<-inside
		out = append(out, c14Bool(c.IsStarted()), c14Bool(c.IsDone()))
		close(gate)
		deadline := time.Now().Add(3 * time.Second)
		for !c.IsDone() && time.Now().Before(deadline) {
			time.Sleep(100 * time.Microsecond)
		}
		out = append(out, c14Bool(c.IsStarted()), c14Bool(c.IsDone()))
		return strings.Join(out, " ")
	}
	return "bad-line"
}

func c14Gen(tier string, rng *rand.Rand, emit func(string)) map[string]interface{} {
	n := 0
	e := func(s string) { emit(s); n++ }
	shapes := []string{"fixed", "echo", "acc"}
	// directed: one caller with n requests (incl. more than the buffer of 5), then 2..8 callers
	for _, sh := range shapes {
		for _, sv := range []int{0, 9} {
			e(fmt.Sprintf("pair shape=%s reqs=1 startval=%d seed=1 jitter=0 park=0", sh, sv))
			e(fmt.Sprintf("pair shape=%s reqs=12 startval=%d seed=1 jitter=0 park=1", sh, sv))
			e(fmt.Sprintf("pair shape=%s reqs=3,3 startval=%d seed=2 jitter=1 park=0", sh, sv))
			e(fmt.Sprintf("pair shape=%s reqs=2,2,2,2,2,2,2,2 startval=%d seed=3 jitter=1 park=1", sh, sv))
		}
	}
	// the target starts serving late / serves slowly while 7-8 callers are outstanding: 5 requests buffered, one
	// sender blocked in the send holding closedM, the others waiting for that lock for 100-300 ms
	for _, sh := range shapes {
		e(fmt.Sprintf("pair shape=%s reqs=1,1,1,1,1,1,1,1 startval=0 seed=4 jitter=0 park=0 late=250", sh))
		e(fmt.Sprintf("pair shape=%s reqs=2,2,2,2,2,2,2 startval=7 seed=5 jitter=0 park=0 late=120", sh))
	}
	e("pair shape=echo reqs=2,2,2,2,2,2,2,2 startval=0 seed=6 jitter=0 park=0 slow=40")
	e("pair shape=acc reqs=3,3,3,3,3,3,3 startval=5 seed=7 jitter=1 park=0 slow=30 late=60")
	// element types with a nil value; StartWithVal(nil) / StartWithVal(zero) must still reach the first YieldRef
	for _, ty := range []string{"any", "ptr", "int"} {
		e(fmt.Sprintf("pair ty=%s shape=fixed reqs=3 startval=nil seed=8 jitter=0 park=0", ty))
		e(fmt.Sprintf("pair ty=%s shape=echo reqs=2,3,1 startval=nil seed=9 jitter=1 park=1", ty))
		e(fmt.Sprintf("pair ty=%s shape=acc reqs=2,2 startval=6 seed=10 jitter=1 park=0", ty))
		e(fmt.Sprintf("pair ty=%s shape=acc reqs=4,1 startval=0 seed=11 jitter=0 park=1", ty))
	}
	// the start API used more than once on the same coroutine: the second call is a no-op, the ordinary traffic that
	// follows pairs as usual (StartWithVal;StartWithVal, Start;StartWithVal, NewAndStart;StartWithVal, StartWithVal;Start)
	for _, at := range []int{0, 3} {
		e(fmt.Sprintf("pair shape=fixed reqs=3,2 startval=9 seed=14 jitter=0 park=0 again=sv:77 againat=%d", at))
		e(fmt.Sprintf("pair shape=echo reqs=2,2,2 startval=0 seed=15 jitter=0 park=0 again=sv:77 againat=%d", at))
		e(fmt.Sprintf("pair shape=acc reqs=4 startval=0 seed=16 jitter=0 park=0 new=1 again=sv:77 againat=%d", at))
		e(fmt.Sprintf("pair shape=fixed reqs=2,3 startval=6 seed=17 jitter=0 park=0 again=s againat=%d", at))
		e(fmt.Sprintf("pair ty=any shape=fixed reqs=3 startval=nil seed=18 jitter=0 park=0 again=sv:77 againat=%d", at))
	}
	// zero / nil requests and yielded values are values like any other
	for _, ty := range []string{"int", "any", "ptr"} {
		e("zero ty=" + ty)
	}
	// a caller whose first target finished under it continues with a second, healthy target (c14_two.go)
	e("two mode=directed n2=1")
	e("two mode=directed n2=3")
	e("two mode=directed n2=6")
	e("two mode=stress callers=8 n2=3 late=50 seed=12")
	e("two mode=stress callers=7 n2=2 late=30 seed=13")
	e("donot v=0")
	e("donot v=41")
	e("donotyf v=5")
	e("donotyf v=0")
	e("yfio v=7")
	e("yfio v=0")
	e("yfio v=8 on=1")
	e("yfio v=9 on=1 slow=30")
	e("yfio v=12 self=util")
	e("yfio v=13 self=done")
	e("yfio v=14 self=fresh")
	e("yfio v=15 self=util on=1 slow=10")
	e("yfio v=16 self=done flat=1")
	e("donottarget v=5")
	e("donottarget v=0")
	e("yfio v=10 flat=1")
	e("yfio v=11 flat=1 on=1 slow=10")
	e("flags")
	rounds := 30
	if tier == "thorough" {
		rounds = 600
	}
	for k := 0; k < rounds; k++ {
		callers := 1 + rng.Intn(8)
		var rs []string
		for i := 0; i < callers; i++ {
			rs = append(rs, strconv.Itoa(rng.Intn(10)))
		}
		sv := 0
		if rng.Intn(2) == 0 {
			sv = 1 + rng.Intn(50)
		}
		svs := strconv.Itoa(sv)
		if rng.Intn(5) == 0 {
			svs = "nil"
		}
		extra := ""
		if callers >= 7 && rng.Intn(2) == 0 {
			extra = fmt.Sprintf(" late=%d", 60+rng.Intn(120))
		}
		if k%10 == 9 {
			e(fmt.Sprintf("two mode=stress callers=%d n2=%d late=%d seed=%d", 7+rng.Intn(2), 1+rng.Intn(4), 20+rng.Intn(60), rng.Intn(1<<30)))
		}
		e(fmt.Sprintf("pair ty=%s shape=%s reqs=%s startval=%s seed=%d jitter=%d park=%d%s", []string{"int", "any", "ptr"}[rng.Intn(3)], shapes[rng.Intn(3)], strings.Join(rs, ","), svs, rng.Intn(1<<30), rng.Intn(3), rng.Intn(2), extra))
	}
	return map[string]interface{}{"cases": n}
}

func init() {
	register("C14", &Prop{Gen: c14Gen, Run: c14Run, CaseTimeout: 30 * time.Second})
}
