package main

// C19 — sorting yields an ordered, stable permutation; descriptors sort by key list.
//
// Case lines (the payload id of a record is its input position, so ties are observable):
//
//	D <api> <stack>: rec ; rec ; ...     api = sl  SortedListBySortDescriptors      (input must stay intact)
//	                                           sb  SortBySortDescriptors            (in place)
//	                                           tl  SortDescriptorsBuilder.ToSortedList (input must stay intact)
//	                                           bs  SortDescriptorsBuilder.Sort      (in place)
//	                                           slp / bsp  = sl / bs over POINTER records (*T)
//	                                     stack = comma separated descriptors  <k><F><dir>:  k = f (field-name
//	                                           descriptor) | t (transformer descriptor), F = A|B|C|D, dir = +|-
//	F <api> <prefix>/<sib>/<sib>[/<sib>]: rec ; ...   FORKED builders: a prefix builder (stack) and 2-3 builders derived from it
//	                                     (each <sib> a stack appended by ThenWith… calls); all are derived first, then EVERY
//	                                     builder sorts (api tl = ToSortedList, bs = Sort); observation "[..] | [..] | …":
//	                                     prefix builder first, then the siblings in derivation order
//	S <api> <all>/<k>/<ws|->/<ext>: rec ; ...   a CALLER-OWNED descriptor slice `all` (len = cap) is spread into an empty builder:
//	                                     b := New().ThenWith(all[:k]...); b2 := b.ThenWith…(ext); then the caller overwrites
//	                                     all[j] = ws[j]; sorts with b, b2 and SortedListBySortDescriptors(all, …) — observation
//	                                     "[b] | [b2] | [all]" (b must hold a copy of all[:k], the caller's slice its own writes)
//	T <api> X=<stack>/Y=<stack>[/Z=<stack>]: rec ; ...   three DISTINCT record types that all print as "main.row" but order
//	                                     their fields differently (Z has a non-Comparable field early), sorted one after the other
//	                                     in the same process (api sl | tl); observation "[..] | [..] | …"
//	N <api> <cmp> <nf|nl>: rec ; ~ ; rec ...   interface{} sorts over lists WITH nil entries (~); the comparator orders nil itself
//	                                     (nf nil first, nl nil last, non-nil by <cmp>); api = isort | iidx | iidxb | iidxc |
//	                                     islice (fp SortSlice on []interface{}) | isortfn (fp Sort); observation: ids, ~ for nil
//	                                     SortByIndex index comparators read the elements through: the receiver (sidx, iidx), the slice
//	                                     the Stream was made from (sidxb, iidxb), a second Stream over that slice (sidxc, iidxc), a
//	                                     value copy of the receiver's header (sidxh)
//	L <api> <cmp|stack> <n> <m> <k>:     LONG list, generated on both sides: record i has A = (i*m)%k, C = (i/3)%2, B = "a", D = "x";
//	                                     api a comparator API (then <cmp>) or a descriptor API (then <stack>)
//	O <api> f|g: v ; v ; ...             float64 / float32 instantiation of SortOrdered*: integral values and -0 (ties that can be told apart)
//	C <api> <cmp>: rec ; rec ; ...       api = sort | slice | ssort | sidx | isort | iidx
//	                                           (Sort, SortSlice, Stream.Sort, Stream.SortByIndex, ForInterface twins)
//	                                     cmp = a< | a> | am | b< | ab | no   (strict weak orders, several with many ties)
//	O <api> <ty>: v ; v ; ...            api = asc | desc | so+ | so-  (SortOrderedAscending/Descending, SortOrdered)
//	                                     ty = i (ints) | s (strings, written =abc)
//	rec = A,B,C,D    A, C: int or _ (nil key; transformer descriptors only)   B, D: =chars or _
//	                 A, C are ComparableOrdered[int], B is ComparableString, D is ComparableOrdered[string]
//
// Observation: "[id id ...]" (input positions in output order; for in-place sorts the input afterwards),
// followed by " mutated" if an input that must stay intact changed; O cases print the values.

import (
	"fmt"
	"math"
	"math/rand"
	"strconv"
	"strings"
	"time"

	fpgo "github.com/TeaEntityLab/fpGo/v2"
)

type c19Rec struct {
	ID             int
	A              fpgo.ComparableOrdered[int]
	B              fpgo.ComparableString
	C              fpgo.ComparableOrdered[int]
	D              fpgo.ComparableOrdered[string]
	NA, NB, NC, ND bool // the transformer for this field returns nil
}

func c19ParseRec(id int, s string) (c19Rec, bool) {
	f := strings.Split(s, ",")
	r := c19Rec{ID: id}
	if len(f) != 4 {
		return r, false
	}
	pi := func(t string, dst *fpgo.ComparableOrdered[int], n *bool) bool {
		if t == "_" {
			*n = true
			return true
		}
		v, err := strconv.Atoi(t)
		*dst = fpgo.NewComparableOrdered(v)
		return err == nil
	}
	ok := pi(f[0], &r.A, &r.NA) && pi(f[2], &r.C, &r.NC)
	switch {
	case f[1] == "_":
		r.NB = true
	case strings.HasPrefix(f[1], "="):
		r.B = fpgo.NewComparableString(f[1][1:])
	default:
		ok = false
	}
	switch {
	case f[3] == "_":
		r.ND = true
	case strings.HasPrefix(f[3], "="):
		r.D = fpgo.NewComparableOrdered(f[3][1:])
	default:
		ok = false
	}
	return r, ok
}

// pointer records: FieldSortDescriptor reads the field through reflect.Indirect
func c19TransformerP(field byte) fpgo.TransformerFunctor[*c19Rec, fpgo.Comparable[interface{}]] {
	f := c19Transformer(field)
	return func(r *c19Rec) fpgo.Comparable[interface{}] { return f(*r) }
}

func c19IdsP(l []*c19Rec) string {
	v := make([]c19Rec, len(l))
	for i, r := range l {
		v[i] = *r
	}
	return c19Ids(v)
}

func c19Transformer(field byte) fpgo.TransformerFunctor[c19Rec, fpgo.Comparable[interface{}]] {
	switch field {
	case 'A':
		return func(r c19Rec) fpgo.Comparable[interface{}] {
			if r.NA {
				return nil
			}
			return r.A
		}
	case 'B':
		return func(r c19Rec) fpgo.Comparable[interface{}] {
			if r.NB {
				return nil
			}
			return r.B
		}
	case 'C':
		return func(r c19Rec) fpgo.Comparable[interface{}] {
			if r.NC {
				return nil
			}
			return r.C
		}
	}
	return func(r c19Rec) fpgo.Comparable[interface{}] {
		if r.ND {
			return nil
		}
		return r.D
	}
}

type c19D struct {
	kind, field byte
	asc         bool
}

func c19ParseStack(s string) ([]c19D, bool) {
	var ds []c19D
	for _, t := range strings.Split(s, ",") {
		if len(t) != 3 || (t[0] != 'f' && t[0] != 't') || t[1] < 'A' || t[1] > 'D' || (t[2] != '+' && t[2] != '-') {
			return nil, false
		}
		ds = append(ds, c19D{t[0], t[1], t[2] == '+'})
	}
	return ds, len(ds) > 0
}

func c19Ids(l []c19Rec) string {
	var sb strings.Builder
	sb.WriteByte('[')
	for i, r := range l {
		if i > 0 {
			sb.WriteByte(' ')
		}
		sb.WriteString(strconv.Itoa(r.ID))
	}
	sb.WriteByte(']')
	return sb.String()
}

func c19GetA(r c19Rec) int {
	if r.NA {
		return 0
	}
	return r.A.Val
}

func c19GetB(r c19Rec) string {
	if r.NB {
		return ""
	}
	return r.B.Val
}

func c19Mod2(v int) int { return ((v % 2) + 2) % 2 }

func c19Cmp(name string) func(x, y c19Rec) bool {
	switch name {
	case "a<":
		return func(x, y c19Rec) bool { return c19GetA(x) < c19GetA(y) }
	case "a>":
		return func(x, y c19Rec) bool { return c19GetA(x) > c19GetA(y) }
	case "am":
		return func(x, y c19Rec) bool { return c19Mod2(c19GetA(x)) < c19Mod2(c19GetA(y)) }
	case "b<":
		return func(x, y c19Rec) bool { return c19GetB(x) < c19GetB(y) }
	case "ab":
		return func(x, y c19Rec) bool {
			return c19GetA(x) < c19GetA(y) || (c19GetA(x) == c19GetA(y) && c19GetB(y) < c19GetB(x))
		}
	case "no":
		return func(x, y c19Rec) bool { return false }
	}
	return nil
}

// The same records in a DIFFERENT struct type that has the same name (a function-local type prints as main.c19Rec too) and
// the same field names at other positions, sorted by the same field-name descriptors: the answer must be the same id
// sequence.  (Anything keyed by the type's printed name instead of the type — a reflection cache — mixes the two up.)
func c19TwinSort(ds []c19D, recs []c19Rec) (string, bool) {
	type c19Rec struct {
		ID int
		C  fpgo.ComparableOrdered[int]
		D  fpgo.ComparableOrdered[string]
		A  fpgo.ComparableOrdered[int]
		B  fpgo.ComparableString
	}
	var sds []fpgo.SortDescriptor[c19Rec]
	for _, d := range ds {
		if d.kind != 'f' {
			return "", false
		}
		sds = append(sds, fpgo.NewFieldSortDescriptor[c19Rec](string(d.field), d.asc))
	}
	in := make([]c19Rec, len(recs))
	for i, r := range recs {
		in[i] = c19Rec{ID: r.ID, A: r.A, B: r.B, C: r.C, D: r.D}
	}
	out := fpgo.SortedListBySortDescriptors(sds, in...)
	ids := make([]string, len(out))
	for i, r := range out {
		ids[i] = strconv.Itoa(r.ID)
	}
	return "[" + strings.Join(ids, " ") + "]", true
}

func c19Run(line string) string {
	i := strings.IndexByte(line, ':')
	if i < 0 {
		return "bad-case"
	}
	head := strings.Fields(line[:i])
	var toks []string
	for _, t := range strings.Split(line[i+1:], ";") {
		if t = strings.TrimSpace(t); t != "" {
			toks = append(toks, t)
		}
	}
	if len(head) == 4 && head[0] == "N" {
		return c19RunNil(head, toks)
	}
	var recs []c19Rec
	if len(head) == 6 && head[0] == "L" {
		n, e1 := strconv.Atoi(head[3])
		m, e2 := strconv.Atoi(head[4])
		k, e3 := strconv.Atoi(head[5])
		if e1 != nil || e2 != nil || e3 != nil || k <= 0 || n < 0 || n > 20000 || m < 0 {
			return "bad-case"
		}
		recs = make([]c19Rec, n)
		for j := range recs {
			recs[j] = c19Rec{ID: j, A: fpgo.NewComparableOrdered((j * m) % k), B: fpgo.NewComparableString("a"),
				C: fpgo.NewComparableOrdered((j / 3) % 2), D: fpgo.NewComparableOrdered("x")}
		}
		kind := "D"
		if c19Cmp(head[2]) != nil {
			kind = "C"
		}
		head = []string{kind, head[1], head[2]}
	}
	if len(head) != 3 {
		return "bad-case"
	}
	api := head[1]
	if head[0] == "O" {
		if head[2] == "f" || head[2] == "g" {
			return c19RunOrderedFloat(api, head[2], toks)
		}
		return c19RunOrdered(api, head[2], toks)
	}
	if recs == nil {
		recs = make([]c19Rec, len(toks))
		for k, t := range toks {
			r, ok := c19ParseRec(k, t)
			if !ok {
				return "bad-case"
			}
			recs[k] = r
		}
	}
	switch head[0] {
	case "S":
		return c19RunSpread(api, strings.Split(head[2], "/"), recs)
	case "F":
		return c19RunFork(api, strings.Split(head[2], "/"), recs)
	case "T":
		return c19RunTypes(api, strings.Split(head[2], "/"), recs)
	case "D":
		ds, ok := c19ParseStack(head[2])
		if !ok {
			return "bad-case"
		}
		snapshot := c19Ids(recs)
		// the descriptor list / builder is used a second time on a fresh copy of the input: the answer must be the same
		// (a sort that edits its descriptor list — reordering, consuming it — is right the first time only)
		orig := append([]c19Rec{}, recs...)
		again := func(first string, second string) string {
			if second != strings.TrimSuffix(first, " mutated") {
				return first + " again=" + second
			}
			return first
		}
		switch api {
		case "sl", "sb":
			var sds []fpgo.SortDescriptor[c19Rec]
			for _, d := range ds {
				if d.kind == 'f' {
					sds = append(sds, fpgo.NewFieldSortDescriptor[c19Rec](string(d.field), d.asc))
				} else {
					sds = append(sds, fpgo.NewSimpleSortDescriptor(c19Transformer(d.field), d.asc))
				}
			}
			if api == "sb" {
				fpgo.SortBySortDescriptors(sds, recs)
				fpgo.SortBySortDescriptors(sds, orig)
				return again(c19Ids(recs), c19Ids(orig))
			}
			out := c19Ids(fpgo.SortedListBySortDescriptors(sds, recs...))
			ids1 := out
			if c19Ids(recs) != snapshot {
				out += " mutated"
			}
			out = again(out, c19Ids(fpgo.SortedListBySortDescriptors(sds, orig...)))
			if tw, ok := c19TwinSort(ds, orig); ok && tw != ids1 {
				out += " twin=" + tw
			}
			return out
		case "slp", "bsp":
			ptrs := make([]*c19Rec, len(recs))
			for k := range recs {
				ptrs[k] = &recs[k]
			}
			if api == "slp" {
				var sds []fpgo.SortDescriptor[*c19Rec]
				for _, d := range ds {
					if d.kind == 'f' {
						sds = append(sds, fpgo.NewFieldSortDescriptor[*c19Rec](string(d.field), d.asc))
					} else {
						sds = append(sds, fpgo.NewSimpleSortDescriptor(c19TransformerP(d.field), d.asc))
					}
				}
				out := c19IdsP(fpgo.SortedListBySortDescriptors(sds, ptrs...))
				if c19IdsP(ptrs) != snapshot || c19Ids(recs) != snapshot {
					out += " mutated"
				}
				return out
			}
			b := fpgo.NewSortDescriptorsBuilder[*c19Rec]()
			for _, d := range ds {
				if d.kind == 'f' {
					b = b.ThenWithFieldName(string(d.field), d.asc)
				} else {
					b = b.ThenWithTransformerFunctor(c19TransformerP(d.field), d.asc)
				}
			}
			b.Sort(ptrs)
			return c19IdsP(ptrs)
		case "tl", "bs":
			b := fpgo.NewSortDescriptorsBuilder[c19Rec]()
			for k := 0; k < len(ds); k++ {
				d := ds[k]
				// a builder is a value: a second builder derived from the same shorter one afterwards (and dropped) must not
				// change the first.  (Derived from builders of length < 3 only: with the library's own growth a length-3
				// builder has spare capacity and two extensions of it do share their last slot.)
				prev := b
				switch {
				case d.kind == 'f':
					b = b.ThenWithFieldName(string(d.field), d.asc)
				case k%2 == 1:
					// ThenWith(...) with this and all directly following transformer descriptors at once
					var group []fpgo.SortDescriptor[c19Rec]
					for ; k < len(ds) && ds[k].kind == 't'; k++ {
						group = append(group, fpgo.NewSimpleSortDescriptor(c19Transformer(ds[k].field), ds[k].asc))
					}
					k--
					b = b.ThenWith(group...)
				default:
					b = b.ThenWithTransformerFunctor(c19Transformer(d.field), d.asc)
				}
				if len(prev) < 3 {
					_ = prev.ThenWithFieldName("C", !d.asc) // the sibling
				}
			}
			if api == "bs" {
				b.Sort(recs)
				b.Sort(orig)
				return again(c19Ids(recs), c19Ids(orig))
			}
			out := c19Ids(b.ToSortedList(recs...))
			if c19Ids(recs) != snapshot {
				out += " mutated"
			}
			return again(out, c19Ids(b.ToSortedList(orig...)))
		}
	case "C":
		less := c19Cmp(head[2])
		if less == nil {
			return "bad-case"
		}
		switch api {
		case "sort":
			fpgo.Sort(less, recs)
			return c19Ids(recs)
		case "slice":
			return c19Ids(fpgo.SortSlice(less, recs...))
		case "ssort":
			return c19Ids(fpgo.StreamFromArray(recs).Sort(less).ToArray())
		case "sidx", "sidxb", "sidxc", "sidxh":
			s := fpgo.StreamFromArray(recs) // does not copy: recs IS the stream's storage
			var fn func(i, j int) bool
			switch api {
			case "sidx":
				fn = func(i, j int) bool { return less(s.Get(i), s.Get(j)) }
			case "sidxb":
				fn = func(i, j int) bool { return less(recs[i], recs[j]) }
			case "sidxc":
				s2 := fpgo.StreamFromArray(recs)
				fn = func(i, j int) bool { return less(s2.Get(i), s2.Get(j)) }
			default:
				hdr := *s
				fn = func(i, j int) bool { return less(hdr[i], hdr[j]) }
			}
			return c19Ids(s.SortByIndex(fn).ToArray())
		case "isort", "iidx", "iidxb", "iidxc":
			arr := make([]interface{}, len(recs))
			for k := range recs {
				arr[k] = recs[k]
			}
			return c19IfaceSort(api, arr, func(x, y interface{}) bool { return less(x.(c19Rec), y.(c19Rec)) })
		}
	case "N":
		return "bad-case" // handled before the records are parsed
	}
	return "bad-case"
}

// interface{} twins; elements are c19Rec values or nil
func c19IfaceSort(api string, arr []interface{}, less func(x, y interface{}) bool) string {
	var res []interface{}
	switch api {
	case "isort":
		res = fpgo.StreamForInterface.FromArray(arr).Sort(less).ToArray()
	case "iidx":
		s := fpgo.StreamForInterface.FromArray(arr)
		res = s.SortByIndex(func(i, j int) bool { return less(s.Get(i), s.Get(j)) }).ToArray()
	case "iidxb":
		s := fpgo.StreamForInterface.FromArray(arr)
		res = s.SortByIndex(func(i, j int) bool { return less(arr[i], arr[j]) }).ToArray()
	case "iidxc":
		s := fpgo.StreamForInterface.FromArray(arr)
		s2 := fpgo.StreamForInterface.FromArray(arr)
		res = s.SortByIndex(func(i, j int) bool { return less(s2.Get(i), s2.Get(j)) }).ToArray()
	case "islice":
		res = fpgo.SortSlice(less, arr...)
	case "isortfn":
		fpgo.Sort(less, arr)
		res = arr
	default:
		return "bad-case"
	}
	var sb strings.Builder
	sb.WriteByte('[')
	for i, v := range res {
		if i > 0 {
			sb.WriteByte(' ')
		}
		if v == nil {
			sb.WriteByte('~')
		} else {
			sb.WriteString(strconv.Itoa(v.(c19Rec).ID))
		}
	}
	sb.WriteByte(']')
	return sb.String()
}

func c19RunNil(head []string, toks []string) string {
	if len(head) != 4 || (head[3] != "nf" && head[3] != "nl") {
		return "bad-case"
	}
	base := c19Cmp(head[2])
	if base == nil {
		return "bad-case"
	}
	nilFirst := head[3] == "nf"
	arr := make([]interface{}, len(toks))
	for k, t := range toks {
		if t == "~" {
			continue
		}
		r, ok := c19ParseRec(k, t)
		if !ok {
			return "bad-case"
		}
		arr[k] = r
	}
	less := func(x, y interface{}) bool {
		switch {
		case x == nil && y == nil:
			return false
		case x == nil:
			return nilFirst
		case y == nil:
			return !nilFirst
		}
		return base(x.(c19Rec), y.(c19Rec))
	}
	return c19IfaceSort(head[1], arr, less)
}

// ---------------------------------------------------------------------------------------------
// a caller-owned descriptor slice spread into an empty builder

func c19MkDesc(d c19D) fpgo.SortDescriptor[c19Rec] {
	if d.kind == 'f' {
		return fpgo.NewFieldSortDescriptor[c19Rec](string(d.field), d.asc)
	}
	return fpgo.NewSimpleSortDescriptor(c19Transformer(d.field), d.asc)
}

func c19RunSpread(api string, parts []string, recs []c19Rec) string {
	if len(parts) != 4 {
		return "bad-case"
	}
	allD, ok := c19ParseStack(parts[0])
	k, err := strconv.Atoi(parts[1])
	if !ok || err != nil || k < 1 || k > len(allD) {
		return "bad-case"
	}
	var ws []c19D
	if parts[2] != "-" {
		if ws, ok = c19ParseStack(parts[2]); !ok || len(ws) > len(allD) {
			return "bad-case"
		}
	}
	extD, ok := c19ParseStack(parts[3])
	if !ok || len(extD) != 1 {
		return "bad-case"
	}
	all := make([]fpgo.SortDescriptor[c19Rec], len(allD)) // len = cap: all[:k] has spare capacity up to len(all)
	for i, d := range allD {
		all[i] = c19MkDesc(d)
	}
	b := fpgo.NewSortDescriptorsBuilder[c19Rec]().ThenWith(all[:k]...)
	b2 := c19Derive(b, extD, len(recs))
	for j, d := range ws {
		all[j] = c19MkDesc(d)
	}
	outs := make([]string, 3)
	sortWith := func(bb fpgo.SortDescriptorsBuilder[c19Rec]) string {
		if api == "bs" {
			cp := append([]c19Rec(nil), recs...)
			bb.Sort(cp)
			return c19Ids(cp)
		}
		return c19Ids(bb.ToSortedList(recs...))
	}
	outs[2] = c19Ids(fpgo.SortedListBySortDescriptors(all, recs...))
	outs[1] = sortWith(b2)
	outs[0] = sortWith(b)
	return strings.Join(outs, " | ")
}

// ---------------------------------------------------------------------------------------------
// forked builders

func c19Derive(b fpgo.SortDescriptorsBuilder[c19Rec], stack []c19D, salt int) fpgo.SortDescriptorsBuilder[c19Rec] {
	for k, d := range stack {
		switch {
		case d.kind == 'f':
			b = b.ThenWithFieldName(string(d.field), d.asc)
		case (k+salt)%2 == 1:
			b = b.ThenWith(fpgo.NewSimpleSortDescriptor(c19Transformer(d.field), d.asc))
		default:
			b = b.ThenWithTransformerFunctor(c19Transformer(d.field), d.asc)
		}
	}
	return b
}

func c19RunFork(api string, parts []string, recs []c19Rec) string {
	if len(parts) < 2 {
		return "bad-case"
	}
	stacks := make([][]c19D, len(parts))
	for i, p := range parts {
		ds, ok := c19ParseStack(p)
		if !ok {
			return "bad-case"
		}
		stacks[i] = ds
	}
	// derive everything first
	builders := make([]fpgo.SortDescriptorsBuilder[c19Rec], len(parts))
	builders[0] = c19Derive(fpgo.NewSortDescriptorsBuilder[c19Rec](), stacks[0], 0)
	for i := 1; i < len(parts); i++ {
		builders[i] = c19Derive(builders[0], stacks[i], i)
	}
	// then sort with each of them, the first-derived ones last
	outs := make([]string, len(parts))
	snapshot := c19Ids(recs)
	for i := len(parts) - 1; i >= 0; i-- {
		switch api {
		case "tl":
			outs[i] = c19Ids(builders[i].ToSortedList(recs...))
			if c19Ids(recs) != snapshot {
				outs[i] += " mutated"
			}
		case "bs":
			cp := append([]c19Rec(nil), recs...)
			builders[i].Sort(cp)
			outs[i] = c19Ids(cp)
		default:
			return "bad-case"
		}
	}
	return strings.Join(outs, " | ")
}

// ---------------------------------------------------------------------------------------------
// distinct record types with the same printed name ("main.row") and different field orders

func c19SortTyped[T any](api string, ds []c19D, rows []T, id func(T) int,
	tr func(field byte) fpgo.TransformerFunctor[T, fpgo.Comparable[interface{}]]) string {
	var sorted []T
	before := make([]int, len(rows))
	for i, r := range rows {
		before[i] = id(r)
	}
	if api == "sl" {
		var sds []fpgo.SortDescriptor[T]
		for _, d := range ds {
			if d.kind == 'f' {
				sds = append(sds, fpgo.NewFieldSortDescriptor[T](string(d.field), d.asc))
			} else {
				sds = append(sds, fpgo.NewSimpleSortDescriptor(tr(d.field), d.asc))
			}
		}
		sorted = fpgo.SortedListBySortDescriptors(sds, rows...)
	} else {
		b := fpgo.NewSortDescriptorsBuilder[T]()
		for _, d := range ds {
			if d.kind == 'f' {
				b = b.ThenWithFieldName(string(d.field), d.asc)
			} else {
				b = b.ThenWithTransformerFunctor(tr(d.field), d.asc)
			}
		}
		sorted = b.ToSortedList(rows...)
	}
	var sb strings.Builder
	sb.WriteByte('[')
	for i, r := range sorted {
		if i > 0 {
			sb.WriteByte(' ')
		}
		sb.WriteString(strconv.Itoa(id(r)))
	}
	sb.WriteByte(']')
	for i, r := range rows {
		if before[i] != id(r) {
			return sb.String() + " mutated"
		}
	}
	return sb.String()
}

func c19TypedX(api string, ds []c19D, recs []c19Rec) string {
	type row struct {
		ID int
		A  fpgo.ComparableOrdered[int]
		B  fpgo.ComparableString
		C  fpgo.ComparableOrdered[int]
		D  fpgo.ComparableOrdered[string]
	}
	rows := make([]row, len(recs))
	for i, r := range recs {
		rows[i] = row{r.ID, r.A, r.B, r.C, r.D}
	}
	return c19SortTyped(api, ds, rows, func(r row) int { return r.ID },
		func(f byte) fpgo.TransformerFunctor[row, fpgo.Comparable[interface{}]] {
			return func(r row) fpgo.Comparable[interface{}] {
				switch f {
				case 'A':
					return r.A
				case 'B':
					return r.B
				case 'C':
					return r.C
				}
				return r.D
			}
		})
}

func c19TypedY(api string, ds []c19D, recs []c19Rec) string {
	type row struct {
		ID int
		C  fpgo.ComparableOrdered[int] // where X has A (same key type: a wrong column goes unnoticed by the type system)
		D  fpgo.ComparableOrdered[string]
		A  fpgo.ComparableOrdered[int]
		B  fpgo.ComparableString
	}
	rows := make([]row, len(recs))
	for i, r := range recs {
		rows[i] = row{r.ID, r.C, r.D, r.A, r.B}
	}
	return c19SortTyped(api, ds, rows, func(r row) int { return r.ID },
		func(f byte) fpgo.TransformerFunctor[row, fpgo.Comparable[interface{}]] {
			return func(r row) fpgo.Comparable[interface{}] {
				switch f {
				case 'A':
					return r.A
				case 'B':
					return r.B
				case 'C':
					return r.C
				}
				return r.D
			}
		})
}

func c19TypedZ(api string, ds []c19D, recs []c19Rec) string {
	type row struct {
		Note string // not a Comparable
		B    fpgo.ComparableString
		ID   int
		D    fpgo.ComparableOrdered[string]
		C    fpgo.ComparableOrdered[int]
		A    fpgo.ComparableOrdered[int]
	}
	rows := make([]row, len(recs))
	for i, r := range recs {
		rows[i] = row{"n", r.B, r.ID, r.D, r.C, r.A}
	}
	return c19SortTyped(api, ds, rows, func(r row) int { return r.ID },
		func(f byte) fpgo.TransformerFunctor[row, fpgo.Comparable[interface{}]] {
			return func(r row) fpgo.Comparable[interface{}] {
				switch f {
				case 'A':
					return r.A
				case 'B':
					return r.B
				case 'C':
					return r.C
				}
				return r.D
			}
		})
}

func c19RunTypes(api string, items []string, recs []c19Rec) string {
	if api != "sl" && api != "tl" {
		return "bad-case"
	}
	outs := make([]string, len(items))
	for i, it := range items {
		if len(it) < 3 || it[1] != '=' {
			return "bad-case"
		}
		ds, ok := c19ParseStack(it[2:])
		if !ok {
			return "bad-case"
		}
		// each sort is guarded on its own: a panic in one type must not hide the others
		func() {
			defer func() {
				if r := recover(); r != nil {
					outs[i] = "panic"
				}
			}()
			switch it[0] {
			case 'X':
				outs[i] = c19TypedX(api, ds, recs)
			case 'Y':
				outs[i] = c19TypedY(api, ds, recs)
			case 'Z':
				outs[i] = c19TypedZ(api, ds, recs)
			default:
				outs[i] = "bad-case"
			}
		}()
	}
	return strings.Join(outs, " | ")
}

func c19SortOrderedT[T fpgo.Ordered](api string, vals []T) ([]T, bool) {
	switch api {
	case "asc":
		return fpgo.SortOrderedAscending(vals...), true
	case "desc":
		return fpgo.SortOrderedDescending(vals...), true
	case "so+":
		return fpgo.SortOrdered(true, vals...), true
	case "so-":
		return fpgo.SortOrdered(false, vals...), true
	}
	return nil, false
}

// float instantiations: integral values and -0; -0 and +0 are equal for < but distinguishable (math.Signbit)
func c19RunOrderedFloat(api, ty string, toks []string) string {
	vals := make([]float64, len(toks))
	for k, t := range toks {
		if t == "-0" {
			vals[k] = math.Copysign(0, -1)
			continue
		}
		v, err := strconv.Atoi(t)
		if err != nil {
			return "bad-case"
		}
		vals[k] = float64(v)
	}
	var out []float64
	if ty == "f" {
		o, ok := c19SortOrderedT(api, vals)
		if !ok {
			return "bad-case"
		}
		out = o
	} else {
		v32 := make([]float32, len(vals))
		for k, v := range vals {
			v32[k] = float32(v)
		}
		o, ok := c19SortOrderedT(api, v32)
		if !ok {
			return "bad-case"
		}
		out = make([]float64, len(o))
		for k, v := range o {
			out[k] = float64(v)
		}
	}
	s := make([]string, len(out))
	for k, v := range out {
		if v == 0 && math.Signbit(v) {
			s[k] = "-0"
		} else {
			s[k] = strconv.Itoa(int(v))
		}
	}
	return "[" + strings.Join(s, " ") + "]"
}

func c19RunOrdered(api, ty string, toks []string) string {
	switch ty {
	case "i":
		vals := make([]int, len(toks))
		for k, t := range toks {
			v, err := strconv.Atoi(t)
			if err != nil {
				return "bad-case"
			}
			vals[k] = v
		}
		var out []int
		switch api {
		case "asc":
			out = fpgo.SortOrderedAscending(vals...)
		case "desc":
			out = fpgo.SortOrderedDescending(vals...)
		case "so+":
			out = fpgo.SortOrdered(true, vals...)
		case "so-":
			out = fpgo.SortOrdered(false, vals...)
		default:
			return "bad-case"
		}
		s := make([]string, len(out))
		for k, v := range out {
			s[k] = strconv.Itoa(v)
		}
		return "[" + strings.Join(s, " ") + "]"
	case "s":
		vals := make([]string, len(toks))
		for k, t := range toks {
			if !strings.HasPrefix(t, "=") {
				return "bad-case"
			}
			vals[k] = t[1:]
		}
		var out []string
		switch api {
		case "asc":
			out = fpgo.SortOrderedAscending(vals...)
		case "desc":
			out = fpgo.SortOrderedDescending(vals...)
		case "so+":
			out = fpgo.SortOrdered(true, vals...)
		case "so-":
			out = fpgo.SortOrdered(false, vals...)
		default:
			return "bad-case"
		}
		s := make([]string, len(out))
		for k, v := range out {
			s[k] = "=" + v
		}
		return "[" + strings.Join(s, " ") + "]"
	}
	return "bad-case"
}

// ---------------------------------------------------------------------------------------------
// generator

var c19Fields = []byte{'A', 'B', 'C', 'D'}
var c19DescApis = []string{"sl", "sb", "tl", "bs", "slp", "bsp"}
var c19CmpApis = []string{"sort", "slice", "ssort", "sidx", "isort", "iidx", "sidxb", "sidxc", "sidxh", "iidxb", "iidxc"}
var c19NilApis = []string{"isort", "iidx", "iidxb", "iidxc", "islice", "isortfn"}
var c19Cmps = []string{"a<", "a>", "am", "b<", "ab", "no"}
var c19OrdApis = []string{"asc", "desc", "so+", "so-"}

// key value domains per field; index 0 is the default used for fields no descriptor looks at
func c19Dom(field byte, n int) []string {
	var d []string
	switch field {
	case 'A':
		d = []string{"0", "10", "2"} // 10 vs 2: a textual comparison would invert them
	case 'C':
		d = []string{"0", "-1", "7"}
	case 'B':
		d = []string{"=a", "=B", "=ab"} // bytewise: "B" < "a" < "ab"
	default:
		d = []string{"=x", "=Xy", "="}
	}
	return d[:n]
}

// all records whose fields in `fields` range over `n` values (+ nil where withNil[field]) and whose
// other fields hold the default value
func c19RecSpace(fields []byte, n int, withNil map[byte]bool) []string {
	recs := []string{""}
	for _, f := range c19Fields {
		var dom []string
		used := false
		for _, g := range fields {
			if g == f {
				used = true
			}
		}
		if used {
			dom = append(dom, c19Dom(f, n)...)
			if withNil[f] {
				dom = append(dom, "_")
			}
		} else {
			dom = c19Dom(f, 1)
		}
		var next []string
		for _, r := range recs {
			for _, v := range dom {
				if r == "" {
					next = append(next, v)
				} else {
					next = append(next, r+","+v)
				}
			}
		}
		recs = next
	}
	return recs
}

// all lists over `space` of length 0..maxLen
func c19Lists(space []string, maxLen int, f func(body string)) int {
	n := 0
	var rec func(prefix []string)
	rec = func(prefix []string) {
		f(strings.Join(prefix, " ; "))
		n++
		if len(prefix) == maxLen {
			return
		}
		for _, r := range space {
			rec(append(prefix[:len(prefix):len(prefix)], r))
		}
	}
	rec(nil)
	return n
}

// all descriptor stacks of exactly k descriptors over distinct fields
func c19Stacks(k int, f func(ds []c19D)) {
	var rec func(ds []c19D)
	rec = func(ds []c19D) {
		if len(ds) == k {
			f(ds)
			return
		}
		for _, fld := range c19Fields {
			dup := false
			for _, d := range ds {
				if d.field == fld {
					dup = true
				}
			}
			if dup {
				continue
			}
			for _, kind := range []byte{'f', 't'} {
				for _, asc := range []bool{true, false} {
					rec(append(ds[:len(ds):len(ds)], c19D{kind, fld, asc}))
				}
			}
		}
	}
	rec(nil)
}

func c19StackString(ds []c19D) string {
	s := make([]string, len(ds))
	for i, d := range ds {
		dir := "-"
		if d.asc {
			dir = "+"
		}
		s[i] = string([]byte{d.kind, d.field}) + dir
	}
	return strings.Join(s, ",")
}

func c19StackFields(ds []c19D) ([]byte, map[byte]bool) {
	var fs []byte
	nil_ := map[byte]bool{}
	for _, d := range ds {
		fs = append(fs, d.field)
		nil_[d.field] = true
	}
	for _, d := range ds {
		if d.kind == 'f' { // a field-name descriptor cannot yield a nil key
			nil_[d.field] = false
		}
	}
	return fs, nil_
}

func c19Gen(tier string, rng *rand.Rand, emit func(string)) map[string]interface{} {
	thorough := tier == "thorough"
	counts := map[string]int{}
	apiRot := 0
	emitD := func(ds []c19D, body string, allApis bool) {
		st := c19StackString(ds)
		if allApis {
			for _, api := range c19DescApis {
				emit("D " + api + " " + st + ": " + body)
				counts["D/"+api]++
			}
			return
		}
		api := c19DescApis[apiRot%len(c19DescApis)]
		apiRot++
		emit("D " + api + " " + st + ": " + body)
		counts["D/"+api]++
	}

	// directed: the repository's own example, prefix strings, negative ints, nil keys first/last
	for _, api := range c19DescApis {
		emit("D " + api + " tA-,fB+: 30,=BC,0,=x ; 30,=AD,0,=x ; 50,=AB,0,=x")
		emit("D " + api + " tA+,tB-,fD+: _,=b,0,=x ; 1,_,0,=x ; _,_,0,=xy ; 1,=b,0,= ; _,_,0,= ; 1,_,0,=x")
		emit("D " + api + " fC-,fD+: 0,=a,-1,=x ; 0,=a,7,=xy ; 0,=a,-1,= ; 0,=a,7,=x ; 0,=a,0,=xy")
	}

	// (1) one descriptor: all lists of length <= 5 over 3 key values (+ nil for transformer descriptors)
	maxLen1 := 5
	if thorough {
		maxLen1 = 6
	}
	c19Stacks(1, func(ds []c19D) {
		fs, wn := c19StackFields(ds)
		space := c19RecSpace(fs, 3, wn)
		ml := maxLen1
		counts["exh1"] += c19Lists(space, ml, func(body string) { emitD(ds, body, true) })
	})
	// (2) two descriptors: 2 values per key (+ nil for transformer descriptors)
	c19Stacks(2, func(ds []c19D) {
		fs, wn := c19StackFields(ds)
		space := c19RecSpace(fs, 2, wn)
		ml := 3
		if len(space) <= 4 || thorough {
			ml = 4
		}
		counts["exh2"] += c19Lists(space, ml, func(body string) { emitD(ds, body, false) })
	})
	// (3) three descriptors: all PAIRS of records (the full comparator table) over 2 values per key
	//     (+ nil for transformer descriptors), thorough: + all triples without nil
	c19Stacks(3, func(ds []c19D) {
		fs, wn := c19StackFields(ds)
		space := c19RecSpace(fs, 2, wn)
		counts["exh3"] += c19Lists(space, 2, func(body string) { emitD(ds, body, false) })
		if thorough {
			space = c19RecSpace(fs, 2, nil)
			for _, a := range space {
				for _, b := range space {
					for _, c := range space {
						emitD(ds, a+" ; "+b+" ; "+c, false)
						counts["exh3"]++
					}
				}
			}
		}
	})

	// (4) random long lists (beyond the insertion-sort blocks of sort.SliceStable), random stacks
	nRandom := 6000
	if thorough {
		nRandom = 60000
	}
	lenHist := map[string]int{}
	randRec := func(wn map[byte]bool, small bool) string {
		f := make([]string, 4)
		for i, fld := range c19Fields {
			n := 3
			if small {
				n = 2
			}
			dom := c19Dom(fld, n)
			if wn[fld] && rng.Intn(5) == 0 {
				f[i] = "_"
			} else {
				f[i] = dom[rng.Intn(len(dom))]
			}
			if !small && rng.Intn(12) == 0 && f[i] != "_" {
				if fld == 'A' || fld == 'C' {
					f[i] = strconv.Itoa(rng.Intn(41) - 20)
				} else {
					al := []byte("abBZ")
					f[i] = "=" + string([]byte{al[rng.Intn(4)], al[rng.Intn(4)]})[:rng.Intn(3)]
				}
			}
		}
		return strings.Join(f, ",")
	}
	randList := func(wn map[byte]bool) string {
		var n int
		switch r := rng.Intn(10); {
		case r < 3:
			n = rng.Intn(8)
		case r < 6:
			n = 8 + rng.Intn(17)
		default:
			n = 25 + rng.Intn(36)
		}
		if thorough && rng.Intn(20) == 0 {
			n = 61 + rng.Intn(140)
		}
		lenHist[fmt.Sprintf("%03d-%03d", n/10*10, n/10*10+9)]++
		small := rng.Intn(2) == 0
		l := make([]string, n)
		for i := range l {
			l[i] = randRec(wn, small)
		}
		return strings.Join(l, " ; ")
	}
	for i := 0; i < nRandom; i++ {
		k := 1 + rng.Intn(3)
		if rng.Intn(10) == 0 {
			k = 4 // beyond the property's 1..3, same mechanism
		}
		perm := rng.Perm(4)
		ds := make([]c19D, k)
		for j := range ds {
			kind := byte('f')
			if rng.Intn(2) == 0 {
				kind = 't'
			}
			ds[j] = c19D{kind, c19Fields[perm[j]], rng.Intn(2) == 0}
		}
		// occasionally the same field twice (second occurrence can never break a tie)
		if k >= 2 && rng.Intn(10) == 0 {
			ds[k-1].field = ds[0].field
		}
		_, wn := c19StackFields(ds)
		emitD(ds, randList(wn), false)
		counts["randomD"]++
	}

	// (4b) FORKED builders: a prefix builder and 2-3 siblings derived from it; the data ties on the prefix
	descsOver := func(fields []byte) []c19D {
		var r []c19D
		for _, f := range fields {
			for _, k := range []byte{'f', 't'} {
				for _, a := range []bool{true, false} {
					r = append(r, c19D{k, f, a})
				}
			}
		}
		return r
	}
	forkApis := []string{"tl", "bs"}
	forkRot := 0
	emitF := func(pre []c19D, sibs [][]c19D, body string) {
		parts := []string{c19StackString(pre)}
		for _, sb := range sibs {
			parts = append(parts, c19StackString(sb))
		}
		emit("F " + forkApis[forkRot%2] + " " + strings.Join(parts, "/") + ": " + body)
		forkRot++
		counts["fork"]++
	}
	// exhaustive: every 1-descriptor prefix x every ordered pair of different sibling descriptors over the
	// other fields x all lists <= 2 over 2 values per sibling field (prefix field constant: everything ties)
	c19Stacks(1, func(pre []c19D) {
		var others []byte
		for _, f := range c19Fields {
			if f != pre[0].field {
				others = append(others, f)
			}
		}
		sd := descsOver(others)
		for _, s1 := range sd {
			for _, s2 := range sd {
				if s1 == s2 || (s1.field == s2.field && s1.asc == s2.asc) {
					continue
				}
				if !thorough && s1.kind != s2.kind && s1.field != s2.field && (forkRot/7)%3 != 0 {
					// quick: thin out the mixed-kind pairs
					forkRot++
					continue
				}
				fs := []byte{s1.field}
				if s2.field != s1.field {
					fs = append(fs, s2.field)
				}
				space := c19RecSpace(fs, 2, nil)
				c19Lists(space, 2, func(body string) {
					if strings.Contains(body, ";") {
						emitF(pre, [][]c19D{{s1}, {s2}}, body)
					}
				})
			}
		}
	})
	// random: prefix of 1-2 descriptors, 2-3 siblings of 1 descriptor (sometimes 2), total length <= 3
	// (a 3-key builder has capacity 4 in Go: forking it is outside the property's 1..3 keys)
	nFork := 5000
	if thorough {
		nFork = 40000
	}
	all := descsOver(c19Fields)
	for i := 0; i < nFork; i++ {
		perm := rng.Perm(4)
		np := 1 + rng.Intn(2)
		pre := make([]c19D, np)
		for j := range pre {
			pre[j] = all[perm[j]*4+rng.Intn(4)]
		}
		rest := []byte{}
		for _, pi := range perm[np:] {
			rest = append(rest, c19Fields[pi])
		}
		sd := descsOver(rest)
		ns := 2 + rng.Intn(2)
		sibs := make([][]c19D, ns)
		for j := range sibs {
			sibs[j] = []c19D{sd[rng.Intn(len(sd))]}
			if np == 1 && rng.Intn(4) == 0 {
				d2 := sd[rng.Intn(len(sd))]
				if d2.field != sibs[j][0].field {
					sibs[j] = append(sibs[j], d2)
				}
			}
		}
		// data: prefix fields constant or 2-valued, sibling fields 2-3 valued, no nil for field-name kinds
		wn := map[byte]bool{}
		for _, f := range c19Fields {
			wn[f] = true
		}
		for _, d := range pre {
			if d.kind == 'f' {
				wn[d.field] = false
			}
		}
		for _, sb := range sibs {
			for _, d := range sb {
				if d.kind == 'f' {
					wn[d.field] = false
				}
			}
		}
		n := 2 + rng.Intn(7)
		l := make([]string, n)
		for j := range l {
			l[j] = randRec(wn, true)
		}
		emitF(pre, sibs, strings.Join(l, " ; "))
	}

	// (4b') a caller-owned descriptor slice spread into an EMPTY builder, then caller writes / builder extension
	nSpread := 6000
	if thorough {
		nSpread = 40000
	}
	for i := 0; i < nSpread; i++ {
		perm := rng.Perm(4)
		na := 2 + rng.Intn(2)
		allD := make([]c19D, na)
		for j := range allD {
			allD[j] = all[perm[j]*4+rng.Intn(4)]
		}
		k := 1 + rng.Intn(2) // the extended builder then has k+1 <= 3 keys
		// the extension: a descriptor over a field the prefix does not use (often the very field of all[k], other direction)
		var ext c19D
		for {
			ext = all[rng.Intn(len(all))]
			used := false
			for _, d := range allD[:k] {
				if d.field == ext.field {
					used = true
				}
			}
			if !used {
				break
			}
		}
		if k < na && rng.Intn(2) == 0 {
			ext = c19D{allD[k].kind, allD[k].field, !allD[k].asc}
		}
		// caller writes: none, or the first 1..na entries replaced (other direction / other field)
		wsS := "-"
		var wsD []c19D
		if rng.Intn(3) > 0 {
			nw := 1 + rng.Intn(na)
			p2 := rng.Perm(4)
			for j := 0; j < nw; j++ {
				if rng.Intn(2) == 0 {
					wsD = append(wsD, c19D{allD[j].kind, allD[j].field, !allD[j].asc})
				} else {
					wsD = append(wsD, all[p2[j]*4+rng.Intn(4)])
				}
			}
			wsS = c19StackString(wsD)
		}
		wn := map[byte]bool{}
		for _, f := range c19Fields {
			wn[f] = true
		}
		for _, d := range append(append(append([]c19D{}, allD...), wsD...), ext) {
			if d.kind == 'f' {
				wn[d.field] = false
			}
		}
		n := 2 + rng.Intn(6)
		l := make([]string, n)
		for j := range l {
			l[j] = randRec(wn, true)
		}
		emit("S " + forkApis[i%2] + " " + c19StackString(allD) + "/" + strconv.Itoa(k) + "/" + wsS + "/" + c19StackString([]c19D{ext}) + ": " + strings.Join(l, " ; "))
		counts["spread"]++
	}

	// (4c) same-named record types X, Y, Z sorted by field name one after the other in ONE case
	typeApis := []string{"sl", "tl"}
	tyRot := 0
	tyOrders := [][]byte{{'X', 'Y'}, {'Y', 'X'}, {'X', 'Z'}, {'Z', 'Y'}, {'X', 'Y', 'Z'}, {'Z', 'X', 'Y'}, {'Y', 'Z', 'X'}}
	fdescs := []c19D{}
	for _, f := range c19Fields {
		fdescs = append(fdescs, c19D{'f', f, true}, c19D{'f', f, false})
	}
	emitT := func(order []byte, stacks [][]c19D, body string) {
		items := make([]string, len(order))
		for i, ty := range order {
			items[i] = string(ty) + "=" + c19StackString(stacks[i])
		}
		emit("T " + typeApis[tyRot%2] + " " + strings.Join(items, "/") + ": " + body)
		tyRot++
		counts["types"]++
	}
	// exhaustive: every type order x the SAME single field-name descriptor for all types x all lists <= 3 over
	// records whose four columns are pairwise "anti-correlated" (a wrong column gives a different order)
	tspace := []string{"0,=a,2,=Xy", "10,=B,0,=x", "2,=ab,-1,=", "0,=B,0,=Xy"}
	for _, order := range tyOrders {
		for _, d := range fdescs {
			stacks := make([][]c19D, len(order))
			for i := range stacks {
				stacks[i] = []c19D{d}
			}
			c19Lists(tspace, 3, func(body string) {
				if strings.Contains(body, ";") {
					emitT(order, stacks, body)
				}
			})
		}
	}
	nTypes := 3000
	if thorough {
		nTypes = 20000
	}
	for i := 0; i < nTypes; i++ {
		order := tyOrders[rng.Intn(len(tyOrders))]
		stacks := make([][]c19D, len(order))
		shared := rng.Intn(3) > 0 // mostly the same field names for all types (that is where a per-name cache collides)
		mk := func() []c19D {
			k := 1 + rng.Intn(2)
			perm := rng.Perm(4)
			st := make([]c19D, k)
			for j := range st {
				kind := byte('f')
				if rng.Intn(5) == 0 {
					kind = 't'
				}
				st[j] = c19D{kind, c19Fields[perm[j]], rng.Intn(2) == 0}
			}
			return st
		}
		first := mk()
		for j := range stacks {
			if shared {
				stacks[j] = first
			} else {
				stacks[j] = mk()
			}
		}
		n := 2 + rng.Intn(9)
		l := make([]string, n)
		for j := range l {
			l[j] = randRec(nil, rng.Intn(2) == 0)
		}
		emitT(order, stacks, strings.Join(l, " ; "))
	}

	// (5) comparator-based sorts
	cspace := []string{"0,=a,0,=x", "0,=ab,0,=x", "1,=a,0,=x", "1,=ab,0,=x", "2,=a,0,=x", "3,=b,0,=x"}
	maxLenC := 3
	if thorough {
		maxLenC = 4
	}
	for _, api := range c19CmpApis {
		for _, cmp := range c19Cmps {
			counts["exhC"] += c19Lists(cspace, maxLenC, func(body string) { emit("C " + api + " " + cmp + ": " + body) })
		}
	}
	rot := 0
	if !thorough {
		c19Lists(cspace, 4, func(body string) {
			if strings.Count(body, ";") == 3 {
				emit("C " + c19CmpApis[rot%len(c19CmpApis)] + " " + c19Cmps[(rot/len(c19CmpApis))%6] + ": " + body)
				rot++
				counts["exhC"]++
			}
		})
	}
	nRandC := 3000
	if thorough {
		nRandC = 12000
	}
	for i := 0; i < nRandC; i++ {
		emit("C " + c19CmpApis[rng.Intn(len(c19CmpApis))] + " " + c19Cmps[rng.Intn(6)] + ": " + randList(nil))
		counts["randomC"]++
	}

	// (5b) interface{} sorts over lists with nil entries; the comparator orders nil first / last
	nspace := []string{"~", "0,=a,0,=x", "1,=ab,0,=x", "2,=a,0,=x"}
	maxLenN := 4
	for _, api := range c19NilApis {
		for _, cmp := range []string{"a<", "a>", "am", "b<", "no"} {
			for _, mode := range []string{"nf", "nl"} {
				counts["exhN"] += c19Lists(nspace, maxLenN, func(body string) {
					emit("N " + api + " " + cmp + " " + mode + ": " + body)
				})
			}
		}
	}
	nRandN := 2500
	if thorough {
		nRandN = 20000
	}
	for i := 0; i < nRandN; i++ {
		body := randList(nil)
		if body != "" {
			parts := strings.Split(body, " ; ")
			for j := range parts {
				if rng.Intn(4) == 0 {
					parts[j] = "~"
				}
			}
			body = strings.Join(parts, " ; ")
		}
		mode := "nf"
		if rng.Intn(2) == 0 {
			mode = "nl"
		}
		emit("N " + c19NilApis[rng.Intn(len(c19NilApis))] + " " + c19Cmps[rng.Intn(6)] + " " + mode + ": " + body)
		counts["randomN"]++
	}

	// (6) SortOrdered*: ints and strings
	ivals := []string{"10", "-1", "2"}
	svals := []string{"=a", "=B", "="}
	for _, api := range c19OrdApis {
		counts["exhO"] += c19Lists(ivals, 5, func(body string) { emit("O " + api + " i: " + body) })
		counts["exhO"] += c19Lists(svals, 5, func(body string) { emit("O " + api + " s: " + body) })
	}
	nRandO := 600
	if thorough {
		nRandO = 6000
	}
	for i := 0; i < nRandO; i++ {
		n := rng.Intn(61)
		l := make([]string, n)
		isStr := rng.Intn(2) == 0
		for j := range l {
			if isStr {
				al := []byte("abBZ")
				l[j] = "=" + string([]byte{al[rng.Intn(4)], al[rng.Intn(4)], al[rng.Intn(4)]})[:rng.Intn(4)]
			} else {
				l[j] = strconv.Itoa(rng.Intn(41) - 20)
			}
		}
		ty := "i"
		if isStr {
			ty = "s"
		}
		emit("O " + c19OrdApis[rng.Intn(4)] + " " + ty + ": " + strings.Join(l, " ; "))
		counts["randomO"]++
	}

	// (6b) float instantiations of SortOrdered*: -0 / +0 are ties that can be told apart (stability is observable)
	fvals := []string{"0", "-0", "1", "-1"}
	for _, api := range c19OrdApis {
		for _, ty := range []string{"f", "g"} {
			counts["exhOf"] += c19Lists(fvals, 4, func(body string) { emit("O " + api + " " + ty + ": " + body) })
		}
	}
	for i := 0; i < nRandO; i++ {
		n := rng.Intn(61)
		l := make([]string, n)
		dom := []string{"0", "-0", "0", "-0", "1", "-1", "2"}
		for j := range l {
			l[j] = dom[rng.Intn(len(dom))]
		}
		emit("O " + c19OrdApis[rng.Intn(4)] + " " + []string{"f", "g"}[rng.Intn(2)] + ": " + strings.Join(l, " ; "))
		counts["randomOf"]++
	}

	// (7) LONG lists with heavy ties, crossing typical algorithm thresholds; every entry point
	longNs := []int{1023, 1024, 1025, 2048, 5000}
	if thorough {
		longNs = []int{255, 256, 257, 511, 512, 513, 1023, 1024, 1025, 2047, 2048, 2049, 4096, 5000, 8192, 10000}
	}
	longCmpApis := []string{"sort", "slice", "ssort", "isort", "sidx", "iidxb"}
	longDescApis := []string{"sl", "sb", "tl", "bs", "slp", "bsp"}
	longStacks := []string{"fA+", "tA-", "fC+,tA-", "tC-,fA+"}
	li := 0
	for _, n := range longNs {
		reps := 2
		if thorough {
			reps = 3
		}
		for rep := 0; rep < reps; rep++ {
			m := 1 + 2*rng.Intn(50)
			k := []int{2, 3, 5, 7}[rng.Intn(4)]
			tail := " " + strconv.Itoa(n) + " " + strconv.Itoa(m) + " " + strconv.Itoa(k) + ":"
			for j := 0; j < 3; j++ {
				emit("L " + longCmpApis[li%6] + " " + []string{"a<", "am", "a>"}[(li/6)%3] + tail)
				emit("L " + longDescApis[li%6] + " " + longStacks[(li/6)%4] + tail)
				li++
				counts["long"] += 2
			}
		}
	}

	stats := map[string]interface{}{
		"exhaustive": false,
		"scope": "descriptor stacks: ALL stacks of 1, 2, 3 descriptors over 4 distinct key fields x both directions x field-name/transformer kind; " +
			"1 descriptor: all lists <= " + strconv.Itoa(maxLen1) + " over 3 key values (+nil for transformers); 2 descriptors: all lists <= 3/4 over 2 values per key (+nil); " +
			"3 descriptors: all record pairs (full comparator table) over 2 values per key (+nil for transformers), thorough: + all triples; random lists up to length 60",
		"counts": counts, "random_length_histogram": lenHist,
	}
	return stats
}

func init() { register("C19", &Prop{Gen: c19Gen, Run: c19Run, CaseTimeout: 10 * time.Second}) }
