package main

// C08 — ConcurrentQueue / ConcurrentStack are linearizable over any wrapped queue / stack.
//
// Case lines (shared with lean/FpgoVerif/Model/C08.lean):
//
//	seq q|s <impl>: op ; op ; …          single-threaded calls through the wrapper; ops put:v offer:v take poll / push:v pop
//	                                       observation: nil | ok v | empty | err-other | panic  joined by " | "
//	stress q|s <impl> p=P c=C n=N seed=S   P producers × N distinct values, C consumers remove until everything is out;
//	                                       monitors: panic, duplicate, phantom, lost, per-producer FIFO (queue), "empty only
//	                                       if it could have been empty" (conservative, from invocation/response stamps);
//	                                       observation: ok offered=P*N removed=P*N   |  viol <kind> …
//	fresh q|s <impl> k=K rounds=R seed=S   R brand-new wrappers; on each, K goroutines released by a spin barrier make their
//	                                       FIRST call together, then the structure is drained: conservation per round
//	hist q|s <impl> t=T k=K seed=S         T threads × K random calls, free-running; the recorded history is searched for a
//	                                       linearization (exhaustive, ≤ 12 calls); ok linearizable ops=T*K | viol not-linearizable …
//
// <impl>: llq = LinkedListQueue, chq = ChannelQueue (Offer/Poll only: its Put/Take block while the wrapper's lock is held),
// ring<K> = the harness' own bounded (capacity K), deliberately non-thread-safe ring buffer that counts overlapping
// entries (`viol overlap`) and reports full (`full`) instead of waiting; stress producers retry on full,
// cc-<impl> = a ConcurrentQueue/Stack wrapping a ConcurrentQueue/Stack wrapping <impl>: calls are issued through BOTH
// handles (threads / call indices alternate) and must all linearize over the one underlying object.

import (
	"fmt"
	"os"
	"path/filepath"
	"math/rand"
	"runtime"
	"sort"
	"strconv"
	"strings"
	"sync"
	"sync/atomic"
	"time"

	fpgo "github.com/TeaEntityLab/fpGo/v2"
)

type c08Obj struct {
	put, offer func(int) error
	take, poll func() (int, error)
	push       func(int) error
	pop        func() (int, error)
	ring       *c08Ring // non-nil when the wrapped object is the harness' own bounded ring buffer
	alt        *c08Obj  // nested wrappers ("cc-…"): the INNER wrapper's handle
}

// c08Ring is a second wrapped implementation: a BOUNDED, deliberately NOT goroutine-safe deque of ints (the kind
// of Queue/Stack the wrappers exist to protect).  Offer/Put/Push report Err…IsFull when there is no room (Put
// does not wait: under the wrapper's lock nobody could make room).  Every method counts the callers that are
// inside it at the same moment; with a correct wrapper that is never more than one.  The updates are split
// around a runtime.Gosched() so that an unserialised caller really tears the structure.
type c08Ring struct {
	buf        []int
	head, size int
	inside     int32
	overlaps   int64
}

func newC08Ring(capacity int) *c08Ring { return &c08Ring{buf: make([]int, capacity)} }

func (r *c08Ring) enter() {
	if atomic.AddInt32(&r.inside, 1) > 1 {
		atomic.AddInt64(&r.overlaps, 1)
	}
}
func (r *c08Ring) leave() { atomic.AddInt32(&r.inside, -1) }

func (r *c08Ring) insert(val int) bool {
	size := r.size
	if size >= len(r.buf) {
		return false
	}
	r.buf[(r.head+size)%len(r.buf)] = val
	runtime.Gosched()
	r.size = size + 1
	return true
}
func (r *c08Ring) Offer(val int) error {
	r.enter()
	defer r.leave()
	if !r.insert(val) {
		return fpgo.ErrQueueIsFull
	}
	return nil
}
func (r *c08Ring) Put(val int) error { return r.Offer(val) }
func (r *c08Ring) Push(val int) error {
	r.enter()
	defer r.leave()
	if !r.insert(val) {
		return fpgo.ErrStackIsFull
	}
	return nil
}
func (r *c08Ring) Poll() (int, error) {
	r.enter()
	defer r.leave()
	size := r.size
	if size == 0 {
		return 0, fpgo.ErrQueueIsEmpty
	}
	val := r.buf[r.head]
	head := (r.head + 1) % len(r.buf)
	runtime.Gosched()
	r.head = head
	r.size = size - 1
	return val, nil
}
func (r *c08Ring) Take() (int, error) { return r.Poll() }
func (r *c08Ring) Pop() (int, error) {
	r.enter()
	defer r.leave()
	size := r.size
	if size == 0 {
		return 0, fpgo.ErrStackIsEmpty
	}
	val := r.buf[(r.head+size-1)%len(r.buf)]
	runtime.Gosched()
	r.size = size - 1
	return val, nil
}

// c08RingCap parses "ring<K>"; 0 = not a ring (unbounded wrapped object).
func c08RingCap(impl string) int {
	impl = strings.TrimPrefix(impl, "cc-")
	if strings.HasPrefix(impl, "ring") {
		k, _ := strconv.Atoi(impl[4:])
		return k
	}
	return 0
}

// c08Base strips the "cc-" prefix (a wrapper wrapping a wrapper) from an implementation name.
func c08Base(impl string) string { return strings.TrimPrefix(impl, "cc-") }

// h returns the handle a thread / call index uses: with a nested wrapper ("cc-…") even indices call the OUTER
// ConcurrentQueue/Stack, odd ones the INNER one it wraps; otherwise there is only one handle.
func (o *c08Obj) h(i int) *c08Obj {
	if o.alt != nil && i%2 == 1 {
		return o.alt
	}
	return o
}

func c08New(kind, impl string, capacity int) *c08Obj {
	nested := strings.HasPrefix(impl, "cc-")
	base := c08Base(impl)
	var ring *c08Ring
	if k := c08RingCap(base); k > 0 {
		ring = newC08Ring(k)
	}
	if kind == "q" {
		var raw fpgo.Queue[int]
		switch {
		case ring != nil:
			raw = ring
		case base == "chq":
			raw = fpgo.NewChannelQueue[int](capacity)
		default:
			raw = fpgo.NewLinkedListQueue[int]()
		}
		q := fpgo.NewConcurrentQueue[int](raw)
		o := &c08Obj{put: q.Put, offer: q.Offer, take: q.Take, poll: q.Poll, ring: ring}
		if nested {
			// a ConcurrentQueue is itself a Queue: wrap it once more; calls arrive through BOTH handles and must
			// all linearize over the one underlying deque
			outer := fpgo.NewConcurrentQueue[int](fpgo.Queue[int](q))
			return &c08Obj{put: outer.Put, offer: outer.Offer, take: outer.Take, poll: outer.Poll, ring: ring, alt: o}
		}
		return o
	}
	var raw fpgo.Stack[int]
	if ring != nil {
		raw = ring
	} else {
		raw = fpgo.NewLinkedListQueue[int]()
	}
	st := fpgo.NewConcurrentStack[int](raw)
	o := &c08Obj{push: st.Push, pop: st.Pop, ring: ring}
	if nested {
		outer := fpgo.NewConcurrentStack[int](fpgo.Stack[int](st))
		return &c08Obj{push: outer.Push, pop: outer.Pop, ring: ring, alt: o}
	}
	return o
}

func c08ShowErr(err error) string {
	if err == nil {
		return "nil"
	}
	if err == fpgo.ErrQueueIsEmpty || err == fpgo.ErrStackIsEmpty {
		return "empty"
	}
	if err == fpgo.ErrQueueIsFull || err == fpgo.ErrStackIsFull {
		return "full"
	}
	return "err-other"
}

func (o *c08Obj) overlaps() int64 {
	if o.ring == nil {
		return 0
	}
	return atomic.LoadInt64(&o.ring.overlaps)
}

func c08ShowVal(v int, err error) string {
	if err != nil {
		return c08ShowErr(err)
	}
	return "ok " + strconv.Itoa(v)
}

func c08Tok(o *c08Obj, tok string) (out string) {
	defer func() {
		if r := recover(); r != nil {
			out = "panic"
		}
	}()
	name, arg := tok, 0
	if i := strings.Index(tok, ":"); i >= 0 {
		name = tok[:i]
		arg, _ = strconv.Atoi(tok[i+1:])
	}
	switch name {
	case "put":
		if o.put != nil {
			return c08ShowErr(o.put(arg))
		}
	case "offer":
		if o.offer != nil {
			return c08ShowErr(o.offer(arg))
		}
	case "take":
		if o.take != nil {
			return c08ShowVal(o.take())
		}
	case "poll":
		if o.poll != nil {
			return c08ShowVal(o.poll())
		}
	case "push":
		if o.push != nil {
			return c08ShowErr(o.push(arg))
		}
	case "pop":
		if o.pop != nil {
			return c08ShowVal(o.pop())
		}
	}
	return "bad-op"
}

func c08Field(toks []string, k string) int {
	for _, t := range toks {
		if strings.HasPrefix(t, k+"=") {
			v, _ := strconv.Atoi(t[len(k)+1:])
			return v
		}
	}
	return 0
}

type c08Call struct {
	thread   int
	insert   bool // offer/put/push
	val      int  // inserted value, or removed value
	empty    bool // removal reported empty
	inv, res int64
}

// c08Stress runs the producers/consumers and evaluates the monitors.
func c08Stress(kind, impl string, p, c, n int, seed int64) string {
	total := p * n
	epoch := atomic.LoadInt64(&c08Epoch)
	abandoned := func() bool { return atomic.LoadInt64(&c08Epoch) != epoch }
	o := c08New(kind, impl, total+1)
	var clock, removed, prodDone int64
	var panics int64
	calls := make([][]c08Call, p+c)
	var wg sync.WaitGroup
	start := make(chan struct{})
	for t := 0; t < p; t++ {
		wg.Add(1)
		go func(t int) {
			defer wg.Done()
			defer atomic.AddInt64(&prodDone, 1)
			defer func() {
				if r := recover(); r != nil {
					atomic.AddInt64(&panics, 1)
				}
			}()
			<-start
			mine := make([]c08Call, 0, n)
			defer func() { calls[t] = mine }()
			for i := 0; i < n; i++ {
				v := t*100000 + i
				for {
					inv := atomic.AddInt64(&clock, 1)
					var err error
					switch {
					case kind == "s":
						err = o.h(t).push(v)
					case c08Base(impl) == "chq" || i%2 == 0:
						err = o.h(t).offer(v)
					default:
						err = o.h(t).put(v)
					}
					res := atomic.AddInt64(&clock, 1)
					if err == nil {
						mine = append(mine, c08Call{thread: t, insert: true, val: v, inv: inv, res: res})
						atomic.AddInt64(&c08Progress, 1)
						break
					}
					if abandoned() {
						return
					}
					if o.ring != nil && (err == fpgo.ErrQueueIsFull || err == fpgo.ErrStackIsFull) {
						runtime.Gosched() // a bounded wrapped object: retry until a consumer has made room
						continue
					}
					atomic.AddInt64(&panics, 1000000) // an insertion may not fail otherwise
					return
				}
			}
		}(t)
	}
	for t := p; t < p+c; t++ {
		wg.Add(1)
		go func(t int) {
			defer wg.Done()
			defer func() {
				if r := recover(); r != nil {
					atomic.AddInt64(&panics, 1)
				}
			}()
			<-start
			var mine []c08Call
			defer func() { calls[t] = mine }()
			for i := 0; ; i++ {
				if atomic.LoadInt64(&removed) >= int64(total) || abandoned() {
					return
				}
				allIn := atomic.LoadInt64(&prodDone) == int64(p) // read BEFORE the call is invoked
				inv := atomic.AddInt64(&clock, 1)
				var v int
				var err error
				switch {
				case kind == "s":
					v, err = o.h(t).pop()
				case c08Base(impl) == "chq" || i%2 == 0:
					v, err = o.h(t).poll()
				default:
					v, err = o.h(t).take()
				}
				res := atomic.AddInt64(&clock, 1)
				if err == nil {
					atomic.AddInt64(&c08Progress, 1)
					atomic.AddInt64(&removed, 1)
					mine = append(mine, c08Call{thread: t, val: v, inv: inv, res: res})
					continue
				}
				if err != fpgo.ErrQueueIsEmpty && err != fpgo.ErrStackIsEmpty {
					atomic.AddInt64(&panics, 1000000)
					return
				}
				if len(mine) < 200000 {
					mine = append(mine, c08Call{thread: t, empty: true, inv: inv, res: res})
				}
				if allIn {
					// invoked after every insertion had returned and still empty: in a linearizable history the
					// structure is empty from now on, so this consumer may stop
					return
				}
				if i%64 == 63 {
					time.Sleep(time.Microsecond)
				}
			}
		}(t)
	}
	_ = seed
	close(start)
	wg.Wait()
	if ov := o.overlaps(); ov != 0 {
		return fmt.Sprintf("viol overlap %d times two goroutines were inside the wrapped object at once", ov)
	}
	if k := atomic.LoadInt64(&panics); k != 0 {
		if k >= 1000000 {
			return "viol unexpected-error"
		}
		return fmt.Sprintf("viol panic threads=%d", k)
	}
	// monitors
	seen := map[int]bool{}
	var insRes []int64 // response stamps of insertions
	var remInv []int64 // invocation stamps of successful removals
	nRemoved := 0
	for t := 0; t < p+c; t++ {
		lastOf := map[int]int{} // producer -> last sequence number seen by this consumer
		for _, cl := range calls[t] {
			switch {
			case cl.insert:
				insRes = append(insRes, cl.res)
			case cl.empty:
			default:
				nRemoved++
				remInv = append(remInv, cl.inv)
				prod, seq := cl.val/100000, cl.val%100000
				if cl.val < 0 || prod >= p || seq >= n {
					return fmt.Sprintf("viol phantom value=%d", cl.val)
				}
				if seen[cl.val] {
					return fmt.Sprintf("viol duplicate value=%d", cl.val)
				}
				seen[cl.val] = true
				if kind == "q" {
					if last, ok := lastOf[prod]; ok && seq < last {
						return fmt.Sprintf("viol fifo producer=%d got %d after %d", prod, seq, last)
					}
					lastOf[prod] = seq
				}
			}
		}
	}
	if nRemoved != total {
		return fmt.Sprintf("viol lost removed=%d of %d", nRemoved, total)
	}
	sort.Slice(insRes, func(i, j int) bool { return insRes[i] < insRes[j] })
	sort.Slice(remInv, func(i, j int) bool { return remInv[i] < remInv[j] })
	for t := p; t < p+c; t++ {
		for _, cl := range calls[t] {
			if !cl.empty {
				continue
			}
			a := sort.Search(len(insRes), func(i int) bool { return insRes[i] >= cl.inv }) // insertions returned before E was invoked
			b := sort.Search(len(remInv), func(i int) bool { return remInv[i] >= cl.res }) // removals invoked before E returned
			if a > b {
				return fmt.Sprintf("viol empty-but-nonempty inserted-before=%d removals-possible=%d", a, b)
			}
		}
	}
	return fmt.Sprintf("ok offered=%d removed=%d", total, total)
}

// ---- small exhaustive linearizability search (≤ ~12 calls) ----

type c08HOp struct {
	name     string // offer poll push pop
	arg      int
	ret      string // nil | ok v | empty
	inv, res int64
}

func c08SeqApply(capacity int, content []int, op c08HOp) ([]int, string) {
	switch op.name {
	case "offer", "put", "push":
		if capacity > 0 && len(content) >= capacity {
			return content, "full"
		}
		return append(append([]int{}, content...), op.arg), "nil"
	case "poll", "take":
		if len(content) == 0 {
			return content, "empty"
		}
		return content[1:], "ok " + strconv.Itoa(content[0])
	case "pop":
		if len(content) == 0 {
			return content, "empty"
		}
		return content[:len(content)-1], "ok " + strconv.Itoa(content[len(content)-1])
	}
	return content, "bad"
}

func c08Linearizable(capacity int, ops []c08HOp) bool {
	n := len(ops)
	full := (1 << uint(n)) - 1
	dead := map[string]bool{}
	var rec func(mask int, content []int) bool
	rec = func(mask int, content []int) bool {
		if mask == full {
			return true
		}
		key := strconv.Itoa(mask) + fmt.Sprint(content)
		if dead[key] {
			return false
		}
		// an op may go next iff no other pending op returned before it was invoked
		minRes := int64(1) << 62
		for i := 0; i < n; i++ {
			if mask&(1<<uint(i)) == 0 && ops[i].res < minRes {
				minRes = ops[i].res
			}
		}
		for i := 0; i < n; i++ {
			if mask&(1<<uint(i)) != 0 || ops[i].inv > minRes {
				continue
			}
			next, ret := c08SeqApply(capacity, content, ops[i])
			if ret == ops[i].ret && rec(mask|1<<uint(i), next) {
				return true
			}
		}
		dead[key] = true
		return false
	}
	return rec(0, nil)
}

func c08Hist(kind, impl string, t, k int, seed int64) string {
	o := c08New(kind, impl, t*k+1)
	var clock int64
	var panics int64
	all := make([][]c08HOp, t)
	var wg sync.WaitGroup
	start := make(chan struct{})
	for th := 0; th < t; th++ {
		wg.Add(1)
		go func(th int) {
			defer wg.Done()
			defer func() {
				if r := recover(); r != nil {
					atomic.AddInt64(&panics, 1)
				}
			}()
			rng := rand.New(rand.NewSource(seed*1000 + int64(th)))
			<-start
			for i := 0; i < k; i++ {
				op := c08HOp{}
				ins := rng.Intn(2) == 0
				op.arg = th*100 + i
				op.inv = atomic.AddInt64(&clock, 1)
				switch {
				case kind == "s" && ins:
					op.name = "push"
					op.ret = c08ShowErr(o.h(th).push(op.arg))
				case kind == "s":
					op.name = "pop"
					op.ret = c08ShowVal(o.h(th).pop())
				case ins && (c08Base(impl) == "chq" || rng.Intn(2) == 0):
					op.name = "offer"
					op.ret = c08ShowErr(o.h(th).offer(op.arg))
				case ins:
					op.name = "put"
					op.ret = c08ShowErr(o.h(th).put(op.arg))
				case c08Base(impl) == "chq" || rng.Intn(2) == 0:
					op.name = "poll"
					op.ret = c08ShowVal(o.h(th).poll())
				default:
					op.name = "take"
					op.ret = c08ShowVal(o.h(th).take())
				}
				op.res = atomic.AddInt64(&clock, 1)
				atomic.AddInt64(&c08Progress, 1)
				all[th] = append(all[th], op)
			}
		}(th)
	}
	close(start)
	wg.Wait()
	if ov := o.overlaps(); ov != 0 {
		return fmt.Sprintf("viol overlap %d times two goroutines were inside the wrapped object at once", ov)
	}
	if panics != 0 {
		return "viol panic"
	}
	var ops []c08HOp
	for _, l := range all {
		ops = append(ops, l...)
	}
	if len(ops) > 16 {
		return "bad-case too many calls for the exhaustive search"
	}
	if !c08Linearizable(c08RingCap(impl), ops) {
		sort.Slice(ops, func(i, j int) bool { return ops[i].inv < ops[j].inv })
		var sb strings.Builder
		for _, op := range ops {
			fmt.Fprintf(&sb, " [%d,%d]%s:%d=%s", op.inv, op.res, op.name, op.arg, op.ret)
		}
		return "viol not-linearizable" + sb.String()
	}
	return fmt.Sprintf("ok linearizable ops=%d", t*k)
}

// Watchdog (bounds the cost of a broken tree): every case reports progress through c08Progress; if a case makes no
// progress for c08IdleDur() the driver gives the case up as `viol no-progress` instead of sitting out the per-case
// deadline and a process restart, and bumps c08Epoch so that the abandoned case's retry loops stop spinning.  The first
// three events are awaited generously (6 s: a loaded machine must not cause a false alarm), later ones 1.5 s.
var c08Progress, c08Epoch int64
var c08Stuck int32

func c08MarkerPath() string { // see c07MarkerPath: only inside the per-run directory of one check run
	exe, err := os.Executable()
	if err != nil || !strings.HasPrefix(filepath.Base(filepath.Dir(exe)), "run-") {
		return ""
	}
	return filepath.Join(filepath.Dir(exe), "c08-broken.marker")
}

func init() {
	if p := c08MarkerPath(); p != "" {
		if _, err := os.Stat(p); err == nil {
			atomic.StoreInt32(&c08Stuck, 10)
		}
	}
}

func c08IdleDur() time.Duration {
	if n := atomic.LoadInt32(&c08Stuck); n >= 10 {
		return 500 * time.Millisecond
	} else if n >= 3 {
		return 1500 * time.Millisecond
	}
	return 6 * time.Second
}

func c08Run(line string) string {
	done := make(chan string, 1)
	go func() {
		defer func() {
			if r := recover(); r != nil {
				done <- "panic"
			}
		}()
		done <- c08RunInner(line)
	}()
	last, lastT := atomic.LoadInt64(&c08Progress), time.Now()
	tick := time.NewTicker(20 * time.Millisecond)
	defer tick.Stop()
	for {
		select {
		case r := <-done:
			return r
		case <-tick.C:
			if cur := atomic.LoadInt64(&c08Progress); cur != last {
				last, lastT = cur, time.Now()
			} else if idle := c08IdleDur(); time.Since(lastT) > idle {
				if atomic.AddInt32(&c08Stuck, 1) == 3 {
					if p := c08MarkerPath(); p != "" {
						os.WriteFile(p, []byte("three stuck cases seen in this check run\n"), 0o644)
					}
				}
				atomic.AddInt64(&c08Epoch, 1)
				return fmt.Sprintf("viol no-progress for %v (calls blocked or retrying forever)", idle)
			}
		}
	}
}

// c08Fresh — "fresh object, first calls race": `rounds` times a brand-new wrapper is built and k goroutines, released
// together by a spin barrier, make their FIRST call on it (insertions of distinct values; in some rounds the last
// goroutine removes instead).  Then the structure is drained sequentially.  Conservation per round: every accepted
// value comes back exactly once (from the racing remover or from the drain), nothing else does, nobody panics, no
// two goroutines were inside the wrapped ring at once.  Observation: ok rounds=R | viol fresh round=… .
func c08Fresh(kind, impl string, k, rounds int, seed int64) string {
	if k < 1 || k > 16 {
		return "bad-case"
	}
	type res struct {
		ins, acc bool
		val      int
		got      bool
		panicked bool
	}
	out := make([]res, k)
	for r := 0; r < rounds; r++ {
		o := c08New(kind, impl, 2*k+2)
		var start int32
		var wg sync.WaitGroup
		withRemover := k >= 2 && (int64(r)+seed)%3 == 0
		for g := 0; g < k; g++ {
			out[g] = res{}
			wg.Add(1)
			go func(g int) {
				defer wg.Done()
				defer func() {
					if rec := recover(); rec != nil {
						out[g].panicked = true
					}
				}()
				h := o.h(g)
				remover := withRemover && g == k-1
				for atomic.LoadInt32(&start) == 0 {
				}
				if remover {
					var v int
					var err error
					switch {
					case kind == "s":
						v, err = h.pop()
					default:
						v, err = h.poll()
					}
					out[g].val, out[g].got = v, err == nil
					return
				}
				var err error
				switch {
				case kind == "s":
					err = h.push(g + 1)
				case g%2 == 0 || c08Base(impl) == "chq":
					err = h.offer(g + 1)
				default:
					err = h.put(g + 1)
				}
				out[g].ins, out[g].acc, out[g].val = true, err == nil, g+1
			}(g)
		}
		atomic.StoreInt32(&start, 1)
		wg.Wait()
		atomic.AddInt64(&c08Progress, 1)
		if ov := o.overlaps(); ov != 0 {
			return fmt.Sprintf("viol fresh round=%d overlap: %d times two first calls were inside the wrapped object at once", r, ov)
		}
		seen := make([]int, k+2)
		note := func(v int) bool {
			if v < 1 || v > k {
				return false
			}
			seen[v]++
			return true
		}
		for g := 0; g < k; g++ {
			if out[g].panicked {
				return fmt.Sprintf("viol fresh round=%d panic in a first call", r)
			}
			if !out[g].ins && out[g].got && !note(out[g].val) {
				return fmt.Sprintf("viol fresh round=%d phantom value=%d removed by a first call", r, out[g].val)
			}
		}
		drained, bad := 0, ""
		func() {
			defer func() {
				if rec := recover(); rec != nil {
					bad = fmt.Sprintf("viol fresh round=%d panic while draining", r)
				}
			}()
			for i := 0; i < 2*k+2; i++ {
				var v int
				var err error
				if kind == "s" {
					v, err = o.pop()
				} else {
					v, err = o.poll()
				}
				if err != nil {
					break
				}
				drained++
				if !note(v) {
					bad = fmt.Sprintf("viol fresh round=%d phantom value=%d drained", r, v)
					return
				}
			}
		}()
		if bad != "" {
			return bad
		}
		for g := 0; g < k; g++ {
			if !out[g].ins {
				continue
			}
			want := 0
			if out[g].acc {
				want = 1
			}
			if seen[out[g].val] != want {
				return fmt.Sprintf("viol fresh round=%d value %d (accepted=%v) came back %d times after %d racing first calls", r, out[g].val, out[g].acc, seen[out[g].val], k)
			}
		}
	}
	return fmt.Sprintf("ok rounds=%d", rounds)
}

func c08RunInner(line string) string {
	head, body := line, ""
	if i := strings.Index(line, ": "); i >= 0 {
		head, body = line[:i], line[i+2:]
	}
	toks := strings.Fields(head)
	if len(toks) < 3 {
		return "bad-case"
	}
	kind, impl := toks[1], toks[2]
	switch toks[0] {
	case "seq":
		o := c08New(kind, impl, 256)
		var outs []string
		for _, t := range strings.Split(body, ";") {
			t = strings.TrimSpace(t)
			if t != "" {
				outs = append(outs, c08Tok(o.h(len(outs)), t)) // nested wrappers: calls alternate between the two handles
				atomic.AddInt64(&c08Progress, 1)
			}
		}
		if o.overlaps() != 0 {
			return "viol overlap"
		}
		return strings.Join(outs, " | ")
	case "stress":
		return c08Stress(kind, impl, c08Field(toks, "p"), c08Field(toks, "c"), c08Field(toks, "n"), int64(c08Field(toks, "seed")))
	case "fresh":
		return c08Fresh(kind, impl, c08Field(toks, "k"), c08Field(toks, "rounds"), int64(c08Field(toks, "seed")))
	case "hist":
		return c08Hist(kind, impl, c08Field(toks, "t"), c08Field(toks, "k"), int64(c08Field(toks, "seed")))
	}
	return "bad-case"
}

func c08Concrete(prefix []string) string {
	toks := make([]string, len(prefix))
	v := 0
	for i, t := range prefix {
		if t == "put" || t == "offer" || t == "push" {
			v++
			toks[i] = t + ":" + strconv.Itoa(v)
		} else {
			toks[i] = t
		}
	}
	return strings.Join(toks, " ; ")
}

func c08Gen(tier string, rng *rand.Rand, emit func(string)) map[string]interface{} {
	thorough := tier == "thorough"
	seqCases, stressCases, histCases := 0, 0, 0
	// 1. sequential calls through the wrapper, bounded-exhaustive
	exh := func(head string, alphabet []string, maxLen int) {
		var rec func(prefix []string)
		rec = func(prefix []string) {
			if len(prefix) > 0 {
				emit(head + ": " + c08Concrete(prefix))
				seqCases++
			}
			if len(prefix) == maxLen {
				return
			}
			for _, a := range alphabet {
				rec(append(append([]string{}, prefix...), a))
			}
		}
		rec(nil)
	}
	ql, sl, cl := 4, 6, 5
	if thorough {
		ql, sl, cl = 6, 9, 8
	}
	exh("seq q llq", []string{"put", "offer", "take", "poll"}, ql)
	exh("seq s llq", []string{"push", "pop"}, sl)
	exh("seq q chq", []string{"offer", "poll"}, cl)
	exh("seq q ring2", []string{"put", "offer", "take", "poll"}, ql)
	exh("seq s ring2", []string{"push", "pop"}, sl)
	exh("seq q ring1", []string{"put", "poll"}, cl)
	exh("seq q cc-llq", []string{"put", "offer", "take", "poll"}, ql)
	exh("seq s cc-llq", []string{"push", "pop"}, sl)
	exh("seq q cc-ring2", []string{"offer", "poll"}, cl)
	nRand := 150
	if thorough {
		nRand = 1500
	}
	for i := 0; i < nRand; i++ {
		n := 1 + rng.Intn(60)
		heads := []string{"seq q llq", "seq s llq", "seq q chq", "seq q ring3", "seq s ring3", "seq q cc-llq", "seq s cc-ring3"}
		alph := [][]string{{"put", "offer", "take", "poll"}, {"push", "pop"}, {"offer", "poll"}, {"put", "offer", "take", "poll"}, {"push", "pop"},
			{"put", "offer", "take", "poll"}, {"push", "pop"}}
		k := rng.Intn(7)
		ops := make([]string, n)
		for j := range ops {
			a := alph[k]
			if rng.Intn(100) < 55 { // insertion-biased so that the structure is usually non-empty
				ops[j] = a[rng.Intn(len(a)/2)]
			} else {
				ops[j] = a[len(a)/2+rng.Intn(len(a)/2)]
			}
		}
		emit(heads[k] + ": " + c08Concrete(ops))
		seqCases++
	}
	// 2. stress: 1..16 producers × 1..16 consumers
	sizes := []int{1, 2, 4, 8, 16}
	type cfg struct{ p, c int }
	var cfgs []cfg
	for _, p := range sizes {
		for _, c := range sizes {
			cfgs = append(cfgs, cfg{p, c})
		}
	}
	rounds, n := 1, 4000
	if thorough {
		rounds, n = 4, 20000
	}
	for r := 0; r < rounds; r++ {
		for _, cf := range cfgs {
			for _, ki := range []string{"q llq", "s llq", "q chq"} {
				if !thorough && ki == "q chq" && (cf.p+cf.c)%3 != 0 {
					continue // quick: a third of the configurations for the second wrapped implementation
				}
				emit(fmt.Sprintf("stress %s p=%d c=%d n=%d seed=%d", ki, cf.p, cf.c, n/cf.p+1+rng.Intn(50), rng.Intn(1000000)))
				stressCases++
			}
			// the bounded, non-thread-safe ring buffer (capacity 1..3): producers retry while it reports full
			ringKinds := []string{"q", "s"}
			if !thorough {
				ringKinds = ringKinds[(cf.p+cf.c)%2 : (cf.p+cf.c)%2+1]
				if cf.p*cf.c == 1 || (cf.p+cf.c)%5 == 0 {
					ringKinds = []string{"q", "s"}
				}
			}
			// a wrapper wrapping a wrapper: producers/consumers are split across the OUTER and the INNER handle
			nestKinds := []string{"q cc-llq", "s cc-llq", "q cc-ring2", "s cc-ring2", "q cc-chq"}
			if !thorough {
				i0 := (cf.p*3 + cf.c) % 5
				nestKinds = []string{nestKinds[i0], nestKinds[(i0+2)%5]}
			}
			for _, nk := range nestKinds {
				nn := n/cf.p + 1 + rng.Intn(50)
				if strings.Contains(nk, "ring") {
					nn = (n/2)/cf.p + 1 + rng.Intn(20)
				}
				emit(fmt.Sprintf("stress %s p=%d c=%d n=%d seed=%d", nk, cf.p, cf.c, nn, rng.Intn(1000000)))
				stressCases++
			}
			for _, rk := range ringKinds {
				emit(fmt.Sprintf("stress %s ring%d p=%d c=%d n=%d seed=%d", rk, 1+rng.Intn(3), cf.p, cf.c, (n/2)/cf.p+1+rng.Intn(20), rng.Intn(1000000)))
				stressCases++
			}
		}
	}
	// 2b. fresh objects: the very first calls on a just-constructed wrapper race each other
	freshCases, freshRounds := 0, 0
	type fr struct {
		ki     string
		k, rds int
	}
	frs := []fr{{"s llq", 4, 90000}, {"q llq", 4, 60000}, {"s llq", 2, 30000}, {"q llq", 3, 20000}, {"s ring8", 4, 15000},
		{"q ring2", 4, 15000}, {"s cc-llq", 4, 15000}, {"q cc-llq", 4, 15000}, {"q chq", 4, 10000}, {"s llq", 8, 10000}}
	for _, f := range frs {
		rds := f.rds
		if thorough {
			rds *= 8
		}
		// several lines per kind: a hit ends its line early, the others still run
		for part := 0; part < 3; part++ {
			emit(fmt.Sprintf("fresh %s k=%d rounds=%d seed=%d", f.ki, f.k, rds/3, rng.Intn(1000000)))
			freshCases++
			freshRounds += rds / 3
		}
	}
	// 3. small free-running histories, searched exhaustively for a linearization
	nh := 300
	if thorough {
		nh = 6000
	}
	for i := 0; i < nh; i++ {
		t := 2 + rng.Intn(3)
		k := 1 + rng.Intn(12/t)
		ki := []string{"q llq", "s llq", "q chq", "q ring1", "q ring2", "s ring2", "q cc-llq", "s cc-llq", "q cc-ring1"}[rng.Intn(9)]
		emit(fmt.Sprintf("hist %s t=%d k=%d seed=%d", ki, t, k, rng.Intn(1000000)))
		histCases++
	}
	return map[string]interface{}{
		"fresh_cases": freshCases, "fresh_objects": freshRounds,
		"exhaustive": false, "seq_cases": seqCases, "stress_cases": stressCases, "hist_cases": histCases,
		"seq_exhaustive_scope": fmt.Sprintf("all call sequences: queue/llq ≤%d over 4 methods, stack/llq ≤%d over 2, queue/chq ≤%d over 2", ql, sl, cl),
		"stress_threads": "producers × consumers ∈ {1,2,4,8,16}²", "hist_max_calls": 12,
	}
}

func init() { register("C08", &Prop{Gen: c08Gen, Run: c08Run, CaseTimeout: 20 * time.Second}) }
