package main

// C11 — MonadIO: lazy, once per evaluation, monad laws, handler routing.
//
// Case line:   <api> <tree in prefix notation>: <op> ; <op> ; ...
//   api   g = generic constructors (MonadIOJustGenerics / MonadIONewGenerics, T = int)
//         i = the interface{} methods (MonadIO.Just / MonadIO.New, T = interface{})
//   tree  J c | V a | N id | W id | H id | HD id | HP id | G id | JM id x | FR t | FL c t b | FC c t b1 b2 | A x c b | O h t | S h t     (see Model/C11.lean)
//   ops   w (2.1 s pause) | X <j> <c> <k> (object j := current.FlatMap(func(x){ log; return OBJECT k }))
//         r <j> (make object j current; 0 = the value built from the tree) | D <j> <c> <tree> (object j := current.FlatMap(cont c, tree))
//         sg (Subscribe with OnNext whose effect is held at the first G leaf it runs) | g- (open the gate)
//         b (nothing) | e (Eval) | s (Subscribe with OnNext) | z (Subscribe without OnNext) | y (Cor.YieldFromIO)
//         o<h> (ObserveOn) | u<h> (SubscribeOn)   h: 0 = nil, 1/2 = unbuffered handlers, 3 = handler with a buffered channel
// Observation: per op the events logged since the previous op ("-" if none), " | "-separated; e and y prefix "v=<value> ".
//   events  E<id>@<g>  user effect     K<c>(<x>)@<g>  continuation invoked     D(<x>)@<g>  OnNext delivery
//   <g>     m = the goroutine running the case, h1/h2/h3 = the handler's run goroutine, ? = any other goroutine
// After every op the harness waits for quiescence of the three handlers (barrier functions posted to each, three
// rounds), so "nothing ran" and "ran exactly once" are decided without any timing assumption.

import (
	"fmt"
	"io"
	"math/rand"
	"net/http"
	"os"
	"strconv"
	"strings"
	"sync"
	"time"

	fpgo "github.com/TeaEntityLab/fpGo/v2"
	"github.com/TeaEntityLab/fpGo/v2/network"
)

type c11Tree struct {
	kind    string
	a, c, h int
	kids    []*c11Tree
}

func c11Parse(toks []string) (*c11Tree, []string, bool) {
	if len(toks) == 0 {
		return nil, nil, false
	}
	k := toks[0]
	toks = toks[1:]
	num := func() (int, bool) {
		if len(toks) == 0 {
			return 0, false
		}
		v, err := strconv.Atoi(toks[0])
		toks = toks[1:]
		return v, err == nil && v >= 0
	}
	sub := func(n int, t *c11Tree) (*c11Tree, []string, bool) {
		for i := 0; i < n; i++ {
			kid, rest, ok := c11Parse(toks)
			if !ok {
				return nil, nil, false
			}
			t.kids = append(t.kids, kid)
			toks = rest
		}
		return t, toks, true
	}
	t := &c11Tree{kind: k}
	var ok bool
	switch k {
	case "J", "V", "N", "W", "H", "HD", "HP", "G":
		if t.a, ok = num(); !ok {
			return nil, nil, false
		}
		return t, toks, true
	case "JM":
		if t.a, ok = num(); !ok {
			return nil, nil, false
		}
		return sub(1, t)
	case "FR":
		return sub(1, t)
	case "FL":
		if t.c, ok = num(); !ok {
			return nil, nil, false
		}
		return sub(2, t)
	case "FC":
		if t.c, ok = num(); !ok {
			return nil, nil, false
		}
		return sub(3, t)
	case "A":
		if t.a, ok = num(); !ok {
			return nil, nil, false
		}
		if t.c, ok = num(); !ok {
			return nil, nil, false
		}
		return sub(1, t)
	case "O", "S":
		if t.h, ok = num(); !ok || t.h > 3 {
			return nil, nil, false
		}
		return sub(1, t)
	}
	return nil, nil, false
}

func (t *c11Tree) String() string {
	var b strings.Builder
	var rec func(t *c11Tree)
	rec = func(t *c11Tree) {
		b.WriteString(t.kind)
		switch t.kind {
		case "J", "V", "N", "W", "H", "HD", "HP", "G", "JM":
			fmt.Fprintf(&b, " %d", t.a)
		case "FL", "FC":
			fmt.Fprintf(&b, " %d", t.c)
		case "A":
			fmt.Fprintf(&b, " %d %d", t.a, t.c)
		case "O", "S":
			fmt.Fprintf(&b, " %d", t.h)
		}
		for _, k := range t.kids {
			b.WriteByte(' ')
			rec(k)
		}
	}
	rec(t)
	return b.String()
}

type c11Resp struct{ V int }

type c11RoundTripper func(*http.Request) (*http.Response, error)

func (f c11RoundTripper) RoundTrip(r *http.Request) (*http.Response, error) { return f(r) }

type c11Env struct {
	mu    sync.Mutex
	log   []string
	names map[int64]string
	h     [4]*fpgo.HandlerDef

	// the gate: after a gated Subscribe ("sg") the first run of a G leaf blocks (after logging) until "g-"
	gateArmed   bool
	gateArrived chan struct{}
	gateOpen    chan struct{}
}

func (e *c11Env) gate() {
	e.mu.Lock()
	if e.gateArmed {
		e.gateArmed = false
		arrived, open := e.gateArrived, e.gateOpen
		e.mu.Unlock()
		close(arrived)
		<-open
		return
	}
	e.mu.Unlock()
}

func (e *c11Env) tagLocked() string {
	if n, ok := e.names[fpgo.VerifGoID()]; ok {
		return n
	}
	return "?"
}

func (e *c11Env) emit(s string) {
	e.mu.Lock()
	e.log = append(e.log, s+"@"+e.tagLocked())
	e.mu.Unlock()
}

// effect logs E<id> and returns val(number of events logged before it) — one atomic step
func (e *c11Env) effect(id int, val func(n int) int) int {
	e.mu.Lock()
	n := len(e.log)
	e.log = append(e.log, "E"+strconv.Itoa(id)+"@"+e.tagLocked())
	e.mu.Unlock()
	return val(n)
}

// quiesce waits until everything posted so far to the handlers (except the one held by a gated subscription) has run
func (e *c11Env) quiesce(skip int) {
	for round := 0; round < 3; round++ {
		for i, h := range e.h {
			if i == 0 || i == skip {
				continue
			}
			done := make(chan struct{})
			h.Post(func() { close(done) })
			<-done
		}
	}
}

type c11API[T any] struct {
	just   func(T) *fpgo.MonadIODef[T]
	newf   func(func() T) *fpgo.MonadIODef[T]
	to     func(T) int
	from   func(int) T
	yield  func(*fpgo.MonadIODef[T]) T
	onNext func(func(T)) fpgo.Subscription[T]
	obj    func(*fpgo.MonadIODef[T]) (T, bool) // a MonadIO object as a VALUE (possible with T = interface{} only)
}

// MonadIO objects that travel as values in the current case -> their code (1000 + id); cases run one at a time
var c11Objs sync.Map

// the continuation of an FL / FC / A node (or of a derive op): logs its invocation, builds the body with the value bound
func c11Kont[T any](e *c11Env, api *c11API[T], t *c11Tree) func(T) *fpgo.MonadIODef[T] {
	return func(x T) *fpgo.MonadIODef[T] {
		xv := api.to(x)
		e.emit("K" + strconv.Itoa(t.c) + "(" + strconv.Itoa(xv) + ")")
		if t.kind == "FC" {
			if xv%2 == 0 {
				return c11Build(e, api, t.kids[1], xv)
			}
			return c11Build(e, api, t.kids[2], xv)
		}
		return c11Build(e, api, t.kids[len(t.kids)-1], xv)
	}
}

func c11Build[T any](e *c11Env, api *c11API[T], t *c11Tree, v int) *fpgo.MonadIODef[T] {
	kont := func(t *c11Tree) func(T) *fpgo.MonadIODef[T] { return c11Kont(e, api, t) }
	switch t.kind {
	case "J":
		return api.just(api.from(t.a))
	case "V":
		return api.just(api.from((v + t.a) % 1000))
	case "N":
		id := t.a
		return api.newf(func() T { return api.from(e.effect(id, func(n int) int { return (7*id + n) % 1000 })) })
	case "W":
		id := t.a
		return api.newf(func() T { return api.from(e.effect(id, func(n int) int { return (2*v + id + n) % 1000 })) })
	case "G":
		id := t.a
		return api.newf(func() T {
			val := e.effect(id, func(n int) int { return (7*id + n) % 1000 })
			e.gate()
			return api.from(val)
		})
	case "H", "HD", "HP":
		// network/simpleHTTP.go: the API value is built NOW (no request may be sent), the request goes out when the
		// MonadIO is evaluated — once per evaluation, every evaluation; the stub transport is the user effect.  Like a real
		// transport it refuses a request whose context is already cancelled or expired.  Value -1 = the API answered with Err.
		id := t.a
		method := map[string]string{"H": "GET", "HD": "DELETE", "HP": "POST"}[t.kind]
		client := &http.Client{Transport: c11RoundTripper(func(req *http.Request) (*http.Response, error) {
			if err := req.Context().Err(); err != nil {
				return nil, err
			}
			if req.Method != method {
				return nil, fmt.Errorf("c11: method %s, want %s", req.Method, method)
			}
			if req.Body != nil {
				if b, err := io.ReadAll(req.Body); err != nil || (method == "POST" && !strings.Contains(string(b), strconv.Itoa(id))) {
					return nil, fmt.Errorf("c11: body %q", b)
				}
			}
			val := e.effect(id, func(n int) int { return (7*id + n) % 1000 })
			return &http.Response{StatusCode: 200, Status: "200 OK", Proto: "HTTP/1.1", ProtoMajor: 1, ProtoMinor: 1,
				Header: http.Header{"Content-Type": []string{"application/json"}}, Request: req,
				Body:   io.NopCloser(strings.NewReader(`{"V":` + strconv.Itoa(val) + `}`))}, nil
		})}
		shttp := network.NewSimpleHTTPWithClientAndInterceptors(client)
		shttp.TimeoutMillisecond = int64(2 * time.Second) // (the field is used as a time.Duration)
		sapi := network.NewSimpleAPIWithSimpleHTTP("http://c11.invalid", shttp)
		var call *fpgo.MonadIODef[*network.APIResponse[c11Resp]]
		switch t.kind {
		case "H":
			call = network.APIMakeGet[c11Resp](sapi, "/v/{id}")(network.PathParam{"id": id}, &c11Resp{})
		case "HD":
			call = network.APIMakeDelete[c11Resp](sapi, "/v/{id}")(network.PathParam{"id": id}, &c11Resp{})
		default:
			call = network.APIMakePostJSONBody[c11Resp, c11Resp](sapi, "/v/{id}")(network.PathParam{"id": id}, c11Resp{V: id}, &c11Resp{})
		}
		return api.newf(func() T {
			r := call.Eval()
			if r == nil || r.Err != nil {
				return api.from(-1)
			}
			if r.TargetObject == nil {
				return api.from(-2)
			}
			return api.from(r.TargetObject.V)
		})
	case "JM":
		// Just(obj): the value is itself a MonadIO object (built here, never run); with T = int the code number stands in
		x := c11Build(e, api, t.kids[0], v)
		if val, ok := api.obj(x); ok {
			c11Objs.Store(x, 1000+t.a)
			return api.just(val)
		}
		return api.just(api.from(1000 + t.a))
	case "FR":
		return c11Build(e, api, t.kids[0], v).FlatMap(api.just)
	case "FL", "FC":
		return c11Build(e, api, t.kids[0], v).FlatMap(kont(t))
	case "A":
		fn := kont(t)
		x := t.a
		return api.newf(func() T { return fn(api.from(x)).Eval() })
	case "O":
		return c11Build(e, api, t.kids[0], v).ObserveOn(e.h[t.h])
	case "S":
		return c11Build(e, api, t.kids[0], v).SubscribeOn(e.h[t.h])
	}
	panic("c11: bad tree")
}

func c11RunCase[T any](api *c11API[T], t *c11Tree, ops []string, allowSame bool) string {
	c11Objs.Range(func(k, _ interface{}) bool { c11Objs.Delete(k); return true })
	sameUnbuffered := func(o, s int) bool { return !allowSame && o == s && (o == 1 || o == 2) }
	e := &c11Env{names: map[int64]string{fpgo.VerifGoID(): "m"}}
	e.h[1] = fpgo.Handler.New()
	e.h[2] = fpgo.Handler.New()
	e.h[3] = fpgo.Handler.NewByCh(make(chan func(), 4))
	for i := 1; i <= 3; i++ {
		i := i
		done := make(chan struct{})
		e.h[i].Post(func() {
			e.mu.Lock()
			e.names[fpgo.VerifGoID()] = "h" + strconv.Itoa(i)
			e.mu.Unlock()
			close(done)
		})
		<-done
	}
	pending := 0 // the handler held by a gated subscription in flight (0 = none)
	queued, qok := 0, false
	defer func() {
		if pending != 0 {
			close(e.gateOpen)
			e.quiesce(0)
		}
		for _, h := range e.h[1:] {
			h.Close()
		}
	}()
	seen := 0
	flush := func() string {
		e.quiesce(pending)
		e.mu.Lock()
		defer e.mu.Unlock()
		evs := e.log[seen:]
		seen = len(e.log)
		if len(evs) == 0 {
			return "-"
		}
		return strings.Join(evs, " ")
	}
	// up to four objects; the handler pair set on each is tracked only to refuse (as the model does) operations that
	// would have to wait for the handler a gated subscription is holding
	var reg [4]*fpgo.MonadIODef[T]
	var ob, sub [4]int
	cur := 0
	outs := make([]string, 0, len(ops))
	// construction happens before the first op; whatever it logs is reported with the first op
	func() {
		defer func() {
			if r := recover(); r != nil {
				reg[0] = nil
			}
		}()
		reg[0] = c11Build(e, api, t, 0)
	}()
	if reg[0] == nil {
		return "panic-in-construction"
	}
	ob[0], sub[0] = c11RootHandlers(t)
	for _, op := range ops {
		out := func() (out string) {
			defer func() {
				if r := recover(); r != nil {
					out = "panic"
				}
			}()
			m := reg[cur]
			f := strings.Fields(op)
			switch {
			case len(f) == 2 && f[0] == "r" && len(f[1]) == 1 && f[1][0] >= '0' && f[1][0] <= '3':
				j := int(f[1][0] - '0')
				if reg[j] == nil {
					return "bad-op"
				}
				cur = j
				return flush()
			case len(f) >= 4 && f[0] == "D" && len(f[1]) == 1 && f[1][0] >= '0' && f[1][0] <= '3':
				j := int(f[1][0] - '0')
				c, err := strconv.Atoi(f[2])
				body, rest, ok := c11Parse(f[3:])
				if err != nil || c < 0 || !ok || len(rest) != 0 {
					return "bad-op"
				}
				reg[j] = m.FlatMap(c11Kont(e, api, &c11Tree{kind: "FL", c: c, kids: []*c11Tree{nil, body}}))
				ob[j], sub[j] = 0, 0
				return flush()
			case len(f) == 4 && f[0] == "X" && len(f[1]) == 1 && f[1][0] >= '0' && f[1][0] <= '3' && len(f[3]) == 1 && f[3][0] >= '0' && f[3][0] <= '3':
				// object j := current.FlatMap(func(x){ log; return OBJECT k }): the continuation hands back an existing object
				j, k := int(f[1][0]-'0'), int(f[3][0]-'0')
				c, err := strconv.Atoi(f[2])
				obj := reg[k]
				if err != nil || c < 0 || obj == nil {
					return "bad-op"
				}
				reg[j] = m.FlatMap(func(x T) *fpgo.MonadIODef[T] {
					e.emit("K" + strconv.Itoa(c) + "(" + strconv.Itoa(api.to(x)) + ")")
					return obj
				})
				ob[j], sub[j] = 0, 0
				return flush()
			case len(f) != 1:
				return "bad-op"
			case op == "sg":
				if pending != 0 || ob[cur] == 0 || sameUnbuffered(ob[cur], sub[cur]) {
					return "bad-op"
				}
				e.mu.Lock()
				e.gateArmed, e.gateArrived, e.gateOpen = true, make(chan struct{}), make(chan struct{})
				arrived := e.gateArrived
				e.mu.Unlock()
				delivered := make(chan struct{}, 8)
				m.Subscribe(api.onNext(func(x T) {
					e.emit("D(" + strconv.Itoa(api.to(x)) + ")")
					delivered <- struct{}{}
				}))
				select {
				case <-arrived:
					pending = ob[cur]
					queued, qok = 0, sub[cur] == 0
				case <-delivered: // the chain never reached a gate
					e.mu.Lock()
					e.gateArmed = false
					e.mu.Unlock()
				}
				return flush()
			case op == "g-":
				if pending != 0 {
					close(e.gateOpen)
					pending, queued, qok = 0, 0, false
				}
				return flush()
			case op == "b":
				return flush()
			case op == "w":
				time.Sleep(2100 * time.Millisecond) // longer than the API timeout: a deadline must not run between evaluations
				return flush()
			case op == "e":
				v := api.to(m.Eval())
				return "v=" + strconv.Itoa(v) + " " + flush()
			case op == "s":
				if pending != 0 && qok && pending == 3 && sub[cur] == 3 && ob[cur] != 3 && queued < 3 {
					// the delivery waits in the mailbox of h3 (buffered), which the gated subscription is holding
					queued++
				} else if sameUnbuffered(ob[cur], sub[cur]) || (pending != 0 && (ob[cur] == pending || sub[cur] == pending)) {
					return "bad-op"
				}
				m.Subscribe(api.onNext(func(x T) { e.emit("D(" + strconv.Itoa(api.to(x)) + ")") }))
				return flush()
			case op == "z":
				m.Subscribe(fpgo.Subscription[T]{})
				return flush()
			case op == "y":
				if pending != 0 && ob[cur] == pending {
					return "bad-op"
				}
				v := api.to(api.yield(m))
				sub[cur] = 0
				return "v=" + strconv.Itoa(v) + " " + flush()
			case len(op) == 2 && op[0] == 'o' && op[1] >= '0' && op[1] <= '3':
				reg[cur] = m.ObserveOn(e.h[op[1]-'0'])
				ob[cur] = int(op[1] - '0')
				return flush()
			case len(op) == 2 && op[0] == 'u' && op[1] >= '0' && op[1] <= '3':
				reg[cur] = m.SubscribeOn(e.h[op[1]-'0'])
				sub[cur] = int(op[1] - '0')
				return flush()
			}
			return "bad-op"
		}()
		outs = append(outs, out)
	}
	return strings.Join(outs, " | ")
}

// handler pair of the value a tree builds: the outermost ObserveOn / SubscribeOn on the root chain
func c11RootHandlers(t *c11Tree) (ob, sub int) {
	if t.kind == "O" || t.kind == "S" {
		ob, sub = c11RootHandlers(t.kids[0])
		if t.kind == "O" {
			ob = t.h
		} else {
			sub = t.h
		}
	}
	return
}

var c11Generic = &c11API[int]{
	just:   fpgo.MonadIOJustGenerics[int],
	newf:   fpgo.MonadIONewGenerics[int],
	to:     func(x int) int { return x },
	from:   func(x int) int { return x },
	yield:  func(m *fpgo.MonadIODef[int]) int { return (&fpgo.CorDef[int]{}).YieldFromIO(m) },
	onNext: func(f func(int)) fpgo.Subscription[int] { return fpgo.Subscription[int]{OnNext: f} },
	obj:    func(*fpgo.MonadIODef[int]) (int, bool) { return 0, false },
}

var c11Iface = &c11API[interface{}]{
	just:   fpgo.MonadIO.Just,
	newf:   fpgo.MonadIO.New,
	to: func(x interface{}) int {
		if m, ok := x.(*fpgo.MonadIODef[interface{}]); ok {
			if code, ok := c11Objs.Load(m); ok {
				return code.(int)
			}
			return -2
		}
		v, _ := x.(int)
		return v
	},
	from:   func(x int) interface{} { return x },
	yield:  func(m *fpgo.MonadIODef[interface{}]) interface{} { return (&fpgo.CorDef[interface{}]{}).YieldFromIO(m) },
	onNext: func(f func(interface{})) fpgo.Subscription[interface{}] { return fpgo.Subscription[interface{}]{OnNext: f} },
	obj:    func(m *fpgo.MonadIODef[interface{}]) (interface{}, bool) { return m, true },
}

func c11Run(line string) string {
	head, body := line, ""
	if i := strings.Index(line, ": "); i >= 0 {
		head, body = line[:i], line[i+2:]
	}
	toks := strings.Fields(head)
	if len(toks) < 2 {
		return "bad-case"
	}
	t, rest, ok := c11Parse(toks[1:])
	if !ok || len(rest) != 0 {
		return "bad-case"
	}
	var ops []string
	for _, o := range strings.Split(body, ";") {
		if o = strings.TrimSpace(o); o != "" {
			ops = append(ops, o)
		}
	}
	// "gs" / "is": the library under test lets a handler post to itself (see design.d/C11.md)
	allowSame := toks[0] == "gs" || toks[0] == "is"
	if toks[0] == "i" || toks[0] == "is" {
		return c11RunCase(c11Iface, t, ops, allowSame)
	}
	return c11RunCase(c11Generic, t, ops, allowSame)
}

// ---- generators

func c11Leaf(k string, a int) *c11Tree { return &c11Tree{kind: k, a: a} }

var c11Leaves = []*c11Tree{c11Leaf("J", 3), c11Leaf("V", 1), c11Leaf("N", 1), c11Leaf("N", 2), c11Leaf("W", 3), c11Leaf("H", 4)}

// all trees with exactly n nodes over a small alphabet
func c11Trees(n int, memo map[int][]*c11Tree) []*c11Tree {
	if r, ok := memo[n]; ok {
		return r
	}
	var res []*c11Tree
	if n == 1 {
		res = c11Leaves
	} else {
		for _, t := range c11Trees(n-1, memo) {
			res = append(res, &c11Tree{kind: "FR", kids: []*c11Tree{t}}, &c11Tree{kind: "O", h: 1, kids: []*c11Tree{t}},
				&c11Tree{kind: "S", h: 2, kids: []*c11Tree{t}}, &c11Tree{kind: "A", a: 4, c: 9, kids: []*c11Tree{t}})
		}
		for i := 1; i <= n-2; i++ {
			for _, t := range c11Trees(i, memo) {
				for _, b := range c11Trees(n-1-i, memo) {
					res = append(res, &c11Tree{kind: "FL", c: 1, kids: []*c11Tree{t, b}})
				}
			}
		}
		for i := 1; i <= n-3; i++ {
			for j := 1; i+j <= n-2; j++ {
				for _, t := range c11Trees(i, memo) {
					for _, b1 := range c11Trees(j, memo) {
						for _, b2 := range c11Trees(n-1-i-j, memo) {
							res = append(res, &c11Tree{kind: "FC", c: 2, kids: []*c11Tree{t, b1, b2}})
						}
					}
				}
			}
		}
	}
	memo[n] = res
	return res
}

func c11Random(rng *rand.Rand, depth int) *c11Tree {
	leaf := func() *c11Tree {
		switch rng.Intn(10) {
		case 9:
			return &c11Tree{kind: "JM", a: rng.Intn(20), kids: []*c11Tree{c11Leaf([]string{"N", "J", "W"}[rng.Intn(3)], rng.Intn(9))}}
		case 4:
			return c11Leaf("H", rng.Intn(9))
		case 0, 5:
			return c11Leaf("J", rng.Intn(50))
		case 1, 6:
			return c11Leaf("V", rng.Intn(20))
		case 2, 7:
			return c11Leaf("N", rng.Intn(9))
		}
		return c11Leaf("W", rng.Intn(9))
	}
	if depth <= 1 || rng.Intn(100) < 12 {
		return leaf()
	}
	sub := func() *c11Tree { return c11Random(rng, depth-1) }
	r := rng.Intn(100)
	switch {
	case r < 8:
		return &c11Tree{kind: "FR", kids: []*c11Tree{sub()}}
	case r < 50:
		return &c11Tree{kind: "FL", c: rng.Intn(9), kids: []*c11Tree{sub(), sub()}}
	case r < 72:
		return &c11Tree{kind: "FC", c: rng.Intn(9), kids: []*c11Tree{sub(), sub(), sub()}}
	case r < 82:
		return &c11Tree{kind: "A", a: rng.Intn(50), c: rng.Intn(9), kids: []*c11Tree{sub()}}
	case r < 91:
		return &c11Tree{kind: "O", h: rng.Intn(4), kids: []*c11Tree{sub()}}
	}
	return &c11Tree{kind: "S", h: rng.Intn(4), kids: []*c11Tree{sub()}}
}

var c11Scripts = []string{
	"o1 ; u1 ; s", "b", "e", "e ; e ; e", "s", "z ; e", "b ; s ; e ; s", "o1 ; s ; e", "u2 ; s ; z", "o1 ; u2 ; s ; s", "o1 ; u2 ; z ; b ; y",
	"o3 ; u3 ; s", "y ; e", "o2 ; u1 ; s ; o0 ; s ; u0 ; s", "o1 ; y ; s",
}

// the four nil/non-nil combinations (with distinct unbuffered handlers), then 0-3 evaluations of random kind
func c11RandomScript(rng *rand.Rand) string {
	var ops []string
	n := rng.Intn(4)
	for i := 0; i < n; i++ {
		if rng.Intn(2) == 0 {
			// never the same unbuffered handler on both sides: h.Post from h's own goroutine on an unbuffered channel
			// cannot complete (outside the property: it names two handlers h1, h2); h3 is buffered and may be shared
			switch rng.Intn(6) {
			case 0:
				ops = append(ops, "o0", "u0")
			case 1:
				ops = append(ops, "o1", "u0")
			case 2:
				ops = append(ops, "o0", "u2")
			case 3:
				ops = append(ops, "o1", "u2")
			case 4:
				ops = append(ops, "o3", "u3")
			case 5:
				ops = append(ops, "o2", "u1")
			}
		}
		switch r := rng.Intn(10); {
		case r < 4:
			ops = append(ops, "e")
		case r < 8:
			ops = append(ops, "s")
		case r < 9:
			ops = append(ops, "z")
		default:
			ops = append(ops, "y")
		}
	}
	if len(ops) == 0 {
		ops = []string{"b"}
	}
	return strings.Join(ops, " ; ")
}

// a script is safe for a tree if no Subscribe happens with the same unbuffered handler on both sides
func c11Safe(t *c11Tree, script string) bool {
	if os.Getenv("VERIF_C11_SAMEHANDLER") != "" {
		return true // for a library in which a handler may post to itself (see proposed-fix-samehandler.patch)
	}
	ob, sub := 0, 0
	var root func(t *c11Tree)
	root = func(t *c11Tree) {
		// outermost wins: walk down through O/S nodes, inner settings are overwritten by outer ones
		if t.kind == "O" || t.kind == "S" {
			root(t.kids[0])
			if t.kind == "O" {
				ob = t.h
			} else {
				sub = t.h
			}
		}
	}
	root(t)
	for _, op := range strings.Split(script, " ; ") {
		switch {
		case op[0] == 'o':
			ob = int(op[1] - '0')
		case op[0] == 'u':
			sub = int(op[1] - '0')
		case op == "y":
			sub = 0
		case op == "s":
			if ob == sub && (ob == 1 || ob == 2) {
				return false
			}
		}
	}
	return true
}

// Does the tree set a handler on a value that is then composed further (an O/S node below a FlatMap / A node)?  Whether
// FlatMap's result inherits the handlers of its operands is not fixed by the property (the library does not); such trees
// are therefore subscribed only after both handlers have been set explicitly on the composed value.
func c11InnerHandler(t *c11Tree, below bool) bool {
	switch t.kind {
	case "O", "S":
		return below || c11InnerHandler(t.kids[0], below)
	case "FR", "FL", "FC", "A":
		for _, k := range t.kids {
			if c11InnerHandler(k, true) {
				return true
			}
		}
	}
	return false
}

func c11Gen(tier string, rng *rand.Rand, emit func(string)) map[string]interface{} {
	maxNodes, nRandom, depth := 4, 2500, 6
	if tier == "thorough" {
		maxNodes, nRandom, depth = 5, 40000, 7
	}
	same := ""
	if os.Getenv("VERIF_C11_SAMEHANDLER") != "" {
		same = "s"
	}
	api := func(i int) string {
		if i%3 == 2 {
			return "i" + same + " "
		}
		return "g" + same + " "
	}
	count := 0
	put := func(t *c11Tree, script string) {
		if c11InnerHandler(t, false) && (strings.Contains(script, "s") || strings.Contains(script, "y")) {
			ops := strings.Split(script, " ; ")
			if !(len(ops) >= 2 && ops[0][0] == 'o' && ops[1][0] == 'u') {
				script = "o0 ; u0 ; " + script
			}
		}
		if strings.Contains(script, "y ; ") {
			// Cor.YieldFromIO resets subOn as a side effect; that is not part of the property: pin it explicitly afterwards
			script = strings.ReplaceAll(script, "y ; ", "y ; u0 ; ")
		}
		if !c11Safe(t, script) {
			return
		}
		emit(api(count) + t.String() + ": " + script)
		count++
	}
	// directed: both sides of the three laws over a family of m / f / g, under Eval, repeated Eval and routed Subscribe
	directed := 0
	ms := []*c11Tree{c11Leaf("J", 5), c11Leaf("N", 1), {kind: "FL", c: 3, kids: []*c11Tree{c11Leaf("N", 2), c11Leaf("W", 4)}},
		{kind: "O", h: 1, kids: []*c11Tree{c11Leaf("N", 6)}}}
	bodies := []*c11Tree{c11Leaf("V", 1), c11Leaf("W", 5), {kind: "FL", c: 4, kids: []*c11Tree{c11Leaf("W", 7), c11Leaf("V", 2)}},
		{kind: "FC", c: 5, kids: []*c11Tree{c11Leaf("V", 0), c11Leaf("N", 7), c11Leaf("W", 8)}}}
	lawScripts := []string{"e ; e", "s ; e", "o1 ; u2 ; s ; s", "u2 ; s", "o1 ; s ; y"}
	for _, sc := range lawScripts {
		for _, b := range bodies {
			for x := 0; x < 4; x++ {
				put(&c11Tree{kind: "FL", c: 1, kids: []*c11Tree{c11Leaf("J", x), b}}, sc) // Just(x).FlatMap(f)
				put(&c11Tree{kind: "A", a: x, c: 1, kids: []*c11Tree{b}}, sc)             // f(x)
				directed += 2
			}
		}
		for _, m := range ms {
			put(&c11Tree{kind: "FR", kids: []*c11Tree{m}}, sc) // m.FlatMap(Just)
			put(m, sc)                                          // m
			directed += 2
			for _, f := range bodies {
				for _, g := range bodies {
					put(&c11Tree{kind: "FL", c: 2, kids: []*c11Tree{{kind: "FL", c: 1, kids: []*c11Tree{m, f}}, g}}, sc) // (m >>= f) >>= g
					put(&c11Tree{kind: "FL", c: 1, kids: []*c11Tree{m, {kind: "FL", c: 2, kids: []*c11Tree{f, g}}}}, sc) // m >>= (x => f x >>= g)
					directed += 2
				}
			}
		}
	}
	// bounded-exhaustive: every tree with <= maxNodes nodes over the small alphabet x every script
	memo := map[int][]*c11Tree{}
	exhaustive := 0
	for n := 1; n <= maxNodes; n++ {
		for _, t := range c11Trees(n, memo) {
			for _, sc := range c11Scripts {
				put(t, sc)
				exhaustive++
			}
		}
	}
	// random
	depthHist := map[string]int{}
	for i := 0; i < nRandom; i++ {
		d := 2 + rng.Intn(depth-1)
		t := c11Random(rng, d)
		depthHist[strconv.Itoa(d)]++
		put(t, c11RandomScript(rng))
	}
	raw := func(t *c11Tree, script string) {
		emit(api(count) + t.String() + ": " + script)
		count++
	}
	// SimpleAPI calls (GET, DELETE, POST with body) as MonadIO: evaluated several times, routed, and across a pause longer than the timeout
	httpCases := 0
	for _, k := range []string{"H", "HD", "HP"} {
		lf := c11Leaf(k, 3+httpCases%5)
		for _, t := range []*c11Tree{lf, {kind: "FL", c: 1, kids: []*c11Tree{lf, c11Leaf("V", 1)}},
			{kind: "FL", c: 2, kids: []*c11Tree{c11Leaf("N", 1), lf}}, {kind: "FR", kids: []*c11Tree{lf}}} {
			for _, sc := range []string{"e ; e ; e", "s ; s ; e", "o1 ; u2 ; s ; s", "e ; y ; s", "b ; e ; z ; e"} {
				put(t, sc)
				httpCases++
			}
		}
	}
	put(c11Leaf("H", 2), "e ; w ; e")
	put(c11Leaf("HD", 2), "w ; e ; e")
	httpCases += 2
	// values that are themselves MonadIO objects (interface{} constructors): Just(obj) yields the object, runs nothing of it;
	// a continuation receives the object; ObserveOn on Just(obj) configures the new value, not obj
	monadValued := 0
	rawI := func(t *c11Tree, script string) {
		emit("i" + same + " " + t.String() + ": " + script)
		count++
		monadValued++
	}
	jm := func(id int, x *c11Tree) *c11Tree { return &c11Tree{kind: "JM", a: id, kids: []*c11Tree{x}} }
	inner := []*c11Tree{c11Leaf("N", 2), c11Leaf("J", 7), {kind: "FL", c: 3, kids: []*c11Tree{c11Leaf("N", 4), c11Leaf("W", 5)}},
		{kind: "O", h: 1, kids: []*c11Tree{c11Leaf("N", 6)}}, jm(9, c11Leaf("N", 8))}
	for ii, x := range inner {
		id := 1 + ii
		shapes := []*c11Tree{
			jm(id, x),
			{kind: "FL", c: 1, kids: []*c11Tree{jm(id, x), c11Leaf("V", 1)}},                                   // Just(obj).FlatMap(f): f gets the object
			{kind: "FL", c: 1, kids: []*c11Tree{jm(id, x), {kind: "FL", c: 2, kids: []*c11Tree{c11Leaf("N", 1), c11Leaf("V", 0)}}}},
			{kind: "A", a: 1000 + id, c: 1, kids: []*c11Tree{c11Leaf("V", 1)}},                                    // f(obj code): the other side of left identity
			{kind: "FL", c: 1, kids: []*c11Tree{c11Leaf("N", 1), jm(id, x)}},                                    // a continuation returns Just(obj)
			{kind: "FC", c: 2, kids: []*c11Tree{c11Leaf("N", 1), jm(id, x), {kind: "FL", c: 3, kids: []*c11Tree{jm(id+10, x), c11Leaf("W", 2)}}}},
			{kind: "FR", kids: []*c11Tree{jm(id, x)}},
			{kind: "S", h: 2, kids: []*c11Tree{{kind: "O", h: 1, kids: []*c11Tree{jm(id, x)}}}},
		}
		for _, t := range shapes {
			for _, sc := range []string{"e ; e", "s", "o1 ; u2 ; s ; e", "y ; e", "z ; b", "D 1 11 V 2 ; D 2 12 W 3 ; r 1 ; e ; r 2 ; e ; r 0 ; e"} {
				rawI(t, sc)
			}
		}
	}
	// DAG-shaped: several objects derived from the SAME base object (a FlatMap chain of depth d), used in every order;
	// each must behave as its own composition, the base must be unchanged
	dag := 0
	maxChain := 9
	if tier == "thorough" {
		maxChain = 20
	}
	conts := []string{"11 V 1", "12 W 5", "13 FL 7 N 3 V 2", "14 J 9", "15 FC 8 V 0 N 4 W 6"}
	for d := 0; d <= maxChain; d++ {
		for variant := 0; variant < 3; variant++ {
			base := c11Leaf("N", 1)
			if variant == 1 {
				base = c11Leaf("J", 4)
			}
			for i := 0; i < d; i++ {
				body := c11Leaf("V", 1+i%3)
				if variant == 2 && i%2 == 0 {
					body = c11Leaf("W", i%9)
				}
				base = &c11Tree{kind: "FL", c: i % 9, kids: []*c11Tree{base, body}}
			}
			k := func(i int) string { return conts[(i+variant+d)%len(conts)] }
			for _, sc := range []string{
				"D 1 " + k(0) + " ; D 2 " + k(1) + " ; r 2 ; e ; r 1 ; e ; r 0 ; e",
				"D 1 " + k(0) + " ; D 2 " + k(1) + " ; D 3 " + k(2) + " ; r 1 ; e ; r 3 ; s ; r 2 ; o1 ; u2 ; s ; r 1 ; e ; r 0 ; s",
				"D 1 " + k(0) + " ; r 1 ; e ; r 0 ; D 2 " + k(1) + " ; r 1 ; e ; r 2 ; e ; r 1 ; o3 ; u3 ; s",
				"D 1 " + k(0) + " ; r 1 ; D 2 " + k(1) + " ; r 0 ; D 3 " + k(2) + " ; r 2 ; e ; r 3 ; e ; r 1 ; e ; r 0 ; e",
				"D 1 " + k(3) + " ; D 2 " + k(4) + " ; r 1 ; y ; r 2 ; o2 ; u1 ; s ; r 1 ; e",
			} {
				raw(base, sc)
				dag++
			}
		}
	}
	branch := func(cs []int, tail string) string {
		var ops []string
		curReg := 0
		for _, c := range cs {
			nxt := 1 + curReg%2 // alternate registers 1 and 2 for the value that goes on; register 3 takes the dropped sibling
			ops = append(ops, fmt.Sprintf("D %d %d V 1", nxt, c), fmt.Sprintf("D 3 %d W 7", c+500), fmt.Sprintf("r %d", nxt))
			curReg = nxt
		}
		return strings.Join(ops, " ; ") + " ; " + tail
	}
	for n := 1; n <= 3; n++ {
		for _, t := range c11Trees(n, memo) {
			if c11InnerHandler(t, false) {
				continue
			}
			for _, sc := range []string{branch([]int{1}, "e"), branch([]int{1, 2, 3, 4}, "e ; e"), branch([]int{1, 2, 3, 4, 5, 6, 7, 8, 9}, "e"),
				branch([]int{1, 2, 3}, "o1 ; u2 ; s") + " ; " + branch([]int{4, 5}, "o0 ; u0 ; s ; e"),
				branch([]int{3, 2}, "e") + " ; " + branch([]int{1, 1}, "e") + " ; " + branch([]int{4, 5, 6}, "o0 ; u2 ; s")} {
				raw(t, sc)
				dag++
			}
		}
	}
	nDagRandom := nRandom / 5
	for i := 0; i < nDagRandom; i++ {
		base := c11Random(rng, 1+rng.Intn(4))
		var ops []string
		have := []int{0}
		cur := 0
		for n := 3 + rng.Intn(8); n > 0; n-- {
			switch r := rng.Intn(10); {
			case r < 3:
				j := 1 + rng.Intn(3)
				ops = append(ops, fmt.Sprintf("D %d %d %s", j, 10+rng.Intn(9), c11Random(rng, 1+rng.Intn(3)).String()))
				seenj := false
				for _, x := range have {
					seenj = seenj || x == j
				}
				if !seenj {
					have = append(have, j)
				}
			case r < 6:
				cur = have[rng.Intn(len(have))]
				ops = append(ops, "r "+strconv.Itoa(cur))
			case r < 8:
				ops = append(ops, "e")
			default:
				pair := [][2]string{{"o0", "u0"}, {"o1", "u2"}, {"o2", "u0"}, {"o0", "u1"}, {"o3", "u3"}}[rng.Intn(5)]
				ops = append(ops, pair[0], pair[1], "s")
			}
		}
		raw(base, strings.Join(ops, " ; "))
		dag++
	}
	// a subscription in flight: the effect of a Subscribe is held at a gate on its ObserveOn handler while the SAME object is
	// re-configured / evaluated / yielded from; then the gate opens.  The delivery must use the pair in force at Subscribe.
	// (the G leaf is always the last thing of the chain that logs: what runs after the gate is only the delivery)
	gated := 0
	gtrees := []*c11Tree{c11Leaf("G", 1),
		{kind: "FL", c: 1, kids: []*c11Tree{c11Leaf("N", 2), c11Leaf("G", 3)}},
		{kind: "S", h: 2, kids: []*c11Tree{{kind: "O", h: 1, kids: []*c11Tree{c11Leaf("G", 1)}}}},
		{kind: "FL", c: 1, kids: []*c11Tree{{kind: "FL", c: 2, kids: []*c11Tree{c11Leaf("W", 4), c11Leaf("N", 5)}}, c11Leaf("G", 6)}},
		{kind: "FC", c: 3, kids: []*c11Tree{c11Leaf("N", 1), c11Leaf("G", 2), c11Leaf("G", 3)}},
		{kind: "A", a: 5, c: 1, kids: []*c11Tree{c11Leaf("G", 2)}},
		{kind: "FR", kids: []*c11Tree{c11Leaf("G", 7)}}}
	nPrefix := 6
	if tier == "thorough" {
		nPrefix = 60
	}
	for i := 0; i < nPrefix; i++ {
		gtrees = append(gtrees, &c11Tree{kind: "FL", c: rng.Intn(9), kids: []*c11Tree{c11Random(rng, 1+rng.Intn(4)), c11Leaf("G", rng.Intn(9))}})
	}
	var late []string
	for ti, gt := range gtrees {
		if c11InnerHandler(gt, false) {
			continue
		}
		for o := 1; o <= 3; o++ {
			for sb := 0; sb <= 3; sb++ {
				if sb == o && o != 3 {
					continue // same unbuffered handler on both sides: cannot complete even without a gate
				}
				var mids []string
				for x := 0; x <= 3; x++ {
					if x != sb && x == o && o != 3 {
						// re-configured to the very handler the subscription is holding: fine for a library that snapshots the pair
						if ti == 0 {
							late = append(late, fmt.Sprintf("o%d ; u%d ; sg ; u%d ; g- ; b", o, sb, x))
						}
					} else if x != sb {
						mids = append(mids, "u"+strconv.Itoa(x))
						mids = append(mids, "u"+strconv.Itoa(x)+" ; o"+strconv.Itoa((o+x)%4))
					}
					if x != o {
						mids = append(mids, "o0 ; u"+strconv.Itoa(x)+" ; s") // a second subscription while the first is in flight
					}
				}
				mids = append(mids, "e", "b")
				for z := 0; z <= 3; z++ {
					if z != o {
						// YieldFromIO re-configures the object itself (SubscribeOn(nil)); whether it does is not part of the
						// property, so where it would matter for the call itself the script resets subOn explicitly first
						pre := ""
						if !(sb == 0 || (sb != o && sb != z)) {
							pre = "u0 ; "
						}
						mids = append(mids, pre+"o"+strconv.Itoa(z)+" ; y")
					}
				}
				for mi, mid := range mids {
					if ti >= 7 && (mi+ti+o+sb)%4 != 0 {
						continue // random-prefix trees: a quarter of the grid each
					}
					tail := " ; b"
					if (mi+o+sb)%2 == 0 {
						tail = " ; o1 ; u2 ; s"
					}
					raw(gt, fmt.Sprintf("o%d ; u%d ; sg ; %s ; g-%s", o, sb, mid, tail))
					gated++
				}
			}
		}
	}
	for _, sc := range late {
		raw(gtrees[0], sc)
		gated++
	}
	// several subscriptions of ONE object in flight at once: the object is subscribed gated (ObserveOn h3, delivering directly) and holds
	// h3; then the SAME object is re-configured to SubscribeOn(h3) and subscribed again 2–3 times: those effects run now (the gate
	// stops only the first arrival), their deliveries wait in h3's mailbox; every subscription must deliver the value of its own
	// evaluation.  (The head tree itself ends in the gate, so no sub-script can leave `sg` without one.)
	for _, base := range []*c11Tree{c11Leaf("G", 1), {kind: "FL", c: 1, kids: []*c11Tree{c11Leaf("N", 2), c11Leaf("G", 3)}},
		{kind: "FC", c: 3, kids: []*c11Tree{c11Leaf("N", 1), c11Leaf("G", 2), c11Leaf("G", 3)}}} {
		for _, mo := range []string{"o0", "o1", "o2"} {
			for _, mid := range []string{"s ; s", "s ; e ; s ; s", "s ; u0 ; y ; u3 ; s", "D 1 11 V 0 ; r 1 ; " + mo + " ; u3 ; s ; r 0 ; s ; r 1 ; s"} {
				if mo != "o0" && strings.Contains(mid, "y") {
					continue
				}
				raw(base, "o3 ; u0 ; sg ; "+mo+" ; u3 ; "+mid+" ; g- ; e")
				gated++
			}
		}
	}
	// continuations that hand back an existing OBJECT: their own source, an ancestor, a sibling
	for _, base := range []*c11Tree{c11Leaf("N", 1), c11Leaf("W", 2), {kind: "FL", c: 1, kids: []*c11Tree{c11Leaf("N", 2), c11Leaf("V", 3)}}, c11Leaf("J", 4)} {
		for _, sc := range []string{
			"X 1 21 0 ; r 1 ; e ; e",                                           // m.FlatMap(_ => m)
			"X 1 21 0 ; r 1 ; X 2 22 1 ; r 2 ; e ; s",                          // … and again on the result (source = a derived object)
			"D 1 11 W 4 ; r 1 ; X 2 22 0 ; r 2 ; e ; r 1 ; e",                  // hands back an ancestor
			"D 1 11 W 4 ; D 2 12 N 5 ; r 1 ; X 3 23 2 ; r 3 ; e ; o1 ; u2 ; s", // hands back a sibling
			"X 1 21 0 ; r 1 ; X 1 22 1 ; r 1 ; e",                              // replaces itself by m'.FlatMap(_ => m')
			"X 1 21 0 ; r 1 ; o1 ; u2 ; s ; y",
		} {
			raw(base, sc)
			dag++
		}
	}
	return map[string]interface{}{
		"exhaustive": false, "directed_law_cases": directed,
		"exhaustive_scope": fmt.Sprintf("all trees with <= %d nodes over {J3,V1,N1,N2,W3,H4,FR,FL,FC,A,O1,S2} x %d scripts", maxNodes, len(c11Scripts)),
		"exhaustive_cases": exhaustive, "random_cases": nRandom, "random_max_depth": depth, "random_depth_hist": depthHist,
		"http_cases": httpCases, "monad_valued_cases": monadValued, "dag_cases": dag, "dag_max_chain_depth": maxChain, "gated_cases": gated, "emitted": count,
	}
}

// 10 s: a case needs well under 1 ms of CPU (about 40 ms with the harness squeezed to 1 % of a core); the deadline only has to tell a
// deadlock (Post to the own unbuffered handler) from a slow machine
func init() { register("C11", &Prop{Gen: c11Gen, Run: c11Run, CaseTimeout: 10 * time.Second}) }
