package main

// C01 — Maybe: one notion of absence, monad laws, total.
//
// Case line:   "<ctor> <ty> <value> <fallback>: <op> ; <op> ; ..."
//   ctor   just = fpgo.Maybe.Just(any(v))   jg = fpgo.JustGenerics[T](v)   ja = fpgo.JustGenerics[any](any(v))
//   ty     static Go type T of v (names below); value/fallback are typed tokens of that type
//   value  nil | b:0|1 | i:<n> i8: i16: i32: i64: u: u8: u16: u32: u64: up: | f32:x<bits> f64:x<bits> | s:x<hex>
//          | st:<k> | sl:nil sl:e sl:<k> | mp:nil mp:<k> | fn:nil fn:<k> | ch:nil ch:<k> | np:<ty> | p(<value>)
//          | pa(<value>) (pointer to an interface{} variable holding <value>)
//          | nd:<k> er:<k> bd:<k> (structs whose pointer type has a nil-tolerant String(), a nil-tolerant Error(),
//            a String() that panics on a nil receiver)
//          | c64:<k> c128:<k> (complex) | ar:<k> ([2]int) | usp:nil usp:<k> (unsafe.Pointer)
//          | just(<value>) | ja(<value>) | jg(<value>) | none          (nested Maybe values)
// The Maybe is built once per case; the ops are MaybeDef methods (plus the additional exported methods of the
// concrete type and the package function CloneTo) executed in the given order, each under recover.
// Observation: one token group per op, joined by " | ".  Pointers are printed as p(<content>) plus an identity
// flag (same = the pointer given to the constructor, fb = the fallback/destination pointer, fresh = neither);
// addresses are never printed.

import (
	"encoding/hex"
	"fmt"
	"math"
	"math/rand"
	"reflect"
	"strconv"
	"strings"
	"time"
	"unsafe"

	fpgo "github.com/TeaEntityLab/fpGo/v2"
)

type c01S struct{ K int }

// struct types whose POINTER type has methods fmt calls (even on a nil receiver)
type c01Node struct{ K int } // nil-tolerant String()
type c01Err struct{ K int }  // nil-tolerant Error()
type c01Bad struct{ K int }  // String() dereferences its receiver (panics on nil; fmt recovers and prints <nil>)

func (n *c01Node) String() string {
	if n == nil {
		return "[]"
	}
	return "[" + strconv.Itoa(n.K) + "]"
}

func (e *c01Err) Error() string {
	if e == nil {
		return "no error"
	}
	return "err" + strconv.Itoa(e.K)
}

func (b *c01Bad) String() string { return "bad" + strconv.Itoa(b.K) }

type c01Cell struct{ K int } // target of the non-nil unsafe.Pointer values

type c01Ty struct {
	name  string
	typ   reflect.Type
	typed interface{}                                       // *c01Typed[T]
	box   func(tok string) interface{}                      // any(parse(tok))
	mkJG  func(tok string) interface{}                      // any(JustGenerics[T](parse(tok)))
	run   func(ctor, vtok, fbtok string, ops []string) []string
}

type c01Typed[T any] struct{ parse func(tok string) T }

var c01Types = map[string]*c01Ty{}
var c01TypeNames = map[reflect.Type]string{}

func c01Reg[T any](name string, parse func(tok string) T) {
	t := &c01Ty{name: name, typ: reflect.TypeOf((*T)(nil)).Elem(), typed: &c01Typed[T]{parse}}
	t.box = func(tok string) interface{} { return interface{}(parse(tok)) }
	t.mkJG = func(tok string) interface{} { return interface{}(fpgo.JustGenerics[T](parse(tok))) }
	t.run = func(ctor, vtok, fbtok string, ops []string) []string {
		v := parse(vtok)
		switch ctor {
		case "jg":
			return c01Observe[T](func() fpgo.MaybeDef[T] { return fpgo.JustGenerics[T](v) }, v, func() T { return parse(fbtok) }, ops)
		case "just":
			return c01Observe[interface{}](func() fpgo.MaybeDef[interface{}] { return fpgo.Maybe.Just(interface{}(v)) }, interface{}(v),
				func() interface{} { return interface{}(parse(fbtok)) }, ops)
		case "ja":
			return c01Observe[interface{}](func() fpgo.MaybeDef[interface{}] { return fpgo.JustGenerics[interface{}](interface{}(v)) }, interface{}(v),
				func() interface{} { return interface{}(parse(fbtok)) }, ops)
		}
		return []string{"bad-ctor"}
	}
	c01Types[name] = t
	c01TypeNames[t.typ] = name
	var zero T
	c01TypeNames[reflect.TypeOf(fpgo.JustGenerics[T](zero))] = "some:" + name
}

func c01RegPtr[E any](elem string) {
	et := c01Types[elem].typed.(*c01Typed[E])
	c01Reg[*E]("p:"+elem, func(tok string) *E {
		if strings.HasPrefix(tok, "p(") && strings.HasSuffix(tok, ")") {
			e := et.parse(tok[2 : len(tok)-1])
			return &e
		}
		return nil // np:<elem>
	})
}

func c01Int(tok string) int64   { n, _ := strconv.ParseInt(tok[strings.Index(tok, ":")+1:], 10, 64); return n }
func c01Uint(tok string) uint64 { n, _ := strconv.ParseUint(tok[strings.Index(tok, ":")+1:], 10, 64); return n }
func c01Bits(tok string) uint64 { n, _ := strconv.ParseUint(tok[strings.Index(tok, ":")+2:], 16, 64); return n }

// c01TokTy: the static type name of a value token
func c01TokTy(tok string) string {
	switch {
	case tok == "nil":
		return "any"
	case tok == "none" || strings.HasPrefix(tok, "just(") || strings.HasPrefix(tok, "ja("):
		return "M:any"
	case strings.HasPrefix(tok, "jg("):
		return "M:" + c01TokTy(tok[3:len(tok)-1])
	case strings.HasPrefix(tok, "pa("):
		return "p:any"
	case strings.HasPrefix(tok, "p("):
		return "p:" + c01TokTy(tok[2:len(tok)-1])
	case strings.HasPrefix(tok, "np:"):
		return "p:" + tok[3:]
	}
	return tok[:strings.Index(tok, ":")]
}

// c01Box: a value token as interface{} (dynamic type = the token's own type)
func c01Box(tok string) interface{} {
	switch {
	case tok == "nil":
		return nil
	case tok == "none":
		return fpgo.None
	case strings.HasPrefix(tok, "just("):
		return fpgo.Maybe.Just(c01Box(tok[5 : len(tok)-1]))
	case strings.HasPrefix(tok, "ja("):
		return fpgo.JustGenerics[interface{}](c01Box(tok[3 : len(tok)-1]))
	case strings.HasPrefix(tok, "jg("):
		in := tok[3 : len(tok)-1]
		return c01Types[c01TokTy(in)].mkJG(in)
	}
	return c01Types[c01TokTy(tok)].box(tok)
}

func c01ParseMaybeAny(tok string) fpgo.MaybeDef[interface{}] {
	if tok == "nil" {
		return nil
	}
	return c01Box(tok).(fpgo.MaybeDef[interface{}])
}

func init() {
	c01Reg[bool]("b", func(t string) bool { return t == "b:1" })
	c01Reg[int]("i", func(t string) int { return int(c01Int(t)) })
	c01Reg[int8]("i8", func(t string) int8 { return int8(c01Int(t)) })
	c01Reg[int16]("i16", func(t string) int16 { return int16(c01Int(t)) })
	c01Reg[int32]("i32", func(t string) int32 { return int32(c01Int(t)) })
	c01Reg[int64]("i64", func(t string) int64 { return c01Int(t) })
	c01Reg[uint]("u", func(t string) uint { return uint(c01Uint(t)) })
	c01Reg[uint8]("u8", func(t string) uint8 { return uint8(c01Uint(t)) })
	c01Reg[uint16]("u16", func(t string) uint16 { return uint16(c01Uint(t)) })
	c01Reg[uint32]("u32", func(t string) uint32 { return uint32(c01Uint(t)) })
	c01Reg[uint64]("u64", func(t string) uint64 { return c01Uint(t) })
	c01Reg[uintptr]("up", func(t string) uintptr { return uintptr(c01Uint(t)) })
	c01Reg[float32]("f32", func(t string) float32 { return math.Float32frombits(uint32(c01Bits(t))) })
	c01Reg[float64]("f64", func(t string) float64 { return math.Float64frombits(c01Bits(t)) })
	c01Reg[string]("s", func(t string) string { b, _ := hex.DecodeString(t[3:]); return string(b) })
	c01Reg[c01S]("st", func(t string) c01S { return c01S{int(c01Int(t))} })
	c01Reg[c01Node]("nd", func(t string) c01Node { return c01Node{int(c01Int(t))} })
	c01Reg[c01Err]("er", func(t string) c01Err { return c01Err{int(c01Int(t))} })
	c01Reg[c01Bad]("bd", func(t string) c01Bad { return c01Bad{int(c01Int(t))} })
	c01Reg[complex64]("c64", func(t string) complex64 { return complex(float32(c01Int(t)), 1) })
	c01Reg[complex128]("c128", func(t string) complex128 { return complex(float64(c01Int(t)), 1) })
	c01Reg[[2]int]("ar", func(t string) [2]int { k := int(c01Int(t)); return [2]int{k, k + 1} })
	c01Reg[unsafe.Pointer]("usp", func(t string) unsafe.Pointer {
		if t == "usp:nil" {
			return nil
		}
		c := &c01Cell{K: int(c01Int(t))}
		return unsafe.Pointer(c)
	})
	c01Reg[[]int]("sl", func(t string) []int {
		switch t {
		case "sl:nil":
			return nil
		case "sl:e":
			return []int{}
		}
		k := int(c01Int(t))
		return []int{k, k + 1}
	})
	c01Reg[map[string]int]("mp", func(t string) map[string]int {
		if t == "mp:nil" {
			return nil
		}
		return map[string]int{"k": int(c01Int(t))}
	})
	c01Reg[func() int]("fn", func(t string) func() int {
		if t == "fn:nil" {
			return nil
		}
		k := int(c01Int(t))
		return func() int { return k }
	})
	c01Reg[chan int]("ch", func(t string) chan int {
		if t == "ch:nil" {
			return nil
		}
		return make(chan int, int(c01Int(t)))
	})
	c01Reg[interface{}]("any", c01Box)
	c01Reg[fpgo.MaybeDef[interface{}]]("M:any", c01ParseMaybeAny)
	c01Reg[fpgo.MaybeDef[int]]("M:i", func(t string) fpgo.MaybeDef[int] {
		if t == "nil" {
			return nil
		}
		return c01Box(t).(fpgo.MaybeDef[int])
	})
	c01Reg[*interface{}]("p:any", func(t string) *interface{} {
		if strings.HasPrefix(t, "pa(") {
			x := c01Box(t[3 : len(t)-1])
			return &x
		}
		return nil // np:any
	})
	c01RegPtr[*interface{}]("p:any")
	c01RegPtr[int]("i")
	c01RegPtr[bool]("b")
	c01RegPtr[string]("s")
	c01RegPtr[float64]("f64")
	c01RegPtr[c01S]("st")
	c01RegPtr[c01Node]("nd")
	c01RegPtr[c01Err]("er")
	c01RegPtr[c01Bad]("bd")
	c01RegPtr[*c01Node]("p:nd")
	c01RegPtr[[2]int]("ar")
	c01RegPtr[[]int]("sl")
	c01RegPtr[map[string]int]("mp")
	c01RegPtr[*int]("p:i")
	c01RegPtr[*c01S]("p:st")
	c01RegPtr[**int]("p:p:i")
	c01TypeNames[reflect.TypeOf(fpgo.None)] = "noneDef"
	register("C01", &Prop{Gen: c01Gen, Run: c01Run, CaseTimeout: 5 * time.Second})
}

// ---------------------------------------------------------------------------------------------
// canonical rendering

func c01TyName(t reflect.Type) string {
	if t == nil {
		return "nil"
	}
	if n, ok := c01TypeNames[t]; ok {
		return n
	}
	if t.Kind() == reflect.Ptr {
		return "p:" + c01TyName(t.Elem())
	}
	return "?" + strings.ReplaceAll(t.String(), " ", "")
}

func c01IsMaybe(rv reflect.Value) bool {
	if !rv.IsValid() || rv.Kind() != reflect.Struct {
		return false
	}
	return rv.MethodByName("IsPresent").IsValid() && rv.MethodByName("Unwrap").IsValid() && rv.MethodByName("IsNil").IsValid()
}

func c01B(b bool) string {
	if b {
		return "t"
	}
	return "f"
}

func c01RenderMaybe(rv reflect.Value) string {
	tn := c01TyName(rv.Type())
	isNil := rv.MethodByName("IsNil").Call(nil)[0].Bool()
	isPres := rv.MethodByName("IsPresent").Call(nil)[0].Bool()
	ref := rv.MethodByName("Unwrap").Call(nil)[0]
	var refI interface{}
	if ref.IsValid() {
		refI = ref.Interface()
	}
	if tn == "noneDef" {
		if isNil && !isPres && refI == nil {
			return "None"
		}
		tn = "noneDef?"
	}
	return "M[" + strings.TrimPrefix(tn, "some:") + "](" + c01B(isNil) + c01B(isPres) + " " + c01Render(refI) + ")"
}

func c01Render(v interface{}) string {
	if v == nil {
		return "nil"
	}
	switch x := v.(type) {
	case bool:
		if x {
			return "b:1"
		}
		return "b:0"
	case int:
		return "i:" + strconv.FormatInt(int64(x), 10)
	case int8:
		return "i8:" + strconv.FormatInt(int64(x), 10)
	case int16:
		return "i16:" + strconv.FormatInt(int64(x), 10)
	case int32:
		return "i32:" + strconv.FormatInt(int64(x), 10)
	case int64:
		return "i64:" + strconv.FormatInt(x, 10)
	case uint:
		return "u:" + strconv.FormatUint(uint64(x), 10)
	case uint8:
		return "u8:" + strconv.FormatUint(uint64(x), 10)
	case uint16:
		return "u16:" + strconv.FormatUint(uint64(x), 10)
	case uint32:
		return "u32:" + strconv.FormatUint(uint64(x), 10)
	case uint64:
		return "u64:" + strconv.FormatUint(x, 10)
	case uintptr:
		return "up:" + strconv.FormatUint(uint64(x), 10)
	case float32:
		return fmt.Sprintf("f32:x%08x", math.Float32bits(x))
	case float64:
		return fmt.Sprintf("f64:x%016x", math.Float64bits(x))
	case string:
		return "s:x" + hex.EncodeToString([]byte(x))
	case c01S:
		return "st:" + strconv.Itoa(x.K)
	case c01Node:
		return "nd:" + strconv.Itoa(x.K)
	case c01Err:
		return "er:" + strconv.Itoa(x.K)
	case c01Bad:
		return "bd:" + strconv.Itoa(x.K)
	case complex64:
		return "c64:" + strconv.Itoa(int(real(x)))
	case complex128:
		return "c128:" + strconv.Itoa(int(real(x)))
	case [2]int:
		return "ar:" + strconv.Itoa(x[0])
	case unsafe.Pointer:
		if x == nil {
			return "usp:nil"
		}
		return "usp:" + strconv.Itoa((*c01Cell)(x).K)
	case []int:
		if x == nil {
			return "sl:nil"
		}
		if len(x) == 0 {
			return "sl:e"
		}
		return "sl:" + strconv.Itoa(x[0])
	case map[string]int:
		if x == nil {
			return "mp:nil"
		}
		return "mp:" + strconv.Itoa(x["k"])
	case func() int:
		if x == nil {
			return "fn:nil"
		}
		return "fn:" + strconv.Itoa(x())
	case chan int:
		if x == nil {
			return "ch:nil"
		}
		return "ch:" + strconv.Itoa(cap(x))
	}
	rv := reflect.ValueOf(v)
	if rv.Kind() == reflect.Ptr {
		if rv.IsNil() {
			return "np:" + c01TyName(rv.Type().Elem())
		}
		e := rv.Elem()
		if e.Kind() == reflect.Interface && e.IsNil() {
			return "p(nil)"
		}
		return "p(" + c01Render(e.Interface()) + ")"
	}
	if c01IsMaybe(rv) {
		return c01RenderMaybe(rv)
	}
	return "?" + c01TyName(rv.Type())
}

// identity of a pointer result relative to the constructor argument v and the fallback / destination fb
func c01Ident(res, v, fb interface{}) string {
	r := reflect.ValueOf(res)
	if !r.IsValid() || r.Kind() != reflect.Ptr || r.IsNil() {
		return "-"
	}
	same := func(o interface{}) bool {
		ov := reflect.ValueOf(o)
		return ov.IsValid() && ov.Kind() == reflect.Ptr && !ov.IsNil() && ov.Pointer() == r.Pointer() && ov.Type() == r.Type()
	}
	if same(v) {
		return "same"
	}
	if same(fb) {
		return "fb"
	}
	return "fresh"
}

func c01MaybeIdent(m interface{}, v, fb interface{}) string {
	rv := reflect.ValueOf(m)
	if !c01IsMaybe(rv) {
		return "-"
	}
	ref := rv.MethodByName("Unwrap").Call(nil)[0]
	if !ref.IsValid() || (ref.Kind() == reflect.Interface && ref.IsNil()) {
		return "-"
	}
	return c01Ident(ref.Interface(), v, fb)
}

func c01ShowMaybe(m interface{}, v, fb interface{}) string {
	if m == nil {
		return "nilMaybe"
	}
	return c01Render(m) + " " + c01MaybeIdent(m, v, fb)
}

// is ToString's output for this value modelled exactly?  (fmt's %v of floats and of addresses is not)
func c01Exact(tok string, depth int) bool {
	switch {
	case tok == "nil" || tok == "none":
		return true
	case strings.HasPrefix(tok, "np:"):
		return true
	case strings.HasPrefix(tok, "just(") || strings.HasPrefix(tok, "ja(") || strings.HasPrefix(tok, "jg("):
		in := tok[strings.Index(tok, "(")+1 : len(tok)-1]
		return c01Exact(in, depth+1)
	case strings.HasPrefix(tok, "pa("):
		return false
	case strings.HasPrefix(tok, "p("):
		in := tok[2 : len(tok)-1]
		if depth > 0 {
			return false
		}
		return strings.HasPrefix(in, "st:") || strings.HasPrefix(in, "sl:") || strings.HasPrefix(in, "mp:") || strings.HasPrefix(in, "ar:") ||
			strings.HasPrefix(in, "nd:") || strings.HasPrefix(in, "er:") || strings.HasPrefix(in, "bd:")
	case strings.HasPrefix(tok, "f32:") || strings.HasPrefix(tok, "f64:") || strings.HasPrefix(tok, "c64:") || strings.HasPrefix(tok, "c128:"):
		return false
	case strings.HasPrefix(tok, "fn:") || strings.HasPrefix(tok, "ch:") || strings.HasPrefix(tok, "usp:"):
		return strings.HasSuffix(tok, ":nil")
	}
	return true
}

type c01Extra interface {
	ToInt8() (int8, error)
	ToInt16() (int16, error)
	ToByte() (byte, error)
	ToUint() (uint, error)
	ToUint8() (uint8, error)
	ToUint16() (uint16, error)
	ToUint32() (uint32, error)
	ToUint64() (uint64, error)
	ToUintptr() (uintptr, error)
}

func c01Conv(isZero bool, err error) string {
	if err == fpgo.ErrConversionNil {
		if isZero {
			return "errnil"
		}
		return "errnil-nonzero"
	}
	return "other"
}

var c01KindByName = map[string]reflect.Kind{}

func init() {
	for k := reflect.Invalid; k <= reflect.UnsafePointer; k++ {
		c01KindByName[k.String()] = k
	}
}

type c01Env[T any] struct {
	m    fpgo.MaybeDef[T]
	v    T
	vtok string
	mkfb func() T
	fb   T
}

func c01FlatFn[T any](e *c01Env[T], name string, calls *int, args *[]string) func(T) fpgo.MaybeDef[T] {
	rec := func(x T) {
		*calls++
		*args = append(*args, c01Render(interface{}(x))+" "+c01Ident(interface{}(x), interface{}(e.v), interface{}(e.fb)))
	}
	switch name {
	case "ret":
		return func(x T) fpgo.MaybeDef[T] { rec(x); return fpgo.JustGenerics[T](x) }
	case "k":
		return func(x T) fpgo.MaybeDef[T] { rec(x); return fpgo.JustGenerics[T](e.fb) }
	case "just":
		return func(x T) fpgo.MaybeDef[T] {
			rec(x)
			return interface{}(fpgo.Maybe.Just(interface{}(x))).(fpgo.MaybeDef[T])
		}
	case "none":
		return func(x T) fpgo.MaybeDef[T] { rec(x); return interface{}(fpgo.None).(fpgo.MaybeDef[T]) }
	case "nest":
		return func(x T) fpgo.MaybeDef[T] {
			rec(x)
			return interface{}(fpgo.Maybe.Just(fpgo.Maybe.Just(interface{}(x)))).(fpgo.MaybeDef[T])
		}
	}
	return nil
}

func c01Op[T any](e *c01Env[T], op string) (out string) {
	defer func() {
		if r := recover(); r != nil {
			out = "panic"
		}
	}()
	m := e.m
	va, fba := interface{}(e.v), interface{}(e.fb)
	name, arg := op, ""
	if i := strings.Index(op, ":"); i >= 0 {
		name, arg = op[:i], op[i+1:]
	}
	switch name {
	case "IsNil":
		return c01B(m.IsNil())
	case "IsPresent":
		return c01B(m.IsPresent())
	case "IsValid":
		return c01B(m.IsValid())
	case "IsPtr":
		return c01B(m.IsPtr())
	case "Kind":
		return "K:" + m.Kind().String()
	case "Type":
		return "T:" + c01TyName(m.Type())
	case "IsType":
		var t reflect.Type
		switch arg {
		case "own":
			t = reflect.TypeOf(va)
		case "nil":
			t = nil
		default:
			ty := c01Types[arg]
			if ty == nil {
				return "bad-op"
			}
			t = ty.typ
		}
		return c01B(m.IsType(t))
	case "IsKind":
		if arg == "own" {
			return c01B(m.IsKind(reflect.ValueOf(va).Kind()))
		}
		k, ok := c01KindByName[arg]
		if !ok {
			return "bad-op"
		}
		return c01B(m.IsKind(k))
	case "Or":
		r := interface{}(m.Or(e.fb))
		return c01Render(r) + " " + c01Ident(r, va, fba)
	case "Let":
		n := 0
		m.Let(func() { n++ })
		return "n=" + strconv.Itoa(n)
	case "Unwrap":
		r := interface{}(m.Unwrap())
		return c01Render(r) + " " + c01Ident(r, va, fba)
	case "UnwrapInterface":
		r := m.UnwrapInterface()
		return c01Render(r) + " " + c01Ident(r, va, fba)
	case "ToString":
		s := m.ToString()
		if c01Exact(e.vtok, 0) {
			return "S:" + hex.EncodeToString([]byte(s))
		}
		return "S:*"
	case "ToPtr":
		p := m.ToPtr()
		if p == nil {
			return "nilptr"
		}
		r := interface{}(*p)
		return "ptr(" + c01Render(r) + ") " + c01Ident(r, va, fba)
	case "ToMaybe":
		return c01ShowMaybe(m.ToMaybe(), va, fba)
	case "Clone":
		return c01ShowMaybe(m.Clone(), va, fba)
	case "CloneTo":
		var dest T
		if arg == "fb" {
			dest = e.mkfb()
		}
		r := fpgo.CloneTo[T](m, dest)
		return c01ShowMaybe(r, va, interface{}(dest)) + " dest=" + c01Render(interface{}(dest))
	case "Just":
		var in interface{}
		switch arg {
		case "v":
			in = va
		case "fb":
			in = fba
		}
		return c01ShowMaybe(m.Just(in), va, fba)
	case "FlatMap":
		calls, args := 0, []string{}
		f := c01FlatFn(e, arg, &calls, &args)
		if f == nil {
			return "bad-op"
		}
		r := m.FlatMap(f)
		return "c=" + strconv.Itoa(calls) + " a=[" + strings.Join(args, ",") + "] r=" + c01ShowMaybe(r, va, fba)
	case "Assoc":
		fg := strings.Split(arg, ":")
		if len(fg) != 2 {
			return "bad-op"
		}
		c1, a1, c2, a2 := 0, []string{}, 0, []string{}
		f, g := c01FlatFn(e, fg[0], &c1, &a1), c01FlatFn(e, fg[1], &c1, &a1)
		f2, g2 := c01FlatFn(e, fg[0], &c2, &a2), c01FlatFn(e, fg[1], &c2, &a2)
		if f == nil || g == nil {
			return "bad-op"
		}
		l := m.FlatMap(f).FlatMap(g)
		r := m.FlatMap(func(x T) fpgo.MaybeDef[T] { return f2(x).FlatMap(g2) })
		return "L=" + c01ShowMaybe(l, va, fba) + " [" + strings.Join(a1, ",") + "] R=" + c01ShowMaybe(r, va, fba) + " [" + strings.Join(a2, ",") + "]"
	case "ToFloat64":
		x, err := m.ToFloat64()
		return c01Conv(x == 0, err)
	case "ToFloat32":
		x, err := m.ToFloat32()
		return c01Conv(x == 0, err)
	case "ToInt":
		x, err := m.ToInt()
		return c01Conv(x == 0, err)
	case "ToInt32":
		x, err := m.ToInt32()
		return c01Conv(x == 0, err)
	case "ToInt64":
		x, err := m.ToInt64()
		return c01Conv(x == 0, err)
	case "ToBool":
		x, err := m.ToBool()
		return c01Conv(!x, err)
	}
	if strings.HasPrefix(name, "To") {
		x, ok := interface{}(m).(c01Extra)
		if !ok {
			return "no-method"
		}
		switch name {
		case "ToInt8":
			y, err := x.ToInt8()
			return c01Conv(y == 0, err)
		case "ToInt16":
			y, err := x.ToInt16()
			return c01Conv(y == 0, err)
		case "ToByte":
			y, err := x.ToByte()
			return c01Conv(y == 0, err)
		case "ToUint":
			y, err := x.ToUint()
			return c01Conv(y == 0, err)
		case "ToUint8":
			y, err := x.ToUint8()
			return c01Conv(y == 0, err)
		case "ToUint16":
			y, err := x.ToUint16()
			return c01Conv(y == 0, err)
		case "ToUint32":
			y, err := x.ToUint32()
			return c01Conv(y == 0, err)
		case "ToUint64":
			y, err := x.ToUint64()
			return c01Conv(y == 0, err)
		case "ToUintptr":
			y, err := x.ToUintptr()
			return c01Conv(y == 0, err)
		}
	}
	return "bad-op"
}

func c01Observe[T any](mk func() fpgo.MaybeDef[T], v T, mkfb func() T, ops []string) (outs []string) {
	e := &c01Env[T]{v: v, mkfb: mkfb, vtok: c01CurTok}
	built := func() (ok bool) {
		defer func() {
			if r := recover(); r != nil {
				ok = false
			}
		}()
		e.m = mk()
		e.fb = mkfb()
		return true
	}()
	for _, op := range ops {
		if !built {
			outs = append(outs, "panic")
			continue
		}
		outs = append(outs, c01Op(e, op))
	}
	return outs
}

func c01Run(line string) string {
	head, body, ok := strings.Cut(line, ": ")
	if !ok {
		return "bad-case"
	}
	h := strings.Fields(head)
	if len(h) != 4 {
		return "bad-case"
	}
	ty := c01Types[h[1]]
	if ty == nil {
		return "bad-type"
	}
	var ops []string
	for _, o := range strings.Split(body, ";") {
		if o = strings.TrimSpace(o); o != "" {
			ops = append(ops, o)
		}
	}
	// the env needs the value token for ToString's exactness rule
	c01CurTok = h[2]
	return strings.Join(ty.run(h[0], h[2], h[3], ops), " | ")
}

var c01CurTok string

// ---------------------------------------------------------------------------------------------
// generator

var c01ConvOps = []string{"ToFloat64", "ToFloat32", "ToInt", "ToInt8", "ToInt16", "ToInt32", "ToInt64", "ToByte", "ToUint", "ToUint8",
	"ToUint16", "ToUint32", "ToUint64", "ToUintptr", "ToBool"}

func c01Ops(ctor, ty string) []string {
	ops := []string{"IsNil", "IsPresent", "IsValid", "IsPtr", "Kind", "Type", "IsType:own", "IsType:nil", "IsType:i", "IsType:p:i", "IsKind:own",
		"IsKind:invalid", "IsKind:ptr", "IsKind:int", "IsKind:struct", "Or", "Let", "Unwrap", "UnwrapInterface", "ToString", "ToPtr", "ToMaybe",
		"Clone", "CloneTo:zero", "CloneTo:fb", "Just:v", "Just:fb", "Just:nil", "FlatMap:ret", "FlatMap:k", "Assoc:ret:k", "Assoc:k:ret", "Assoc:ret:ret"}
	if ctor != "jg" || ty == "any" {
		ops = append(ops, "FlatMap:just", "FlatMap:none", "FlatMap:nest", "Assoc:just:nest", "Assoc:nest:just", "Assoc:none:ret", "Assoc:just:none")
	}
	return append(ops, c01ConvOps...)
}

var c01Strings = []string{"", "<nil>", "1", "0", "true", "abc", "1.5", "-7", "nil", "300", "1e3"}

func c01RandVals(ty string, rng *rand.Rand, n int) []string {
	h := func(s string) string { return "s:x" + hex.EncodeToString([]byte(s)) }
	ri := func(bits uint, signed bool) string {
		var lo, hi int64
		if signed {
			lo, hi = -(1 << (bits - 1)), (1<<(bits-1))-1
		} else {
			lo, hi = 0, (1<<bits)-1
			if bits >= 63 {
				hi = math.MaxInt64
			}
		}
		switch rng.Intn(6) {
		case 0:
			return strconv.FormatInt(lo, 10)
		case 1:
			return strconv.FormatInt(hi, 10)
		case 2:
			return strconv.FormatInt(int64(rng.Intn(3)), 10)
		}
		if signed {
			x := rng.Int63()
			if bits < 64 {
				x = x % (hi + 1)
			}
			if rng.Intn(2) == 0 {
				x = -x
			}
			return strconv.FormatInt(x, 10)
		}
		if bits >= 64 {
			return strconv.FormatUint(rng.Uint64(), 10)
		}
		return strconv.FormatInt(rng.Int63()%(hi+1), 10)
	}
	var out []string
	add := func(s ...string) { out = append(out, s...) }
	small := func() string { return strconv.Itoa(rng.Intn(9)) }
	switch ty {
	case "b":
		add("b:0", "b:1")
	case "i", "i64":
		add(ty+":0", ty+":1")
		for i := 0; i < n; i++ {
			add(ty + ":" + ri(64, true))
		}
	case "i8", "i16", "i32":
		bits := map[string]uint{"i8": 8, "i16": 16, "i32": 32}[ty]
		add(ty+":0", ty+":-1")
		for i := 0; i < n; i++ {
			add(ty + ":" + ri(bits, true))
		}
	case "u", "u64", "up":
		add(ty+":0", ty+":1", ty+":18446744073709551615")
		for i := 0; i < n; i++ {
			add(ty + ":" + ri(64, false))
		}
	case "u8", "u16", "u32":
		bits := map[string]uint{"u8": 8, "u16": 16, "u32": 32}[ty]
		add(ty+":0", ty+":1")
		for i := 0; i < n; i++ {
			add(ty + ":" + ri(bits, false))
		}
	case "f32":
		add("f32:x00000000", "f32:x80000000", "f32:x7fc00000", "f32:x7f800000", "f32:x3f800000")
		for i := 0; i < n; i++ {
			add(fmt.Sprintf("f32:x%08x", rng.Uint32()))
		}
	case "f64":
		add("f64:x0000000000000000", "f64:x8000000000000000", "f64:x7ff8000000000001", "f64:xfff0000000000000", "f64:x3ff0000000000000")
		for i := 0; i < n; i++ {
			add(fmt.Sprintf("f64:x%016x", rng.Uint64()))
		}
	case "s":
		for _, s := range c01Strings {
			add(h(s))
		}
		for i := 0; i < n; i++ {
			b := make([]byte, rng.Intn(6))
			for j := range b {
				b[j] = byte(32 + rng.Intn(95))
			}
			add(h(string(b)))
		}
	case "st", "nd", "er", "bd":
		add(ty+":0", ty+":"+small())
	case "c64", "c128", "ar":
		add(ty+":0", ty+":"+small())
	case "usp":
		add("usp:nil", "usp:"+small())
	case "sl":
		add("sl:nil", "sl:e", "sl:"+small())
	case "mp":
		add("mp:nil", "mp:"+small())
	case "fn":
		add("fn:nil", "fn:"+small())
	case "ch":
		add("ch:nil", "ch:"+small())
	}
	return out
}

// c01Zoo: value tokens per static type
func c01Zoo(rng *rand.Rand, n int) map[string][]string {
	zoo := map[string][]string{}
	base := []string{"b", "i", "i8", "i16", "i32", "i64", "u", "u8", "u16", "u32", "u64", "up", "f32", "f64", "s", "st", "sl", "mp", "fn", "ch", "c64", "c128", "ar", "usp", "nd", "er", "bd"}
	for _, t := range base {
		zoo[t] = c01RandVals(t, rng, n)
	}
	pick := func(t string) string { v := zoo[t]; return v[rng.Intn(len(v))] }
	for _, e := range []string{"i", "b", "s", "f64", "st", "sl", "mp", "ar", "nd", "er", "bd"} {
		zoo["p:"+e] = []string{"np:" + e, "p(" + zoo[e][0] + ")", "p(" + pick(e) + ")", "p(" + pick(e) + ")"}
	}
	zoo["p:any"] = []string{"np:any", "pa(nil)", "pa(" + pick("i") + ")", "pa(np:i)", "pa(" + pick("st") + ")", "pa(just(i:1))", "pa(p(i:2))"}
	zoo["p:p:any"] = []string{"np:p:any", "p(np:any)", "p(pa(nil))", "p(pa(" + pick("s") + "))"}
	zoo["p:p:i"] = []string{"np:p:i", "p(np:i)", "p(p(" + pick("i") + "))"}
	zoo["p:p:nd"] = []string{"np:p:nd", "p(np:nd)", "p(p(" + pick("nd") + "))"}
	zoo["p:p:st"] = []string{"np:p:st", "p(np:st)", "p(p(" + pick("st") + "))"}
	zoo["p:p:p:i"] = []string{"np:p:p:i", "p(np:p:i)", "p(p(np:i))", "p(p(p(" + pick("i") + ")))"}
	// nested Maybe values, depth 1..3, over a mix of inner values (absent and present ones)
	inner := []string{"nil", "np:i", "i:0", pick("i"), pick("s"), "p(" + pick("i") + ")", "p(np:i)", pick("st"), "sl:nil", "mp:nil", "fn:nil", "ch:nil", pick("f64"), "b:0", "usp:nil", pick("ar"), "np:nd", "np:er", "np:bd", "p(" + pick("nd") + ")"}
	var d1, d2, d3 []string
	for _, in := range inner {
		d1 = append(d1, "just("+in+")", "ja("+in+")")
		if in != "nil" {
			d1 = append(d1, "jg("+in+")")
		}
	}
	d1 = append(d1, "none")
	wrap := func(src []string, k int) (res []string) {
		for i := 0; i < k; i++ {
			in := src[rng.Intn(len(src))]
			w := []string{"just(", "ja(", "jg("}[rng.Intn(3)]
			if w == "jg(" && (in == "nil" || c01Types[c01TokTy(in)] == nil) {
				w = "just("
			}
			res = append(res, w+in+")")
		}
		return res
	}
	d2 = append([]string{"just(none)", "ja(none)", "jg(none)", "just(just(i:5))", "ja(ja(nil))", "just(ja(np:i))", "jg(just(i:7))", "just(jg(i:7))"}, wrap(d1, 12+n)...)
	d3 = append([]string{"just(just(just(i:5)))", "just(just(none))", "ja(just(ja(nil)))", "just(jg(jg(i:3)))"}, wrap(d2, 12+n)...)
	for _, tok := range append(append(d1, d2...), d3...) {
		t := c01TokTy(tok)
		if t == "M:any" || t == "M:i" {
			zoo[t] = append(zoo[t], tok)
		} else {
			zoo["boxed"] = append(zoo["boxed"], tok) // only usable through interface{} (just / ja)
		}
	}
	zoo["M:any"] = append(zoo["M:any"], "nil")
	zoo["M:i"] = append(zoo["M:i"], "nil", "jg(i:0)")
	zoo["any"] = []string{"nil"}
	return zoo
}

func c01Gen(tier string, rng *rand.Rand, emit func(string)) map[string]interface{} {
	n, shuffles := 3, 1
	if tier == "thorough" {
		n, shuffles = 40, 3
	}
	zoo := c01Zoo(rng, n)
	var tys []string
	for t := range zoo {
		tys = append(tys, t)
	}
	// deterministic order: plain kinds first, then pointers, then nested Maybes (so that the first reported
	// failing case is the simplest one)
	rank := func(t string) int {
		switch {
		case t == "any":
			return 0
		case t == "boxed":
			return 4
		case strings.HasPrefix(t, "M:"):
			return 3
		case strings.HasPrefix(t, "p:"):
			return 2
		}
		return 1
	}
	for i := range tys {
		for j := i + 1; j < len(tys); j++ {
			if rank(tys[j]) < rank(tys[i]) || (rank(tys[j]) == rank(tys[i]) && tys[j] < tys[i]) {
				tys[i], tys[j] = tys[j], tys[i]
			}
		}
	}
	cells, cases := 0, 0
	perKind := map[string]int{}
	perCtor := map[string]int{}
	absent := 0
	for _, t := range tys {
		vals := zoo[t]
		for vi, v := range vals {
			for _, ctor := range []string{"just", "jg", "ja"} {
				ty := t
				if t == "boxed" {
					if ctor == "jg" {
						continue
					}
					ty = "any"
				}
				if t == "any" && ctor == "ja" {
					// JustGenerics[any](v) with the static type any is exactly `ja`
					continue
				}
				fb := vals[(vi+1+rng.Intn(len(vals)))%len(vals)]
				if t == "boxed" || t == "any" {
					fb = []string{"i:42", "nil", "s:x6662", "np:i"}[rng.Intn(4)]
				}
				if ty == "any" && ctor == "jg" {
					ctor = "ja"
				}
				ops := c01Ops(ctor, ty)
				emit(ctor + " " + ty + " " + v + " " + fb + ": " + strings.Join(ops, " ; "))
				cases++
				cells += len(ops)
				for s := 0; s < shuffles; s++ {
					sh := append([]string{}, ops...)
					rng.Shuffle(len(sh), func(i, j int) { sh[i], sh[j] = sh[j], sh[i] })
					emit(ctor + " " + ty + " " + v + " " + fb + ": " + strings.Join(sh, " ; "))
					cases++
					cells += len(sh)
				}
				perKind[t]++
				perCtor[ctor]++
				if v == "nil" || strings.HasPrefix(v, "np:") {
					absent++
				}
			}
		}
	}
	return map[string]interface{}{
		"exhaustive": false, "scope": "every static type of the zoo x nil/non-nil variants x {Maybe.Just, JustGenerics[T], JustGenerics[any]} x every MaybeDef method (+ the extra To* methods, CloneTo); random payloads; nested Maybe depth 0-3",
		"types": len(tys), "cases": cases, "method_cells": cells, "values_per_type": perKind, "per_constructor": perCtor, "absent_value_cases": absent,
	}
}
