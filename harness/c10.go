package main

// C10 — Publisher: exactly once per live subscription, in order (publisher.go, handler.go).
// Runner for the case lines documented in lean/FpgoVerif/Model/C10.lean:
//   seq/sched:  r:g|i (new root publisher: PublisherNewGenerics[int]() / Publisher.New()) ; s[@q][:script] ; z[@q] (zero-value Subscription, OnNext nil) ; u[@q]:<id> ; p[@q]:<v> ; c[@q] ; m[@q]:<f> ; h[@q] ; go<t>[@q]:<v> ; adv<t> ; fin<t>
//   stress:     k=v parameters (see c10_stress.go)
// Observation: one token per op joined by " | ":  +id | - | n=k | m<q> | h | [q.sid:v ...] (+P<q>.<v> or D for background ops)

import (
	"fmt"
	"strconv"
	"strings"
	"sync"
	"time"

	fpgo "github.com/TeaEntityLab/fpGo/v2"
)

const (
	c10AfterSnapshot  = "publisher.publish.afterSnapshot"
	c10BeforeDelivery = "publisher.publish.beforeDelivery"
	c10Wait           = 10 * time.Second
	c10OpWait         = 3 * time.Second // a Publish / Unsubscribe of the main goroutine that has not returned by then hangs
)

// ---- park controller for the background publisher goroutines -------------------------------------------

type c10Thr struct {
	gid              int64
	parkSnap, parkBD bool
	arrived          chan string // point name, "done" or "panic"
	resume           chan struct{}
}

type c10Ctl struct {
	mu   sync.Mutex
	thrs map[int64]*c10Thr
}

func (c *c10Ctl) Reach(gid int64, point string) {
	c.mu.Lock()
	t := c.thrs[gid]
	park := false
	if t != nil {
		if point == c10AfterSnapshot && t.parkSnap {
			t.parkSnap = false
			park = true
		} else if point == c10BeforeDelivery && t.parkBD {
			park = true
		}
	}
	c.mu.Unlock()
	if park {
		t.arrived <- point
		<-t.resume
	}
}

// ---- world ---------------------------------------------------------------------------------------------

type c10Sub struct {
	id     int
	script []string
	ptr    interface{} // *fpgo.Subscription[int] or *fpgo.Subscription[interface{}]
	hidden bool
}

type c10Pub struct {
	idx        int
	p          c10P
	subs       []*c10Sub
	handler    *fpgo.HandlerDef
	handlerGid int64
}

type c10Ev struct {
	q, sid, v int
	onH       bool
}

type c10World struct {
	mu      sync.Mutex
	pubs    []*c10Pub
	events  []c10Ev
	depth   map[int64][]c10Ev // per goroutine: the publishes initiated by the harness that are active (q, v)
	ctl     *c10Ctl
	threads map[int]*c10Thr
	hung    bool               // an operation did not return: the rest of the case is not executed
	allH    []*fpgo.HandlerDef // every handler created, closed at the end of the case
}

// run f on its own goroutine; ok=false if it has not returned within c10OpWait (reported as `hang`)
func (w *c10World) finishes(f func()) (ok bool, panicked bool) {
	done := make(chan bool, 1)
	go func() {
		defer func() {
			if r := recover(); r != nil {
				done <- true
			}
		}()
		f()
		done <- false
	}()
	select {
	case p := <-done:
		return true, p
	case <-time.After(c10OpWait):
		w.hung = true
		return false, false
	}
}

func (w *c10World) record(e c10Ev) {
	w.mu.Lock()
	w.events = append(w.events, e)
	w.mu.Unlock()
}

func (w *c10World) takeEvents() string {
	w.mu.Lock()
	evs := w.events
	w.events = nil
	w.mu.Unlock()
	// canonical form: direct deliveries in order, then the deliveries run on a handler goroutine in order
	var parts []string
	for _, e := range evs {
		if !e.onH {
			parts = append(parts, fmt.Sprintf("%d.%d:%d", e.q, e.sid, e.v))
		}
	}
	for _, e := range evs {
		if e.onH {
			parts = append(parts, fmt.Sprintf("%d.%d:%dh", e.q, e.sid, e.v))
		}
	}
	return "[" + strings.Join(parts, " ") + "]"
}

func (w *c10World) getDepth(gid int64) int {
	w.mu.Lock()
	defer w.mu.Unlock()
	return len(w.depth[gid])
}

// "P<q>.<v>": the innermost harness-initiated Publish the goroutine is inside
func (w *c10World) parkedAt(gid int64) string {
	w.mu.Lock()
	defer w.mu.Unlock()
	st := w.depth[gid]
	if len(st) == 0 {
		return "P"
	}
	return fmt.Sprintf("P%d.%d", st[len(st)-1].q, st[len(st)-1].v)
}

// publish initiated by the harness (counted in the nesting depth of the calling goroutine)
func (w *c10World) publish(pub *c10Pub, v int) {
	gid := fpgo.VerifGoID()
	w.mu.Lock()
	w.depth[gid] = append(w.depth[gid], c10Ev{q: pub.idx, v: v})
	w.mu.Unlock()
	defer func() {
		w.mu.Lock()
		w.depth[gid] = w.depth[gid][:len(w.depth[gid])-1]
		w.mu.Unlock()
	}()
	pub.p.Publish(v)
}

func (w *c10World) subscribe(pub *c10Pub, script []string) *c10Sub {
	w.mu.Lock()
	s := &c10Sub{id: len(pub.subs) + 1, script: script}
	pub.subs = append(pub.subs, s)
	w.mu.Unlock()
	ptr := pub.p.Subscribe(func(v int) { w.callback(pub, s, v) })
	w.mu.Lock()
	s.ptr = ptr
	w.mu.Unlock()
	return s
}

func (w *c10World) unsubscribe(pub *c10Pub, id int) {
	w.mu.Lock()
	var ptr interface{}
	if id >= 1 && id <= len(pub.subs) && !pub.subs[id-1].hidden {
		ptr = pub.subs[id-1].ptr
	}
	w.mu.Unlock()
	if ptr != nil {
		pub.p.Unsubscribe(ptr)
	}
}

func (w *c10World) callback(pub *c10Pub, s *c10Sub, v int) {
	gid := fpgo.VerifGoID()
	w.mu.Lock()
	onH := pub.handler != nil && gid == pub.handlerGid
	hasHandler := pub.handler != nil
	w.mu.Unlock()
	w.record(c10Ev{pub.idx, s.id, v, onH})
	for j, a := range s.script {
		switch {
		case a == "n":
			w.subscribe(pub, nil)
		case a == "p":
			if w.getDepth(gid) < 3 && !hasHandler {
				w.publish(pub, v*1000+100*j+s.id)
			}
		case strings.HasPrefix(a, "u"):
			d, err := strconv.Atoi(strings.TrimPrefix(a[1:], "+"))
			if err == nil {
				w.unsubscribe(pub, s.id+d)
			}
		}
	}
}

func c10Fn(f string) func(int) int {
	switch f {
	case "a":
		return func(x int) int { return x + 1 }
	case "d":
		return func(x int) int { return 2 * x }
	case "z":
		return func(x int) int { return 0 }
	case "g":
		return func(x int) int { return -x }
	}
	return func(x int) int { return x }
}

// wait until every handler has run everything posted so far (FIFO: a sentinel posted now runs last)
func (w *c10World) drain() bool {
	// a forwarder running on a handler may post further deliveries behind the sentinel: one more round per publisher
	for round := 0; round < len(w.pubs)+1; round++ {
		for _, pub := range w.pubs {
			if pub.handler == nil {
				continue
			}
			done := make(chan struct{})
			go pub.handler.Post(func() { close(done) })
			select {
			case <-done:
			case <-time.After(c10OpWait):
				w.hung = true
				return false
			}
		}
	}
	return true
}

func c10ParseTok(tok string) (name string, q int, arg string) {
	lhs := tok
	if i := strings.Index(tok, ":"); i >= 0 {
		lhs, arg = tok[:i], tok[i+1:]
	}
	if i := strings.Index(lhs, "@"); i >= 0 {
		q, _ = strconv.Atoi(lhs[i+1:])
		lhs = lhs[:i]
	}
	return lhs, q, arg
}

func (w *c10World) waitThr(t *c10Thr) string {
	select {
	case r := <-t.arrived:
		if r == "done" {
			return w.takeEvents() + "D"
		}
		if r == "panic" {
			return "panic"
		}
		return w.takeEvents() + w.parkedAt(t.gid)
	case <-time.After(c10Wait):
		return "hang"
	}
}

func (w *c10World) doOp(tok string) (out string) {
	defer func() {
		if r := recover(); r != nil {
			out = "panic"
		}
	}()
	name, q, arg := c10ParseTok(tok)
	if q < 0 || q >= len(w.pubs) {
		return "bad-op"
	}
	pub := w.pubs[q]
	w.takeEvents()
	switch {
	case name == "s":
		var script []string
		for _, a := range strings.Split(arg, ",") {
			if a != "" {
				script = append(script, a)
			}
		}
		s := w.subscribe(pub, script)
		return "+" + strconv.Itoa(s.id)
	case name == "z":
		// a zero-value Subscription: registered, OnNext is nil, must receive nothing and disturb nobody
		w.mu.Lock()
		s := &c10Sub{id: len(pub.subs) + 1}
		pub.subs = append(pub.subs, s)
		w.mu.Unlock()
		ptr := pub.p.Subscribe(nil)
		w.mu.Lock()
		s.ptr = ptr
		w.mu.Unlock()
		return "+" + strconv.Itoa(s.id)
	case name == "a", name == "d":
		// arm / disarm subscription id through the pointer Subscribe returned (sets / clears OnNext)
		id, _ := strconv.Atoi(arg)
		w.mu.Lock()
		var sub *c10Sub
		if id >= 1 && id <= len(pub.subs) && !pub.subs[id-1].hidden && pub.subs[id-1].ptr != nil {
			sub = pub.subs[id-1]
		}
		w.mu.Unlock()
		if sub != nil {
			if name == "a" {
				pub.p.SetOnNext(sub.ptr, func(v int) { w.callback(pub, sub, v) })
			} else {
				pub.p.SetOnNext(sub.ptr, nil)
			}
		}
		return name
	case name == "u":
		id, _ := strconv.Atoi(arg)
		if ok, pk := w.finishes(func() { w.unsubscribe(pub, id) }); !ok {
			return "hang"
		} else if pk {
			return "panic"
		}
		if !w.drain() {
			return "hang"
		}
		return "-"
	case name == "p":
		v, _ := strconv.Atoi(arg)
		if ok, pk := w.finishes(func() { w.publish(pub, v) }); !ok {
			return "hang"
		} else if pk {
			return "panic"
		}
		if !w.drain() {
			return "hang"
		}
		return w.takeEvents()
	case name == "c":
		return "n=" + strconv.Itoa(pub.p.Count())
	case name == "h", name == "hb":
		// h: SubscribeOn(Handler.New()) (unbuffered channel); hb: a handler with a buffered channel
		h := fpgo.Handler.New()
		if name == "hb" {
			h = fpgo.Handler.NewByCh(make(chan func(), 16))
		}
		w.allH = append(w.allH, h)
		gidCh := make(chan int64, 1)
		h.Post(func() { gidCh <- fpgo.VerifGoID() })
		w.mu.Lock()
		pub.handler = h
		pub.handlerGid = <-gidCh
		w.mu.Unlock()
		pub.p.SubscribeOn(h)
		return "h"
	case name == "r":
		// a new independent root publisher: r:g = PublisherNewGenerics[int](), r:i = Publisher.New() (interface{} twin)
		w.mu.Lock()
		nq := len(w.pubs)
		w.pubs = append(w.pubs, &c10Pub{idx: nq, p: c10NewRoot(arg)})
		w.mu.Unlock()
		return "r" + strconv.Itoa(nq)
	case name == "m":
		np := pub.p.Map(c10Fn(arg))
		w.mu.Lock()
		pub.subs = append(pub.subs, &c10Sub{id: len(pub.subs) + 1, hidden: true})
		nq := len(w.pubs)
		w.pubs = append(w.pubs, &c10Pub{idx: nq, p: np})
		w.mu.Unlock()
		return "m" + strconv.Itoa(nq)
	case strings.HasPrefix(name, "go"):
		tid, _ := strconv.Atoi(name[2:])
		if w.threads[tid] != nil {
			return "bad-op"
		}
		v, _ := strconv.Atoi(arg)
		t := &c10Thr{parkSnap: true, parkBD: true, arrived: make(chan string, 1), resume: make(chan struct{})}
		w.threads[tid] = t
		go func() {
			gid := fpgo.VerifGoID()
			w.ctl.mu.Lock()
			t.gid = gid
			w.ctl.thrs[gid] = t
			w.ctl.mu.Unlock()
			defer func() {
				w.ctl.mu.Lock()
				delete(w.ctl.thrs, gid)
				w.ctl.mu.Unlock()
				if r := recover(); r != nil {
					t.arrived <- "panic"
					return
				}
				t.arrived <- "done"
			}()
			w.publish(pub, v)
		}()
		return w.waitThr(t)
	case strings.HasPrefix(name, "adv"), strings.HasPrefix(name, "fin"):
		tid, _ := strconv.Atoi(name[3:])
		t := w.threads[tid]
		if t == nil {
			return "[]D"
		}
		if name[:3] == "fin" {
			w.ctl.mu.Lock()
			t.parkBD, t.parkSnap = false, false
			w.ctl.mu.Unlock()
		}
		t.resume <- struct{}{}
		r := w.waitThr(t)
		if strings.HasSuffix(r, "D") || r == "panic" {
			delete(w.threads, tid)
		}
		return r
	}
	return "bad-op"
}

func c10RunOps(body string) string {
	ctl := &c10Ctl{thrs: map[int64]*c10Thr{}}
	fpgo.VerifSetController(ctl)
	defer fpgo.VerifSetController(nil)
	w := &c10World{depth: map[int64][]c10Ev{}, ctl: ctl, threads: map[int]*c10Thr{}}
	w.pubs = []*c10Pub{{idx: 0, p: c10NewRoot("g")}}
	var outs []string
	for _, tok := range strings.Split(body, ";") {
		tok = strings.TrimSpace(tok)
		if tok == "" {
			continue
		}
		outs = append(outs, w.doOp(tok))
		if w.hung {
			break
		}
	}
	// let parked goroutines go and close the handlers
	for _, t := range w.threads {
		ctl.mu.Lock()
		t.parkBD, t.parkSnap = false, false
		ctl.mu.Unlock()
		select {
		case t.resume <- struct{}{}:
			select {
			case <-t.arrived:
			case <-time.After(c10Wait):
			}
		case <-time.After(time.Second):
		}
	}
	if !w.hung {
		w.drain()
	}
	for _, h := range w.allH {
		h.Close()
	}
	return strings.Join(outs, " | ")
}

func c10Run(line string) string {
	i := strings.Index(line, ": ")
	if i < 0 {
		return "bad-kind"
	}
	kind, body := line[:i], line[i+2:]
	switch kind {
	case "seq", "sched":
		return c10RunOps(body)
	case "stress":
		return c10Stress(body)
	}
	return "bad-kind"
}

func init() { register("C10", &Prop{Gen: c10Gen, Run: c10Run, CaseTimeout: 60 * time.Second}) }
