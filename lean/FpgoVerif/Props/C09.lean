import FpgoVerif.Model.C09
import FpgoVerif.Proofs.C09Prog0
import FpgoVerif.Gen.Skeletons
import FpgoVerif.Gen.PoolGuards
/-! Property theorems for C09 — WorkerPool: an accepted job runs exactly once, ≤ workerSizeMaximum jobs run
    concurrently, panics are isolated, full / timeout / closed are reported as such and a rejected job never
    runs.  All theorems are about `step` / `Reach` of `Model/C09Sys.lean`, the transition system the driver
    executes; they hold for every configuration, any number of submitters and workers, every interleaving
    and every timer behaviour (timers are nondeterministic steps).

    Reading guide: `s.started.count j` = how often job `j` was invoked (`runs j`); `wsum f s.workers` = sum of
    the per-worker weight `f` (`execW` = is executing a job, `busyW` = counted in workerBusy, `alive` =
    counted in workerCount, `gotJ j` / `runJ j` / `panJV (j,v)` = holds / runs / has panicked in job j). -/
namespace FpgoVerif.C09

/-! ## exactly once -/

/-- C09_once: in every reachable state, for every job `j`:
    (1) it was invoked at most once; (2) it is accepted at most once (one successful Offer per call);
    (3) conservation as multisets: accepted = queued ⊎ dropped-by-Close ⊎ received-not-yet-started ⊎ started,
    and started = executing ⊎ finished — so while the pool is open (nothing dropped) an accepted job is
    queued, held by a worker, running or done, never lost and never duplicated;
    (4) a job whose call returned an error was never accepted and never invoked. -/
theorem C09_once (c : Cfg) (s : St) (h : Reach c s) (j : Nat) :
    s.started.count j ≤ 1 ∧ s.accepted.count j ≤ 1 ∧
    s.accepted.count j = s.queue.count j + s.dropped.count j + wsum (gotJ j) s.workers + s.started.count j ∧
    s.started.count j = wsum (runJ j) s.workers + s.finished.count j ∧
    (j ∈ s.rejected → s.accepted.count j = 0 ∧ s.started.count j = 0) := by
  have hj := reach_invJ h
  have hs := reach_invS h
  have h1 := hj.acc j
  have h2 := hj.sta j
  have h3 := hs.acc j
  have h4 := accOf_le_one s.subs j
  refine ⟨by omega, by omega, h1, h2, ?_⟩
  intro hr
  obtain ⟨sb, hsb, hrej⟩ := hs.rej j hr
  have : accOf s.subs j = 0 := by
    unfold accOf; rw [hsb]
    cases hpc : sb.pc <;> simp [hpc, isAcc, isRej] at hrej ⊢
    case fin r => cases r <;> simp at hrej ⊢
  omega

/-- non-vacuity: a run in which job 0 is accepted, taken, executed and finished, and job 1 is rejected (queue
    of total capacity 1 full) -/
example : ∃ s, Reach ⟨1, 1, 1, 1, 0, true, true⟩ s ∧ s.finished = [0] ∧ s.rejected = [2] ∧ s.accepted = [1, 0] :=
  ⟨_, reach_runActs (s := init) [.submit false, .sCheck 0, .sOffer 0 false, .sToken 0, .spWake, .spCheck, .spCnt1,
      .spCnt2 false, .spRead, .spInit, .spGen, .wCheck 0, .wRecv 0, .wStart 0, .submit false, .sCheck 1, .sOffer 1 false,
      .sToken 1, .submit false, .sCheck 2, .sOffer 2 true, .sToken 2, .wFinish 0, .wBusyDec 0] Reach.init rfl,
   by decide, by decide, by decide⟩

/-! ## at most workerSizeMaximum jobs executing -/

/-- C09_cap: #executing ≤ workerBusy ≤ workerCount ≤ workerSizeMaximum at every instant, and the two counters
    are exactly the number of workers that have not given up their slot / that are inside a job.  In
    particular the jam rule (`expectedWorkerCount = workerCount + 1`) cannot push workerCount above the
    maximum: generateWorkerWithMaximum re-checks `workerCount >= workerSizeMaximum` under the lock. -/
theorem C09_cap (c : Cfg) (s : St) (h : Reach c s) :
    wsum execW s.workers ≤ s.busy ∧ s.busy ≤ s.count ∧ s.count ≤ c.max ∧
    s.count = wsum alive s.workers ∧ s.busy = wsum busyW s.workers := by
  have hw := reach_invW h
  refine ⟨?_, ?_, hw.cap, hw.cnt, hw.bsy⟩
  · rw [hw.bsy]; exact wsum_le _ _ execW_le_busyW _
  · rw [hw.bsy, hw.cnt]; exact wsum_le _ _ busyW_le_alive _

/-- non-vacuity: max = 1, jam rule fired (target 2) with the only worker busy: still one worker -/
example : ∃ s, Reach ⟨1, 1, 1, 4, 4, true, true⟩ s ∧ s.count = 1 ∧ s.busy = 1 ∧ s.sp = .sleep :=
  ⟨_, reach_runActs (s := init) [.submit false, .sCheck 0, .sOffer 0 false, .sToken 0, .spWake, .spCheck, .spCnt1,
      .spCnt2 false, .spRead, .spInit, .spGen, .wCheck 0, .wRecv 0, .wStart 0, .spSleep, .submit false, .sCheck 1,
      .sOffer 1 false, .sToken 1, .spWake, .spCheck, .spCnt1, .spCnt2 true, .spRead, .spInit, .spGen] Reach.init rfl,
   by decide, by decide, by decide⟩

/-! ## panics are isolated -/

/-- C09_panic (state invariant): every panic raised by a job is either still on its way to the handler (the
    worker is between `recover` and the handler call), or has been reported exactly once with the job's own
    panic value, or was recovered while no handler was installed (`unreported`: SetPanicHandler(nil)); a job panics at most as often as it finishes, hence (C09_once) at most once. -/
theorem C09_panic (c : Cfg) (s : St) (h : Reach c s) :
    (∀ jv, s.panicLog.count jv = wsum (panJV jv) s.workers + s.handlerLog.count jv + s.unreported.count jv) ∧
    (∀ j, (s.panicLog.map Prod.fst).count j ≤ s.finished.count j ∧ s.finished.count j ≤ 1) := by
  have hp := reach_invP h
  refine ⟨hp.han, fun j => ⟨hp.pan j, ?_⟩⟩
  have := C09_once c s h j
  omega

/-- C09_panic_exit (the exit path, step by step): when the job run by worker `w` panics with value `v`, the
    four steps panic / handler / deferred bookkeeping / token are enabled one after the other, and together
    they add exactly one handler call `(j, v)`, give back exactly this worker's slot in workerCount and
    workerBusy, post the spawn token (fix 347608c), and change nothing else: no job counter (`started`),
    not the queue, not the accepted set, not the closed flag, no other worker. -/
theorem C09_panic_exit (c : Cfg) (s : St) (w j v : Nat) (hw : s.workers[w]? = some (.run j))
    (hh : s.handler = true) :
    ∃ t, runActs c s [.wPanic w v, .wHandler w, .wExitDec w, .wExitTok w] = some t ∧
      t.handlerLog = (j, v) :: s.handlerLog ∧ t.panicLog = (j, v) :: s.panicLog ∧
      t.count = s.count - 1 ∧ t.busy = s.busy - 1 ∧ t.token = true ∧
      t.workers = s.workers.set w .gone ∧
      t.started = s.started ∧ t.finished = j :: s.finished ∧ t.queue = s.queue ∧ t.accepted = s.accepted ∧
      t.rejected = s.rejected ∧ t.closed = s.closed ∧ t.subs = s.subs ∧ t.sp = s.sp := by
  have hlt := lt_of_getElem? hw
  have g : ∀ (l : List WPc) (x : WPc), w < l.length → (l.set w x)[w]? = some x := fun l x h => by simp [h]
  simp only [runActs, step, stepW, hw, setW]
  rw [g _ _ hlt]
  simp only [hh, if_true]
  rw [g _ _ (by simpa using hlt)]
  simp only []
  rw [g _ _ (by simpa using hlt)]
  simp

/-- C09_panic_exit_nil: the same exit path when the handler was cleared with SetPanicHandler(nil): the nil
    guard skips the call — no handler call, and the worker still gives its slot back and posts the token; the
    pool goes on. -/
theorem C09_panic_exit_nil (c : Cfg) (s : St) (w j v : Nat) (hw : s.workers[w]? = some (.run j))
    (hh : s.handler = false) :
    ∃ t, runActs c s [.wPanic w v, .wHandler w, .wExitDec w, .wExitTok w] = some t ∧
      t.handlerLog = s.handlerLog ∧ t.unreported = (j, v) :: s.unreported ∧
      t.count = s.count - 1 ∧ t.busy = s.busy - 1 ∧ t.token = true ∧
      t.workers = s.workers.set w .gone ∧
      t.started = s.started ∧ t.queue = s.queue ∧ t.accepted = s.accepted ∧ t.closed = s.closed := by
  have hlt := lt_of_getElem? hw
  have g : ∀ (l : List WPc) (x : WPc), w < l.length → (l.set w x)[w]? = some x := fun l x h => by simp [h]
  simp only [runActs, step, stepW, hw, setW]
  rw [g _ _ hlt]
  simp only [hh, Bool.false_eq_true, if_false]
  rw [g _ _ (by simpa using hlt)]
  simp only []
  rw [g _ _ (by simpa using hlt)]
  simp

/-- non-vacuity for C09_panic / C09_panic_exit: standby = max = 1, job 0 panics with value 7 while job 1 is
    queued: afterwards the handler log is [(0,7)], the token is pending and job 1 is still queued -/
example : ∃ s, Reach ⟨1, 1, 1, 2, 0, true, true⟩ s ∧ s.handlerLog = [(0, 7)] ∧ s.token = true ∧ s.queue = [1] ∧
    s.count = 0 ∧ s.busy = 0 :=
  ⟨_, reach_runActs (s := init) [.submit false, .sCheck 0, .sOffer 0 false, .sToken 0, .spWake, .spCheck, .spCnt1,
      .spCnt2 false, .spRead, .spInit, .spGen, .wCheck 0, .wRecv 0, .wStart 0, .spSleep, .submit false, .sCheck 1,
      .sOffer 1 false, .sToken 1, .spWake, .spCheck, .spCnt1, .spCnt2 false, .spRead, .spSleep,
      .wPanic 0 7, .wHandler 0, .wExitDec 0, .wExitTok 0] Reach.init rfl,
   by decide, by decide, by decide, by decide, by decide⟩

/-! ## error reporting -/

/-- C09_errors: for every finished call `i` in every reachable state:
    nil ⇒ its job was accepted (exactly once); any error ⇒ the job was never accepted, hence never runs;
    ErrWorkerPoolJobQueueIsFull is the answer of a plain Schedule only; ErrWorkerPoolScheduleTimeout is the
    answer of a ScheduleWithTimeout only and only after its deadline event. -/
theorem C09_errors (c : Cfg) (s : St) (h : Reach c s) (i : Nat) (sb : Sub) (hsb : s.subs[i]? = some sb) :
    (sb.pc = .fin .ok → s.accepted.count i = 1) ∧
    (∀ r, sb.pc = .fin r → r ≠ .ok → s.accepted.count i = 0 ∧ s.started.count i = 0) ∧
    (sb.pc = .fin .full → sb.timed = false) ∧
    (sb.pc = .fin .timeout → sb.timed = true ∧ sb.dl = true) := by
  have hs := reach_invS h
  have ha := hs.acc i
  have ho := C09_once c s h i
  unfold accOf at ha; rw [hsb] at ha
  refine ⟨?_, ?_, hs.ful i sb hsb, fun hp => ⟨hs.tim i sb hsb (Or.inr (Or.inr hp)), hs.tmo i sb hsb hp⟩⟩
  · intro hp; simp [hp, isAcc] at ha; exact ha
  · intro r hp hr
    have : s.accepted.count i = 0 := by
      cases r <;> simp [hp, isAcc] at ha hr ⊢ <;> exact ha
    omega

/-- C09_errors, the three answers as steps: (closed) a Schedule that reads the closed flag after Close set it
    returns ErrWorkerPoolIsClosed without touching the queue; (full) the Full answer of the queue leaves
    queue and accepted set unchanged and becomes ErrWorkerPoolJobQueueIsFull for a plain Schedule;
    (timeout) the deadline test returns ErrWorkerPoolScheduleTimeout exactly when the deadline event has
    happened, otherwise the call retries. -/
theorem C09_errors_steps (c : Cfg) (s t : St) (i : Nat) (sb : Sub) (hsb : s.subs[i]? = some sb) :
    (sb.pc = .check → s.closed = true → step c s (.sCheck i) = some t →
        t.subs[i]? = some { sb with pc := .fin .poolClosed } ∧ t.queue = s.queue ∧ t.accepted = s.accepted ∧
        t.rejected = i :: s.rejected) ∧
    (sb.pc = .offer → step c s (.sOffer i true) = some t → s.qclosed = false →
        t.subs[i]? = some { sb with pc := .token .full } ∧ t.queue = s.queue ∧ t.accepted = s.accepted ∧
        mayFull c s.queue.length = true) ∧
    (sb.pc = .token .full → sb.timed = false → step c s (.sToken i) = some t →
        t.subs[i]? = some { sb with pc := .fin .full } ∧ t.rejected = i :: s.rejected ∧ t.token = true) ∧
    (sb.pc = .dcheck → step c s (.sDeadline i) = some t →
        (sb.dl = true → t.subs[i]? = some { sb with pc := .fin .timeout } ∧ t.rejected = i :: s.rejected) ∧
        (sb.dl = false → t.subs[i]? = some { sb with pc := .lcheck } ∧ t.rejected = s.rejected)) := by
  have hlt := lt_of_getElem? hsb
  refine ⟨?_, ?_, ?_, ?_⟩
  · intro hp hc hst
    simp [step, stepSub, hsb, hp, hc, setS] at hst; subst hst
    simp [hlt]
  · intro hp hst hq
    simp [step, stepSub, hsb, hp, hq, setS] at hst
    obtain ⟨hm, hst⟩ := hst; subst hst
    simp [hlt, hm]
  · intro hp ht hst
    simp [step, stepSub, hsb, hp, ht, setS, afterSchedule] at hst; subst hst
    simp [hlt, ht]
  · intro hp hst
    refine ⟨?_, ?_⟩
    · intro hd
      simp [step, stepSub, hsb, hp, hd, setS] at hst; subst hst
      simp [hlt, hd]
    · intro hd
      simp [step, stepSub, hsb, hp, hd, setS] at hst; subst hst
      simp [hlt, hd]

/-- the closed flag is never reset: once Close has set it, every later Schedule is answered as in
    `C09_errors_steps` -/
theorem C09_closed_stable (c : Cfg) (s t : St) (a : Act) (h : step c s a = some t) (hc : s.closed = true) :
    t.closed = true := by
  rcases step_closed h with h1 | h1
  · rw [h1]; exact hc
  · exact h1

/-- non-vacuity: queue of capacity 1+0 full ⇒ Schedule answers full; a ScheduleWithTimeout retries and times out
    after its deadline; after Close a Schedule answers poolClosed -/
example : ∃ s, Reach ⟨1, 1, 1, 1, 0, true, true⟩ s ∧
    (s.subs.map (·.pc)) = [.fin .ok, .fin .full, .fin .timeout, .fin .poolClosed] ∧ s.rejected = [3, 2, 1] :=
  ⟨_, reach_runActs (s := init) [.submit false, .sCheck 0, .sOffer 0 false, .sToken 0,
      .submit false, .sCheck 1, .sOffer 1 true, .sToken 1,
      .submit true, .sCheck 2, .sOffer 2 true, .sToken 2, .sLoopCheck 2, .sCheck 2, .sOffer 2 true, .sToken 2,
      .sDeadline 2, .sLoopCheck 2, .deadline 2, .sCheck 2, .sOffer 2 true, .sToken 2, .sDeadline 2,
      .closeFlag, .submit false, .sCheck 3] Reach.init rfl,
   by decide, by decide⟩

/-! ## progress -/

/-- C09_progress (invariant; repaired expiry, workerSizeStandBy ≥ 1, workerSizeMaximum ≥ 1): whenever the pool
    is open and a job is queued, at least one of the following holds —
    a worker is in its loop (it will reach the select and take a job) or is dying on a panic and will post
    the spawn token; the spawn token is pending; a Schedule call is about to post it; the spawn loop is
    awake with a positive target and will call generateWorkerWithMaximum (which spawns unless a worker
    exists).  "Eventually runs" is this invariant plus fairness of the Go scheduler, termination of the
    jobs ahead in the queue and the queue's own progress (C07) — stated here, not proved. -/
theorem C09_progress (c : Cfg) (hs : 1 ≤ c.standby) (hm : 1 ≤ c.max) (hx : c.atomicExpiry = true)
    (s : St) (h : Reach c s) (ho : s.closed = false) (hq : s.queue ≠ []) : Good s :=
  (reach_invG hs hm hx h).good ho hq

/-- the enabled steps behind the disjuncts of `Good`: an idle worker takes the head of a non-empty queue; the
    waiting spawn loop takes a pending token; generateWorkerWithMaximum(e) with no worker alive and
    e, max ≥ 1 starts one -/
theorem C09_progress_steps (c : Cfg) (s : St) :
    (∀ w j rest, s.workers[w]? = some .sel → s.queue = j :: rest →
        ∃ t, step c s (.wRecv w) = some t ∧ t.workers[w]? = some (.got j) ∧ t.queue = rest) ∧
    (s.sp = .wait → s.token = true → ∃ t, step c s .spWake = some t ∧ t.sp = .awake) ∧
    (∀ i e, s.sp = .loop i e → i < e → s.count = 0 → 1 ≤ c.max →
        ∃ t, step c s .spGen = some t ∧ t.count = 1 ∧ t.workers = s.workers ++ [.top]) := by
  refine ⟨?_, ?_, ?_⟩
  · intro w j rest hw hq
    have hlt := lt_of_getElem? hw
    simp only [step, stepW, hw, hq, setW]
    exact ⟨_, rfl, by simp [hlt], rfl⟩
  · intro h1 h2; simp [step, stepPool, h1, h2]
  · intro i e h1 h2 h3 h4
    have : ¬ (e = 0 ∨ c.max = 0) := by omega
    simp [step, stepPool, h1, h2, genWorker, h3, this]

/-- trySpawn reads `workerCount` twice without the lock (`if workerCount < e` — `spRead` —, then the loop initialiser
    `i := workerCount` — `spInit`): here PreAllocWorkerSize starts the worker between the two reads, the loop body is
    never entered and the spawn loop goes to sleep with one worker alive (the `enter` case of the progress invariants) -/
example : ∃ s, Reach ⟨1, 1, 1, 2, 0, true, true⟩ s ∧ s.count = 1 ∧ s.sp = .sleep ∧ s.workers = [.top] :=
  ⟨_, reach_runActs (s := init) [.notify, .spWake, .spCheck, .spCnt1, .spCnt2 false, .spRead, .gen 1, .spInit]
      Reach.init rfl, by decide, by decide, by decide⟩

/-- C09_progress_on_demand (invariant; the on-demand configuration of the property's quantifier: "standby 0 with
    workerBatchSize ≥ 1 and an idle-expiry longer than the run" — `ReachNE` = every execution in which no idle
    worker's expiry timer fires; workerSizeMaximum ≥ 1; any standby, any number of submitters / workers, any
    interleaving): whenever the pool is open and a job is queued, a worker is in its loop or dying on a panic (it
    will post the spawn token), or the token is pending, or a Schedule call is about to post it, or the spawn loop
    is awake and will call generateWorkerWithMaximum with a positive target (`spWill0`: it has not read the queue
    length yet, or its first `Count()` read is still the length of the queue — then both reads agree and
    n/batch + (n % batch > 0) ≥ 1 —, or the computed target is positive).  With standby = 0 the target CAN be 0
    although a job is queued (n1 = 1, n2 = 2, batch = 2: 1/2 + (2 % 2 > 0) = 0, second example below); the job
    that arrived between the two reads then still owes the token, which is what the invariant carries. -/
theorem C09_progress_on_demand (c : Cfg) (hb : 1 ≤ c.batch) (hm : 1 ≤ c.max)
    (s : St) (h : ReachNE c s) (ho : s.closed = false) (hq : s.queue ≠ []) : Good0 s :=
  (reachNE_invG0 hb hm h).good ho hq

/-- the step behind the `cnt2` disjunct of `spWill0`: with an accurate first read of a non-empty open queue the
    second read agrees and the target computed by trySpawn is positive, whatever the jam clause says -/
theorem C09_progress_on_demand_steps (c : Cfg) (hb : 1 ≤ c.batch) (hm : 1 ≤ c.max) (s : St) (n1 : Nat) (jam : Bool)
    (hsp : s.sp = .cnt2 n1) (hn : n1 = s.queue.length) (hq : s.queue ≠ []) (hqc : s.qclosed = false) :
    ∃ e, step c s (.spCnt2 jam) = some { s with sp := .computed e } ∧ 1 ≤ e := by
  have hlen : 1 ≤ s.queue.length := by
    cases hl : s.queue with
    | nil => exact absurd hl hq
    | cons _ _ => simp
  refine ⟨expected c n1 (qcount s) s.count s.busy jam, by simp [step, stepPool, hsp], ?_⟩
  have := expected_pos0 c s.queue.length s.count s.busy jam hb hm hlen
  simpa [qcount, hqc, hn] using this

/-- non-vacuity of C09_progress_on_demand, the zero-target case: standby 0, batch 2; the spawn loop reads Count() = 1,
    a second job is accepted, it reads Count() = 2: target 1/2 + (2 % 2 > 0) = 0, nothing is spawned, the loop goes back
    to waiting — with the second Schedule's token pending, so it wakes again -/
example : ∃ s, ReachNE ⟨2, 0, 2, 4, 0, true, true⟩ s ∧ s.closed = false ∧ s.queue = [0, 1] ∧ s.count = 0 ∧
    s.sp = .wait ∧ s.token = true :=
  ⟨_, reachNE_runActs (s := init) [.submit false, .sCheck 0, .sOffer 0 false, .sToken 0, .spWake, .spCheck, .spCnt1,
      .submit false, .sCheck 1, .sOffer 1 false, .spCnt2 false, .sToken 1, .spRead, .spSleep]
      (by intro a ha w hw; subst hw; simp at ha) ReachNE.init rfl,
   by decide, by decide, by decide, by decide, by decide⟩

/-- … and why the quantifier asks for "an idle-expiry longer than the run" when standby = 0: if the only worker's
    expiry timer fires after the spawn loop has handled the token of an accepted job (count 1 ≥ target 1: nothing
    spawned) and before the worker's select takes the job, the worker retires (count 1 > standby 0) and the job is
    stranded — open pool, queued job, no worker, no token, spawn loop waiting.  This is a behaviour of the code as it
    is (outside the property's quantifier), kernel-checked on the same transition system. -/
theorem C09_on_demand_needs_no_expiry :
    ∃ s, Reach ⟨1, 0, 1, 2, 0, true, true⟩ s ∧ s.closed = false ∧ s.queue = [0] ∧ s.count = 0 ∧ ¬ Good0 s ∧ ¬ Good s :=
  ⟨_, reach_runActs (s := init) [.gen 1, .wCheck 0, .submit false, .sCheck 0, .sOffer 0 false, .sToken 0, .spWake,
      .spCheck, .spCnt1, .spCnt2 false, .spRead, .spSleep, .wExpire 0] Reach.init rfl,
   by decide, by decide, by decide, by decide, by decide⟩

/-- The mechanism before `proposed-fix-expiry-race.patch` (decision under RLock, decrement later in the deferred
    exit; `atomicExpiry = false`) does NOT satisfy the progress invariant, standby = 1 notwithstanding: two
    idle workers (max 2), worker 0 decides to expire (count 2 > 1) and is delayed; worker 1 expires and
    leaves (count 1); job 2 is accepted, the spawn loop handles its token while worker 0 is still counted
    (1 ≥ target 1: no spawn) and goes back to sleep; worker 0 leaves (count 0).  Open pool, queued job,
    no worker, no token, spawn loop waiting: the job is stranded until somebody schedules again.
    (Reproduced on the real code by the directed case `expiry-race` of the harness.) -/
theorem C09_progress_refutes_unfixed :
    ∃ s, Reach ⟨2, 1, 1, 2, 0, true, false⟩ s ∧ s.closed = false ∧ s.queue = [0] ∧ s.count = 0 ∧ ¬ Good s :=
  ⟨_, reach_runActs (s := init) [.gen 2, .gen 2, .wCheck 0, .wCheck 1, .wExpire 0, .wExpire 1, .wExitDec 1,
      .submit false, .sCheck 0, .sOffer 0 false, .sToken 0, .spWake, .spCheck, .spCnt1, .spCnt2 false, .spRead,
      .spSleep, .wExitDec 0] Reach.init rfl,
   by decide, by decide, by decide, by decide⟩

/-- non-vacuity of C09_progress: the same schedule on the repaired mechanism — worker 0 retires, worker 1 stays
    (count 1 > standby 1 is false) and the queued job has a worker -/
example : ∃ s, Reach ⟨2, 1, 1, 2, 0, true, true⟩ s ∧ s.closed = false ∧ s.queue = [0] ∧ s.count = 1 ∧
    s.workers = [.gone, .top] :=
  ⟨_, reach_runActs (s := init) [.gen 2, .gen 2, .wCheck 0, .wCheck 1, .wExpire 0, .wExpire 1,
      .submit false, .sCheck 0, .sOffer 0 false, .sToken 0, .spWake, .spCheck, .spCnt1, .spCnt2 false, .spRead,
      .spSleep] Reach.init rfl,
   by decide, by decide, by decide, by decide⟩

/-! ## closing theorems over the regenerated facts (Gen/PoolGuards.lean)

    The transition system above assumes, per method, the protocol shape (skeleton) and the decisions
    (normalised statement listing) written out here; the kernel checks on every run that the code still has
    exactly these.  `Gen.poolSkeletonOf m` is the protocol skeleton of `extract/skeleton.go` (the string
    `Gen.skeletonOf "worker.….m"` of Gen/Skeletons.lean) cut at its blanks: kernel string equality is quadratic
    in this Lean version (the 729-character skeleton of generateWorkerWithMaximum alone took 23 s as one string,
    the 12 skeletons ~35 s; as lists of short pieces they take ~2 s together). -/

theorem C09_skel_Schedule : Gen.poolSkeletonOf "Schedule" = some [
    "if[call(IsClosed)]{return}", "defer{call(spawnWorkerCh.Offer)}", "call(jobQueue.Offer)", "if[]{return}",
    "return"] := by decide +kernel

theorem C09_skel_ScheduleWithTimeout : Gen.poolSkeletonOf "ScheduleWithTimeout" = some [
    "call(Schedule)", "if[]{return}", "call(Now().Add)", "for[]{if[call(IsClosed)]{return}", "call(Schedule)",
    "if[]{return}", "if[call(Now().After)]{return}", "call(Sleep)}", "return"] := by decide +kernel

theorem C09_skel_trySpawn : Gen.poolSkeletonOf "trySpawn" = some [
    "call(lock.RLock)", "if[]{call(jobQueue.Count)", "if[call(jobQueue.Count)]{}}", "if[get(workerBusy)",
    "get(workerCount)", "get(workerCount)]{get(workerCount)}", "call(lock.RUnlock)",
    "if[get(workerCount)]{get(workerCount)", "for[]{call(generateWorkerWithMaximum)}}"] := by decide +kernel

theorem C09_skel_generateWorkerWithMaximum : Gen.poolSkeletonOf "generateWorkerWithMaximum" = some [
    "call(lock.Lock)", "defer{call(lock.Unlock)}", "if[get(workerCount)", "get(workerCount)]{return}",
    "get(workerCount)", "set(workerCount)", "go{defer{call(recover)", "if[]{if[]{callfn(handler)}}",
    "call(lock.Lock)", "if[]{get(workerCount)", "set(workerCount)}", "if[]{get(workerBusy)", "set(workerBusy)}",
    "call(lock.Unlock)", "if[]{call(spawnWorkerCh.Offer)}}", "for[]{if[call(IsClosed)]{return}",
    "select{call(jobQueue.GetChannel)", "recv(jobQueue.GetChannel())=>{if[]{call(lock.Lock)", "get(workerBusy)",
    "set(workerBusy)", "call(lock.Unlock)", "callfn(job)", "call(lock.Lock)", "get(workerBusy)",
    "set(workerBusy)", "call(lock.Unlock)}}", "|", "call(After)", "recv(After())=>{call(lock.Lock)",
    "get(workerCount)", "set(workerCount)", "if[]{get(workerCount)", "set(workerCount)", "call(lock.Unlock)",
    "break}", "call(lock.Unlock)}}}}"] := by decide +kernel

theorem C09_skel_spawnLoop : Gen.poolSkeletonOf "spawnLoop" = some [
    "defer{call(recover)", "if[]{call(defaultPanicHandler)}}",
    "rangech(spawnWorkerCh){if[call(IsClosed)]{break}", "call(trySpawn)", "call(Sleep)}"] := by decide +kernel

theorem C09_skel_notifyWorkers : Gen.poolSkeletonOf "notifyWorkers" = some [
    "if[get(workerCount)", "call(jobQueue.Count)]{call(spawnWorkerCh.Offer)}"] := by decide +kernel

theorem C09_skel_Close : Gen.poolSkeletonOf "Close" = some [
    "if[call(IsClosed)]{return}", "get(isClosed)", "call(isClosed.Set)", "if[]{call(jobQueue.Close)}"] := by decide +kernel

theorem C09_skel_IsClosed : Gen.poolSkeletonOf "IsClosed" = some [
    "get(isClosed)", "call(isClosed.Get)", "return"] := by decide +kernel

theorem C09_skel_Invoke : Gen.poolSkeletonOf "Invoke" = some [
    "func{callfn(callee)}", "call(workerPool.Schedule)"] := by decide +kernel

theorem C09_skel_InvokeWithTimeout : Gen.poolSkeletonOf "InvokeWithTimeout" = some [
    "func{callfn(callee)}", "call(workerPool.ScheduleWithTimeout)", "return"] := by decide +kernel

theorem C09_skel_PreAllocWorkerSize : Gen.poolSkeletonOf "PreAllocWorkerSize" = some [
    "get(workerCount)", "for[]{call(generateWorkerWithMaximum)}"] := by decide +kernel

theorem C09_skel_NewDefaultWorkerPool : Gen.poolSkeletonOf "NewDefaultWorkerPool" = some [
    "call(NewChannelQueue)", "go{call(spawnLoop)}", "return"] := by decide +kernel

theorem C09_guard_Schedule : Gen.poolGuardsOf "Schedule" = some [
    "if p.IsClosed() {",
    "return ErrWorkerPoolIsClosed",
    "}",
    "defer p.spawnWorkerCh.Offer(1)",
    "err := p.jobQueue.Offer(fn)",
    "if err == fpgo.ErrQueueIsFull {",
    "return ErrWorkerPoolJobQueueIsFull",
    "}",
    "return err"] := by decide +kernel

theorem C09_guard_ScheduleWithTimeout : Gen.poolGuardsOf "ScheduleWithTimeout" = some [
    "err := p.Schedule(fn)",
    "if err != ErrWorkerPoolJobQueueIsFull {",
    "return err",
    "}",
    "retryInterval := p.scheduleRetryInterval",
    "if retryInterval > timeout/3 {",
    "retryInterval = timeout / 3",
    "}",
    "deadline := time.Now().Add(timeout)",
    "for {",
    "if p.IsClosed() {",
    "return ErrWorkerPoolIsClosed",
    "}",
    "err = p.Schedule(fn)",
    "if err != ErrWorkerPoolJobQueueIsFull {",
    "return err",
    "}",
    "if time.Now().After(deadline) {",
    "return ErrWorkerPoolScheduleTimeout",
    "}",
    "time.Sleep(retryInterval)",
    "}",
    "return err"] := by decide +kernel

theorem C09_guard_trySpawn : Gen.poolGuardsOf "trySpawn" = some [
    "p.lock.RLock()",
    "batchSize := p.workerBatchSize",
    "var expectedWorkerCount int",
    "if batchSize > 0 {",
    "expectedWorkerCount = p.jobQueue.Count() / batchSize",
    "if p.jobQueue.Count()%batchSize > 0 {",
    "expectedWorkerCount++",
    "}",
    "}",
    "if p.workerSizeStandBy > expectedWorkerCount {",
    "expectedWorkerCount = p.workerSizeStandBy",
    "}",
    "if p.workerSizeMaximum > 0 && expectedWorkerCount > p.workerSizeMaximum {",
    "expectedWorkerCount = p.workerSizeMaximum",
    "}",
    "if time.Now().Sub(p.lastAliveTime) > p.workerJamDuration && p.workerBusy >= p.workerCount && p.workerCount >= expectedWorkerCount {",
    "expectedWorkerCount = p.workerCount + 1",
    "}",
    "p.lock.RUnlock()",
    "if p.workerCount < expectedWorkerCount {",
    "for i := p.workerCount; i < expectedWorkerCount; i++ {",
    "p.generateWorkerWithMaximum(expectedWorkerCount)",
    "}",
    "}"] := by decide +kernel

theorem C09_guard_generateWorkerWithMaximum : Gen.poolGuardsOf "generateWorkerWithMaximum" = some [
    "p.lock.Lock()",
    "defer p.lock.Unlock()",
    "if p.workerCount >= maximum || p.workerCount >= p.workerSizeMaximum {",
    "return",
    "}",
    "p.lastAliveTime = time.Now()",
    "p.workerCount++",
    "isBusy := false",
    "isRetired := false",
    "go func {",
    "defer func {",
    "panic := recover()",
    "if panic != nil {",
    "if handler := p.panicHandler; handler != nil {",
    "handler(panic)",
    "}",
    "}",
    "p.lock.Lock()",
    "if !isRetired {",
    "p.workerCount--",
    "}",
    "if isBusy {",
    "p.workerBusy--",
    "}",
    "p.lock.Unlock()",
    "if panic != nil {",
    "p.spawnWorkerCh.Offer(1)",
    "}",
    "}()",
    "loopLabel:",
    "for {",
    "p.lastAliveTime = time.Now()",
    "if p.IsClosed() {",
    "return",
    "}",
    "select {",
    "case job := <-p.jobQueue.GetChannel():",
    "if job != nil {",
    "p.lock.Lock()",
    "isBusy = true",
    "p.workerBusy++",
    "p.lock.Unlock()",
    "job()",
    "p.lock.Lock()",
    "p.workerBusy--",
    "isBusy = false",
    "p.lock.Unlock()",
    "}",
    "case <-time.After(p.workerExpiryDuration):",
    "p.lock.Lock()",
    "workerCount := p.workerCount",
    "if workerCount > p.workerSizeStandBy || workerCount > p.workerSizeMaximum {",
    "p.workerCount--",
    "isRetired = true",
    "p.lock.Unlock()",
    "break loopLabel",
    "}",
    "p.lock.Unlock()",
    "}",
    "}",
    "}()"] := by decide +kernel

theorem C09_guard_spawnLoop : Gen.poolGuardsOf "spawnLoop" = some [
    "defer func {",
    "if panic := recover(); panic != nil {",
    "defaultPanicHandler(panic)",
    "}",
    "}()",
    "for range p.spawnWorkerCh {",
    "if p.IsClosed() {",
    "break",
    "}",
    "p.trySpawn()",
    "time.Sleep(p.spawnWorkerDuration)",
    "}"] := by decide +kernel

theorem C09_guard_notifyWorkers : Gen.poolGuardsOf "notifyWorkers" = some [
    "if p.workerCount < p.workerSizeStandBy || p.jobQueue.Count() > 0 {",
    "p.spawnWorkerCh.Offer(1)",
    "}"] := by decide +kernel

theorem C09_guard_Close : Gen.poolGuardsOf "Close" = some [
    "if p.IsClosed() {",
    "return",
    "}",
    "p.isClosed.Set(true)",
    "if p.isJobQueueClosedWhenClose {",
    "p.jobQueue.Close()",
    "}"] := by decide +kernel

theorem C09_guard_IsClosed : Gen.poolGuardsOf "IsClosed" = some [
    "return p.isClosed.Get()"] := by decide +kernel

theorem C09_guard_Invoke : Gen.poolGuardsOf "Invoke" = some [
    "callee := p.callee",
    "p.workerPool.Schedule(func() { callee(val) })"] := by decide +kernel

theorem C09_guard_InvokeWithTimeout : Gen.poolGuardsOf "InvokeWithTimeout" = some [
    "callee := p.callee",
    "return p.workerPool.ScheduleWithTimeout(func() { callee(val) }, timeout)"] := by decide +kernel

theorem C09_guard_PreAllocWorkerSize : Gen.poolGuardsOf "PreAllocWorkerSize" = some [
    "for i := p.workerCount; i < preAllocWorkerSize; i++ {",
    "p.generateWorkerWithMaximum(preAllocWorkerSize)",
    "}"] := by decide +kernel

theorem C09_guard_NewDefaultWorkerPool : Gen.poolGuardsOf "NewDefaultWorkerPool" = some [
    "if settings == nil {",
    "settings = defaultDefaultWorkerSettings",
    "}",
    "workerPool := &DefaultWorkerPool{ jobQueue: jobQueue, spawnWorkerCh: fpgo.NewChannelQueue[int](1), DefaultWorkerPoolSettings: *settings, }",
    "go workerPool.spawnLoop()",
    "return workerPool"] := by decide +kernel

end FpgoVerif.C09
