import FpgoVerif.Model.C09
/-! Property theorems for C09 (none yet). -/
