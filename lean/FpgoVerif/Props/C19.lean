import FpgoVerif.Proofs.C19Desc
import FpgoVerif.Proofs.C19Heap
import FpgoVerif.Proofs.C19Oracle
import FpgoVerif.Proofs.C19Builder
import FpgoVerif.Gen.SortBuilder
/-! Property theorems for C19 — "Sorting yields an ordered, stable permutation; descriptors sort by key
    list".  All statements are about the definitions of `Model/C19.lean` that the driver executes.

    Standing assumption (see Model/C19.lean): `sort.SliceStable` is `sortBy` (= core `List.mergeSort`);
    `C19_sort_unique` shows that for a strict weak order ANY ordered, stable permutation equals
    `sortBy less l`, so the assumption is exactly "`sort.SliceStable` is a correct stable sort". -/
namespace FpgoVerif.C19

variable {α : Type}

/-! ## (1) generic: `Sort`, `SortSlice`, `Stream.Sort`, `Stream.SortByIndex` -/

/-- All comparator-based sort entry points of the library compute `sortBy fn input`
    (in place / on a clone / via the index comparator), and the ones that work on a clone leave the
    receiver's content as it was. -/
theorem C19_api_is_sortBy (fn : α → α → Bool) (l : List α) :
    sort fn l = sortBy fn l ∧ sortSlice fn l = sortBy fn l ∧
    streamSort fn l = (sortBy fn l, l) ∧ streamSortByIndex fn l = (sortBy fn l, l) :=
  ⟨rfl, rfl, rfl, rfl⟩

/-- permutation (any comparator) -/
theorem C19_sort_perm (less : α → α → Bool) (l : List α) : (sortBy less l).Perm l :=
  sortBy_perm less l

/-- ordered: no element precedes one that the comparator places strictly before it -/
theorem C19_sort_ordered {less : α → α → Bool} (h : StrictWeak less) (l : List α) :
    (sortBy less l).Pairwise (fun a b => less b a = false) :=
  sortBy_pairwise h l

/-- stable: each class of elements the comparator does not distinguish appears in its input order -/
theorem C19_sort_stable {less : α → α → Bool} (h : StrictWeak less) (l : List α) (x : α) :
    (sortBy less l).filter (equivBy less x) = l.filter (equivBy less x) :=
  sortBy_filter_equiv h l x

/-- stable, position form: tag every element with its input position; in the output, elements the
    comparator does not distinguish appear with increasing input positions. -/
theorem C19_sort_stable_positions {less : α → α → Bool} (h : StrictWeak less) (l : List α) :
    (sortBy (fun p q : α × Nat => less p.1 q.1) l.zipIdx).Pairwise
      (fun p q => equivBy less p.1 q.1 = true → p.2 < q.2) := by
  have hl : StrictWeak (fun p q : α × Nat => less p.1 q.1) :=
    ⟨fun a => h.irrefl a.1, fun a b c => h.trans, fun a b c => h.negTrans c.1⟩
  have hidx : (l.zipIdx).Pairwise (fun p q : α × Nat => p.2 < q.2) := by
    have := List.pairwise_lt_range (n := l.length)
    rw [List.pairwise_iff_getElem] at this ⊢
    intro i j hi hj hij
    simp at hi hj
    simp [hij]
  rw [List.pairwise_iff_forall_sublist]
  intro p q hsub he
  have hs := hsub.filter (equivBy (fun p q : α × Nat => less p.1 q.1) p)
  rw [sortBy_filter_equiv hl] at hs
  have e1 : equivBy (fun p q : α × Nat => less p.1 q.1) p p = true := equivBy_refl hl p
  have e2 : equivBy (fun p q : α × Nat => less p.1 q.1) p q = true := he
  rw [List.filter_cons_of_pos e1, List.filter_cons_of_pos e2, List.filter_nil] at hs
  have := (hs.trans List.filter_sublist)
  exact (List.pairwise_iff_forall_sublist.mp hidx) this

/-- uniqueness: an ordered, stable permutation of `l` IS `sortBy less l` — any correct stable sort
    (in particular `sort.SliceStable`) agrees with the model. -/
theorem C19_sort_unique {less : α → α → Bool} (h : StrictWeak less) (l r : List α)
    (hperm : r.Perm l) (hord : r.Pairwise (fun a b => less b a = false))
    (hstable : ∀ x, r.filter (equivBy less x) = l.filter (equivBy less x)) :
    r = sortBy less l :=
  stable_sorted_unique h r (sortBy less l) (hperm.trans (sortBy_perm less l).symm) hord
    (sortBy_pairwise h l) (fun x => (hstable x).trans (sortBy_filter_equiv h l x).symm)

/-! ## (2) the comparators the library builds -/

/-- `SortOrderedAscending` sorts by `<` : its comparator `CompareToOrdered(a, b) > 0` IS `a < b`. -/
theorem C19_sortOrdered_asc {κ : Type} (lt : κ → κ → Bool) (l : List κ) :
    sortOrderedAscending lt l = sortBy lt l ∧ sortOrdered lt true l = sortBy lt l := by
  have : (fun a b => decide (compareToOrdered lt a b > 0)) = lt := by
    funext a b
    cases h : lt a b <;> cases h' : lt b a <;> simp [compareToOrdered, h, h']
  simp [sortOrderedAscending, sortOrdered, sort, this]

/-- `SortOrderedDescending` sorts by `>` : its comparator `CompareToOrdered(a, b) < 0` IS `b < a`
    (for an asymmetric `<`, which Go's `<` on integers and strings is). -/
theorem C19_sortOrdered_desc {κ : Type} {lt : κ → κ → Bool} (h : StrictWeak lt) (l : List κ) :
    sortOrderedDescending lt l = sortBy (fun a b => lt b a) l ∧
    sortOrdered lt false l = sortBy (fun a b => lt b a) l := by
  have : (fun a b => decide (compareToOrdered lt a b < 0)) = (fun a b => lt b a) := by
    funext a b
    cases h1 : lt a b <;> cases h2 : lt b a <;> simp [compareToOrdered, h1, h2]
    have := h.asymm h1; rw [h2] at this; cases this
  simp [sortOrderedDescending, sortOrdered, sort, this]

/-- Go's `<` on `int` and on `string` (bytewise lexicographic = core's order on byte lists) and the
    natural order on keys are strict weak orders, so (1) applies to `SortOrdered*`. -/
theorem C19_natural_orders_strictWeak :
    StrictWeak intLt ∧ StrictWeak bytesLt ∧ StrictWeak Key.lt ∧
    (∀ a b : List Nat, bytesLt a b = true ↔ a < b) := by
  refine ⟨⟨fun a => by simp [intLt], fun a b c => by simp [intLt]; omega, fun a b c => by simp [intLt]; omega⟩,
    ⟨bytesLt_irrefl, bytesLt_trans, fun a b c hab => ?_⟩, ⟨Key.lt_irrefl, Key.lt_trans, fun a b c hab => ?_⟩,
    bytesLt_iff_lt⟩
  · rcases bytesLt_trichotomy a c with e | e | e
    · subst e; exact .inr (by
        rcases bytesLt_trichotomy a b with e | e | e
        · subst e; rw [bytesLt_irrefl] at hab; cases hab
        · exact e
        · rw [bytesLt_asymm hab] at e; cases e)
    · exact .inl e
    · exact .inr (bytesLt_trans _ _ _ e hab)
  · rcases Key.lt_trichotomy a c with e | e | e
    · subst e; exact .inr hab
    · exact .inl e
    · exact .inr (Key.lt_trans _ _ _ e hab)

/-- Go's `<` on floats without NaN (numeric value; `-0` and `+0` tie but can be told apart) is a strict
    weak order, so `SortOrdered*` on a float instantiation must keep `-0` / `+0` in input order
    (`C19_sort_stable`), ascending and descending (`C19_sortOrdered_desc`). -/
theorem C19_float_order_strictWeak : StrictWeak fltLt ∧ equivBy fltLt (0, true) (0, false) = true :=
  ⟨⟨fun a => by simp [fltLt], fun a b c => by simp [fltLt]; omega, fun a b c => by simp [fltLt]; omega⟩, by decide⟩

/-- Both `CompareTo` implementations (`ComparableOrdered[T]`, `ComparableString`) follow one sign
    convention: negative / zero / positive iff the receiver is naturally before / equal to / after the
    argument.  (The pinned commit had `ComparableOrdered` the other way round.) -/
theorem C19_compareTo_sign (a b : Key) :
    (a.compareTo b < 0 ↔ a.lt b = true) ∧ (a.compareTo b = 0 ↔ a = b) ∧ (a.compareTo b > 0 ↔ b.lt a = true) := by
  rcases Key.lt_trichotomy a b with h | h | h
  · subst h; simp [Key.compareTo_self, Key.lt_irrefl]
  · have hne : a ≠ b := by intro e; subst e; rw [Key.lt_irrefl] at h; cases h
    simp [Key.compareTo_of_lt h, h, Key.lt_asymm h, hne]
  · have hne : a ≠ b := by intro e; subst e; rw [Key.lt_irrefl] at h; cases h
    simp [Key.compareTo_of_gt h, h, Key.lt_asymm h, hne]

/-- The comparator of `SortBySortDescriptors` — the mirrored recursion of
    `_compareBySortDescriptors(…) < 0` incl. nil keys, direction and tie-break recursion — IS the
    lexicographic order by the descriptors' keys: natural order (nil first) for an ascending
    descriptor, reversed for a descending one, later descriptors breaking ties of earlier ones; for
    every mix of `ComparableOrdered[int]`, `ComparableOrdered[string]` and `ComparableString` keys. -/
theorem C19_desc (ds : List (Desc α)) (x y : α) : descLess ds x y = lexLt ds x y := by
  rw [descLess_eq_lexLt]

/-- … and it is a strict weak order, so (1) applies to the descriptor sorts. -/
theorem C19_desc_strictWeak (ds : List (Desc α)) : StrictWeak (descLess ds) := by
  rw [descLess_eq_lexLt]; exact lexLt_strictWeak ds

/-- per key kind, one descriptor: an ascending `ComparableOrdered[int]` descriptor compares by `<`,
    a descending one by `>`; likewise `ComparableString` with the bytewise string order. -/
theorem C19_desc_single (f : α → Int) (g : α → List Nat) (x y : α) :
    descLess [⟨fun r => some (.oi (f r)), true⟩] x y = decide (f x < f y) ∧
    descLess [⟨fun r => some (.oi (f r)), false⟩] x y = decide (f y < f x) ∧
    descLess [⟨fun r => some (.cs (g r)), true⟩] x y = bytesLt (g x) (g y) ∧
    descLess [⟨fun r => some (.cs (g r)), false⟩] x y = bytesLt (g y) (g x) ∧
    descLess [⟨fun r => some (.os (g r)), true⟩] x y = bytesLt (g x) (g y) ∧
    descLess [⟨fun r => some (.os (g r)), false⟩] x y = bytesLt (g y) (g x) := by
  simp [C19_desc, lexLt, Desc.keyLt, optLt, Key.lt]

/-- The pinned commit's comparator (result of `CompareTo` discarded, `>= 0`) answers "less" for an
    element against itself — it is not irreflexive, hence no strict weak order, for every descriptor
    stack: the contract of `sort.SliceStable` is broken on every input. -/
theorem C19_pinned_refuted (d : Desc α) (rest : List (Desc α)) (x : α) :
    descLessPinned (d :: rest) x x = true ∧ ¬ StrictWeak (descLessPinned (d :: rest)) := by
  have h0 : ∀ (rest : List (Desc α)) (d : Desc α), compareBySortDescriptorsPinned d rest x x = 0 := by
    intro rest
    induction rest with
    | nil => intro d; cases hk : d.key x <;> simp [compareBySortDescriptorsPinned, hk]
    | cons d' rest' ih => intro d; cases hk : d.key x <;> simp [compareBySortDescriptorsPinned, hk, ih d']
  have h1 : descLessPinned (d :: rest) x x = true := by simp [descLessPinned, h0]
  exact ⟨h1, fun hsw => by have := hsw.1 x; rw [h1] at this; cases this⟩

/-! ## (3) the descriptor sorts, composed -/

/-- `SortedListBySortDescriptors` / `ToSortedList`: the result is a permutation of the input, ordered
    lexicographically by the descriptors' keys, stable, and the input is left as it was. -/
theorem C19_sortedList (ds : List (Desc α)) (l : List α) :
    let (r, after) := sortedListBySortDescriptors ds l
    r.Perm l ∧ r.Pairwise (fun a b => lexLt ds b a = false) ∧
    (∀ x, r.filter (equivBy (lexLt ds) x) = l.filter (equivBy (lexLt ds) x)) ∧ after = l := by
  rw [sortedListBySortDescriptors_eq, descLess_eq_lexLt]
  exact ⟨sortBy_perm _ l, sortBy_pairwise (lexLt_strictWeak ds) l,
    sortBy_filter_equiv (lexLt_strictWeak ds) l, rfl⟩

/-- "without modifying the input", at the level of slices and backing arrays: for ANY heap and any
    well-formed caller slice, `result := append(input[:0:0], input...)` + in-place sort leaves every
    slice of every pre-existing backing array (the caller's `input` and all its aliases) reading as
    before, and the returned slice holds the sorted copy. -/
theorem C19_sortedList_heap (ds : List (Desc α)) (h : Heap α) (input : Slice)
    (hwf : input.off + input.len ≤ (h.getD input.arr []).length) :
    (sortedListH ds h input).1.read (sortedListH ds h input).2 = sortBy (descLess ds) (h.read input) ∧
    ∀ s' : Slice, s'.arr < h.length → (sortedListH ds h input).1.read s' = h.read s' :=
  sortedListH_spec ds h input hwf

/-- the capacity in `input[:0:0]` matters: with `input[:0]` the "copy" aliases the input and the
    caller's slice is sorted in place (a concrete heap). -/
theorem C19_alias_variant_modifies_input :
    let ds : List (Desc Int) := [⟨fun r => some (.oi r), true⟩]
    let input : Slice := ⟨0, 0, 2, 2⟩
    (sortedListAliasH ds [[2, 1]] input).1.read input = [1, 2] ∧ Heap.read [[2, 1]] input = [2, 1] := by
  simp [sortedListAliasH, Heap.append, Slice.emptyKeepCap, Heap.read, Heap.write, sortH, sort, descLess_eq_lexLt,
    sortBy, List.mergeSort, List.MergeSort.Internal.splitInTwo, lexLt, Desc.keyLt, optLt, Key.lt]

/-- `SortBySortDescriptors` / `builder.Sort`: the same, in place. -/
theorem C19_sortInPlace (ds : List (Desc α)) (l : List α) :
    let r := sortBySortDescriptors ds l
    r.Perm l ∧ r.Pairwise (fun a b => lexLt ds b a = false) ∧
    (∀ x, r.filter (equivBy (lexLt ds) x) = l.filter (equivBy (lexLt ds) x)) := by
  simp only [sortBySortDescriptors, sort, descLess_eq_lexLt]
  exact ⟨sortBy_perm _ l, sortBy_pairwise (lexLt_strictWeak ds) l, sortBy_filter_equiv (lexLt_strictWeak ds) l⟩

/-- A comparator that orders nil entries itself (nil first / nil last, non-nil entries by a strict weak
    `less`) is a strict weak order on `interface{}` lists with nil entries, so (1) — and the oracle
    theorem (4) — apply to the `interface{}` twins sorting such lists. -/
theorem C19_nil_comparator_strictWeak {β : Type} {less : β → β → Bool} (h : StrictWeak less) (nilFirst : Bool) :
    StrictWeak (nilLess nilFirst less) := by
  refine ⟨?_, ?_, ?_⟩
  · intro a; cases a <;> simp [nilLess, h.irrefl]
  · intro a b c hab hbc
    cases a <;> cases b <;> cases c <;> cases nilFirst <;> simp [nilLess] at hab hbc ⊢ <;> exact h.trans hab hbc
  · intro a b c hab
    cases a <;> cases b <;> cases c <;> cases nilFirst <;> simp [nilLess] at hab ⊢ <;> exact h.negTrans _ hab

/-! ## (3b) builders are values: forked builders sort by their OWN descriptor list -/

/-- Regenerated fact (closing theorem over `Gen/SortBuilder.lean`, re-extracted from sortDescriptor.go on
    every run): `NewSortDescriptorsBuilder` returns a slice of length 0 and capacity `builderInitCap` = 0,
    and every `ThenWith…` method appends to the receiver — the two facts the heap model of the builder
    (`newBuilder`, `thenWith`) assumes. -/
theorem C19_builder_code_shape :
    Gen.sortBuilderNew = .lenCap 0 builderInitCap ∧
    Gen.sortBuilderThenWith =
      [("ThenWith", .receiver), ("ThenWithFieldName", .receiver), ("ThenWithTransformerFunctor", .receiver)] ∧
    -- … and no `ThenWith…` method has a return path that hands out anything but the result of that append
    -- (in particular never the caller's argument slice)
    Gen.sortBuilderThenWithReturns =
      [("ThenWith", []), ("ThenWithFieldName", []), ("ThenWithTransformerFunctor", [])] := by
  decide

/-- Forking on ANY heap: from a FULL builder slice `p` (len = cap) derive any number of siblings by one
    `ThenWith…(d)` each.  Afterwards every sibling holds `p`'s descriptors followed by its own `d`, and
    `p` (and every other slice of an older backing array) reads as before: `ThenWith` returns
    `prefix ++ [d]` and leaves the receiver's descriptor list intact. -/
theorem C19_builder_fork {δ : Type} (h : Heap δ) (p : Slice) (ds : List δ)
    (hfull : p.len = p.cap) (hp : p.len = 0 ∨ p.arr < h.length) :
    let r := deriveSiblings h p (ds.map (fun d => [d]))
    r.2.map r.1.read = ds.map (fun d => h.read p ++ [d]) ∧
    ∀ s' : Slice, (s'.len = 0 ∨ s'.arr < h.length) → r.1.read s' = h.read s' :=
  deriveSiblings_single p hfull ds h hp

/-- A builder made by `NewSortDescriptorsBuilder()` and at most two `ThenWith…` calls IS full (Go grows
    0 → 1 → 2), so for every prefix of 1..2 keys and every list of sibling descriptors the builders of
    the model hold exactly `prefix` and `prefix ++ [d]` — stacks of up to 3 keys, the property's range. -/
theorem C19_forked_builders {δ : Type} (pre ds : List δ) (hlen : pre.length ≤ 2) :
    forkedBuilders pre (ds.map (fun d => [d])) = pre :: ds.map (fun d => pre ++ [d]) :=
  forkedBuilders_single pre ds hlen

/-- If the constructor reserved capacity (`make(SortDescriptorsBuilder[T], 0, 4)`), two siblings of a
    one-key builder WOULD share a backing array and the first-derived one would hold its sibling's
    descriptor — this is why `C19_builder_code_shape` pins the capacity. -/
theorem C19_builder_reserved_capacity_aliases {δ : Type} (a b c : δ) :
    forkedBuildersCap 4 [a] [[b], [c]] = [[a], [a, c], [a, c]] := by
  simp [forkedBuildersCap, newBuilderCap, thenWithChain, thenWith, deriveSiblings, Heap.append, Heap.read,
    Heap.write]

/-- Latent in the CURRENT code, beyond the property's 1..3 keys: a three-key builder has capacity 4
    (0 → 1 → 2 → 4), so two FOUR-key builders forked from it alias in the same way. -/
theorem C19_builder_fork_of_three_keys_aliases {δ : Type} (a b c d e : δ) :
    forkedBuilders [a, b, c] [[d], [e]] = [[a, b, c], [a, b, c, e], [a, b, c, e]] := by
  simp [forkedBuilders, forkedBuildersCap, builderInitCap, newBuilderCap, thenWithChain, thenWith, deriveSiblings,
    Heap.append, Heap.read, Heap.write, growCap]

/-- A caller-owned descriptor slice spread into an EMPTY builder is COPIED (`append` onto capacity 0
    allocates): whatever prefix `all[:k]` is spread (k = 1, 2; |all| = 2, 3), however the builder is
    extended afterwards and whatever the caller then writes into its slice (up to |all| entries), the
    builder holds `all[:k]`, its extension `all[:k] ++ [ext]`, and the caller's slice holds exactly its own
    writes.  (Shapes enumerated up to the property's 3 keys; elements arbitrary.) -/
theorem C19_spread_builder_copies {δ : Type} (a b c e w0 w1 w2 : δ) :
    spreadRun false [a, b] 1 [] e = [[a], [a, e], [a, b]] ∧
    spreadRun false [a, b] 2 [w0, w1] e = [[a, b], [a, b, e], [w0, w1]] ∧
    spreadRun false [a, b, c] 1 [w0] e = [[a], [a, e], [w0, b, c]] ∧
    spreadRun false [a, b, c] 2 [w0, w1, w2] e = [[a, b], [a, b, e], [w0, w1, w2]] ∧
    spreadRun false [a, b, c] 2 [] e = [[a, b], [a, b, e], [a, b, c]] := by
  simp [spreadRun, newBuilder, newBuilderCap, builderInitCap, thenWith, Heap.append, Heap.read, Heap.write,
    overwritePrefix, growCap]

/-- If `ThenWith` on an empty builder ADOPTED the argument slice instead (not the code; pinned by
    `C19_builder_code_shape`): the builder's extension would land in the caller's `all[1]`, and the
    caller's later writes would show through the builder. -/
theorem C19_spread_adoption_aliases {δ : Type} (a b c e w0 : δ) :
    spreadRun true [a, b, c] 1 [] e = [[a], [a, e], [a, e, c]] ∧
    spreadRun true [a, b] 2 [w0] e = [[w0, b], [a, b, e], [w0, b]] := by
  simp [spreadRun, newBuilder, newBuilderCap, builderInitCap, thenWith, Heap.append, Heap.read, Heap.write,
    overwritePrefix, growCap]

/-! ## (4) oracle = model: what `judge` accepts is exactly what `handle` answers -/

/-- The judge's oracle evaluates the property's own statement on the observed id sequence
    (permutation ∧ ordered by the comparator ∧ stable).  For a strict weak comparator it accepts an
    observation iff it is the model's answer — so on `C` cases every model/implementation mismatch is a
    violation of the property and there is nothing the judge could excuse. -/
theorem C19_oracle_accepts_exactly_model {β : Type} {less : β → β → Bool} (h : StrictWeak less)
    (recs : List β) (ids : List Nat) :
    verdict less recs ids = "allowed ordered stable permutation" ↔ ids = modelIds less recs :=
  (verdict_allowed_iff less recs ids).trans (acceptsB_iff h recs ids)

/-- The same for descriptor (`D`) cases: the oracle orders by the SPEC (`lexLt ds` on the keys), the
    model sorts with the mirrored `_compareBySortDescriptors`; they accept / produce the same sequence. -/
theorem C19_oracle_desc (ds : List (Desc Rec)) (recs : List Rec) (ids : List Nat) :
    verdict (lexLt ds) recs ids = "allowed ordered stable permutation" ↔
      ids = (sortBySortDescriptors (ds.map liftDesc) (tag recs)).map (·.1) := by
  rw [C19_oracle_accepts_exactly_model (lexLt_strictWeak ds), modelIds, sortBySortDescriptors, descLess_liftDesc]

/-! ## non-vacuity -/

/-- a full builder in a non-trivial heap: the one-key builder `New().ThenWith(d)` -/
example : (⟨1, 0, 1, 1⟩ : Slice).len = (⟨1, 0, 1, 1⟩ : Slice).cap ∧
    ((⟨1, 0, 1, 1⟩ : Slice).len = 0 ∨ (⟨1, 0, 1, 1⟩ : Slice).arr < ([[], [7]] : Heap Nat).length) := by decide

/-- a well-formed caller slice that is a window of a larger array with an alias next to it -/
example : (⟨0, 1, 2, 3⟩ : Slice).off + (⟨0, 1, 2, 3⟩ : Slice).len ≤ ((([[5, 3, 4, 1]] : Heap Nat)).getD 0 []).length := by
  decide


/-- a comparator with ties that is a strict weak order: parity -/
example : StrictWeak (fun a b : Nat => decide (a % 2 < b % 2)) :=
  ⟨fun a => by simp, fun a b c => by simp; omega, fun a b c => by simp; omega⟩

/-- the theorems with a `StrictWeak` hypothesis apply to that comparator, to Go's `<` on ints and
    strings, and to every descriptor comparator -/
example (l : List Nat) := C19_sort_stable (less := fun a b : Nat => decide (a % 2 < b % 2))
  ⟨fun a => by simp, fun a b c => by simp; omega, fun a b c => by simp; omega⟩ l
example (l : List Int) := C19_sortOrdered_desc C19_natural_orders_strictWeak.1 l
example (l : List (List Nat)) := C19_sortOrdered_desc C19_natural_orders_strictWeak.2.1 l
example (ds : List (Desc Rec)) (l : List Rec) := C19_sort_unique (C19_desc_strictWeak ds) l
example (recs : List Rec) (ids : List Nat) :=
  C19_oracle_accepts_exactly_model (less := fun x y : Rec => decide (getA x % 2 < getA y % 2))
    ⟨fun a => by simp, fun a b c => by simp; omega, fun a b c => by simp; omega⟩ recs ids

/-- ties are really kept in input order, non-ties really move -/
example : sortBy (fun a b : Nat => decide (a % 2 < b % 2)) [3, 2, 1, 4, 5] = [2, 4, 3, 1, 5] := by
  simp [sortBy, List.mergeSort, List.MergeSort.Internal.splitInTwo]

/-- the repository's own example (Age descending, then Name ascending): AB50 / AD30 / BC30 -/
example :
    let recs : List (Int × List Nat) := [(30, [66, 67]), (30, [65, 68]), (50, [65, 66])]
    let ds : List (Desc (Int × List Nat)) :=
      [⟨fun r => some (.oi r.1), false⟩, ⟨fun r => some (.cs r.2), true⟩]
    (sortedListBySortDescriptors ds recs).1 = [(50, [65, 66]), (30, [65, 68]), (30, [66, 67])] := by
  simp [sortedListBySortDescriptors_eq, descLess_eq_lexLt, sortBy, List.mergeSort,
    List.MergeSort.Internal.splitInTwo, lexLt, Desc.keyLt, optLt, Key.lt, bytesLt]

/-- nil keys come first for an ascending descriptor and ties among them are broken by the next one -/
example :
    let ds : List (Desc (Option Int × Int)) :=
      [⟨fun r => r.1.map Key.oi, true⟩, ⟨fun r => some (.oi r.2), false⟩]
    sortBySortDescriptors ds [(some 1, 0), (none, 1), (some 0, 5), (none, 2)] =
      [(none, 2), (none, 1), (some 0, 5), (some 1, 0)] := by
  simp [sortBySortDescriptors, sort, descLess_eq_lexLt, sortBy, List.mergeSort,
    List.MergeSort.Internal.splitInTwo, lexLt, Desc.keyLt, optLt, Key.lt]

end FpgoVerif.C19
