import FpgoVerif.Model.C19
/-! Property theorems for C19 (none yet). -/
