import FpgoVerif.Model.C19
/-! Property theorems for C19. -/
namespace FpgoVerif.C19

/-- `sortBy less l` is a permutation of `l` (any comparator). -/
theorem C19_sort_perm {α : Type} (less : α → α → Bool) (l : List α) : (sortBy less l).Perm l :=
  List.mergeSort_perm l _

end FpgoVerif.C19
