import FpgoVerif.Model.C03
/-! Property theorems for C03 (none yet). -/
