import FpgoVerif.Proofs.C03Loops
/-! Property theorems for C03: for every helper, the loop-mirroring implementation model equals the
    documented definition for ALL inputs (so in particular it never panics: the right-hand side is
    `.ok _` or a plain value).  Helper lemmas live in `Proofs/C03*.lean`. -/
namespace FpgoVerif.C03
variable {α β κ ν : Type}

theorem C03_map (z : β) (f : α → β) (xs : List α) : Impl.map z f xs = .ok (Spec.map f xs) := by
  simp [Impl.map, Spec.map, fillLoop_whole, map_zipIdx_fst]
  

theorem C03_mapIndexed (z : β) (f : α → Nat → β) (xs : List α) :
    Impl.mapIndexed z f xs = .ok (Spec.mapIndexed f xs) := by
  simp [Impl.mapIndexed, Spec.mapIndexed, fillLoop_whole, List.mapIdx_eq_zipIdx_map]

theorem C03_keys (z : κ) (m : List (κ × ν)) : Impl.keys z m = .ok (Spec.keys m) := by
  simp [Impl.keys, Spec.keys, fillLoop_whole, map_zipIdx_fst (fun p : κ × ν => p.1)]

theorem C03_values (z : ν) (m : List (κ × ν)) : Impl.values z m = .ok (Spec.values m) := by
  simp [Impl.values, Spec.values, fillLoop_whole, map_zipIdx_fst (fun p : κ × ν => p.2)]

theorem C03_reduce (fn : β → α → β) (memo : β) (xs : List α) :
    Impl.reduce fn memo xs = .ok (Spec.reduce fn memo xs) := by
  simpa [Impl.reduce, Spec.reduce] using reduceLoop_spec fn [] xs memo

theorem C03_dropEq [DecidableEq α] (num : α) (xs : List α) : Impl.dropEq num xs = Spec.dropEq num xs := by
  simp [Impl.dropEq, Spec.dropEq, dropEqLoop_spec]

theorem C03_exists [DecidableEq α] (x : α) (xs : List α) : Impl.exists_ x xs = Spec.exists_ x xs := by
  induction xs with
  | nil => simp [Impl.exists_, Spec.exists_]
  | cons v t ih =>
    by_cases h : v = x
    · simp [Impl.exists_, Spec.exists_, h]
    · have h' : ¬ x = v := fun e => h e.symm
      simp [Impl.exists_, Spec.exists_, h, h'] at *
      exact ih

theorem C03_every (f : Option (α → Bool)) (xs : List α) : Impl.every f xs = Spec.every f xs := by
  cases f with
  | none => rfl
  | some f => cases xs <;> simp [Impl.every, Spec.every, everyLoop_eq]

theorem C03_some (f : Option (α → Bool)) (xs : List α) : Impl.some f xs = Spec.some f xs := by
  cases f with
  | none => rfl
  | some f => simp [Impl.some, Spec.some, someLoop_eq]

theorem C03_partition (p : α → Bool) (xs : List α) : Impl.partition p xs = Spec.partition p xs := by
  simp [Impl.partition, Spec.partition, partitionLoop_spec]

theorem C03_drop (count : Int) (s : Sl α) :
    (Impl.drop count s).map Sl.vis = .ok (Spec.drop count s.vis) := by
  unfold Impl.drop Spec.drop Sl.len
  by_cases h1 : count ≤ 0
  · simp [h1, Except.map]
  · by_cases h2 : count ≥ (s.vis.length : Int)
    · have : s.vis.length ≤ count.toNat := by omega
      simp [h1, h2, Except.map, List.drop_eq_nil_of_le this]
    · have hc : 0 ≤ count ∧ count ≤ (s.vis.length : Int) ∧ (s.vis.length : Int) ≤ s.cap := by
        unfold Sl.cap; omega
      simp [h1, h2, Sl.reslice, hc, Except.map]

theorem C03_dropLast (count : Int) (s : Sl α) :
    (Impl.dropLast count s).map Sl.vis = .ok (Spec.dropLast count s.vis) := by
  unfold Impl.dropLast Spec.dropLast Sl.len
  by_cases hnil : s.vis = []
  · by_cases h1 : count ≤ 0 <;> simp [hnil, h1, Except.map]
  · have hpos : 0 < s.vis.length := List.length_pos_iff.mpr hnil
    by_cases h2 : (s.vis.length : Int) ≤ count
    · have h1 : ¬ count ≤ 0 := by omega
      have : s.vis.length - count.toNat = 0 := by omega
      simp [hnil, h1, h2, Except.map, this]
    · by_cases h1 : count ≤ 0
      · simp [hnil, h1, h2, Except.map]
      · have hc : count ≤ (s.vis.length : Int) ∧ (s.vis.length : Int) - count ≤ s.cap := by
          unfold Sl.cap; omega
        have e : ((s.vis.length : Int) - count).toNat = s.vis.length - count.toNat := by omega
        have hle : s.vis.length - count.toNat ≤ s.vis.length := by omega
        simp [hnil, h1, h2, Sl.reslice, hc, Except.map, e, List.take_append_of_le_length hle]

theorem C03_take (count : Int) (s : Sl α) :
    (Impl.take count s).map Sl.vis = .ok (Spec.take count s.vis) := by
  unfold Impl.take Spec.take Sl.len
  by_cases h1 : count ≤ 0
  · simp [h1, Except.map]
  · by_cases h2 : count ≥ (s.vis.length : Int)
    · have : s.vis.length ≤ count.toNat := by omega
      simp [h1, h2, Except.map, List.take_of_length_le this]
    · have hc : (0:Int) ≤ 0 ∧ (0:Int) ≤ count ∧ count ≤ s.cap := by
        unfold Sl.cap; omega
      have hle : count.toNat ≤ s.vis.length := by omega
      simp [h1, h2, Sl.reslice, hc, Except.map, List.take_append_of_le_length hle]

theorem C03_takeLast (count : Int) (s : Sl α) :
    (Impl.takeLast count s).map Sl.vis = .ok (Spec.takeLast count s.vis) := by
  unfold Impl.takeLast Spec.takeLast Sl.len
  by_cases h1 : count ≤ 0
  · simp [h1, Except.map]
  · by_cases h2 : count ≥ (s.vis.length : Int)
    · have : s.vis.length - count.toNat = 0 := by omega
      simp [h1, h2, Except.map, this]
    · have hc : (0:Int) ≤ (s.vis.length : Int) - count ∧ (s.vis.length : Int) - count ≤ (s.vis.length : Int)
          ∧ (s.vis.length : Int) ≤ s.cap := by
        unfold Sl.cap; omega
      have e : ((s.vis.length : Int) - count).toNat = s.vis.length - count.toNat := by omega
      have h3 : count ≤ (s.vis.length : Int) := by omega
      simp [h1, h2, h3, Sl.reslice, hc, Except.map, e]

theorem C03_tail (s : Sl α) : (Impl.tail s).map Sl.vis = .ok (Spec.tail s.vis) := by
  have := C03_drop 1 s
  simpa [Impl.tail, Spec.tail, Spec.drop] using this

theorem C03_head (z : α) (s : Sl α) : Impl.head z s = .ok (Spec.head z s.vis) := by
  unfold Impl.head Spec.head Sl.len
  cases hv : s.vis with
  | nil => simp
  | cons x t =>
    have hc : (0:Int) ≤ 0 ∧ (0:Int) ≤ 1 ∧ (1:Int) ≤ s.cap := by
      unfold Sl.cap; rw [hv]; simp; omega
    have : ¬ ((t.length : Int) + 1 ≤ 0) := by omega
    simp [Sl.reslice, hc, hv, this, getN]

theorem C03_duplicateSlice (s : Sl α) : Impl.duplicateSlice s = .ok (Spec.duplicateSlice s.vis) := by
  unfold Impl.duplicateSlice Spec.duplicateSlice Sl.len
  cases hv : s.vis with
  | nil => simp
  | cons x t =>
    have hc : (0:Int) ≤ s.cap := by unfold Sl.cap; omega
    have : (0:Int) < (t.length : Int) + 1 := by omega
    simp [Sl.reslice3, hc, this, Sl.append]

theorem C03_prepend (x : α) (xs : List α) : Impl.prepend x xs = Spec.prepend x xs := by
  simp only [Impl.prepend, Spec.prepend, Sl.append]
  split <;> rfl

theorem C03_isDistinct [DecidableEq α] (xs : List α) : Impl.isDistinct xs = Spec.isDistinct xs := by
  cases xs with
  | nil => simp [Impl.isDistinct, Spec.isDistinct]
  | cons x t => simp [Impl.isDistinct, Spec.isDistinct, isDistinctLoop_spec]

theorem C03_isEqual [DecidableEq α] (xs ys : List α) : Impl.isEqual xs ys = .ok (Spec.isEqual xs ys) := by
  unfold Impl.isEqual Spec.isEqual
  by_cases h : xs.length = 0 ∨ ys.length = 0 ∨ xs.length ≠ ys.length
  · have : (!xs.isEmpty && !ys.isEmpty && decide (xs = ys)) = false := by
      rcases h with h | h | h
      · simp [List.eq_nil_of_length_eq_zero h]
      · simp [List.eq_nil_of_length_eq_zero h]
      · have : xs ≠ ys := fun e => h (by rw [e])
        simp [this]
    simp only [h, if_true, this]
  · have hl : xs.length = ys.length := by omega
    have hx : xs ≠ [] := by intro e; simp [e] at h
    have hy : ys ≠ [] := by intro e; simp [e] at h
    have := isEqualLoop_spec [] [] xs ys rfl hl
    simp at this
    have e1 : xs.isEmpty = false := by cases xs <;> simp_all
    have e2 : ys.isEmpty = false := by cases ys <;> simp_all
    rw [hl] at this
    simp [hx, hy, hl, this, e1, e2]

theorem C03_uniqBy [DecidableEq κ] (g : α → κ) (xs : List α) : Impl.uniqBy g xs = Spec.uniqBy g xs := by
  have h : List.filter (fun _ : α => true) xs = xs := List.filter_eq_self.mpr (fun _ _ => rfl)
  simp [Impl.uniqBy, Spec.uniqBy, uniqByLoop_spec, h]

theorem C03_distinct [DecidableEq α] (z : α) (xs : List α) : Impl.distinct z xs = .ok (Spec.distinct xs) := by
  unfold Impl.distinct Spec.distinct
  cases xs with
  | nil => simp [mk]
  | cons x t =>
    have h := distinctLoop_spec (x :: t) [] [] (mk (x :: t).length z) (by simp [mk])
    have hf : List.filter (fun y => decide (y ∉ ([] : List α))) (x :: t) = x :: t :=
      List.filter_eq_self.mpr (fun _ _ => by simp)
    rw [hf] at h
    simp only [List.nil_append, List.length_nil, Nat.zero_add] at h
    simp only [List.length_cons, gt_iff_lt, Nat.zero_lt_succ, if_true, bind_ok]
    simp only [List.length_cons] at h
    rw [h]
    simp [Sl.reslice, Sl.cap, mk]

theorem C03_filter (z : α) (fn : α → Nat → Bool) (xs : List α) :
    Impl.filter z fn xs = .ok (Spec.filter fn xs) := by
  unfold Impl.filter Spec.filter
  have h := filterLoop_spec fn xs 0 [] (mk xs.length z) (by simp [mk])
  simp only [List.nil_append, List.length_nil, Nat.zero_add] at h
  have h0 : ((0 : Nat) : Int) = 0 := rfl
  rw [h0] at h
  rw [h]
  simp only [bind_ok, reslice_prefix, pure_eq_ok]

theorem C03_reject (z : α) (fn : α → Nat → Bool) (xs : List α) :
    Impl.reject z fn xs = .ok (Spec.reject fn xs) := by
  simpa [Impl.reject, Spec.reject, Spec.filter] using C03_filter z (fun v i => !fn v i) xs

end FpgoVerif.C03
